#!/bin/bash
# confirm every incoming seeded change that is not filed yet (or all given as arguments)
cd /verif
for d in ${@:-/root/seeded_incoming/C*_[0-9]}; do
  s=$(basename $d); P=${s%_*}
  [ -f /verif/seeded/$s/meta.json ] && [ -z "${FORCE:-}" ] && continue
  [ -f $d/patch.diff ] || continue
  r=$(tools/confirm_seed.py $d $P 2>&1 | tail -1)
  echo "$s: $r"
done
