#!/usr/bin/env python3
"""Run /repo's suite (guard off) and compare with BASELINE.json stable_pass. usage: tools/baseline.py [repo_dir]"""
import json, os, subprocess, sys, tempfile
import xml.etree.ElementTree as ET
repo = sys.argv[1] if len(sys.argv) > 1 else '/repo'
base = json.load(open('/root/.vp/BASELINE.json'))
stable = set(base['stable_pass'])
jx = tempfile.mktemp(suffix='.xml')
env = dict(os.environ); env.pop('PYPHYSIM_VERIF', None)
subprocess.run('/venv/bin/python -m pytest -q -p no:cacheprovider --timeout=900 --continue-on-collection-errors --junitxml=%s' % jx,
               shell=True, cwd=repo, env=env, stdout=subprocess.DEVNULL, stderr=subprocess.DEVNULL)
passed = set()
for tc in ET.parse(jx).getroot().iter('testcase'):
    if not any(c.tag in ('failure', 'error', 'skipped') for c in tc):
        passed.add('%s::%s' % (tc.get('classname'), tc.get('name')))
os.remove(jx)
missing = sorted(stable - passed)
still = []
for t in missing:
    cls, fn = t.split('::'); mod, c = cls.rsplit('.', 1)
    nodeid = '%s.py::%s::%s' % (mod.replace('.', '/'), c, fn)
    ok = False
    for _ in range(3):
        r = subprocess.run('/venv/bin/python -m pytest -q -p no:cacheprovider --timeout=900 "%s"' % nodeid, shell=True, cwd=repo, env=env,
                           stdout=subprocess.DEVNULL, stderr=subprocess.DEVNULL)
        if r.returncode == 0:
            ok = True; break
    if not ok:
        still.append(t)
print('passed=%d stable_missing_first_run=%s still_failing_alone=%s newly_passing=%d' % (len(passed), missing, still, len(passed - stable)))
sys.exit(1 if still else 0)
