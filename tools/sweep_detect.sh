#!/bin/bash
# quick re-check of every filed seeded change of the given properties against the current /repo HEAD and the current checks:
# apply the patch to a scratch worktree, run the quick tier, report detected / MISSED / does-not-apply (no suite run)
cd /verif
one() { P=$1; for d in seeded/${P}_*; do [ -f $d/patch.diff ] || continue; n=$(basename $d); WT=/tmp/sweep_$n; git -C /repo worktree add -q --detach $WT HEAD 2>/dev/null || { echo "$n: worktree-error"; continue; }
  if ( cd $WT && git apply $OLDPWD/$d/patch.diff 2>/dev/null ); then
    out=$(VERIF_EVIDENCE_DIR=/tmp/seed_evidence PYPHYSIM_REPO=$WT ./check $P --tier quick 2>&1); rc=$?
    nf=$(echo "$out" | grep -c '^VIOLATION.*no-failing-input-found'); v=$(echo "$out" | grep -c '^VIOLATION')
    if [ $rc -eq 1 ]; then [ $v -gt $nf ] && echo "$n: detected" || echo "$n: detected-tie-only"; else echo "$n: MISSED (exit $rc)"; fi
  else echo "$n: DOES-NOT-APPLY"; fi
  git -C /repo worktree remove --force $WT; done; }
export -f one
printf '%s\n' "$@" | xargs -P ${JOBS:-5} -I{} bash -c 'one {}'
