#!/bin/bash
# re-run tools/refactor_test.py (check only, no suite) for every filed rewrite; one worker per property
cd /verif
one() { P=$1; for d in refactors/${P}_*; do [ -f $d/patch.diff ] || continue; tools/refactor_test.py $d $P --nosuite 2>&1 | tail -1; done; }
export -f one
ls -d refactors/C*_* | sed 's|refactors/||; s|_.*||' | sort -u | xargs -P ${JOBS:-6} -I{} bash -c 'one {}'
