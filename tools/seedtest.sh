#!/bin/bash
# usage: tools/seedtest.sh <patch.diff> <Cxx> [tier]  — run a check against a scratch worktree of /repo with the patch applied
set -u
PATCH=$(realpath "$1"); PROP=$2; TIER=${3:-quick}
WT=/tmp/seedtest_$$
git -C /repo worktree add -q --detach "$WT" HEAD || exit 3
( cd "$WT" && git apply "$PATCH" ) || { echo "PATCH DOES NOT APPLY"; git -C /repo worktree remove --force "$WT"; exit 3; }
cd /verif && VERIF_EVIDENCE_DIR=/tmp/seed_evidence PYPHYSIM_REPO="$WT" ./check "$PROP" --tier "$TIER" 2>&1 | grep -v "^KNOWN-FINDING" | tail -6
rc=${PIPESTATUS[0]}
git -C /repo worktree remove --force "$WT"
echo "seedtest exit=$rc"
