#!/usr/bin/env python3
"""Regression table of the source->Lean translator plugins (harness/translate.py + harness/gen/*.py).

For every patch under refactors/ (behaviour-preserving rewrites) and seeded/ (semantic changes, each breaks
its property) that touches a file some translator plugin reads:

  1. apply it to a scratch worktree of /repo HEAD,
  2. run harness/translate.py for the affected generated modules into a scratch output directory
     (VERIF_LEAN_OUT), never into the committed lean/PyPhysim/Generated,
  3. compare the emitted text with the committed one (= the translation of /repo HEAD),
  4. where it differs, put it into a scratch COPY of the lean tree and `lake build` every Properties module
     whose import closure contains the generated module (do the bridge theorems still prove?),
  5. undo the patch.

Output: a JSON table {patch: {kind, targets: {Generated: {translates, error, identical, bridges}}}} and a
one-line-per-patch summary.  A patch is ACCEPTED by a plugin when the module translates and (text identical
or every bridge module builds).  Expected: rewrites accepted; for seeded patches no acceptance that the
"before" table does not already have (those are caught by correspondence / oracles, not by this tie).

usage: tools/translator_regress.py --out tools/translator_regress_after.json [--only NAME[,NAME..]]
                                   [--compare tools/translator_regress_before.json] [--keep] [--no-build]
                                   [--from TABLE.json]  (no run: compare / summarise an existing table)
                                   [--extra DIR]   (also DIR/<name>/patch.diff, tabulated as kind `mutation`:
                                                    exit 1 if one of them is accepted)
scratch: /tmp/deeptrans_repo (worktree of /repo), /tmp/deeptrans_lean (copy of lean/), /tmp/deeptrans_gen
"""
import builtins
import json
import os
import re
import shutil
import subprocess
import sys

WT = os.path.dirname(os.path.dirname(os.path.abspath(__file__)))
SRC_REPO = os.environ.get('TR_SRC_REPO', '/repo')
REPO_WT = os.environ.get('TR_REPO_WT', '/tmp/deeptrans_repo')
LEAN_COPY = os.environ.get('TR_LEAN_COPY', '/tmp/deeptrans_lean')
GEN_OUT = os.environ.get('TR_GEN_OUT', '/tmp/deeptrans_gen')
PY = os.environ.get('VERIF_PYTHON', '/venv/bin/python')
ENV = dict(os.environ, PATH='/opt/veriftools/lean/bin:' + os.environ.get('PATH', ''))


def sh(cmd, cwd=None, env=None, timeout=3000):
    p = subprocess.run(cmd, shell=isinstance(cmd, str), cwd=cwd, env=env or ENV, stdout=subprocess.PIPE,
                       stderr=subprocess.STDOUT, text=True, timeout=timeout)
    return p.returncode, p.stdout


def arg(name, default=None):
    return sys.argv[sys.argv.index(name) + 1] if name in sys.argv else default


def setup():
    if not os.path.isdir(REPO_WT):
        rc, out = sh('git -C %s worktree add -q --detach %s HEAD' % (SRC_REPO, REPO_WT))
        assert rc == 0, out
    reset_repo()
    # scratch copy of the lean tree (with its build products), sources refreshed from the worktree
    if not os.path.isdir(LEAN_COPY):
        rc, out = sh('cp -a %s/lean %s' % (WT, LEAN_COPY))
        assert rc == 0, out
    rc, out = sh('rsync -a --delete --exclude .lake %s/lean/ %s/' % (WT, LEAN_COPY))
    assert rc == 0, out


def reset_repo():
    rc, out = sh('git checkout -q -- . && git clean -fdq', cwd=REPO_WT)
    assert rc == 0, out


def reads_of_targets():
    """{generated module: set of repo-relative files its plugin opens} (observed on the clean checkout)"""
    os.environ['PYPHYSIM_REPO'] = REPO_WT
    sys.path.insert(0, WT)
    from harness import translate
    reads = {}
    real_open = builtins.open
    for name, fn in translate.TARGETS.items():
        seen = set()

        def spy(path, *a, **k):
            p = os.path.abspath(str(path))
            if p.startswith(REPO_WT + os.sep):
                seen.add(os.path.relpath(p, REPO_WT))
            return real_open(path, *a, **k)
        builtins.open = spy
        try:
            text = fn(REPO_WT)
        finally:
            builtins.open = real_open
        committed = real_open(os.path.join(WT, 'lean', 'PyPhysim', 'Generated', name + '.lean')).read()
        assert text == committed, 'committed Generated/%s.lean is not the translation of %s HEAD' % (name, SRC_REPO)
        reads[name] = seen
    return reads


def imports_of(path):
    out = []
    with open(path) as f:
        for line in f:
            m = re.match(r'\s*(?:public\s+)?import\s+(PyPhysim\.[\w.]+)', line)
            if m:
                out.append(m.group(1))
    return out


def users_of_generated():
    """{generated module name: [Properties modules whose import closure contains it]}"""
    base = os.path.join(WT, 'lean')
    cache = {}

    def closure(mod):
        if mod in cache:
            return cache[mod]
        cache[mod] = set()
        path = os.path.join(base, mod.replace('.', '/') + '.lean')
        acc = {mod}
        if os.path.exists(path):
            for m in imports_of(path):
                acc |= closure(m)
        cache[mod] = acc
        return acc
    users = {}
    pdir = os.path.join(base, 'PyPhysim', 'Properties')
    for f in sorted(os.listdir(pdir)):
        if f.endswith('.lean'):
            mod = 'PyPhysim.Properties.' + f[:-5]
            for m in closure(mod):
                if m.startswith('PyPhysim.Generated.'):
                    users.setdefault(m.split('.')[-1], []).append(mod)
    return users


def patches():
    out = []
    for kind in ('refactors', 'seeded'):
        d = os.path.join(WT, kind)
        for name in sorted(os.listdir(d)):
            p = os.path.join(d, name, 'patch.diff')
            if os.path.isfile(p):
                out.append((kind, name, p))
    extra = arg('--extra')
    if extra:
        # hand-made semantic mutations (tools/translator_mutations.py): kind `mutation`, all must be rejected
        for name in sorted(os.listdir(extra)):
            p = os.path.join(extra, name, 'patch.diff')
            if os.path.isfile(p):
                out.append(('mutation', name, p))
    return out


def touched(patch):
    with open(patch) as f:
        text = f.read()
    return set(re.findall(r'^(?:\+\+\+ b|--- a)/(\S+)', text, re.M))


def first_errors(out, n=3):
    errs = re.findall(r'^error: (.*)$', out, re.M)
    return ' | '.join(e[:160] for e in errs[:n]) or out[-300:]


def run_patch(kind, name, patch, targets, users):
    res = {'kind': kind, 'targets': {}}
    rc, out = sh(['git', 'apply', patch], cwd=REPO_WT)
    if rc != 0:
        res['error'] = 'patch does not apply: ' + out[:200]
        reset_repo()
        return res
    try:
        out_dir = os.path.join(GEN_OUT, kind + '_' + name)
        shutil.rmtree(out_dir, ignore_errors=True)
        env = dict(ENV, PYPHYSIM_REPO=REPO_WT, VERIF_LEAN_OUT=out_dir)
        rc, out = sh([PY, os.path.join(WT, 'harness', 'translate.py')] + sorted(targets), cwd=WT, env=env)
        status = {}
        for line in out.splitlines():
            m = re.match(r'(\w+) (unchanged|rewritten|error: .*)$', line)
            if m:
                status[m.group(1)] = m.group(2)
        changed = []
        for t in sorted(targets):
            st = status.get(t, 'error: no output from translate.py: ' + out[-200:])
            r = {'translates': not st.startswith('error'), 'error': None, 'identical': None, 'bridges': None}
            if not r['translates']:
                r['error'] = st[len('error: '):][:400]
            else:
                with open(os.path.join(out_dir, 'PyPhysim', 'Generated', t + '.lean')) as f:
                    text = f.read()
                with open(os.path.join(WT, 'lean', 'PyPhysim', 'Generated', t + '.lean')) as f:
                    r['identical'] = (text == f.read())
                if not r['identical']:
                    changed.append((t, text))
            res['targets'][t] = r
        if changed and '--no-build' not in sys.argv:
            for t, text in changed:
                with open(os.path.join(LEAN_COPY, 'PyPhysim', 'Generated', t + '.lean'), 'w') as f:
                    f.write(text)
            try:
                for t, _ in changed:
                    br = {}
                    for mod in users.get(t, []):
                        rc, out = sh(['lake', 'build', mod], cwd=LEAN_COPY)
                        br[mod] = 'ok' if rc == 0 else 'fail: ' + first_errors(out)
                    res['targets'][t]['bridges'] = br
            finally:
                for t, _ in changed:
                    shutil.copyfile(os.path.join(WT, 'lean', 'PyPhysim', 'Generated', t + '.lean'),
                                    os.path.join(LEAN_COPY, 'PyPhysim', 'Generated', t + '.lean'))
    finally:
        reset_repo()
    return res


def accepted(r):
    """the plugin + bridge obligations do not object to the patched source"""
    if not r['translates']:
        return False
    if r['identical']:
        return True
    return r['bridges'] is not None and all(v == 'ok' for v in r['bridges'].values())


def verdict(r):
    if not r['translates']:
        return 'REJECT(translate)'
    if r['identical']:
        return 'accept(identical)'
    if r['bridges'] is None:
        return 'differs(not built)'
    bad = [m.split('.')[-1] for m, v in r['bridges'].items() if v != 'ok']
    return 'REJECT(bridge %s)' % ','.join(bad) if bad else 'accept(bridges build)'


def main():
    only = set(arg('--only', '').split(',')) - {''}
    table = {}
    if arg('--from'):
        # only re-do the comparison / summary of a table produced earlier
        with open(arg('--from')) as f:
            table = json.load(f)['table']
        reads = users = None
    else:
        setup()
        reads = reads_of_targets()
        users = users_of_generated()
    for kind, name, patch in ([] if arg('--from') else patches()):
        if only and name not in only:
            continue
        files = touched(patch)
        targets = {t for t, fs in reads.items() if fs & files}
        if not targets:
            continue
        res = run_patch(kind, name, patch, targets, users)
        table[kind + '/' + name] = res
        print('%-22s %s' % (kind + '/' + name,
                            '; '.join('%s: %s' % (t, verdict(r)) for t, r in sorted(res['targets'].items()))
                            or res.get('error')), flush=True)
    out = arg('--out')
    if out and not arg('--from'):
        with open(out, 'w') as f:
            json.dump({'reads': {k: sorted(v) for k, v in reads.items()}, 'users': users, 'table': table}, f,
                      indent=1, sort_keys=True)
    rc = 0
    try:
        sys.path.insert(0, os.path.join(WT, 'tools'))
        from translator_mutations import FOLLOWS_SOURCE
    except Exception:
        FOLLOWS_SOURCE = []
    for key in sorted(table):
        if table[key]['kind'] == 'mutation' and all(accepted(r) for r in table[key]['targets'].values()):
            if key.split('/')[1] in FOLLOWS_SOURCE:
                print('mutation accepted (a constant no theorem pins; the model follows the source): ' + key)
            else:
                print('MUTATION ACCEPTED: ' + key)
                rc = 1
    cmp_ = arg('--compare')
    if cmp_:
        with open(cmp_) as f:
            before = json.load(f)['table']
        print('\n== compared with %s' % cmp_)
        for key in sorted(table):
            if table[key]['kind'] == 'mutation':
                continue                        # (judged above; they have no "before")
            for t, r in sorted(table[key]['targets'].items()):
                b = before.get(key, {}).get('targets', {}).get(t)
                if b is None and key in before:
                    # the plugin did not read any file the patch touches at that time: same text as HEAD
                    b = {'translates': True, 'error': None, 'identical': True, 'bridges': None}
                was = accepted(b) if b else None
                now = accepted(r)
                if was == now:
                    continue
                tag = 'newly accepted' if now else 'newly rejected'
                if table[key]['kind'] == 'seeded' and now:
                    tag = 'NEW ACCEPTANCE OF A SEEDED CHANGE'
                    rc = 1
                print('%-22s %-14s %s  (%s -> %s)' % (key, t, tag, verdict(b) if b else 'absent', verdict(r)))
    if '--keep' not in sys.argv:
        shutil.rmtree(GEN_OUT, ignore_errors=True)
    return rc


if __name__ == '__main__':
    sys.exit(main())
