#!/bin/bash
# test every behaviour-preserving rewrite under /root/refactor_incoming that is not filed under /verif/refactors yet;
# one worker per property (two rewrites of one property never run at once), JOBS properties in parallel
cd /verif
todo() { for d in /root/refactor_incoming/*_f5_*; do n=$(basename $d); [ -f $d/meta.json ] && [ ! -d refactors/$n ] && [ ! -f /root/runlogs/refq_$n.lock ] && echo $n; done; }
one() { P=$1; for n in $(ls /root/refactor_incoming | grep "^${P}_f5_"); do [ -d refactors/$n ] && continue; [ -f /root/refactor_incoming/$n/meta.json ] || continue; touch /root/runlogs/refq_$n.lock; tools/refactor_test.py /root/refactor_incoming/$n $P 2>&1 | tail -1; done; }
export -f one
todo | sed 's/_.*//' | sort -u | xargs -P ${JOBS:-4} -I{} bash -c "one {}"
