#!/bin/bash
# re-confirm every filed seeded change against the current /repo HEAD (one worker per property)
cd /verif
one() { P=$1; for d in seeded/${P}_*; do [ -f $d/patch.diff ] || continue; r=$(tools/confirm_seed.py $d $P 2>&1 | tail -1); echo "$(basename $d): $r"; done; }
export -f one
ls -d seeded/C*_* | sed 's|seeded/||; s|_.*||' | sort -u | xargs -P ${JOBS:-6} -I{} bash -c 'one {}'
