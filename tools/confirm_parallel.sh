#!/bin/bash
# confirm incoming seeds given on the command line, one worker per property (never two suites of the same property at once)
cd /verif
one() { P=$1; shift; for d in "$@"; do case $(basename $d) in ${P}_*) r=$(tools/confirm_seed.py $d $P 2>&1 | tail -1); echo "$(basename $d): $r";; esac; done; }
export -f one
printf '%s\n' "$@" | xargs -n1 basename | sed 's/_.*//' | sort -u | xargs -P ${JOBS:-4} -I{} bash -c "one {} $*"
