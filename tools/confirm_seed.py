#!/usr/bin/env python3
"""Confirm a seeded change independently, then file it under /verif/seeded/<name>/.

usage: tools/confirm_seed.py <incoming_dir> <Cxx> [--tier quick]
 1. scratch worktree of /repo HEAD; demo.py must exit 0 there
 2. apply patch.diff; full baseline suite must still pass every stable test; demo.py must exit != 0
 3. run ./check Cxx against the patched worktree; record whether it raises a VIOLATION and how
 4. remove the worktree
"""
import json, os, re, shutil, subprocess, sys, tempfile
import xml.etree.ElementTree as ET

inc, prop = os.path.abspath(sys.argv[1].rstrip('/')), sys.argv[2]
tier = sys.argv[sys.argv.index('--tier') + 1] if '--tier' in sys.argv else 'quick'
name = os.path.basename(inc)
base = json.load(open('/root/.vp/BASELINE.json'))
stable = set(base['stable_pass'])
wt = tempfile.mkdtemp(prefix='seedconf_')
os.rmdir(wt)
def sh(cmd, cwd=None, env=None, timeout=3000):
    p = subprocess.run(cmd, shell=True, cwd=cwd, env=env, stdout=subprocess.PIPE, stderr=subprocess.STDOUT, text=True, timeout=timeout)
    return p.returncode, p.stdout
rc, out = sh('git -C /repo worktree add -q --detach %s HEAD' % wt)
assert rc == 0, out
ran = []
try:
    rc0, out0 = sh('/venv/bin/python %s/demo.py %s' % (inc, wt), cwd=wt)
    ran.append('demo on unmodified HEAD: exit %d' % rc0)
    rc, out = sh('git apply %s/patch.diff' % os.path.abspath(inc), cwd=wt)
    if rc != 0:
        print('PATCH DOES NOT APPLY', out); sys.exit(3)
    rc1, out1 = sh('/venv/bin/python %s/demo.py %s' % (inc, wt), cwd=wt)
    ran.append('demo with patch: exit %d; %s' % (rc1, out1.strip().split('\n')[-1][:200] if out1.strip() else ''))
    jx = os.path.join(wt, '_junit.xml')
    rc, out = sh('/venv/bin/python -m pytest -q -p no:cacheprovider --timeout=900 --continue-on-collection-errors --junitxml=%s' % jx, cwd=wt)
    passed = set()
    for tc in ET.parse(jx).getroot().iter('testcase'):
        if not any(c.tag in ('failure', 'error', 'skipped') for c in tc):
            passed.add('%s::%s' % (tc.get('classname'), tc.get('name')))
    os.remove(jx)
    missing = sorted(stable - passed)
    # timing-sensitive tests can fail under load: re-run each missing test alone
    still = []
    for t in missing:
        cls, fn = t.split('::')
        mod, c = cls.rsplit('.', 1)
        nodeid = '%s.py::%s::%s' % (mod.replace('.', '/'), c, fn)
        okk = False
        for _ in range(2):
            try:
                r, o = sh('/venv/bin/python -m pytest -q -p no:cacheprovider --timeout=200 "%s"' % nodeid, cwd=wt, timeout=300)
            except subprocess.TimeoutExpired:
                r = 1
            if r == 0:
                okk = True
                break
        if not okk:
            still.append(t)
    if missing:
        ran.append('re-ran alone: %s -> still failing: %s' % (missing, still))
    missing = still
    flaky = set(base.get('flaky', []))
    ran.append('full suite with patch: %d passed, stable tests not passing: %s' % (len(passed), missing))
    env = dict(os.environ, PYPHYSIM_REPO=wt, VERIF_EVIDENCE_DIR='/tmp/seed_evidence')
    rc2, out2 = sh('./check %s --tier %s' % (prop, tier), cwd='/verif', env=env)
    vio = [l for l in out2.split('\n') if l.startswith('VIOLATION')]
    ran.append('./check %s --tier %s with patch: exit %d; %s' % (prop, tier, rc2, vio[:3]))
    how = []
    for l in vio:
        m = re.search(r'replay=(\S+)', l)
        if m and os.path.exists(os.path.join('/verif', m.group(1))):
            r = json.load(open(os.path.join('/verif', m.group(1))))
            how.append({'kind': r.get('kind'), 'call': r.get('call'), 'class': r.get('class'),
                        'case': r.get('case'), 'broken': [b.get('name') for b in r.get('broken', [])][:5],
                        'no_failing_input_found': 'no-failing-input-found' in l})
    ok = rc0 == 0 and rc1 != 0 and not missing
    print('\n'.join(ran))
    print('CONFIRMED' if ok else 'NOT CONFIRMED', '| detected' if rc2 == 1 else '| MISSED (exit %d)' % rc2)
    if ok:
        dst = os.path.join('/verif/seeded', name)
        os.makedirs(dst, exist_ok=True)
        for f in ('patch.diff', 'demo.py'):
            if os.path.realpath(os.path.join(inc, f)) != os.path.realpath(os.path.join(dst, f)):
                shutil.copy(os.path.join(inc, f), dst)
        meta = json.load(open(os.path.join(inc, 'meta.json')))
        if 'ran' in meta:
            meta['agent_ran'] = meta.pop('ran')
        meta['confirmed_by_integrator'] = ran
        meta['base_commit'] = subprocess.check_output(['git', '-C', '/repo', 'rev-parse', '--short', 'HEAD'], text=True).strip()
        meta['detected'] = rc2 == 1
        meta['detected_how'] = how[:3]
        meta['detected_how_total'] = len(how)
        json.dump(meta, open(os.path.join(dst, 'meta.json'), 'w'), indent=1, default=str)
finally:
    sh('git -C /repo worktree remove --force %s' % wt)
