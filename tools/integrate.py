#!/usr/bin/env python3
"""Integration helper: tools/integrate.py Cxx
  - merges findings/Cxx.json into known_findings.json (replacing records with the same id)
  - runs ./check Cxx for seeds 0..2 (quick) against /repo and reports exit codes
  - adds Cxx to INTEGRATED in harness/manifest.py and regenerates MANIFEST.json when all exit 0
"""
import json, os, re, subprocess, sys
V = '/verif'
pid = sys.argv[1].upper()
kf = os.path.join(V, 'known_findings.json')
known = json.load(open(kf))
st = os.path.join(V, 'findings', pid + '.json')
if os.path.exists(st):
    new = json.load(open(st))
    ids = {r['id'] for r in new}
    known = [r for r in known if r['id'] not in ids] + new
    json.dump(known, open(kf, 'w'), indent=1)
    open(kf, 'a').write('\n')
    os.remove(st)
    print('merged %d finding records' % len(new))
ok = True
for seed in (0, 1, 2):
    env = dict(os.environ, VERIF_SEED=str(seed))
    env.pop('PYPHYSIM_REPO', None)
    p = subprocess.run(['./check', pid, '--tier', 'quick'], cwd=V, env=env, stdout=subprocess.PIPE, stderr=subprocess.STDOUT, text=True)
    lines = p.stdout.strip().split('\n')
    print('seed', seed, 'exit', p.returncode, '|', lines[-1][:200])
    for l in lines:
        if l.startswith(('VIOLATION', 'KNOWN-FINDING', 'INFRA')):
            print('   ', l[:220])
    ok = ok and p.returncode == 0
if ok:
    mp = os.path.join(V, 'harness', 'manifest.py')
    s = open(mp).read()
    m = re.search(r"INTEGRATED = \[(.*?)\]", s)
    cur = [x.strip().strip("'") for x in m.group(1).split(',') if x.strip()]
    if pid not in cur:
        cur = sorted(cur + [pid])
        s = s.replace(m.group(0), 'INTEGRATED = [%s]' % ', '.join("'%s'" % c for c in cur))
        open(mp, 'w').write(s)
    subprocess.run(['python3', 'harness/manifest.py'], cwd=V, check=True)
    print('integrated:', cur)
else:
    print('NOT integrated (non-zero exit on the clean tree)')
