#!/usr/bin/env python3
"""Markdown table of the seeded changes under /verif/seeded and what catches them."""
import glob, json, os
V = os.path.dirname(os.path.dirname(os.path.abspath(__file__)))
hist = json.load(open(os.path.join(V, 'seeded', 'HISTORY.json')))
print('| seeded change | needs | caught by (quick tier) | notes |')
print('|---|---|---|---|')
for d in sorted(glob.glob(os.path.join(V, 'seeded', 'C*_*'))):
    sid = os.path.basename(d)
    m = json.load(open(os.path.join(d, 'meta.json')))
    how = []
    for h in m.get('detected_how', []):
        if h.get('kind') == 'input':
            how.append('oracle `%s` class `%s`' % (h.get('call'), h.get('class')))
        else:
            how.append('%s broken: %s%s' % (h.get('kind'), ', '.join(sorted(set(h.get('broken') or []))[:3]),
                                            ' (no-failing-input-found)' if h.get('no_failing_input_found') else ''))
        br = [b for b in (h.get('broken') or []) if b]
        if h.get('kind') == 'input' and br:
            how[-1] += ' + broken: ' + ', '.join(sorted(set(br))[:2])
    how = '; '.join(dict.fromkeys(how)) or ('MISSED' if not m.get('detected') else 'detected')
    def cell(s, n):
        s = str(s).replace('|', '/').replace('\n', ' ')
        return s if len(s) <= n else s[:n - 1] + '…'
    print('| `%s` %s | %s | %s | %s |' % (sid, cell(m.get('summary', ''), 150), cell(m.get('needs', ''), 140),
                                          cell(how, 260), cell(hist.get(sid, ''), 260)))
