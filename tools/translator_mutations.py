#!/usr/bin/env python3
"""Semantic mutations next to the spellings the translator plugins newly accept (negative tests).

Each mutation = an (optional) behaviour-preserving rewrite from refactors/ + ONE semantic change made by text
replacement.  The patches are written to <out>/<name>/patch.diff in the layout of seeded/, so that
`tools/translator_regress.py --extra <out>` tabulates them: every one must be REJECTED (the plugin raises, or a
bridge theorem stops building) — except FOLLOWS_SOURCE below: constants that no theorem pins (the model re-reads
them from the source; the property is checked on the model WITH the changed constant and by the oracles), which
were accepted in exactly the same way before the plugins were made tolerant (H* = the same change on the
unchanged spelling).

usage: tools/translator_mutations.py [<out dir, default /tmp/deeptrans_mut>]
"""
import os
import shutil
import subprocess
import sys

WT = os.path.dirname(os.path.dirname(os.path.abspath(__file__)))
REPO_WT = os.environ.get('TR_REPO_WT', '/tmp/deeptrans_repo2')
OUT = sys.argv[1] if len(sys.argv) > 1 else '/tmp/deeptrans_mut'

OFDM, FADING = 'pyphysim/modulators/ofdm.py', 'pyphysim/channels/fading.py'
RUNNER, RESULTS = 'pyphysim/simulations/runner.py', 'pyphysim/simulations/results.py'
PL, AG, CONV = 'pyphysim/channels/pathloss.py', 'pyphysim/channels/antennagain.py', 'pyphysim/util/conversion.py'
FUND, CELL = 'pyphysim/modulators/fundamental.py', 'pyphysim/cell/cell.py'

# name: (base rewrite or None, file, old text, new text, what it breaks)
MUTATIONS = {
    # ---- C02 / OfdmIndex
    'M02_floor': ('C02_f5_3', OFDM, 'num_ofdm_symbols = math.ceil(', 'num_ofdm_symbols = math.floor(',
                  'number of OFDM symbols rounded down'),
    'M02_arange_shift': ('C02_f5_3', OFDM, 'first_half = np.arange(1, half_used_sc + 1, 1)',
                         'first_half = np.arange(0, half_used_sc, 1)', 'positive subcarriers start at DC'),
    'M02_arange_step': ('C02_f5_3', OFDM, 'second_half = np.arange(-half_used_sc, 0, 1)',
                        'second_half = np.arange(-half_used_sc, 0, 2)', 'every second negative subcarrier'),
    'M02_slice': ('C02_f5_3', OFDM, '(numbers[half_used:] + self.fft_size, numbers[:half_used])',
                  '(numbers[half_used:] + self.fft_size, numbers[1:half_used])', 'first positive subcarrier dropped'),
    'M02_minus': ('C02_f5_3', OFDM, 'numbers[half_used:] + self.fft_size', 'numbers[half_used:] - self.fft_size',
                  'negative subcarriers mapped below 0'),
    'M02_branches_swapped': ('C02_f5_2', OFDM, 'if self.num_used_subcarriers != self.fft_size:',
                             'if self.num_used_subcarriers == self.fft_size:', 'guard-band layout when all are used'),
    'M02_else_plus1': ('C02_f5_2', OFDM, '            num_used_subcarriers = operator.index(num_used_subcarriers)\n',
                       '            num_used_subcarriers = operator.index(num_used_subcarriers) + 1\n',
                       'explicit subcarrier count off by one'),
    'M02_concat_axis': ('C02_f5_3', OFDM, '            (numbers[half_used:] + self.fft_size, numbers[:half_used]),\n            axis=0)',
                        '            (numbers[half_used:] + self.fft_size, numbers[:half_used]),\n            axis=None)',
                        'concatenate with another axis argument'),
    # ---- C03 / Slice
    'M03_closed_floor': ('C03_f5_3', FADING, 'block_size = max(0, (stop - start + step - 1) // step)',
                         'block_size = max(0, (stop - start) // step)', 'range length rounded down'),
    'M03_closed_neg': ('C03_f5_3', FADING, 'block_size = max(0, (start - stop - step - 1) // -step)',
                       'block_size = max(0, (start - stop - step) // -step)', 'negative-step length off by one'),
    'M03_helper_none': ('C03_f5_1', FADING, '        if carrier_indexes is None:\n            return fft_size\n',
                        '        if carrier_indexes is None:\n            return fft_size - 1\n',
                        'block size without carrier_indexes'),
    'M03_helper_len': ('C03_f5_1', FADING, '            return len(range(*indexes))', '            return len(range(*indexes)) + 1',
                       'slice block size off by one'),
    'M03_helper_idx': ('C03_f5_1', FADING, '        return num_carriers\n', '        return num_carriers * 2\n',
                       'index-array block size doubled'),
    'M03_skip': (None, FADING, 'self._fading_generator.skip_samples_for_next_generation(fft_size -\n                                                                    1)',
                 'self._fading_generator.skip_samples_for_next_generation(fft_size)', 'fading samples skipped per block'),
    # ---- C07 / C07SaveRule
    'M07_secs': ('C07_f5_3', RUNNER, 'if 300 < toc - self.__last_tic or not current_rep % 500:',
                 'if 3000 < toc - self.__last_tic or not current_rep % 500:', 'save period 3000 s'),
    'M07_reps': ('C07_f5_3', RUNNER, 'if 300 < toc - self.__last_tic or not current_rep % 500:',
                 'if 300 < toc - self.__last_tic or not current_rep % 5000:', 'save period 5000 repetitions'),
    'M07_mirror_wrong': ('C07_f5_3', RUNNER, 'if 300 < toc - self.__last_tic or not current_rep % 500:',
                         'if 300 > toc - self.__last_tic or not current_rep % 500:', 'comparison reversed'),
    'M07_truthy': ('C07_f5_3', RUNNER, 'if 300 < toc - self.__last_tic or not current_rep % 500:',
                   'if 300 < toc - self.__last_tic or current_rep % 500:', 'saves when NOT a multiple of 500'),
    'M07_and': ('C07_f5_2', RUNNER, 'if not (toc - self.__last_tic > 300 or current_rep % 500 == 0):',
                'if not (toc - self.__last_tic > 300 and current_rep % 500 == 0):', 'both rules required'),
    'M07_guard_inverted': ('C07_f5_2', RUNNER, 'if not (toc - self.__last_tic > 300 or current_rep % 500 == 0):',
                           'if (toc - self.__last_tic > 300 or current_rep % 500 == 0):', 'returns exactly when a save is due'),
    'M07_finally_nofsync': ('C07_f5_2', RESULTS, '            os.fsync(output.fileno())\n        os.replace(tmp_filename, filename)\n        replaced = True',
                            '        os.replace(tmp_filename, filename)\n        replaced = True', 'no fsync before the rename'),
    'M07_flag_early_cleanup': ('C07_f5_2', RESULTS, '        if not replaced:', '        if replaced:',
                               'cleanup (os.remove) on the normal path'),
    # ---- C13 / C13Constants
    'M13_ghz': ('C13_f5_1', PL, '        return self.fc / 1e3\n', '        return self.fc / 1e2\n', 'MHz -> GHz conversion'),
    'M13_walls': ('C13_f5_1', PL, '        return 5. * (num_walls - 1)\n', '        return 5. * num_walls\n', 'wall loss term'),
    'M13_log_helper': ('C13_f5_1', PL, '    if isinstance(d, Iterable):\n        return np.log10\n    return math.log10\n',
                       '    if isinstance(d, Iterable):\n        return np.log10\n    return math.log\n', 'natural log for scalars'),
    'M13_atten': ('C13_f5_1', AG, '            12 * (angle / self.theta_3db)**2, self.Am)', '            12 * (angle / self.theta_3db), self.Am)',
                  'attenuation not squared'),
    'M13_ohA_guard': ('C13_f5_3', PL, "        if self.area_type != 'large city':  # pragma: no cover\n            raise RuntimeError",
                      "        if self.area_type == 'large city':  # pragma: no cover\n            raise RuntimeError", 'large city rejected'),
    'M13_ohK_default': ('C13_f5_3', PL, "        return 0.0 if self.area_type == 'large city' else 0\n",
                        "        return 3.0 if self.area_type == 'large city' else 0\n", 'K for large city'),
    'M13_table': ('C13_f5_3', AG, '((3, 70., 20., 14.),', '((3, 60., 20., 14.),', '3-sector beam width'),
    'M13_table_nobreak_else': ('C13_f5_3', AG, "        else:\n            raise ValueError(\n                \"Invalid number of sectors",
                               "        if False:\n            raise ValueError(\n                \"Invalid number of sectors", 'no error for other sector counts'),
    'M13_ifexp_swapped': ('C13_f5_3', PL, '        log10 = np.log10 if isinstance(d, Iterable) else math.log10\n\n        PL = (10 * self._n',
                          '        log10 = np.log10 if isinstance(d, Iterable) else math.log2\n\n        PL = (10 * self._n', 'log2 for scalars'),
    'M13_ps7_dispatch': ('C13_f5_3', PL, '        if num_walls > 0:\n            return self._which_distance_dB_NLOS_same_floor(PL, num_walls)',
                         '        if num_walls > 1:\n            return self._which_distance_dB_NLOS_same_floor(PL, num_walls)', 'one wall treated as an error'),
    # ---- the same kind of change on the UNCHANGED spelling (what the plugins did before they were made tolerant)
    'H07_secs': (None, RUNNER, 'if toc - self.__last_tic > 300 or', 'if toc - self.__last_tic > 3000 or', 'save period 3000 s'),
    'H07_reps': (None, RUNNER, 'or current_rep % 500 == 0:', 'or current_rep % 5000 == 0:', 'save period 5000 repetitions'),
    'H13_ohK': (None, PL, "            K = 0.0\n", "            K = 3.0\n", 'K for large city'),
    'H13_log': (None, PL, '            log10 = math.log10\n\n        PL = (10 * self._n', '            log10 = math.log2\n\n        PL = (10 * self._n',
                'log2 for scalars'),
    # ---- C16 / C20
    'M16_erfc_arg': ('C16_2', FUND, 'ser = erfc(np.sqrt(snr) * math.sin(PI / self._M))', 'ser = erfc(np.sqrt(2. * snr) * math.sin(PI / self._M))',
                     'PSK SER argument'),
    'M16_erfc_half': ('C16_2', FUND, 'ser = 0.5 * erfc(np.sqrt(snr))', 'ser = erfc(np.sqrt(snr))', 'BPSK SER doubled'),
    'M16_qam_coef': ('C16_2', FUND, 'Psc = ((2. - 2. / sqrtM) * qfunc(', 'Psc = ((2. - 1. / sqrtM) * qfunc(', 'QAM coefficient'),
    'M16_qam_ber': ('C16_2', FUND, 'bits_per_carrier = level2bits(self._M) / 2.', 'bits_per_carrier = level2bits(self._M) / 4.', 'QAM BER'),
    'M16_psk_ber': ('C16_2', FUND, 'return self.calcTheoreticalSER(SNR) / k', 'return self.calcTheoreticalSER(SNR) * k', 'PSK BER'),
    'M20_pow_arg': ('C20_f5_3', CONV, 'return 10**(valueIndB / 10.0)', 'return 10**(valueIndB * 10.0)', 'dB2Linear exponent'),
    'M20_pow_base': ('C20_f5_3', CONV, 'return 10**(valueIndB / 10.0)', 'return 2**(valueIndB / 10.0)', 'dB2Linear base'),
    'M20_pow_swapped': ('C20_f5_3', CONV, 'return 10**(valueIndB / 10.0)', 'return (valueIndB / 10.0)**10', 'base and exponent swapped'),
    'M01_energy': ('C16_2', FUND, 'average_energy = 2.0 * (M - 1) / 3.0', 'average_energy = 2.0 * (M + 1) / 3.0', 'QAM average energy'),
    # ---- C01 QAM grid built without loops
    'MV_transposed': ('C16_3', FUND, 'symbols.real = np.tile(levels, L)\n        symbols.imag = np.repeat(-levels, L)',
                      'symbols.real = np.repeat(levels, L)\n        symbols.imag = np.tile(-levels, L)', 'grid transposed'),
    'MV_no_minus': ('C16_3', FUND, 'symbols.imag = np.repeat(-levels, L)', 'symbols.imag = np.repeat(levels, L)',
                    'imaginary part increases with the row'),
    'MV_arange_stop': ('C01_1', FUND, 'levels = np.arange(-(L - 1), L, 2)', 'levels = np.arange(-(L - 1), L - 1, 2)',
                       'one level missing (shape error at run time)'),
    'MV_arange_start': ('C01_1', FUND, 'levels = np.arange(-(L - 1), L, 2)', 'levels = np.arange(-L, L, 2)', 'levels shifted by one'),
    'MV_meshgrid_order': ('C01_1', FUND, 'np.meshgrid(levels, levels[::-1])', 'np.meshgrid(levels[::-1], levels)', 'both axes mirrored'),
    'MV_no_reverse': ('C01_1', FUND, 'np.meshgrid(levels, levels[::-1])', 'np.meshgrid(levels, levels)', 'imaginary axis mirrored'),
    'MV_reshape_swapped': ('C15_1', FUND, 'grid.real = levels.reshape(1, L)\n        grid.imag = -levels.reshape(L, 1)',
                           'grid.real = levels.reshape(L, 1)\n        grid.imag = -levels.reshape(1, L)', 'grid transposed'),
    'MV_scale': ('C15_1', FUND, 'levels = 2 * np.arange(0, L, dtype=int) - (L - 1)', 'levels = 2 * np.arange(0, L, dtype=int) - L',
                 'levels shifted by one'),
    # ---- C01 PSK / C19
    'M01_exp_conj': ('C15_3', FUND, 'unit_circle = np.exp(1j * phases)', 'unit_circle = np.exp(-1j * phases)', 'clockwise constellation'),
    'M01_parts_swapped': ('C15_3', FUND, 'np.abs(unit_circle.real) < 1e-15, 0., unit_circle.real)',
                          'np.abs(unit_circle.imag) < 1e-15, 0., unit_circle.imag)', 'real part := imaginary part'),
    'M01_snap_big': ('C15_3', FUND, 'np.abs(unit_circle.real) < 1e-15, 0., unit_circle.real)',
                     'np.abs(unit_circle.real) < 1e-1, 0., unit_circle.real)', 'coordinates below 0.1 zeroed'),
    'M19_slice': ('C19_f5_2', CELL, 'sec2.vertices[0:4]', 'sec2.vertices[0:3]', 'a vertex of the 3-sector cell dropped'),
    'M19_slice_clamped': ('C19_f5_2', CELL, 'sec3.vertices[2:6]', 'sec3.vertices[2:7]', 'slice beyond the vertex count'),
    'M19_slice_step': ('C19_f5_2', CELL, 'sec3.vertices[2:6]', 'sec3.vertices[2:6:2]', 'every second vertex'),
}


FOLLOWS_SOURCE = ['M07_secs', 'M07_reps', 'H07_secs', 'H07_reps', 'M13_ohK_default', 'H13_ohK']


def sh(cmd, cwd=None):
    p = subprocess.run(cmd, shell=True, cwd=cwd, stdout=subprocess.PIPE, stderr=subprocess.STDOUT, text=True)
    return p.returncode, p.stdout


def main():
    shutil.rmtree(OUT, ignore_errors=True)
    os.makedirs(OUT)
    for name, (base, path, old, new, what) in MUTATIONS.items():
        rc, out = sh('git checkout -q -- . && git clean -fdq', cwd=REPO_WT)
        assert rc == 0, out
        if base:
            rc, out = sh('git apply %s/refactors/%s/patch.diff' % (WT, base), cwd=REPO_WT)
            assert rc == 0, (name, out)
        full = os.path.join(REPO_WT, path)
        with open(full) as f:
            text = f.read()
        assert text.count(old) == 1, '%s: %d occurrences of the text to replace' % (name, text.count(old))
        with open(full, 'w') as f:
            f.write(text.replace(old, new))
        rc, out = sh('git diff', cwd=REPO_WT)
        os.makedirs(os.path.join(OUT, name))
        with open(os.path.join(OUT, name, 'patch.diff'), 'w') as f:
            f.write(out)
        with open(os.path.join(OUT, name, 'what.txt'), 'w') as f:
            f.write('%s + %s: %s\n' % (base or 'HEAD', path, what))
    sh('git checkout -q -- . && git clean -fdq', cwd=REPO_WT)
    print('%d mutations written to %s' % (len(MUTATIONS), OUT))


if __name__ == '__main__':
    main()
