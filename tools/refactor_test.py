#!/usr/bin/env python3
"""Run a check against a BEHAVIOUR-PRESERVING rewrite of the library (the opposite of a seeded change).

usage: tools/refactor_test.py <incoming_dir> <Cxx> [--tier quick] [--nosuite]
 1. scratch worktree of /repo HEAD, apply patch.diff
 2. (unless --nosuite) the baseline suite must still pass every stable test and demo.py must exit 0
 3. run ./check Cxx against the rewritten worktree and classify:
      silent        exit 0
      tie-only      exit 1, every VIOLATION line ends in no-failing-input-found (a harmless rewrite may
                    break a proof obligation / source tie; reported as "no longer shown", which the
                    brief allows — but each such case is a candidate for a more tolerant translator)
      FALSE-ALARM   exit 1 with a concrete failing input: the check blames code on which the property holds
 4. remove the worktree; the rewrite is filed under /verif/refactors/<name>/ with the outcome
"""
import json, os, re, shutil, subprocess, sys, tempfile

inc, prop = os.path.abspath(sys.argv[1].rstrip('/')), sys.argv[2]
tier = sys.argv[sys.argv.index('--tier') + 1] if '--tier' in sys.argv else 'quick'
name = os.path.basename(inc)
wt = tempfile.mkdtemp(prefix='refconf_')
os.rmdir(wt)


def sh(cmd, cwd=None, env=None, timeout=3000):
    p = subprocess.run(cmd, shell=True, cwd=cwd, env=env, stdout=subprocess.PIPE, stderr=subprocess.STDOUT, text=True,
                       timeout=timeout)
    return p.returncode, p.stdout


rc, out = sh('git -C /repo worktree add -q --detach %s HEAD' % wt)
assert rc == 0, out
ran = []
try:
    rc, out = sh('git apply %s/patch.diff' % inc, cwd=wt)
    if rc != 0:
        print(name, 'PATCH DOES NOT APPLY', out[:300])
        sys.exit(3)
    suite_ok = True
    if '--nosuite' not in sys.argv:
        rc1, out1 = sh('/venv/bin/python %s/demo.py %s' % (inc, wt), cwd=wt)
        ran.append('demo with rewrite: exit %d' % rc1)
        rc, out = sh('/venv/bin/python -m pytest -q -p no:cacheprovider --timeout=900 -x', cwd=wt)
        ran.append('suite with rewrite: %s' % out.strip().split('\n')[-1][:120])
        suite_ok = rc1 == 0
    env = dict(os.environ, PYPHYSIM_REPO=wt, VERIF_EVIDENCE_DIR='/tmp/seed_evidence')
    rc2, out2 = sh('./check %s --tier %s' % (prop, tier), cwd='/verif', env=env)
    vio = [l for l in out2.split('\n') if l.startswith('VIOLATION')]
    concrete, ties = [], []
    for l in vio:
        m = re.search(r'replay=(\S+)', l)
        r = json.load(open(os.path.join('/verif', m.group(1)))) if m and os.path.exists(os.path.join('/verif', m.group(1))) else {}
        if 'no-failing-input-found' in l:
            ties.append([b.get('name') for b in r.get('broken', [])][:6])
        else:
            concrete.append({'call': r.get('call'), 'class': r.get('class'), 'detail': str(r.get('detail'))[:300],
                             'case': str(r.get('case'))[:400]})
    outcome = 'silent' if rc2 == 0 else ('FALSE-ALARM' if concrete else ('tie-only' if rc2 == 1 else 'exit-%d' % rc2))
    print(name, outcome, '| suite/demo ok' if suite_ok else '| DEMO FAILS (rewrite not behaviour preserving?)',
          '|', ties[:2] if ties else '', concrete[:2] if concrete else '')
    dst = os.path.join('/verif/refactors', name)
    os.makedirs(dst, exist_ok=True)
    for f in ('patch.diff', 'demo.py'):
        if os.path.realpath(os.path.join(inc, f)) != os.path.realpath(os.path.join(dst, f)):
            shutil.copy(os.path.join(inc, f), dst)
    meta = json.load(open(os.path.join(inc, 'meta.json')))
    meta.update({'checked_by_integrator': ran, 'check_outcome': outcome, 'broken_ties': ties[:3], 'concrete_alarms': concrete[:3],
                 'base_commit': subprocess.check_output(['git', '-C', '/repo', 'rev-parse', '--short', 'HEAD'], text=True).strip()})
    json.dump(meta, open(os.path.join(dst, 'meta.json'), 'w'), indent=1, default=str)
finally:
    sh('git -C /repo worktree remove --force %s' % wt)
