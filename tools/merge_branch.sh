#!/bin/bash
# usage: tools/merge_branch.sh <branch> <Cxx> [<Cyy> ...] — merge an agent branch, rebuild, run the quick tier of the named checks
# (seeds 0 and 1, evidence redirected); prints one line per run.  Leaves the merge in place; inspect before committing more.
cd /verif; B=$1; shift
git merge --no-ff -q -m "merge $B" "$B" || { echo "MERGE CONFLICT in $B"; git status --short | grep '^\(UU\|AA\|DU\|UD\)'; exit 1; }
export PATH="/opt/veriftools/lean/bin:$PATH"
for P in "$@"; do
  for s in 0 1; do
    VERIF_SEED=$s VERIF_EVIDENCE_DIR=/tmp/merge_ev ./check $P --tier quick 2>&1 | grep -v "^KNOWN-FINDING" | tail -2 | tr '\n' ' '; echo
  done
done
