#!/bin/bash
# MANIFEST.setup_cmd: build the whole Lean project (models, proofs, drivers) offline.
cd "$(dirname "$0")"
export PATH="/opt/veriftools/lean/bin:$PATH"
PY=${VERIF_PYTHON:-/venv/bin/python}
# tie (a): regenerate the translated modules from the current /repo source
"$PY" harness/translate.py || echo "translator reported errors (the owning check reports the broken tie)"
cd lean
# -K: keep going; a module that fails is reported by the check that owns it
lake build PyPhysim $(grep -o 'name = "drv_[a-z0-9]*"' lakefile.toml | cut -d'"' -f2) 2>&1 | tail -5
exit 0
