#!/bin/bash
# MANIFEST.setup_cmd: build the whole Lean project (models, proofs, drivers) offline.
set -e
cd "$(dirname "$0")"
export PATH="/opt/veriftools/lean/bin:$PATH"
PY=${VERIF_PYTHON:-/venv/bin/python}
# tie (a): regenerate the translated modules from the current /repo source
"$PY" harness/translate.py || echo "translator reported errors (checks will report the broken tie)"
cd lean
# build everything that builds; a failing module is reported by the check that owns it
lake build PyPhysim Drivers $(grep -o 'name = "drv_[a-z0-9]*"' lakefile.toml | cut -d'"' -f2) || true
