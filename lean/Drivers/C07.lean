import PyPhysim.Model.Proto
import PyPhysim.Model.C07
import PyPhysim.Model.C07Power
open PyPhysim.Proto PyPhysim.C07
open PyPhysim.C05 (Outcome Keep Stored Saved VarState)

/-!
Line-protocol driver of the C07 model.

`resume mode=atomic period=500 secs=300 keep=always;sumlt:5 n1=2 rm1=3 tags1=0,1 outs1=1,s,2 clk1=0,0,301
        n2=2 rm2=3 tags2=0,1 outs2=1,1 clk2= pts=all|0,3,7`

Run 1 starts on an empty disk with the outcome stream `outs1` (`s` = SkipThisOne,
an integer `a` = a result with sum `a` and token `2^position`), call durations
`clk1`.  For every requested crash point `m` (number of events of run 1 that
happened) the reply lists the disk after the crash, and the complete run 2
(`outs2`, tokens `2^(|outs1| + position)`) started on that disk.
-/

/-- results used by the harness script: a SUMTYPE sum and a SUMTYPE token -/
structure Res where
  sum : Int
  tok : Nat

def Res.merge (a b : Res) : Res := ⟨a.sum + b.sum, a.tok + b.tok⟩

def parseOuts (s : String) (off : Nat) : Option (List (Outcome Res)) :=
  (fields s ",").zipIdx.mapM (fun (t, c) =>
    if t = "s" then some Outcome.skip else t.toInt?.map (fun a => Outcome.ok ⟨a, 2 ^ (off + c)⟩))

def parseRule (s : String) : Option (Keep Res) :=
  match s.splitOn ":" with
  | ["always"] => some (fun _ _ _ => true)
  | ["sumlt", t] => t.toInt?.map (fun t => fun acc _ _ => decide (acc.sum < t))
  | ["replt", k] => k.toNat?.map (fun k => fun _ _ r => decide (r < k))
  | ["skiplt", k] => k.toNat?.map (fun k => fun _ sk _ => decide (sk < k))
  | _ => none

def parseKeep (s : String) : Option (Nat → Keep Res) := do
  let rules ← (fields s ";").mapM parseRule
  if rules.isEmpty then none else
  some (fun i => rules.getD (i % rules.length) (fun _ _ _ => true))

def parseMode : String → Option Mode
  | "atomic" => some .atomic
  | "inplace" => some .inPlace
  | _ => none

def showFile {C} (f : C → String) : Slot C → String
  | ⟨.absent, t⟩ => "A" ++ (if t then "+t" else "")
  | ⟨.torn, t⟩ => "T" ++ (if t then "+t" else "")
  | ⟨.valid c, t⟩ => "V" ++ f c ++ (if t then "+t" else "")

def showPart (p : Part Res Nat) : String :=
  s!"{p.saved.rep}.{p.saved.skipped}.{p.saved.acc.sum}.{p.saved.acc.tok}.{p.tag}"

def showStored (s : Stored Res) : String := s!"{s.acc.sum}.{s.acc.tok}.{s.skipped}"

def showFull (f : Full Res) : String :=
  showList toString f.reps ++ "/" ++ showList showStored f.results "_"

def showDisk (n : Nat) (d : Disk Res Nat) : String :=
  showList (fun i => showFile showPart (d.part i)) (List.range n) "|" ++ "|F:" ++ showFile showFull d.fin

def showStatus : Option PyPhysim.C07.Err → String
  | none => "ok"
  | some e => toString e

def opKind {C} : SlotOp C → String
  | .trunc => "trunc" | .write _ => "write" | .tmpOpen => "tmpOpen" | .tmpWrite _ => "tmpWrite"
  | .tmpFlush => "tmpFlush" | .tmpFsync => "tmpFsync" | .tmpClose => "tmpClose"
  | .rename _ => "rename" | .syncMain => "syncMain"

def evKind : Ev Res Nat → String
  | .call _ => "call"
  | .part _ op => opKind op
  | .fin op => "F" ++ opKind op

def handleResume (toks : List String) : Option String := do
  let mode ← parseMode ((kv toks "mode").getD "atomic")
  let period ← (kv toks "period").bind String.toNat?
  let secs ← (kv toks "secs").bind String.toNat?
  let keep ← parseKeep ((kv toks "keep").getD "always")
  let n1 ← (kv toks "n1").bind String.toNat?
  let rm1 ← (kv toks "rm1").bind String.toNat?
  let tags1 ← parseNatList? ((kv toks "tags1").getD "")
  let outs1s := (kv toks "outs1").getD ""
  let outs1 ← parseOuts outs1s 0
  let clk1 ← parseNatList? ((kv toks "clk1").getD "")
  let n2 ← (kv toks "n2").bind String.toNat?
  let rm2 ← (kv toks "rm2").bind String.toNat?
  let tags2 ← parseNatList? ((kv toks "tags2").getD "")
  let outs2 ← parseOuts ((kv toks "outs2").getD "") outs1.length
  let clk2 ← parseNatList? ((kv toks "clk2").getD "")
  let cfg1 : PyPhysim.C07.Cfg Res Nat := ⟨Res.merge, rm1, n1, keep, fun i => tags1.getD i 0, period, secs, mode⟩
  let cfg2 : PyPhysim.C07.Cfg Res Nat := ⟨Res.merge, rm2, n2, keep, fun i => tags2.getD i 0, period, secs, mode⟩
  let nshow := max n1 n2
  let e1 := simC cfg1 Disk.empty ⟨0, clk1⟩ outs1
  let total := e1.trace.length
  let ptsS := (kv toks "pts").getD "all"
  let pts ← if ptsS = "all" then some (List.range (total + 1)) else parseNatList? ptsS
  -- run 2 either as one `simulate()` or as `simulate(0)`, …, `simulate(n-1)` followed by `simulate()`
  let via := (kv toks "via").getD "all"
  let doRun2 (d : Disk Res Nat) : RunEnd Res Nat × Disk Res Nat :=
    if via.startsWith "singles" then
      -- "singles" = every index 0 … n-1; "singles:3,256,257" = only these
      let idxs := match via.splitOn ":" with
        | [_, l] => (parseNatList? l).getD []
        | _ => List.range n2
      let s := simSinglesC cfg2 idxs d ⟨0, clk2⟩ outs2
      let ds := d.applyAll s.trace
      match s.status with
      | some _ =>
        -- a `simulate(index)` call keeps no results list: nothing is reported when one of them raises
        (⟨s.trace, [], [], s.rest, s.clock, s.status⟩, ds)
      | none =>
        let e := simC cfg2 ds s.clock s.rest
        (⟨s.trace ++ e.trace, e.results, e.reps, e.rest, e.clock, e.status⟩, ds.applyAll e.trace)
    else
      let e := simC cfg2 d ⟨0, clk2⟩ outs2
      (e, d.applyAll e.trace)
  let one (m : Nat) : String :=
    let pre := e1.trace.take m
    let d1 := crashDisk Disk.empty e1.trace m
    let (e2, d2) := doRun2 d1
    let run2 := s!"st={showStatus e2.status} log={showList toString (callLog e2.trace)} reps={showList toString e2.reps} res={showList showStored e2.results "_"} disk={showDisk nshow d2}"
    -- the same crash point as a POWER LOSS: every file cut to its durable part, then the restart
    let p1 := (powerLossDisk PDisk.empty e1.trace m).view
    let (f2, q2) := doRun2 p1
    let prun2 := s!"st={showStatus f2.status} log={showList toString (callLog f2.trace)} reps={showList toString f2.reps} res={showList showStored f2.results "_"} disk={showDisk nshow q2}"
    s!"m={m} calls1={(callLog pre).length} crash={showDisk nshow d1} {run2} pcrash={showDisk nshow p1} prun2={if prun2 = run2 then "same" else prun2.replace " " "~"}"
  some (s!"N={total} st1={showStatus e1.status} reps1={showList toString e1.reps} kinds={showList evKind e1.trace} ; " ++ " ; ".intercalate (pts.map one))

def handle : List String → String
  | "resume" :: toks => (handleResume toks).getD "bad-op"
  | _ => "bad-op"

def main : IO Unit := runDriver handle
