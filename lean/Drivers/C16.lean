import PyPhysim.Model.Proto
import PyPhysim.Model.C01
import PyPhysim.Model.C16
open PyPhysim.Proto PyPhysim.C01 PyPhysim.C16

instance : NatCast Float := ⟨Float.ofNat⟩
instance : IntCast Float := ⟨Float.ofInt⟩

def fdist (a b : Float × Float) : Float :=
  Float.sqrt ((a.1 - b.1) * (a.1 - b.1) + (a.2 - b.2) * (a.2 - b.2))

def minDist (pts : Array (Float × Float)) : Float := Id.run do
  let mut best : Float := 1.0e300
  for i in [0:pts.size] do
    for j in [i+1:pts.size] do
      let d := fdist pts[i]! pts[j]!
      if d < best then best := d
  return best

def handle : List String → String
  | ["psk", m, s] => match m.toNat?, parseFloat? s with
      | some m, some s => "c=" ++ showFloat 2.0 ++ " arg=" ++ showFloat (pskArg m s)
      | _, _ => "bad-op"
  | ["bpsk", s] => match parseFloat? s with
      | some s => "c=" ++ showFloat 1.0 ++ " arg=" ++ showFloat (bpskArg s)
      | none => "bad-op"
  | ["qam", m, s] => match m.toNat?, parseFloat? s with
      | some m, some s => "c=" ++ showFloat (qamCoef m) ++ " arg=" ++ showFloat (qamArg m s)
      | _, _ => "bad-op"
  | ["qamser", p] => match parseFloat? p with   -- SER from Psc
      | some p => showFloat (1.0 - (1.0 - p) * (1.0 - p))
      | none => "bad-op"
  | ["per", b, l] => match parseFloat? b, l.toNat? with
      | some b, some l => showFloat (per b l)
      | _, _ => "bad-op"
  | ["se", k, p] => match parseFloat? k, parseFloat? p with
      | some k, some p => showFloat (spectralEff k p)
      | _, _ => "bad-op"
  | ["dmin", "psk", m] => match m.toNat? with
      | some m => showFloat (minDist (pskNatural (α := Float) m 0.0).toArray)
      | none => "bad-op"
  | ["dmin", "qam", l] => match l.toNat? with
      | some l => showFloat (minDist (qamNatural (α := Float) l).toArray)
      | none => "bad-op"
  | _ => "bad-op"

def main : IO Unit := runDriver handle
