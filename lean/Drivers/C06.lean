import PyPhysim.Model.Proto
import PyPhysim.Model.C06
import PyPhysim.Model.C06Heap
open PyPhysim.Proto PyPhysim.C06M

/-!
Line protocol of the C06 model driver.

`prog <op> <op> …` runs a script on the object-level model (`Mach`) and prints
the exceptions raised, the observer outputs and the whole heap:

```
nr,<name>,<ty>,<acc>,<cn|->      r<k> = Result(name, ty, acc, choice_num)
u,<ref>,<v>,<t|->                ref.update(v, t)
m,<ref>,<ref>                    a.merge(b)
ns                               s<k> = SimulationResults()
sp,<s>,<fixed|->,<unp|->         set_parameters   (k=v&k=v , k=v:v:v&k=v:v ; unpacked values p/q)
ad,<s>,<ref>  ap,<s>,<ref>       add_result / append_result
aa,<s>,<o>  ma,<s>,<o>           append_all_results / merge_all_results
mao,<s>,<o>                      merge_all_results of the source before the repair (model only)
cb,<s1>,<s2>                     s<k> = combine_simulation_results(s1, s2)
g,<ref> mn,<ref> vr,<ref>        get_result / get_result_mean / get_result_var
cr,<name>,<ty>,<acc>,<v>,<t>     r<k> = Result.create(…)            an,<s>,<name>,<ty>,<v>,<t>  add_new_result
cp,<ref>  cps,<s>                deep copy / pickle round trip of a Result / a result set (new r<k> / s<k>)
q,<ref>  qs,<s>                  non-mutating queries (no effect on the model)
ro,<s>,<n1:n2:…>                 same result set with its results added in the order n1, n2, …
up,<s>                           s.params.unpacked_parameters (parameter names are sent hex(utf-8) encoded)
eq,<ref>,<ref>                   a == b
```
`ref` = `r<k>` or `s<k>.<name>.<index|L>`.
-/

structure St where
  m : Mach
  rv : List Nat            -- addresses of the r-variables
  errs : List String
  outs : List String

def tyOf? : String → Option Ty
  | "0" => some .sum | "1" => some .ratio | "2" => some .misc | "3" => some .choice | _ => none

def tyCode : Ty → String
  | .sum => "0" | .ratio => "1" | .misc => "2" | .choice => "3"

def optRat? (s : String) : Option (Option Rat) :=
  if s = "-" then some none else (parseRat? s).map some

def resolve (st : St) (ref : String) : Option Nat :=
  if ref.startsWith "r" then
    match (ref.drop 1).toString.toNat? with
    | some k => st.rv[k]?
    | none => none
  else if ref.startsWith "s" then
    match (ref.drop 1).toString.splitOn "." with
    | [s, nm, k] =>
      match s.toNat? with
      | none => none
      | some s =>
        match dictGet? (dictOf st.m s) nm with
        | none => none
        | some l =>
          let xs := listAt st.m l
          if k = "L" then xs.getLast? else
          match k.toNat? with
          | some k => xs[k]?
          | none => none
    | _ => none
  else none

def parseKV? (s : String) : Option (String × String) :=
  match s.splitOn "=" with
  | [k, v] => some (k, v)
  | _ => none

def parseFixed? (s : String) : Option (List (String × Int)) :=
  if s = "-" then some [] else
  (s.splitOn "&").mapM (fun e => do
    let (k, v) ← parseKV? e
    let i ← v.toInt?
    pure (k, i))

def parseUnp? (s : String) : Option (List (String × List Rat)) :=
  if s = "-" then some [] else
  (s.splitOn "&").mapM (fun e => do
    let (k, v) ← parseKV? e
    let l ← parseRatList? v ":"
    pure (k, l))

def showRes (r : Res) : String :=
  ",".intercalate [r.name, tyCode r.ty, showRat r.value, showList toString r.counts ":",
    showRat r.total, showRat r.rsum, showRat r.rsq, toString r.n, (if r.acc then "1" else "0"),
    showList showRat r.vlist ":", showList showRat r.tlist ":"]

def showGet : Except PyErr GetOut → String
  | .ok .nothing => "nothing"
  | .ok (.num q) => "num:" ++ showRat q
  | .ok (.arr l) => "arr:" ++ showList showRat l ":"
  | .error e => "error:" ++ toString e

def showER : Except PyErr Rat → String
  | .ok q => showRat q
  | .error e => "error:" ++ toString e

def showParams (p : Params) : String :=
  showList (fun e => e.1 ++ "=" ++ toString e.2) p.fixed "&" ++ "~" ++
  showList (fun e => e.1 ++ "=" ++ showList showRat e.2 ":") p.unp "&"

def showSim (s : Sim) : String :=
  showList (fun e => e.1 ++ ">" ++ toString e.2) s.dict "," ++ "@" ++ showParams s.params.norm

def dump (st : St) : String :=
  "E=" ++ ";".intercalate st.errs.reverse ++ "|O=" ++ ";".intercalate st.outs.reverse ++
  "|R=" ++ showList showRes st.m.res "#" ++
  "|L=" ++ showList (fun l => "l" ++ showList toString l ":") st.m.lists "#" ++
  "|S=" ++ showList showSim st.m.sims "#" ++
  "|V=" ++ showList toString st.rv ","

def record (st : St) (i : Nat) (p : Mach × Option PyErr) : St :=
  match p.2 with
  | none => { st with m := p.1 }
  | some e => { st with m := p.1, errs := (toString i ++ ":" ++ toString e) :: st.errs }

def out (st : St) (i : Nat) (s : String) : St := { st with outs := (toString i ++ ":" ++ s) :: st.outs }

def setParams (st : St) (s fx un : String) : Option St := do
  let s ← s.toNat?
  let fx ← parseFixed? fx
  let un ← parseUnp? un
  if s < st.m.sims.length then
    pure { st with m := { st.m with sims := st.m.sims.modify s (fun x => { x with params := ⟨fx, un⟩ }) } }
  else none

/-- one op; `none` = malformed op -/
def stepOp (st : St) (i : Nat) (op : String) : Option St :=
  match op.splitOn "," with
  | ["nr", nm, ty, acc, cn, _form] => do   -- 6th field: numpy type of choice_num, used by the harness only
      let ty ← tyOf? ty
      let cn ← (if cn = "-" then some none else cn.toNat?.map some)
      match mkRes nm ty (acc = "1") cn with
      | .ok r => let (m, a) := allocRes st.m r; pure { st with m := m, rv := st.rv ++ [a] }
      | .error e => pure { st with errs := (toString i ++ ":" ++ toString e) :: st.errs }
  | ["nr", nm, ty, acc, cn] => do
      let ty ← tyOf? ty
      let cn ← (if cn = "-" then some none else cn.toNat?.map some)
      match mkRes nm ty (acc = "1") cn with
      | .ok r => let (m, a) := allocRes st.m r; pure { st with m := m, rv := st.rv ++ [a] }
      | .error e => pure { st with errs := (toString i ++ ":" ++ toString e) :: st.errs }
  | ["u", ref, v, t, _tag] => do   -- 5th field: numpy types of value/total, used by the harness only
      let a ← resolve st ref
      let v ← parseRat? v
      let t ← optRat? t
      pure (record st i (updR st.m a ⟨v, t⟩))
  | ["u", ref, v, t] => do
      let a ← resolve st ref
      let v ← parseRat? v
      let t ← optRat? t
      pure (record st i (updR st.m a ⟨v, t⟩))
  | ["m", ra, rb] => do
      let a ← resolve st ra
      let b ← resolve st rb
      pure (record st i (mergeR st.m a b))
  | ["ns"] => pure { st with m := { st.m with sims := st.m.sims ++ [{ dict := [], params := ⟨[], []⟩ }] } }
  | ["sp", s, fx, un, _dtypes] =>   -- 5th field: numpy dtypes of the arrays, used by the harness only
      setParams st s fx un
  | ["sp", s, fx, un] => setParams st s fx un
  | ["ad", s, ref] => do
      let s ← s.toNat?
      let a ← resolve st ref
      pure (record st i (addResult st.m s a))
  | ["ap", s, ref] => do
      let s ← s.toNat?
      let a ← resolve st ref
      pure (record st i (appendResult st.m s a))
  | ["aa", s, o] => do
      let s ← s.toNat?
      let o ← o.toNat?
      pure (record st i (appendAll st.m s o))
  | ["ma", s, o] => do
      let s ← s.toNat?
      let o ← o.toNat?
      pure (record st i (mergeAll st.m s o))
  | ["mao", s, o] => do
      let s ← s.toNat?
      let o ← o.toNat?
      pure (record st i (mergeAllOld st.m s o))
  | ["cb", s1, s2] => do
      let s1 ← s1.toNat?
      let s2 ← s2.toNat?
      pure (record st i (combine st.m s1 s2))
  | ["g", ref] => do
      let a ← resolve st ref
      let r ← st.m.res[a]?
      pure (out st i (showGet (getResult r)))
  | ["mn", ref] => do
      let a ← resolve st ref
      let r ← st.m.res[a]?
      pure (out st i (showER (getMean r)))
  | ["vr", ref] => do
      let a ← resolve st ref
      let r ← st.m.res[a]?
      pure (out st i (showER (getVar r)))
  | ["cr", nm, ty, acc, v, t] => do   -- r<k> = Result.create(name, ty, value, total, accumulate_values)
      let ty ← tyOf? ty
      let v ← parseRat? v
      let t ← parseRat? t
      match createRes nm ty v t (acc = "1") with
      | .ok r => let (m, a) := allocRes st.m r; pure { st with m := m, rv := st.rv ++ [a] }
      | .error e => pure { st with errs := (toString i ++ ":" ++ toString e) :: st.errs }
  | ["an", s, nm, ty, v, t] => do     -- s.add_new_result(name, ty, value, total)
      let s ← s.toNat?
      let ty ← tyOf? ty
      let v ← parseRat? v
      let t ← parseRat? t
      if s < st.m.sims.length then pure (record st i (addNewResult st.m s nm ty v t)) else none
  | ["cp", ref] => do                 -- r<k> = copy.deepcopy(ref) / pickle round trip
      let a ← resolve st ref
      match copyRes st.m a with
      | (m, some a') => pure { st with m := m, rv := st.rv ++ [a'] }
      | (_, none) => none
  | ["cps", s] => do                  -- s<k> = copy.deepcopy(s) / pickle round trip
      let s ← s.toNat?
      if s < st.m.sims.length then pure { st with m := copySim st.m s } else none
  | ["q", ref] => do                  -- queries (repr, ==, observers, confidence interval …): no effect
      let _ ← resolve st ref
      pure st
  | ["qs", s] => do                   -- queries on a result set and its parameters: no effect
      let s ← s.toNat?
      if s < st.m.sims.length then pure st else none
  | ["ro", s, names] => do  -- the results of s were added in this order (must name every result once)
      let s ← s.toNat?
      let ns := fields names ":"
      let d := dictOf st.m s
      if s < st.m.sims.length ∧ ns.length = d.length ∧ (d.all fun e => ns.contains e.1) ∧ ns.Nodup then
        pure { st with m := reorderSim st.m s ns }
      else none
  | ["up", s] => do      -- params.unpacked_parameters: the names in the order of the grid axes
      let s ← s.toNat?
      let x ← st.m.sims[s]?
      pure (out st i ("names:" ++ showList (fun e => e.1) x.params.norm.unp "&"))
  | ["eq", ra, rb] => do
      let a ← resolve st ra
      let b ← resolve st rb
      let x ← st.m.res[a]?
      let y ← st.m.res[b]?
      pure (out st i (match eqPy x y with
        | .ok true => "True" | .ok false => "False" | .error e => "error:" ++ toString e))
  | _ => none

def runProg : St → Nat → List String → Option St
  | st, _, [] => some st
  | st, i, op :: rest => match stepOp st i op with
    | none => none
    | some st' => runProg st' (i + 1) rest

/-- `tree <ty> <acc> <cn> <shape> <obs;obs;…>`: evaluate a merge tree with `evalTree`
    shape: prefix notation, `L<k>` = leaf taking the next k observations, `N` = node -/
partial def parseTree (toks : List String) (obs : List Obs) : Option (MTree (List Obs) × List String × List Obs) :=
  match toks with
  | [] => none
  | t :: rest =>
    if t = "N" then do
      let (l, rest1, obs1) ← parseTree rest obs
      let (r, rest2, obs2) ← parseTree rest1 obs1
      pure (.node l r, rest2, obs2)
    else if t.startsWith "L" then do
      let k ← (t.drop 1).toString.toNat?
      pure (.leaf (obs.take k), rest, obs.drop k)
    else none

def parseObs? (s : String) : Option Obs :=
  match s.splitOn "," with
  | [v, t] => do
      let v ← parseRat? v
      let t ← optRat? t
      pure ⟨v, t⟩
  | _ => none

def showExRes : Except PyErr Res → String
  | .ok r => showRes r
  | .error e => "error:" ++ toString e

def handle : List String → String
  | "prog" :: ops =>
    match runProg ⟨⟨[], [], []⟩, [], [], []⟩ 0 ops with
    | some st => dump st
    | none => "bad-op"
  | ["tree", ty, acc, cn, shape, obs] =>
    match tyOf? ty, cn.toNat?, (fields obs ";").mapM parseObs? with
    | some ty, some cn, some obs =>
      match parseTree (fields shape ".") obs with
      | some (t, [], []) =>
        showExRes (evalTree (fresh "x" ty (acc = "1") cn) t) ++ "|" ++
        showExRes (foldUpdM (fresh "x" ty (acc = "1") cn) t.flatten)
      | _ => "bad-op"
    | _, _, _ => "bad-op"
  | _ => "bad-op"

def main : IO Unit := runDriver handle
