import PyPhysim.Model.Proto
import PyPhysim.Model.C03
import PyPhysim.Model.C03Disc
import PyPhysim.Model.C03Args
open PyPhysim.Proto PyPhysim.C03

/-! Line-protocol driver of the C03 model, instantiated at Gaussian rationals (exact). -/

structure GRat where
  re : Rat
  im : Rat
  deriving BEq

instance : Zero GRat := ⟨⟨0, 0⟩⟩
instance : Add GRat := ⟨fun a b => ⟨a.re + b.re, a.im + b.im⟩⟩
instance : Mul GRat := ⟨fun a b => ⟨a.re * b.re - a.im * b.im, a.re * b.im + a.im * b.re⟩⟩

def showQ (r : Rat) : String := if r.den = 1 then toString r.num else toString r.num ++ "/" ++ toString r.den
def showG (g : GRat) : String := if g.im == 0 then showQ g.re else showQ g.re ++ "_" ++ showQ g.im

def parseG? (s : String) : Option GRat :=
  match s.splitOn "_" with
  | [a] => (parseRat? a).map (fun r => ⟨r, 0⟩)
  | [a, b] => do let x ← parseRat? a; let y ← parseRat? b; pure ⟨x, y⟩
  | _ => none

def parseRow? (s : String) : Option (List GRat) := (fields s ",").mapM parseG?
/-- rows separated by `;` (an empty string is one empty row) -/
def parseSig? (s : String) : Option (List (List GRat)) := (s.splitOn ";").mapM parseRow?

def showRow (r : List GRat) : String := showList showG r
def showSig (y : List (List GRat)) : String := showList showRow y ";"

/-- the scripted fading process shared with the Python harness -/
def procS (seed : Nat) : Proc GRat := fun link pos i r t =>
  let z := seed + 7919 * link + 104729 * pos + 1299709 * i + 15485863 * r + 32452843 * t
  let re : Int := (((z * 48271) / 128) % 13 : Nat) - 6
  let im : Int := (((z * 69621) / 8) % 11 : Nat) - 5
  ⟨(re : Rat), (im : Rat)⟩

/-- the scripted exact "FFT" kernel shared with the Python harness:
    `F(v, N)[k] = Σ_{d < min(|v|, N)} v[d] * tw(k, d, N)` -/
def fftS : Fft GRat := fun v N k =>
  ((v.take N).zipIdx.map (fun vd =>
      let d := vd.2
      let tw : GRat := ⟨(((k * d) % N + 1 : Nat) : Rat), ((((k + 2 * d) % 3 : Nat) : Int) - 1 : Int)⟩
      vd.1 * tw)).foldl (· + ·) 0

def parseOptInt? (s : String) : Option (Option Int) :=
  if s == "N" then some none else s.toInt?.map some

def parseSel? (s : String) : Option Sel :=
  if s == "all" then some .all
  else if s.startsWith "i=" then (parseIntList? (s.drop 2).toString).map .idx
  else if s.startsWith "s=" then
    match ((s.drop 2).toString.splitOn ".") with
    | [a, b, c] => do
        let a ← parseOptInt? a; let b ← parseOptInt? b; let c ← parseOptInt? c
        pure (.slice ⟨a, b, c⟩)
    | _ => none
  else none

def parseAnt? (s : String) : Option (Option (Nat × Nat)) :=
  if s == "0" then some none else
  match s.splitOn "x" with
  | [a, b] => do let a ← a.toNat?; let b ← b.toNat?; pure (some (a, b))
  | _ => none

def showIR (ant : Option (Nat × Nat)) (ir : IR GRat) : String :=
  let (nr, nt) := match ant with | none => (1, 1) | some d => d
  let cell (f : Nat → Nat → Nat → GRat) : String :=
    showList (fun r => showList (fun t => showRow (tab ir.n (f r t))) (List.range nt) "/") (List.range nr) ";"
  let sparse := showList cell ir.vals "|"
  let denseLen := match ir.delays.getLast? with | some l => l + 1 | none => 0
  let denseS := showList (fun j =>
      showList (fun r => showList (fun t =>
        showRow (tab ir.n (fun k => match (ir.denseAt r t k)[j]? with | some v => v | none => ⟨99999, 99999⟩)))
        (List.range nt) "/") (List.range nr) ";") (List.range denseLen) "|"
  "ir:n=" ++ toString ir.n ++ ":d=" ++ showList toString ir.delays ++ ":v=" ++ sparse ++ ":D=" ++ denseS

structure Setup where
  seed : Nat
  jakes : Bool
  ant : Option (Nat × Nat)
  taps : List (Nat × GRat)

def parseSetup? (toks : List String) : Option Setup := do
  let seed ← (← kv toks "seed").toNat?
  let jakes ← (← kv toks "jakes").toNat?
  let ant ← parseAnt? (← kv toks "ant")
  let delays ← parseNatList? (← kv toks "delays")
  let amps ← parseRow? (← kv toks "amps")
  if delays.length ≠ amps.length then none
  pure ⟨seed, jakes == 1, ant, delays.zip amps⟩

def isOp (t : String) : Bool :=
  t.startsWith "tx:" || t.startsWith "fx:" || t.startsWith "sw:" || t.startsWith "pl:" || t == "ir"
    || t.startsWith "setant:" || t.startsWith "gen:" || t.startsWith "reject:" || t == "q"

def showE (e : PyErr) : String := "error:" ++ toString e

def parseSuOp? (op : String) : Option (SuOp GRat) :=
  if op == "ir" then some .getIR
  else if op.startsWith "sw:" then some (.setSwitched (op == "sw:1"))
  else if op.startsWith "pl:" then
    let a := (op.drop 3).toString
    if a == "none" then some (.setPathloss none) else (parseG? a).map (fun s => .setPathloss (some s))
  else if op.startsWith "tx:" then (parseSig? (op.drop 3).toString).map .tx
  else if op.startsWith "fx:" then
    match (op.drop 3).toString.splitOn ":" with
    | [f, s, x] => do
        let fft ← f.toNat?; let sel ← parseSel? s; let x ← parseSig? x
        pure (.fx x fft sel)
    | _ => none
  else if op.startsWith "setant:" then (parseAnt? (op.drop 7).toString).map .setAnt
  else if op.startsWith "gen:" then ((op.drop 4).toString.toNat?).map .gen
  else if op == "reject:ValueError" then some (.rejected .ValueError)
  else if op == "reject:TypeError" then some (.rejected .TypeError)
  else if op == "q" then some .query
  else none

/-- run SuChannel ops (a TdlChannel is a SuChannel that never gets a path loss);
    `irAnt`: antenna set-up in force when the stored response was generated (its array shape) -/
def runSu (su : Setup) : Option (Nat × Nat) → Su GRat → List String → List String
  | _, _, [] => []
  | irAnt, c, tok :: rest =>
    match parseSuOp? tok with
    | none => ["bad-op"]
    | some op =>
      -- a rejected call leaves the object as it was and the history goes on (`Su.stepR`)
      let generates : Bool := match op with | .tx _ => true | .fx _ _ _ => true | .gen _ => true | _ => false
      match c.stepR (procS su.seed) fftS op with
      | (c', .error e) => showE e :: runSu su irAnt c' rest
      | (c', .ok (.y y)) => ("y=" ++ showSig y) :: runSu su (if generates then c.tdl.ant else irAnt) c' rest
      | (c', .ok (.ir r)) => showIR irAnt r :: runSu su irAnt c' rest
      | (c', .ok .unit) => "ok" :: runSu su (if generates then c.tdl.ant else irAnt) c' rest

def parseMuSig? (s : String) : Option (List (List (List GRat))) := (s.splitOn "|").mapM parseSig?

def showMuOut (y : List (List (List GRat))) : String := "y=" ++ showList showSig y "|"

def parseMuOp? (op : String) : Option (MuOp GRat) :=
  if op == "reject:ValueError" then some (.rejected .ValueError)
  else if op == "reject:TypeError" then some (.rejected .TypeError)
  else if op == "q" then some .query
  else if op == "pl:none" then some .clearPathloss
  else if op.startsWith "sw:" then some (.setSwitched (op == "sw:1"))
  else if op.startsWith "pl:" then (parseSig? (op.drop 3).toString).map .setPathloss
  else if op.startsWith "tx:" then (parseMuSig? (op.drop 3).toString).map .tx
  else if op.startsWith "fx:" then
    match (op.drop 3).toString.splitOn ":" with
    | [f, s, x] => do
        let fft ← f.toNat?; let sel ← parseSel? s; let x ← parseMuSig? x
        pure (.fx x fft sel)
    | _ => none
  else none

def runMu (su : Setup) : Mu GRat → List String → List String
  | _, [] => []
  | c, tok :: rest =>
    if tok == "ir" then
      -- every link, row-major, through `get_last_impulse_response(rx, tx)`
      match (List.range (c.nRx * c.nTx)).mapM (fun l => c.step (procS su.seed) fftS (.getIR (l / c.nTx) (l % c.nTx))) with
      | .ok rs => showList (fun (r : Mu GRat × MuOut GRat) => match r.2 with
                    | .ir i => showIR su.ant i | _ => "?") rs " & " :: runMu su c rest
      | .error e => showE e :: runMu su c rest
    else match parseMuOp? tok with
    | none => ["bad-op"]
    | some op =>
      match c.stepR (procS su.seed) fftS op with
      | (c', .error e) => showE e :: runMu su c' rest
      | (c', .ok (.y y)) => showMuOut y :: runMu su c' rest
      | (c', .ok (.ir r)) => showIR su.ant r :: runMu su c' rest
      | (c', .ok .unit) => "ok" :: runMu su c' rest

def showInts (l : List Int) : String := showList toString l

def handle : List String → String
  | "su" :: toks =>
    match parseSetup? toks, (kv toks "link").bind String.toNat? with
    | some su, some link =>
      " # ".intercalate (runSu su su.ant { tdl := Tdl.init su.taps su.ant su.jakes link, pl := none } (toks.filter isOp))
    | _, _ => "bad-op"
  | "mu" :: toks =>
    match parseSetup? toks, (kv toks "nrx").bind String.toNat?, (kv toks "ntx").bind String.toNat? with
    | some su, some nrx, some ntx =>
      " # ".intercalate (runMu su (Mu.init nrx ntx su.taps su.ant su.jakes) (toks.filter isOp))
    | _, _, _ => "bad-op"
  | ["disc", ts, ds, ps] =>
    match parseRat? ts, parseRatList? ds, parseRatList? ps with
    | some ts, some ds, some ps =>
      let (d, p) := discretize ds ps ts
      "d=" ++ showInts d ++ " p=" ++ showList showQ p
    | _, _, _ => "bad-op"
  | ["ctor", g, p, a] =>
    -- sampling intervals given to TdlChannel.__init__ ("N" = not given / Rayleigh / not discretised)
    let opt (s : String) : Option (Option Rat) := if s == "N" then some none else (parseRat? s).map some
    match opt g, opt p, opt a with
    | some g, some p, some a =>
      match ctorTs (1 : Rat) g p a with
      | .ok t => "ok:" ++ showQ t
      | .error e => showE e
    | _, _, _ => "bad-op"
  | ["round", x] => match parseRat? x with | some x => toString (roundHalfEven x) | none => "bad-op"
  | ["slice", a, b, c, n] =>
    match parseOptInt? a, parseOptInt? b, parseOptInt? c, n.toNat? with
    | some a, some b, some c, some n =>
      match sliceIndices ⟨a, b, c⟩ n, selPos (.slice ⟨a, b, c⟩) n, blockSize (.slice ⟨a, b, c⟩) n with
      | .ok (i0, i1, i2), .ok ps, .ok bs =>
        "ind=" ++ showInts [i0, i1, i2] ++ " pos=" ++ showList toString ps ++ " bs=" ++ toString bs
      | .error e, _, _ => showE e
      | _, .error e, _ => showE e
      | _, _, .error e => showE e
    | _, _, _, _ => "bad-op"
  | ["idx", l, n] =>
    match parseIntList? l, n.toNat? with
    | some l, some n => match selPos (.idx l) n with
      | .ok ps => "pos=" ++ showList toString ps
      | .error e => showE e
    | _, _ => "bad-op"
  | _ => "bad-op"

def main : IO Unit := runDriver handle
