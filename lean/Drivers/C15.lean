import PyPhysim.Model.Proto
import PyPhysim.Model.Gray
import PyPhysim.Generated.Conversion
open PyPhysim.Proto PyPhysim.Gray PyPhysim.Generated

def showE : Except PyErr Nat → String
  | .ok n => toString n
  | .error e => "error:" ++ toString e

def handle : List String → String
  | ["b2g", n] => match n.toNat? with | some n => toString (binary2gray n) | none => "bad-op"
  | ["g2b", n] => match n.toNat? with | some n => toString (gray2binary n) | none => "bad-op"
  | ["xor", a, b] => match a.toNat?, b.toNat? with
      | some a, some b => toString (PyPhysim.Generated.xor a b) | _, _ => "bad-op"
  | ["bits", n] => match n.toNat? with | some n => showE (int2bits n) | none => "bad-op"
  | ["level", n] => match n.toNat? with | some n => showE (level2bits n) | none => "bad-op"
  | ["count", n] => match n.toNat? with | some n => showE (count_bits n) | none => "bad-op"
  | ["pskidx", m] => match m.toNat? with   -- index array used by PSK.__init__
      | some m => showList toString ((List.range m).map (pskPosInit gray2binary)) | none => "bad-op"
  | ["qamidx", l] => match l.toNat? with   -- _calculateGrayMappingIndexQAM(L)
      | some l => match level2bits (l*l) with
          | .ok kk => showList toString ((List.range (l*l)).map (qamPos binary2gray (kk / 2) l))
          | .error e => "error:" ++ toString e
      | none => "bad-op"
  | _ => "bad-op"

def main : IO Unit := runDriver handle
