import PyPhysim.Model.Proto
import PyPhysim.Model.Gray
import PyPhysim.Generated.Conversion
import PyPhysim.Model.C15Robust
open PyPhysim.Proto PyPhysim.Gray PyPhysim.Generated
open PyPhysim.C15R (Op Out Psk)

def showE : Except PyErr Nat → String
  | .ok n => toString n
  | .error e => "error:" ++ toString e

/-- `R i n v1 … vn` refill | `B i` | `G i` | `C i` | `X i j` | `E i j` -/
partial def parseOps : List String → Option (List Op)
  | [] => some []
  | "R" :: i :: n :: rest => do
      let i ← i.toNat?
      let n ← n.toNat?
      if rest.length < n then none else
      let xs ← (rest.take n).mapM String.toNat?
      let ops ← parseOps (rest.drop n)
      pure (Op.refill i xs :: ops)
  | "B" :: i :: rest => do pure (Op.b2g (← i.toNat?) :: (← parseOps rest))
  | "G" :: i :: rest => do pure (Op.g2b (← i.toNat?) :: (← parseOps rest))
  | "C" :: i :: rest => do pure (Op.cbits (← i.toNat?) :: (← parseOps rest))
  | "X" :: i :: j :: rest => do pure (Op.xor (← i.toNat?) (← j.toNat?) :: (← parseOps rest))
  | "E" :: i :: j :: rest => do pure (Op.biterr (← i.toNat?) (← j.toNat?) :: (← parseOps rest))
  | _ => none

def showNats (xs : List Nat) : String := if xs.isEmpty then "[]" else showList toString xs

def showOut : Out → String
  | .none => "-"
  | .arr xs => showNats xs
  | .num n => "=" ++ toString n
  | .err e => "error:" ++ toString e

def handle : List String → String
  | "hist" :: nbuf :: toks =>     -- R16: buffers refilled in place between calls
      match nbuf.toNat?, parseOps toks with
      | some nb, some ops =>
          let r := PyPhysim.C15R.run PyPhysim.C15R.emptyHeap ops
          showList showOut r.2 ";" ++ " | " ++ showList (fun i => showNats (r.1 i)) (List.range nb) ";"
      | _, _ => "bad-op"
  | "pskhist" :: m :: phi0 :: rest =>   -- R15/R16: PSK(M, φ0) followed by setPhaseOffset calls
      match m.toNat?, parseFloat? phi0, rest.mapM parseFloat? with
      | some m, some p0, some ps =>
          let s := (Psk.init m p0).run ps
          (if s.grayOrder then "gray " else "natural ") ++ showFloat s.offset ++ " "
            ++ showList toString ((List.range s.M).map s.pos)
      | _, _, _ => "bad-op"
  | ["b2g", n] => match n.toNat? with | some n => toString (binary2gray n) | none => "bad-op"
  | ["g2b", n] => match n.toNat? with | some n => toString (gray2binary n) | none => "bad-op"
  | ["xor", a, b] => match a.toNat?, b.toNat? with
      | some a, some b => toString (PyPhysim.Generated.xor a b) | _, _ => "bad-op"
  | ["bits", n] => match n.toNat? with | some n => showE (int2bits n) | none => "bad-op"
  | ["level", n] => match n.toNat? with | some n => showE (level2bits n) | none => "bad-op"
  | ["count", n] => match n.toNat? with | some n => showE (count_bits n) | none => "bad-op"
  | ["pskidx", m] => match m.toNat? with   -- index array used by PSK.__init__
      | some m => showList toString ((List.range m).map (pskPosInit gray2binary)) | none => "bad-op"
  | ["qamidx", l] => match l.toNat? with   -- _calculateGrayMappingIndexQAM(L)
      | some l => match level2bits (l*l) with
          | .ok kk => showList toString ((List.range (l*l)).map (qamPos binary2gray (kk / 2) l))
          | .error e => "error:" ++ toString e
      | none => "bad-op"
  | _ => "bad-op"

def main : IO Unit := runDriver handle
