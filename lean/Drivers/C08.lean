import PyPhysim.Model.Proto
import PyPhysim.Model.C08
open PyPhysim.Proto PyPhysim.C08

/-!
Line protocol of the C08 model driver (one history per line):

  `run cls=plain|ext cfg=fixed|orig <op> <op> …`  →  one reply token per op

scalars `re:im` (rationals `p/q`), rows `,`, matrix rows `;`, empty matrix `_`,
lists of matrices `|`, matrix-of-matrices rows `&`, op fields `!`.
The scalar type is the Gaussian rationals; `sqrt` is exact on squares of
rationals (the harness sends nothing else; anything else is refused).
-/

structure GRat where
  re : Rat
  im : Rat
  deriving DecidableEq, Repr

instance : Add GRat := ⟨fun a b => ⟨a.re + b.re, a.im + b.im⟩⟩
instance : Mul GRat := ⟨fun a b => ⟨a.re * b.re - a.im * b.im, a.re * b.im + a.im * b.re⟩⟩
instance : Zero GRat := ⟨⟨0, 0⟩⟩

def natSqrt? (n : Nat) : Option Nat := let r := n.sqrt; if r * r = n then some r else none

def ratSqrt? (r : Rat) : Option Rat :=
  if r.num < 0 then none else do
    let a ← natSqrt? r.num.toNat
    let b ← natSqrt? r.den
    if b = 0 then none else some (mkRat a b)

def gSqrt? (x : GRat) : Option GRat :=
  if x.im ≠ 0 then none else (ratSqrt? x.re).map fun r => ⟨r, 0⟩

def fns : Fns GRat :=
  { sqrt := fun x => (gSqrt? x).getD x     -- never reached on a non-square: lines are pre-validated
    conj := fun x => ⟨x.re, -x.im⟩
    nonneg := fun x => decide (0 ≤ x.re) }

-- ---------------------------------------------------------------- parsing
def parseG? (s : String) : Option GRat :=
  match s.splitOn ":" with
  | [a, b] => do let x ← parseRat? a; let y ← parseRat? b; some ⟨x, y⟩
  | [a] => do let x ← parseRat? a; some ⟨x, 0⟩
  | _ => none

def parseRow? (s : String) : Option (List GRat) :=
  if s = "~" then some [] else (s.splitOn ",").mapM parseG?

def parseMat? (s : String) : Option (Mat GRat) :=
  if s = "_" then some [] else (s.splitOn ";").mapM parseRow?

def parseMats? (s : String) : Option (List (Mat GRat)) :=
  if s = "#" then some [] else (s.splitOn "|").mapM parseMat?

def parseNats? (s : String) : Option (List Nat) :=
  if s = "_" then some [] else (s.splitOn ",").mapM String.toNat?

def parseOp? (tok : String) : Option (Op GRat) :=
  match tok.splitOn "!" with
  | ["init", m, nr, nt, k, nte] => do
      some (.init (← parseMat? m) (← parseNats? nr) (← parseNats? nt) (← k.toNat?) (← parseNats? nte))
  | ["rand", m, nr, nt, k, nte] => do
      some (.randomize (← parseMat? m) (← parseNats? nr) (← parseNats? nt) (← k.toNat?) (← parseNats? nte))
  | ["setpl", "none", _] => some (.setPL none [])
  | ["setpl", p, pe] => do some (.setPL (some (← parseMat? p)) (← parseMat? pe))
  | ["noise", "none"] => some (.setNoise none)
  | ["noise", v] => do some (.setNoise (some (← parseG? v)))
  | ["setw", "none"] => some (.setW none)
  | ["setw", w] => do some (.setW (some (← parseMats? w)))
  | ["H"] => some .readH
  | ["bigH"] => some .readBigH
  | ["Hkl", k, l] => do some (.readHkl (← k.toNat?) (← l.toNat?))
  | ["Hk", k] => do some (.readHk (← k.toNat?))
  | ["bigHne"] => some .readBigHNoExt
  | ["Hkne", k] => do some (.readHkNoExt (← k.toNat?))
  | ["Hne"] => some .readHNoExt
  | ["query"] => some .query
  | ["layout"] => some .readLayout
  | ["pl"] => some .readPL
  | ["bigW"] => some .readBigWView
  | ["nv"] => some .readNoiseVar
  | ["ln"] => some .readLastNoise
  | ["stack", x, xe] => do some (.stackData (← parseMats? x) (← parseMats? xe))
  | ["corruptc", x, "none"] => do some (.corruptCat (← parseMat? x) none)
  | ["corruptc", x, n] => do some (.corruptCat (← parseMat? x) (some (← parseMat? n)))
  | ["corrupt", x, xe, "none"] => do some (.corrupt (← parseMats? x) (← parseMats? xe) none)
  | ["corrupt", x, xe, n] => do some (.corrupt (← parseMats? x) (← parseMats? xe) (some (← parseMat? n)))
  | _ => none

/-- every path-loss entry of the line has an exact square root -/
def sqrtOk : Op GRat → Bool
  | .setPL (some p) pe => (p.all fun r => r.all fun x => (gSqrt? x).isSome)
                          && (pe.all fun r => r.all fun x => (gSqrt? x).isSome)
  | _ => true

-- ---------------------------------------------------------------- printing
def showG (x : GRat) : String := showRat x.re ++ ":" ++ showRat x.im
def showRow (r : List GRat) : String := if r.isEmpty then "~" else showList showG r
def showMat (m : Mat GRat) : String := if m.isEmpty then "_" else showList showRow m ";"
def showMats (l : List (Mat GRat)) : String := if l.isEmpty then "#" else showList showMat l "|"
def showMom (h : MoM GRat) : String := if h.isEmpty then "#" else showList showMats h "&"

def showOut : Out GRat → String
  | .unit => "unit"
  | .err e => "err:" ++ toString e
  | .mat m => "mat=" ++ showMat m
  | .mom h => "mom=" ++ showMom h
  | .rx ys ln => "rx=" ++ showMats ys ++ "@" ++ (match ln with | none => "none" | some n => showMat n)
  | .layout k nr nt nte =>
    let nl (l : List Nat) : String := if l.isEmpty then "_" else showList toString l
    "lay=" ++ toString k ++ ";" ++ nl nr ++ ";" ++ nl nt ++ ";" ++ nl nte
  | .optMat m => "opt=" ++ (match m with | none => "none" | some n => showMat n)
  | .optScalar v => "sc=" ++ (match v with | none => "none" | some x => showG x)

def handle : List String → String
  | "run" :: cls :: cfg :: ops =>
    match cls, cfg, ops.mapM parseOp? with
    | _, _, none => "bad-op"
    | cls, cfg, some ops =>
      let isExt? := if cls = "cls=ext" then some true else if cls = "cls=plain" then some false else none
      let cfg? := if cfg = "cfg=fixed" then some Cfg.fixed else if cfg = "cfg=orig" then some Cfg.orig else none
      match isExt?, cfg? with
      | some isExt, some cfg =>
        if ops.all sqrtOk then
          showList showOut (run cfg fns (State.init GRat isExt) ops).2 " "
        else "unsupported-sqrt"
      | _, _ => "bad-op"
  | _ => "bad-op"

def main : IO Unit := runDriver handle
