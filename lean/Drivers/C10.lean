import PyPhysim.Model.Proto
import PyPhysim.Model.C10
import PyPhysim.Model.C10Cache
open PyPhysim.Proto PyPhysim.C10

/-!
Line-protocol driver of the C10 model, instantiated at binary64.

* `hist K <Hdiag> <op> <op> …` runs a history of the derived-quantity machine
  (`Model/C10Cache.lean`, `Cfg.fixed`) with the matrix operations instantiated
  by the formulas of `Model/C10.lean` (`fullF`, `eqChan`, `normalize`, `cT`) and
  an own Gaussian elimination for the `np.linalg.solve` kernel.
* `form …`, `cf …`, `mmse …`, `amwh …` evaluate the numeric formulas of
  `Model/C10.lean` on given matrices (kernel results are inputs).

A per-user array is `r x c = re,im,re,im,…` per user (`2x1=f..,f..`), users
separated by `|`; every scalar is the decimal of its binary64 bit pattern
prefixed `f`.
-/

/-- binary64 complex number -/
structure CF where
  re : Float
  im : Float

instance : Inhabited CF := ⟨⟨0, 0⟩⟩
instance : Zero CF := ⟨⟨0, 0⟩⟩
instance : One CF := ⟨⟨1, 0⟩⟩
instance : Add CF := ⟨fun a b => ⟨a.re + b.re, a.im + b.im⟩⟩
instance : Sub CF := ⟨fun a b => ⟨a.re - b.re, a.im - b.im⟩⟩
instance : Mul CF := ⟨fun a b => ⟨a.re * b.re - a.im * b.im, a.re * b.im + a.im * b.re⟩⟩
instance : Div CF := ⟨fun a b =>
  let d := b.re * b.re + b.im * b.im
  ⟨(a.re * b.re + a.im * b.im) / d, (a.im * b.re - a.re * b.im) / d⟩⟩
instance : Conj CF := ⟨fun a => ⟨a.re, -a.im⟩⟩
instance : RSqrt CF := ⟨fun a => ⟨Float.sqrt a.re, 0⟩⟩
instance : AbsR CF := ⟨fun a => ⟨Float.sqrt (a.re * a.re + a.im * a.im), 0⟩⟩
instance : OfNat CF 1000000 := ⟨⟨1000000.0, 0⟩⟩

def CF.abs2 (a : CF) : Float := a.re * a.re + a.im * a.im
def ofReal (x : Float) : CF := ⟨x, 0⟩

/-- a matrix with run-time shape, row major -/
structure DM where
  r : Nat
  c : Nat
  d : Array CF

instance : Inhabited DM := ⟨⟨0, 0, #[]⟩⟩

def DM.mat (A : DM) : Mat CF A.r A.c := fun i j => A.d.getD (i.val * A.c + j.val) ⟨0, 0⟩

def DM.ofMat {m n : Nat} (A : Mat CF m n) : DM :=
  ⟨m, n, ((List.finRange m).flatMap (fun i => (List.finRange n).map (fun j => A i j))).toArray⟩

/-- view with a prescribed shape (the caller has checked it) -/
def DM.as (A : DM) (m n : Nat) : Mat CF m n := fun i j => A.d.getD (i.val * A.c + j.val) ⟨0, 0⟩

def DM.mul (A B : DM) : Except PyErr DM :=
  if A.c = B.r then .ok (DM.ofMat (matMul (A.as A.r A.c) (B.as A.c B.c))) else .error .ValueError

def DM.herm (A : DM) : DM := DM.ofMat (cT A.mat)

/-! ### `np.linalg.solve` : Gaussian elimination with partial pivoting -/

def swapRows (M : Array (Array CF)) (i j : Nat) : Array (Array CF) :=
  if i = j then M else
    let ri := M.getD i #[]; let rj := M.getD j #[]
    (M.set! i rj).set! j ri

/-- solve `A X = B` (`A : n×n`, `B : n×c`); `none` = exactly singular -/
def gaussSolve (n c : Nat) (A : Mat CF n n) (B : Mat CF n c) : Option (Array (Array CF)) := Id.run do
  -- augmented rows
  let mut M : Array (Array CF) := ((List.finRange n).map (fun i =>
    (((List.finRange n).map (fun j => A i j)) ++ ((List.finRange c).map (fun j => B i j))).toArray)).toArray
  let mut ok := true
  for col in [0:n] do
    -- pivot
    let mut best := col
    let mut bestv := ((M.getD col #[]).getD col ⟨0, 0⟩).abs2
    for r in [col+1:n] do
      let v := ((M.getD r #[]).getD col ⟨0, 0⟩).abs2
      if v > bestv then
        best := r
        bestv := v
    if bestv == 0.0 then
      ok := false
    else
      M := swapRows M col best
      let prow := M.getD col #[]
      let p := prow.getD col ⟨0, 0⟩
      for r in [0:n] do
        if r != col then
          let row := M.getD r #[]
          let f := row.getD col ⟨0, 0⟩ / p
          M := M.set! r ((Array.range (n + c)).map (fun j => row.getD j ⟨0, 0⟩ - f * prow.getD j ⟨0, 0⟩))
  if !ok then return none
  let X := (Array.range n).map (fun i =>
    let row := M.getD i #[]
    let p := row.getD i ⟨0, 0⟩
    (Array.range c).map (fun j => row.getD (n + j) ⟨0, 0⟩ / p))
  return some X

def DM.ofRows (r c : Nat) (X : Array (Array CF)) : DM :=
  ⟨r, c, ((List.range r).flatMap (fun i => (List.range c).map (fun j => (X.getD i #[]).getD j ⟨0, 0⟩))).toArray⟩

/-- `np.linalg.solve(A, B)` with numpy's errors (`LinAlgError` is a `ValueError`) -/
def DM.solve (A B : DM) : Except PyErr DM :=
  if A.r = A.c ∧ A.r = B.r then
    match gaussSolve A.r B.c (A.as A.r A.r) (B.as A.r B.c) with
    | some X => .ok (DM.ofRows A.r B.c X)
    | none => .error .ValueError
  else .error .ValueError

def solveFn {n s : Nat} (A : Mat CF n n) (B : Mat CF n s) : Mat CF n s :=
  match gaussSolve n s A B with
  | some X => fun i j => (X.getD i.val #[]).getD j.val ⟨0, 0⟩
  | none => fun _ _ => ⟨0.0 / 0.0, 0.0 / 0.0⟩

/-! ### the `Ops` of the machine at binary64 -/

abbrev Arr := Array DM

def zipM (f : DM → DM → Except PyErr DM) (X Y : Arr) : Except PyErr Arr :=
  if X.size ≠ Y.size then .error .ValueError
  else (List.range X.size).foldlM (fun acc k => do
    let z ← f (X.getD k default) (Y.getD k default)
    pure (acc.push z)) #[]

/-- the machine operations for a solver whose direct channels are `Hd` -/
def mkOps (Hd : Arr) : Ops Arr Float where
  scale F P :=
    if F.size ≠ P.length then .error .ValueError
    else .ok ((List.range F.size).map (fun k =>
      let A := F.getD k default
      DM.ofMat (mscale A.mat (RSqrt.sqrt (ofReal (P.getD k 0.0)))))).toArray
  herm X := X.map DM.herm
  comp WH fF :=
    if WH.size ≠ Hd.size ∨ fF.size ≠ Hd.size then .error .ValueError
    else (List.range Hd.size).foldlM (fun acc k => do
      let Y := WH.getD k default
      let Hkk := Hd.getD k default
      let f := fF.getD k default
      if Y.c = Hkk.r ∧ Hkk.c = f.r ∧ f.c = Y.r then
        -- `_calc_equivalent_channel` : `eqChan`
        let Hieq := DM.ofMat (eqChan (Y.as Y.r Hkk.r) (Hkk.as Hkk.r f.r) (f.as f.r Y.r))
        let Z ← DM.solve Hieq Y
        pure (acc.push Z)
      else throw .ValueError) #[]
  normalize X := X.map (fun A => DM.ofMat (normalize A.mat))
  ncols X := X.toList.map (fun A => A.c)
  pos x := x > 0.0
  one := 1.0
  noneArr := #[]

/-! ### parsing / printing -/

def pairs : List Float → Option (List CF)
  | [] => some []
  | re :: im :: rest => (pairs rest).map (fun t => ⟨re, im⟩ :: t)
  | _ => none

def parseDM (s : String) : Option DM := do
  match s.splitOn "=" with
  | [shape, dat] =>
    match shape.splitOn "x" with
    | [r, c] =>
      let r ← r.toNat?; let c ← c.toNat?
      let fs ← parseFloatList? dat
      let ps ← pairs fs
      if ps.length = r * c then some ⟨r, c, ps.toArray⟩ else none
    | _ => none
  | _ => none

def parseArr (s : String) : Option Arr :=
  if s = "[]" then some #[] else ((s.splitOn "|").mapM parseDM).map List.toArray

def parseArrO (s : String) : Option (Option Arr) :=
  if s = "-" then some none else (parseArr s).map some

def showC (z : CF) : String := showFloat z.re ++ "," ++ showFloat z.im

def showDM (A : DM) : String :=
  toString A.r ++ "x" ++ toString A.c ++ "=" ++ ",".intercalate (A.d.toList.map showC)

def showArr (X : Arr) : String := if X.size = 0 then "[]" else "|".intercalate (X.toList.map showDM)

def parsePArg (s : String) : Option (PArg Float) :=
  if s = "n" then some .none
  else if s = "m" then some .malformed
  else if s.startsWith "s" then (parseFloat? (s.drop 1).toString).map .scalar
  else if s.startsWith "v" then (parseFloatList? (s.drop 1).toString).map .vec
  else none

def parseNsArg (s : String) : Option NsArg :=
  if s.startsWith "i" then ((s.drop 1).toString.toNat?).map .int
  else if s.startsWith "l" then (parseNatList? (s.drop 1).toString).map .list
  else none

def parsePList (s : String) : Option (Option (List Float)) :=
  if s = "-" then some none else (parseFloatList? s).map some

def parseOp (tok : String) : Option (Op Arr Float) :=
  match tok.splitOn ";" with
  | ["setP", p] => (parsePArg p).map .setP
  | ["rand", m, ns, p] => do
      let m ← parseArr m; let ns ← parseNsArg ns; let p ← parsePArg p
      pure (.randomizeF m ns p)
  | ["setprec", f, ff, p] => do
      let f ← parseArrO f; let ff ← parseArrO ff; let p ← parsePList p
      pure (.setPrecoders f ff p)
  | ["setfilt", wh, w] => do
      let wh ← parseArrO wh; let w ← parseArrO w
      pure (.setFilters wh w)
  | ["solve", cf, ns, p, f, ff, filt, isH, nsl] => do
      let ns ← parseNsArg ns; let p ← parsePArg p
      let f ← parseArr f; let ff ← parseArrO ff; let filt ← parseArr filt
      let nsl ← parseNatList? nsl
      pure (.solve (cf = "1") ns p ⟨f, ff, filt, isH = "1", nsl⟩)
  | ["clear"] => some .clear
  | ["setinit", a] => some (.setInit (a = "1"))
  | ["query"] => some .query
  | ["fork"] => some .fork
  | ["rF"] => some .readF
  | ["rFF"] => some .readFullF
  | ["rW"] => some .readW
  | ["rWH"] => some .readWH
  | ["rFWH"] => some .readFullWH
  | ["rFW"] => some .readFullW
  | ["rNs"] => some .readNs
  | ["rP"] => some .readP
  | _ => none

def showOut : Out Arr Float → String
  | .unit => "unit"
  | .err e => "err;" ++ toString e
  | .arr none => "none"
  | .arr (some X) => "arr;" ++ showArr X
  | .ns none => "ns;none"
  | .ns (some l) => "ns;" ++ showList toString l
  | .pow l => "pow;" ++ showList showFloat l

/-! ### formulas on a whole system -/

structure Sys where
  K : Nat
  d : Dims K
  H : Chan CF d
  F : Prec CF d
  W : Filt CF d
  C : Basis CF d
  P : Fin K → CF

def natAt (l : List Nat) (k : Nat) : Nat := l.getD k 0

/-- build a system from parsed arrays (shapes are taken from the declared
    antenna / stream counts; the harness sends conforming data) -/
def mkSys (K : Nat) (nr nt ns : List Nat) (H F W C : Arr) (P : List Float) : Sys :=
  let d : Dims K := ⟨fun k => natAt nr k.val, fun k => natAt nt k.val, fun k => natAt ns k.val⟩
  { K := K, d := d,
    H := fun k l => (H.getD (k.val * K + l.val) default).as _ _,
    F := fun l => (F.getD l.val default).as _ _,
    W := fun k => (W.getD k.val default).as _ _,
    C := fun k => (C.getD k.val default).as _ _,
    P := fun k => ofReal (P.getD k.val 0.0) }

/-- materialise a family of matrices -/
def famArr {K : Nat} {r c : Fin K → Nat} (X : (k : Fin K) → Mat CF (r k) (c k)) : Arr :=
  ((List.finRange K).map (fun k => DM.ofMat (X k))).toArray

def finOf (K : Nat) (k : Nat) : Option (Fin K) := if h : k < K then some ⟨k, h⟩ else none

def handle : List String → String
  | "hist" :: k :: hd :: ops => Id.run do
      let some K := k.toNat? | return "bad-op"
      let some Hd := parseArr hd | return "bad-op"
      let some ops := ops.mapM parseOp | return "bad-op"
      let r := run Cfg.fixed (mkOps Hd) K (State.init Arr Float) ops
      return " ".intercalate (r.2.map showOut)
  -- form K nr nt ns H F W C P noise idx  ->  fullF | Q_idx | Qrev_idx | mlcost | amcost | amF_idx | mmseSum_idx | mmseHU_idx | UkLhs_idx | UkRhs_idx
  | ["form", k, nr, nt, ns, h, f, w, c, p, noise, idx] => Id.run do
      let some K := k.toNat? | return "bad-op"
      let some nr := parseNatList? nr | return "bad-op"
      let some nt := parseNatList? nt | return "bad-op"
      let some ns := parseNatList? ns | return "bad-op"
      let some H := parseArr h | return "bad-op"
      let some F := parseArr f | return "bad-op"
      let some W := parseArr w | return "bad-op"
      let some C := parseArr c | return "bad-op"
      let some P := parseFloatList? p | return "bad-op"
      let noiseO : Option CF := if noise = "-" then none else (parseFloat? noise).map ofReal
      let nv : CF := noiseO.getD ⟨0, 0⟩
      let some ix := idx.toNat? | return "bad-op"
      let S := mkSys K nr nt ns H F W C P
      let some i := finOf S.K ix | return "bad-op"
      -- materialise full_F once
      let fFa := famArr (fullF S.F S.P)
      let fF : Prec CF S.d := fun l => (fFa.getD l.val default).as _ _
      return "/".intercalate [
        showArr fFa,
        showDM (DM.ofMat (calcQn S.H fF noiseO i)),
        showDM (DM.ofMat (calcQrev S.H S.W S.P i)),
        showC (minLeakCost S.H fF noiseO S.W),
        showC (altMinCost S.H fF S.C),
        showDM (DM.ofMat (altMinFMat S.H S.C i)),
        showDM (DM.ofMat (mmseSum S.H S.W i)),
        showDM (DM.ofMat (mmseHU S.H S.W i)),
        showDM (DM.ofMat (mmseUkLhs S.H fF nv i)),
        showDM (DM.ofMat (mmseUkRhs S.H fF i))]
  -- cf A B Cc G32 G23 H31 H21 F0  ->  E | F2' | F3' | normalised F1 F2 F3
  | ["cf", a, b, cc, g32, g23, h31, h21, f0] => Id.run do
      let some A := parseDM a | return "bad-op"
      let some B := parseDM b | return "bad-op"
      let some Cc := parseDM cc | return "bad-op"
      let some G32 := parseDM g32 | return "bad-op"
      let some G23 := parseDM g23 | return "bad-op"
      let some H31 := parseDM h31 | return "bad-op"
      let some H21 := parseDM h21 | return "bad-op"
      let some F0 := parseDM f0 | return "bad-op"
      let N := A.r; let s := F0.c
      let F2 := DM.ofMat (cfChain (G32.as N N) (H31.as N N) (F0.as N s))
      let F3 := DM.ofMat (cfChain (G23.as N N) (H21.as N N) (F0.as N s))
      return "/".intercalate [
        showDM (DM.ofMat (cfE (A.as N N) (B.as N N) (Cc.as N N))),
        showDM F2, showDM F3,
        showDM (DM.ofMat (normalize F0.mat)), showDM (DM.ofMat (normalize F2.mat)),
        showDM (DM.ofMat (normalize F3.mat))]
  -- cfw Hkl Fl -> A A^H
  | ["cfw", hkl, fl] => Id.run do
      let some Hkl := parseDM hkl | return "bad-op"
      let some Fl := parseDM fl | return "bad-op"
      return showDM (DM.ofMat (cfWMat (Hkl.as Hkl.r Hkl.r) (Fl.as Hkl.r Fl.c)))
  -- mmse S HU P mu -> cost at 0 | Vi   (mu = the value returned by scipy's newton)
  | ["mmse", s, hu, p, mu] => Id.run do
      let some S := parseDM s | return "bad-op"
      let some HU := parseDM hu | return "bad-op"
      let some P := parseFloat? p | return "bad-op"
      let some mu := parseFloat? mu | return "bad-op"
      let n := S.r; let c := HU.c
      let Sm := S.as n n; let HUm := HU.as n c
      let HU' := DM.ofMat (mdiv HUm (frobNorm HUm))
      let S' := DM.ofMat (mdiv Sm (frobNorm HUm))
      let V0 := DM.ofMat (solveFn (mmseLhs (S'.as n n) 0) (HU'.as n c))
      let Vi := DM.ofMat (mmseVi (fun (z : CF) => z.re ≤ 0.0) solveFn (fun _ _ _ => ofReal mu) Sm HUm (ofReal P))
      return "/".intercalate [showC (mmseCost (V0.as n c) (ofReal P)), showDM Vi]
  -- amwh a b n G HF C -> W_H rows | hstack
  | ["amwh", a, b, g, hf, c] => Id.run do
      let some a := a.toNat? | return "bad-op"
      let some b := b.toNat? | return "bad-op"
      let some G := parseDM g | return "bad-op"
      let some HF := parseDM hf | return "bad-op"
      let some C := parseDM c | return "bad-op"
      let n := G.c
      return "/".intercalate [
        showDM (DM.ofMat (altMinWH (a := a) (b := b) (G.as (a + b) n))),
        showDM (DM.ofMat (hstack (HF.as n a) (C.as n b)))]
  -- store normalizeV V -> what the min-leakage solver stores | its Frobenius norm | assertion holds
  | ["store", nv, v] => Id.run do
      let some V := parseDM v | return "bad-op"
      let X := DM.ofMat (minLeakStore (nv = "1") V.mat)
      let nrm := (frobNorm X.mat).re
      return "/".intercalate [showDM X, showFloat nrm,
        if nrm - 1.0 < (assertTol : CF).re then "assert-ok" else "AssertionError"]
  -- svdkept nr nt ns -> discarded | kept   (repaired source)
  | ["svdkept", nr, nt, ns] => Id.run do
      let some nr := nr.toNat? | return "bad-op"
      let some nt := nt.toNat? | return "bad-op"
      let some ns := ns.toNat? | return "bad-op"
      return toString (svdInitDiscard true nr nt ns) ++ "/" ++ toString (svdInitKept true nr nt ns)
  | _ => "bad-op"

def main : IO Unit := runDriver handle
