import PyPhysim.Model.Proto
import PyPhysim.Model.C13
open PyPhysim.Proto PyPhysim.C13

/-! Line-protocol driver of the C13 model at `α = Float`.

`<kind> <ctor args…> <op>…` → one reply token per op, space separated.
floats are `f<bits>`; arrays are comma separated; errors are `error:<PyErr>`.

kinds: `gen <n> <C>` · `gpp` · `fs <n> <fc>` · `ps7 <fc>` · `oh` · `ant <sectors>`
ops  : `small:0|1` `n:<f>` `fc:<f>` `hbs:<f>` `hms:<f>` `area:<name, ~ for space>`  (setters → `ok` / `error:…`)
       `db:<f>` `dba:<f,…>` `lin:<f>` `lina:<f,…>` `wdb:<f>` `wdba:<f,…>` `wl:<f>` `wla:<f,…>`
       ps7 queries carry the wall count: `wdb:<nw>:<f>` `wdba:<nw>:<f,…>` `wl:<nw>:<f>` `db:<nw>:<f>` `dba:<nw>:<f,…>` `dbw:<nw,…>:<f,…>` `lin:<nw>:<f>`
       `g:<f>` `ga:<f,…>` (antenna)
       non-setter public calls: `shadow:0|1` (plain attribute write) · `plot:<f,…>` / `plotx:<f,…>` (axes raise)
       → `ok` / `error:…` · `nop:<name>` (repr, copies, getters, helpers … → `ok`) · `flags` → `s<0|1>h<0|1>`
-/

instance : NatCast Float := ⟨Float.ofNat⟩
instance : Transc Float := ⟨Float.log10, fun x => Float.pow 10.0 x⟩

def showR : Except PyErr Float → String
  | .ok x => showFloat x
  | .error e => "error:" ++ toString e

def showRA : Except PyErr (List Float) → String
  | .ok l => showList showFloat l
  | .error e => "error:" ++ toString e

def splitOp (t : String) : List String := t.splitOn ":"

def pf (s : String) : Option Float := parseFloat? s
def pfl (s : String) : Option (List Float) := parseFloatList? s

/-- queries common to the `GenState` family -/
def genQuery (s : GenState Float) : List String → Option String
  | ["db", x] => (pf x).map (fun d => showR (s.dbScalar d))
  | ["dba", x] => (pfl x).map (fun d => showRA (s.dbArray d))
  | ["lin", x] => (pf x).map (fun d => showR (s.linScalar d))
  | ["lina", x] => (pfl x).map (fun d => showRA (s.linArray d))
  | ["wdb", x] => (pf x).map (fun p => showR (s.whichDbScalar p))
  | ["wdba", x] => (pfl x).map (fun p => showList showFloat (s.whichDbArray p))
  | ["wl", x] => (pf x).map (fun p => showFloat (s.whichLin p))
  | ["wla", x] => (pfl x).map (fun p => showList showFloat (s.whichLinArray p))
  | _ => none

def bool? : String → Option Bool
  | "0" => some false | "1" => some true | _ => none

def showSet : Option PyErr → String
  | none => "ok"
  | some e => "error:" ++ toString e

def showFlags (small shadow : Bool) : String :=
  "s" ++ (if small then "1" else "0") ++ "h" ++ (if shadow then "1" else "0")

/-- `setters = true` for PathLossFreeSpace (n / fc properties exist) -/
def runGen (setters : Bool) : GenState Float → List String → List String → String
  | _, [], acc => " ".intercalate acc.reverse
  | s, t :: ts, acc =>
    match splitOp t with
    | ["small", b] => match bool? b with
        | some b => runGen setters (fsStep s (.setSmall b)) ts ("ok" :: acc) | none => "bad-op"
    | ["shadow", b] => match bool? b with
        | some b => runGen setters (fsStep s (.setShadow b)) ts ("ok" :: acc) | none => "bad-op"
    | ["flags"] => runGen setters s ts (showFlags s.small s.shadow :: acc)
    | ["nop", _] => runGen setters s ts ("ok" :: acc)
    | ["plot", x] => match pfl x with
        | some d => let r := s.plot d false; runGen setters r.1 ts (showSet r.2 :: acc) | none => "bad-op"
    | ["plotx", x] => match pfl x with
        | some d => let r := s.plot d true; runGen setters r.1 ts (showSet r.2 :: acc) | none => "bad-op"
    | ["n", x] => match setters, pf x with
        | true, some v => runGen setters (fsStep s (.setN v)) ts ("ok" :: acc) | _, _ => "bad-op"
    | ["fc", x] => match setters, pf x with
        | true, some v => runGen setters (fsStep s (.setFc v)) ts ("ok" :: acc) | _, _ => "bad-op"
    | q => match genQuery s q with
        | some r => runGen setters s ts (r :: acc) | none => "bad-op"

def runPs7 : Ps7State Float → List String → List String → String
  | _, [], acc => " ".intercalate acc.reverse
  | s, t :: ts, acc =>
    match splitOp t with
    | ["small", b] => match bool? b with
        | some b => runPs7 (ps7Step s (.setSmall b)) ts ("ok" :: acc) | none => "bad-op"
    | ["shadow", b] => match bool? b with
        | some b => runPs7 (ps7Step s (.setShadow b)) ts ("ok" :: acc) | none => "bad-op"
    | ["flags"] => runPs7 s ts (showFlags s.small s.shadow :: acc)
    | ["nop", _] => runPs7 s ts ("ok" :: acc)
    | ["plot", x] => match pfl x with
        | some d => let r := s.plot d false; runPs7 r.1 ts (showSet r.2 :: acc) | none => "bad-op"
    | ["plotx", x] => match pfl x with
        | some d => let r := s.plot d true; runPs7 r.1 ts (showSet r.2 :: acc) | none => "bad-op"
    | ["fc", x] => match pf x with
        | some v => runPs7 (ps7Step s (.setFc v)) ts ("ok" :: acc) | none => "bad-op"
    | ["db", w, x] => match w.toInt?, pf x with
        | some w, some d => runPs7 s ts (showR (s.dbScalar w d) :: acc) | _, _ => "bad-op"
    | ["lin", w, x] => match w.toInt?, pf x with
        | some w, some d => runPs7 s ts (showR (s.linScalar w d) :: acc) | _, _ => "bad-op"
    | ["dba", w, x] => match w.toInt?, pfl x with
        | some w, some d => runPs7 s ts (showRA (s.dbArray w d) :: acc) | _, _ => "bad-op"
    | ["wdb", w, x] => match w.toInt?, pf x with
        | some w, some p => runPs7 s ts (showR (s.whichDb w p) :: acc) | _, _ => "bad-op"
    | ["wdba", w, x] => match w.toInt?, pfl x with
        | some w, some p => runPs7 s ts (showRA (s.whichDbArray w p) :: acc) | _, _ => "bad-op"
    | ["wl", w, x] => match w.toInt?, pf x with
        | some w, some p => runPs7 s ts (showR (s.whichLin w p) :: acc) | _, _ => "bad-op"
    | ["dbw", w, x] => match parseNatList? w, pfl x with
        | some w, some d => runPs7 s ts (showRA (s.dbArrayWalls w d) :: acc) | _, _ => "bad-op"
    | _ => "bad-op"

def runOh : OhState Float → List String → List String → String
  | _, [], acc => " ".intercalate acc.reverse
  | s, t :: ts, acc =>
    let set (o : OhOp Float) := let r := ohStep s o; runOh r.1 ts (showSet r.2 :: acc)
    match splitOp t with
    | ["small", b] => match bool? b with | some b => set (.setSmall b) | none => "bad-op"
    | ["shadow", b] => match bool? b with | some b => set (.setShadow b) | none => "bad-op"
    | ["flags"] => runOh s ts (showFlags s.small s.shadow :: acc)
    | ["nop", _] => runOh s ts ("ok" :: acc)
    | ["plot", x] => match pfl x with
        | some d => let r := s.plot d false; runOh r.1 ts (showSet r.2 :: acc) | none => "bad-op"
    | ["plotx", x] => match pfl x with
        | some d => let r := s.plot d true; runOh r.1 ts (showSet r.2 :: acc) | none => "bad-op"
    | ["fc", x] => match pf x with | some v => set (.setFc v) | none => "bad-op"
    | ["hbs", x] => match pf x with | some v => set (.setHbs v) | none => "bad-op"
    | ["hms", x] => match pf x with | some v => set (.setHms v) | none => "bad-op"
    | ["area", a] => set (.setArea (a.replace "~" " "))
    | ["db", x] => match pf x with
        | some d => runOh s ts (showR (s.dbScalar d) :: acc) | none => "bad-op"
    | ["lin", x] => match pf x with
        | some d => runOh s ts (showR (s.linScalar d) :: acc) | none => "bad-op"
    | ["dba", x] => match pfl x with
        | some d => runOh s ts (showRA (s.dbArray d) :: acc) | none => "bad-op"
    | ["wdb", x] => match pf x with
        | some p => runOh s ts (showR (s.whichDb p) :: acc) | none => "bad-op"
    | _ => "bad-op"

def runAnt (a : Ant Float) : List String → List String → String
  | [], acc => " ".intercalate acc.reverse
  | t :: ts, acc =>
    match splitOp t with
    | ["g", x] => match pf x with
        | some v => runAnt a ts (showFloat (a.gain v) :: acc) | none => "bad-op"
    | ["ga", x] => match pfl x with
        | some v => runAnt a ts (showList showFloat (v.map a.gain) :: acc) | none => "bad-op"
    | _ => "bad-op"

def handle : List String → String
  | "gen" :: n :: c :: ops => match pf n, pf c with
      | some n, some c => runGen false (generalInit n c) ops [] | _, _ => "bad-op"
  | "gpp" :: ops => runGen false gpp1Init ops []
  | "fs" :: n :: fc :: ops => match pf n, pf fc with
      | some n, some fc => runGen true (fsInit n fc) ops [] | _, _ => "bad-op"
  | "fsdefault" :: ops => runGen true (fsInit PyPhysim.C13.Gen.fsDefaultN PyPhysim.C13.Gen.fsDefaultFc) ops []
  | "ps7" :: fc :: ops => match pf fc with
      | some fc => runPs7 (ps7Init fc) ops [] | none => "bad-op"
  | "ps7default" :: ops => runPs7 (ps7Init PyPhysim.C13.Gen.ps7DefaultFc) ops []
  | "oh" :: ops => runOh ohInit ops []
  | "ant" :: k :: ops => match k.toNat? with
      | some k => match (antNew k : Except PyErr (Ant Float)) with
          | .ok a => runAnt a ops []
          | .error e => "error:" ++ toString e
      | none => "bad-op"
  | _ => "bad-op"

def main : IO Unit := runDriver handle
