import PyPhysim.Model.Proto
import PyPhysim.Model.C20
import PyPhysim.Model.C20Gmd
import PyPhysim.Model.C20Robust
open PyPhysim.Proto PyPhysim.LinAlg

/-!
Line-protocol driver of the C20 model, instantiated at binary64.
Matrices travel row-major, each scalar as two binary64 bit patterns
(`re,im` — real inputs have `im = 0`), comma separated; shapes are decimal.
External kernel results (`inv`, `qr`, `svd`, `eig(h)`, `argsort`) are inputs.
-/

/-- binary64 complex number -/
structure CF where
  re : Float
  im : Float

instance : Zero CF := ⟨⟨0, 0⟩⟩
instance : One CF := ⟨⟨1, 0⟩⟩
instance : Add CF := ⟨fun a b => ⟨a.re + b.re, a.im + b.im⟩⟩
instance : Sub CF := ⟨fun a b => ⟨a.re - b.re, a.im - b.im⟩⟩
instance : Mul CF := ⟨fun a b => ⟨a.re * b.re - a.im * b.im, a.re * b.im + a.im * b.re⟩⟩
instance : Div CF := ⟨fun a b =>
  let d := b.re * b.re + b.im * b.im
  ⟨(a.re * b.re + a.im * b.im) / d, (a.im * b.re - a.re * b.im) / d⟩⟩
instance : Conj CF := ⟨fun a => ⟨a.re, -a.im⟩⟩
instance : RSqrt CF := ⟨fun a => ⟨Float.sqrt a.re, 0⟩⟩
instance : Neg CF := ⟨fun a => ⟨-a.re, -a.im⟩⟩
/-- order of the real parts (only real quantities are ever compared) -/
instance : LE CF := ⟨fun a b => a.re ≤ b.re⟩
instance : DecidableLE CF := fun a b => inferInstanceAs (Decidable (a.re ≤ b.re))

instance : Zero Float := ⟨0.0⟩
instance : One Float := ⟨1.0⟩
instance : RSqrt Float := ⟨Float.sqrt⟩
instance : Transc Float :=
  { log10 := Float.log10, pow10 := fun x => Float.pow 10.0 x, acos := Float.acos, sin := Float.sin }

def toMat (m n : Nat) (xs : Array CF) : Mat CF m n :=
  fun i j => xs.getD (i.val * n + j.val) ⟨0, 0⟩

def toVec (n : Nat) (xs : Array CF) : Fin n → CF := fun i => xs.getD i.val ⟨0, 0⟩

def pairs : List Float → Option (List CF)
  | [] => some []
  | re :: im :: rest => (pairs rest).map (fun t => ⟨re, im⟩ :: t)
  | _ => none

/-- parse `count` complex numbers (2·count floats) -/
def parseC (count : Nat) (s : String) : Option (Array CF) := do
  let fs ← parseFloatList? s
  let ps ← pairs fs
  if ps.length = count then some ps.toArray else none

def showC (z : CF) : String := showFloat z.re ++ "," ++ showFloat z.im

def showMat {m n : Nat} (A : Mat CF m n) : String :=
  ",".intercalate ((List.finRange m).flatMap (fun i => (List.finRange n).map (fun j => showC (A i j))))

def showE {β} (f : β → String) : Except PyErr β → String
  | .ok b => f b
  | .error e => "error:" ++ toString e

def nat3 (a b c : String) : Option (Nat × Nat × Nat) := do
  let a ← a.toNat?; let b ← b.toNat?; let c ← c.toNat?
  pure (a, b, c)

def emptyOk (s : String) : String := if s = "-" then "" else s


/-! ### R16: histories on the caller's arrays (`PyPhysim.C20R.run`) -/

/-- a binary64 array with its shape: the contents of one of the caller's arrays -/
structure Buf where
  rows : Nat
  cols : Nat
  data : Array CF

def Buf.mat (b : Buf) : Mat CF b.rows b.cols := toMat b.rows b.cols b.data

def showBuf (b : Buf) : String :=
  toString b.rows ++ "x" ++ toString b.cols ++ ":" ++ showMat b.mat

def parseCAny (s : String) : Option (Array CF) := do
  let fs ← parseFloatList? (emptyOk s)
  let ps ← pairs fs
  some ps.toArray

def convBuf (f : Float → Float) (b : Buf) : String :=
  ",".intercalate (b.data.toList.map (fun z => showFloat (f z.re)))

open PyPhysim.C20R in
/-- the operations of a history line; kernel results (`G` of `inv`, `Q` of the object) ride along -/
def parseOps : List String → Option (List (Op Buf String))
  | [] => some []
  | "R" :: i :: m :: k :: d :: rest => do
      let (i, m, k) ← nat3 i m k
      let xs ← parseC (m * k) (emptyOk d)
      let tl ← parseOps rest
      some (.refill i ⟨m, k, xs⟩ :: tl)
  | "proj" :: i :: g :: rest => do
      let i ← i.toNat?
      let G ← parseCAny g
      let tl ← parseOps rest
      some (.call1 (fun b => showMat (projWith (toMat b.cols b.cols G) b.mat) ++ "|" ++
                              showMat (oprojWith (toMat b.cols b.cols G) b.mat)) i :: tl)
  | "chord2" :: i :: j :: ga :: gb :: rest => do
      let (i, j, _) ← nat3 i j "0"
      let GA ← parseCAny ga
      let GB ← parseCAny gb
      let tl ← parseOps rest
      some (.call2 (fun a b => showFloat (chordal2 (toMat a.cols a.cols GA) (toMat b.cols b.cols GB) a.mat
                                 (toMat a.rows b.cols b.data)).re) i j :: tl)
  | "apply" :: i :: q :: rest => do
      let i ← i.toNat?
      let Q ← parseCAny q
      let tl ← parseOps rest
      some (.call1 (fun b => showMat (project (toMat b.rows b.rows Q) b.mat) ++ "|" ++
                              showMat (reflect (toMat b.rows b.rows Q) b.mat)) i :: tl)
  | "uisd" :: i :: j :: rest => do
      let (i, j, _) ← nat3 i j "0"
      let tl ← parseOps rest
      some (.call2 (fun a d => showE showMat (updateInvSumDiag (toMat a.rows a.rows a.data) d.data.toList)) i j :: tl)
  | "gmd" :: i :: j :: k :: p :: sb :: rest => do
      let (i, j, k) ← nat3 i j k
      let p ← p.toNat?
      let sb ← parseFloat? sb
      let tl ← parseOps rest
      some (.call3 (fun u s vh =>
        let m := u.rows
        let n := vh.rows
        let ucols : Array (Array CF) :=
          Array.ofFn (n := m) (fun c => Array.ofFn (n := m) (fun r => u.data.getD (r.val * m + c.val) ⟨0, 0⟩))
        -- column c of V = V_H^H is the conjugate of row c of V_H
        let vcols : Array (Array CF) :=
          Array.ofFn (n := n) (fun c => Array.ofFn (n := n) (fun r => Conj.conj (vh.data.getD (c.val * n + r.val) ⟨0, 0⟩)))
        match gmd m n p (⟨sb, 0⟩ : CF) ucols s.data vcols with
        | .error e => "error:" ++ toString e
        | .ok (Q, R, P, mg) =>
          let showCols (k : Nat) (M : Array (Array CF)) : String :=
            ",".intercalate ((List.range k).flatMap (fun i => (List.range k).map (fun j =>
              showC ((M.getD j #[]).getD i ⟨0, 0⟩))))
          let showRows (M : Array (Array CF)) : String :=
            ",".intercalate (M.toList.flatMap (fun row => row.toList.map showC))
          showCols m Q ++ "|" ++ showRows R ++ "|" ++ showCols n P ++ "|" ++ showFloat mg.re) i j k :: tl)
  | "lin2db" :: i :: rest => do
      let i ← i.toNat?
      let tl ← parseOps rest
      some (.call1 (convBuf linear2dB) i :: tl)
  | "lin2dbm" :: i :: rest => do
      let i ← i.toNat?
      let tl ← parseOps rest
      some (.call1 (convBuf linear2dBm) i :: tl)
  | "db2lin" :: i :: rest => do
      let i ← i.toNat?
      let tl ← parseOps rest
      some (.call1 (convBuf dB2Linear) i :: tl)
  | "dbm2lin" :: i :: rest => do
      let i ← i.toNat?
      let tl ← parseOps rest
      some (.call1 (convBuf dBm2Linear) i :: tl)
  | "snr2ebn0" :: i :: j :: rest => do
      let (i, j, _) ← nat3 i j "0"
      let tl ← parseOps rest
      some (.call2 (fun y b => convBuf (fun v => snrToEbN0 v (b.data.getD 0 ⟨1, 0⟩).re) y) i j :: tl)
  | "ebn02snr" :: i :: j :: rest => do
      let (i, j, _) ← nat3 i j "0"
      let tl ← parseOps rest
      some (.call2 (fun y b => convBuf (fun v => ebN0ToSnr v (b.data.getD 0 ⟨1, 0⟩).re) y) i j :: tl)
  | _ => none

/-- `hist nbuf op …` -> results of the operations (`-` for a refill) joined by `;`, then ` # ` and the
    final contents of the arrays `0 … nbuf-1` -/
def handleHist (nbuf : String) (toks : List String) : String :=
  match nbuf.toNat?, parseOps toks with
  | some nb, some ops =>
    let r := PyPhysim.C20R.run (fun _ => (⟨0, 0, #[]⟩ : Buf)) ops
    ";".intercalate (r.2.map (fun o => o.getD "-")) ++ " # " ++
      ";".intercalate ((List.range nb).map (fun i => showBuf (r.1 i)))
  | _, _ => "bad-op"

def handle : List String → String
  | "hist" :: nbuf :: toks => handleHist nbuf toks
  -- proj m k A G  ->  gram | P | oP
  | ["proj", m, k, a, g] => Id.run do
      let some (m, k, _) := nat3 m k "0" | return "bad-op"
      let some A := parseC (m * k) a | return "bad-op"
      let some G := parseC (k * k) g | return "bad-op"
      let A := toMat m k A; let G := toMat k k G
      return showMat (gram A) ++ "|" ++ showMat (projWith G A) ++ "|" ++ showMat (oprojWith G A)
  -- apply m c Q M -> project | reflect
  | ["apply", m, c, q, mm] => Id.run do
      let some (m, c, _) := nat3 m c "0" | return "bad-op"
      let some Q := parseC (m * m) q | return "bad-op"
      let some M := parseC (m * c) mm | return "bad-op"
      let Q := toMat m m Q; let M := toMat m c M
      return showMat (project Q M) ++ "|" ++ showMat (reflect Q M)
  -- chord2 m p q A B GA GB -> distance
  | ["chord2", m, p, q, a, b, ga, gb] => Id.run do
      let some (m, p, q) := nat3 m p q | return "bad-op"
      let some A := parseC (m * p) a | return "bad-op"
      let some B := parseC (m * q) b | return "bad-op"
      let some GA := parseC (p * p) ga | return "bad-op"
      let some GB := parseC (q * q) gb | return "bad-op"
      return showFloat (chordal2 (toMat p p GA) (toMat q q GB) (toMat m p A) (toMat m q B)).re
  -- chord m p q Q1 Q2 -> distance | svd argument
  | ["chord", m, p, q, a, b] => Id.run do
      let some (m, p, q) := nat3 m p q | return "bad-op"
      let some A := parseC (m * p) a | return "bad-op"
      let some B := parseC (m * q) b | return "bad-op"
      let Q1 := toMat m p A; let Q2 := toMat m q B
      return showFloat (chordal Q1 Q2).re ++ "|" ++ showMat (pangleArg Q1 Q2)
  -- angles S -> angles | distance
  | ["angles", s] => Id.run do
      let some S := parseFloatList? (emptyOk s) | return "bad-op"
      let ang := principalAngles S
      return showList showFloat ang ++ "|" ++ showFloat (chordalFromAngles ang)
  -- whiten n L V -> W
  | ["whiten", n, l, v] => Id.run do
      let some n := n.toNat? | return "bad-op"
      let some L := parseC n l | return "bad-op"
      let some V := parseC (n * n) v | return "bad-op"
      return showMat (whiten (toVec n L) (toMat n n V))
  -- uisd n invA diag -> new inverse | pivots
  | ["uisd", n, a, d] => Id.run do
      let some n := n.toNat? | return "bad-op"
      let some A := parseC (n * n) a | return "bad-op"
      let some fs := parseFloatList? (emptyOk d) | return "bad-op"
      let some ds := pairs fs | return "bad-op"
      let A := toMat n n A
      return showE showMat (updateInvSumDiag A ds) ++ "|" ++ showList showC (uisdPivots 0 ds A)
  -- peig / leig ncols n perm -> kept indexes
  | ["peig", c, n, perm] => Id.run do
      let some (c, n, _) := nat3 c n "0" | return "bad-op"
      let some p := parseNatList? (emptyOk perm) | return "bad-op"
      return showE (showList toString) (peigIdx c n p)
  | ["leig", c, n, perm] => Id.run do
      let some (c, n, _) := nat3 c n "0" | return "bad-op"
      let some p := parseNatList? (emptyOk perm) | return "bad-op"
      return showE (showList toString) (leigIdx c n p)
  -- lrsv c n S -> idx0 | idx1 | S1
  | ["lrsv", c, n, s] => Id.run do
      let some (c, n, _) := nat3 c n "0" | return "bad-op"
      let some S := parseFloatList? (emptyOk s) | return "bad-op"
      let (i0, i1) := lrsvIdx c n
      return showList toString i0 ++ "|" ++ showList toString i1 ++ "|" ++
        showE (showList showFloat) (lrsvS S c n)
  -- gpcm m c k U S VH -> out
  | ["gpcm", m, c, k, u, s, vh] => Id.run do
      let some (m, c, k) := nat3 m c k | return "bad-op"
      let some U := parseC (m * m) u | return "bad-op"
      let some S := parseC (min m c) (emptyOk s) | return "bad-op"
      let some VH := parseC (c * c) vh | return "bad-op"
      if hk : k ≤ c then
        return showMat (gpcm (toMat m m U) (toVec (min m c) S) (toMat c c VH) k hk)
      else return "out-of-model"
  -- gmd m n p sb U S V -> Q | R | P   (U, V row-major; V = V_H^H)
  | ["gmd", m, n, p, sb, u, sv, v] => Id.run do
      let some (m, n, p) := nat3 m n p | return "bad-op"
      let some sb := parseFloat? sb | return "bad-op"
      let some U := parseC (m * m) u | return "bad-op"
      let some fs := parseFloatList? (emptyOk sv) | return "bad-op"
      let some V := parseC (n * n) v | return "bad-op"
      let cols (k : Nat) (xs : Array CF) : Array (Array CF) :=
        Array.ofFn (n := k) (fun j => Array.ofFn (n := k) (fun i => xs.getD (i.val * k + j.val) ⟨0, 0⟩))
      let S : Array CF := (fs.map (fun x => (⟨x, 0⟩ : CF))).toArray
      match gmd m n p (⟨sb, 0⟩ : CF) (cols m U) S (cols n V) with
      | .error e => return "error:" ++ toString e
      | .ok (Q, R, P, mg) =>
        let showCols (k : Nat) (M : Array (Array CF)) : String :=
          ",".intercalate ((List.range k).flatMap (fun i => (List.range k).map (fun j =>
            showC ((M.getD j #[]).getD i ⟨0, 0⟩))))
        let showRows (M : Array (Array CF)) : String :=
          ",".intercalate (M.toList.flatMap (fun row => row.toList.map showC))
        return showCols m Q ++ "|" ++ showRows R ++ "|" ++ showCols n P ++ "|" ++ showFloat mg.re
  | ["db2lin", x] => match parseFloat? x with
      | some x => showFloat (dB2Linear x) | none => "bad-op"
  | ["lin2db", x] => match parseFloat? x with
      | some x => showFloat (linear2dB x) | none => "bad-op"
  | ["dbm2lin", x] => match parseFloat? x with
      | some x => showFloat (dBm2Linear x) | none => "bad-op"
  | ["lin2dbm", x] => match parseFloat? x with
      | some x => showFloat (linear2dBm x) | none => "bad-op"
  | ["snr2ebn0", x, b] => match parseFloat? x, parseFloat? b with
      | some x, some b => showFloat (snrToEbN0 x b) | _, _ => "bad-op"
  | ["ebn02snr", x, b] => match parseFloat? x, parseFloat? b with
      | some x, some b => showFloat (ebN0ToSnr x b) | _, _ => "bad-op"
  | _ => "bad-op"

def main : IO Unit := runDriver handle
