import PyPhysim.Model.Proto
import PyPhysim.Model.C09
open PyPhysim.Proto PyPhysim.BD

/-!
Line-protocol driver of the C09 model, instantiated at binary64.
Complex matrices travel row-major, each scalar as two binary64 bit patterns
(`re,im`), comma separated; real vectors as binary64 bit patterns; shapes are
decimal.  Results of external kernels (`svd`, `matrix_rank`, `doWF`, `pinv`,
`inv`, `calc_whitening_matrix`, the metric function) are inputs.
-/

/-- binary64 complex number -/
structure CF where
  re : Float
  im : Float

instance : Zero CF := ⟨⟨0, 0⟩⟩
instance : One CF := ⟨⟨1, 0⟩⟩
instance : Add CF := ⟨fun a b => ⟨a.re + b.re, a.im + b.im⟩⟩
instance : Sub CF := ⟨fun a b => ⟨a.re - b.re, a.im - b.im⟩⟩
instance : Mul CF := ⟨fun a b => ⟨a.re * b.re - a.im * b.im, a.re * b.im + a.im * b.re⟩⟩
instance : Div CF := ⟨fun a b =>
  let d := b.re * b.re + b.im * b.im
  ⟨(a.re * b.re + a.im * b.im) / d, (a.im * b.re - a.re * b.im) / d⟩⟩
instance : Zero Float := ⟨0.0⟩
instance : One Float := ⟨1.0⟩
instance : Cx Float CF :=
  { ofReal := fun x => ⟨x, 0⟩, normSq := fun a => a.re * a.re + a.im * a.im, re := fun a => a.re,
    conj := fun a => ⟨a.re, -a.im⟩ }
instance : RFun Float := { sqrt := Float.sqrt, log2 := Float.log2 }

def toMat (m n : Nat) (xs : Array CF) : Mat CF m n :=
  fun i j => xs.getD (i.val * n + j.val) ⟨0, 0⟩

def toVec (n : Nat) (xs : Array Float) : Fin n → Float := fun i => xs.getD i.val 0

def pairs : List Float → Option (List CF)
  | [] => some []
  | re :: im :: rest => (pairs rest).map (fun t => ⟨re, im⟩ :: t)
  | _ => none

def emptyOk (s : String) : String := if s = "-" then "" else s

/-- parse `count` complex numbers (2·count floats) -/
def parseC (count : Nat) (s : String) : Option (Array CF) := do
  let fs ← parseFloatList? (emptyOk s)
  let ps ← pairs fs
  if ps.length = count then some ps.toArray else none

def parseR (count : Nat) (s : String) : Option (Array Float) := do
  let fs ← parseFloatList? (emptyOk s)
  if fs.length = count then some fs.toArray else none

def showC (z : CF) : String := showFloat z.re ++ "," ++ showFloat z.im

def showMat {m n : Nat} (A : Mat CF m n) : String :=
  ",".intercalate ((List.finRange m).flatMap (fun i => (List.finRange n).map (fun j => showC (A i j))))

def showVec {n : Nat} (v : Fin n → Float) : String :=
  ",".intercalate ((List.finRange n).map (fun i => showFloat (v i)))

def nats (l : List String) : Option (List Nat) := l.mapM String.toNat?

/-- `K` blocks of `N × N`, concatenated -/
def toBlocks (K N : Nat) (xs : Array CF) : Fin K → Mat CF N N :=
  fun k i j => xs.getD (k.val * N * N + i.val * N + j.val) ⟨0, 0⟩

def handle : List String → String
  -- tilde K N k H -> rows | sub channel | tilde channel
  | ["tilde", sK, sN, sk, h] => Id.run do
      let some [K, N, k] := nats [sK, sN, sk] | return "bad-op"
      let some H := parseC (K * N * (K * N)) h | return "bad-op"
      if hk : k < K then
        let H : Mat CF (K * N) (K * N) := toMat _ _ H
        let k : Fin K := ⟨k, hk⟩
        return toString (tildeIdx (N := N) k).length ++ "|" ++ showMat (rowBlock H k) ++ "|" ++
          showMat (tildeChannel H k)
      else return "bad-op"
  -- user K N rank Hk VH1 VH2 S2 -> V0 | heq | V1 | Ms | sigma
  | ["user", sK, sN, sr, hk, vh1, vh2, s2] => Id.run do
      let some [K, N, rank] := nats [sK, sN, sr] | return "bad-op"
      let T := K * N
      let some Hk := parseC (N * T) hk | return "bad-op"
      let some VH1 := parseC (T * T) vh1 | return "bad-op"
      let some VH2 := parseC (N * N) vh2 | return "bad-op"
      let some S2 := parseR N s2 | return "bad-op"
      if nStreams T rank ≠ N then return "out-of-model"
      if hN : N ≤ T then
        let u := userBD hN (toMat N T Hk) (toMat T T VH1) (toMat N N VH2) (toVec N S2)
        return showMat u.V0 ++ "|" ++ showMat u.heq ++ "|" ++ showMat u.V1 ++ "|" ++ showMat u.Ms ++ "|" ++
          showVec u.sigma
      else return "bad-op"
  -- wf K N iPu MsBad sigma p -> gains | global | norms | max | normalized
  | ["wf", sK, sN, ipu, ms, sg, p] => Id.run do
      let some [K, N] := nats [sK, sN] | return "bad-op"
      let some iPu := parseFloat? ipu | return "bad-op"
      let some Ms := parseC (K * N * (K * N)) ms | return "bad-op"
      let some sg := parseR (K * N) sg | return "bad-op"
      let some p := parseR (K * N) p | return "bad-op"
      let Ms : Mat CF (K * N) (K * N) := toMat _ _ Ms
      let p := toVec (K * N) p
      let G := globalWF Ms p
      return showVec (wfGains (toVec (K * N) sg)) ++ "|" ++ showMat G ++ "|" ++
        showList showFloat (blockNorms (K := K) (N := N) G) ++ "|" ++
        showFloat (maxLoop (blockNorms (K := K) (N := N) G)) ++ "|" ++ showMat (normalizedWF (K := K) (N := N) iPu Ms p)
  -- nowf K N iPu MsBad -> scaled
  | ["nowf", sK, sN, ipu, ms] => Id.run do
      let some [K, N] := nats [sK, sN] | return "bad-op"
      let some iPu := parseFloat? ipu | return "bad-op"
      let some Ms := parseC (K * N * (K * N)) ms | return "bad-op"
      let Ms : Mat CF (K * N) (K * N) := toMat _ _ Ms
      return showMat (noWF (K := K) (N := N) iPu Ms)
  -- newh K N H Ms -> newH
  | ["newh", sK, sN, h, ms] => Id.run do
      let some [K, N] := nats [sK, sN] | return "bad-op"
      let some H := parseC (K * N * (K * N)) h | return "bad-op"
      let some Ms := parseC (K * N * (K * N)) ms | return "bad-op"
      return showMat (newH (K := K) (N := N) (T := K * N) (toMat _ _ H) (toMat _ _ Ms))
  -- stack K N blocks(T x N each, concatenated) -> hstack
  | ["stack", sK, sN, bl] => Id.run do
      let some [K, N] := nats [sK, sN] | return "bad-op"
      let T := K * N
      let some B := parseC (K * (T * N)) bl | return "bad-op"
      let M : Fin K → Mat CF T N := fun k i j => B.getD (k.val * (T * N) + i.val * N + j.val) ⟨0, 0⟩
      return showMat (stackCols M)
  -- white K N H Ww -> filters | whitened channel
  | ["white", sK, sN, h, ww] => Id.run do
      let some [K, N] := nats [sK, sN] | return "bad-op"
      let some H := parseC (K * N * (K * N)) h | return "bad-op"
      let some Ww := parseC (K * N * N) ww | return "bad-op"
      let F := whiteningFilters (toBlocks K N Ww)
      let H : Mat CF (K * N) (K * N) := toMat _ _ H
      return ",".intercalate ((List.finRange K).map (fun k => showMat (F k))) ++ "|" ++
        showMat (whitenedChannel F H)
  -- wrx K N W Ww -> receive filters of all users
  | ["wrx", sK, sN, w, ww] => Id.run do
      let some [K, N] := nats [sK, sN] | return "bad-op"
      let some W := parseC (K * N * (K * N)) w | return "bad-op"
      let some Ww := parseC (K * N * N) ww | return "bad-op"
      let F := whiteningFilters (toBlocks K N Ww)
      let W : Mat CF (K * N) (K * N) := toMat _ _ W
      return ",".intercalate ((List.finRange K).map (fun k => showMat (whiteningRxFilter W F k)))
  -- blocks K N A -> diagonal blocks | column blocks
  | ["blocks", sK, sN, a] => Id.run do
      let some [K, N] := nats [sK, sN] | return "bad-op"
      let some A := parseC (K * N * (K * N)) a | return "bad-op"
      let A : Mat CF (K * N) (K * N) := toMat _ _ A
      return ",".intercalate ((List.finRange K).map (fun k => showMat (diagBlock A k))) ++ "|" ++
        ",".intercalate ((List.finRange K).map (fun k => showMat (colBlock A k)))
  -- cov N r pe nv E -> Re
  | ["cov", sN, sr, pe, nv, e] => Id.run do
      let some [N, r] := nats [sN, sr] | return "bad-op"
      let some pe := parseFloat? pe | return "bad-op"
      let some nv := parseFloat? nv | return "bad-op"
      let some E := parseC (N * r) e | return "bad-op"
      return showMat (covExtInt pe nv (toMat N r E))
  -- red mode N T n iPu Hk Msk X G -> Pk | gram | normTerm | MsPk | heqRed | pbar | pinvArg
  | ["red", mode, sN, sT, sn, ipu, hk, msk, x, g] => Id.run do
      let some [N, T, n] := nats [sN, sT, sn] | return "bad-op"
      let some iPu := parseFloat? ipu | return "bad-op"
      let some Hk := parseC (N * T) hk | return "bad-op"
      let some Msk := parseC (T * N) msk | return "bad-op"
      let some G := parseC (n * n) g | return "bad-op"
      if hn : n ≤ N then
        let Pk? : Option (Mat CF N n) :=
          if mode = "naive" ∨ mode = "eye" then some eyeCols
          else if mode = "fixed" then (parseC (N * N) x).map (fun VH => leastCols (toMat N N VH) n hn)
          else none
        let some Pk := Pk? | return "bad-op"
        let r := reduce iPu (toMat N T Hk) (toMat T N Msk) Pk (toMat n n G)
        return showMat Pk ++ "|" ++ showMat (gram Pk) ++ "|" ++ showFloat r.normTerm ++ "|" ++ showMat r.MsPk ++ "|" ++
          showMat r.heqRed ++ "|" ++ showMat r.pbar ++ "|" ++ showMat r.pinvArg
      else return "bad-op"
  -- rx N n Wp pbar heqRed Re -> Wk | sinrs | capacity
  | ["rx", sN, sn, wp, pb, hr, re] => Id.run do
      let some [N, n] := nats [sN, sn] | return "bad-op"
      let some Wp := parseC (n * N) wp | return "bad-op"
      let some pb := parseC (N * N) pb | return "bad-op"
      let some hr := parseC (N * n) hr | return "bad-op"
      let some re := parseC (N * N) re | return "bad-op"
      let Wk := rxFilterRed (toMat n N Wp) (toMat N N pb)
      let s := linearSINRs (toMat N n hr) Wk (toMat N N re)
      return showMat Wk ++ "|" ++ showVec s ++ "|" ++ showFloat (shannon s)
  -- argmax values -> best index | streams
  | ["argmax", v] => Id.run do
      let some vs := parseFloatList? (emptyOk v) | return "bad-op"
      let b := argmaxFirst vs
      return toString b ++ "|" ++ toString (streamsOfIndex b)
  | _ => "bad-op"

def showOut {T N : Nat} (o : ExtOut CF T N) : String :=
  toString o.ns ++ "|" ++ toString o.cols ++ "|" ++ showMat o.Ms ++ "|" ++ showMat o.W

/-- `K` matrices `r × c`, concatenated -/
def toFamily (K r c : Nat) (xs : Array CF) : Fin K → Mat CF r c :=
  fun k i j => xs.getD (k.val * (r * c) + i.val * c + j.val) ⟨0, 0⟩

def toVecFamily (K N : Nat) (xs : Array Float) : Fin K → Fin N → Float :=
  fun k i => xs.getD (k.val * N + i.val) 0

/-- whole methods (`calcBD` … `enhancedDecide`) -/
def handleWhole : List String → String
  -- bdwf K N iPu H VH1s VH2s S2s p -> newH | Ms_good
  | ["bdwf", sK, sN, ipu, h, vh1, vh2, s2, p] => Id.run do
      let some [K, N] := nats [sK, sN] | return "bad-op"
      let T := K * N
      let some iPu := parseFloat? ipu | return "bad-op"
      let some H := parseC (T * T) h | return "bad-op"
      let some VH1 := parseC (K * (T * T)) vh1 | return "bad-op"
      let some VH2 := parseC (K * (N * N)) vh2 | return "bad-op"
      let some S2 := parseR (K * N) s2 | return "bad-op"
      let some p := parseR (K * N) p | return "bad-op"
      if hK : 0 < K then
        let r := blockDiagonalize hK iPu (toMat T T H) (toFamily K T T VH1) (toFamily K N N VH2)
          (toVecFamily K N S2) (toVec (K * N) p)
        return showMat r.1 ++ "|" ++ showMat r.2
      else return "bad-op"
  -- bdnowf K N iPu H VH1s VH2s S2s -> newH | Ms_good
  | ["bdnowf", sK, sN, ipu, h, vh1, vh2, s2] => Id.run do
      let some [K, N] := nats [sK, sN] | return "bad-op"
      let T := K * N
      let some iPu := parseFloat? ipu | return "bad-op"
      let some H := parseC (T * T) h | return "bad-op"
      let some VH1 := parseC (K * (T * T)) vh1 | return "bad-op"
      let some VH2 := parseC (K * (N * N)) vh2 | return "bad-op"
      let some S2 := parseR (K * N) s2 | return "bad-op"
      if hK : 0 < K then
        let r := blockDiagonalizeNoWF hK iPu (toMat T T H) (toFamily K T T VH1) (toFamily K N N VH2)
          (toVecFamily K N S2)
        return showMat r.1 ++ "|" ++ showMat r.2
      else return "bad-op"
  -- wbd K N iPu H Wws VH1s VH2s S2s W -> pinv argument # user outputs
  | ["wbd", sK, sN, ipu, h, ww, vh1, vh2, s2, w] => Id.run do
      let some [K, N] := nats [sK, sN] | return "bad-op"
      let T := K * N
      let some iPu := parseFloat? ipu | return "bad-op"
      let some H := parseC (T * T) h | return "bad-op"
      let some Ww := parseC (K * (N * N)) ww | return "bad-op"
      let some VH1 := parseC (K * (T * T)) vh1 | return "bad-op"
      let some VH2 := parseC (K * (N * N)) vh2 | return "bad-op"
      let some S2 := parseR (K * N) s2 | return "bad-op"
      let some W := parseC (T * T) w | return "bad-op"
      if hK : 0 < K then
        let Wwf := toFamily K N N Ww
        let arg := (blockDiagonalizeNoWF hK iPu (whiteningChannel Wwf (toMat T T H)) (toFamily K T T VH1)
          (toFamily K N N VH2) (toVecFamily K N S2)).1
        return showMat arg ++ "#" ++ "#".intercalate ((List.finRange K).map (fun k =>
          showOut (whiteningBD hK iPu (toMat T T H) Wwf (toFamily K T T VH1) (toFamily K N N VH2)
            (toVecFamily K N S2) (toMat T T W) k)))
      else return "bad-op"
  -- enone K N iPu H VH1s VH2s S2s k Wp -> pinv argument # output
  | ["enone", sK, sN, ipu, h, vh1, vh2, s2, sk, wp] => Id.run do
      let some [K, N, k] := nats [sK, sN, sk] | return "bad-op"
      let T := K * N
      let some iPu := parseFloat? ipu | return "bad-op"
      let some H := parseC (T * T) h | return "bad-op"
      let some VH1 := parseC (K * (T * T)) vh1 | return "bad-op"
      let some VH2 := parseC (K * (N * N)) vh2 | return "bad-op"
      let some S2 := parseR (K * N) s2 | return "bad-op"
      let some Wp := parseC (N * N) wp | return "bad-op"
      if hK : 0 < K then
        if hk : k < K then
          let arg := diagBlock (blockDiagonalizeNoWF hK iPu (toMat T T H) (toFamily K T T VH1)
            (toFamily K N N VH2) (toVecFamily K N S2)).1 ⟨k, hk⟩
          return showMat arg ++ "#" ++ showOut (enhancedNone hK iPu (toMat T T H) (toFamily K T T VH1)
            (toFamily K N N VH2) (toVecFamily K N S2) (toMat N N Wp) ⟨k, hk⟩)
        else return "bad-op"
      else return "bad-op"
  -- ered mode N T n iPu Hk Msk X G Wp -> output
  | ["ered", mode, sN, sT, sn, ipu, hk, msk, x, g, wp] => Id.run do
      let some [N, T, n] := nats [sN, sT, sn] | return "bad-op"
      let some iPu := parseFloat? ipu | return "bad-op"
      let some Hk := parseC (N * T) hk | return "bad-op"
      let some Msk := parseC (T * N) msk | return "bad-op"
      let some G := parseC (n * n) g | return "bad-op"
      let some Wp := parseC (n * N) wp | return "bad-op"
      if hn : n ≤ N then
        let Pk? : Option (Mat CF N n) :=
          if mode = "naive" then some eyeCols
          else if mode = "fixed" then (parseC (N * N) x).map (fun VH => reductionMatrix (toMat N N VH) n hn)
          else none
        let some Pk := Pk? | return "bad-op"
        return showOut (enhancedReduced iPu (toMat N T Hk) (toMat T N Msk) n Pk (toMat n n G) (toMat n N Wp))
      else return "bad-op"
  -- edec N T iPu Hk Msk VHre G_0;…;G_{N-1} Wp_0;…;Wp_{N-1} vals -> output
  | ["edec", sN, sT, ipu, hk, msk, vh, gs, wps, vals] => Id.run do
      let some [N, T] := nats [sN, sT] | return "bad-op"
      let some iPu := parseFloat? ipu | return "bad-op"
      let some Hk := parseC (N * T) hk | return "bad-op"
      let some Msk := parseC (T * N) msk | return "bad-op"
      let some VH := parseC (N * N) vh | return "bad-op"
      let some vals := parseR N vals | return "bad-op"
      let gl := (gs.splitOn ";").toArray
      let wl := (wps.splitOn ";").toArray
      if gl.size ≠ N ∨ wl.size ≠ N then return "bad-op"
      let okG := (List.range N).all (fun i => (parseC ((i + 1) * (i + 1)) (gl.getD i "")).isSome)
      let okW := (List.range N).all (fun i => (parseC ((i + 1) * N) (wl.getD i "")).isSome)
      if !(okG && okW) then return "bad-op"
      let G : (i : Fin N) → Mat CF (i.val + 1) (i.val + 1) :=
        fun i => toMat _ _ ((parseC ((i.val + 1) * (i.val + 1)) (gl.getD i.val "")).getD #[])
      let Wp : (i : Fin N) → Mat CF (i.val + 1) N :=
        fun i => toMat _ _ ((parseC ((i.val + 1) * N) (wl.getD i.val "")).getD #[])
      match enhancedDecide iPu (toMat N T Hk) (toMat T N Msk) (toMat N N VH) G Wp (toVec N vals) with
      | .ok o => return showOut o
      | .error e => return "error:" ++ toString e
  | _ => "bad-op"


def optNat (s : String) : Option (Option Nat) := if s = "-" then some none else s.toNat?.map some

def showOptNat : Option Nat → String
  | none => "-"
  | some n => toString n

def showMetricState (s : MetricState) (e : Option PyErr) : String :=
  let nm := match s.name with
    | .none => "None" | .capacity => "capacity" | .naive => "naive" | .fixed => "fixed"
    | .effectiveThroughput => "effective_throughput"
  let fn := match s.func with
    | .noFunc => "None" | .shannonSumCapacity => "calc_shannon_sum_capacity"
    | .effectiveThroughput => "_calc_effective_throughput"
  nm ++ "," ++ fn ++ "," ++ showOptNat s.args.numStreams ++ "," ++ showOptNat s.args.modulator ++ "," ++
    showOptNat s.args.packetLength ++ "," ++ (match e with | none => "ok" | some x => toString x)

/-- metric req:ns:mod:plen;…  -> state and exception after every request -/
def handleMetric (ops : String) : String := Id.run do
  let mut s : MetricState := {}
  let mut out : List String := []
  for op in ops.splitOn ";" do
    match op.splitOn ":" with
    | [r, ns, md, pl] =>
      let req : MetricReq := if r = "None" then .none else if r = "capacity" then .capacity
        else if r = "naive" then .naive else if r = "fixed" then .fixed
        else if r = "effective_throughput" then .effectiveThroughput else .unknown
      let some ns := optNat ns | return "bad-op"
      let some md := optNat md | return "bad-op"
      let some pl := optNat pl | return "bad-op"
      let (s', e) := setMetric s req { numStreams := ns, modulator := md, packetLength := pl }
      s := s'
      out := out ++ [showMetricState s e ++ "," ++ (match bdPath s with
        | .noReduction => "no-reduction" | .fixedOrNaive => "fixed-or-naive" | .decide => "decide")]
    | _ => return "bad-op"
  return ";".intercalate out


/-- index bookkeeping for any number of users: `tidx K N k` -> rows of the tilde channel;
    `sidx K N u1,u2,…` -> rows of the sub channel of the listed users -/
def handleIdx : List String → String
  | ["tidx", sK, sN, sk] => Id.run do
      let some [K, N, k] := nats [sK, sN, sk] | return "bad-op"
      if hk : k < K then
        return ",".intercalate ((tildeIdx (N := N) (⟨k, hk⟩ : Fin K)).map (fun x => toString x.val))
      else return "error:IndexError"
  | ["sidx", sK, sN, us] => Id.run do
      let some [K, N] := nats [sK, sN] | return "bad-op"
      let some ul := parseNatList? (emptyOk us) | return "bad-op"
      let mut users : List (Fin K) := []
      for u in ul do
        if hu : u < K then users := users ++ [⟨u, hu⟩] else return "error:IndexError"
      return ",".intercalate ((subIdx (N := N) users).map (fun x => toString x.val))
  | _ => "bad-op"

def handleAll (toks : List String) : String :=
  match toks with
  | "tidx" :: _ => handleIdx toks
  | "sidx" :: _ => handleIdx toks
  | ["metric", ops] => handleMetric ops
  | op :: _ =>
    if op = "bdwf" ∨ op = "bdnowf" ∨ op = "wbd" ∨ op = "enone" ∨ op = "ered" ∨ op = "edec" then handleWhole toks
    else handle toks
  | [] => "bad-op"

def main : IO Unit := runDriver handleAll
