import PyPhysim.Model.Proto
open PyPhysim.Proto

-- stub: replaced when the C09 model is written
def handle : List String → String
  | _ => "bad-op"

def main : IO Unit := runDriver handle
