import PyPhysim.Model.Proto
import PyPhysim.Model.C05
import PyPhysim.Model.C05Params
import PyPhysim.Model.C05Result
open PyPhysim.Proto PyPhysim.C05

/-!
Line-protocol driver of the C05 model.

`sim names=b,a vals=1,2|5,6,7 repmax=4 file=1 keep=always;sumlt:5 ops=all,single:3 outs=5,s,-2 look=a:5/b:1,a:6`
   one runner, a history of `simulate()` calls, one global stream of outcomes.
`grid names=b,a vals=1,2|5,6,7 fixed=a:5/b:1`
   unpack order and `get_pack_indexes` alone.
-/

/-- concrete results used by the harness script: a SUMTYPE result (value, sum of
    squares, num_updates), a RATIOTYPE result (value, total, num_updates), a
    MISCTYPE result and a SUMTYPE "token" result (2^call, exact Python int) -/
structure Res where
  sum : Int
  sq : Int
  n : Nat
  rv : Int
  rt : Int
  rn : Nat
  misc : Int
  tok : Nat
  /-- the extra results (`xr=`), every observable -/
  xs : List RVal

def Res.merge (a b : Res) : Res :=
  ⟨a.sum + b.sum, a.sq + b.sq, a.n + b.n, a.rv + b.rv, a.rt + b.rt, a.rn + b.rn, b.misc, a.tok + b.tok,
   mergeAll a.xs b.xs⟩

/-- an extra result of the scripted program: type, accumulate flag, updates per repetition -/
structure XSpec where
  ty : RType
  acc : Bool
  k : Nat

def parseXSpec (t : String) : Option XSpec :=
  match t.splitOn ":" with
  | [h, k] =>
    let ty? : Option RType := match h.take 1 |>.toString with
      | "S" => some .sum | "R" => some .ratio | "M" => some .misc | "C" => some .choice | _ => none
    match ty?, k.toNat? with
    | some ty, some k => some ⟨ty, (h.drop 1).toString == "1", k⟩
    | _, _ => none
  | _ => none

/-- the j-th update of an extra result in the repetition that returned `a` -/
def xUpdate (ty : RType) (a : Int) (j : Nat) : Int × Int :=
  match ty with
  | .sum | .misc => (a + j, 0)
  | .ratio => (((a.natAbs + j) % 5 : Nat), 8 * (j + 1))
  | .choice => (((a.natAbs + j) % 4 : Nat), 0)

def XSpec.build (sp : XSpec) (a : Int) : RVal :=
  (List.range sp.k).foldl (fun r j => let (v, t) := xUpdate sp.ty a j; r.update v t) (RVal.new sp.ty sp.acc 4)

/-- what the scripted `_run_simulation` returns for value `a` at stream position `c` -/
def Res.ofCall (specs : List XSpec) (a : Int) (c : Nat) : Res :=
  ⟨a, a * a, 1, (a.natAbs % 5 : Nat), 8, 1, a, 2 ^ c, specs.map (·.build a)⟩

def showRat' (q : Rat) : String := toString q.num ++ "_" ++ toString q.den

def RVal.show (r : RVal) : String :=
  let t := match r.ty with | .sum => "S" | .ratio => "R" | .misc => "M" | .choice => "C"
  let v := if r.ty = .choice then showList toString r.choice "." else toString r.value
  s!"{t}{if r.acc then 1 else 0}<{v},{r.total},{r.n},{showRat' r.rsum},{showRat' r.rsq},{showList toString r.vlist "."},{showList toString r.tlist "."}>"

def Res.show (r : Res) : String :=
  s!"{r.sum}/{r.sq}/{r.n}/{r.rv}/{r.rt}/{r.rn}/{r.misc}/{r.tok}" ++
    (if r.xs.isEmpty then "" else "~" ++ String.join (r.xs.map RVal.show))

def parseSpecs (toks : List String) : Option (List XSpec) :=
  (fields ((kv toks "xr").getD "") ",").mapM parseXSpec

def parseOuts (specs : List XSpec) (s : String) : Option (List (Outcome Res)) :=
  (fields s ",").zipIdx.mapM (fun (t, c) =>
    if t = "s" then some Outcome.skip else t.toInt?.map (fun a => Outcome.ok (Res.ofCall specs a c)))

/-- one `_keep_going` rule -/
def parseRule (s : String) : Option (Keep Res) :=
  match s.splitOn ":" with
  | ["always"] => some (fun _ _ _ => true)
  | ["sumlt", t] => t.toInt?.map (fun t => fun acc _ _ => decide (acc.sum < t))
  | ["replt", k] => k.toNat?.map (fun k => fun _ _ r => decide (r < k))
  | ["skiplt", k] => k.toNat?.map (fun k => fun _ sk _ => decide (sk < k))
  | ["tbl", m, n, bits] => do
      let m ← m.toNat?
      let n ← n.toNat?
      if m = 0 ∨ n = 0 then none else
      let bs := bits.toList
      some (fun acc _ r =>
        let i := (acc.sum % (m : Int)).toNat * n + r % n
        bs.getD i '0' == '1')
  | _ => none

def parseKeep (s : String) : Option (Nat → Keep Res) := do
  let rules ← (fields s ";").mapM parseRule
  if rules.isEmpty then none else
  some (fun i => rules.getD (i % rules.length) (fun _ _ _ => true))

def parseParams (names vals : String) : Option (List (Param Int)) := do
  let ns := fields names ","
  let vs ← (if ns.isEmpty then some [] else (vals.splitOn "|").mapM (fun v => parseIntList? v))
  if ns.length ≠ vs.length then none else some (ns.zip vs)

def parseFixed (s : String) : Option (List (String × Int)) :=
  (fields s ",").mapM (fun t =>
    match t.splitOn ":" with
    | [k, v] => v.toInt?.map (fun v => (k, v))
    | _ => none)

inductive Op | all | single (i : Int)

def parseOps (s : String) : Option (List Op) :=
  (fields s ",").mapM (fun t =>
    match t.splitOn ":" with
    | ["all"] => some Op.all
    | ["single", i] => i.toInt?.map Op.single
    | _ => none)

def showReps : Reps → String
  | .list l => "L:" ++ showList toString l
  | .single n => "S:" ++ toString n

def showStatus : Option Err → String
  | none => "ok"
  | some e => toString e

def insertSorted (p : Nat × Saved Res) : List (Nat × Saved Res) → List (Nat × Saved Res)
  | [] => [p]
  | q :: qs => if p.1 ≤ q.1 then p :: q :: qs else q :: insertSorted p qs

def showEnd (unpacked : Bool) (e : SimEnd Res) : String :=
  let idx (i : Nat) : String := if unpacked then toString i else "-1"
  let res := showList (fun (s : Stored Res) => s.acc.show ++ "/" ++ toString s.skipped) e.runner.results "|"
  let store := showList (fun (p : Nat × Saved Res) =>
      s!"{idx p.1}:{p.2.rep}:{p.2.skipped}:{p.2.acc.show}") (e.runner.store.foldr insertSorted []) "|"
  let rr := match e.runner.resultsReps with | none => "none" | some r => showReps r
  s!"st={showStatus e.status} log={showList idx e.log} reps={showReps e.runner.reps} rr={rr} res={res} store={store}"

/-- also reports whether some call got past the refusal (only then does `runner.results`
    carry the parameters of the runner) -/
def runOps (cfg : Cfg Res) : List Op → Runner Res → List (Outcome Res) → Bool → List String →
    List String × Runner Res × Bool
  | [], r, _, sim, acc => (acc.reverse, r, sim)
  | op :: ops, r, outs, sim, acc =>
    let e := match op with
      | .all => simulateAll cfg r outs
      | .single i => simulateSingle cfg r i outs
    let ran := match op with
      | .all => true
      | .single _ => r.file
    runOps cfg ops e.runner e.rest (sim || ran) (showEnd (!cfg.dims.isEmpty) e :: acc)

def showPack {X} (f : X → String) : Except Err (List X) → String
  | .ok l => showList f l
  | .error e => "error:" ++ toString e

def handleSim (toks : List String) : Option String := do
  let ps ← parseParams ((kv toks "names").getD "") ((kv toks "vals").getD "")
  let repMax ← (kv toks "repmax").bind String.toNat?
  let file := (kv toks "file").getD "0" == "1"
  let keep ← parseKeep ((kv toks "keep").getD "always")
  let ops ← parseOps ((kv toks "ops").getD "all")
  let specs ← parseSpecs toks
  let outs ← parseOuts specs ((kv toks "outs").getD "")
  let looks ← (fields ((kv toks "look").getD "") "/").mapM parseFixed
  let cfg : Cfg Res := ⟨Res.merge, repMax, dimsOf ps, keep⟩
  let (lines, r, sim) := runOps cfg ops (Runner.new file) outs false []
  let lk := looks.map (fun fx =>
    showPack (fun (s : Stored Res) => toString s.acc.tok)
      (resultValues (if sim then ps else []) r.results fx))
  some (" ; ".intercalate lines ++ " ; look=" ++ "/".intercalate lk)

def handleGrid (toks : List String) : Option String := do
  let ps ← parseParams ((kv toks "names").getD "") ((kv toks "vals").getD "")
  let looks ← (fields ((kv toks "fixed").getD "") "/").mapM parseFixed
  let sp := sortParams ps
  let cs := showList (fun (c : List Int) => showList toString c ".") (combos ps) "|"
  let pk := looks.map (fun fx => showPack toString (packIndexes ps fx))
  some s!"order={showList (·.1) sp} n={prod (dimsOf ps)} nc={(combos ps).length} combos={cs} pack={"/".intercalate pk}"

/-! ### histories that also mutate the parameters object -/

inductive HOp
  | all
  | single (i : Int)
  | rmax (k : Nat)
  | file (b : Bool)
  | del (b : Bool)
  | par (op : POp)
  | query (fixed : List (String × Int))
  | hold (fixed : List (String × Int))
  /-- a batch of non-mutating calls (repr, ==, len, get_*, to_dict, …): no effect -/
  | nq

def parseFixedPlus (s : String) : Option (List (String × Int)) :=
  (fields s "+").mapM (fun t =>
    match t.splitOn ":" with
    | [k, v] => v.toInt?.map (fun v => (k, v))
    | _ => none)

def parseHOp (t : String) : Option HOp :=
  if t = "all" then some .all
  else if t = "nq" then some .nq
  else if t.startsWith "q:" then (parseFixedPlus (t.drop 2).toString).map HOp.query
  else if t.startsWith "hq:" then (parseFixedPlus (t.drop 3).toString).map HOp.hold
  else match t.splitOn ":" with
    | ["single", i] => i.toInt?.map HOp.single
    | ["rmax", k] => k.toNat?.map HOp.rmax
    | ["file", b] => some (HOp.file (b == "1"))
    | ["del", b] => some (HOp.del (b == "1"))
    | ["padd", n, vs] => (parseIntList? vs ".").map (fun l => HOp.par (.add n (.list l)))
    | ["pscalar", n, v] => v.toInt?.map (fun v => HOp.par (.add n (.scalar v)))
    | ["prem", n] => some (HOp.par (.remove n))
    | ["punp", n, b] => some (HOp.par (.setUnpack n (b == "1")))
    | _ => none

/-- everything that lives across the calls of one history -/
structure HState where
  repMax : Nat
  del : Bool
  ps : PState
  /-- the copy of the parameters stored in `runner.results` by the last `simulate()` -/
  rps : Option PState
  runner : Runner Res
  outs : List (Outcome Res)
  held : List String

def showValues (ps : PState) (results : List (Stored Res)) (fx : List (String × Int)) : String :=
  match ps.lookup results fx with
  | .error e => "error:" ++ toString e
  | .ok l => showPack (fun (s : Stored Res) => toString s.acc.tok) l.values

/-- `_simulation_configurator.setup`: `params['rep_max'] = rep_max` -/
def withRepMax (h : HState) : PState := (h.ps.step (.add "rep_max" (.scalar h.repMax))).1

def stepHist (keep : Nat → Keep Res) (h : HState) : HOp → HState × String
  | .par op =>
    let (ps', e) := h.ps.step op
    ({ h with ps := ps' }, "p=" ++ showStatus e)
  | .nq => (h, "nq=ok")
  | .rmax k => ({ h with repMax := k }, "a=ok")
  | .file b => ({ h with runner := { h.runner with file := b } }, "a=ok")
  | .del b => ({ h with del := b }, "a=ok")
  | .all =>
    let ps := withRepMax h
    match ps.view with
    | .error e => ({ h with ps := ps }, "st=" ++ toString e)
    | .ok pl =>
      let cfg : Cfg Res := ⟨Res.merge, h.repMax, dimsOf pl, keep⟩
      let e := (simulateAll cfg h.runner h.outs).afterCleanup h.del
      ({ h with ps := ps, rps := some ps, runner := e.runner, outs := e.rest },
        showEnd (!cfg.dims.isEmpty) e)
  | .single i =>
    if !h.runner.file then
      -- refused before anything is cleared: the runner shows what it showed before
      let unp := match h.ps.view with
        | .ok pl => !(dimsOf pl).isEmpty
        | .error _ => true
      (h, showEnd unp ⟨h.runner, [], h.outs, some .RuntimeError⟩)
    else
      let ps := withRepMax h
      match ps.view with
      | .error e => ({ h with ps := ps }, "st=" ++ toString e)
      | .ok pl =>
        let cfg : Cfg Res := ⟨Res.merge, h.repMax, dimsOf pl, keep⟩
        let e := simulateSingle cfg h.runner i h.outs
        ({ h with ps := ps, rps := some ps, runner := e.runner, outs := e.rest },
          showEnd (!cfg.dims.isEmpty) e)
  | .query fx =>
    let line := match h.ps.lookup h.runner.results fx with
      | .error e => "q=" ++ toString e
      | .ok (l : Lookup (Stored Res)) =>
        let cs := showList (fun (c : List Int) => showList toString c ".") l.combos "|"
        let rv := match h.rps with
          | some rp => showValues rp h.runner.results fx
          | none => "-"
        s!"n={l.num} nc={l.combos.length} combos={cs} pack={showPack toString l.pack} rv={rv}"
    (h, line)
  | .hold fx =>
    match h.rps with
    | none => (h, "h=-")
    | some rp =>
      let v := showValues rp h.runner.results fx
      ({ h with held := h.held ++ [v] }, "h=" ++ v)

def runHist (keep : Nat → Keep Res) : List HOp → HState → List String → List String
  | [], h, acc => (("held=" ++ "|".intercalate h.held) :: acc).reverse
  | op :: ops, h, acc =>
    let (h', line) := stepHist keep h op
    runHist keep ops h' (line :: acc)

def handleHist (toks : List String) : Option String := do
  let pl ← parseParams ((kv toks "names").getD "") ((kv toks "vals").getD "")
  let repMax ← (kv toks "repmax").bind String.toNat?
  let keep ← parseKeep ((kv toks "keep").getD "always")
  let ops ← (fields ((kv toks "ops").getD "") ",").mapM parseHOp
  let specs ← parseSpecs toks
  let outs ← parseOuts specs ((kv toks "outs").getD "")
  let ps0 : PState := ⟨pl.map (fun p => (p.1, PVal.list p.2)), (pl.map (·.1)).reverse⟩
  let h0 : HState := ⟨repMax, false, ps0, none, Runner.new false, outs, []⟩
  some (" ; ".intercalate (runHist keep ops h0 []))

/-! ### `merge_all_results` / `append_all_results` without a runner

`mrg xr=S1:2,M1:1 groups=1.2.3|4.5`: every number is one repetition's results; each group
is folded with `merge_all_results` (from an empty object or from its first element: the
same value), the folded groups are appended one after the other. -/
def handleMrg (toks : List String) : Option String := do
  let specs ← parseSpecs toks
  let groups ← (((kv toks "groups").getD "").splitOn "|").mapM (fun g => parseIntList? g ".")
  let (out, _) := groups.foldl (fun (acc : List String × Nat) g =>
    let rs := g.zipIdx.map (fun (a, j) => Res.ofCall specs a (acc.2 + j))
    let line := match rs with
      | [] => "empty"
      | r :: rest => (rest.foldl Res.merge r).show
    (acc.1 ++ [line], acc.2 + g.length)) ([], 0)
  some ("|".intercalate out)

def handle : List String → String
  | "mrg" :: toks => (handleMrg toks).getD "bad-op"
  | "hist" :: toks => (handleHist toks).getD "bad-op"
  | "sim" :: toks => (handleSim toks).getD "bad-op"
  | "grid" :: toks => (handleGrid toks).getD "bad-op"
  | _ => "bad-op"

def main : IO Unit := runDriver handle
