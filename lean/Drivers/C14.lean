import PyPhysim.Model.Proto
import PyPhysim.Model.C14
open PyPhysim.Proto PyPhysim.C14

/-! Line protocol of the C14 model driver.

```
hist shape=<n|i3|t2;3|t> ops=g5,g,s7,Si4,St2;3,Sn
     → one field per state (constructor first, then one per op), separated by " | ":
       k=<next sample> e=<epoch> shape=<..> prod=<block|-> last=<block|->
       block = dims(;)/first/count/epoch
histx shape=<n|i3|t2;3> ops=g,g5,g-3,gx,s7,s-1,sx,Sn,Si3,Si-1,St2;-1,Sx,q   (q = a non-mutating call)
     → same fields as `hist` plus err=<-|ValueError|TypeError> per call (raw calls, rejected ones included)
histb shape=<..> ops=B5,gb,B7,sb,B99,Ct2;3,Sb,Ct9,g4,q    (R16: B<size> / C<shape> refill the caller's size /
     shape buffer in place, gb / sb / Sb pass the buffer object, other tokens are `histx` calls)
     → same fields as `histx`, one per CALL (refills are not calls)
val Fd=f.. Ts=f.. first=<nat> j=<nat> phi=f..,f.. psi=f..,f..
                                                    → t=f.. re=f.. im=f.. | error:ZeroDivisionError
                                                      (entry j of a block whose first sample is `first`)
time Ts=f.. k=<nat> n=<nat>                         → f..,f..,…   (times of samples k .. k+n-1)
old infl=f.. Ts=f.. ct=f.. n=<nat>                  → len=<nat> ratio=f.. next=f..   (pre-fix stepping)
```
-/

def parseDims? (s : String) : Option (List Nat) := parseNatList? s ";"

def parseShape? (s : String) : Option ShapeArg :=
  if s = "n" then some .none
  else if s.startsWith "i" then (s.drop 1).toNat?.map .int
  else if s.startsWith "t" then (parseDims? (s.drop 1).toString).map .tuple
  else none

def parseOp? (s : String) : Option Op :=
  if s = "g" then some (.gen none)
  else if s.startsWith "g" then (s.drop 1).toNat?.map (fun n => .gen (some n))
  else if s.startsWith "s" then (s.drop 1).toNat?.map .skip
  else if s.startsWith "S" then (parseShape? (s.drop 1).toString).map .setShape
  else none

def showDims (d : List Nat) : String := showList toString d ";"

def showBlock : Option Block → String
  | none => "-"
  | some b => showDims b.dims ++ "/" ++ toString b.first ++ "/" ++ toString b.count ++ "/" ++ toString b.epoch

def showShape : Option (List Nat) → String
  | none => "n"
  | some d => "t" ++ showDims d

def showState (s : State) (prod : Option Block) : String :=
  "k=" ++ toString s.k ++ " e=" ++ toString s.epoch ++ " shape=" ++ showShape s.shape ++
  " prod=" ++ showBlock prod ++ " last=" ++ showBlock s.last

/-- states after the constructor and after every op, with the block each produced -/
def histStates (a : ShapeArg) (ops : List Op) : List String :=
  let s0 := construct a
  let rec go (s : State) : List Op → List String
    | [] => []
    | op :: rest => showState (step s op) (produced s op) :: go (step s op) rest
  showState s0 s0.last :: go s0 ops

def parseSize? (s : String) : Option SizeArg :=
  if s = "" then some .default
  else if s = "x" then some .notInt
  else s.toInt?.map .int

def parseRawShape? (s : String) : Option RawShape :=
  if s = "n" then some .none
  else if s = "x" then some .notShape
  else if s.startsWith "i" then (s.drop 1).toString.toInt?.map .int
  else if s.startsWith "t" then (parseIntList? (s.drop 1).toString ";").map .seq
  else none

def parseRawOp? (s : String) : Option RawOp :=
  if s = "q" then some .query
  else if s.startsWith "g" then (parseSize? (s.drop 1).toString).map .gen
  else if s.startsWith "s" then (parseSize? (s.drop 1).toString).map .skip
  else if s.startsWith "S" then (parseRawShape? (s.drop 1).toString).map .setShape
  else none

/-- the state string after the raw call `r` issued in state `s` -/
def showStepR (s : State) (r : RawOp) : String :=
  let (s', err) := stepR s r
  let prod := match r.check with
    | .ok op => produced s op
    | .error _ => none
  showState s' prod ++ " err=" ++ (match err with | none => "-" | some e => toString e)

def histStatesR (a : ShapeArg) (ops : List RawOp) : List String :=
  let s0 := construct a
  let rec go (s : State) : List RawOp → List String
    | [] => []
    | r :: rest => showStepR s r :: go (stepR s r).1 rest
  (showState s0 s0.last ++ " err=-") :: go s0 ops

/-- R16: a caller program (`B<size>` refills the size buffer, `C<shape>` the shape buffer, `gb` / `sb` / `Sb`
    pass the buffer object, anything else is a raw call with a fresh argument) -/
def parseCallerOp? (s : String) : Option CallerOp :=
  if s = "gb" then some .genBuf
  else if s = "sb" then some .skipBuf
  else if s = "Sb" then some .setShapeBuf
  else if s.startsWith "B" then (parseSize? (s.drop 1).toString).map .fillSize
  else if s.startsWith "C" then (parseRawShape? (s.drop 1).toString).map .fillShape
  else (parseRawOp? s).map .call

/-- one state string per CALL of the program (refills are not calls), run with `stepC` -/
def histStatesC (a : ShapeArg) (ops : List CallerOp) : List String :=
  let s0 := construct a
  let rec go (c : Caller) (s : State) : List CallerOp → List String
    | [] => []
    | op :: rest =>
      let (c', s') := stepC c s op
      match op.issued c with
      | none => go c' s' rest
      | some r => showStepR s r :: go c' s' rest
  (showState s0 s0.last ++ " err=-") :: go { size := .default, shape := .none } s0 ops

def handle (toks : List String) : String :=
  match toks with
  | "hist" :: rest =>
    match (kv rest "shape").bind parseShape?, (kv rest "ops").bind (fun s => (fields s ",").mapM parseOp?) with
    | some a, some ops => " | ".intercalate (histStates a ops)
    | some a, none => if (kv rest "ops").isNone then " | ".intercalate (histStates a []) else "bad-op"
    | _, _ => "bad-op"
  | "histx" :: rest =>
    match (kv rest "shape").bind parseShape?, (kv rest "ops").bind (fun s => (fields s ",").mapM parseRawOp?) with
    | some a, some ops => " | ".intercalate (histStatesR a ops)
    | some a, none => if (kv rest "ops").isNone then " | ".intercalate (histStatesR a []) else "bad-op"
    | _, _ => "bad-op"
  | "histb" :: rest =>
    match (kv rest "shape").bind parseShape?, (kv rest "ops").bind (fun s => (fields s ",").mapM parseCallerOp?) with
    | some a, some ops => " | ".intercalate (histStatesC a ops)
    | some a, none => if (kv rest "ops").isNone then " | ".intercalate (histStatesC a []) else "bad-op"
    | _, _ => "bad-op"
  | "val" :: rest =>
    match (kv rest "Fd").bind parseFloat?, (kv rest "Ts").bind parseFloat?, (kv rest "first").bind String.toNat?,
          (kv rest "j").bind String.toNat?, (kv rest "phi").bind (parseFloatList? ·), (kv rest "psi").bind (parseFloatList? ·) with
    | some fd, some ts, some first, some j, some phi, some psi =>
      if phi.length ≠ psi.length then "bad-op" else
      let b : Block := { dims := [], first := first, count := j + 1, epoch := 0 }
      match b.value fd ts (fun _ _ => phi.zip psi) [] j with
      | .ok (re, im) => "t=" ++ showFloat (sampleTime ts (first + j)) ++ " re=" ++ showFloat re ++ " im=" ++ showFloat im
      | .error e => "error:" ++ toString e
    | _, _, _, _, _, _ => "bad-op"
  | "time" :: rest =>
    match (kv rest "Ts").bind parseFloat?, (kv rest "k").bind String.toNat?, (kv rest "n").bind String.toNat? with
    | some ts, some k, some n =>
      showList showFloat (Block.samples (sampleTime ts) { dims := [n], first := k, count := n, epoch := 0 })
    | _, _, _ => "bad-op"
  | "old" :: rest =>
    match (kv rest "infl").bind parseFloat?, (kv rest "Ts").bind parseFloat?, (kv rest "ct").bind parseFloat?,
          (kv rest "n").bind String.toNat? with
    | some infl, some ts, some ct, some n =>
      let len := oldArangeLen infl ts ct n
      "len=" ++ toString len ++ " ratio=" ++ showFloat (oldArangeRatio infl ts ct n) ++
      " next=" ++ showFloat (oldNextTime infl ts ct len)
    | _, _, _, _ => "bad-op"
  | _ => "bad-op"

def main : IO Unit := runDriver handle
