import PyPhysim.Model.Proto
import PyPhysim.Model.Gray
import PyPhysim.Model.C01
import PyPhysim.Model.C01Alias
import PyPhysim.Generated.Conversion
open PyPhysim.Proto PyPhysim.Gray PyPhysim.C01 PyPhysim.Generated

instance : NatCast Float := ⟨Float.ofNat⟩
instance : IntCast Float := ⟨Float.ofInt⟩

def pairs {α} : List α → Option (List (α × α))
  | [] => some []
  | a :: b :: t => (pairs t).map (fun r => (a, b) :: r)
  | _ => none

def showPts (l : List (Float × Float)) : String :=
  showList (fun p => showFloat p.1 ++ "," ++ showFloat p.2) l

def showE {α} (f : α → String) : Except PyErr α → String
  | .ok v => f v
  | .error e => "error:" ++ toString e

/-! R16 histories on the object-with-caller-arrays model (`Model/C01Alias.lean`), exact over `Rat`.
    Words: `F<b>=<re,im,..>` refill complex array b · `I<b>=<i,..>` refill index array b ·
    `T=<re,im,..>` table made by the object · `S<b>` setConstellation(array b), keeping the array · `C<b>` the same, copying it · `D<b>` demodulate(array b) ·
    `M<b>` modulate(index array b).  Reply: the outputs of the calls, `;`-separated. -/
def parseAOp (w : String) : Option (AOp Rat) :=
  let tag := w.take 1
  let rest := (w.drop 1).toString
  match tag.toString, rest.splitOn "=" with
  | "F", [b, v] => do
      let b ← b.toNat?
      let v ← parseRatList? v >>= pairs
      some (.fillC b v)
  | "I", [b, v] => do
      let b ← b.toNat?
      let v ← parseNatList? v
      some (.fillI b v)
  | "T", ["", v] => do
      let v ← parseRatList? v >>= pairs
      some (.install v)
  | "S", [b] => b.toNat?.map .setConstellation
  | "C", [b] => b.toNat?.map .setConstellationCopy
  | "D", [b] => b.toNat?.map .demodulate
  | "M", [b] => b.toNat?.map .modulate
  | _, _ => none

def showAOut : AOut Rat → Option String
  | .none => none
  | .indexes l => some (showList toString l)
  | .symbols (.ok l) => some (showList (fun p => showRat p.1 ++ "," ++ showRat p.2) l)
  | .symbols (.error e) => some ("error:" ++ toString e)

def handle : List String → String
  -- exact nearest-point detection on rational points: demodq <c> <samples>
  | ["demodq", c, r] =>
    match parseRatList? c >>= pairs, parseRatList? r >>= pairs with
    | some c, some r => showList toString (r.map (demod c))
    | _, _ => "bad-op"
  | ["margin", c, r] =>   -- exact gap between the two smallest squared distances, per sample
    match parseRatList? c >>= pairs, parseRatList? r >>= pairs with
    | some c, some r => showList (fun s =>
        let ds := (c.map (dist2 s)).toArray.qsort (· < ·)
        if ds.size < 2 then "1/1" else showRat (ds[1]! - ds[0]!)) r
    | _, _ => "bad-op"
  | ["margin2", c, r] =>  -- the two smallest squared distances `d1|d2` per sample (relative margins, R15)
    match parseRatList? c >>= pairs, parseRatList? r >>= pairs with
    | some c, some r => showList (fun s =>
        let ds := (c.map (dist2 s)).toArray.qsort (· < ·)
        if ds.size < 2 then "0/1|1/1" else showRat ds[0]! ++ "|" ++ showRat ds[1]!) r
    | _, _ => "bad-op"
  | ["modulate", m, idx] =>
    match m.toNat?, parseNatList? idx with
    | some m, some idx =>
      showE (fun (r : List Nat × List (Int × Int)) => showList (fun p => toString p.1) r.2)
        (modulateArray ((List.range m).map (fun (i : Nat) => (Int.ofNat i, (0 : Int)))) [] idx)
    | _, _ => "bad-op"
  | ["bpskmod", bits] =>
    match parseNatList? bits with
    | some b => showE (showList toString) (bpskModulate b)
    | none => "bad-op"
  | ["bpskdemod", xs] =>
    match parseFloatList? xs with
    | some x => showList toString (x.map (fun v => bpskDemod v))
    | none => "bad-op"
  | ["psk", m, phase] =>     -- emitted PSK table: natural[gray2binary(arange M)]
    match m.toNat?, parseFloat? phase with
    | some m, some ph =>
      showE showPts (relabel (pskNatural (α := Float) m ph) ((List.range m).map (pskPosInit gray2binary)))
    | _, _ => "bad-op"
  | ["qam", l] =>           -- emitted QAM table for L x L
    match l.toNat? with
    | some l =>
      match level2bits (l*l) with
      | .ok kk => showE showPts (relabel (qamNatural (α := Float) l)
          ((List.range (l*l)).map (qamPos binary2gray (kk / 2) l)))
      | .error e => "error:" ++ toString e
    | none => "bad-op"
  | "arun" :: ws =>
    match ws.mapM parseAOp with
    | some ops => showList id ((aOutputs (freshObj []) ops).filterMap showAOut) ";"
    | none => "bad-op"
  | ["accept", "psk", m] => match m.toNat? with | some m => toString (isPow2 m) | none => "bad-op"
  | ["accept", "qam", m] => match m.toNat? with | some m => toString (isEvenPow2 m) | none => "bad-op"
  | _ => "bad-op"

def main : IO Unit := runDriver handle
