import PyPhysim.Model.Proto
import PyPhysim.Model.C02
import PyPhysim.Generated.OfdmIndex
open PyPhysim.Proto PyPhysim.C02

/-- binary64 complex numbers for the numeric runs -/
structure Cx where
  re : Float
  im : Float

instance : Add Cx := ⟨fun a b => ⟨a.re + b.re, a.im + b.im⟩⟩
instance : Mul Cx := ⟨fun a b => ⟨a.re * b.re - a.im * b.im, a.re * b.im + a.im * b.re⟩⟩
instance : Div Cx := ⟨fun a b =>
  let d := b.re * b.re + b.im * b.im
  ⟨(a.re * b.re + a.im * b.im) / d, (a.im * b.re - a.re * b.im) / d⟩⟩
instance : Zero Cx := ⟨⟨0, 0⟩⟩
instance : NatCast Cx := ⟨fun n => ⟨Float.ofNat n, 0⟩⟩
instance : NatCast Float := ⟨Float.ofNat⟩

def twoPi : Float := 6.283185307179586

/-- `exp(sign·2πi·m/n)` (argument reduced mod `n` first) -/
def twid (n : Nat) (sign : Float) (m : Nat) : Cx :=
  let a := sign * twoPi * (Float.ofNat (m % n)) / (Float.ofNat n)
  ⟨Float.cos a, Float.sin a⟩

def fftF (n : Nat) (a : List Cx) : List Cx := dft (twid n (-1.0)) n a
def ifftF (n : Nat) (a : List Cx) : List Cx := idft (twid n 1.0) n a

def cxList? (s : String) : Option (List Cx) :=
  let rec go : List Float → Option (List Cx)
    | [] => some []
    | a :: b :: t => (go t).map (fun r => ⟨a, b⟩ :: r)
    | _ => none
  if s = "-" then some [] else parseFloatList? s >>= go

def showCx (l : List Cx) : String :=
  if l.isEmpty then "-" else showList (fun c => showFloat c.re ++ "," ++ showFloat c.im) l

def showE {α} (f : α → String) : Except PyErr α → String
  | .ok v => f v
  | .error e => "error:" ++ toString e

def natList? (s : String) : Option (List Nat) := if s = "-" then some [] else parseNatList? s
def showNats (l : List Nat) : String := if l.isEmpty then "-" else showList toString l
def showInts (l : List Int) : String := if l.isEmpty then "-" else showList toString l

def optInt? (s : String) : Option (Option Int) :=
  if s = "none" then some none else s.toInt?.map some

def params? (f c u : String) : Option Params := do
  some ⟨← f.toNat?, ← c.toNat?, ← u.toNat?⟩

def tokens (n : Nat) : List Int := (List.range n).map (fun i => Int.ofNat (i + 1))

def op? (s : String) : Option (Int × Int × Option Int) :=
  match s.splitOn ":" with
  | [f, c, u] => do some (← f.toInt?, ← c.toInt?, ← optInt? u)
  | _ => none

/-- build an impulse response from `delays ns vals` (vals row-major `taps × ns`) -/
def ir? (d ns v : String) : Option (ImpulseResponse Cx) := do
  let d ← natList? d
  let ns ← ns.toNat?
  let v ← cxList? v
  if v.length ≠ d.length * ns then none
  else some ⟨d, rows ns d.length v, ns⟩

/-- one operation of a pair history: `set:f:c:u` | `mod:s:x` | `demod:s:y` | `eq:delays:ns:vals:data`
    (`s` = the implementation's `math.sqrt(power_scale)` at that moment) -/
def pairOp? (t : String) : Option (PairOp Cx × Float) :=
  match t.splitOn ":" with
  | ["set", f, c, u] => do some (.setParams (← f.toInt?) (← c.toInt?) (← optInt? u), 1.0)
  | ["mod", s, x] => do some (.modulate (← cxList? x), ← parseFloat? s)
  | ["demod", s, y] => do some (.demodulate (← cxList? y), ← parseFloat? s)
  | ["eq", d, ns, v, data] => do some (.equalize (← cxList? data) (← ir? d ns v), 1.0)
  | ["idx"] => some (.usedIndexes, 1.0)
  | ["zp", n] => do some (.zeropadOf (← n.toNat?), 1.0)
  | _ => none

def handle : List String → String
  | ["params", f, c, u] =>
    match f.toInt?, c.toInt?, optInt? u with
    | some f, some c, some u =>
      showE (fun p => s!"ok {p.fft} {p.cp} {p.used}") (setParameters f c u)
    | _, _, _ => "bad-op"
  | ["hist", f, c, u, ops] =>
    match params? f c u, (fields ops ";").mapM op? with
    | some p0, some ops =>
      let (p, flags) := ops.foldl (fun (acc : Params × String) op =>
        let r := step acc.1 op
        (r.1, acc.2 ++ (match r.2 with | none => "0" | some _ => "1"))) (p0, "")
      s!"{p.fft} {p.cp} {p.used} {flags}"
    | _, _ => "bad-op"
  | ["pair", f, c, u, ops] =>      -- history on ONE OFDM object with ONE long-lived equaliser
    match params? f c u, (fields ops ";").mapM pairOp? with
    | some p0, some ops =>
      let (st, outs) := ops.foldl (fun (acc : Pair × List String) os =>
        let r := stepPair fftF ifftF (fun _ => ⟨os.2, 0⟩) acc.1 os.1
        (r.1, acc.2 ++ [match os.1 with
          | .setParams .. => (match r.2 with | .ok _ => "ok" | .error e => "error:" ++ toString e)
          | _ => showE showCx r.2])) (freshPair p0, [])
      "|".intercalate outs ++ s!"|{st.ofdm.fft} {st.ofdm.cp} {st.ofdm.used}"
    | _, _ => "bad-op"
  | ["idx", f, u] =>
    match f.toNat?, u.toNat? with
    | some f, some u => showNats (usedIdx f u)
    | _, _ => "bad-op"
  | ["gidx", f, u] =>       -- the definitions regenerated from the source
    match f.toInt?, u.toInt? with
    | some f, some u => showInts (PyPhysim.Generated.C02.get_used_subcarrier_indexes f u)
    | _, _ => "bad-op"
  | ["gnum", f, u] =>
    match f.toInt?, u.toInt? with
    | some f, some u => showInts (PyPhysim.Generated.C02.get_used_subcarrier_numbers f u)
    | _, _ => "bad-op"
  | ["gzeropad", u, n] =>
    match u.toInt?, n.toInt? with
    | some u, some n =>
      let r := PyPhysim.Generated.C02.calc_zeropad u n
      s!"{r.1} {r.2}"
    | _, _ => "bad-op"
  | ["zeropad", u, n] =>
    match u.toNat?, n.toNat? with
    | some u, some n => let p : Params := ⟨u, 0, u⟩; s!"{zeropad p n} {numSymbols p n}"
    | _, _ => "bad-op"
  | ["prep", f, c, u, n] =>
    match params? f c u, n.toNat? with
    | some p, some n => showInts (prepare p (tokens n)).flatten
    | _, _ => "bad-op"
  | ["addcp", c, f, r] =>
    match c.toNat?, f.toNat?, r.toNat? with
    | some c, some f, some r => showInts ((rows f r (tokens (r * f))).map (addCP c)).flatten
    | _, _, _ => "bad-op"
  | ["rmcp", f, c, len] =>
    match params? f c "2", len.toNat? with
    | some p, some len => showE (fun (r : List (List Int)) => showInts r.flatten) (removeCP p (tokens len))
    | _, _ => "bad-op"
  | ["unprep", f, u, r] =>
    match params? f "0" u, r.toNat? with
    | some p, some r => showE showInts (unprepare p (rows p.fft r (tokens (r * p.fft))))
    | _, _ => "bad-op"
  | ["mod", f, c, u, s, x] =>        -- `s` = the implementation's `math.sqrt(power_scale)`
    match params? f c u, parseFloat? s, cxList? x with
    | some p, some s, some x => showCx (modulate ifftF ⟨s, 0⟩ p x)
    | _, _, _ => "bad-op"
  | ["demod", f, c, u, s, y] =>
    match params? f c u, parseFloat? s, cxList? y with
    | some p, some s, some y => showE showCx (demodulate fftF ⟨s, 0⟩ p y)
    | _, _, _ => "bad-op"
  | ["gscale", f, c, u] =>          -- `_calculate_power_scale` as regenerated from the source, at binary64
    match f.toNat?, c.toNat?, u.toNat? with
    | some f, some c, some u => showFloat (PyPhysim.Generated.C02.calculate_power_scale (α := Float) f c u)
    | _, _, _ => "bad-op"
  | ["corrupt", d, ns, v, x] =>
    match ir? d ns v, cxList? x with
    | some ir, some x => showE showCx (corrupt ir x)
    | _, _ => "bad-op"
  | ["freq", f, d, ns, v] =>      -- column-major: sample 0's response, then sample 1's, …
    match f.toNat?, ir? d ns v with
    | some f, some ir =>
      showE (fun (H : List (List Cx)) => showCx H.flatten) ((List.range ir.ns).mapM (freqResponse fftF f ir))
    | _, _ => "bad-op"
  | ["eq", f, c, u, d, ns, v, data] =>
    match params? f c u, ir? d ns v, cxList? data with
    | some p, some ir, some data => showE showCx (equalize fftF p data ir)
    | _, _, _ => "bad-op"
  | ["e2e", f, c, u, s, d, ns, v, tx] =>
    match params? f c u, parseFloat? s, ir? d ns v, cxList? tx with
    | some p, some s, some ir, some tx => showE showCx (oneTapReceive fftF ⟨s, 0⟩ p ir tx)
    | _, _, _, _ => "bad-op"
  | _ => "bad-op"

def main : IO Unit := runDriver handle
