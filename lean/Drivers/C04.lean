import PyPhysim.Model.Proto
import PyPhysim.Model.C04
import PyPhysim.Model.C04Obj
import PyPhysim.Model.C04Buf
open PyPhysim.Proto PyPhysim.C04

/-!
Line-protocol driver of the C04 model, instantiated at binary64.
Matrices travel row-major, each scalar as two binary64 bit patterns
(`re,im`), comma separated; `-` is the empty array; shapes are decimal.
Results of the external kernels (`pinv`, `solve`, `svd`, `gmd`) are inputs.
-/

/-- binary64 complex number -/
structure CF where
  re : Float
  im : Float

instance : Zero CF := ⟨⟨0, 0⟩⟩
instance : One CF := ⟨⟨1, 0⟩⟩
instance : Add CF := ⟨fun a b => ⟨a.re + b.re, a.im + b.im⟩⟩
instance : Sub CF := ⟨fun a b => ⟨a.re - b.re, a.im - b.im⟩⟩
instance : Neg CF := ⟨fun a => ⟨-a.re, -a.im⟩⟩
instance : Mul CF := ⟨fun a b => ⟨a.re * b.re - a.im * b.im, a.re * b.im + a.im * b.re⟩⟩
instance : Div CF := ⟨fun a b =>
  let d := b.re * b.re + b.im * b.im
  ⟨(a.re * b.re + a.im * b.im) / d, (a.im * b.re - a.re * b.im) / d⟩⟩
instance : NatCast CF := ⟨fun n => ⟨n.toFloat, 0⟩⟩
instance : CScalar CF where
  conj a := ⟨a.re, -a.im⟩
  sqrt a := ⟨Float.sqrt a.re, 0⟩
  abs a := ⟨Float.sqrt (a.re * a.re + a.im * a.im), 0⟩
  angle a := ⟨Float.atan2 a.im a.re, 0⟩
  exp a := ⟨Float.exp a.re * Float.cos a.im, Float.exp a.re * Float.sin a.im⟩
  I := ⟨0, 1⟩
  posB a := a.re > 0
  nonnegB a := a.re >= 0

def toMat (m n : Nat) (xs : Array CF) : Mat CF m n :=
  fun i j => xs.getD (i.val * n + j.val) ⟨0, 0⟩

def toVec (n : Nat) (xs : Array CF) : Vec CF n := fun i => xs.getD i.val ⟨0, 0⟩

def pairs : List Float → Option (List CF)
  | [] => some []
  | re :: im :: rest => (pairs rest).map (fun t => ⟨re, im⟩ :: t)
  | _ => none

def emptyOk (s : String) : String := if s = "-" then "" else s

/-- parse `count` complex numbers (2·count floats) -/
def parseC (count : Nat) (s : String) : Option (Array CF) := do
  let fs ← parseFloatList? (emptyOk s)
  let ps ← pairs fs
  if ps.length = count then some ps.toArray else none

def showC (z : CF) : String := showFloat z.re ++ "," ++ showFloat z.im

def showMat {m n : Nat} (A : Mat CF m n) : String :=
  ",".intercalate ((List.finRange m).flatMap (fun i => (List.finRange n).map (fun j => showC (A i j))))

def showVec {n : Nat} (v : Vec CF n) : String :=
  ",".intercalate ((List.finRange n).map (fun i => showC (v i)))

def showE {β} (f : β → String) : Except PyErr β → String
  | .ok b => f b
  | .error e => "error:" ++ toString e

def nats : List String → Option (List Nat) := fun l => l.mapM String.toNat?

/-! ### object histories (`Model/C04Obj.lean`) -/

def parseCAny (s : String) : Option (Array CF) := do
  let fs ← parseFloatList? (emptyOk s)
  let ps ← pairs fs
  some ps.toArray

def parseScheme : String → Option Scheme
  | "blast" => some .blast | "mrc" => some .mrc | "mrt" => some .mrt
  | "svd" => some .svd | "gmd" => some .gmd | "alamouti" => some .alamouti
  | _ => none

/-- `v:<n>:<data>` or `m:<nr>:<nt>:<data>` -/
def parseChanArg (s : String) : Option (ChanArg CF) :=
  match s.splitOn ":" with
  | ["v", n, d] => do
      let n ← n.toNat?
      let xs ← parseC n d
      some (.vec n (toVec n xs))
  | ["m", nr, nt, d] => do
      let nr ← nr.toNat?
      let nt ← nt.toNat?
      let xs ← parseC (nr * nt) d
      some (.mat nr nt (toMat nr nt xs))
  | _ => none

/-- the kernels of one step: constant functions returning the recorded results
    (`key=<data>` fields; absent kernels return zeros and are not used by the step) -/
def kernelsOf (fields : List String) : Kernels CF :=
  let get (k : String) : Array CF :=
    match kv fields k with
    | some d => (parseCAny d).getD #[]
    | none => #[]
  { pinv := fun {m n} _ => toMat n m (get "pinv")
    solve := fun {n m} _ _ => toMat n m (get "solve")
    svdVH := fun {_ n} _ => toMat n n (get "vh")
    svdU := fun {m n} _ => toMat m (min m n) (get "u")
    svdS := fun {m n} _ => toVec (min m n) (get "s")
    gmdQ := fun {m _} _ => toMat m m (get "q")
    gmdR := fun {m n} _ => toMat m n (get "r")
    gmdP := fun {_ n} _ => toMat n n (get "p") }

def parseOp (tok : String) : Option (Op CF × Kernels CF) :=
  let fs := tok.splitOn ";"
  let K := kernelsOf fs
  match fs with
  | "sc" :: c :: _ => (parseChanArg c).map (fun c => (.setChannel c, K))
  | "nv" :: v :: _ =>
      if v = "none" then some (.setNoiseVar none, K)
      else (parseC 1 v).map (fun a => (.setNoiseVar (some (a.getD 0 0)), K))
  | "enc" :: n :: x :: _ => do
      let n ← n.toNat?
      let xs ← parseC n x
      some (.encode n (toVec n xs), K)
  | "dec" :: nr :: l :: y :: _ => do
      let nr ← nr.toNat?
      let l ← l.toNat?
      let ys ← parseC (nr * l) y
      some (.decode nr l (toMat nr l ys), K)
  | "flt" :: v :: _ =>
      if v = "none" then some (.filters none, K)
      else (parseC 1 v).map (fun a => (.filters (some (a.getD 0 0)), K))
  | "sinr" :: v :: _ => (parseC 1 v).map (fun a => (.sinr (a.getD 0 0), K))
  | "chan" :: _ => some (.channel, K)
  | "nvq" :: _ => some (.noiseVar, K)
  | "layers" :: _ => some (.layers, K)
  | _ => none

def showOut : Out CF → String
  | .err e => "error:" ++ toString e
  | .done => "done"
  | .mat m n A => "mat:" ++ toString m ++ ":" ++ toString n ++ ":" ++ showMat A
  | .vec n v => "vec:" ++ toString n ++ ":" ++ showVec v
  | .nat k => "nat:" ++ toString k
  | .two m n A p q B => "two:" ++ toString m ++ ":" ++ toString n ++ ":" ++ showMat A ++ ":" ++
      toString p ++ ":" ++ toString q ++ ":" ++ showMat B

/-- run a history on the model object, one reply field per operation -/
def runHist (o : Obj CF) : List String → List String → Option (List String)
  | [], acc => some acc.reverse
  | tok :: rest, acc =>
      match parseOp tok with
      | none => none
      | some (op, K) =>
          let (o', out) := step K o op
          runHist o' rest (showOut out :: acc)

def handle : List String → String
  -- hist scheme chanarg op op ...  ->  constructor outcome | one field per op
  | "hist" :: sch :: c :: ops => Id.run do
      let some s := parseScheme sch | return "bad-op"
      if c = "none" then  -- cls(): the channel comes later (or never)
        match runHist (constructEmpty s) ops [] with
        | some outs => return "|".intercalate ("ok" :: outs)
        | none => return "bad-op"
      let some ca := parseChanArg c | return "bad-op"
      match construct s ca with
      | .error e => return "error:" ++ toString e
      | .ok o =>
          match runHist o ops [] with
          | some outs => return "|".intercalate ("ok" :: outs)
          | none => return "bad-op"
  -- mmseargs Nr Nt H nv -> lhs | rhs   (the two arguments of np.linalg.solve)
  | ["mmseargs", nr, nt, h, nv] => Id.run do
      let some [nr, nt] := nats [nr, nt] | return "bad-op"
      let some H := parseC (nr * nt) h | return "bad-op"
      let some v := parseC 1 nv | return "bad-op"
      let H := toMat nr nt H
      return showMat (mmseLhs H (v.getD 0 0)) ++ "|" ++ showMat (mmseRhs H)
  -- blastflt Nr Nt nv Gp Ws -> precoder | filter
  | ["blastflt", nr, nt, nv, gp, ws] => Id.run do
      let some [nr, nt] := nats [nr, nt] | return "bad-op"
      let some v := parseC 1 nv | return "bad-op"
      let some Gp := parseC (nt * nr) gp | return "bad-op"
      let some Ws := parseC (nt * nr) ws | return "bad-op"
      return showMat (blastPrecoder (α := CF) nt) ++ "|" ++
        showMat (blastFilter (v.getD 0 0) (toMat nt nr Gp) (toMat nt nr Ws))
  -- blastenc Nt n x -> encoded | error
  | ["blastenc", nt, n, x] => Id.run do
      let some [nt, n] := nats [nt, n] | return "bad-op"
      let some X := parseC n x | return "bad-op"
      return showE showMat (blastEncode nt (toVec n X))
  -- blastdec Nr Nt L nv Gp Ws Y -> decoded
  | ["blastdec", nr, nt, l, nv, gp, ws, y] => Id.run do
      let some [nr, nt, l] := nats [nr, nt, l] | return "bad-op"
      let some v := parseC 1 nv | return "bad-op"
      let some Gp := parseC (nt * nr) gp | return "bad-op"
      let some Ws := parseC (nt * nr) ws | return "bad-op"
      let some Y := parseC (nr * l) y | return "bad-op"
      let G := blastFilter (v.getD 0 0) (toMat nt nr Gp) (toMat nt nr Ws)
      return showVec (blastDecode G (toMat nr l Y))
  -- svdenc Nt n VH x -> precoder | encoded
  | ["svdenc", nt, n, vh, x] => Id.run do
      let some [nt, n] := nats [nt, n] | return "bad-op"
      let some VH := parseC (nt * nt) vh | return "bad-op"
      let some X := parseC n x | return "bad-op"
      let W := svdPrecoder (toMat nt nt VH)
      return showMat W ++ "|" ++ showE showMat (precodeC W (toVec n X))
  -- svddec Nr K Nt L U S Y -> filter | decoded
  | ["svddec", nr, k, nt, l, u, s, y] => Id.run do
      let some [nr, k, nt, l] := nats [nr, k, nt, l] | return "bad-op"
      let some U := parseC (nr * k) u | return "bad-op"
      let some S := parseC k s | return "bad-op"
      let some Y := parseC (nr * l) y | return "bad-op"
      let G := svdFilter nt (toMat nr k U) (toVec k S)
      return showMat G ++ "|" ++ showVec (decodeC G (toMat nr l Y))
  -- gmdenc Nt n P x -> precoder | encoded
  | ["gmdenc", nt, n, p, x] => Id.run do
      let some [nt, n] := nats [nt, n] | return "bad-op"
      let some P := parseC (nt * nt) p | return "bad-op"
      let some X := parseC n x | return "bad-op"
      let W := gmdPrecoder (toMat nt nt P)
      return showMat W ++ "|" ++ showE showMat (precodeC W (toVec n X))
  -- gmdeq Nr Nt Q R nv -> the equivalent channel handed to pinv | the two arguments of solve for it
  | ["gmdeq", nr, nt, q, r, nv] => Id.run do
      let some [nr, nt] := nats [nr, nt] | return "bad-op"
      let some Q := parseC (nr * nr) q | return "bad-op"
      let some R := parseC (nr * nt) r | return "bad-op"
      let some v := parseC 1 nv | return "bad-op"
      let Heq := gmdChannelEq (toMat nr nr Q) (toMat nr nt R)
      return showMat Heq ++ "|" ++ showMat (mmseLhs Heq (v.getD 0 0)) ++ "|" ++ showMat (mmseRhs Heq)
  -- gmddec Nr Nt L nv Gp Ws Y -> filter | decoded
  | ["gmddec", nr, nt, l, nv, gp, ws, y] => Id.run do
      let some [nr, nt, l] := nats [nr, nt, l] | return "bad-op"
      let some v := parseC 1 nv | return "bad-op"
      let some Gp := parseC (nt * nr) gp | return "bad-op"
      let some Ws := parseC (nt * nr) ws | return "bad-op"
      let some Y := parseC (nr * l) y | return "bad-op"
      let G := blastFilter (v.getD 0 0) (toMat nt nr Gp) (toMat nt nr Ws)
      return showMat G ++ "|" ++ showVec (decodeC G (toMat nr l Y))
  -- mrt Nt n h x Y -> precoder | filter | encoded | decoded
  | ["mrt", nt, n, h, x, y] => Id.run do
      let some [nt, n] := nats [nt, n] | return "bad-op"
      let some H := parseC nt h | return "bad-op"
      let some X := parseC n x | return "bad-op"
      let some Y := parseC n y | return "bad-op"
      let h := toVec nt H
      return showVec (mrtPrecoder h) ++ "|" ++ showC (mrtFilter h) ++ "|" ++
        showMat (mrtEncode h (toVec n X)) ++ "|" ++ showVec (mrtDecode h (toMat 1 n Y))
  -- alaenc n x -> encoded | error
  | ["alaenc", n, x] => Id.run do
      let some [n] := nats [n] | return "bad-op"
      let some X := parseC n x | return "bad-op"
      return showE showMat (alamoutiEncode (toVec n X))
  -- aladec Nr B H Y -> decoded
  | ["aladec", nr, b, h, y] => Id.run do
      let some [nr, b] := nats [nr, b] | return "bad-op"
      let some H := parseC (nr * 2) h | return "bad-op"
      let some Y := parseC (nr * (2 * b)) y | return "bad-op"
      return showVec (alamoutiDecode (toMat nr 2 H) (toMat nr (2 * b) Y))
  -- shape kind dims -> stored shape | error
  | ["shape", kind, dims] => Id.run do
      let some d := parseNatList? dims | return "bad-op"
      let r := match kind with
        | "miso" => misoShape d
        | "mrc" => mrcShape d
        | "alamouti" => alamoutiShape d
        | _ => .error .KeyError
      return showE (fun p => toString p.1 ++ "," ++ toString p.2) r
  -- setnv none | setnv <re,im> -> stored value | error
  | ["setnv", v] => Id.run do
      if v = "none" then return showE showC (setNoiseVar (α := CF) none)
      let some x := parseC 1 v | return "bad-op"
      return showE showC (setNoiseVar (some (x.getD 0 0)))
  -- buf <ops> : a caller with ONE channel array (contents are natural numbers); ops = r<k> (refill with k),
  -- sb (set_channel_matrix(buf)), sf<k> (set_channel_matrix(fresh array with contents k)), o (observe)
  -- -> observations of the code as it is | observations under value semantics    (`-` = no channel yet)
  | ["buf", b0, ops] => Id.run do
      let some b := b0.toNat? | return "bad-op"
      let mut prog : List (Buf.BOp Nat) := []
      for t in ops.splitOn "," do
        if t = "sb" then prog := prog ++ [.setBuffer]
        else if t = "o" then prog := prog ++ [.observe]
        else if t.startsWith "sf" then
          let some k := (t.drop 2).toNat? | return "bad-op"
          prog := prog ++ [.setFresh k]
        else if t.startsWith "r" then
          let some k := (t.drop 1).toNat? | return "bad-op"
          prog := prog ++ [.refill k]
        else return "bad-op"
      let sh (l : List (Option Nat)) : String :=
        ",".intercalate (l.map (fun o => match o with | some k => toString k | none => "-"))
      return sh (Buf.codeRun ⟨b, none, false⟩ prog) ++ "|" ++ sh (Buf.valRun ⟨b, none⟩ prog)
  | _ => "bad-op"

def main : IO Unit := runDriver handle
