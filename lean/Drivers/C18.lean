import PyPhysim.Model.Proto
import PyPhysim.Model.C18
import PyPhysim.Model.C18Buf
import PyPhysim.Generated.PrimeTable
import PyPhysim.Generated.C18RootTables
open PyPhysim.Proto PyPhysim.Cazac PyPhysim.Generated

/-! Line-protocol driver of the C18 model.  Scalars: `CF` (pair of binary64)
for the estimator paths, `CQ` (Gaussian rationals) for the least-squares path. -/

-- ---------------------------------------------------------------- complex binary64
structure CF where
  re : Float
  im : Float

instance : Add CF := ⟨fun a b => ⟨a.re + b.re, a.im + b.im⟩⟩
instance : Sub CF := ⟨fun a b => ⟨a.re - b.re, a.im - b.im⟩⟩
instance : Neg CF := ⟨fun a => ⟨-a.re, -a.im⟩⟩
instance : Mul CF := ⟨fun a b => ⟨a.re * b.re - a.im * b.im, a.re * b.im + a.im * b.re⟩⟩
instance : Div CF := ⟨fun a b =>
  let d := b.re * b.re + b.im * b.im
  ⟨(a.re * b.re + a.im * b.im) / d, (a.im * b.re - a.re * b.im) / d⟩⟩
instance : Zero CF := ⟨⟨0.0, 0.0⟩⟩
instance : NatCast CF := ⟨fun n => ⟨Float.ofNat n, 0.0⟩⟩

def twoPi : Float := 6.283185307179586476925286766559

/-- `exp(2πi q)`; the phase is reduced exactly to `(-1/2, 1/2]` turns first -/
def cisF (q : Rat) : CF :=
  let fr := q - ((q.floor : Int) : Rat)
  let fr := if fr > (1 : Rat) / 2 then fr - 1 else fr
  let t := twoPi * (Float.ofInt fr.num / Float.ofNat fr.den)
  ⟨Float.cos t, Float.sin t⟩

instance : CisOps CF := ⟨cisF, fun a => ⟨a.re, -a.im⟩⟩

def showC (z : CF) : String := showFloat z.re ++ ":" ++ showFloat z.im
def showCL (l : List CF) : String := showList showC l
def parseC? (s : String) : Option CF :=
  match s.splitOn ":" with
  | [a, b] => do let x ← parseFloat? a; let y ← parseFloat? b; pure ⟨x, y⟩
  | _ => none
def parseCL? (s : String) : Option (List CF) := (fields s ",").mapM parseC?
def parseCRows? (s : String) : Option (List (List CF)) := (fields s "|").mapM parseCL?
def parseCBlocks? (s : String) : Option (List (List (List CF))) := (fields s "#").mapM parseCRows?

def norm2 (x : List CF) : CF :=
  ⟨Float.sqrt (x.foldl (fun acc z => acc + (z.re * z.re + z.im * z.im)) 0.0), 0.0⟩

-- ---------------------------------------------------------------- Gaussian rationals
structure CQ where
  re : Rat
  im : Rat
  deriving BEq, Inhabited

instance : Add CQ := ⟨fun a b => ⟨a.re + b.re, a.im + b.im⟩⟩
instance : Sub CQ := ⟨fun a b => ⟨a.re - b.re, a.im - b.im⟩⟩
instance : Neg CQ := ⟨fun a => ⟨-a.re, -a.im⟩⟩
instance : Mul CQ := ⟨fun a b => ⟨a.re * b.re - a.im * b.im, a.re * b.im + a.im * b.re⟩⟩
instance : Div CQ := ⟨fun a b =>
  let d := b.re * b.re + b.im * b.im
  ⟨(a.re * b.re + a.im * b.im) / d, (a.im * b.re - a.re * b.im) / d⟩⟩
instance : Zero CQ := ⟨⟨0, 0⟩⟩
instance : NatCast CQ := ⟨fun n => ⟨(n : Rat), 0⟩⟩
/-- only `conj` is used on the least-squares path -/
instance : CisOps CQ := ⟨fun _ => ⟨1, 0⟩, fun a => ⟨a.re, -a.im⟩⟩

def showQ (z : CQ) : String := showRat z.re ++ ":" ++ showRat z.im
def parseQ? (s : String) : Option CQ :=
  match s.splitOn ":" with
  | [a, b] => do let x ← parseRat? a; let y ← parseRat? b; pure ⟨x, y⟩
  | _ => none
def parseQRows? (s : String) : Option (List (List CQ)) :=
  (fields s "|").mapM (fun r => (fields r ",").mapM parseQ?)

def isZeroQ (z : CQ) : Bool := z.re == 0 && z.im == 0

/-- Gauss–Jordan inverse over the Gaussian rationals (stands for `np.linalg.inv`);
    `none` when singular. Rows are augmented with the identity. -/
def gaussJordan (n : Nat) (a : List (List CQ)) : Option (List (List CQ)) := Id.run do
  let one : CQ := ⟨1, 0⟩
  let mut m : Array (Array CQ) := (a.zipIdx.map (fun p =>
    (p.1 ++ (List.range n).map (fun j => if j = p.2 then one else (0 : CQ))).toArray)).toArray
  for col in [0:n] do
    -- pivot search
    let mut piv := n
    for r in [col:n] do
      if piv = n && !isZeroQ (m[r]!)[col]! then piv := r
    if piv = n then return none
    let tmp := m[col]!
    m := m.set! col m[piv]!
    m := m.set! piv tmp
    let p := (m[col]!)[col]!
    m := m.set! col ((m[col]!).map (fun v => v / p))
    for r in [0:n] do
      if r ≠ col then
        let f := (m[r]!)[col]!
        if !isZeroQ f then
          let rowc := m[col]!
          m := m.set! r ((m[r]!).zipWith (fun v w => v - f * w) rowc)
  return some (m.toList.map (fun row => (row.toList.drop n)))

def toMat (m n : Nat) (rows : List (List CQ)) : Mat CQ m n :=
  fun i j => (rows.getD i.val []).getD j.val 0
def ofMat {m n : Nat} (A : Mat CQ m n) : List (List CQ) :=
  (List.finRange m).map (fun i => (List.finRange n).map (fun j => A i j))

-- ---------------------------------------------------------------- helpers
def showErr (e : PyErr) : String := "error:" ++ toString e

def optNat? (s : String) : Option (Option Nat) :=
  if s == "none" then some none else s.toNat?.map some

def getNat (toks : List String) (k : String) : Option Nat := (kv toks k).bind String.toNat?

def buildRoot (toks : List String) : Option (Except PyErr RootSeq) := do
  let u ← getNat toks "u"
  let size ← (kv toks "size").bind optNat?
  let nzc ← (kv toks "nzc").bind optNat?
  pure (rootSequence smallPrimeList rootTable1 rootTable2 u size nzc)

def intToCF (i : Int) : CF := ⟨Float.ofInt i, 0.0⟩

def parseCover? (coverS : String) : Option (Option (List CF)) :=
  if coverS == "none" then some none
  else (parseIntList? coverS "_").map (fun l => some (l.map intToCF))

/-- user sequence object from the tokens `u size nzc ncs D cover norm` (model: `Cazac.buildUe`) -/
def parseUe (toks : List String) : Option (Except PyErr (UeSeq CF)) := do
  let root ← buildRoot toks
  let ncs ← getNat toks "ncs"
  let d ← getNat toks "D"
  let norm ← getNat toks "norm"
  let cover ← (kv toks "cover").bind parseCover?
  pure (do
    let rs ← root
    PyPhysim.Cazac.buildUe norm2 rs ⟨d, ncs, norm == 1, cover⟩)

/-- one construction `D:ncs:norm:cover` of a cell history -/
def parseSpec? (s : String) : Option (UeSpec CF) :=
  match s.splitOn ":" with
  | [d, ncs, norm, cover] => do
      let d ← d.toNat?
      let ncs ← ncs.toNat?
      let norm ← norm.toNat?
      let cover ← parseCover? cover
      pure ⟨d, ncs, norm == 1, cover⟩
  | _ => none

/-- one operation of a cell history: `D:ncs:norm:cover` (construction), `q` (read-only calls), `c<j>` (copy of user j) -/
def parseCellOp? (s : String) : Option (CellOp CF) :=
  if s == "q" then some .query
  else if s.startsWith "c" then ((s.drop 1).toNat?).map .copy
  else (parseSpec? s).map .build

def showObs (c : Cell CF) : String :=
  let o := c.observe
  "q=" ++ toString o.1.1 ++ "/" ++ toString o.1.2.1 ++ "/" ++ toString o.1.2.2 ++ "/"
    ++ showList (fun u => (if u.1 then "n1." else "n0.") ++ toString u.2.1 ++ "x" ++ toString u.2.2) o.2 "+"

/-- `Cell.runOps` step by step (same `Cell.step`), reporting the observables at every query -/
def runCellOps (c : Cell CF) : List (CellOp CF) → Cell CF × List String
  | [] => (c, [])
  | op :: rest =>
    let (c1, st) := c.step norm2 op
    let shown := match op, st with
      | .query, _ => showObs c1
      | _, none => "ok"
      | _, some e => showErr e
    let (c2, out) := runCellOps c1 rest
    (c2, shown :: out)

def showUe (ue : UeSeq CF) : String :=
  (if ue.normalized then "n1:" else "n0:") ++ showList showCL ue.rows "|"

def showRowsE (r : Except PyErr (List (List CF))) : String :=
  match r with
  | .ok rows => showList showCL rows "|"
  | .error e => showErr e

def handle1 (toks : List String) : String :=
  match toks with
  | ["lookup", s] => match s.toNat? with
      | some s => (match primeLookup smallPrimeList s with | .ok p => toString p | .error e => showErr e)
      | none => "bad-op"
  | ["ext", n, size] => match n.toNat?, size.toNat? with
      | some n, some size => (match extendedZF (List.range n) size with
          | .ok l => showList toString l | .error e => showErr e)
      | _, _ => "bad-op"
  | "root" :: rest => match buildRoot rest with
      | some (.ok r) => "nzc=" ++ toString r.nzc ++ " size=" ++ toString r.size ++ " ext="
          ++ (if r.ext.isSome then "1" else "0") ++ " ph=" ++ showList showRat r.seqArray
      | some (.error e) => showErr e
      | none => "bad-op"
  | "shift" :: rest => match buildRoot rest, getNat rest "ncs", getNat rest "D" with
      | some (.ok r), some ncs, some d => (match shiftedPhases r.seqArray ncs d with
          | .ok ph => showList showRat ph | .error e => showErr e)
      | some (.error e), _, _ => showErr e
      | _, _, _ => "bad-op"
  | "shiftph" :: rest =>    -- get_shifted_root_seq on an arbitrary unit-modulus array given by exact phases
      match getNat rest "ncs", getNat rest "D", (kv rest "ph").bind (fun s => parseRatList? s) with
      | some ncs, some d, some ph => (match shiftedPhases ph ncs d with
          | .ok out => showList showRat out | .error e => showErr e)
      | _, _, _ => "bad-op"
  | "extl" :: rest =>       -- get_extended_ZF on an arbitrary integer array
      match getNat rest "size", (kv rest "l").bind (fun s => parseIntList? s) with
      | some size, some l => (match extendedZF l size with
          | .ok out => showList toString out | .error e => showErr e)
      | _, _ => "bad-op"
  | "ue" :: rest => match parseUe rest with      -- the stored user sequence array
      | some (.ok ue) => showList showCL ue.rows "|"
      | some (.error e) => showErr e
      | none => "bad-op"
  | "cell" :: rest =>        -- history of constructions on ONE shared root object
      match buildRoot rest, (kv rest "ops").bind (fun o => (fields o ";").mapM parseSpec?) with
      | some (.ok r), some sps =>
        let (c, sts) := Cell.run norm2 ⟨r, []⟩ sps
        showList (fun st => match st with | none => "ok" | some e => showErr e) sts
          ++ " root=" ++ showList showRat c.root.seqArray
          ++ " users=" ++ showList showUe c.users "#"
      | some (.error e), _ => showErr e
      | _, _ => "bad-op"
  | "cellops" :: rest =>     -- constructions, read-only calls and copies on ONE shared root object
      match buildRoot rest, (kv rest "ops").bind (fun o => (fields o ";").mapM parseCellOp?) with
      | some (.ok r), some ops =>
        let (c, shown) := runCellOps ⟨r, []⟩ ops
        showList id shown ++ " root=" ++ showList showRat c.root.seqArray
          ++ " users=" ++ showList showUe c.users "#"
      | some (.error e), _ => showErr e
      | _, _ => "bad-op"
  | "est" :: rest =>
      -- plain estimator; reference = user sequence object or raw array `ref=`
      match getNat rest "m", getNat rest "K", getNat rest "dim", kv rest "Y" with
      | some m, some k, some dim, some ys =>
        let refE : Option (Except PyErr (List CF × Bool)) :=
          match kv rest "ref" with
          | some rs => (parseCL? rs).map (fun r => .ok (r, false))
          | none => (parseUe rest).map (fun e => e.bind (fun ue =>
              match ue.cover, ue.rows with
              | none, [row] => .ok (row, ue.normalized)
              | _, _ => .error .ValueError))
        match refE with
        | none => "bad-op"
        | some (.error e) => showErr e
        | some (.ok (r, nrm)) =>
          if dim = 1 then
            match parseCL? ys with
            | some y => (match estimate1 r nrm m y k with | .ok h => showCL h | .error e => showErr e)
            | none => "bad-op"
          else
            match parseCRows? ys with
            | some y => showRowsE (estimateRows r nrm m y k)
            | none => "bad-op"
      | _, _, _, _ => "bad-op"
  | "occ" :: rest =>
      match getNat rest "K", getNat rest "dim", getNat rest "extra", kv rest "Y", parseUe rest with
      | some k, some dim, some extra, some ys, some ueE =>
        match ueE with
        | .error e => showErr e
        | .ok ue =>
          let nc := match ue.cover with | some cc => cc.length | none => 0
          if extra = 1 then
            if dim = 2 then
              match parseCRows? ys with
              | some y => (match estimateOcc1 ue y k with | .ok h => showCL h | .error e => showErr e)
              | none => "bad-op"
            else
              match parseCBlocks? ys with
              | some y => showRowsE (estimateOccRows ue y k)
              | none => "bad-op"
          else
            if dim = 1 then
              match parseCL? ys with
              | some y => (match (reshapeRows nc y).bind (fun yy => estimateOcc1 ue yy k) with
                  | .ok h => showCL h | .error e => showErr e)
              | none => "bad-op"
            else
              match parseCRows? ys with
              | some y => showRowsE ((y.mapM (reshapeRows nc)).bind (fun yy => estimateOccRows ue yy k))
              | none => "bad-op"
      | _, _, _, _, _ => "bad-op"
  | "ls" :: rest =>
      match getNat rest "nr", getNat rest "nt", getNat rest "np",
            (kv rest "Y").bind parseQRows?, (kv rest "S").bind parseQRows? with
      | some nr, some nt, some np, some y, some s =>
        let S : Mat CQ nt np := toMat nt np s
        let G := ofMat (matMul S (conjT S))
        match gaussJordan nt G with
        | none => "singular"
        | some gi =>
          let inv : Mat CQ nt nt → Mat CQ nt nt := fun _ => toMat nt nt gi
          let H := lsEstimate inv (toMat nr np y) S
          -- contract of the stand-in kernel, reported so that the harness can assert it
          let chk := ofMat (matMul (matMul S (conjT S)) (toMat nt nt gi))
          let idOk := chk.zipIdx.all (fun r => r.1.zipIdx.all (fun c =>
            c.1 == (if c.2 = r.2 then (⟨1, 0⟩ : CQ) else ⟨0, 0⟩)))
          (if idOk then "inv-ok " else "inv-bad ") ++ showList (fun row => showList showQ row) (ofMat H) "|"
      | _, _, _, _, _ => "bad-op"
  | _ => "bad-op"

/-- R16: `buf <kind> <fixed tokens> slot=<key> ops=r<contents>;c<K>;…` — `Cazac.BufState.run` with the
    handler of the single-call line `<kind>` as callee: the buffer is the value of the token `<key>`
    (`Y`, `S`, `ph`, `l`), a call `c<K>` appends `K=<K>` (nothing for `c`); outputs joined by ` ; ` -/
def handle (toks : List String) : String :=
  match toks with
  | "buf" :: kind :: rest =>
    match kv rest "slot", kv rest "ops" with
    | some slot, some opsS =>
      let fixed := rest.filter (fun t => !(t.startsWith "ops=") && !(t.startsWith "slot="))
      let ops : List (BufOp String String) := (fields opsS ";").map (fun o =>
        if o.startsWith "r" then .refill (o.drop 1).toString else .call (o.drop 1).toString)
      let f : String → String → String := fun content k =>
        handle1 (kind :: fixed ++ [slot ++ "=" ++ content] ++ (if k == "" then [] else ["K=" ++ k]))
      showList id (BufState.run f ⟨"", []⟩ ops).outs " ; "
    | _, _ => "bad-op"
  | _ => handle1 toks

def main : IO Unit := runDriver handle
