import PyPhysim.Model.Proto
import PyPhysim.Model.C12
open PyPhysim.Proto PyPhysim.C12

/-!
Driver of the C12 model at exact rationals.

`wf gains=<p/q,...> P=<p/q> [N=<p/q>] [Es=<p/q>]`   (N / Es absent = argument left at its default 1.0)
   → `p=<p/q,...> mu=<p/q> kept=<k> margin=<p/q>`  |  `error:<PyErr>`

`p`, `mu` are the value of `PyPhysim.C12.doWFRat` (= `doWF` at `Rat`).  `kept` (number of non-zero entries of
`p`) and `margin` are bookkeeping for the harness only: `margin` is the smallest distance
`|sum(Ps) − P| / max(|sum(Ps)|, |P|, minMu)` over the loop tests the run performed; when
it is below 1e-9 the harness does not compare the discrete number of switched-off
channels (binary64 may legitimately decide a tie the other way; the allocation itself is
continuous there and is still compared).
-/

def ratAbs (x : Rat) : Rat := if x < 0 then -x else x
def ratMax (x y : Rat) : Rat := if x < y then y else x

/-- `(sum(Ps), minMu)` of every loop stage in `O(n)` from suffix sums:
    stage `w :: rest` has `sum(Ps) = (|rest|+1)·level w − Σ_{x ∈ w :: rest} level x` -/
def stageTests (N Es : Rat) (asc : List (Chan Rat)) : List (Rat × Rat) :=
  (asc.foldr (fun x (acc : Rat × Nat × List (Rat × Rat)) =>
      let l := level N Es x
      let s := acc.1 + l
      let k := acc.2.1 + 1
      (s, k, ((k : Rat) * l - s, l) :: acc.2.2)) (0, 0, [])).2.2

def margin (P : Rat) (tests : List (Rat × Rat)) (performed : Nat) : Rat :=
  (tests.take performed).foldl
    (fun m t => let d := ratAbs (t.1 - P) / ratMax (ratMax (ratAbs t.1) (ratAbs P)) (ratAbs t.2)
                if d < m then d else m) 1

def showRes (g : List Rat) (P : Rat) (oN oEs : Option Rat) : String :=
  let N := oN.getD 1      -- bookkeeping (margin) only; the value comes from `doWFCallRat`
  let Es := oEs.getD 1
  match doWFCallRat g P oN oEs with
  | .error e => "error:" ++ toString e
  | .ok (p, mu) =>
    let k := (p.filter (fun x => x != 0)).length
    let performed := g.length - k + 1
    "p=" ++ showList showRat p ++ " mu=" ++ showRat mu ++ " kept=" ++ toString k
      ++ " margin=" ++ showRat (margin P (stageTests N Es (argsortAsc g)) performed)

/-- an optional `key=value`: absent → `some none` (argument left at its default),
    present and well formed → `some (some v)`, malformed → `none` -/
def optRat (toks : List String) (key : String) : Option (Option Rat) :=
  match kv toks key with
  | none => some none
  | some t => (parseRat? t).map some

def handle : List String → String
  | "wf" :: rest =>
    match (kv rest "gains").bind (parseRatList? ·), (kv rest "P").bind parseRat?,
          optRat rest "N", optRat rest "Es" with
    | some g, some P, some oN, some oEs => showRes g P oN oEs
    | _, _, _, _ => "bad-op"
  | _ => "bad-op"

def main : IO Unit := runDriver handle
