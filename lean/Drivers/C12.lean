import PyPhysim.Model.Proto
import PyPhysim.Model.C12
open PyPhysim.Proto PyPhysim.C12

/-!
Driver of the C12 model at exact rationals.

`wf gains=<p/q,...> P=<p/q> [N=<p/q>] [Es=<p/q>]`   (N / Es absent = argument left at its default 1.0)
   → `p=<p/q,...> mu=<p/q> kept=<k> margin=<p/q>`  |  `error:<PyErr>`
`hist fill=<p/q,...> call=<P>;<N>;<Es> fill=… call=… …`   (R16: one argument buffer, refilled in place between calls)
   → the replies of the calls in call order, joined by ` | `   (value of `PyPhysim.C12.runOpsRat [] ops`)

`p`, `mu` are the value of `PyPhysim.C12.doWFRat` (= `doWF` at `Rat`).  `kept` (number of non-zero entries of
`p`) and `margin` are bookkeeping for the harness only: `margin` is the smallest distance
`|sum(Ps) − P| / max(|sum(Ps)|, |P|, minMu)` over the loop tests the run performed; when
it is below 1e-9 the harness does not compare the discrete number of switched-off
channels (binary64 may legitimately decide a tie the other way; the allocation itself is
continuous there and is still compared).
-/

def ratAbs (x : Rat) : Rat := if x < 0 then -x else x
def ratMax (x y : Rat) : Rat := if x < y then y else x

/-- `(sum(Ps), minMu)` of every loop stage in `O(n)` from suffix sums:
    stage `w :: rest` has `sum(Ps) = (|rest|+1)·level w − Σ_{x ∈ w :: rest} level x` -/
def stageTests (N Es : Rat) (asc : List (Chan Rat)) : List (Rat × Rat) :=
  (asc.foldr (fun x (acc : Rat × Nat × List (Rat × Rat)) =>
      let l := level N Es x
      let s := acc.1 + l
      let k := acc.2.1 + 1
      (s, k, ((k : Rat) * l - s, l) :: acc.2.2)) (0, 0, [])).2.2

def margin (P : Rat) (tests : List (Rat × Rat)) (performed : Nat) : Rat :=
  (tests.take performed).foldl
    (fun m t => let d := ratAbs (t.1 - P) / ratMax (ratMax (ratAbs t.1) (ratAbs P)) (ratAbs t.2)
                if d < m then d else m) 1

/-- one result as a reply; `g P N Es` are used for the bookkeeping fields (margin) only -/
def showVal (g : List Rat) (P N Es : Rat) (r : Except PyErr (List Rat × Rat)) : String :=
  match r with
  | .error e => "error:" ++ toString e
  | .ok (p, mu) =>
    let k := (p.filter (fun x => x != 0)).length
    let performed := g.length - k + 1
    "p=" ++ showList showRat p ++ " mu=" ++ showRat mu ++ " kept=" ++ toString k
      ++ " margin=" ++ showRat (margin P (stageTests N Es (argsortAsc g)) performed)

def showRes (g : List Rat) (P : Rat) (oN oEs : Option Rat) : String :=
  -- `getD 1`: bookkeeping (margin) only; the value comes from `doWFCallRat`
  showVal g P (oN.getD 1) (oEs.getD 1) (doWFCallRat g P oN oEs)

/-- R16 history: tokens `fill=<p/q,...>` (refill the buffer in place) and `call=<P>;<N>;<Es>`,
    in the order the caller performs them -/
def parseOps? : List String → Option (List (Op Rat))
  | [] => some []
  | t :: rest =>
    if t.startsWith "fill=" then do
      let g ← parseRatList? (t.drop 5).toString
      let r ← parseOps? rest
      pure (.refill g :: r)
    else if t.startsWith "call=" then
      match (fields (t.drop 5).toString ";").mapM parseRat? with
      | some [P, N, Es] => (parseOps? rest).map (fun r => .call P N Es :: r)
      | _ => none
    else none

/-- the results are those of `runOpsRat` (the model's history function); the argument values
    (`callArgs`) only feed the bookkeeping fields -/
def showHist (ops : List (Op Rat)) : String :=
  " | ".intercalate
    (List.zipWith (fun (a : List Rat × Rat × Rat × Rat) r => showVal a.1 a.2.1 a.2.2.1 a.2.2.2 r)
      (callArgs [] ops) (runOpsRat [] ops))

/-- an optional `key=value`: absent → `some none` (argument left at its default),
    present and well formed → `some (some v)`, malformed → `none` -/
def optRat (toks : List String) (key : String) : Option (Option Rat) :=
  match kv toks key with
  | none => some none
  | some t => (parseRat? t).map some

def handle : List String → String
  | "wf" :: rest =>
    match (kv rest "gains").bind (parseRatList? ·), (kv rest "P").bind parseRat?,
          optRat rest "N", optRat rest "Es" with
    | some g, some P, some oN, some oEs => showRes g P oN oEs
    | _, _, _, _ => "bad-op"
  | "hist" :: rest =>
    match parseOps? rest with
    | some ops => showHist ops
    | none => "bad-op"
  | _ => "bad-op"

def main : IO Unit := runDriver handle
