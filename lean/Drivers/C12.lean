import PyPhysim.Model.Proto
import PyPhysim.Model.C12
open PyPhysim.Proto PyPhysim.C12

def ratAbs (x : Rat) : Rat := if x < 0 then -x else x
def ratMax (x y : Rat) : Rat := if x < y then y else x

/-- smallest distance |T - P| / max(|T|,|P|,minMu) over the loop tests actually
    performed (those up to and including the one that stopped the loop) -/
def margin (P : Rat) (tests : List (Rat × Rat)) (performed : Nat) : Rat :=
  (tests.take performed).foldl
    (fun m t => let d := ratAbs (t.1 - P) / ratMax (ratMax (ratAbs t.1) (ratAbs P)) (ratAbs t.2)
                if d < m then d else m) 1

def showRes (g : List Rat) (P N Es : Rat) : String :=
  match doWF g P N Es with
  | .error e => "error:" ++ toString e
  | .ok (p, mu) =>
    let asc := argsortAsc g
    let k := keptCount asc P N Es
    let performed := asc.length - k + 1
    "p=" ++ showList showRat p ++ " mu=" ++ showRat mu ++ " kept=" ++ toString k
      ++ " margin=" ++ showRat (margin P (loopTests N Es asc) performed)

def handle : List String → String
  | "wf" :: rest =>
    match (kv rest "gains").bind (parseRatList? ·), (kv rest "P").bind parseRat?,
          (kv rest "N").bind parseRat?, (kv rest "Es").bind parseRat? with
    | some g, some P, some N, some Es => showRes g P N Es
    | _, _, _, _ => "bad-op"
  | _ => "bad-op"

def main : IO Unit := runDriver handle
