import PyPhysim.Model.Proto
import PyPhysim.Model.C11
open PyPhysim.Proto PyPhysim.Sinr

/-!
Line-protocol driver of the C11 model, instantiated at binary64.

Complex matrices travel row-major, each scalar as two binary64 bit patterns
(`re,im`), comma separated; real numbers as one bit pattern; sizes decimal.

```
chan K=.. Nr=.. Nt=.. NtE=..|- Ns=.. mode=ic|jp ext=0|1 big=.. pl=..|none noise=..|none pe=.. F=.. U=..
   -> <calc_SINR: lists or error:Kind>|<calc_Q of every receiver>
solver K=.. Nr=.. Nt=.. NtE=..|- Ns=.. ext=0|1 big=.. pl=..|none noise=..|none F=.. P=..|none WH=..
   -> <calc_SINR>|<calc_SINR_in_dB>|<calc_sum_capacity>|<calc_Q of every receiver>
cap <floats>   -> calc_shannon_sum_capacity
cap2 r1;r2;..  -> calc_shannon_sum_capacity of a nested / multi-dimensional argument (rows)
q <as chan> k=<n> -> calc_Q / calc_JP_Q of the receiver whose index has the VALUE n (or error:IndexError)
```
-/

/-- binary64 complex number -/
structure CF where
  re : Float
  im : Float

instance : Zero CF := ⟨⟨0, 0⟩⟩
instance : One CF := ⟨⟨1, 0⟩⟩
instance : Add CF := ⟨fun a b => ⟨a.re + b.re, a.im + b.im⟩⟩
instance : Sub CF := ⟨fun a b => ⟨a.re - b.re, a.im - b.im⟩⟩
instance : Mul CF := ⟨fun a b => ⟨a.re * b.re - a.im * b.im, a.re * b.im + a.im * b.re⟩⟩
instance : Div CF := ⟨fun a b =>
  let d := b.re * b.re + b.im * b.im
  ⟨(a.re * b.re + a.im * b.im) / d, (a.im * b.re - a.re * b.im) / d⟩⟩
instance : BEq CF := ⟨fun a b => a.re == b.re && a.im == b.im⟩
instance : Conj CF := ⟨fun a => ⟨a.re, -a.im⟩⟩
instance : RC Float CF := ⟨fun x => ⟨x, 0⟩, fun z => Float.sqrt (z.re * z.re + z.im * z.im)⟩

instance : Zero Float := ⟨0.0⟩
instance : One Float := ⟨1.0⟩
instance : RFun Float := ⟨Float.sqrt, Float.log2, Float.log10⟩

def pairs : List Float → Option (List CF)
  | [] => some []
  | re :: im :: rest => (pairs rest).map (fun t => ⟨re, im⟩ :: t)
  | _ => none

def dash (s : String) : String := if s = "-" then "" else s

def parseC (s : String) : Option (Array CF) := do
  let fs ← parseFloatList? (dash s)
  let ps ← pairs fs
  some ps.toArray

def parseOptFloat (s : String) : Option (Option Float) :=
  if s = "none" then some none else (parseFloat? s).map some

def parseOptFloats (s : String) : Option (Option (Array Float)) :=
  if s = "none" then some none else (parseFloatList? (dash s)).map (fun l => some l.toArray)

def showC (z : CF) : String := showFloat z.re ++ "," ++ showFloat z.im

def showMat {m n : Nat} (A : Mat CF m n) : String :=
  ",".intercalate ((List.finRange m).flatMap (fun i => (List.finRange n).map (fun j => showC (A i j))))

def showLL (s : List (List Float)) : String :=
  ";".intercalate (s.map (fun r => ",".intercalate (r.map showFloat)))

def showE {β} (f : β → String) : Except PyErr β → String
  | .ok b => f b
  | .error e => "error:" ++ toString e

def sumTo (f : Nat → Nat) : Nat → Nat
  | 0 => 0
  | k+1 => sumTo f k + f k

/-- everything a request line carries -/
structure Scn where
  K : Nat
  Nr : Array Nat
  Nt : Array Nat
  NtE : Array Nat
  Ns : Array Nat
  jp : Bool
  ext : Bool
  big : Array CF
  pl : Option (Array Float)
  noise : Option Float
  pe : Float
  F : Array CF
  P : Option (Array Float)
  U : Array CF      -- `U` of the channel call, `full_W_H` of the solver
  -- computed once per request from the fields above (with the model's `offs`, `bigPL`)
  colsM : Nat := 0
  ntTotM : Nat := 0
  nteTotM : Nat := 0
  rOffA : Array Nat := #[]
  cOffA : Array Nat := #[]
  fOffA : Array Nat := #[]
  uOffA : Array Nat := #[]
  hArr : Array CF := #[]

def parseScn (toks : List String) : Option Scn := do
  let K ← (← kv toks "K").toNat?
  let Nr ← parseNatList? (← kv toks "Nr")
  let Nt ← parseNatList? (← kv toks "Nt")
  let NtE ← parseNatList? (dash (← kv toks "NtE"))
  let Ns ← parseNatList? (← kv toks "Ns")
  let jp := (kv toks "mode") == some "jp"
  let ext := (kv toks "ext") == some "1"
  let big ← parseC (← kv toks "big")
  let pl ← parseOptFloats (← kv toks "pl")
  let noise ← parseOptFloat (← kv toks "noise")
  let pe ← match kv toks "pe" with
    | some s => parseFloat? s
    | none => some 1.0
  let F ← parseC (← kv toks "F")
  let P ← match kv toks "P" with
    | some s => parseOptFloats s
    | none => some none
  let U ← parseC (← (kv toks "U").orElse (fun _ => kv toks "WH"))
  if Nr.length = K ∧ Nt.length = K ∧ Ns.length = K then
    let ntTot := Nt.foldl (· + ·) 0
    let nteTot := NtE.foldl (· + ·) 0
    let cols := ntTot + nteTot
    let rows := Nr.foldl (· + ·) 0
    let NrA := Nr.toArray
    let NtA := Nt.toArray
    let NsA := Ns.toArray
    let ntAll := Nt ++ NtE
    let raw : Nat → Nat → CF := fun r c => big.getD (r * cols + c) 0
    let plFun : Option (Nat → Nat → Float) :=
      pl.map (fun a => fun k j => a.getD (k * (K + NtE.length) + j) 1.0)
    let bigH := bigPL raw Nr ntAll plFun
    let prefixSums (f : Nat → Nat) : Array Nat :=
      (List.range (K + 1)).foldl (fun (acc : Array Nat) i =>
        acc.push (match acc.back? with
          | none => 0
          | some v => v + f (i - 1))) #[]
    some { K, Nr := NrA, Nt := NtA, NtE := NtE.toArray, Ns := NsA, jp, ext,
           big, pl, noise, pe, F, P, U,
           colsM := cols, ntTotM := ntTot, nteTotM := nteTot,
           rOffA := (Array.range (K + 1)).map (fun i => offs Nr i),
           cOffA := (Array.range (K + 1)).map (fun i => offs Nt i),
           fOffA := prefixSums (fun i => (if jp then ntTot else NtA.getD i 0) * NsA.getD i 0),
           uOffA := prefixSums (fun i => NrA.getD i 0 * NsA.getD i 0),
           hArr := (Array.range (rows * cols)).map (fun i => bigH (i / cols) (i % cols)) }
  else none

namespace Scn
variable (s : Scn)

def nr (k : Fin s.K) : Nat := s.Nr.getD k.val 0
def ns (k : Fin s.K) : Nat := s.Ns.getD k.val 0
def ntTot : Nat := s.ntTotM
def nteTot : Nat := s.nteTotM
def cols : Nat := s.colsM
/-- transmit dimension seen by precoder `j`: own antennas (IC) or all users' antennas (JP) -/
def t (j : Fin s.K) : Nat := if s.jp then s.ntTot else s.Nt.getD j.val 0
def colOff (j : Fin s.K) : Nat := if s.jp then 0 else s.cOffA.getD j.val 0

/-- `big_H` (the model's `bigPL` of the request, evaluated once per request) -/
def bigH : Nat → Nat → CF := fun r c => if c < s.cols then s.hArr.getD (r * s.cols + c) 0 else 0

/-- `get_Hkl(k, j)` (IC) / `get_Hk(k)`, `get_Hk_without_ext_int(k)` (JP) -/
def G (k : Fin s.K) (j : Fin s.K) : Mat CF (s.nr k) (s.t j) :=
  blockOf s.bigH (s.rOffA.getD k.val 0) (s.colOff j) (s.nr k) (s.t j)
/-- the external-interference columns of `big_H` at receiver `k` -/
def He (k : Fin s.K) : Mat CF (s.nr k) s.nteTot :=
  blockOf s.bigH (s.rOffA.getD k.val 0) s.ntTot (s.nr k) s.nteTot

def fOff (j : Nat) : Nat := s.fOffA.getD j 0
def V0 (j : Fin s.K) : Mat CF (s.t j) (s.ns j) :=
  fun a b => s.F.getD (s.fOff j.val + a.val * s.ns j + b.val) 0
def uOff (k : Nat) : Nat := s.uOffA.getD k 0
def Ucol (k : Fin s.K) : Mat CF (s.nr k) (s.ns k) :=
  fun a b => s.U.getD (s.uOff k.val + a.val * s.ns k + b.val) 0
def WH (k : Fin s.K) : Mat CF (s.ns k) (s.nr k) :=
  fun a b => s.U.getD (s.uOff k.val + a.val * s.nr k + b.val) 0

def chanReply : String :=
  let V := s.V0
  let rek : (k : Fin s.K) → Mat CF (s.nr k) (s.nr k) := fun k =>
    if s.ext then extRek (s.He k) s.pe s.noise else baseRek (s.nr k) s.noise
  let sinr : Except PyErr (List (List Float)) :=
    allStreams s.ns (fun k l => chSinr (s.G k) V k (s.Ucol k) (rek k) l)
  let q : (k : Fin s.K) → Mat CF (s.nr k) (s.nr k) := fun k =>
    if s.ext then extQ (s.G k) V k (s.He k) s.pe s.noise else chQ (s.G k) V k s.noise
  showE showLL sinr ++ "|" ++ ";".intercalate ((List.finRange s.K).map (fun k => showMat (q k)))

/-- `calc_Q(k, …)` / `calc_JP_Q(k, …)` for ONE receiver index given by its value -/
def qReply (k : Nat) : String :=
  let V := s.V0
  match indexArg s.K k with
  | .error e => "error:" ++ toString e
  | .ok kk =>
    showMat (if s.ext then extQ (s.G kk) V kk (s.He kk) s.pe s.noise else chQ (s.G kk) V kk s.noise)

def solverReply : String :=
  let V : (j : Fin s.K) → Mat CF (s.t j) (s.ns j) := match s.P with
    | none => s.V0
    | some p => fullF s.V0 (fun j => p.getD j.val 1.0)
  -- `IASolverBaseClass.noise_var`: `None` reads as `0.0`
  let nv : Float := solNoiseVar s.noise
  let rn : (k : Fin s.K) → Mat CF (s.nr k) (s.nr k) := fun k =>
    if s.ext then solRek (s.nr k) nv (some (s.He k)) else solRek (e := 0) (s.nr k) nv none
  let sinr : Except PyErr (List (List Float)) :=
    allStreams s.ns (fun k l => solSinr (s.G k) V k (s.WH k) (rn k) l)
  -- `calc_Q(k)` delegates to the channel object with the default `pe = 1.0`
  let q : (k : Fin s.K) → Mat CF (s.nr k) (s.nr k) := fun k =>
    if s.ext then extQ (s.G k) V k (s.He k) 1.0 s.noise else chQ (s.G k) V k s.noise
  showE showLL sinr ++ "|" ++ showE showLL (sinr.map sinrIndB) ++ "|" ++
    showE showFloat (sumCapacity sinr) ++ "|" ++
    ";".intercalate ((List.finRange s.K).map (fun k => showMat (q k)))

end Scn

def handle : List String → String
  | "chan" :: toks => match parseScn toks with
      | some s => s.chanReply
      | none => "bad-op"
  | "solver" :: toks => match parseScn toks with
      | some s => s.solverReply
      | none => "bad-op"
  | "q" :: toks => match parseScn toks, (kv toks "k").bind String.toNat? with
      | some s, some k => s.qReply k
      | _, _ => "bad-op"
  | ["cap", xs] => match parseFloatList? (dash xs) with
      | some l => showFloat (shannonSum l)
      | none => "bad-op"
  -- cap2 r1;r2;…  (rows of a nested argument, `-` = empty row)
  | ["cap2", xs] => match ((xs.splitOn ";").mapM (fun r => parseFloatList? (dash r))) with
      | some rows => showFloat (shannonSumNested rows)
      | none => "bad-op"
  | _ => "bad-op"

def main : IO Unit := runDriver handle
