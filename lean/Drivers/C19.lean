import PyPhysim.Model.Proto
import PyPhysim.Model.C19
import PyPhysim.Model.C19Cluster
import PyPhysim.Model.C19State
import PyPhysim.Model.C19Users
open PyPhysim.Proto PyPhysim.C19

instance : NatCast Float := ⟨Float.ofNat⟩

/-- what the harness can ask about one shape object -/
structure ShapeM where
  pos : Pt Float
  radius : Float
  verts : List (Pt Float)
  inside : Pt Float → Bool
  border : Pt Float → Float → Except PyErr (Pt Float)

def polyShape (pos : Pt Float) (radius : Float) (verts : List (Pt Float)) : ShapeM :=
  { pos := pos, radius := radius, verts := verts, inside := pnpoly verts,
    border := fun d ratio => borderPoint pos verts d ratio }

def rectShape (r : Rect Float) (radius : Float) (u : Pt Float) : ShapeM :=
  let verts := place r.pos u (rectVerts r)
  { pos := r.pos, radius := radius, verts := verts, inside := rectInside r u,
    border := fun d ratio => borderPoint r.pos verts d ratio }

/-- `<kind> <numbers…>`; returns the shape and the remaining tokens -/
def parseShape : List String → Option (ShapeM × List String)
  | "hex" :: r :: rt :: px :: py :: rest => do
      let r ← parseFloat? r; let rt ← parseFloat? rt; let px ← parseFloat? px; let py ← parseFloat? py
      some (polyShape (px, py) r (place (px, py) (Circ.cisDeg rt) (hexVerts r)), rest)
  | "sec3" :: r :: rt :: px :: py :: rest => do
      let r ← parseFloat? r; let rt ← parseFloat? rt; let px ← parseFloat? px; let py ← parseFloat? py
      some (polyShape (px, py) r (place (px, py) (Circ.cisDeg rt) (sec3Verts r)), rest)
  | "sector" :: r :: rt :: px :: py :: k :: rest => do     -- sector k (0,1,2) of a Cell3Sec
      let r ← parseFloat? r; let rt ← parseFloat? rt; let px ← parseFloat? px; let py ← parseFloat? py
      let k ← k.toNat?
      let c ← (secCentres r)[k]?
      let centre := padd (px, py) (rot (Circ.cisDeg rt) c)
      -- `Cell(sec_position, secradius, rotation = rotation - 30)`
      some (polyShape centre (secRadius r) (place centre (Circ.cisDeg (rt - 30.0)) (hexVerts (secRadius r))), rest)
  | "rect" :: fx :: fy :: sx :: sy :: rt :: rest => do
      let fx ← parseFloat? fx; let fy ← parseFloat? fy; let sx ← parseFloat? sx; let sy ← parseFloat? sy
      let rt ← parseFloat? rt
      let r := mkRect (fx, fy) (sx, sy)
      some (rectShape r (dist r.pos (sx, sy)) (Circ.cisDeg rt), rest)
  | "square" :: side :: rt :: px :: py :: rest => do
      let side ← parseFloat? side; let rt ← parseFloat? rt; let px ← parseFloat? px; let py ← parseFloat? py
      let r := mkSquare (px, py) side
      some (rectShape { r with pos := (px, py) } (Float.sqrt 2.0 * side / 2.0) (Circ.cisDeg rt), rest)
  | "circle" :: r :: px :: py :: rest => do
      let r ← parseFloat? r; let px ← parseFloat? px; let py ← parseFloat? py
      some ({ pos := (px, py), radius := r, verts := place (px, py) (1.0, 0.0) (circleVerts r),
              inside := circleInside (px, py) r,
              border := fun d ratio => .ok (circleBorderPoint (px, py) r d ratio) }, rest)
  | _ => none

def pairs {α} : List α → Option (List (α × α))
  | [] => some []
  | a :: b :: t => (pairs t).map (fun r => (a, b) :: r)
  | _ => none

def showPt (p : Pt Float) : String := showFloat p.1 ++ "," ++ showFloat p.2
def showPts (l : List (Pt Float)) : String := showList showPt l

def parsePts? (s : String) : Option (List (Pt Float)) :=
  if s == "-" then some [] else parseFloatList? s >>= pairs

/-- a query on one shape object: `verts`, `inside <pts>`, `border <ang> <ratio>`, `borderuser ..`,
    `randuser <ratio> <draws>`, `adduser <pt>` -/
def queryShape (sh : ShapeM) : List String → String
  | ["verts"] => showPts sh.verts
  | ["inside", q] => match parsePts? q with
      | some qs => showList (fun p => if sh.inside p then "1" else "0") qs
      | none => "bad-op"
  | ["border", ang, ratio] => match parseFloat? ang, parseFloat? ratio with
      | some ang, some ratio => match sh.border (Circ.cisDeg ang) ratio with
          | .ok p => showPt p
          | .error e => "error:" ++ toString e
      | _, _ => "bad-op"
  | ["borderuser", ang, ratio] => match parseFloat? ang, parseFloat? ratio with
      | some ang, some ratio => match validateRatio ratio 1e-15 with
          | .error e => "error:" ++ toString e
          | .ok r => match sh.border (Circ.cisDeg ang) r with
              | .ok p => showPt p
              | .error e => "error:" ++ toString e
      | _, _ => "bad-op"
  | ["randuser", ratio, us] => match parseFloat? ratio, parsePts? us with
      | some ratio, some us => match addRandomUser sh.inside sh.pos sh.radius ratio us with
          | some (p, n) => showPt p ++ " " ++ toString n
          | none => "none"
      | _, _ => "bad-op"
  | ["adduser", q] => match parsePts? q with
      | some [p] => match addUser sh.inside p with
          | .ok p => showPt p
          | .error e => "error:" ++ toString e
      | _ => "bad-op"
  | _ => "bad-op"

/-- the shape a stored cell state answers queries with -/
def shapeOfState (st : CellState Float) : ShapeM :=
  match st.kind with
  | .square => rectShape { pos := st.pos, lower := st.lower, upper := st.upper } st.radius (Circ.cisDeg st.rot)
  | _ => polyShape st.pos st.radius (stVerts st)

def parseKind? : String → Option CellKind
  | "hex" => some .hex | "sec3" => some .sec3 | "square" => some .square | _ => none

/-- `P:x:y` / `R:r` / `T:θ` / `M:dx:dy` / `Q:r:a` are the mutators of the cell, `U:x:y` adds a user at an
    absolute position, `B:ang:ratio` a border user, `D` deletes the users; `W:x:y` moves the wrapping
    `CellWrap` -/
def parseOps? (s : String) : Option (List (Sum (Call Float) (Pt Float))) :=
  if s == "-" then some [] else
  (fields s ",").mapM (fun t => match t.splitOn ":" with
    | ["P", x, y] => do let x ← parseFloat? x; let y ← parseFloat? y; some (.inl (.set (.setPos (x, y))))
    | ["R", r] => do let r ← parseFloat? r; some (.inl (.set (.setRadius r)))
    | ["T", t] => do let t ← parseFloat? t; some (.inl (.set (.setRot t)))
    | ["M", x, y] => do let x ← parseFloat? x; let y ← parseFloat? y; some (.inl (.set (.moveBy (x, y))))
    | ["Q", r, a] => do let r ← parseFloat? r; let a ← parseFloat? a; some (.inl (.set (.movePolar r a)))
    | ["U", x, y] => do let x ← parseFloat? x; let y ← parseFloat? y; some (.inl (.addUser (x, y)))
    | ["B", a, r] => do let a ← parseFloat? a; let r ← parseFloat? r; some (.inl (.borderUser a r))
    | ["D"] => some (.inl .deleteUsers)
    | ["W", x, y] => do let x ← parseFloat? x; let y ← parseFloat? y; some (.inr (x, y))
    | _ => none)

/-- initial state: `hex|sec3 px py R rot`, `square px py side rot` (the constructor's arguments) -/
def initState (k : CellKind) (p : Pt Float) (size rt : Float) : CellState Float :=
  match k with
  | .square => freshSquare p size rt
  | k => fresh k p size rt

def queryState (st : CellState Float) : List String → String
  | ["state"] => showPt st.pos ++ " " ++ showFloat st.radius ++ " " ++ showFloat st.rot
  | ["secinfo"] =>
      showList (fun (s : Sector Float) => showPt s.pos ++ "," ++ showFloat s.radius ++ "," ++ showFloat s.rot) st.secs ";"
  | "sector" :: k :: q => match k.toNat? >>= (st.secs[·]?) with
      | some s => queryShape (shapeOfState (sectorState s)) q
      | none => "error:RuntimeError"
  | q => queryShape (shapeOfState st) q

/-- `s:<x>` (one value for all cells) or `l:<x>,<x>,…` (per cell; `l:` alone is the empty list) -/
def parseArg? {β : Type} (f : String → Option β) (s : String) : Option (Arg β) :=
  if s.startsWith "s:" then (f (s.drop 2).toString).map .one
  else if s.startsWith "l:" then ((fields (s.drop 2).toString ",").mapM f).map .many
  else none

/-- the cells of a cluster as the placement model sees them -/
def clusterGeoms (ctype : String) (n : Nat) (r rt : Float) (pos : Pt Float) : Option (List (CellGeom Float)) :=
  let u := Circ.cisDeg rt
  match ctype with
  | "square" => match squareRaw r n with
      | .ok raw => some ((clusterCentres raw u pos).map (fun c =>
          { pos := c, radius := Float.sqrt 2.0 * r / 2.0, inside := rectInside (squareCell r c) u }))
      | .error _ => none
  | "3sec" => some ((clusterCentres (hexRaw r n) u pos).map (fun c =>
      { pos := c, radius := r, inside := pnpoly (place c u (sec3Verts r)) }))
  | "simple" => some ((clusterCentres (hexRaw r n) u pos).map (fun c =>
      { pos := c, radius := r, inside := pnpoly (place c u (hexVerts r)) }))
  | _ => none

def handleOther (toks : List String) : String :=
  match toks with
  | ["clusterusers", ctype, n, r, rt, px, py, ids, nums, ratios, us] =>
      match n.toNat?, parseFloat? r, parseFloat? rt, parseFloat? px, parseFloat? py,
            (if ids == "-" then some none else (parseNatList? ids).map some),
            parseArg? String.toNat? nums, parseArg? parseFloat? ratios, parsePts? us with
      | some n, some r, some rt, some px, some py, some ids, some nums, some ratios, some us =>
          match clusterGeoms ctype n r rt (px, py) with
          | none => "bad-op"
          | some cells =>
            match clusterAddRandomUsers cells ids nums (.one none) ratios us with
            | .error e => "error:" ++ toString e
            | .ok none => "none"
            | .ok (some (pl, _)) =>
                if pl.isEmpty then "-" else
                showList (fun (u : Placed Float) => toString u.cell ++ ":" ++ showPt u.pos) pl ";"
      | _, _, _, _, _, _, _, _, _ => "bad-op"
  | ["cluster", "hex", n, r, rt, px, py] =>
      match n.toNat?, parseFloat? r, parseFloat? rt, parseFloat? px, parseFloat? py with
      | some n, some r, some rt, some px, some py =>
          showPts (clusterCentres (hexRaw r n) (Circ.cisDeg rt) (px, py))
      | _, _, _, _, _ => "bad-op"
  | ["cluster", "square", n, side, rt, px, py] =>
      match n.toNat?, parseFloat? side, parseFloat? rt, parseFloat? px, parseFloat? py with
      | some n, some side, some rt, some px, some py =>
          match squareRaw side n with
          | .ok raw => showPts (clusterCentres raw (Circ.cisDeg rt) (px, py))
          | .error e => "error:" ++ toString e
      | _, _, _, _, _ => "bad-op"
  | ["clusterseq", spec] =>
      -- hexagonal clusters `n:R:rot:px:py;…` built one after the other THROUGH the class-level cache
      match (fields spec ";").mapM (fun t => match (t.splitOn ":") with
          | [n, r, rt, px, py] => do
              let n ← n.toNat?; let r ← parseFloat? r; let rt ← parseFloat? rt
              let px ← parseFloat? px; let py ← parseFloat? py
              some (n, r, (Circ.cisDeg rt : Pt Float), ((px, py) : Pt Float))
          | _ => none) with
      | some reqs => showList showPts (clusterSeq ([] : NormCache Float) reqs) "|"
      | none => "bad-op"
  | ["rotpts", ang, pts] => match parseFloat? ang, parsePts? pts with
      | some ang, some pts => if pts.isEmpty then "-" else showPts (pts.map (rot (Circ.cisDeg ang)))
      | _, _ => "bad-op"
  | ["distm", us, cs] => match parsePts? us, parsePts? cs with
      | some us, some cs => showList (fun row => showList showFloat row) (distMatrix us cs) ";"
      | _, _ => "bad-op"
  | ["ppcircle", rmax, rmin, us, vs] =>
      match parseFloat? rmax, parseFloat? rmin, parseFloatList? us, parseFloatList? vs with
      | some rmax, some rmin, some us, some vs =>
          showPts ((us.zip vs).map (fun uv => ppCirclePoint rmax rmin uv.1 uv.2))
      | _, _, _, _ => "bad-op"
  | ["pprect", w, h, us, vs] =>
      match parseFloat? w, parseFloat? h, parseFloatList? us, parseFloatList? vs with
      | some w, some h, some us, some vs =>
          showPts ((us.zip vs).map (fun uv => ppRectPoint w h uv.1 uv.2))
      | _, _, _, _ => "bad-op"
  | _ => "bad-op"

def handle (toks : List String) : String :=
  match toks with
  | "cellhist" :: "wrap" :: wx :: wy :: k :: px :: py :: size :: rt :: ops :: q =>
      match parseFloat? wx, parseFloat? wy, parseKind? k, parseFloat? px, parseFloat? py, parseFloat? size,
            parseFloat? rt, parseOps? ops with
      | some wx, some wy, some k, some px, some py, some size, some rt, some ops =>
          let (w, st) := ops.foldl (fun (acc : Pt Float × CellState Float) o => match o with
            | .inl (.set op) => (acc.1, step acc.2 op)
            | .inl _ => acc
            | .inr wp => (wp, acc.2)) ((wx, wy), initState k (px, py) size rt)
          let ws : WrapState Float := { pos := w, inner := st }
          queryShape (polyShape ws.pos st.radius (wrapVerts ws)) q
      | _, _, _, _, _, _, _, _ => "bad-op"
  | "cellhist" :: k :: px :: py :: size :: rt :: ops :: q =>
      match parseKind? k, parseFloat? px, parseFloat? py, parseFloat? size, parseFloat? rt, parseOps? ops with
      | some k, some px, some py, some size, some rt, some ops =>
          let calls := ops.filterMap (fun o => match o with | .inl c => some c | .inr _ => none)
          let o := callRun pnpoly 1e-15 { st := initState k (px, py) size rt, users := [] } calls
          match q with
          | ["users"] => if o.users.isEmpty then "-" else showPts o.users
          | q => queryState o.st q
      | _, _, _, _, _, _ => "bad-op"
  | op :: rest =>
    if op == "verts" || op == "inside" || op == "border" || op == "borderuser" || op == "randuser" || op == "adduser" then
      match parseShape rest with
      | some (sh, args) => queryShape sh (op :: args)
      | none => "bad-op"
    else handleOther toks
  | [] => "bad-op"

def main : IO Unit := runDriver handle
