import PyPhysim.Model.Proto
import PyPhysim.Model.C17
import PyPhysim.Model.C17Classes
open PyPhysim.Proto PyPhysim.C17

/-!
Line protocol of the C17 model driver.  Values travel as space separated prefix
tokens (see `harness/props/c17.py: tok`):

  N | T | F | i<int> | f<p>/<q> | fz | f+inf | f-inf | fnan | s<cp>.<cp>… |
  ni<0|1>:<width>:<int> | nf<width>:<p>/<q>|z|+inf|-inf|nan | nbT | nbF |
  L<k> v…  | S<k> v… | A<dtype>:<d1>x<d2>… data | D<k> (skey v)…
-/

def parseFloatBody (s : String) : Option PyFloat :=
  if s == "z" then some .negZero
  else if s == "+inf" then some .posInf
  else if s == "-inf" then some .negInf
  else if s == "nan" then some .nan
  else match s.splitOn "/" with
    | [p, q] => do
        let i ← p.toInt?
        let n ← q.toNat?
        some (.fin i n)
    | _ => none

def parseStrBody (s : String) : Option String :=
  if s.isEmpty then some ""
  else do
    let cps ← (s.splitOn ".").mapM String.toNat?
    some (String.ofList (cps.map Char.ofNat))

partial def parseVal : List String → Option (PyVal × List String)
  | [] => none
  | t :: rest =>
    if t == "N" then some (.none, rest)
    else if t == "T" then some (.bool true, rest)
    else if t == "F" then some (.bool false, rest)
    else if t.startsWith "ni" then
      match ((t.drop 2).toString.splitOn ":") with
      | [sg, w, i] => do
          let w ← w.toNat?
          let i ← i.toInt?
          some (.npint (sg == "1") w i, rest)
      | _ => none
    else if t.startsWith "nf" then
      match ((t.drop 2).toString.splitOn ":") with
      | [w, b] => do
          let w ← w.toNat?
          let f ← parseFloatBody b
          some (.npfloat w f, rest)
      | _ => none
    else if t == "nbT" then some (.npbool true, rest)
    else if t == "nbF" then some (.npbool false, rest)
    else if t.startsWith "i" then (t.drop 1).toString.toInt?.map (fun i => (.int i, rest))
    else if t.startsWith "f" then (parseFloatBody (t.drop 1).toString).map (fun f => (.float f, rest))
    else if t.startsWith "s" then (parseStrBody (t.drop 1).toString).map (fun s => (.str s, rest))
    else if t.startsWith "L" then do
      let k ← (t.drop 1).toString.toNat?
      let (xs, rest) ← parseMany k rest
      some (.list xs, rest)
    else if t.startsWith "S" then do
      let k ← (t.drop 1).toString.toNat?
      let (xs, rest) ← parseMany k rest
      some (.set xs, rest)
    else if t.startsWith "A" then
      match ((t.drop 1).toString.splitOn ":") with
      | [dt, sh] => do
          let shape ← (fields sh "x").mapM String.toNat?
          let (d, rest) ← parseVal rest
          some (.ndarray dt shape d, rest)
      | _ => none
    else if t.startsWith "D" then do
      let k ← (t.drop 1).toString.toNat?
      let (kvs, rest) ← parseKVs k rest
      some (.dict kvs, rest)
    else none
where
  parseMany : Nat → List String → Option (List PyVal × List String)
    | 0, rest => some ([], rest)
    | k + 1, toks => do
        let (v, rest) ← parseVal toks
        let (vs, rest) ← parseMany k rest
        some (v :: vs, rest)
  parseKVs : Nat → List String → Option (List (String × PyVal) × List String)
    | 0, rest => some ([], rest)
    | k + 1, toks => do
        let (kv, rest) ← parseVal toks
        let (v, rest) ← parseVal rest
        let (r, rest) ← parseKVs k rest
        match kv with
        | .str s => some ((s, v) :: r, rest)
        | _ => none

def showFloatBody : PyFloat → String
  | .fin n d => toString n ++ "/" ++ toString d
  | .negZero => "z" | .posInf => "+inf" | .negInf => "-inf" | .nan => "nan"

def showStr (s : String) : String := "s" ++ ".".intercalate (s.toList.map (fun c => toString c.toNat))

partial def showVal : PyVal → String
  | .none => "N"
  | .bool b => if b then "T" else "F"
  | .int i => "i" ++ toString i
  | .float f => "f" ++ showFloatBody f
  | .str s => showStr s
  | .npint sg w i => "ni" ++ (if sg then "1" else "0") ++ ":" ++ toString w ++ ":" ++ toString i
  | .npfloat w f => "nf" ++ toString w ++ ":" ++ showFloatBody f
  | .npbool b => if b then "nbT" else "nbF"
  | .list xs => " ".intercalate (("L" ++ toString xs.length) :: xs.map showVal)
  | .set xs =>
      let ts := (xs.map showVal).mergeSort (fun a b => !(decide (b < a)))
      " ".intercalate (("S" ++ toString xs.length) :: ts)
  | .ndarray dt sh d => "A" ++ dt ++ ":" ++ "x".intercalate (sh.map toString) ++ " " ++ showVal d
  | .dict kvs =>
      -- canonical form: entries sorted (the key order of a dict is not part of what is compared)
      let ts := (kvs.map (fun (k, v) => showStr k ++ " " ++ showVal v)).mergeSort (fun a b => !(decide (b < a)))
      " ".intercalate (("D" ++ toString kvs.length) :: ts)

/-- canonical form of an encoded JSON tree: the element order of an encoded set
    (`{"data": […], "_is_set": true}`; iteration order of a Python set) is not
    part of what is compared -/
partial def canonSets : PyVal → PyVal
  | .list xs => .list (xs.map canonSets)
  | .dict kvs =>
    let kvs : List (String × PyVal) := kvs.map (fun (k, v) => (k, canonSets v))
    match (lookup "_is_set" kvs : Option PyVal), (lookup "data" kvs : Option PyVal) with
    | some (.bool true), some (.list xs) =>
      let sorted := (xs.map (fun x => (showVal x, x))).mergeSort (fun a b => !(decide (b.1 < a.1)))
      .dict (kvs.map (fun (k, v) => if k == "data" then (k, .list (sorted.map (·.2))) else (k, v)))
    | _, _ => .dict kvs
  | v => v

def showTree (j : Json) : String := showVal (canonSets j.toVal)

def showErr : Err → String
  | .py e => "error:" ++ toString e
  | .unmodelled => "unmodelled"

def showR {α : Type} (f : α → String) : R α → String
  | .ok a => "ok " ++ f a
  | .error e => showErr e

def b01 (b : Bool) : String := if b then "1" else "0"

/-! composite inputs are sent as plain values and converted here -/

def nodeOfVal : PyVal → Option Node
  | .list [.dict ps, .list us, .int i] => (strList us).map (fun names => { parameters := ps, unpacked := names, unpackIndex := i })
  | _ => none

def chainOfVal : PyVal → Option Chain
  | .list xs => xs.mapM nodeOfVal
  | _ => none

def resultOfVal : PyVal → Option Result
  | .list [.str name, .int t, value, total, rs, rq, nu, .bool acc, .list vl, .list tl] =>
      some { name := name, typeCode := t, value := value, total := total, resultSum := rs, resultSqSum := rq,
             numUpdates := nu, acc := acc, valueList := vl, totalList := tl }
  | _ => none

def resultKVsOfVal : List (String × PyVal) → Option (List (String × List Result))
  | [] => some []
  | (n, .list rs) :: rest => do
      let rs ← rs.mapM resultOfVal
      let r ← resultKVsOfVal rest
      some ((n, rs) :: r)
  | _ => none

def simOfVal : PyVal → Option SimResults
  | .list [.dict rd, ch, rr, ofn, cr] => do
      let results ← resultKVsOfVal rd
      let params ← chainOfVal ch
      some { results := results, params := params, runnedReps := rr, originalFilename := ofn, currentRep := cr }
  | _ => none

def segsOfVal : PyVal → Option (List Seg)
  | .list xs => xs.mapM (fun x => match x with
      | .list [.str "lit", .str s] => some (Seg.lit s)
      | .list [.str "field", .str s] => some (Seg.field s)
      | _ => none)
  | _ => none

/-- float renderings supplied by the harness (CPython/numpy `repr`): list of
    `[width, float, text]` -/
def frOfVal (tbl : PyVal) : Nat → PyFloat → String := fun w f =>
  match tbl with
  | .list xs =>
    (xs.findSome? (fun x => match x with
      | .list [.int w', .float f', .str s] => if w' == (w : Int) && f' == f then some s else none
      | _ => none)).getD "?"
  | _ => "?"

def goodResultB (r : Result) : Bool :=
  if r.typeCode == 3 then
    match r.value, r.total, r.numUpdates, r.resultSum, r.resultSqSum with
    | .ndarray dt [n] (.list cs), .int t, .int nu, .float (.fin 0 1), .float (.fin 0 1) =>
      match intList cs with
      | some counts => dt == "int64" && n == counts.length && counts.all (· ≥ 0)
          && t == ((natSum (counts.map Int.toNat) : Nat) : Int) && nu == t && wfList r.valueList
          && r.totalList.isEmpty
      | none => false
    | _, _, _, _, _ => false
  else wfResult r

/-- executable form of `goodSim` (the hypotheses of `simresults_roundtrip`) -/
def wfSim (s : SimResults) : Bool :=
  !s.params.isEmpty && wfChain s.params && wf s.runnedReps && wf s.originalFilename && wf s.currentRep
    && s.results.all (fun p => !reserved p.1 && p.2.all goodResultB)

def handle (toks : List String) : String :=
  match toks with
  | "json" :: rest =>
    match parseVal rest with
    | some (v, []) => "wf=" ++ b01 (wf v) ++ " " ++ showR showVal (dec (enc v))
    | _ => "bad-op"
  | "enc" :: rest =>
    match parseVal rest with
    | some (v, []) => showTree (enc v)
    | _ => "bad-op"
  | "norm" :: rest =>
    match parseVal rest with
    | some (v, []) => showVal (norm v)
    | _ => "bad-op"
  | "params" :: fuel :: rest =>
    match fuel.toNat?, parseVal rest with
    | some fuel, some (v, []) =>
      match chainOfVal v with
      | some c => "wf=" ++ b01 (wfChain c) ++ " " ++ showR (fun c => showVal (paramsToDict c)) (paramsFromJson fuel (paramsToJson c))
      | none => "bad-op"
    | _, _ => "bad-op"
  | "paramsops" :: fuel :: rest =>
    -- L2: chain, list of operations [level, op, name (, value)] applied before the round trip
    match fuel.toNat?, parseVal rest with
    | some fuel, some (.list [cv, .list opsv], []) =>
      let ops : Option (List (Nat × POp)) := opsv.mapM (fun o => match o with
        | .list [.int l, .str "set", .str k, v] => some (l.toNat, POp.set k v)
        | .list [.int l, .str "remove", .str k] => some (l.toNat, POp.remove k)
        | .list [.int l, .str "mark", .str k] => some (l.toNat, POp.mark k)
        | .list [.int l, .str "unmark", .str k] => some (l.toNat, POp.unmark k)
        | _ => none)
      match chainOfVal cv, ops with
      | some c, some ops =>
        match applyOps c ops with
        | .error e => "ops " ++ showErr e
        | .ok c' => "wf=" ++ b01 (wfChain c') ++ " " ++ "tree=" ++ showTree (paramsToJson c') ++ " loaded=" ++
            showR (fun c => showVal (paramsToDict c)) (paramsFromJson fuel (paramsToJson c'))
      | _, _ => "bad-op"
    | _, _ => "bad-op"
  | "paramsenc" :: rest =>
    match parseVal rest with
    | some (v, []) =>
      match chainOfVal v with
      | some c => showTree (paramsToJson c)
      | none => "bad-op"
    | _ => "bad-op"
  | "result" :: rest =>
    match parseVal rest with
    | some (v, []) =>
      match resultOfVal v with
      | some r => "good=" ++ b01 (goodResultB r) ++ " " ++ showR (fun r => showVal (resultToDict r)) (resultFromJson (resultToJson r))
      | none => "bad-op"
    | _ => "bad-op"
  | "resultenc" :: rest =>
    match parseVal rest with
    | some (v, []) =>
      match resultOfVal v with
      | some r => showTree (resultToJson r)
      | none => "bad-op"
    | _ => "bad-op"
  | "sim" :: fuel :: rest =>
    match fuel.toNat?, parseVal rest with
    | some fuel, some (v, []) =>
      match simOfVal v with
      | some s => "wf=" ++ b01 (wfSim s) ++ " " ++ showR (fun s => showVal (simToDict s)) (simFromJson fuel (simToJson s))
      | none => "bad-op"
    | _, _ => "bad-op"
  | "simenc" :: rest =>
    match parseVal rest with
    | some (v, []) =>
      match simOfVal v with
      | some s => showTree (simToJson s)
      | none => "bad-op"
    | _ => "bad-op"
  | "choice" :: rest =>
    -- L4: name, acc, n, ops
    match parseVal rest with
    | some (.list [.str name, .bool acc, .int n, .list ops], []) =>
      showR (fun c => showVal (resultToDict c.toResult)) (runChoice (choiceInit name acc n.toNat) ops)
    | _ => "bad-op"
  | "fname" :: rest =>
    -- L4: env dict, template text, segments, float renderings
    match parseVal rest with
    | some (.list [.dict env, .str txt, segs, tbl], []) =>
      match segsOfVal segs with
      | some sg => showR showStr (getFilename (frOfVal tbl) env txt sg)
      | none => "bad-op"
    | _ => "bad-op"
  | "file" :: fuel :: rest =>
    -- L6: sim, template text (without extension), segments, extension, float renderings, load extension
    match fuel.toNat?, parseVal rest with
    | some fuel, some (.list [sv, .str txt, segs, .str ext, tbl], []) =>
      match simOfVal sv, segsOfVal segs with
      | some s, some sg =>
        match saveStep (frOfVal tbl) [] s txt sg ext with
        | ((st, s'), .ok f) =>
          "ok name=" ++ showStr (f.stem ++ f.ext) ++ " orig=" ++ showVal s'.originalFilename ++ " loaded=" ++
            showR (fun s => showVal (simToDict s)) (loadFromFile fuel st f)
        | ((st, s'), .error e) =>
          -- rejected call: the state after it (object and number of files)
          showErr e ++ " state=" ++ showVal (simToDict s') ++ " files=" ++ toString st.length
      | _, _ => "bad-op"
    | _, _ => "bad-op"
  | "file2" :: fuel :: rest =>
    -- R15 / R16: one long-lived object saved twice under one template into one folder, its state
    -- before the first save and (after a setter / an in-place refill) before the second one;
    -- both files are loaded after the second save.
    -- L6: sim before save 1, sim before save 2, template text, segments, extension, float renderings
    match fuel.toNat?, parseVal rest with
    | some fuel, some (.list [sv1, sv2, .str txt, segs, .str ext, tbl], []) =>
      match simOfVal sv1, simOfVal sv2, segsOfVal segs with
      | some s1, some s2, some sg =>
        match saveStep (frOfVal tbl) [] s1 txt sg ext with
        | ((st1, _), .ok f1) =>
          match saveStep (frOfVal tbl) st1 s2 txt sg ext with
          | ((st2, _), .ok f2) =>
            "ok name1=" ++ showStr (f1.stem ++ f1.ext) ++ " name2=" ++ showStr (f2.stem ++ f2.ext) ++
              " loaded1=" ++ showR (fun s => showVal (simToDict s)) (loadFromFile fuel st2 f1) ++
              " loaded2=" ++ showR (fun s => showVal (simToDict s)) (loadFromFile fuel st2 f2)
          | (_, .error e) => "second " ++ showErr e
        | (_, .error e) => "first " ++ showErr e
      | _, _, _ => "bad-op"
    | _, _ => "bad-op"
  | _ => "bad-op"

def main : IO Unit := runDriver handle
