import PyPhysim.Proofs.C11Sinr
import PyPhysim.Proofs.C11Q
import PyPhysim.Proofs.C11Agg
import PyPhysim.Proofs.C11Views
import PyPhysim.Proofs.C11Close
import PyPhysim.Proofs.C11Gen

/-!
# C11 — reported SINRs equal first-principles signal over interference-plus-noise

Property theorems only.  All statements are about the executable model
`PyPhysim.Sinr` (`Model/C11.lean`) instantiated at `ℂ` / `ℝ`; the correspondence
check of `harness/props/c11.py` ties the same definitions, compiled at binary64,
to `multiuser.py` (both channel classes, interference-channel and joint-processing
variants) and to `iabase.py` (the IA solver).

One receiver `k` at a time: `n` receive antennas, `G j : n × T j` the channel the
streams of user `j` arrive through (`get_Hkl(k, j)`; in the joint-processing
variants `get_Hk(k)` for every `j`, so `T j` is the total number of transmit
antennas), `V j : T j × S j` the precoder of user `j` with the transmit power
included, `Uk : n × S k` the receive filters of user `k` (one column per stream,
before the conjugate transpose).  Nothing is assumed about `K`, the antenna and
stream numbers, the channel, the precoders or the filters: in particular the
precoders are NOT assumed to align interference.

First-principles quantities (`Proofs/C11Spec.lean`, scalar sums only):
`sigPow = |uᴴ H_kk f_l|²`, `intfPow = Σ_{(j,d) ≠ (k,l)} |uᴴ H_kj f_jd|²`,
`extPow = pe Σ_i |uᴴ h_i|²`, `noisePow = σ² ‖u‖²`.
-/
namespace PyPhysim.C11
open Matrix PyPhysim.Proto PyPhysim.Sinr PyPhysim.Sinr.Spec PyPhysim.Sinr.Pf
open scoped ComplexOrder

variable {K n e : Nat} {T S : Fin K → Nat}

/-! ### the identity everything rests on -/

/-- **Gram quadratic form**: for the covariance term of one link as the code forms it (both
    associations: `H (V Vᴴ) Hᴴ` of the channel object, `(H V)(H V)ᴴ` of the solver and of
    `calc_Q`), `uᴴ (H V Vᴴ Hᴴ) u = Σ_d |uᴴ H v_d|²`. -/
theorem quad_form_gram {t s : Nat} (G : Mat ℂ n t) (V : Mat ℂ t s) (u : Mat ℂ n 1) :
    sinrDen (cT u) u (covTerm G V) =
      ((∑ d, Complex.normSq (amp (fun a => u a 0) G (fun b => V b d)) : ℝ) : ℂ) ∧
    sinrDen (cT u) u (covTermS G V) =
      ((∑ d, Complex.normSq (amp (fun a => u a 0) G (fun b => V b d)) : ℝ) : ℂ) := by
  have hf : IsFilt (cT u) u (fun a => u a 0) := ⟨fun _ => rfl, fun _ => rfl⟩
  exact ⟨by rw [sinrDen_eq, toM_covTerm, qf_link hf], by rw [sinrDen_eq, toM_covTermS, qf_link hf]⟩

/-! ### the channel object (`MultiUserChannelMatrix`, `MultiUserChannelMatrixExtInt`) -/

/-- **SINR = first principles** (plain channel object, `calc_SINR` and — with `G j = H_k` —
    `calc_JP_SINR`): whenever the interference-plus-noise power is not zero, the reported
    value is the power of the desired stream after the receive filter divided by the power
    of all other streams of all users plus the filtered noise.  `noise = none` is
    `noise_var = None`; the setter of `noise_var` enforces `≥ 0`. -/
theorem sinr_first_principles (G : (j : Fin K) → Mat ℂ n (T j)) (V : (j : Fin K) → Mat ℂ (T j) (S j))
    (k : Fin K) (Uk : Mat ℂ n (S k)) (noise : Option ℝ) (l : Fin (S k))
    (hσ : ∀ v, noise = some v → 0 ≤ v)
    (hden : intfPow G V (filt Uk l) k l + noisePow (noiseVar noise) (filt Uk l) ≠ 0) :
    (chSinr G V k Uk (baseRek n noise) l : Except PyErr ℝ) =
      .ok (sigPow G V (filt Uk l) k l /
        (intfPow G V (filt Uk l) k l + noisePow (noiseVar noise) (filt Uk l))) := by
  rw [chSinr_eq G V k Uk _ l _ (qf_baseRek (isFilt_channel Uk l) noise)]
  exact ite_ok_of_pos (streamPow_nonneg _ _ _ _ _)
    (add_nonneg (intfPow_nonneg _ _ _ _ _) (noisePow_nonneg (noiseVar_nonneg hσ) _)) hden

/-- **SINR = first principles with external interference**
    (`MultiUserChannelMatrixExtInt.calc_SINR` / `calc_JP_SINR`): the denominator also
    contains the power `pe Σ_i |uᴴ h_i|²` of the external sources (`He` = the external
    columns of `big_H` at this receiver). -/
theorem sinr_first_principles_extint (G : (j : Fin K) → Mat ℂ n (T j))
    (V : (j : Fin K) → Mat ℂ (T j) (S j)) (k : Fin K) (Uk : Mat ℂ n (S k)) (He : Mat ℂ n e) (pe : ℝ)
    (noise : Option ℝ) (l : Fin (S k)) (hpe : 0 ≤ pe) (hσ : ∀ v, noise = some v → 0 ≤ v)
    (hden : intfPow G V (filt Uk l) k l +
      (extPow He pe (filt Uk l) + noisePow (noiseVar noise) (filt Uk l)) ≠ 0) :
    (chSinr G V k Uk (extRek He pe noise) l : Except PyErr ℝ) =
      .ok (sigPow G V (filt Uk l) k l /
        (intfPow G V (filt Uk l) k l +
          (extPow He pe (filt Uk l) + noisePow (noiseVar noise) (filt Uk l)))) := by
  rw [chSinr_eq G V k Uk _ l _ (qf_extRek (isFilt_channel Uk l) He pe noise)]
  exact ite_ok_of_pos (streamPow_nonneg _ _ _ _ _)
    (add_nonneg (intfPow_nonneg _ _ _ _ _)
      (add_nonneg (extPow_nonneg He hpe _) (noisePow_nonneg (noiseVar_nonneg hσ) _))) hden

/-- the excluded case, recorded: when interference, external interference and noise power
    add up to exactly zero the code divides Python scalars and raises `ZeroDivisionError`
    (both channel classes; no sign condition needed). -/
theorem sinr_zero_denominator (G : (j : Fin K) → Mat ℂ n (T j)) (V : (j : Fin K) → Mat ℂ (T j) (S j))
    (k : Fin K) (Uk : Mat ℂ n (S k)) (He : Mat ℂ n e) (pe : ℝ) (noise : Option ℝ) (l : Fin (S k)) :
    (intfPow G V (filt Uk l) k l + noisePow (noiseVar noise) (filt Uk l) = 0 →
      (chSinr G V k Uk (baseRek n noise) l : Except PyErr ℝ) = .error .ZeroDivisionError) ∧
    (intfPow G V (filt Uk l) k l + (extPow He pe (filt Uk l) + noisePow (noiseVar noise) (filt Uk l)) = 0 →
      (chSinr G V k Uk (extRek He pe noise) l : Except PyErr ℝ) = .error .ZeroDivisionError) := by
  constructor
  · intro h
    rw [chSinr_eq G V k Uk _ l _ (qf_baseRek (isFilt_channel Uk l) noise), if_pos h]
  · intro h
    rw [chSinr_eq G V k Uk _ l _ (qf_extRek (isFilt_channel Uk l) He pe noise), if_pos h]

/-- a single user sending a single stream without noise (`noise_var` `None` or `0`) and
    without external interference has nothing in the denominator: `calc_SINR` raises. -/
theorem lone_stream_without_noise_raises (t : Nat) (G : Mat ℂ n t) (V : Mat ℂ t 1) (U : Mat ℂ n 1)
    (noise : Option ℝ) (hn : noise = none ∨ noise = some 0) :
    (chSinr (K := 1) (T := fun _ => t) (S := fun _ => 1) (fun _ => G) (fun _ => V) 0 U
      (baseRek n noise) 0 : Except PyErr ℝ) = .error .ZeroDivisionError := by
  refine (sinr_zero_denominator (K := 1) (T := fun _ => t) (S := fun _ => 1) (e := 0) (fun _ => G)
    (fun _ => V) 0 U (fun _ i => i.elim0) 0 noise 0).1 ?_
  have h0 : noiseVar noise = 0 := by rcases hn with h | h <;> subst h <;> rfl
  rw [h0, noisePow_zero, add_zero, intfPow]
  refine Finset.sum_eq_zero (fun x hx => absurd ?_ (Finset.ne_of_mem_erase hx))
  rcases x with ⟨j, d⟩
  have hj : j = 0 := Subsingleton.elim _ _
  subst hj
  have hd : d = 0 := Subsingleton.elim _ _
  subst hd
  rfl

/-- **non-negative**: whatever the inputs, a reported SINR is `≥ 0`. -/
theorem sinr_nonneg (G : (j : Fin K) → Mat ℂ n (T j)) (V : (j : Fin K) → Mat ℂ (T j) (S j))
    (k : Fin K) (Uk : Mat ℂ n (S k)) (WHk : Mat ℂ (S k) n) (Rek : Mat ℂ n n) (l : Fin (S k)) (x : ℝ) :
    ((chSinr G V k Uk Rek l : Except PyErr ℝ) = .ok x → 0 ≤ x) ∧
    ((solSinr G V k WHk Rek l : Except PyErr ℝ) = .ok x → 0 ≤ x) := by
  exact ⟨fun h => sinrCore_ok_nonneg _ _ _ _ _ x h, fun h => sinrCore_ok_nonneg _ _ _ _ _ x h⟩

/-- **rescaling a receive filter changes nothing**: multiplying the filter of stream `l`
    by any `c ≠ 0` leaves the reported value of every stream `l'` of that user (value or
    `ZeroDivisionError`) exactly where it was — for every matrix `Rek` of external
    interference plus noise, both channel classes, IC and JP. -/
theorem sinr_scale_invariant (G : (j : Fin K) → Mat ℂ n (T j)) (V : (j : Fin K) → Mat ℂ (T j) (S j))
    (k : Fin K) (Uk : Mat ℂ n (S k)) (Rek : Mat ℂ n n) (l l' : Fin (S k)) (c : ℂ) (hc : c ≠ 0) :
    (chSinr G V k (scaleCol Uk l c) Rek l' : Except PyErr ℝ) = chSinr G V k Uk Rek l' := by
  by_cases h : l' = l
  · subst h
    unfold chSinr
    rw [cT_colOf_scaleCol_self, colOf_scaleCol_self]
    exact sinrCore_scale _ _ _ _ _ c hc
  · simp only [chSinr, colOf_scaleCol_other _ _ _ _ h]

/-- the joint-processing variant is the same function read with `G j = H_k` for every `j`
    (all users' antennas transmit every precoder): first-principles form of `calc_JP_SINR`. -/
theorem jp_sinr_first_principles (NtTot : Nat) (Hk : Mat ℂ n NtTot) (V : (j : Fin K) → Mat ℂ NtTot (S j))
    (k : Fin K) (Uk : Mat ℂ n (S k)) (He : Mat ℂ n e) (pe : ℝ) (noise : Option ℝ) (l : Fin (S k))
    (hpe : 0 ≤ pe) (hσ : ∀ v, noise = some v → 0 ≤ v)
    (hden : intfPow (T := fun _ => NtTot) (fun _ => Hk) V (filt Uk l) k l +
      (extPow He pe (filt Uk l) + noisePow (noiseVar noise) (filt Uk l)) ≠ 0) :
    (chSinr (T := fun _ => NtTot) (fun _ => Hk) V k Uk (extRek He pe noise) l : Except PyErr ℝ) =
      .ok (Complex.normSq (amp (filt Uk l) Hk (fun b => V k b l)) /
        (intfPow (T := fun _ => NtTot) (fun _ => Hk) V (filt Uk l) k l +
          (extPow He pe (filt Uk l) + noisePow (noiseVar noise) (filt Uk l)))) :=
  sinr_first_principles_extint (T := fun _ => NtTot) (fun _ => Hk) V k Uk He pe noise l hpe hσ hden

/-! ### the IA solver (`IASolverBaseClass`) -/

/-- **solver SINR = first principles**: `WHk` is `full_W_H[k]` (any matrix — the result of
    the `np.linalg.solve` kernel is not constrained), `σ2` the solver's `noise_var`
    (`None` reads as `0`), `ext` the external columns when the channel object has external
    sources (then they enter at the channel object's default power `pe = 1`). -/
theorem solver_sinr_first_principles (G : (j : Fin K) → Mat ℂ n (T j))
    (V : (j : Fin K) → Mat ℂ (T j) (S j)) (k : Fin K) (WHk : Mat ℂ (S k) n) (σ2 : ℝ) (He : Mat ℂ n e)
    (l : Fin (S k)) (hσ : 0 ≤ σ2) :
    (intfPow G V (filtH WHk l) k l + noisePow σ2 (filtH WHk l) ≠ 0 →
      (solSinr G V k WHk (solRek (e := 0) n σ2 none) l : Except PyErr ℝ) =
        .ok (sigPow G V (filtH WHk l) k l /
          (intfPow G V (filtH WHk l) k l + noisePow σ2 (filtH WHk l)))) ∧
    (intfPow G V (filtH WHk l) k l + (extPow He 1 (filtH WHk l) + noisePow σ2 (filtH WHk l)) ≠ 0 →
      (solSinr G V k WHk (solRek n σ2 (some He)) l : Except PyErr ℝ) =
        .ok (sigPow G V (filtH WHk l) k l /
          (intfPow G V (filtH WHk l) k l + (extPow He 1 (filtH WHk l) + noisePow σ2 (filtH WHk l))))) := by
  constructor
  · intro hden
    rw [solSinr_eq G V k WHk _ l _ (qf_solRek_none (isFilt_solver WHk l) σ2)]
    exact ite_ok_of_pos (streamPow_nonneg _ _ _ _ _)
      (add_nonneg (intfPow_nonneg _ _ _ _ _) (noisePow_nonneg hσ _)) hden
  · intro hden
    rw [solSinr_eq G V k WHk _ l _ (qf_solRek_some (isFilt_solver WHk l) σ2 He)]
    exact ite_ok_of_pos (streamPow_nonneg _ _ _ _ _)
      (add_nonneg (intfPow_nonneg _ _ _ _ _)
        (add_nonneg (extPow_nonneg He zero_le_one _) (noisePow_nonneg hσ _))) hden

/-- the excluded case on the solver side, recorded: when interference, external
    interference and noise power add up to exactly zero the solver's entry has no value —
    the outcome tagged `.error .ZeroDivisionError`, which in `iabase.py` is a NON-FINITE
    number (`np.divide`: `inf` for `x/0`, `nan` for `0/0`), not an exception; and
    `calc_SINR` of the solver still delivers every other entry (`eachStream` is the plain
    entrywise map, nothing is short-circuited). -/
theorem solver_zero_denominator_nonfinite (G : (j : Fin K) → Mat ℂ n (T j))
    (V : (j : Fin K) → Mat ℂ (T j) (S j)) (k : Fin K) (WHk : Mat ℂ (S k) n) (σ2 : ℝ) (He : Mat ℂ n e)
    (l : Fin (S k)) (f : (k : Fin K) → Fin (S k) → Except PyErr ℝ) :
    (intfPow G V (filtH WHk l) k l + noisePow σ2 (filtH WHk l) = 0 →
      (solSinr G V k WHk (solRek (e := 0) n σ2 none) l : Except PyErr ℝ) = .error .ZeroDivisionError) ∧
    (intfPow G V (filtH WHk l) k l + (extPow He 1 (filtH WHk l) + noisePow σ2 (filtH WHk l)) = 0 →
      (solSinr G V k WHk (solRek n σ2 (some He)) l : Except PyErr ℝ) = .error .ZeroDivisionError) ∧
    (eachStream S f)[k.val]? = some ((List.finRange (S k)).map (f k)) := by
  refine ⟨fun h => ?_, fun h => ?_, ?_⟩
  · rw [solSinr_eq G V k WHk _ l _ (qf_solRek_none (isFilt_solver WHk l) σ2), if_pos h]
  · rw [solSinr_eq G V k WHk _ l _ (qf_solRek_some (isFilt_solver WHk l) σ2 He), if_pos h]
  · have hk : (List.finRange K)[k.val]'(by simp) = k := by simp
    simp only [eachStream, List.getElem?_map]
    rw [List.getElem?_eq_getElem (by simp), Option.map_some, hk]

/-- **the two implementations agree**: for every channel, precoders (unequal powers are
    part of `V`), path loss (part of `G`), noise variance incl. `None`, external
    interference and EVERY filter matrix, `IASolverBaseClass.calc_SINR` returns exactly
    what the channel object returns for `F = full_F`, `U = full_W` (`= full_W_Hᴴ`) — value
    or "zero denominator" alike (there the channel object raises `ZeroDivisionError`, the
    solver reports a non-finite entry: the same model outcome); external sources at the
    default power `pe = 1`.
    (`solNoiseVar noise` is the solver's `noise_var` property: `None` reads as `0.0`.) -/
theorem two_paths_agree (G : (j : Fin K) → Mat ℂ n (T j)) (V : (j : Fin K) → Mat ℂ (T j) (S j))
    (k : Fin K) (WHk : Mat ℂ (S k) n) (noise : Option ℝ) (He : Mat ℂ n e) (l : Fin (S k)) :
    (solSinr G V k WHk (solRek (e := 0) n (solNoiseVar noise) none) l : Except PyErr ℝ) =
      chSinr G V k (cT WHk) (baseRek n noise) l ∧
    (solSinr G V k WHk (solRek n (solNoiseVar noise) (some He)) l : Except PyErr ℝ) =
      chSinr G V k (cT WHk) (extRek He 1 noise) l :=
  ⟨solSinr_eq_chSinr G V k WHk _ _ (solRek_none_eq_baseRek noise) l,
   solSinr_eq_chSinr G V k WHk _ _ (solRek_some_eq_extRek He noise) l⟩

/-- rescaling row `l` of `full_W_H` by `c ≠ 0` changes no SINR the solver reports. -/
theorem solver_sinr_scale_invariant (G : (j : Fin K) → Mat ℂ n (T j))
    (V : (j : Fin K) → Mat ℂ (T j) (S j)) (k : Fin K) (WHk : Mat ℂ (S k) n) (Rn : Mat ℂ n n)
    (l l' : Fin (S k)) (c : ℂ) (hc : c ≠ 0) :
    (solSinr G V k (scaleRow WHk l c) Rn l' : Except PyErr ℝ) = solSinr G V k WHk Rn l' := by
  by_cases h : l' = l
  · subst h
    unfold solSinr
    rw [cT_rowOf_scaleRow_self, rowOf_scaleRow_self]
    have := sinrCore_scale (rowOf WHk l') (cT (rowOf WHk l')) (G k) (colOf (V k) l')
      (solBkl G V Rn k l') (star c) (star_ne_zero.mpr hc)
    rw [star_star] at this
    exact this
  · simp only [solSinr, rowOf_scaleRow_other _ _ _ _ h]

/-- `full_F = F · √P`: with the solver's power vector `P ≥ 0` the power of every stream —
    desired or interfering — is `P_j` times its power under the unscaled precoder (unequal
    powers enter the first-principles quantities exactly as a per-user factor). -/
theorem fullF_stream_power (G : (j : Fin K) → Mat ℂ n (T j)) (F : (j : Fin K) → Mat ℂ (T j) (S j))
    (P : Fin K → ℝ) (hP : ∀ j, 0 ≤ P j) (u : Fin n → ℂ) (j : Fin K) (d : Fin (S j)) :
    streamPow G (fullF F P) u j d = P j * streamPow G F u j d := by
  have hamp : amp u (G j) (fun b => fullF F P j b d) =
      ((Real.sqrt (P j) : ℝ) : ℂ) * amp u (G j) (fun b => F j b d) := by
    simp only [amp, fullF, RC.ofReal, RFun.sqrt, Finset.mul_sum]
    refine Finset.sum_congr rfl (fun a _ => Finset.sum_congr rfl (fun b _ => ?_))
    ring
  rw [streamPow, streamPow, hamp, Complex.normSq_mul, Complex.normSq_ofReal, Real.mul_self_sqrt (hP j)]

/-! ### path loss -/

/-- **the channel views**: with a path-loss matrix `p` set, entry `(a, b)` of the block
    `(k, j)` the SINR code reads (`get_Hkl(k, j)`, the rows of `get_Hk(k)`, the external
    columns — `NtAll` lists the users' transmit antennas followed by the external sources')
    is the entry of the matrix given to `init_from_channel_matrix` times `√p[k, j]`, for
    every antenna layout; without a path loss it is that entry itself.  (Any scalar types.) -/
theorem views_apply_pathloss_blockwise {α ρ : Type} [Mul α] [RC ρ α] [RFun ρ]
    (big : Nat → Nat → α) (Nr NtAll : List Nat) (p : Nat → Nat → ρ) (k j : Nat)
    (hk : k < Nr.length) (hj : j < NtAll.length) (a : Fin Nr[k]) (b : Fin NtAll[j]) :
    blockOf (bigPL big Nr NtAll (some p)) (offs Nr k) (offs NtAll j) Nr[k] NtAll[j] a b =
      big (offs Nr k + a.val) (offs NtAll j + b.val) * RC.ofReal (RFun.sqrt (p k j)) ∧
    blockOf (bigPL (ρ := ρ) big Nr NtAll none) (offs Nr k) (offs NtAll j) Nr[k] NtAll[j] a b =
      big (offs Nr k + a.val) (offs NtAll j + b.val) :=
  ⟨block_pathloss big Nr NtAll p k j hk hj a b, rfl⟩

/-- **path loss is a power relation**: scaling the link from user `j` by `√g_j` (`g_j ≥ 0`)
    multiplies the power of each of its streams after any receive filter by `g_j`. -/
theorem pathloss_stream_power (G : (j : Fin K) → Mat ℂ n (T j)) (V : (j : Fin K) → Mat ℂ (T j) (S j))
    (g : Fin K → ℝ) (hg : ∀ j, 0 ≤ g j) (u : Fin n → ℂ) (j : Fin K) (d : Fin (S j)) :
    streamPow (fun j => plScale (G j) (g j)) V u j d = g j * streamPow G V u j d := by
  rw [streamPow, streamPow, amp_plScale, Complex.normSq_mul, Complex.normSq_ofReal,
    Real.mul_self_sqrt (hg j)]

/-! ### the interference covariance matrices (`calc_Q`, `calc_JP_Q`) -/

/-- **Q is the sum of the interfering links' covariances** `Σ_{j≠k} (H_kj F_j)(H_kj F_j)ᴴ`,
    plus `σ² I` when a noise variance is set (plain channel object), plus the external
    covariance `pe H_e H_eᴴ` (external-interference channel object). -/
theorem Q_is_sum_of_link_covariances (G : (j : Fin K) → Mat ℂ n (T j))
    (V : (j : Fin K) → Mat ℂ (T j) (S j)) (k : Fin K) (He : Mat ℂ n e) (pe : ℝ) (noise : Option ℝ) :
    toM (chQ G V k noise) =
      ∑ j ∈ Finset.univ.erase k, linkCov (G j) (V j) +
        ((noiseVar noise : ℝ) : ℂ) • (1 : Matrix (Fin n) (Fin n) ℂ) ∧
    toM (extQ G V k He pe noise) =
      ∑ j ∈ Finset.univ.erase k, linkCov (G j) (V j) + (pe : ℂ) • (toM He * (toM He)ᴴ) +
        ((noiseVar noise : ℝ) : ℂ) • (1 : Matrix (Fin n) (Fin n) ℂ) :=
  ⟨toM_chQ G V k noise, toM_extQ G V k He pe noise⟩

/-- **Q is Hermitian** (both channel classes; `cT` is the model's own conjugate transpose). -/
theorem Q_hermitian (G : (j : Fin K) → Mat ℂ n (T j)) (V : (j : Fin K) → Mat ℂ (T j) (S j))
    (k : Fin K) (He : Mat ℂ n e) (pe : ℝ) (noise : Option ℝ) :
    cT (chQ G V k noise) = chQ G V k noise ∧
    cT (extQ G V k He pe noise) = extQ G V k He pe noise :=
  ⟨cT_eq_of_herm (chQ_herm G V k noise), cT_eq_of_herm (extQ_herm G V k He pe noise)⟩

/-- **Q is positive semidefinite** for every noise variance `≥ 0` and external power `≥ 0`. -/
theorem Q_psd (G : (j : Fin K) → Mat ℂ n (T j)) (V : (j : Fin K) → Mat ℂ (T j) (S j))
    (k : Fin K) (He : Mat ℂ n e) (pe : ℝ) (noise : Option ℝ) (hpe : 0 ≤ pe)
    (hσ : ∀ v, noise = some v → 0 ≤ v) :
    (toM (chQ G V k noise)).PosSemidef ∧ (toM (extQ G V k He pe noise)).PosSemidef :=
  ⟨chQ_psd G V k noise (noiseVar_nonneg hσ), extQ_psd G V k He pe noise hpe (noiseVar_nonneg hσ)⟩

/-! ### `calc_SINR` as a whole, dB values and sum capacity -/

/-- when every stream has a value, `calc_SINR` returns all of them user by user, the dB
    values are `10 log10` of them and **the sum capacity is `Σ_k Σ_l log2(1 + SINR_kl)`**. -/
theorem sum_capacity_def (S : Fin K → Nat) (f : (k : Fin K) → Fin (S k) → Except PyErr ℝ)
    (g : (k : Fin K) → Fin (S k) → ℝ) (h : ∀ k l, f k l = .ok (g k l)) :
    allStreams S f = .ok ((List.finRange K).map (fun k => (List.finRange (S k)).map (g k))) ∧
    (allStreams S f).map sinrIndB =
      .ok ((List.finRange K).map (fun k => (List.finRange (S k)).map (fun l => 10 * Real.logb 10 (g k l)))) ∧
    sumCapacity (allStreams S f) = .ok (∑ k, ∑ l, Real.logb 2 (1 + g k l)) := by
  have h1 := allStreams_ok S f g h
  refine ⟨h1, ?_, ?_⟩
  · rw [h1]
    simp only [Except.map, sinrIndB, List.map_map, Function.comp_def, linear2dB, RFun.log10]
  · rw [h1, sumCapacity]
    simp only [Except.map]
    rw [shannonSum_flatten]

/-- `calc_shannon_sum_capacity` is `Σ log2(1 + x)` over its argument. -/
theorem shannon_sum_def (xs : List ℝ) : shannonSum xs = (xs.map (fun x => Real.logb 2 (1 + x))).sum := by
  rw [shannonSum, sumL_eq_sum]
  rfl

/-- one entry without a value spoils the whole: if stream `l` of user `k` has no value and
    every earlier stream of every earlier-or-equal user has one, the aggregate outcome is that
    tag — the channel object's `calc_SINR` raises there; the solver's result holds a
    non-finite entry and its `calc_sum_capacity` is non-finite. -/
theorem calc_SINR_raises (S : Fin K → Nat) (f : (k : Fin K) → Fin (S k) → Except PyErr ℝ)
    (k : Fin K) (l : Fin (S k)) (err : PyErr) (hfail : f k l = .error err)
    (hbefore_l : ∀ l' : Fin (S k), l'.val < l.val → ∃ y, f k l' = .ok y)
    (hbefore_k : ∀ k' : Fin K, k'.val < k.val → ∀ l', ∃ y, f k' l' = .ok y) :
    allStreams S f = .error err ∧ sumCapacity (allStreams S f) = .error err := by
  have hsplit : ∀ (m : Nat) (i : Fin m), List.finRange m =
      (List.finRange m).take i.val ++ i :: (List.finRange m).drop (i.val + 1) := by
    intro m i
    have hlen : i.val < (List.finRange m).length := by simp
    conv_lhs => rw [← List.take_append_drop i.val (List.finRange m)]
    congr 1
    rw [List.drop_eq_getElem_cons hlen]
    simp
  have hmem : ∀ (m : Nat) (i j : Fin m), j ∈ (List.finRange m).take i.val → j.val < i.val := by
    intro m i j hj
    obtain ⟨p, hp, hpe⟩ := List.mem_take_iff_getElem.mp hj
    simp only [List.getElem_finRange] at hpe
    rw [← hpe]
    simp only [Fin.cast_mk]
    omega
  have hinner : (List.finRange (S k)).mapM (fun l => f k l) = .error err := by
    rw [hsplit (S k) l]
    exact mapM_error _ _ l _ err (fun b hb => hbefore_l b (hmem _ _ _ hb)) hfail
  have hall : allStreams S f = .error err := by
    unfold allStreams
    rw [hsplit K k]
    refine mapM_error _ _ k _ err (fun b hb => ?_) hinner
    have hb' := hmem _ _ _ hb
    choose y hy using hbefore_k b hb'
    exact ⟨_, mapM_ok _ _ y (fun l' _ => hy l')⟩
  exact ⟨hall, by rw [hall]; rfl⟩

/-! ### long-lived objects: reports depend on the current inputs only -/

/-- **no memory**: in the model an object that went through ANY history of setter calls
    (new realisation, new layout, path loss set / changed / removed, noise variance,
    post filters, precoders, powers, filters — `ι` is whatever bundles the inputs, layouts
    included) reports exactly what a fresh object given the current inputs reports;
    histories compose; two objects with the same current inputs report the same, whatever
    their pasts.  This is the statement the session correspondence and the session oracle
    of `harness/props/c11.py` hold the (cache-carrying) implementation to after every step. -/
theorem reports_depend_on_current_inputs_only {ι β : Type} (report : ι → β) (i0 i0' : ι)
    (h1 h2 : List (ι → ι)) :
    reportAfter report i0 h1 = reportAfter report (afterHistory i0 h1) [] ∧
    afterHistory i0 (h1 ++ h2) = afterHistory (afterHistory i0 h1) h2 ∧
    (afterHistory i0 h1 = afterHistory i0' h2 → reportAfter report i0 h1 = reportAfter report i0' h2) := by
  refine ⟨rfl, ?_, fun h => ?_⟩
  · simp only [afterHistory, List.foldl_append]
  · simp only [reportAfter, h]

/-- … and therefore **first principles on the CURRENT inputs after any history**: whatever
    sequence of setters a receiver's inputs went through, `calc_SINR` is signal over
    interference-plus-noise of the channel, precoders, filter and noise variance it holds NOW. -/
theorem sinr_after_history_first_principles (k : Fin K) (l : Fin (S k)) (i0 : RxInputs K n T S k)
    (hist : List (RxInputs K n T S k → RxInputs K n T S k))
    (hσ : ∀ v, (afterHistory i0 hist).noise = some v → 0 ≤ v)
    (hden : intfPow (afterHistory i0 hist).G (afterHistory i0 hist).V (filt (afterHistory i0 hist).Uk l) k l +
      noisePow (noiseVar (afterHistory i0 hist).noise) (filt (afterHistory i0 hist).Uk l) ≠ 0) :
    reportAfter (fun i : RxInputs K n T S k => (chSinr i.G i.V k i.Uk (baseRek n i.noise) l : Except PyErr ℝ))
        i0 hist =
      .ok (sigPow (afterHistory i0 hist).G (afterHistory i0 hist).V (filt (afterHistory i0 hist).Uk l) k l /
        (intfPow (afterHistory i0 hist).G (afterHistory i0 hist).V (filt (afterHistory i0 hist).Uk l) k l +
          noisePow (noiseVar (afterHistory i0 hist).noise) (filt (afterHistory i0 hist).Uk l))) :=
  sinr_first_principles _ _ k _ _ l hσ hden

/-! ### index arguments and the shape of the capacity argument -/

/-- **index arguments are read by value**: an index whose value is below `K` designates that user
    whatever carries it (the model has no notion of the Python object: `int`, `np.int64`, `np.uint8`,
    `np.intp`, 0-d array and a non-cached `int` above 256 are the same `k`), a larger value is an
    `IndexError`; and `calc_Q` / `calc_JP_Q` leave out exactly the user with that VALUE — the receivers
    `k`, `k'` with `k.val = k'.val` get the same interference covariance. -/
theorem index_argument_read_by_value (k : Nat) (G : (j : Fin K) → Mat ℂ n (T j))
    (V : (j : Fin K) → Mat ℂ (T j) (S j)) (noise : Option ℝ) :
    (∀ h : k < K, indexArg K k = .ok ⟨k, h⟩) ∧
    (K ≤ k → indexArg K k = .error .IndexError) ∧
    (∀ i, indexArg K k = .ok i → i.val = k) ∧
    (∀ a b : Fin K, a.val = b.val → chQ G V a noise = chQ G V b noise) ∧
    (∀ a : Fin K, toM (qImpl G V a) = ∑ j ∈ Finset.univ.filter (fun j : Fin K => j.val ≠ a.val), linkCov (G j) (V j)) := by
  refine ⟨fun h => by simp [indexArg, h], fun h => by simp [indexArg, Nat.not_lt.mpr h], ?_, ?_, ?_⟩
  · intro i hi
    unfold indexArg at hi
    split at hi
    · cases hi; rfl
    · cases hi
  · intro a b hab
    rw [Fin.ext hab]
  · intro a
    rw [toM_qImpl]
    refine Finset.sum_congr ?_ (fun _ _ => rfl)
    ext j
    simp [Fin.ext_iff]

/-- **the sum capacity of an argument of any shape is ONE number, the sum over all entries**: however
    the SINRs are arranged in rows (`K × Ns` array, column / row vector, per-user arrays of different
    lengths, empty rows), `calc_shannon_sum_capacity` is `Σ log2(1 + x)` over every entry, and two
    arrangements of the same entries give the same value. -/
theorem shannon_sum_any_shape (rows rows' : List (List ℝ)) :
    shannonSumNested rows = ((rows.map (fun r => (r.map (fun x => Real.logb 2 (1 + x))).sum)).sum) ∧
    (rows.flatten = rows'.flatten → shannonSumNested rows = shannonSumNested rows') ∧
    shannonSumNested [rows.flatten] = shannonSumNested rows := by
  refine ⟨?_, fun h => by simp only [shannonSumNested, h], by simp [shannonSumNested]⟩
  rw [shannonSumNested, shannon_sum_def, List.map_flatten, List.sum_flatten, List.map_map]
  rfl

/-! ### equivalent entry points and argument forms (R8) -/

/-- **equivalent ways to say the same thing give the same SINR**:
    * the external-interference class with `pe = 0` reports what the plain class reports (the external
      covariance `0 · H_e H_eᴴ` is the zero matrix: a wrapper that forgot to forward `pe` would differ);
    * handing the solver its filters as `W` (columns) or as `W_H` (rows, conjugated) is the same filter;
    * the solver given `(F, P)` and the solver given `full_F = F √P` see the same precoders. -/
theorem equivalent_forms_agree (G : (j : Fin K) → Mat ℂ n (T j)) (V : (j : Fin K) → Mat ℂ (T j) (S j))
    (k : Fin K) (Uk : Mat ℂ n (S k)) (He : Mat ℂ n e) (noise : Option ℝ) (l : Fin (S k))
    (F : (j : Fin K) → Mat ℂ (T j) (S j)) (P : Fin K → ℝ) (Rn : Mat ℂ n n) :
    (chSinr G V k Uk (extRek He 0 noise) l : Except PyErr ℝ) = chSinr G V k Uk (baseRek n noise) l ∧
    (solSinr G V k (cT Uk) Rn l : Except PyErr ℝ) = chSinr G V k Uk Rn l ∧
    (∀ V', V' = fullF F P → (solSinr G (fullF F P) k (cT Uk) Rn l : Except PyErr ℝ) = solSinr G V' k (cT Uk) Rn l) := by
  refine ⟨?_, ?_, fun V' h => by rw [h]⟩
  · have hR : (extRek He 0 noise : Mat ℂ n n) = baseRek n noise := by
      apply toM_inj
      cases noise with
      | none => simp only [extRek, baseRek, toM_extCov, toM_noiseCov, Complex.ofReal_zero, zero_smul]
      | some v => simp only [extRek, baseRek, toM_madd, toM_extCov, Complex.ofReal_zero, zero_smul, zero_add]
    rw [hR]
  · rw [solSinr_eq_chSinr G V k (cT Uk) Rn Rn rfl l, cT_cT]

/-- **R11 asking changes nothing**: a call that only asks (in the model: a step that returns the inputs it
    was given) leaves the inputs where they were, so a history with such calls interleaved anywhere leads
    to the same inputs — and the same reports — as the history without them. -/
theorem queries_leave_no_trace {ι β : Type} (report : ι → β) (i0 : ι) (h1 h2 : List (ι → Except PyErr ι)) :
    afterCalls i0 (h1 ++ (fun i => .ok i) :: h2) = afterCalls i0 (h1 ++ h2) ∧
    reportAfter report (afterCalls i0 (h1 ++ (fun i => .ok i) :: h2)) [] =
      reportAfter report (afterCalls i0 (h1 ++ h2)) [] := by
  have h : afterCalls i0 (h1 ++ (fun i => .ok i) :: h2) = afterCalls i0 (h1 ++ h2) := by
    rw [afterCalls_append, afterCalls_append]
    rfl
  exact ⟨h, by rw [h]⟩

/-! ### robustness classes, as far as they are facts about the model -/

/-- **R4 refused calls leave no trace; R3 reports are values; R7 only the current inputs count.**
    For a long-lived object driven through ANY history of calls, each of which is either accepted
    (new inputs) or refused (exception):
    * a refused call leaves the inputs exactly as they were, hence the history with the refused call
      struck out leads to the same inputs — and to the same reports ever after;
    * what the object reported up to some point (`reportsAlong`) is not altered by anything that happens
      later (the reports of the longer history start with the reports of the shorter one);
    * the last report is the report of a fresh object given the current inputs. -/
theorem refused_calls_leave_no_trace {ι β : Type} (report : ι → β) (i0 : ι)
    (h1 h2 : List (ι → Except PyErr ι)) (call : ι → Except PyErr ι) (err : PyErr)
    (hrefused : call (afterCalls i0 h1) = .error err) :
    stepOrKeep (afterCalls i0 h1) call = afterCalls i0 h1 ∧
    afterCalls i0 (h1 ++ call :: h2) = afterCalls i0 (h1 ++ h2) ∧
    (reportsAlong report i0 (h1 ++ h2)).take (h1.length + 1) = reportsAlong report i0 h1 ∧
    (reportsAlong report i0 (h1 ++ call :: h2)).take (h1.length + 1) = reportsAlong report i0 h1 ∧
    (reportsAlong report i0 (h1 ++ call :: h2)).getLast? = some (report (afterCalls i0 (h1 ++ h2))) := by
  have hkeep : stepOrKeep (afterCalls i0 h1) call = afterCalls i0 h1 := by
    simp only [stepOrKeep, hrefused]
  have hsame : afterCalls i0 (h1 ++ call :: h2) = afterCalls i0 (h1 ++ h2) := by
    rw [afterCalls_append, afterCalls_append]
    show afterCalls (stepOrKeep (afterCalls i0 h1) call) h2 = _
    rw [hkeep]
  refine ⟨hkeep, hsame, reportsAlong_take report i0 h1 h2, reportsAlong_take report i0 h1 (call :: h2), ?_⟩
  rw [reportsAlong_getLast, hsame]

/-- **R1 / R2 presentation does not matter**: the model's reports are functions of the logical
    matrices and numbers only.  Whatever carries them — element type, memory layout, container,
    0-d array or scalar (`π` is any type of presentations with its reading `decode`) — two
    presentations of the same values are reported on identically. -/
theorem reports_depend_on_logical_values_only {π ι β : Type} (decode : π → ι) (report : ι → β) (p q : π)
    (h : decode p = decode q) : report (decode p) = report (decode q) := by rw [h]

/-- **R6 no absolute scale**: multiplying every link by `√g` (`g > 0`, all received powers by `g`)
    and the noise variance by `g` leaves every reported SINR exactly where it was — there is no
    threshold, floor or regulariser in the quotient (the only special value is a denominator that
    is EXACTLY zero, and it stays exactly zero under scaling). -/
theorem sinr_power_scale_invariant (G : (j : Fin K) → Mat ℂ n (T j)) (V : (j : Fin K) → Mat ℂ (T j) (S j))
    (k : Fin K) (Uk : Mat ℂ n (S k)) (σ2 g : ℝ) (l : Fin (S k)) (hg : 0 < g) :
    (chSinr (fun j => plScale (G j) g) V k Uk (baseRek n (some (g * σ2))) l : Except PyErr ℝ) =
      chSinr G V k Uk (baseRek n (some σ2)) l := by
  have hs : ∀ j d, streamPow (fun j => plScale (G j) g) V (filt Uk l) j d = g * streamPow G V (filt Uk l) j d :=
    fun j d => pathloss_stream_power G V (fun _ => g) (fun _ => hg.le) (filt Uk l) j d
  have hi : intfPow (fun j => plScale (G j) g) V (filt Uk l) k l = g * intfPow G V (filt Uk l) k l := by
    simp only [intfPow, hs, Finset.mul_sum]
  have hn : noisePow (g * σ2) (filt Uk l) = g * noisePow σ2 (filt Uk l) := by
    simp only [noisePow]; ring
  have hD : intfPow (fun j => plScale (G j) g) V (filt Uk l) k l + noisePow (noiseVar (some (g * σ2))) (filt Uk l) =
      g * (intfPow G V (filt Uk l) k l + noisePow (noiseVar (some σ2)) (filt Uk l)) := by
    show _ + noisePow (g * σ2) (filt Uk l) = g * (_ + noisePow σ2 (filt Uk l))
    rw [hi, hn]; ring
  rw [chSinr_eq _ V k Uk _ l _ (qf_baseRek (isFilt_channel Uk l) (some (g * σ2))),
    chSinr_eq G V k Uk _ l _ (qf_baseRek (isFilt_channel Uk l) (some σ2))]
  by_cases h0 : intfPow G V (filt Uk l) k l + noisePow (noiseVar (some σ2)) (filt Uk l) = 0
  · rw [if_pos h0, if_pos (by rw [hD, h0, mul_zero])]
  · rw [if_neg h0, if_neg (by rw [hD]; exact mul_ne_zero hg.ne' h0)]
    congr 2
    rw [hD, sigPow, sigPow, hs, mul_div_mul_left _ _ hg.ne']

/-! ### R15 distinct values that are merely close; R16 argument identity and buffers refilled in place -/

/-- **R15 a value that is merely close is another value.**  The model compares nothing with a tolerance, rounds
    no key and has no threshold other than "exactly zero": for a stream that is received at all (`sigPow ≠ 0`)
    through a filter that is not zero,
    * two noise variances `σ ≠ σ'` (however close: `4e-12` and `4e-13`, `2.4e9` and `2.4e9 + 2e4`, two adjacent
      doubles) give two different reports — two different values, or a value and `ZeroDivisionError`;
    * they give two different interference-plus-noise covariance matrices `calc_Q`;
    * two external powers `pe ≠ pe'` give two different reports as soon as the external sources reach the
      filter output at all.
    An implementation that identifies such values (`np.isclose`, a rounded cache key, `> 1e-8`) therefore
    disagrees with the model on one of them; the R15 sessions of `harness/props/c11.py` generate such pairs with
    a margin of at least 30 comparison tolerances between the two first-principles reports. -/
theorem close_values_are_not_identified (G : (j : Fin K) → Mat ℂ n (T j)) (V : (j : Fin K) → Mat ℂ (T j) (S j))
    (k : Fin K) (Uk : Mat ℂ n (S k)) (He : Mat ℂ n e) (noise : Option ℝ) (σ σ' pe pe' : ℝ) (l : Fin (S k))
    (hσ : 0 ≤ σ) (hσ' : 0 ≤ σ') (hpe : 0 ≤ pe) (hpe' : 0 ≤ pe') (hnoise : ∀ v, noise = some v → 0 ≤ v)
    (hsig : sigPow G V (filt Uk l) k l ≠ 0) (hu : ∃ a, Uk a l ≠ 0) :
    (σ ≠ σ' → (chSinr G V k Uk (baseRek n (some σ)) l : Except PyErr ℝ) ≠ chSinr G V k Uk (baseRek n (some σ')) l) ∧
    (σ ≠ σ' → (chQ G V k (some σ) : Mat ℂ n n) ≠ chQ G V k (some σ')) ∧
    (pe ≠ pe' → extPow He 1 (filt Uk l) ≠ 0 →
      (chSinr G V k Uk (extRek He pe noise) l : Except PyErr ℝ) ≠ chSinr G V k Uk (extRek He pe' noise) l) := by
  obtain ⟨a, _⟩ := hu
  exact ⟨fun h => chSinr_noise_injective G V k Uk σ σ' l hσ hσ' h hsig ⟨a, ‹_›⟩,
    fun h => chQ_noise_injective G V k σ σ' (Fin.pos a) h,
    fun h hext => chSinr_pe_injective G V k Uk He noise pe pe' l hpe hpe' hnoise h hsig hext⟩

/-- **R15 a setter takes effect for EVERY new value** — there is no "unchanged, skip" in the model.  Whatever
    history the inputs of a receiver went through and whatever value `noise_var` had before (equal to `v`, one
    ulp away from it, or far away), after `noise_var = v` the inputs hold exactly `v`, everything else is
    where it was, and `calc_SINR` is the report of a fresh object given the current channel, precoders, filters
    and exactly `v`.  The same holds for any setter that stores what it is given (`set`/`get` with
    `get (set v i) = v`: path loss, precoders, powers, filters). -/
theorem setter_takes_effect_for_every_new_value (k : Fin K) (l : Fin (S k)) (i0 : RxInputs K n T S k)
    (hist : List (RxInputs K n T S k → RxInputs K n T S k)) (v : Option ℝ)
    {ι ν : Type} (set : ν → ι → ι) (get : ι → ν) (hget : ∀ w i, get (set w i) = w) (j0 : ι) (h : List (ι → ι))
    (w : ν) :
    (afterHistory i0 (hist ++ [fun i => { i with noise := v }])).noise = v ∧
    (afterHistory i0 (hist ++ [fun i => { i with noise := v }])).G = (afterHistory i0 hist).G ∧
    (afterHistory i0 (hist ++ [fun i => { i with noise := v }])).V = (afterHistory i0 hist).V ∧
    (afterHistory i0 (hist ++ [fun i => { i with noise := v }])).Uk = (afterHistory i0 hist).Uk ∧
    reportAfter (fun i : RxInputs K n T S k => (chSinr i.G i.V k i.Uk (baseRek n i.noise) l : Except PyErr ℝ))
        i0 (hist ++ [fun i => { i with noise := v }]) =
      chSinr (afterHistory i0 hist).G (afterHistory i0 hist).V k (afterHistory i0 hist).Uk (baseRek n v) l ∧
    get (afterHistory j0 (h ++ [set w])) = w := by
  simp only [afterHistory, reportAfter, List.foldl_append, List.foldl_cons, List.foldl_nil, hget, and_self]

/-- **R16 results depend on the contents at call time, not on the identity of the objects.**  For a caller that
    keeps ONE buffer (address `a` of its memory `h`) and refills it in place before every call:
    * the `i`-th call returns what a call on a fresh copy of the `i`-th contents returns (`vs.map report`),
      whatever the buffer held before and however often it was used;
    * what earlier calls returned is not altered by later refills (the results of the longer loop start with
      those of the shorter one);
    * an object with equal contents at another address gives the same result; refilling ANOTHER object changes
      nothing;
    * one object in two roles (`calc_SINR(X, X)`, `Nr` and `Nt`, path loss and external path loss) is read as
      two arguments with equal contents.
    This is what the buffer sessions and the role scenarios of `harness/props/c11.py` hold the implementation to. -/
theorem results_depend_on_contents_at_call_time {ι β : Type} (report : ι → β) (report2 : ι → ι → β)
    (h h' : Heap ι) (a b : Nat) (vs ws : List ι) (v : ι) :
    refillLoop report a h vs = vs.map report ∧
    (refillLoop report a h (vs ++ ws)).take vs.length = refillLoop report a h vs ∧
    (h a = h' b → callOn report h a = callOn report h' b) ∧
    (b ≠ a → callOn report (refill h b v) a = callOn report h a) ∧
    callOn report (refill h a v) a = report v ∧
    callOn2 report2 h a a = report2 (h a) (h a) := by
  refine ⟨refillLoop_eq_map report a h vs, ?_, fun hab => by simp only [callOn, hab], fun hne => ?_, ?_, rfl⟩
  · rw [refillLoop_eq_map, refillLoop_eq_map, List.map_append, List.take_left' (by simp)]
  · simp only [callOn, refill_other h b a v (Ne.symm hne)]
  · simp only [callOn, refill_self]

/-! ### the hypotheses are satisfiable (non-vacuity) -/

/-- a two-user scenario with one antenna everywhere, unit channel/precoders/filters and
    noise variance 1: the denominator hypothesis of `sinr_first_principles` holds and the
    theorem gives `SINR = 1 / (1 + 1) = 1/2` for user 0. -/
example :
    (chSinr (K := 2) (n := 1) (T := fun _ => 1) (S := fun _ => 1) (fun _ _ _ => (1 : ℂ)) (fun _ _ _ => 1) 0
      (fun _ _ => 1) (baseRek 1 (some (1 : ℝ))) 0 : Except PyErr ℝ) = .ok (1 / 2) := by
  have hs : ∀ j d, streamPow (K := 2) (n := 1) (T := fun _ => 1) (S := fun _ => 1)
      (fun _ _ _ => (1 : ℂ)) (fun _ _ _ => 1) (fun _ => 1) j d = 1 := by
    intro j d; simp [streamPow, amp]
  have hi : intfPow (K := 2) (n := 1) (T := fun _ => 1) (S := fun _ => 1)
      (fun _ _ _ => (1 : ℂ)) (fun _ _ _ => 1) (fun _ => 1) 0 0 = 1 := by
    rw [intfPow, Finset.sum_congr rfl (fun (x : (j : Fin 2) × Fin 1) _ => hs x.1 x.2)]
    simp
  have hn : noisePow (n := 1) (noiseVar (some (1 : ℝ))) (fun _ => 1) = 1 := by simp [noisePow, noiseVar]
  have hf : filt (n := 1) (s := 1) (fun _ _ => (1 : ℂ)) 0 = fun _ => 1 := rfl
  rw [sinr_first_principles _ _ _ _ _ _ (fun v hv => by cases hv; exact zero_le_one)
    (by rw [hf, hi, hn]; norm_num)]
  rw [hf, hi, hn, sigPow, hs]
  norm_num

/-- `close_values_are_not_identified` is not vacuous: in the scenario above the noise variances `1` and
    `1 + 10⁻⁹` (which `np.isclose` identifies) are reported on differently. -/
example :
    (chSinr (K := 2) (n := 1) (T := fun _ => 1) (S := fun _ => 1) (fun _ _ _ => (1 : ℂ)) (fun _ _ _ => 1) 0
      (fun _ _ => 1) (baseRek 1 (some (1 : ℝ))) 0 : Except PyErr ℝ) ≠
    chSinr (K := 2) (n := 1) (T := fun _ => 1) (S := fun _ => 1) (fun _ _ _ => (1 : ℂ)) (fun _ _ _ => 1) 0
      (fun _ _ => 1) (baseRek 1 (some (1 + 1 / 10 ^ 9 : ℝ))) 0 := by
  refine (close_values_are_not_identified (K := 2) (n := 1) (e := 0) (T := fun _ => 1) (S := fun _ => 1)
    (fun _ _ _ => (1 : ℂ)) (fun _ _ _ => 1) 0 (fun _ _ => 1) (fun _ i => i.elim0) none 1 (1 + 1 / 10 ^ 9) 0 0 0
    zero_le_one (by positivity) le_rfl le_rfl (fun _ h => by cases h) ?_ ⟨0, one_ne_zero⟩).1 (by norm_num)
  simp [sigPow, streamPow, amp, filt]

/-! ### the formulas of the CURRENT source, regenerated, are the model's

`Generated/C11Formulas.lean` is re-emitted from `multiuser.py` / `iabase.py` by `harness/gen/c11.py` on every
check run: the expression trees of `_calc_Bkl_cov_matrix_first_part / second_part / all_l`, `_calc_SINR_k`
(channel object), the joint-processing `_impl` twins, and the IA solver's methods of the same names, over the
primitive matrix operations only.  The theorem below holds for EVERY pair of scalar types (no algebraic law
is used: both sides are the same term), hence at `ℂ`/`ℝ`, where the theorems above live, and at binary64. -/
section generated
open PyPhysim.Sinr.GenPf
variable {α ρ : Type} [Zero α] [One α] [Add α] [Sub α] [Mul α] [Div α] [Conj α] [BEq α] [RC ρ α] [Zero ρ] [One ρ]

/-- **The regenerated formula trees equal the hand model, for all arguments.**  Channel object: first part
    (total covariance + `Rek`; `Rek` a matrix, a scalar noise power `c·I`, or `None` read as `0·I`), second
    part (own stream), `first − second`, and the SINR quotient (no value exactly when the regenerated
    denominator is `0`, else `|num / den|`).  Joint processing: the same with one channel `Hk` for every user.
    IA solver: first / second part from `V = full_F` ONLY (the regenerated trees take the unit-norm precoders
    `F` and the powers `P` as arguments too and must ignore them), `first − second + Rek` with
    `Rek = noise·I (+ external covariance)`, and the quotient with `u = (row l of full_W_H)ᴴ`. -/
theorem generated_formulas_match_model (G : (j : Fin K) → Mat α n (T j)) (V F : (j : Fin K) → Mat α (T j) (S j))
    (P : Fin K → ρ) (k : Fin K) (l : Fin (S k)) (Rek : Mat α n n) (c : ρ) (Uk : Mat α n (S k))
    (WHk : Mat α (S k) n) (He : Mat α n e) {t : Nat} (Hk : Mat α n t) {s : Fin K → Nat}
    (V' : (j : Fin K) → Mat α t (s j)) (Uk' : Mat α n (s k)) (l' : Fin (s k)) :
    -- channel object, interference channel
    (Gen.chFirstMat G V k Rek = chFirst G V Rek
      ∧ Gen.chFirstScalar G V k c = chFirst G V (baseRek n (some c))
      ∧ Gen.chFirstNone (ρ := ρ) G V k = chFirst G V (baseRek n (none : Option ρ))
      ∧ Gen.chSecond G k (V k) l = chSecond (G k) (V k) l
      ∧ Gen.chBklMat G V k Rek l = chBkl G V Rek k l
      ∧ Gen.chBklScalar G V k c l = chBkl G V (baseRek n (some c)) k l
      ∧ chSinr (ρ := ρ) G V k Uk Rek l =
          if Gen.chSinrDen G k (V k) Uk (chBkl G V Rek k l) l == 0 then .error .ZeroDivisionError
          else .ok (Gen.chSinrVal G k (V k) Uk (chBkl G V Rek k l) l))
    -- channel object, joint processing
    ∧ (Gen.jpFirst Hk V' Rek = chFirst (T := fun _ => t) (fun _ => Hk) V' Rek
      ∧ Gen.jpSecond Hk (V' k) l' = chSecond Hk (V' k) l'
      ∧ chSinr (ρ := ρ) (T := fun _ => t) (fun _ => Hk) V' k Uk' Rek l' =
          if Gen.jpSinrDen Hk (V' k) Uk' (chBkl (T := fun _ => t) (fun _ => Hk) V' Rek k l') l' == 0
          then .error .ZeroDivisionError
          else .ok (Gen.jpSinrVal Hk (V' k) Uk' (chBkl (T := fun _ => t) (fun _ => Hk) V' Rek k l') l'))
    -- IA solver
    ∧ (Gen.solFirst G V F P k = solFirst G V
      ∧ Gen.solSecond G V F P k l = solSecond (G k) (V k) l
      ∧ Gen.solBklPlain G V F P k c l = solBkl G V (solRek (e := 0) n c none) k l
      ∧ Gen.solBklExt G V F P k c (extCov He (1 : ρ)) l = solBkl G V (solRek n c (some He)) k l
      ∧ solSinr (ρ := ρ) G V k WHk Rek l =
          if Gen.solSinrDen G V F P k WHk (solBkl G V Rek k l) l == 0 then .error .ZeroDivisionError
          else .ok (Gen.solSinrVal G V F P k WHk (solBkl G V Rek k l) l)) :=
  ⟨⟨chFirst_mat G V k Rek, chFirst_scalar G V k c, chFirst_none G V k, chSecond_eq G k (V k) l,
    chBkl_mat G V k Rek l, chBkl_scalar G V k c l, chSinr_eq G V k Uk Rek l⟩,
   ⟨jpFirst_eq Hk V' Rek, jpSecond_eq Hk (V' k) l', jpSinr_eq Hk V' k Uk' Rek l'⟩,
   ⟨solFirst_eq G V F P k, solSecond_eq G V F P k l, solBkl_plain G V F P k c l, solBkl_ext G V F P k c He l,
    solSinr_eq G V F P k WHk Rek l⟩⟩

/-- the two paths state the SAME interference-plus-noise covariance up to the association of the products
    (`H (V Vᴴ) Hᴴ` vs `(H V)(H V)ᴴ`) and the place of `Rek` — the regenerated trees, at `ℂ`, agree
    (this is `two_paths_agree`'s covariance step, now about the source's own trees) -/
example (G : (j : Fin K) → Mat ℂ n (T j)) (V F : (j : Fin K) → Mat ℂ (T j) (S j)) (P : Fin K → ℝ) (k : Fin K) :
    Gen.solFirst G V F P k = solFirst G V := solFirst_eq G V F P k

end generated

end PyPhysim.C11
