import PyPhysim.Proofs.C05Runner
import PyPhysim.Proofs.C05Grid
import PyPhysim.Proofs.C05Params
import PyPhysim.Proofs.C05Result
import PyPhysim.Proofs.C05Exact
import PyPhysim.Proofs.C05Gen

/-!
# C05 — the Monte Carlo runner runs exactly the requested repetitions per variation

Property theorems only.  Everything is about the model `PyPhysim.Model.C05`
(tied to `runner.py`, `parameters.py`, `results.py` by the exact correspondence
of `harness/props/c05.py`).  Quantification: every results type `R`, every merge
operation (no law assumed), every `rep_max`, every `_keep_going` predicate of
(merged results, skip counter, repetition index) per variation, every loaded
start state, every outcome stream (finite list; running out of outcomes is the
explicit `exhausted` / `starved` case, i.e. non-termination of a real program
that skips for ever), every list of variations, every runner state.

Vocabulary (`Model/C05Spec.lean`): `IsVarRun … start seg st` — the segment `seg`
of the stream is exactly one complete run of a variation started from `start`
and ending in `st`: `st` is the fold of `seg`, the guard is false on `st` and was
true (or there was no result yet) after every proper prefix.
-/
namespace PyPhysim.C05

variable {R : Type}

/-! ## One variation -/

/-- **Minimal prefix.**  A variation that ends normally consumed a prefix `seg` of
    the stream that is exactly one complete run: the final state is the fold of
    `seg`, the guard `keep ∧ rep < rep_max` is false there, and it held after every
    proper prefix — so the number of `_run_simulation` calls is the least `p` for
    which the guard fails after `p` outcomes.  Holds for fresh and resumed starts. -/
theorem run_consumes_minimal_prefix (merge : R → R → R) (repMax : Nat) (keep : Keep R)
    (start : Option (R × Nat)) (outs : List (Outcome R)) (e : VarEnd R)
    (h : runVariation merge repMax keep start outs = .done e) (hex : e.exhausted = false) :
    ∃ seg, outs = seg ++ e.rest ∧ IsVarRun merge repMax keep start seg e.st ∧
      e.st.calls = seg.length := by
  obtain ⟨seg, h1, h2⟩ := runVariation_isVarRun merge repMax keep start outs e h hex
  exact ⟨seg, h1, h2, stateOf_calls merge start seg e.st h2.1⟩

/-- **Stored result = merge of exactly the successful repetitions** (fresh variation):
    the consumed outcomes contain at least one success `r₁` and the result is
    `merge (… (merge r₁ r₂) …) rₖ` over the successes in order; the recorded count is
    `k`; the skip counter is the number of skips; every call is one or the other.
    (Also true when the stream ran out.) -/
theorem run_acc_is_merge (merge : R → R → R) (repMax : Nat) (keep : Keep R)
    (outs : List (Outcome R)) (e : VarEnd R)
    (h : runVariation merge repMax keep none outs = .done e) :
    ∃ seg r rs, outs = seg ++ e.rest ∧ oks seg = r :: rs ∧
      e.st.acc = rs.foldl merge r ∧
      e.st.rep = (oks seg).length ∧
      e.st.skipped = skips seg ∧
      e.st.calls = seg.length ∧
      e.st.rep + e.st.skipped = e.st.calls := by
  obtain ⟨seg, h1, h2, _, _, _⟩ := runVariation_done merge repMax keep none outs e h
  simp only [stateOf, freshState] at h2
  split at h2
  · simp at h2
  · rename_i r rs hoks
    simp only [Option.some.injEq] at h2
    refine ⟨seg, r, rs, h1, hoks, ?_, ?_, ?_, ?_, ?_⟩
    all_goals rw [← h2]
    exact oks_length_add_skips seg

/-- The same for a variation resumed from loaded partial results `(a, n)`: the
    result is the loaded one merged with the new successes, the count is `n` plus
    their number, skips are not counted. -/
theorem run_resumed_acc_is_merge (merge : R → R → R) (repMax : Nat) (keep : Keep R)
    (a : R) (n : Nat) (outs : List (Outcome R)) (e : VarEnd R)
    (h : runVariation merge repMax keep (some (a, n)) outs = .done e) :
    ∃ seg, outs = seg ++ e.rest ∧
      e.st.acc = (oks seg).foldl merge a ∧
      e.st.rep = n + (oks seg).length ∧
      e.st.skipped = skips seg ∧
      e.st.calls = seg.length := by
  obtain ⟨seg, h1, h2, _, _, _⟩ := runVariation_done merge repMax keep (some (a, n)) outs e h
  simp only [stateOf, Option.some.injEq] at h2
  refine ⟨seg, h1, ?_, ?_, ?_, ?_⟩ <;> rw [← h2] <;> simp [after]

/-- **A skipped repetition is never counted**: inserting a skip anywhere in the
    consumed outcomes changes neither the merged result nor the repetition count of
    the fold that the run is proved equal to. -/
theorem skip_not_counted (merge : R → R → R) (s : VarState R) (p q : List (Outcome R)) :
    (after merge s (p ++ .skip :: q)).acc = (after merge s (p ++ q)).acc ∧
    (after merge s (p ++ .skip :: q)).rep = (after merge s (p ++ q)).rep ∧
    (after merge s (p ++ .skip :: q)).skipped = (after merge s (p ++ q)).skipped + 1 := by
  simp only [after, oks_append, skips_append, oks, skips]
  refine ⟨trivial, trivial, ?_⟩
  omega

/-- **Until the limit or the stop rule.**  A fresh variation with `rep_max ≥ 1` that
    ends normally has `rep ≤ rep_max`, and it stopped because the limit was reached
    or because `_keep_going` returned false on the merged results. -/
theorem run_stops_at_limit_or_rule (merge : R → R → R) (repMax : Nat) (keep : Keep R)
    (outs : List (Outcome R)) (e : VarEnd R) (hmax : 1 ≤ repMax)
    (h : runVariation merge repMax keep none outs = .done e) (hex : e.exhausted = false) :
    e.st.rep ≤ repMax ∧
    (e.st.rep = repMax ∨ keep e.st.acc e.st.skipped e.st.rep = false) := by
  have hle : e.st.rep ≤ max 1 repMax := firstRun_rep_le merge repMax keep outs 0 e h
  have hle' : e.st.rep ≤ repMax := by omega
  obtain ⟨_, _, _, _, h4, _⟩ := runVariation_done merge repMax keep none outs e h
  have hg := h4 hex
  simp only [guard, Bool.and_eq_false_iff, decide_eq_false_iff_not] at hg
  refine ⟨hle', ?_⟩
  rcases hg with hk | hr
  · right; exact hk
  · left; omega

/-- **Progress** (the hypotheses above are satisfiable for every stream that is long
    enough): a fresh variation whose stream contains at least `rep_max ≥ 1` successful
    outcomes ends normally — `rep_max` bounds the number of counted repetitions
    whatever `_keep_going` answers and however many skips are interleaved. -/
theorem run_terminates_within_limit (merge : R → R → R) (repMax : Nat) (keep : Keep R)
    (outs : List (Outcome R)) (hmax : 1 ≤ repMax) (hok : repMax ≤ (oks outs).length) :
    ∃ e, runVariation merge repMax keep none outs = .done e ∧ e.exhausted = false := by
  cases h : runVariation merge repMax keep none outs with
  | starved c =>
    have := (runVariation_starved merge repMax keep none outs c h).2.2
    rw [this] at hok; simp at hok; omega
  | done e =>
    refine ⟨e, rfl, ?_⟩
    cases hex : e.exhausted with
    | false => rfl
    | true =>
      obtain ⟨seg, r, rs, h1, _, _, hrep, _⟩ := run_acc_is_merge merge repMax keep outs e h
      obtain ⟨_, _, _, _, _, h5⟩ := runVariation_done merge repMax keep none outs e h
      obtain ⟨hrest, hg⟩ := h5 hex
      rw [hrest, List.append_nil] at h1
      subst h1
      simp only [guard, Bool.and_eq_true, decide_eq_true_eq] at hg
      omega

/-- **A skip in the first repetition is retried** (the repaired code; before the
    `fix:` commit the model raised `SkipThisOne` here): after `k` leading skips the
    first success starts the variation with `rep = 1` and `k` recorded skips. -/
theorem first_rep_skip_retried (merge : R → R → R) (repMax : Nat) (keep : Keep R)
    (k : Nat) (r : R) (os : List (Outcome R)) :
    runVariation merge repMax keep none (List.replicate k .skip ++ .ok r :: os)
      = .done (loop merge repMax keep ⟨r, 1, k, k + 1⟩ os) := by
  simp only [runVariation]
  simpa using firstRun_skips_then_ok merge repMax keep r os k 0

/-- The only way a variation produces no result at all: it is fresh and every
    outcome of the stream was a skip (a program that skips for ever). -/
theorem starved_only_by_skips (merge : R → R → R) (repMax : Nat) (keep : Keep R)
    (start : Option (R × Nat)) (outs : List (Outcome R)) (c : Nat)
    (h : runVariation merge repMax keep start outs = .starved c) :
    start = none ∧ c = outs.length ∧ oks outs = [] :=
  runVariation_starved merge repMax keep start outs c h

/-- A resumed variation that had already reached the limit gets no further
    repetition: its complete run is the empty segment. -/
theorem completed_variation_not_rerun (merge : R → R → R) (repMax : Nat) (keep : Keep R)
    (a : R) (n : Nat) (seg : List (Outcome R)) (st : VarState R) (hn : repMax ≤ n)
    (h : IsVarRun merge repMax keep (some (a, n)) seg st) :
    seg = [] ∧ st = ⟨a, n, 0, 0⟩ := by
  obtain ⟨h1, _, h3⟩ := h
  have hnil : seg = [] := by
    refine Classical.byContradiction (fun hne => ?_)
    have := h3 [] (List.nil_prefix) (fun h => hne h.symm) ⟨a, n, 0, 0⟩ (by simp [stateOf, after_nil])
    simp only [guard, Bool.and_eq_true, decide_eq_true_eq] at this
    omega
  subst hnil
  simp only [stateOf, after_nil, Option.some.injEq] at h1
  exact ⟨rfl, h1.symm⟩

/-! ## `simulate()` over all variations -/

/-- **Every combination, in the documented order, entry `i` belongs to combination
    `i`.**  A `simulate()` that returns normally split the consumed stream into one
    complete run per variation `0, 1, …, n-1` in that order (`RunsSpec`; the start of
    variation `i` is what was loaded for `i` before the call); the call log is
    `|seg₀|` calls to variation 0, then `|seg₁|` calls to variation 1, …; the stored
    result and the `runned_reps` entry at position `i` are those of run `i`;
    `results.runned_reps` is the same list; with a results file the partial file of
    variation `i` holds run `i`, without one nothing is written. -/
theorem simulate_all_spec (cfg : Cfg R) (r : Runner R) (outs : List (Outcome R))
    (h : (simulateAll cfg r outs).status = none) :
    ∃ segs sts, RunsSpec cfg r.load (List.range cfg.nvar) segs sts ∧
      outs = segs.flatten ++ (simulateAll cfg r outs).rest ∧
      (simulateAll cfg r outs).log = logOf (List.range cfg.nvar) segs ∧
      (simulateAll cfg r outs).runner.results = sts.map VarState.stored ∧
      (simulateAll cfg r outs).runner.reps = .list (sts.map (·.rep)) ∧
      (simulateAll cfg r outs).runner.resultsReps = some (.list (sts.map (·.rep))) ∧
      (r.file = true → ∀ j st, (j, st) ∈ (List.range cfg.nvar).zip sts →
          (simulateAll cfg r outs).runner.store.lookup j = some st.saved) ∧
      (r.file = false → (simulateAll cfg r outs).runner.store = r.store) := by
  rw [simulateAll_status] at h
  obtain ⟨f1, f2, f3, f4, f5, _⟩ := simulateAll_fields cfg r outs
  rw [f1, f2, f3, f4, f5, simulateAll_resultsReps, h]
  obtain ⟨segs, sts, h1, h2, h3, h4, h5, _, _, _, h9, h10⟩ :=
    simVars_spec cfg (List.range cfg.nvar) r.clear outs List.nodup_range h
  have hreps := h5 [] rfl
  refine ⟨segs, sts, h1, h2, h3, by simpa [Runner.clear] using h4, by simpa using hreps,
    by simpa using hreps, ?_, ?_⟩
  · intro hf; exact h9 hf
  · intro hf; exact h10 hf

/-- One stored result and one `runned_reps` entry per variation: after a completed
    `simulate()` both lists have exactly `n = Π lengths` entries (what the lookup
    theorems below assume). -/
theorem simulate_all_lengths (cfg : Cfg R) (r : Runner R) (outs : List (Outcome R))
    (h : (simulateAll cfg r outs).status = none) :
    (simulateAll cfg r outs).runner.results.length = cfg.nvar ∧
    ∃ l, (simulateAll cfg r outs).runner.reps = .list l ∧ l.length = cfg.nvar := by
  obtain ⟨segs, sts, h1, _, _, h4, h5, _⟩ := simulate_all_spec cfg r outs h
  have hl := (RunsSpec_lengths cfg _ _ segs sts h1).2
  rw [List.length_range] at hl
  exact ⟨by rw [h4, List.length_map, hl], _, h5, by rw [List.length_map, hl]⟩

/-- **Order of execution**: the log of a completed `simulate()` never goes back to
    an earlier variation and names only variations `< n`. -/
theorem simulate_all_order (cfg : Cfg R) (r : Runner R) (outs : List (Outcome R))
    (h : (simulateAll cfg r outs).status = none) :
    (simulateAll cfg r outs).log.Pairwise (· ≤ ·) ∧
    ∀ i ∈ (simulateAll cfg r outs).log, i < cfg.nvar := by
  obtain ⟨segs, sts, _, _, h3, _⟩ := simulate_all_spec cfg r outs h
  rw [h3]
  refine ⟨logOf_sorted _ segs List.pairwise_lt_range, ?_⟩
  intro i hi
  exact List.mem_range.mp (mem_logOf _ segs i hi)

/-- **Every combination is run**: without loaded partial results each of the `n`
    variations receives at least one `_run_simulation` call. -/
theorem simulate_all_runs_every_variation (cfg : Cfg R) (r : Runner R) (outs : List (Outcome R))
    (hf : r.file = false) (h : (simulateAll cfg r outs).status = none) :
    ∀ i, i < cfg.nvar → i ∈ (simulateAll cfg r outs).log := by
  obtain ⟨segs, sts, h1, _, h3, _⟩ := simulate_all_spec cfg r outs h
  intro i hi
  rw [h3]
  have h1' : RunsSpec cfg (fun _ => none) (List.range cfg.nvar) segs sts :=
    RunsSpec_congr cfg _ _ _ segs sts (fun j _ => load_nofile r j hf) h1
  exact mem_logOf_of_ne_nil cfg _ _ segs sts h1' (RunsSpec_fresh_ne_nil cfg _ segs sts h1') i
    (List.mem_range.mpr hi)

/-- **Repeated `simulate()` starts from cleared results**: without a results file
    the outcome of `simulate()` does not depend on what the runner held before
    (results, `runned_reps`, even stale store contents): it equals the outcome on a
    brand-new runner. -/
theorem repeated_simulate_fresh (cfg : Cfg R) (r : Runner R) (outs : List (Outcome R))
    (hf : r.file = false) :
    (simulateAll cfg r outs).log = (simulateAll cfg (Runner.new false) outs).log ∧
    (simulateAll cfg r outs).rest = (simulateAll cfg (Runner.new false) outs).rest ∧
    (simulateAll cfg r outs).status = (simulateAll cfg (Runner.new false) outs).status ∧
    (simulateAll cfg r outs).runner.results = (simulateAll cfg (Runner.new false) outs).runner.results ∧
    (simulateAll cfg r outs).runner.reps = (simulateAll cfg (Runner.new false) outs).runner.reps ∧
    (simulateAll cfg r outs).runner.resultsReps
      = (simulateAll cfg (Runner.new false) outs).runner.resultsReps := by
  obtain ⟨c1, c2, c3, c4, c5, c6, _, _⟩ :=
    simVars_nofile_congr cfg (List.range cfg.nvar) r.clear (Runner.new false : Runner R).clear outs
      (by simp [Runner.clear, hf]) (by simp [Runner.clear, Runner.new]) (by simp [Runner.clear])
      (by simp [Runner.clear]) (by simp [Runner.clear])
  obtain ⟨f1, f2, f3, f4, _, _⟩ := simulateAll_fields cfg r outs
  obtain ⟨g1, g2, g3, g4, _, _⟩ := simulateAll_fields cfg (Runner.new false : Runner R) outs
  refine ⟨by rw [f1, g1, c1], by rw [f2, g2, c2], by rw [simulateAll_status, simulateAll_status, c3],
    by rw [f3, g3, c4], by rw [f4, g4, c5], ?_⟩
  rw [simulateAll_resultsReps, simulateAll_resultsReps, c3, c5, c6]

/-! ## `simulate(index)`: a single variation -/

/-- **A single index runs only that variation.**  With a results file and
    `0 ≤ idx < n`, a call that returns normally consumed exactly one complete run of
    variation `idx` (started from its partial file, if any), every logged call went
    to `idx`, `runned_reps` is that run's count, nothing is appended to the results,
    the partial file of `idx` holds the run and no other file is touched. -/
theorem simulate_single_spec (cfg : Cfg R) (r : Runner R) (idx : Int) (outs : List (Outcome R))
    (hf : r.file = true) (h0 : 0 ≤ idx) (hn : idx.toNat < cfg.nvar)
    (h : (simulateSingle cfg r idx outs).status = none) :
    ∃ seg st, IsVarRun cfg.merge cfg.repMax (cfg.keep idx.toNat) (r.load idx.toNat) seg st ∧
      outs = seg ++ (simulateSingle cfg r idx outs).rest ∧
      (simulateSingle cfg r idx outs).log = List.replicate seg.length idx.toNat ∧
      (simulateSingle cfg r idx outs).runner.reps = .single st.rep ∧
      (simulateSingle cfg r idx outs).runner.results = [] ∧
      (simulateSingle cfg r idx outs).runner.store.lookup idx.toNat = some st.saved ∧
      ∀ j, j ≠ idx.toNat →
        (simulateSingle cfg r idx outs).runner.store.lookup j = r.store.lookup j := by
  unfold simulateSingle at h ⊢
  have hfc : r.clear.file = true := by simp [Runner.clear, hf]
  simp only [hf, Bool.not_true, Bool.false_eq_true, if_false, h0, hn, and_self, if_true] at h ⊢
  cases hrv : runVariation cfg.merge cfg.repMax (cfg.keep idx.toNat) (r.clear.load idx.toNat) outs with
  | starved c => rw [hrv] at h; simp at h
  | done e =>
    rw [hrv] at h
    simp only at h ⊢
    by_cases hex : e.exhausted = true
    · simp [hex] at h
    · have hex' : e.exhausted = false := by simpa using hex
      simp only [hex', Bool.false_eq_true, if_false]
      have hload : r.clear.load idx.toNat = r.load idx.toNat := rfl
      rw [hload] at hrv
      obtain ⟨seg, h1, h2⟩ :=
        runVariation_isVarRun cfg.merge cfg.repMax (cfg.keep idx.toNat) _ outs e hrv hex'
      refine ⟨seg, e.st, h2, h1, by rw [stateOf_calls _ _ _ _ h2.1], rfl, ?_, ?_, ?_⟩
      · show (r.clear.save idx.toNat e.st).results = []
        rw [(save_results r.clear idx.toNat e.st).1]; rfl
      · have := lookup_save r.clear idx.toNat idx.toNat e.st
        simpa [hfc] using this
      · intro j hj
        have := lookup_save r.clear idx.toNat j e.st
        simpa [hfc, hj, Runner.clear] using this

/-- An index outside `0 … n-1` runs nothing (and clears the results). -/
theorem simulate_single_out_of_range (cfg : Cfg R) (r : Runner R) (idx : Int)
    (outs : List (Outcome R)) (hf : r.file = true) (hout : ¬ (0 ≤ idx ∧ idx.toNat < cfg.nvar)) :
    (simulateSingle cfg r idx outs).log = [] ∧ (simulateSingle cfg r idx outs).rest = outs ∧
    (simulateSingle cfg r idx outs).runner = r.clear := by
  unfold simulateSingle
  have hfc : r.clear.file = true := by simp [Runner.clear, hf]
  simp [hf, hout]

/-- **A rejected call leaves the runner as it was** (R4): without a results file a
    single-variation call is refused before anything runs or is cleared — results,
    `runned_reps`, partial files and the stream are untouched. -/
theorem simulate_single_needs_file (cfg : Cfg R) (r : Runner R) (idx : Int)
    (outs : List (Outcome R)) (hf : r.file = false) :
    (simulateSingle cfg r idx outs).status = some .RuntimeError ∧
    (simulateSingle cfg r idx outs).log = [] ∧ (simulateSingle cfg r idx outs).rest = outs ∧
    (simulateSingle cfg r idx outs).runner = r := by
  unfold simulateSingle
  simp [hf]

/-! ## The parameter grid -/

/-- `get_num_unpacked_variations` = number of combinations = product of the lengths. -/
theorem num_variations_eq_prod {V : Type} (ps : List (Param V)) :
    (combos ps).length = prod (dimsOf ps) := combos_length ps

/-- **Unpack order.**  Combination `i` carries, for the `k`-th name in sorted order,
    the value at position `dₖ(i)` of that parameter, where `d(i)` is the mixed-radix
    expansion of `i` over the lengths (first sorted name most significant, last
    fastest). -/
theorem unpack_order {V : Type} (ps : List (Param V)) (i : Nat) (hi : i < prod (dimsOf ps)) :
    (combos ps)[i]? = pick ((sortParams ps).map (·.2)) (digits (dimsOf ps) i) :=
  combos_getElem? ps i hi

/-- The digits really are the mixed-radix expansion: each is below the length of
    its parameter and `Σ dₖ · Π_{j>k} len_j = i`. -/
theorem unpack_digits (dims : List Nat) (i : Nat) (hi : i < prod dims) :
    (digits dims i).length = dims.length ∧
    fromDigits dims (digits dims i) = i ∧
    ∀ (k d x : Nat), dims[k]? = some d → (digits dims i)[k]? = some x → x < d :=
  ⟨digits_length dims i, fromDigits_digits dims i hi, digits_lt dims i hi⟩

/-- The names are used in sorted order: `sortParams` is a permutation of the
    unpacked parameters whose names are non-decreasing. -/
theorem unpack_names_sorted {V : Type} (ps : List (Param V)) :
    (sortParams ps).Perm ps ∧ (sortParams ps).Pairwise (fun a b => a.1 ≤ b.1) :=
  ⟨sortParams_perm ps, sortParams_sorted ps⟩

/-- the full lookup statement (false for the current code when a value is listed
    twice, see `pack_indexes_dup_first`) -/
def PackIndexesStatement (V : Type) [BEq V] : Prop :=
  ∀ (ps : List (Param V)) (fixed : List (String × V)) (idx : List Nat),
    packIndexes ps fixed = .ok idx →
    idx = (List.range (prod (dimsOf ps))).filter (fun i =>
        match (combos ps)[i]? with
        | some c => comboMatches fixed (sortParams ps) c
        | none => false)

/-- **Lookup by fixed values returns precisely the matching combinations**, in
    increasing order, for duplicate-free value lists (the hypothesis the code needs,
    `pack_indexes_dup_first`): `i` is returned iff combination `i` carries every
    fixed value of an unpacked parameter. -/
theorem pack_indexes_spec_partial {V : Type} [BEq V] [LawfulBEq V] (ps : List (Param V))
    (fixed : List (String × V)) (idx : List Nat)
    (hnd : ∀ p ∈ ps, p.2.Nodup) (h : packIndexes ps fixed = .ok idx) :
    idx = (List.range (prod (dimsOf ps))).filter (fun i =>
        match (combos ps)[i]? with
        | some c => comboMatches fixed (sortParams ps) c
        | none => false) :=
  packIndexes_eq_filter ps fixed idx hnd h

/-- The only rejection: `ValueError`, raised exactly because a fixed value of an
    unpacked parameter is not among that parameter's values (then no combination
    matches). -/
theorem pack_indexes_error {V : Type} [BEq V] [LawfulBEq V] (ps : List (Param V))
    (fixed : List (String × V)) (e : Err) (h : packIndexes ps fixed = .error e) :
    e = .ValueError ∧
    ∃ name vals w, (name, vals) ∈ ps ∧ fixed.lookup name = some w ∧ w ∉ vals := by
  unfold packIndexes at h
  by_cases hemp : (sortParams ps).isEmpty = true
  · simp [hemp] at h
  · simp only [hemp, Bool.false_eq_true, if_false] at h
    cases hs : selectors fixed (sortParams ps) with
    | ok sel => rw [hs] at h; simp [Except.map] at h
    | error e' =>
      rw [hs] at h
      simp only [Except.map, Except.error.injEq] at h
      subst h
      obtain ⟨h1, name, vals, w, hm, h2, h3⟩ := selectors_error fixed (sortParams ps) e' hs
      exact ⟨h1, name, vals, w, (sortParams_perm ps).mem_iff.mp hm, h2, h3⟩

/-- **Negative witness (known finding)**: with the value `1` listed twice in the
    unpacked parameter `a = [1, 2, 1]`, looking up `a = 1` returns only variation 0
    although variations 0 and 2 both carry it: the full statement is false for the
    code as it is. -/
theorem pack_indexes_dup_first : ¬ PackIndexesStatement Nat := by
  intro h
  have hs : sortParams [("a", [1, 2, 1])] = [("a", [1, 2, 1])] := by simp [sortParams]
  have := h [("a", [1, 2, 1])] [("a", 1)] [0] (by simp only [packIndexes, hs]; decide)
  simp only [combos, dimsOf, hs] at this
  revert this
  decide

/-- **The results lookup returns the results of precisely the matching
    combinations**, in order, when one result per variation is stored. -/
theorem lookup_precise_partial {V X : Type} [BEq V] [LawfulBEq V] (ps : List (Param V))
    (results : List X) (fixed : List (String × V)) (out : List X)
    (hnd : ∀ p ∈ ps, p.2.Nodup) (hlen : results.length = prod (dimsOf ps))
    (hfx : fixed.isEmpty = false) (h : resultValues ps results fixed = .ok out) :
    out = ((List.range (prod (dimsOf ps))).filter (fun i =>
        match (combos ps)[i]? with
        | some c => comboMatches fixed (sortParams ps) c
        | none => false)).filterMap (fun i => results[i]?) := by
  unfold resultValues at h
  simp only [hfx, Bool.false_eq_true, if_false] at h
  cases hp : packIndexes ps fixed with
  | error e => rw [hp] at h; simp at h
  | ok idx =>
    rw [hp] at h
    simp only at h
    split at h
    · simp at h
    · simp only [Except.ok.injEq] at h
      subst h
      have hidx := packIndexes_eq_filter ps fixed idx hnd hp
      rw [lookupValues_eq, hlen]
      congr 1
      apply List.filter_congr
      intro i hi
      have hi' := List.mem_range.mp hi
      rw [hidx]
      cases hc : (match (combos ps)[i]? with
        | some c => comboMatches fixed (sortParams ps) c
        | none => false) <;> simp [List.mem_filter, hi'] <;> exact hc

/-- With an empty dictionary of fixed values every stored result is returned. -/
theorem lookup_no_constraint {V X : Type} [BEq V] (ps : List (Param V)) (results : List X)
    (hne : results.isEmpty = false) :
    resultValues ps results ([] : List (String × V)) = .ok results := by
  simp [resultValues, hne]

/-! ## The parameters object keeps no derived state -/

/-- `add` (or `params[name] = value`) installs the new value — a value list of any
    other length included — and touches nothing else. -/
theorem content_after_add (s : PState) (name : String) (v : PVal) :
    (s.step (.add name v)).2 = none ∧
    (s.step (.add name v)).1.params.lookup name = some v ∧
    (∀ m, m ≠ name → (s.step (.add name v)).1.params.lookup m = s.params.lookup m) ∧
    (s.step (.add name v)).1.unpacked = s.unpacked := by
  refine ⟨rfl, ?_, ?_, rfl⟩
  · simp [PState.step, lookup_dictSet]
  · intro m hm; simp [PState.step, lookup_dictSet, hm]

/-- `remove` of a stored parameter also takes it out of the unpacked set and leaves
    every other parameter as it was; of an unknown one it raises `KeyError` and
    changes nothing. -/
theorem content_after_remove (s : PState) (name : String) (hn : s.unpacked.Nodup) :
    (s.params.lookup name = none →
        s.step (.remove name) = (s, some .KeyError)) ∧
    (s.params.lookup name ≠ none →
        (s.step (.remove name)).2 = none ∧
        name ∉ (s.step (.remove name)).1.unpacked ∧
        (∀ m, m ≠ name → (s.step (.remove name)).1.params.lookup m = s.params.lookup m) ∧
        (∀ m, m ≠ name → (m ∈ (s.step (.remove name)).1.unpacked ↔ m ∈ s.unpacked))) := by
  constructor
  · intro h; simp [PState.step, h]
  · intro h
    cases hl : s.params.lookup name with
    | none => exact absurd hl h
    | some w =>
      simp only [PState.step, hl]
      refine ⟨trivial, ?_, ?_, ?_⟩
      · exact fun hm => (List.Nodup.mem_erase_iff hn).mp hm |>.1 rfl
      · intro m hm; exact lookup_dictDel_ne name m hm s.params
      · intro m hm; exact List.mem_erase_of_ne hm

/-- **A rejected call leaves the parameters object as it was** (R4): whenever
    `add` / `remove` / `set_unpack_parameter` raises, the state is the one before. -/
theorem rejected_param_call_leaves_state (s : PState) (op : POp)
    (h : (s.step op).2 ≠ none) : (s.step op).1 = s := by
  cases op with
  | add name v => simp [PState.step] at h
  | remove name =>
    simp only [PState.step] at h ⊢
    split <;> simp_all
  | setUnpack name b =>
    simp only [PState.step] at h ⊢
    cases hl : s.params.lookup name with
    | none => simp [hl]
    | some w =>
      cases w with
      | scalar v => simp [hl]
      | list vs =>
        simp only [hl] at h ⊢
        by_cases hb : b = true
        · simp [hb] at h
        · by_cases hm : name ∈ s.unpacked
          · simp [hb, hm] at h
          · simp [hb, hm]

/-- The unpacked set of every object reachable by any history of calls is
    duplicate-free (it is a set). -/
theorem params_reachable_wf (ops : List POp) : (PState.empty.run ops).unpacked.Nodup :=
  run_unpacked_nodup ops PState.empty (by simp [PState.empty])

/-- **No stale derived state.**  Whatever histories of `add` / replace / `remove` /
    `set_unpack_parameter` calls (failed ones included) produced two parameter
    objects, if they now store the same thing — same dictionary, same unpacked set —
    then every look-up agrees on them: number of variations, the list of
    combinations, `get_pack_indexes(fixed)` and `get_result_values_list(name, fixed)`
    for every `fixed` and every stored results list.  In particular a look-up after
    any history equals the look-up on a freshly built object with the current
    content (take for `ops'` any sequence of calls that builds it). -/
theorem lookup_no_stale_state {X : Type} (ops ops' : List POp)
    (hc : SameContent (PState.empty.run ops) (PState.empty.run ops'))
    (results : List X) (fixed : List (String × Int)) :
    (PState.empty.run ops).lookup results fixed = (PState.empty.run ops').lookup results fixed :=
  lookup_sameContent _ _ (params_reachable_wf ops) (params_reachable_wf ops') hc results fixed

/-- The same for arbitrary (not necessarily reachable) objects with duplicate-free sets. -/
theorem lookup_depends_only_on_content {X : Type} (s s' : PState) (hn : s.unpacked.Nodup)
    (hn' : s'.unpacked.Nodup) (hc : SameContent s s') (results : List X)
    (fixed : List (String × Int)) :
    s.lookup results fixed = s'.lookup results fixed :=
  lookup_sameContent s s' hn hn' hc results fixed

/-! ## R15 — values are compared exactly; R16 — the object holds contents, not containers -/

/-- **Exact look-ups (R15).**  The model sees the values of the parameters only through
    `==`: every look-up commutes with ANY injective renaming `f` of the values — the
    variations carry the renamed values in the same order, `get_pack_indexes` and
    `get_result_values_list` return the same positions / results.  So it does not matter
    how close the images of two distinct values are (`f` = base integer ↦ a member of a
    cluster of floats 1 ulp, 1e-13, a relative 1e-6 apart, or all below 1e-8): they stay
    distinct and each one is looked up exactly; no tolerance, rounding or threshold
    identifies them. -/
theorem lookup_exact {V W X : Type} [BEq V] [LawfulBEq V] [BEq W] [LawfulBEq W] (f : V → W)
    (hf : ∀ a b, f a = f b → a = b) (ps : List (Param V)) (results : List X)
    (fixed : List (String × V)) :
    combos (relabel f ps) = (combos ps).map (List.map f) ∧
    packIndexes (relabel f ps) (relabelFixed f fixed) = packIndexes ps fixed ∧
    resultValues (relabel f ps) results (relabelFixed f fixed) = resultValues ps results fixed :=
  ⟨combos_relabel f ps, packIndexes_relabel f hf ps fixed, resultValues_relabel f hf ps results fixed⟩

/-- **Distinct listed values are looked up separately (R15)**, whatever they are: two
    different values of an unpacked parameter never resolve to the same variation, and
    each resolves to the position where it is listed. -/
theorem close_values_looked_up_separately {V : Type} [BEq V] [LawfulBEq V] (name : String)
    (vals : List V) (v w : V) (hv : v ∈ vals) (hw : w ∈ vals) (hne : v ≠ w) :
    ∃ k j, packIndexes [(name, vals)] [(name, v)] = .ok [k] ∧
           packIndexes [(name, vals)] [(name, w)] = .ok [j] ∧
           vals[k]? = some v ∧ vals[j]? = some w ∧ k ≠ j := by
  obtain ⟨k, hk⟩ := indexOf_of_mem v vals hv
  obtain ⟨j, hj⟩ := indexOf_of_mem w vals hw
  refine ⟨k, j, packIndexes_single name vals v k hk, packIndexes_single name vals w j hj,
    (indexOf_some v vals k hk).1, (indexOf_some w vals j hj).1, ?_⟩
  intro e
  subst e
  exact hne (indexOf_separates v w vals k hk hj)

/-- **A setter called with ANY new value takes effect (R15)**: after `add(name, v)` the
    object stores exactly `v`, and storing a different value — however close — gives a
    different stored value: there is no "unchanged, skip" path in the model. -/
theorem setter_takes_effect_for_every_new_value (s : PState) (name : String) (v v' : PVal)
    (hne : v' ≠ v) :
    (s.step (.add name v)).1.params.lookup name = some v ∧
    (s.step (.add name v')).1.params.lookup name ≠ (s.step (.add name v)).1.params.lookup name := by
  have h1 := (content_after_add s name v).2.1
  have h2 := (content_after_add s name v').2.1
  refine ⟨h1, ?_⟩
  rw [h1, h2]
  exact fun e => hne (Option.some.inj e)

/-- **Refilling a container that is bound to two parameters (R16).**  The object holds
    contents: overwriting in place the one container that was handed over for the
    parameters `a` and `b` is the replacement of both value lists, and after any history
    every look-up is the same whichever of the two is considered replaced first — and,
    by `lookup_no_stale_state`, the same as on an object freshly built with the new
    contents. -/
theorem refill_of_shared_container {X : Type} (ops : List POp) (a b : String) (v : PVal)
    (hab : a ≠ b) (results : List X) (fixed : List (String × Int)) :
    (PState.empty.run (ops ++ [.add a v, .add b v])).lookup results fixed =
    (PState.empty.run (ops ++ [.add b v, .add a v])).lookup results fixed := by
  apply lookup_no_stale_state
  rw [run_append, run_append]
  exact sameContent_add_comm _ a b v v hab

/-! ## Every observable of a stored `Result` is the fold of the repetitions -/

/-- **The accumulated value / total lists of a stored result hold the values of ALL
    merged repetitions, in order** — for every result type (MISCTYPE included) as soon
    as the first result accumulates; type and accumulate flag are those of the first. -/
theorem merged_lists_are_concat (r : RVal) (rs : List RVal) (h : r.acc = true) :
    (rs.foldl RVal.merge r).vlist = r.vlist ++ rs.flatMap (·.vlist) ∧
    (rs.foldl RVal.merge r).tlist = r.tlist ++ rs.flatMap (·.tlist) ∧
    (rs.foldl RVal.merge r).ty = r.ty ∧ (rs.foldl RVal.merge r).acc = true := by
  obtain ⟨h1, h2⟩ := foldl_merge_lists_acc rs r h
  obtain ⟨h3, h4⟩ := foldl_merge_ty_acc rs r
  exact ⟨h1, h2, h3, by rw [h4, h]⟩

/-- A result that does not accumulate keeps its (empty) lists whatever is merged. -/
theorem merged_lists_untouched_without_accumulate (r : RVal) (rs : List RVal) (h : r.acc = false) :
    (rs.foldl RVal.merge r).vlist = r.vlist ∧ (rs.foldl RVal.merge r).tlist = r.tlist :=
  foldl_merge_lists_noacc rs r h

/-- SUM / RATIO / CHOICE: value, total and `num_updates` of the stored result are the
    sums over the merged repetitions. -/
theorem merged_counts_are_sums (r : RVal) (rs : List RVal) (h : r.ty ≠ .misc) :
    (rs.foldl RVal.merge r).n = r.n + (rs.map (·.n)).sum ∧
    (rs.foldl RVal.merge r).value = r.value + (rs.map (·.value)).sum ∧
    (rs.foldl RVal.merge r).total = r.total + (rs.map (·.total)).sum :=
  foldl_merge_counts rs r h

/-- MISC: value, total and `num_updates` are those of the LAST merged repetition. -/
theorem merged_misc_is_last (r l : RVal) (rs : List RVal) (h : r.ty = .misc) :
    ((rs ++ [l]).foldl RVal.merge r).value = l.value ∧ ((rs ++ [l]).foldl RVal.merge r).n = l.n ∧
    ((rs ++ [l]).foldl RVal.merge r).total = l.total :=
  foldl_merge_misc_last rs l r h

/-- **Through the runner**: the result stored for a combination accumulates the values
    of every successful repetition of that combination, in execution order, and of no
    skipped one — the composition of `run_acc_is_merge` with the fold lemmas, for any
    `rep_max`, stop rule, skip pattern and result type. -/
theorem stored_result_accumulates_every_repetition (repMax : Nat) (keep : Keep RVal)
    (outs : List (Outcome RVal)) (e : VarEnd RVal)
    (h : runVariation RVal.merge repMax keep none outs = .done e) :
    ∃ seg r rs, outs = seg ++ e.rest ∧ oks seg = r :: rs ∧
      e.st.acc.ty = r.ty ∧ e.st.acc.acc = r.acc ∧
      (r.acc = true → e.st.acc.vlist = (oks seg).flatMap (·.vlist) ∧
                      e.st.acc.tlist = (oks seg).flatMap (·.tlist)) ∧
      (r.acc = false → e.st.acc.vlist = r.vlist ∧ e.st.acc.tlist = r.tlist) := by
  obtain ⟨seg, r, rs, h1, h2, h3, _⟩ := run_acc_is_merge RVal.merge repMax keep outs e h
  refine ⟨seg, r, rs, h1, h2, ?_, ?_, ?_, ?_⟩
  · rw [h3]; exact (foldl_merge_ty_acc rs r).1
  · rw [h3]; exact (foldl_merge_ty_acc rs r).2
  · intro ha
    rw [h3, h2]
    simpa using foldl_merge_lists_acc rs r ha
  · intro ha
    rw [h3]; exact foldl_merge_lists_noacc rs r ha

/-! ## Non-vacuity: the hypotheses are satisfiable by non-trivial values -/

/-- three repetitions of an accumulating MISCTYPE result (two updates each) and of an
    accumulating RATIOTYPE result: lists of all repetitions, last value / summed value -/
example :
    let m (a : Int) := ((RVal.new .misc true).update a 0).update (a + 1) 0
    let q (a : Int) := (RVal.new .ratio true).update a 8
    (([m 4, m 9].foldl RVal.merge (m 1)).vlist, ([m 4, m 9].foldl RVal.merge (m 1)).value,
     ([m 4, m 9].foldl RVal.merge (m 1)).n,
     ([q 2, q 3].foldl RVal.merge (q 1)).vlist, ([q 2, q 3].foldl RVal.merge (q 1)).tlist,
     ([q 2, q 3].foldl RVal.merge (q 1)).value, ([q 2, q 3].foldl RVal.merge (q 1)).n)
    = ([1, 2, 4, 5, 9, 10], 10, 2, [1, 2, 3], [8, 8, 8], 6, 3) := by decide


/-- two different histories with the same final content: one replaces the value list
    of `a` by a list of another length, removes and re-adds `b`, fails twice on the
    way; the other builds the object directly, in another order -/
example :
    let h1 : List POp := [.add "a" (.list [1, 2]), .add "b" (.list [5]), .setUnpack "a" true,
      .setUnpack "zz" true, .add "a" (.list [7, 8, 9]), .remove "b", .remove "b",
      .add "b" (.list [3, 4]), .setUnpack "b" true, .add "c" (.scalar 0)]
    let h2 : List POp := [.add "c" (.scalar 0), .add "b" (.list [3, 4]), .add "a" (.list [7, 8, 9]),
      .setUnpack "b" true, .setUnpack "a" true]
    ((PState.empty.run h1).params, (PState.empty.run h1).unpacked,
      (PState.empty.run h2).params, (PState.empty.run h2).unpacked)
    = ([("a", .list [7, 8, 9]), ("b", .list [3, 4]), ("c", .scalar 0)], ["b", "a"],
       [("c", .scalar 0), ("b", .list [3, 4]), ("a", .list [7, 8, 9])], ["a", "b"]) := by
  decide


/-- R15: the grid `a = [3, 4, 5]` renamed by the injective `b ↦ 2400000000 + 200 b` (values a
    relative 1e-7 apart): the renamed `4` is found at position 1, the renamed `6`, which is
    just as close but not listed, is refused -/
example :
    let f : Nat → Nat := fun b => 2400000000 + 200 * b
    (packIndexes (relabel f [("a", [3, 4, 5])]) (relabelFixed f [("a", 4)]),
     packIndexes (relabel f [("a", [3, 4, 5])]) (relabelFixed f [("a", 6)]),
     combos (relabel f [("a", [3, 4, 5])]))
      = (.ok [1], .error .ValueError, [[2400000600], [2400000800], [2400001000]]) := by
  intro f
  have hs : sortParams (relabel f [("a", [3, 4, 5])]) = relabel f [("a", [3, 4, 5])] := by
    simp [relabel, sortParams]
  simp only [packIndexes, combos, hs]
  decide

/-! ## Second tie: the control skeleton regenerated from the source

`Generated/C05Loop.lean` is re-emitted on every run from the AST of
`SimulationRunner._simulate_for_current_params_common` (harness/gen/c05.py: symbolic
execution, private helpers inlined, `while True` + `break` accepted): an automaton whose
states are the points at which the method waits for a repetition.  The theorems below are
re-checked against that file, so an edit of the source that changes a test, an update,
their order or the shape of the loop breaks one of them. -/

open PyPhysim.Generated.C05Loop in
/-- **The regenerated loop is the model.**  For every results type, merge, `rep_max`,
    `_keep_going`, loaded start and outcome stream: running the automaton regenerated from
    the source (entry: partial results loaded or first repetition, retried until it is not
    skipped; guard `keep ∧ rep < rep_max` before every further repetition; `ok` merges and
    counts, `skip` only moves `num_skipped_reps`; return) gives exactly the hand model's
    `runVariation` — same final state, same number of calls, same rest of the stream, same
    `exhausted` / `starved` outcome.  All theorems above therefore hold of the regenerated
    machine. -/
theorem generated_loop_matches_model (merge : R → R → R) (repMax : Nat) (keep : Keep R)
    (start : Option (R × Nat)) (outs : List (Outcome R)) :
    genResult (run merge repMax keep (entry repMax keep start) 0 outs)
      = runVariation merge repMax keep start outs :=
  gen_run_variation merge repMax keep start outs

open PyPhysim.Generated.C05Loop in
/-- **Final save = what is returned.**  Whenever the regenerated machine returns, the
    final `save_partial_results` call received exactly the returned `current_rep`, results
    and `num_skipped_reps` value (this is what `Runner.save` of the model stores). -/
theorem generated_final_save_is_returned (merge : R → R → R) (repMax : Nat) (keep : Keep R)
    (start : Option (R × Nat)) (outs : List (Outcome R)) (rep : Nat) (acc : R) (skipped : Nat)
    (saved : Saved R)
    (h : (run merge repMax keep (entry repMax keep start) 0 outs).1 = .ret rep acc skipped saved) :
    saved = ⟨acc, skipped, rep⟩ := by
  have := savedIsReturned_run merge repMax keep outs _ 0 (savedIsReturned_entry repMax keep start)
  rw [h] at this
  exact this

/-- **Order of the two stop tests in the source**: on every path that goes on to another
    repetition `_keep_going` is consulted first, then `current_rep < rep_max` (with a pure
    `keep` the two orders are indistinguishable for `generated_loop_matches_model`; the order
    matters for a `_keep_going` with side effects, so it is pinned here). -/
theorem generated_guard_order :
    PyPhysim.Generated.C05Loop.guardTests = [["keep", "limit"]] := by decide

/-- **Periodic save**: `save_partial_results_maybe` is called exactly once per iteration of
    the `while` loop (program point 1), after a merged AND after a skipped repetition, and not
    in the retry loop of the first repetition (program point 0). -/
theorem generated_periodic_save_once_per_iteration :
    PyPhysim.Generated.C05Loop.periodicSaveCalls
      = [(0, "ok", 0), (0, "skip", 0), (1, "ok", 1), (1, "skip", 1)] := by decide

open PyPhysim.Generated.C05Loop in
/-- the regenerated machine on a stream with a skipped first repetition, a stop rule that
    fires before the limit and a left-over outcome (same stream as the `runVariation` example
    below) -/
example :
    (match run (· + ·) 10 (fun acc _ _ => decide (acc < 5)) (entry 10 (fun acc _ _ => decide (acc < 5)) none) 0
        [.skip, .ok 2, .skip, .ok 2, .ok 3, .ok 9] with
     | (.ret rep acc skipped saved, n, rest) => (rep, acc, skipped, saved.rep, n, rest.length)
     | _ => (0, 0, 0, 0, 0, 0)) = (3, 7, 2, 3, 5, 1) := by decide


open PyPhysim.Generated.C05Grid in
/-- **The regenerated index computations are the model's.**  `Generated/C05Grid.lean` is
    re-emitted from the AST of `SimulationParameters.get_unpacked_params_list` and
    `get_num_unpacked_variations` (loops summarised as maps).  For every set of unpacked
    parameters: the list of combinations is `combos` (product over the name-SORTED
    parameters, last name fastest — so `unpack_order` holds of it),
    element `i` pairs the sorted names with combination `i` and carries `_unpack_index = i`,
    and the number of variations — a product of the lengths taken in the iteration order of a
    Python set, i.e. in ANY order `lens` — is the model's `prod (dimsOf ps)`. -/
theorem generated_grid_matches_model {V : Type} (ps : List (Param V)) :
    unpackedValues ps = combos ps ∧
    (∀ i, variation ps i = ((combos ps)[i]?).map (fun c => (((sortParams ps).map (·.1)).zip c, i))) ∧
    (∀ lens : List Nat, lens.Perm (dimsOf ps) → numVariations lens = prod (dimsOf ps)) :=
  ⟨gen_unpackedValues ps, gen_variation ps,
   fun lens h => (gen_numVariations lens).trans (prod_perm h)⟩

open PyPhysim.Generated.C05Grid in
/-- three unsorted names: element 3 of the regenerated list -/
example :
    variation [("b", [1, 2]), ("a", [5, 6, 7]), ("B", [9])] 3
      = some ([("B", 9), ("a", 6), ("b", 2)], 3) ∧ numVariations [2, 3, 1] = 6 := by
  have hs : sortParams [("b", [1, 2]), ("a", [5, 6, 7]), ("B", [9])]
      = [("B", [9]), ("a", [5, 6, 7]), ("b", [1, 2])] := by
    simp [sortParams, List.mergeSort, List.MergeSort.Internal.splitInTwo]
  refine ⟨?_, by decide⟩
  simp only [variation, unpackedValues, unpackedNames, hs]
  decide

/-- a variation with a skip in the first repetition, a stop rule that fires before
    the limit (`sum < 5`), and a left-over stream -/
example :
    (match runVariation (· + ·) 10 (fun acc _ _ => decide (acc < 5)) none
        [.skip, .ok 2, .skip, .ok 2, .ok 3, .ok 9] with
     | .done e => (e.st.acc, e.st.rep, e.st.skipped, e.st.calls, e.rest.length, e.exhausted)
     | .starved _ => (0, 0, 0, 0, 0, true)) = (7, 3, 2, 5, 1, false) := by decide

/-- a 2×2 grid, rep_max 2, no file: four variations, eight calls, in order -/
example :
    let cfg : Cfg Nat := ⟨(· + ·), 2, [2, 2], fun _ _ _ _ => true⟩
    let t := simulateAll cfg (Runner.new false) (List.replicate 9 (.ok 1))
    (t.status, t.log, t.runner.reps, t.rest.length)
      = (none, [0, 0, 1, 1, 2, 2, 3, 3], Reps.list [2, 2, 2, 2], 1) := by decide

/-- unsorted names, three unpacked parameters: order, count and a lookup -/
example :
    let ps : List (Param Nat) := [("b", [1, 2]), ("a", [5, 6, 7]), ("B", [9])]
    ((sortParams ps).map (·.1), (combos ps).length, (combos ps)[3]?,
      packIndexes ps [("a", 6), ("zz", 0)])
      = (["B", "a", "b"], 6, some [9, 6, 2], .ok [2, 3]) := by
  intro ps
  have hs : sortParams ps = [("B", [9]), ("a", [5, 6, 7]), ("b", [1, 2])] := by
    simp [ps, sortParams, List.mergeSort, List.MergeSort.Internal.splitInTwo]
  simp only [combos, packIndexes, hs]
  decide

end PyPhysim.C05
