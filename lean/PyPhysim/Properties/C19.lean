import PyPhysim.Proofs.C19Final
import PyPhysim.Proofs.C19Sec3
import PyPhysim.Proofs.C19State
import PyPhysim.Proofs.C19Robust
import PyPhysim.Proofs.C19Close
import PyPhysim.Proofs.C19Users
import PyPhysim.Generated.C19Tables

/-!
# C19 — cell geometry: containment, user placement and cluster layout are exact

Property theorems only.  The model (`PyPhysim.Model.C19`, `PyPhysim.Model.C19Cluster`) is tied
to `cell/shapes.py`, `cell/cell.py`, `pointprocess/pointprocess.py` by the correspondence of
`harness/props/c19.py` (the same definitions run at `Float` in the driver; 1e-9 of the shape
scale on coordinates, exact on discrete decisions taken away from ties).

Conventions: points are `(re, im)`; a rotation of `θ` degrees enters as the unit vector
`u = exp(jπθ/180) = Circ.cisDeg θ`, every theorem holds for every `u` with `norm2 u = 1`
(all rotations in `[-720, 720]` and beyond); `dist2` is the squared Euclidean distance.
`matplotlib.path.Path.contains_point` (the polygon test of `Shape.is_point_inside_shape`) and
`np.random` are parameters: `inside : Pt α → Bool` and an explicit stream of draws.
Binary64 rounding is outside the theorems.
-/
set_option linter.unusedSectionVars false

namespace PyPhysim.C19
open PyPhysim.Proto

section ordered_field
variable {α : Type} [Field α] [LinearOrder α] [IsStrictOrderedRing α]

/-! ## vertex generation, rotation, translation -/

/-- `Shape.vertices` places a shape by a rotation and a translation, and that is an isometry:
    distances between placed points are those of the unplaced shape, for every position and every
    rotation.  (This is what lifts every distance statement below to all rotations.) -/
theorem rot_isometry (pos u p q : Pt α) (hu : norm2 u = 1) :
    dist2 (padd pos (rot u p)) (padd pos (rot u q)) = dist2 p q := by
  rw [dist2_padd_left, dist2_rot, hu, one_mul]

/-! ## containment -/

/-- **Rectangle / CellSquare containment (repaired test).**  For every pair of corners, every
    rotation and every query point, `Rectangle.is_point_inside_shape` holds exactly when the point
    is a convex combination of the four vertices `Shape.vertices` reports. -/
theorem rect_contains_iff (first second u p : Pt α) (hu : norm2 u = 1) :
    rectInside (mkRect first second) u p = true ↔
      InHull (place (mkRect first second).pos u (rectVerts (mkRect first second))) p :=
  rect_contains_iff' _ u hu (mkRect_lower_le_upper first second).1 (mkRect_lower_le_upper first second).2 p

/-- … and the same for the `CellSquare` a cluster creates (centre handed to `CellBase.__init__`). -/
theorem square_contains_iff (side : α) (centre u p : Pt α) (hu : norm2 u = 1) :
    rectInside (squareCell side centre) u p = true ↔ InHull (squareCellVerts side u centre) p :=
  rect_contains_iff' _ u hu (pmin_le_pmax _ _) (pmin_le_pmax _ _) p

/-- `CellBase.add_user(absolute position)` adds exactly the points the containment test accepts and
    raises `ValueError` for every other point. -/
theorem add_user_iff_inside (inside : Pt α → Bool) (p : Pt α) :
    (addUser inside p = .ok p ↔ inside p = true) ∧ (addUser inside p = .error .ValueError ↔ inside p = false) := by
  unfold addUser
  cases inside p <;> simp

/-! ## border points -/

/-- **Border point lies on the boundary, in exactly the requested direction, scaled by the ratio.**
    For every polygon, centre, direction `d` and ratio: when `get_border_point` returns `p` there is a
    step `t > 0` with `b = pos + t·d` on an edge of the polygon (so `b` is on the ray from the centre
    in direction `d`), `p = pos + ratio·(b - pos)`, and no boundary point on the open ray is nearer
    to the centre than `b` (only edges whose line passes through the centre are excepted). -/
theorem border_point_on_boundary (pos : Pt α) (verts : List (Pt α)) (d : Pt α) (ratio : α) (p : Pt α)
    (h : borderPoint pos verts d ratio = .ok p) :
    ∃ t, 0 < t ∧ OnBoundary verts (padd pos (smul t d)) ∧ p = padd pos (smul (ratio * t) d) ∧
      ∀ e ∈ cyc verts, cross (psub e.1 pos) (psub e.2 pos) ≠ 0 → ∀ t', 0 < t' →
        OnSegment e.1 e.2 (padd pos (smul t' d)) → t ≤ t' :=
  borderPoint_spec' pos verts d ratio p h

/-- **A border point exists for every angle** of every polygon whose edges all run
    counter-clockwise as seen from the centre (star-shaped around a centre strictly inside). -/
theorem border_point_exists (pos : Pt α) (verts : List (Pt α)) (hne : verts ≠ [])
    (hstar : StarCCW (verts.map (fun v => psub v pos))) (d : Pt α) (hd : d ≠ (0, 0)) (ratio : α) :
    ∃ p, borderPoint pos verts d ratio = .ok p :=
  borderPoint_exists' pos verts hne hstar d hd ratio

/-- Every non-degenerate rectangle, in every rotation, has a border point in every direction. -/
theorem rect_border_point_exists (first second u d : Pt α) (hu : norm2 u = 1) (h1 : first.1 ≠ second.1)
    (h2 : first.2 ≠ second.2) (hd : d ≠ (0, 0)) (ratio : α) :
    ∃ p, borderPoint (mkRect first second).pos
      (place (mkRect first second).pos u (rectVerts (mkRect first second))) d ratio = .ok p := by
  obtain ⟨a, b, c, e⟩ := mkRect_centre_inside first second h1 h2
  apply borderPoint_exists' _ _ (by simp [place, rectVerts]) _ d hd ratio
  rw [place_rel]
  exact starCCW_rot _ u hu (rect_star _ a b c e)

/-- `add_border_user` validates the ratio: the user is placed with a ratio in `[0, 1]` (exactly `1`
    is nudged inside by `eps`), every ratio outside `[0, 1]` raises `ValueError`. -/
theorem border_user_ratio (ratio eps : α) (he0 : 0 ≤ eps) (he1 : eps ≤ 1) :
    (ratio < 0 ∨ 1 < ratio → validateRatio ratio eps = .error .ValueError) ∧
    (∀ r, validateRatio ratio eps = .ok r → 0 ≤ r ∧ r ≤ 1 ∧ (ratio ≠ 1 → r = ratio)) := by
  unfold validateRatio
  simp only [Nat.cast_one, Nat.cast_zero]
  constructor
  · intro h
    rw [if_neg (by intro hc; rcases h with h | h <;> linarith [hc.1, hc.2]), if_pos h]
  · intro r hr
    split_ifs at hr with h1 h2
    · simp only [Except.ok.injEq] at hr
      subst hr
      exact ⟨by linarith, by linarith, fun hne => absurd (le_antisymm h1.1 h1.2) hne⟩
    · simp only [Except.ok.injEq] at hr
      subst hr
      push Not at h2
      exact ⟨h2.1, h2.2, fun _ => rfl⟩

/-! ## random placement -/

/-- **Randomly placed users are inside their cell and not closer to the centre than requested.**
    For every containment test, centre, radius, `min_dist_ratio` and every stream of draws: if
    `add_random_user` places a user at `p` after `m` pairs of draws then `p` is inside the cell, is
    not closer to the centre than `ratio·radius`, is the candidate built from the `m`-th pair, every
    earlier candidate was outside or too close, and the final `add_user` accepts `p`. -/
theorem random_user_postcondition [Circ α] (inside : Pt α → Bool) (pos : Pt α) (R ratio : α)
    (us : List (α × α)) (p : Pt α) (m : ℕ) (h : addRandomUser inside pos R ratio us = some (p, m)) :
    inside p = true ∧ ¬ (dist pos p < ratio * R) ∧ addUser inside p = .ok p ∧
      ∃ k, m = k + 1 ∧ us[k]?.map (candidate pos R) = some p ∧
        ∀ j, j < k → ∃ uj, us[j]? = some uj ∧
          (inside (candidate pos R uj) = false ∨ dist pos (candidate pos R uj) < ratio * R) := by
  obtain ⟨k, _, hm, hp, hacc, hrej⟩ := firstAccepted_spec _ _ us 0 p m h
  simp only [acceptable, Bool.and_eq_true, Bool.not_eq_true', decide_eq_false_iff_not] at hacc
  refine ⟨hacc.1, hacc.2, by simp [addUser, hacc.1], k, by omega, hp, ?_⟩
  intro j hj
  obtain ⟨uj, h1, h2⟩ := hrej j hj
  refine ⟨uj, h1, ?_⟩
  simp only [acceptable, Bool.and_eq_false_iff, Bool.not_eq_false', decide_eq_true_eq] at h2
  exact h2

/-- … in particular a user placed at random in a `CellSquare`, in any rotation, is a convex
    combination of the cell's four vertices (this is what the rotation-blind test violated). -/
theorem square_random_user_in_cell [Circ α] (side : α) (centre u : Pt α) (hu : norm2 u = 1) (R ratio : α)
    (us : List (α × α)) (p : Pt α) (m : ℕ)
    (h : addRandomUser (rectInside (squareCell side centre) u) centre R ratio us = some (p, m)) :
    InHull (squareCellVerts side u centre) p ∧ ¬ (dist centre p < ratio * R) := by
  obtain ⟨hin, hd, _⟩ := random_user_postcondition _ centre R ratio us p m h
  exact ⟨(square_contains_iff side centre u p hu).mp hin, hd⟩

/-- every candidate is in the square `pos ± radius` (which contains the hexagon and the square cell) -/
theorem random_candidate_in_box (pos : Pt α) (R : α) (hR : 0 ≤ R) (u : α × α)
    (h1 : 0 ≤ u.1) (h1' : u.1 < 1) (h2 : 0 ≤ u.2) (h2' : u.2 < 1) :
    pos.1 - R ≤ (candidate pos R u).1 ∧ (candidate pos R u).1 ≤ pos.1 + R ∧
    pos.2 - R ≤ (candidate pos R u).2 ∧ (candidate pos R u).2 ≤ pos.2 + R :=
  candidate_in_box pos R hR u h1 h1' h2 h2'

/-! ## cluster layout (every layout) -/

/-- **Centred around the cluster position**: for every non-empty list of raw cell positions
    (hexagon rings of any size, square grids), every rotation and every cluster position, the mean
    of the cell centres is the cluster position. -/
theorem cluster_centroid (raw : List (Pt α)) (hne : raw ≠ []) (u pos : Pt α) :
    meanPt (clusterCentres raw u pos) = pos :=
  cluster_centroid' raw hne u pos

/-- Distances between cell centres do not depend on the rotation, the centring or the position. -/
theorem cluster_distances_invariant (raw : List (Pt α)) (u pos : Pt α) (hu : norm2 u = 1) (i j : ℕ)
    (ci cj : Pt α) (hi : (clusterCentres raw u pos)[i]? = some ci)
    (hj : (clusterCentres raw u pos)[j]? = some cj) :
    ∃ pi pj, raw[i]? = some pi ∧ raw[j]? = some pj ∧ dist2 ci cj = dist2 pi pj := by
  obtain ⟨pi, pj, h1, h2, h3, _⟩ := cluster_dist_invariant' raw u pos i j ci cj hi hj
  exact ⟨pi, pj, h1, h2, by rw [h3, hu, one_mul]⟩

/-- **Congruent cells**: every cell of a cluster is the same polygon translated to its centre. -/
theorem cells_congruent (base : List (Pt α)) (u ci cj : Pt α) :
    (cellVerts base u ci).map (fun v => psub v ci) = (cellVerts base u cj).map (fun v => psub v cj) :=
  cells_congruent' base u ci cj

/-! ## square clusters -/

/-- `k × k` cells are laid out for a perfect square … -/
theorem square_cluster_accepts (side : α) (k : ℕ) :
    squareRaw side (k * k) = .ok ((List.range (k * k)).map (squareRawPt side k)) :=
  squareRaw_ok side k

/-- … and every other cell count raises `ValueError`. -/
theorem square_cluster_rejects (side : α) (n : ℕ) (h : ¬ ∃ k, k * k = n) :
    squareRaw side n = .error .ValueError :=
  squareRaw_error side n h

/-- **Squares: no two cells closer than one side**, in any rotation, at any position. -/
theorem square_cluster_min_distance (side : α) (k : ℕ) (u pos : Pt α) (hu : norm2 u = 1) (i j : ℕ)
    (hij : i ≠ j) (ci cj : Pt α)
    (hi : (clusterCentres ((List.range (k * k)).map (squareRawPt side k)) u pos)[i]? = some ci)
    (hj : (clusterCentres ((List.range (k * k)).map (squareRawPt side k)) u pos)[j]? = some cj) :
    side * side ≤ dist2 ci cj := by
  obtain ⟨hin, hjn, hd, _⟩ := square_centres side k u pos i j ci cj hi hj
  rw [hd, hu, one_mul]
  exact square_min' side k i j hin hjn hij

/-- **Squares: grid neighbours are exactly one side apart** — the next cell of the same row and the
    cell one row further. -/
theorem square_cluster_neighbours (side : α) (k : ℕ) (hk : 0 < k) (u pos : Pt α) (hu : norm2 u = 1)
    (i : ℕ) (ci : Pt α)
    (hi : (clusterCentres ((List.range (k * k)).map (squareRawPt side k)) u pos)[i]? = some ci) :
    (∀ cj, (i + 1) % k ≠ 0 →
        (clusterCentres ((List.range (k * k)).map (squareRawPt side k)) u pos)[i + 1]? = some cj →
        dist2 ci cj = side * side) ∧
    (∀ cj, (clusterCentres ((List.range (k * k)).map (squareRawPt side k)) u pos)[i + k]? = some cj →
        dist2 ci cj = side * side) := by
  constructor
  · intro cj hrow hj
    obtain ⟨_, _, hd, _⟩ := square_centres side k u pos i (i + 1) ci cj hi hj
    rw [hd, hu, one_mul]
    exact square_adjacent_h' side k i hk hrow
  · intro cj hj
    obtain ⟨_, hjn, hd, _⟩ := square_centres side k u pos i (i + k) ci cj hi hj
    rw [hd, hu, one_mul]
    exact square_adjacent_v' side k i hk hjn

/-- **Squares touch without overlapping**: any two cells of a square cluster lie on different sides
    of a line (so the interiors of the two squares are disjoint), in any rotation. -/
theorem square_cluster_separated (side : α) (hs : 0 ≤ side) (k : ℕ) (u pos : Pt α) (hu : norm2 u = 1)
    (i j : ℕ) (hij : i ≠ j) (ci cj : Pt α)
    (hi : (clusterCentres ((List.range (k * k)).map (squareRawPt side k)) u pos)[i]? = some ci)
    (hj : (clusterCentres ((List.range (k * k)).map (squareRawPt side k)) u pos)[j]? = some cj) :
    Separated (squareCellVerts side u ci) (squareCellVerts side u cj) :=
  square_separated' side hs k u pos hu i j hij ci cj hi hj

/-! ## point process in a rectangle -/

/-- points requested inside a `w × h` rectangle are inside it, for all draws in `[0, 1)` -/
theorem points_in_rectangle_range (w h u v : α) (hw : 0 ≤ w) (hh : 0 ≤ h) (hu : 0 ≤ u) (hu' : u < 1)
    (hv : 0 ≤ v) (hv' : v < 1) :
    -(w / 2) ≤ (ppRectPoint w h u v).1 ∧ (ppRectPoint w h u v).1 ≤ w / 2 ∧
    -(h / 2) ≤ (ppRectPoint w h u v).2 ∧ (ppRectPoint w h u v).2 ≤ h / 2 :=
  ppRect_range w h u v hw hh hu hu' hv hv'
end ordered_field

/-! ## statements over ℝ (circle functions) -/
section real
open Real

/-- **Hexagon vertices.**  For every radius, position and rotation the six vertices
    `Hexagon.vertices` reports are at distance `radius` from the centre, consecutive vertices
    (cyclically) are `radius` apart — a regular hexagon — and before placement vertex `k` is
    `radius·exp(j(-120° + 60°k))`. -/
theorem hex_vertices_regular (R : ℝ) (pos u : Pt ℝ) (hu : norm2 u = 1) :
    (∀ v ∈ place pos u (hexVerts R), dist2 pos v = R * R) ∧
    (∀ e ∈ cyc (place pos u (hexVerts R)), dist2 e.1 e.2 = R * R) ∧
    hexVerts R = [smul R (E 8), smul R (E 10), smul R (E 0), smul R (E 2), smul R (E 4), smul R (E 6)] := by
  refine ⟨?_, ?_, by rw [hexVerts_eq, hexExplicit_eq]⟩
  · intro v hv
    simp only [place, List.mem_map] at hv
    obtain ⟨w, hw, rfl⟩ := hv
    rw [hexVerts_eq] at hw
    have := hex_norm2 R w hw
    have e : dist2 pos (padd pos (rot u w)) = norm2 (rot u w) := by
      simp only [dist2, norm2, psub, padd]; ring
    rw [e, norm2_rot, hu, one_mul, this]
  · intro e he
    simp only [place] at he
    rw [cyc_map] at he
    obtain ⟨e0, he0, rfl⟩ := List.mem_map.mp he
    rw [hexVerts_eq] at he0
    simp only
    rw [dist2_padd_left, dist2_rot, hu, one_mul]
    exact (hex_cyc R e0 he0).1

/-- Every hexagon cell (radius `> 0`), in every rotation, has a border point in every direction. -/
theorem hex_border_point_exists (R : ℝ) (hR : 0 < R) (pos u d : Pt ℝ) (hu : norm2 u = 1) (hd : d ≠ (0, 0))
    (ratio : ℝ) : ∃ p, borderPoint pos (place pos u (hexVerts R)) d ratio = .ok p := by
  apply borderPoint_exists' _ _ (by simp [place, hexVerts]) _ d hd ratio
  rw [place_rel]
  exact starCCW_rot _ u hu (hex_star R hR)

/-- **3-sector cell vertices.**  The twelve vertices `Cell3Sec` reports (the outer vertices of the
    union of its three sector hexagons) are at angles `-120° + 30°k` with radii repeating
    `R, R/√3, R, 2R/√3`. -/
theorem sec3_vertices (R : ℝ) :
    sec3Verts R =
      [smul R (E 8), smul (R / Real.sqrt 3) (E 9), smul R (E 10), smul (2 * R / Real.sqrt 3) (E 11),
       smul R (E 12), smul (R / Real.sqrt 3) (E 13), smul R (E 14), smul (2 * R / Real.sqrt 3) (E 15),
       smul R (E 16), smul (R / Real.sqrt 3) (E 17), smul R (E 18), smul (2 * R / Real.sqrt 3) (E 19)] :=
  sec3Verts_eq R

/-- Every 3-sector cell (radius `> 0`), in every rotation, has a border point in every direction. -/
theorem sec3_border_point_exists (R : ℝ) (hR : 0 < R) (pos u d : Pt ℝ) (hu : norm2 u = 1) (hd : d ≠ (0, 0))
    (ratio : ℝ) : ∃ p, borderPoint pos (place pos u (sec3Verts R)) d ratio = .ok p := by
  apply borderPoint_exists' _ _ (by rw [sec3Verts_eq]; simp [place, sec3Explicit]) _ d hd ratio
  rw [place_rel]
  exact starCCW_rot _ u hu (sec3_star R hR)

/-- `exp(j·30°·k)` is the unit vector the code computes for the angle `30k` degrees -/
theorem E_is_cisDeg (k : ℕ) : (Circ.cisDeg (((30 * k : ℕ)) : ℝ) : Pt ℝ) = E k ∧ norm2 (E k) = 1 :=
  ⟨cisDeg_mul30 k, E_norm2 k⟩

/-- **Circle containment**: `Circle.is_point_inside_shape` is the open disc of the circle's radius. -/
theorem circle_contains_iff (pos : Pt ℝ) (r : ℝ) (hr : 0 < r) (p : Pt ℝ) :
    circleInside pos r p = true ↔ dist2 pos p < r * r :=
  circleInside_iff pos r hr p

/-- … and the twelve vertices a `Circle` reports lie on that circle. -/
theorem circle_vertices_on_circle (pos : Pt ℝ) (r : ℝ) :
    ∀ v ∈ place pos (1, 0) (circleVerts r), dist2 pos v = r * r :=
  circleVerts_on_circle pos r

/-- **Circle border point**: in exactly the requested direction, at distance `ratio·radius`. -/
theorem circle_border_point (pos : Pt ℝ) (r ratio ang : ℝ) :
    psub (circleBorderPoint pos r (Circ.cisDeg ang) ratio) pos = smul (ratio * r) (Circ.cisDeg ang) ∧
    dist2 pos (circleBorderPoint pos r (Circ.cisDeg ang) ratio) = (ratio * r) * (ratio * r) :=
  circleBorder_spec pos r ratio ang

/-- every angle in degrees gives a unit direction, so the theorems stated for unit `u` cover all
    rotations and all border-point angles -/
theorem cisDeg_is_unit (a : ℝ) : norm2 (Circ.cisDeg a : Pt ℝ) = 1 := cisDeg_unit a

/-! ### hexagon clusters (sizes 1 … 19, hence {1,3,4,7,13,19}; also the 3-sector layout, which
uses the same centres) -/

/-- **First ring: exactly two apothems.**  Cells `2…7` are two apothems (`2·height`) from cell `1`
    and from their next neighbour on the ring, for every cell radius, rotation and position. -/
theorem hex_cluster_first_ring (n : ℕ) (hn : n ≤ 19) (R : ℝ) (u pos : Pt ℝ) (hu : norm2 u = 1) (i : ℕ)
    (h1 : 1 ≤ i) (h6 : i ≤ 6) (c0 ci : Pt ℝ) (h0 : (clusterCentres (hexRaw R n) u pos)[0]? = some c0)
    (hi : (clusterCentres (hexRaw R n) u pos)[i]? = some ci) :
    dist2 c0 ci = (2 * hexHeight R) * (2 * hexHeight R) ∧
      ∀ cn, (clusterCentres (hexRaw R n) u pos)[i % 6 + 1]? = some cn →
        dist2 ci cn = (2 * hexHeight R) * (2 * hexHeight R) :=
  hex_ring1' n hn R u pos hu i h1 h6 c0 ci h0 hi

/-- **Second ring** (sizes 13, 19): distances from the centre cell alternate `3·radius`, `4·height`. -/
theorem hex_cluster_second_ring (n : ℕ) (hn : n ≤ 19) (R : ℝ) (u pos : Pt ℝ) (hu : norm2 u = 1) (i : ℕ)
    (h7 : 7 ≤ i) (c0 ci : Pt ℝ) (h0 : (clusterCentres (hexRaw R n) u pos)[0]? = some c0)
    (hi : (clusterCentres (hexRaw R n) u pos)[i]? = some ci) :
    dist2 c0 ci = if (i - 7) % 2 = 0 then (3 * R) * (3 * R) else (4 * hexHeight R) * (4 * hexHeight R) :=
  hex_ring2' n hn R u pos hu i h7 c0 ci h0 hi

/-- **No two centres closer than two apothems**, for every size `≤ 19`, rotation and position. -/
theorem hex_cluster_min_distance (n : ℕ) (hn : n ≤ 19) (R : ℝ) (u pos : Pt ℝ) (hu : norm2 u = 1) (i j : ℕ)
    (hij : i ≠ j) (ci cj : Pt ℝ) (hi : (clusterCentres (hexRaw R n) u pos)[i]? = some ci)
    (hj : (clusterCentres (hexRaw R n) u pos)[j]? = some cj) :
    (2 * hexHeight R) * (2 * hexHeight R) ≤ dist2 ci cj :=
  hex_min' n hn R u pos hu i j hij ci cj hi hj

/-- **Cells touch**: every cell but the first is exactly two apothems from an earlier cell (so the
    cluster is connected through touching cells, for every size). -/
theorem hex_cluster_touching (n : ℕ) (hn : n ≤ 19) (R : ℝ) (u pos : Pt ℝ) (hu : norm2 u = 1) (i : ℕ)
    (h1 : 1 ≤ i) (ci : Pt ℝ) (hi : (clusterCentres (hexRaw R n) u pos)[i]? = some ci) :
    ∃ j cj, j < i ∧ (clusterCentres (hexRaw R n) u pos)[j]? = some cj ∧
      dist2 ci cj = (2 * hexHeight R) * (2 * hexHeight R) :=
  hex_touch' n hn R u pos hu i h1 ci hi

/-- **Hexagons touch without overlapping**: any two cells of a hexagon cluster lie on different sides
    of a line (so the interiors of the two hexagons are disjoint), in any rotation. -/
theorem hex_cluster_separated (n : ℕ) (hn : n ≤ 19) (R : ℝ) (hR : 0 ≤ R) (u pos : Pt ℝ) (hu : norm2 u = 1)
    (i j : ℕ) (hij : i ≠ j) (ci cj : Pt ℝ)
    (hi : (clusterCentres (hexRaw R n) u pos)[i]? = some ci)
    (hj : (clusterCentres (hexRaw R n) u pos)[j]? = some cj) :
    Separated (cellVerts (hexVerts R) u ci) (cellVerts (hexVerts R) u cj) :=
  hex_separated' n hn R hR u pos hu i j hij ci cj hi hj

/-! ### distances and the circular point process -/

/-- **Distance matrix**: entry `(i, j)` is the Euclidean distance from user `i` to cell `j`:
    non-negative with square `dist2`. -/
theorem dist_matrix_euclidean (users cells : List (Pt ℝ)) (i j : ℕ) (us c : Pt ℝ)
    (hu : users[i]? = some us) (hc : cells[j]? = some c) :
    ∃ x, (distMatrix users cells)[i]?.bind (fun row => row[j]?) = some x ∧ 0 ≤ x ∧ x * x = dist2 us c :=
  ⟨dist us c, distMatrix_entry users cells i j us c hu hc, (dist_spec us c).1, (dist_spec us c).2⟩

/-- the matrix has one row per user and one column per cell -/
theorem dist_matrix_shape (users cells : List (Pt ℝ)) :
    (distMatrix users cells).length = users.length ∧ ∀ row ∈ distMatrix users cells, row.length = cells.length := by
  constructor
  · simp [distMatrix]
  · intro row hr
    simp only [distMatrix, List.mem_map] at hr
    obtain ⟨_, _, rfl⟩ := hr
    simp

/-- **Points requested inside a circle (annulus) fall inside it**: for all draws `u, v` with
    `u < 1` the point is at distance `ρ` from the origin with `min_radius ≤ ρ ≤ max_radius`. -/
theorem points_in_circle_range (rmax rmin u v : ℝ) (h1 : rmin ≤ rmax) (hu' : u < 1) :
    norm2 (ppCirclePoint rmax rmin u v) = ppRadius rmax rmin u * ppRadius rmax rmin u ∧
    rmin ≤ ppRadius rmax rmin u ∧ ppRadius rmax rmin u ≤ rmax :=
  ⟨ppCircle_norm rmax rmin u v, ppRadius_range rmax rmin u h1 hu'⟩
end real

/-! ## cell objects under setter histories: no stale derived state -/

section state
variable {α : Type} [Field α] [LinearOrder α] [IsStrictOrderedRing α] [Circ α]

/-- **No stale derived state.**  For every cell class (`Cell`, `Cell3Sec` with its three sector
    cells, `CellSquare` with its stored corners) and every history of `pos` / `radius` / `rotation`
    setter calls and `move_by_relative_coordinate` / `move_by_relative_polar_coordinate` calls
    (radii positive), the stored state equals the state of a freshly constructed cell
    with the current position, radius and rotation — which are the values the last setters wrote. -/
theorem no_stale_state (k : CellKind) (hs : 0 < Circ.sqrt ((2 : ℕ) : α)) (ops : List (CellOp α)) (p : Pt α)
    (R θ : α) (hR : 0 < R) (hok : OpsOk ops) :
    let st := run (fresh k p R θ) ops
    st = fresh k st.pos st.radius st.rot ∧ (st.pos, st.radius, st.rot) = params p R θ ops := by
  intro st
  have h1 := (run_fresh k hs ops p R θ hR hok).1
  have h2 := (run_fields (fresh k p R θ) ops).1
  have hp : params (fresh k p R θ).pos (fresh k p R θ).radius (fresh k p R θ).rot ops = params p R θ ops := by
    cases k <;> rfl
  rw [hp] at h2
  refine ⟨?_, h2⟩
  have e1 : st.pos = (params p R θ ops).1 := congrArg Prod.fst h2
  have e2 : st.radius = (params p R θ ops).2.1 := congrArg (fun x => x.2.1) h2
  have e3 : st.rot = (params p R θ ops).2.2 := congrArg (fun x => x.2.2) h2
  rw [e1, e2, e3]
  exact h1

/-- … hence **every query** after the history — vertices, containment, border point, whole-cell
    random placement, the sector cells (positions, radii, rotations) and per-sector placement —
    is the query on the freshly constructed cell. -/
theorem queries_after_history_are_fresh (k : CellKind) (hs : 0 < Circ.sqrt ((2 : ℕ) : α))
    (ops : List (CellOp α)) (p : Pt α) (R θ : α) (hR : 0 < R) (hok : OpsOk ops)
    (inside : List (Pt α) → Pt α → Bool) :
    let st := run (fresh k p R θ) ops
    let fr := fresh k st.pos st.radius st.rot
    stVerts st = stVerts fr ∧ (∀ q, stInside inside st q = stInside inside fr q) ∧
    (∀ ang ratio, stBorder st ang ratio = stBorder fr ang ratio) ∧
    (∀ ratio us, stRandomUser inside st ratio us = stRandomUser inside fr ratio us) ∧
    st.secs = fr.secs ∧
    (∀ j ratio us, stRandomUserInSector inside st j ratio us = stRandomUserInSector inside fr j ratio us) := by
  intro st fr
  have h : st = fr := (no_stale_state k hs ops p R θ hR hok).1
  rw [← h]
  exact ⟨rfl, fun _ => rfl, fun _ _ => rfl, fun _ _ => rfl, rfl, fun _ _ _ => rfl⟩

/-- In particular the sector cells of a `Cell3Sec` always have the sector radius of the *current*
    radius and sit at the sector centres of the *current* position, radius and rotation. -/
theorem sectors_follow_setters (hs : 0 < Circ.sqrt ((2 : ℕ) : α)) (ops : List (CellOp α)) (p : Pt α)
    (R θ : α) (hR : 0 < R) (hok : OpsOk ops) :
    let st := run (fresh .sec3 p R θ) ops
    st.secs = mkSectors st.pos st.radius st.rot ∧ ∀ s ∈ st.secs, s.radius = secRadius st.radius := by
  intro st
  have h := (no_stale_state .sec3 hs ops p R θ hR hok).1
  have hsec : st.secs = mkSectors st.pos st.radius st.rot :=
    congrArg CellState.secs h
  refine ⟨hsec, ?_⟩
  intro s hmem
  rw [hsec] at hmem
  simp only [mkSectors, List.mem_map] at hmem
  obtain ⟨_, _, rfl⟩ := hmem
  rfl

/-- the constructor `CellSquare(pos, side, rotation)` is the fresh square cell of radius `√2·side/2` -/
theorem square_constructor_is_fresh (p : Pt α) (side θ : α) (hs : 0 < Circ.sqrt ((2 : ℕ) : α)) :
    freshSquare p side θ = fresh .square p (Circ.sqrt ((2 : ℕ) : α) * side / ((2 : ℕ) : α)) θ :=
  freshSquare_eq p side θ hs

/-- a `CellWrap` stores only its own position: after any history on the wrapped cell (and any move of
    the wrap) its vertices are those of a wrap around the freshly constructed cell. -/
theorem wrap_no_stale_state (k : CellKind) (hs : 0 < Circ.sqrt ((2 : ℕ) : α)) (ops : List (CellOp α))
    (p wp : Pt α) (R θ : α) (hR : 0 < R) (hok : OpsOk ops) :
    let st := run (fresh k p R θ) ops
    wrapVerts { pos := wp, inner := st } = wrapVerts { pos := wp, inner := fresh k st.pos st.radius st.rot } := by
  intro st
  have h : st = fresh k st.pos st.radius st.rot := (no_stale_state k hs ops p R θ hR hok).1
  rw [← h]
end state

/-! ## robustness facts that are expressible on the model

The model's functions take logical values (numbers, points, lists) and return values: a result cannot
depend on the element type or memory layout of an argument and cannot alias an argument or an
earlier result (R1–R3 are therefore facts about the *tie* and are checked by correspondence /
oracles).  Stated below: rejected calls (R4), every mutator incl. the `move_by_*` helpers (R7),
homogeneity in the input scale (R6). -/

section robustness
variable {α : Type} [Field α] [LinearOrder α] [IsStrictOrderedRing α] [Circ α]

/-- **A rejected call leaves the object as it was** (R4): if `add_user` (point outside), or
    `add_border_user` (ratio outside `[0,1]`, no border point) raises, the rest of the history runs on
    the unchanged object — as if the call had never been made. -/
theorem rejected_call_leaves_object (inside : List (Pt α) → Pt α → Bool) (eps : α) (o : CellObj α)
    (c : Call α) (cs : List (Call α)) (e : PyErr) (h : callStep inside eps o c = .error e) :
    callRun inside eps o (c :: cs) = callRun inside eps o cs :=
  callRun_rejected inside eps o c cs e h

/-- … and the rejections are exactly: a point the containment test refuses, a ratio outside `[0,1]`
    (or a direction without border point). -/
theorem rejected_calls_characterised (inside : List (Pt α) → Pt α → Bool) (eps : α) (o : CellObj α) (p : Pt α) :
    (callStep inside eps o (.addUser p) = .error .ValueError ↔ stInside inside o.st p = false) ∧
    (∀ op, ∃ o', callStep inside eps o (.set op) = .ok o') ∧
    (∃ o', callStep inside eps o .deleteUsers = .ok o') := by
  refine ⟨?_, fun op => ⟨_, rfl⟩, ⟨_, rfl⟩⟩
  simp only [callStep]
  cases stInside inside o.st p <;> simp

/-- **Users follow the cell under every kind of move** (R7): `pos = …`,
    `move_by_relative_coordinate`, `move_by_relative_polar_coordinate` all go through the same
    position update, after which the stored state is the setter's and every user has kept its
    position relative to the centre; `radius` / `rotation` setters do not touch the users. -/
theorem users_follow_every_move (inside : List (Pt α) → Pt α → Bool) (eps : α) (o o' : CellObj α)
    (op : CellOp α) (h : callStep inside eps o (.set op) = .ok o') :
    o'.st = step o.st op ∧ o'.users.length = o.users.length ∧
    (op.isMove = true → ∀ (i : ℕ) (u : Pt α), (o.users[i]? : Option (Pt α)) = some u →
        ∃ u', o'.users[i]? = some u' ∧ psub u' o'.st.pos = psub u o.st.pos) ∧
    (op.isMove = false → o'.users = o.users) :=
  users_follow inside eps o o' op h

/-- the two `move_by_*` helpers are the `pos` setter at the moved position -/
theorem move_helpers_are_pos_setter (st : CellState α) (d : Pt α) (r a : α) :
    step st (.moveBy d) = step st (.setPos (padd st.pos d)) ∧
    step st (.movePolar r a) = step st (.setPos (padd st.pos (smul r (Circ.cisRad a)))) :=
  ⟨rfl, rfl⟩

/-- **No hidden absolute scale in the border search** (R6): multiplying the polygon (taken relative
    to the centre) by any `k > 0` multiplies the step to the border by `k`. -/
theorem border_scale_covariant (k : α) (hk : 0 < k) (rel : List (Pt α)) (d : Pt α) :
    borderStep (rel.map (smul k)) d = (borderStep rel d).map (fun t => k * t) :=
  borderStep_scale k hk rel d

/-- **No hidden absolute scale in the rectangle test** (R6): multiplying centre, corners and query
    point by any `k > 0` does not change the answer. -/
theorem rect_contains_scale_invariant (k : α) (hk : 0 < k) (r : Rect α) (u p : Pt α) :
    rectInside { pos := smul k r.pos, lower := smul k r.lower, upper := smul k r.upper } u (smul k p)
      = rectInside r u p :=
  rectInside_scale k hk r u p
end robustness

/-! ## every argument of the user-placement entry points has its documented effect -/

section placement
variable {α : Type} [Field α] [LinearOrder α] [IsStrictOrderedRing α] [Circ α]

/-- **`CellBase.add_random_users(num_users, color, min_dist_ratio)`**: for every stream of draws,
    exactly `num_users` users are placed, each inside the cell and not closer to the centre than
    `min_dist_ratio·radius`. -/
theorem cell_random_users_postcondition (c : CellGeom α) (ratio : α) (n : ℕ) (us rest : List (α × α))
    (ps : List (Pt α)) (h : addRandomUsers c ratio n us = some (ps, rest)) :
    ps.length = n ∧ ∀ p ∈ ps, c.inside p = true ∧ ¬ (dist c.pos p < ratio * c.radius) :=
  addRandomUsers_spec c ratio n us ps rest h

/-- **`Cluster.add_random_users` honours every argument, for every argument form** (one id, a list of
    ids, all cells; scalar or per-cell `num_users`, `user_color`, `min_dist_ratio`): for every stream of
    draws, every placed user belongs to a request `(id, num, colour, ratio)` of the call, lies in THAT
    cell (inside it, not closer to its centre than THAT request's `ratio·radius`), carries THAT
    request's colour; the number of users is the sum of the requested numbers, also cell by cell. -/
theorem cluster_random_users_postcondition (cells : List (CellGeom α)) (ids : Option (List ℕ)) (nums : Arg ℕ)
    (colors : Arg (Option String)) (ratios : Arg α) (us rest : List (α × α)) (pl : List (Placed α))
    (h : clusterAddRandomUsers cells ids nums colors ratios us = .ok (some (pl, rest))) :
    let reqs := mkReqs (match ids with | none => (List.range cells.length).map (· + 1) | some l => l)
      nums colors ratios
    pl.length = (reqs.map (·.num)).sum ∧
    (∀ u ∈ pl, ∃ r ∈ reqs, ∃ c, cells[r.id - 1]? = some c ∧ u.cell = r.id - 1 ∧ u.color = r.color ∧
        c.inside u.pos = true ∧ ¬ (dist c.pos u.pos < r.ratio * c.radius)) ∧
    ∀ i, (pl.filter (fun u => u.cell = i)).length = ((reqs.filter (fun r => r.id - 1 = i)).map (·.num)).sum := by
  intro reqs
  have h' : clusterPlace cells reqs us = .ok (some (pl, rest)) := by
    cases ids <;> exact h
  obtain ⟨h1, h2, h3⟩ := clusterPlace_spec cells reqs us rest pl h'
  refine ⟨h1, ?_, h3⟩
  intro u hu
  obtain ⟨r, hr, c, hc, _, hcell, hcol, hok⟩ := h2 u hu
  exact ⟨r, hr, c, hc, hcell, hcol, hok.1, hok.2⟩

/-- the requests carry the arguments position by position: request `k` has the `k`-th id and the
    `k`-th (or the only) number, colour and ratio — a scalar `min_dist_ratio` reaches every cell -/
theorem cluster_requests_carry_arguments (ids : List ℕ) (nums : Arg ℕ) (colors : Arg (Option String))
    (ratios : Arg α) (k : ℕ) (r : Req α) (h : (mkReqs ids nums colors ratios)[k]? = some r) :
    ids[k]? = some r.id ∧ (nums.expand ids.length)[k]? = some r.num ∧
    (colors.expand ids.length)[k]? = some r.color ∧ (ratios.expand ids.length)[k]? = some r.ratio ∧
    (∀ x, ratios = .one x → r.ratio = x) ∧ (∀ x, nums = .one x → r.num = x) ∧ (∀ x, colors = .one x → r.color = x) := by
  obtain ⟨a, b, c, d⟩ := mkReqs_getElem ids nums colors ratios k r h
  refine ⟨a, b, c, d, ?_, ?_, ?_⟩
  · intro x hx; subst hx; exact expand_one x _ k _ d
  · intro x hx; subst hx; exact expand_one x _ k _ b
  · intro x hx; subst hx; exact expand_one x _ k _ c

/-- **cluster path = cell path**: placing through the cluster in an existing cell is that cell's
    `add_random_users(num, colour, ratio)` with the same arguments on the same draws; a cell id that
    does not exist raises `IndexError`. -/
theorem cluster_path_is_cell_path (cells : List (CellGeom α)) (r : Req α) (us : List (α × α)) :
    (∀ c, 1 ≤ r.id → cells[r.id - 1]? = some c →
      clusterPlaceOne cells r us = .ok ((addRandomUsers c r.ratio r.num us).map (fun pr =>
        (pr.1.map (fun p => { cell := r.id - 1, pos := p, color := r.color }), pr.2)))) ∧
    (r.id = 0 ∨ cells.length < r.id → clusterPlaceOne cells r us = .error .IndexError) :=
  ⟨fun c h1 hc => clusterPlaceOne_eq_cell_path cells r c us h1 hc, clusterPlaceOne_bad_id cells r us⟩
/-- **equivalent entry points (R8)**: `add_random_users(n+1, …)` is `add_random_user(…)` followed by
    `add_random_users(n, …)` on the remaining draws — placing several users at once is placing them
    one by one with the same colour and ratio. -/
theorem random_users_are_repeated_single_placements (c : CellGeom α) (ratio : α) (n : ℕ) (us : List (α × α)) :
    addRandomUsers c ratio 0 us = some ([], us) ∧
    addRandomUsers c ratio (n + 1) us =
      (match addRandomUser c.inside c.pos c.radius ratio us with
       | none => none
       | some (p, m) => (addRandomUsers c ratio n (us.drop m)).map (fun pr => (p :: pr.1, pr.2))) := by
  refine ⟨rfl, ?_⟩
  simp only [addRandomUsers]
  cases addRandomUser c.inside c.pos c.radius ratio us with
  | none => rfl
  | some pm =>
    obtain ⟨p, m⟩ := pm
    simp only
    cases addRandomUsers c ratio n (us.drop m) with
    | none => rfl
    | some pr => rfl

/-- **relative = absolute (R8)**: `add_user` with a relative position is `add_user` with the absolute
    position `rel·scale + pos`; and `ratio=None` of `get_border_point` is `ratio=1`. -/
theorem add_user_relative_is_absolute (inside : Pt α → Bool) (pos rel : Pt α) (scale : α) (verts : List (Pt α)) (d : Pt α) :
    addUserRel inside pos scale rel = addUser inside (padd (smul scale rel) pos) ∧
    borderPointOpt pos verts d none = borderPoint pos verts d 1 ∧
    ∀ r, borderPointOpt pos verts d (some r) = borderPoint pos verts d r := by
  refine ⟨rfl, ?_, fun r => rfl⟩
  simp only [borderPointOpt, Nat.cast_one]

/-- **insertion order (R12)**: the users of a cluster, in the order the distance matrix lists them (cell by
    cell), depend only on the per-cell sequences of additions, not on how additions to DIFFERENT cells
    were interleaved. -/
theorem users_by_cell_order_independent (n : ℕ) (adds₁ adds₂ : List (ℕ × Pt α))
    (h : ∀ i, i < n → adds₁.filter (fun a => a.1 == i) = adds₂.filter (fun a => a.1 == i)) :
    usersByCell n adds₁ = usersByCell n adds₂ := by
  unfold usersByCell
  apply List.flatMap_congr
  intro i hi
  rw [h i (List.mem_range.mp hi)]
end placement

/-! ## values that are merely close are different values (R15); results depend on the contents of the
arguments at call time only (R16)

The model's functions take the exact value of every argument: there is no tolerance, no rounded key,
no "unchanged → skip" test and no memo in it, and the theorems below say so where the code compares,
looks up or stores by value.  (Whether the *code* has acquired such a shortcut is a fact about the tie:
the correspondence streams `R15:*` / `R16:*` of `harness/props/c19_r1516.py` feed pairs of close
values, and one argument buffer refilled between calls, to the code and to this model.) -/

section close
variable {α : Type} [Field α] [LinearOrder α] [IsStrictOrderedRing α] [Circ α]

/-- **A setter takes effect for every new value** (R15): after any history of setter / move calls, calling
    `radius = r`, `pos = q` or `rotation = t` with ANY value — however close to the current one —
    leaves exactly the freshly constructed cell with that value (sector cells re-derived, square
    corners moved / rescaled), and the value read back is the value written. -/
theorem setter_takes_effect_for_every_new_value (k : CellKind) (hs : 0 < Circ.sqrt ((2 : ℕ) : α))
    (ops : List (CellOp α)) (p : Pt α) (R θ : α) (hR : 0 < R) (hok : OpsOk ops) :
    let st := run (fresh k p R θ) ops
    (∀ r, 0 ≤ r → step st (.setRadius r) = fresh k st.pos r st.rot ∧ (step st (.setRadius r)).radius = r) ∧
    (∀ q, step st (.setPos q) = fresh k q st.radius st.rot ∧ (step st (.setPos q)).pos = q) ∧
    (∀ t, step st (.setRot t) = fresh k st.pos st.radius t ∧ (step st (.setRot t)).rot = t) := by
  intro st
  obtain ⟨h1, h2, h3⟩ := setter_on_history k hs ops p R θ hR hok
  exact ⟨fun r hr => ⟨h1 r hr, (step_stores_value st (0, 0) r 0).2.1⟩,
    fun q => ⟨h2 q, (step_stores_value st q 0 0).1⟩, fun t => ⟨h3 t, (step_stores_value st (0, 0) 0 t).2.2⟩⟩

/-- **Different values give different cells** (R15): two freshly constructed cells are equal only if
    position, radius and rotation are equal; two setter calls with different values leave different
    states; and hexagons of different radii are different polygons in every position and rotation —
    nothing identifies `R` with `R·(1+1e-6)` or `1e-12` with `1e-13`. -/
theorem distinct_values_distinct_cells (k : CellKind) (st : CellState α) :
    (∀ (p p' : Pt α) (R R' θ θ' : α), fresh k p R θ = fresh k p' R' θ' → p = p' ∧ R = R' ∧ θ = θ') ∧
    (∀ r r', r ≠ r' → step st (.setRadius r) ≠ step st (.setRadius r')) ∧
    (∀ q q', q ≠ q' → step st (.setPos q) ≠ step st (.setPos q')) ∧
    (∀ t t', t ≠ t' → step st (.setRot t) ≠ step st (.setRot t')) ∧
    (∀ (pos u : Pt α) (R R' : α), norm2 u = 1 → place pos u (hexVerts R) = place pos u (hexVerts R') → R = R') := by
  refine ⟨fun p p' R R' θ θ' h => fresh_injective k p p' R R' θ θ' h, ?_, ?_, ?_,
    fun pos u R R' hu h => hex_verts_radius pos u hu R R' h⟩
  · intro r r' hne h
    have := congrArg CellState.radius h
    rw [(step_stores_value st (0, 0) r 0).2.1, (step_stores_value st (0, 0) r' 0).2.1] at this
    exact hne this
  · intro q q' hne h
    have := congrArg CellState.pos h
    rw [(step_stores_value st q 0 0).1, (step_stores_value st q' 0 0).1] at this
    exact hne this
  · intro t t' hne h
    have := congrArg CellState.rot h
    rw [(step_stores_value st (0, 0) 0 t).2.2, (step_stores_value st (0, 0) 0 t').2.2] at this
    exact hne this

/-- **The ratio of `add_border_user` is compared exactly** (R15): every ratio in `[0, 1)` — `1e-15` as well
    as `1 - 1e-9` — is used as it is, only `1` itself is replaced by `1 - eps`, and every ratio below `0`
    or above `1`, by however little, is rejected. -/
theorem border_ratio_compared_exactly (ratio eps : α) :
    (0 ≤ ratio → ratio < 1 → validateRatio ratio eps = .ok ratio) ∧
    (ratio = 1 → validateRatio ratio eps = .ok (1 - eps)) ∧
    (ratio < 0 ∨ 1 < ratio → validateRatio ratio eps = .error .ValueError) :=
  validateRatio_exact ratio eps

/-- **The class-level cache of `Cluster` is looked up exactly and holds nothing that depends on the
    cluster** (R15 `lookup_exact`): for every sequence of hexagonal clusters constructed one after the
    other in one process (any sizes, radii, rotations, positions, in any order, starting from the empty
    cache) every cluster has the centres computed from scratch for ITS OWN size, radius, rotation and
    position. -/
theorem cluster_cache_lookup_exact (reqs : List (ℕ × α × Pt α × Pt α)) :
    clusterSeq ([] : NormCache α) reqs
      = reqs.map (fun r => clusterCentres (hexRaw r.2.1 r.1) r.2.2.1 r.2.2.2) :=
  clusterSeq_spec reqs [] cacheOk_nil

/-- **A history of placement calls depends on the contents of each call only** (R16): for every
    sequence of `add_user` / `add_border_user` calls on one cell (accepted or rejected), the geometry
    is untouched and the users are the old users followed by exactly what the same calls add to a
    user-less cell of the same geometry. -/
theorem placement_history_depends_on_contents_only (inside : List (Pt α) → Pt α → Bool) (eps : α)
    (cs : List (Call α)) (o : CellObj α) (h : ∀ c ∈ cs, c.isPlacement = true) :
    (callRun inside eps o cs).st = o.st ∧
    (callRun inside eps o cs).users = o.users ++ (callRun inside eps { st := o.st, users := [] } cs).users :=
  callRun_placements inside eps cs o h

/-- … in particular (R16) **the k-th call equals the call on a fresh object, and earlier results are
    not changed by later calls**: after the calls `cs`, one more call `c` leaves the users of `cs` as a
    prefix and appends what `c` alone adds to a user-less cell with the same geometry — whatever
    arguments the earlier calls had. -/
theorem kth_call_equals_fresh_call (inside : List (Pt α) → Pt α → Bool) (eps : α) (cs : List (Call α))
    (c : Call α) (o : CellObj α) (h : ∀ x ∈ cs, x.isPlacement = true) (hc : c.isPlacement = true) :
    (callRun inside eps o (cs ++ [c])).users
      = (callRun inside eps o cs).users ++ (callRun inside eps { st := o.st, users := [] } [c]).users := by
  rw [callRun_append]
  obtain ⟨h1, _⟩ := callRun_placements inside eps cs o h
  obtain ⟨_, h2⟩ := callRun_placements inside eps [c] (callRun inside eps o cs)
    (by intro x hx; rw [List.mem_singleton.mp hx]; exact hc)
  rw [h2, h1]
end close

/-- non-vacuity (R15): a ratio one part in a million below `1` is passed on as it is; one part in a
    million above is rejected -/
example : validateRatio (999999 / 1000000 : ℚ) (1 / 1000000000000000) = .ok (999999 / 1000000) ∧
    validateRatio (1000001 / 1000000 : ℚ) (1 / 1000000000000000) = .error .ValueError := by
  decide +kernel

/-- non-vacuity (R16): a history of placement calls -/
example : ∀ c ∈ [Call.addUser ((0 : ℚ), (0 : ℚ)), .borderUser 30 (1 / 2), .addUser (1, 1)], c.isPlacement = true := by
  simp [Call.isPlacement]

/-- non-vacuity: two ids, a scalar number of users and per-cell ratios give two requests -/
example :
    (mkReqs [1, 2] (.one 1) (.one none) (.many [(0 : ℚ), 1/2])).map (fun r => (r.id, r.num, r.ratio))
      = [(1, 1, 0), (2, 1, 1/2)] := by decide +kernel

/-- the hypothesis `0 < sqrt 2` of the state theorems holds for the real scalar -/
theorem sqrt_two_pos_real : 0 < (Circ.sqrt ((2 : ℕ) : ℝ) : ℝ) := by
  simp only [Circ.sqrt]
  exact Real.sqrt_pos.mpr (by norm_num)

/-- **Negative witness for the `CellSquare` setters as they were before the repair** (`stepStale`: the
    `pos` setter stored the new centre and left the corners): after moving the square with corners
    `0`, `2+2j` to `5+5j` the cell does not contain its own centre. -/
theorem square_pos_setter_was_stale :
    let st := stepStale ({ kind := .square, pos := ((1 : ℚ), (1 : ℚ)), radius := 1, rot := 0,
                           lower := (0, 0), upper := (2, 2), secs := [] } : CellState ℚ) (.setPos (5, 5))
    rectInside { pos := st.pos, lower := st.lower, upper := st.upper } (1, 0) st.pos = false := by
  decide +kernel

/-! ## tie to the source: literal tables -/

/-- **The literal tables of the current source are the constants of the model.**
    `Generated/C19Tables.lean` is re-emitted from `shapes.py` / `cell.py` on every run; this theorem
    states that the hexagon walks in steps of `60°·k` (`hexStep`), has six vertices, the circle has
    twelve vertices `30°` apart (`circleVerts`), the 3-sector cell takes vertices `[0,1]`, `[0,1,2,3]`,
    `[2,3,4,5]`, `[4,5]` of sectors `1, 2, 3, 1` rotated by `30°` (`sec3Verts`), the first ring has six
    cells at `30° + 60°k` and distance `2·height`, the second ring twelve cells at `30°k` and distances
    alternating `3·radius`, `4·height`, with cells `1…6` / `7…18` in the rings (`hexNorm`). -/
theorem source_tables :
    Generated.C19.hexStepDeg = (List.range 5).map (fun k => 60 * k) ∧
    Generated.C19.hexVertexCount = 6 ∧
    Generated.C19.circleVertexCount = 12 ∧
    Generated.C19.sec3Pick = [(1, [0, 1]), (2, [0, 1, 2, 3]), (3, [2, 3, 4, 5]), (1, [4, 5])] ∧
    Generated.C19.sec3HexRotation = 30 ∧
    Generated.C19.ring1Deg = (List.range 6).map (fun k => 30 + 60 * k) ∧
    Generated.C19.ring2Deg = (List.range 12).map (fun k => 30 * k) ∧
    Generated.C19.ring1Dist = (0, 2) ∧
    Generated.C19.ring2Dists = [(3, 0), (0, 4)] ∧
    Generated.C19.ring1End = 7 ∧ Generated.C19.ring2Start = 7 := by decide

/-! ## the defect that was repaired, and non-vacuity -/

/-- **Negative witness for the test as it was before the repair** (`rectInsideUnrotated` ignores the
    rotation): the square with corners `∓1∓j` rotated by `u = 3/5 + 4/5j` contains `13/10 + 1/5j`
    (it is a convex combination of the reported vertices) but the old test says "outside". -/
theorem rect_unrotated_test_fails :
    rectInsideUnrotated (mkRect ((-1 : ℚ), (-1 : ℚ)) (1, 1)) (13/10, 1/5) = false ∧
    InHull (place (mkRect ((-1 : ℚ), (-1 : ℚ)) (1, 1)).pos (3/5, 4/5)
      (rectVerts (mkRect ((-1 : ℚ), (-1 : ℚ)) (1, 1)))) (13/10, 1/5) := by
  refine ⟨by decide +kernel, ?_⟩
  rw [← rect_contains_iff _ _ _ _ (by norm_num [norm2])]
  decide +kernel

/-- non-vacuity: the repaired border search on the 10 × 1 rectangle in direction `(4/5, 3/5)`
    returns the point `2/3 + 1/2j` of the top edge (the old heuristic left the rectangle here) -/
example : borderPoint ((0 : ℚ), (0 : ℚ)) [(-5, -1/2), (5, -1/2), (5, 1/2), (-5, 1/2)] (4/5, 3/5) 1
    = .ok (2/3, 1/2) := by decide +kernel

/-- non-vacuity: a stream whose first candidate is rejected and whose second is accepted -/
example : firstAccepted (fun p : Pt ℚ => decide (p.1 < 1/2)) (candidate (0, 0) 1) [(9/10, 1/2), (1/2, 1/2)] 0
    = some ((0, 0), 2) := by decide +kernel

/-- non-vacuity: the hypotheses of the cluster theorems are satisfiable (cell 2 of a 3 × 3 grid) -/
example : (clusterCentres ((List.range (3 * 3)).map (squareRawPt (2 : ℚ) 3)) (3/5, 4/5) (1, 1))[2]?
    = some (3/5, 19/5) := by decide +kernel

end PyPhysim.C19
