import PyPhysim.Proofs.C10Fresh
import PyPhysim.Proofs.C10Obs
import PyPhysim.Proofs.C10Closed
import PyPhysim.Proofs.C10Combined
import PyPhysim.Proofs.C10Mmse
import PyPhysim.Proofs.C10Examples
import PyPhysim.Model.C10Toy
import PyPhysim.Proofs.C10Gen
import PyPhysim.Proofs.C10Robust

/-!
# C10 — interference-alignment solvers return valid, power-limited, aligned solutions

Property theorems only.

**Part A — no stale derived quantities, for every history.**  `step`/`run`
(`Model/C10Cache.lean`) is the hand model of the eight attributes
`_F _full_F _W _W_H _full_W_H _full_W _P _Ns` of `IASolverBaseClass`; `Cfg.fixed`
is the repaired source (what `harness/props/c10.py` compares the working tree
with, output by output), `Cfg.orig` the source of the design round, kept for the
negative witnesses.  The theorems hold for **every interpretation `O : Ops μ ρ`**
of the matrix operations the getters perform (`F·√P`, conjugate transpose,
`solve(W_H H_kk full_F, W_H)`, normalisation), every number of users `K` and
every finite history of `solve | randomizeF | set_precoders | set_receive_filters
| P= | clear | getter reads` with arbitrary arguments.

**Part B — what the real operations satisfy, over `ℂ`.**  The formulas of
`Model/C10.lean` (the same text the driver runs at binary64) instantiated at
`ℂ`; results of `np.linalg.solve / pinv / inv / eig`, `leig`, `peig`,
`scipy.optimize.newton` are parameters constrained only by their stated
contracts (checked numerically on every case the harness runs).

Part A says *which* value every getter returns after any history (the one
computed from the current primaries); Part B says that this value satisfies
the relations of the property.
-/
namespace PyPhysim.C10
open PyPhysim.Proto Matrix

/-! ## Part A : histories -/
section histories
variable {μ ρ : Type}

/-- Clause "these relations keep holding after any later change of the power or of the
    precoders/filters through the public setters (no stale derived quantities)": after every
    history, a stored `_full_W_H` is what the getter would compute NOW from the current `W_H`
    and the current `full_F`, a stored `_full_W` is its conjugate transpose, and `_W`, `_W_H`
    are conjugate transposes of each other. -/
theorem coherent_history (O : Ops μ ρ) (K : Nat) (ops : List (Op μ ρ)) :
    Coherent O K (reach Cfg.fixed O K ops) :=
  reach_coherent O K ops

/-- One more operation — any operation with any arguments, accepted or rejected — keeps it so. -/
theorem coherent_step (O : Ops μ ρ) (K : Nat) (st : State μ ρ) (op : Op μ ρ) (h : Coherent O K st) :
    Coherent O K (step Cfg.fixed O K st op).1 :=
  step_coherent O K st op h

/-- What the two filter getters return after every history: `full_W_H` is
    `solve(W_H·H_kk·full_F, W_H)` for the values the `W_H` and `full_F` getters return at that
    moment (never a value computed before a later setter call), `full_W` its conjugate transpose;
    errors of the computation are reported, `None` filters give `None`. -/
theorem filter_getters_return_current_values (O : Ops μ ρ) (K : Nat) (ops : List (Op μ ρ)) :
    let st := reach Cfg.fixed O K ops
    (step Cfg.fixed O K st .readFullWH).2 = outArrO (specFullWH O K st)
    ∧ (step Cfg.fixed O K st .readFullW).2 = outArr (specFullW O K st) := by
  intro st
  have h := reach_coherent O K ops
  exact ⟨by simp only [step]; rw [readFullWH_spec O K st h],
         by simp only [step]; rw [readFullW_spec O K st h]⟩

/-- Link between Part A and Part B.  Let `Rel Z Y fF` be ANY relation that every successful
    `solve(Y·H_kk·fF, Y) = Z` satisfies (Part B: `full_filter_identity` shows that
    "`Z_k·H_kk·fF_k = I` for every user" is such a relation).  Then after every history, whenever the
    `full_W_H` getter returns filters `Z`, the relation holds between `Z` and the values the `W_H` and
    `full_F` getters return at that same moment — and the `full_W` getter returns `Zᴴ`. -/
theorem filters_satisfy_relation_after_any_history (O : Ops μ ρ) (K : Nat)
    (Rel : μ → μ → μ → Prop) (hRel : ∀ Y fF Z, O.comp Y fF = .ok Z → Rel Z Y fF)
    (ops : List (Op μ ρ)) (Z : μ) :
    let st := reach Cfg.fixed O K ops
    (step Cfg.fixed O K st .readFullWH).2 = .arr (some Z) →
    (∃ Y fF, (step Cfg.fixed O K st .readWH).2 = .arr (some Y)
        ∧ (step Cfg.fixed O K st .readFullF).2 = .arr (some fF) ∧ Rel Z Y fF)
    ∧ (step Cfg.fixed O K st .readFullW).2 = .arr (some (O.herm Z)) := by
  intro st hZ
  have h := reach_coherent O K ops
  have h1 : outArrO (specFullWH O K st) = (.arr (some Z) : Out μ ρ) := by
    rw [← readFullWH_spec O K st h]; exact hZ
  have h2 : (step Cfg.fixed O K st .readFullW).2 = outArr (specFullW O K st) := by
    simp only [step]; rw [readFullW_spec O K st h]
  unfold specFullW at h2
  unfold specFullWH at h1 h2
  simp only [step]
  change _ ∧ (step Cfg.fixed O K st .readFullW).2 = _
  rw [h2]
  cases hy : getWH O st with
  | none => simp [hy, outArrO] at h1
  | some Y =>
    cases hf : getFullF O K st with
    | error e => simp [hy, hf, outArrO] at h1
    | ok fF =>
      cases hc : O.comp Y fF with
      | error e => simp [hy, hf, hc, outArrO] at h1
      | ok Z' =>
        simp only [hy, hf, hc, outArrO, Out.arr.injEq, Option.some.injEq] at h1
        subst h1
        refine ⟨⟨Y, fF, ?_, ?_, hRel Y fF Z' hc⟩, ?_⟩
        · have : (readWH O st).2 = some Y := hy
          rw [this]
        · have : (readFullF O K st).2 = .ok fF := hf
          rw [this]; rfl
        · simp [hy, hf, hc, outArr]

/-- Clause "after any later change of the power": whenever the last operation that touched
    `_full_F` from outside (`set_precoders(full_F=…)`, an MMSE `solve`) is followed by a successful
    `P=`, `randomizeF`, `set_precoders(F)`, non-MMSE `solve` or `clear`, then — whatever getters and
    filter setters come after — the `full_F` getter returns `_F * sqrt(P)` for the CURRENT `_F` and
    the CURRENT power (`TypeError` if no precoder is stored). -/
theorem full_F_is_current (O : Ops μ ρ) (K : Nat) (pre post : List (Op μ ρ)) (o : Op μ ρ)
    (hr : o.resetsFullF = true)
    (hok : (step Cfg.fixed O K (reach Cfg.fixed O K pre) o).2 = .unit)
    (hpost : ∀ op ∈ post, op.installsFullF = false) :
    let st := reach Cfg.fixed O K (pre ++ o :: post)
    (step Cfg.fixed O K st .readFullF).2 = outArr (derivedFullF O K st) := by
  intro st
  have hst : st = (run Cfg.fixed O K (step Cfg.fixed O K (reach Cfg.fixed O K pre) o).1 post).1 := by
    simp only [st, reach, run_append, run]
  have h0 : FullFDerived O K (step Cfg.fixed O K (reach Cfg.fixed O K pre) o).1 :=
    fullFDerived_of_none O K _ (step_resets O K _ o hr hok)
  have h1 : FullFDerived O K st := by
    rw [hst]; exact run_fullFDerived O K post _ hpost h0
  simp only [step]
  rw [readFullF_derived O K st h1]

/-- Special case spelled out: right after a successful `P = v`, `full_F` is `_F * sqrt(P_new)`. -/
theorem power_setter_refreshes_full_F (O : Ops μ ρ) (K : Nat) (ops : List (Op μ ρ)) (v : PArg ρ)
    (hv : PArg.valid O K v = true) :
    let st := reach Cfg.fixed O K (ops ++ [.setP v])
    st.fullF = none ∧ st.fullWH = none ∧ st.fullW = none
    ∧ (step Cfg.fixed O K st .readFullF).2 = outArr (derivedFullF O K st) := by
  intro st
  have hst : st = (setP Cfg.fixed O K (reach Cfg.fixed O K ops) v).1 := by
    simp only [st, reach, run_append, run, step]
  obtain ⟨p, e⟩ := setP_valid O K (reach Cfg.fixed O K ops) v hv
  rw [e] at hst
  have hn : st.fullF = none := by rw [hst]; rfl
  refine ⟨hn, by rw [hst]; rfl, by rw [hst]; rfl, ?_⟩
  simp only [step]
  rw [readFullF_derived O K st (fullFDerived_of_none O K st hn)]

/-- Clause "stream counts consistent with the filter shapes": after every history whose random
    draws / solutions have the shapes they are specified to have — rejected calls included — `Ns` is
    the list of column counts of the stored precoders. -/
theorem stream_counts_consistent (O : Ops μ ρ) (K : Nat) (ops : List (Op μ ρ))
    (hs : ∀ op ∈ ops, op.shapeOK O K) :
    NsOK O (reach Cfg.fixed O K ops) :=
  run_nsOK O K ops _ hs (by intro F hF; simp [State.init] at hF)

/-- Before the second repair `solve` stored the requested stream counts BEFORE it validated the
    power, so a `solve` rejected for its power left `Ns` describing precoders that were never
    computed (`Cfg.round1`); the repaired code validates first and `Ns` still matches `F`. -/
theorem rejected_solve_overwrites_ns :
    let ops : List (Op (List Rat) Rat) :=
      [.randomizeF [3, -2] (.int 1) .none, .solve false (.int 2) (.scalar (-1)) ⟨[1, 1], none, [1, 1], false, [2, 2]⟩]
    (run Cfg.round1 (toyOps [2, 4]) 2 (State.init _ _) ops).2 = [.unit, .err .ValueError]
    ∧ ¬ NsOK (toyOps [2, 4]) (reach Cfg.round1 (toyOps [2, 4]) 2 ops)
    ∧ (run Cfg.fixed (toyOps [2, 4]) 2 (State.init _ _) ops).2 = [.unit, .err .ValueError]
    ∧ (reach Cfg.fixed (toyOps [2, 4]) 2 ops).ns = some [1, 1] := by
  refine ⟨by decide +kernel, ?_, by decide +kernel, by decide +kernel⟩
  intro h
  have := h [1, -1] (by decide +kernel)
  revert this
  decide +kernel

/-- Class R4 (rejected calls): on the repaired code EVERY mutator — `P=`, `randomizeF`,
    `set_precoders`, `set_receive_filters`, `solve`, `clear`, `initialize_with=` — that raises leaves all
    eight attributes exactly as they were, for every state and every argument. -/
theorem rejected_call_leaves_object_unchanged (O : Ops μ ρ) (K : Nat) (st : State μ ρ) (op : Op μ ρ)
    (hm : op.isMutator = true) (e : PyErr) (he : (step Cfg.fixed O K st op).2 = .err e) :
    (step Cfg.fixed O K st op).1 = st :=
  step_rejected_unchanged O K st op hm e he

/-- … hence a history with a rejected call in the middle ends in the same state and gives the same
    later outputs as the history that never made that call (the object behaves like one that never
    saw the rejected call). -/
theorem history_ignores_rejected_calls (O : Ops μ ρ) (K : Nat) (pre post : List (Op μ ρ)) (op : Op μ ρ)
    (hm : op.isMutator = true) (e : PyErr)
    (he : (step Cfg.fixed O K (reach Cfg.fixed O K pre) op).2 = .err e) :
    reach Cfg.fixed O K (pre ++ op :: post) = reach Cfg.fixed O K (pre ++ post)
    ∧ (run Cfg.fixed O K (reach Cfg.fixed O K (pre ++ [op])) post).2
        = (run Cfg.fixed O K (reach Cfg.fixed O K pre) post).2 :=
  run_skip_rejected O K pre post op hm e he

/-- Class R11 (the non-mutating API does not mutate) and R13 (copies): a getter, a query
    (`calc_Q`, `calc_SINR`, `get_cost`, `repr`, … — modelled as `query`) or a copy / pickle round trip
    (`fork`) made at ANY point of ANY history changes no later output: the outputs of every
    continuation `post` are those of the history that never made the call.  (Such calls may
    populate `_full_F`, `_W_H`, `_full_W_H`, `_full_W`; `ObsEq` shows that this is unobservable.) -/
theorem passive_calls_never_change_later_results (O : Ops μ ρ) (K : Nat) (pre post : List (Op μ ρ))
    (r : Op μ ρ) (hr : r.isPassive = true) :
    (run Cfg.fixed O K (reach Cfg.fixed O K (pre ++ [r])) post).2
      = (run Cfg.fixed O K (reach Cfg.fixed O K pre) post).2 := by
  have hc := reach_coherent O K pre
  have h1 : reach Cfg.fixed O K (pre ++ [r]) = (step Cfg.fixed O K (reach Cfg.fixed O K pre) r).1 := by
    simp only [reach, run_append, run]
  rw [h1]
  exact (run_obs O K post _ _ (passive_obs O K _ r hr hc)).2

/-- Observationally equal objects (same `_F`, `_P`, `_Ns`, same values of the `W`, `W_H`, `full_F`
    getters — e.g. an object and its copy on which other getters were called, or two objects configured
    through different but equivalent calls) give the same outputs under every later sequence of calls. -/
theorem equivalent_objects_behave_identically (O : Ops μ ρ) (K : Nat) (s t : State μ ρ)
    (h : ObsEq O K s t) (ops : List (Op μ ρ)) :
    (run Cfg.fixed O K s ops).2 = (run Cfg.fixed O K t ops).2 :=
  (run_obs O K ops s t h).2

/-- Class R8 (equivalent entry points): `set_receive_filters(W=X)` and
    `set_receive_filters(W_H=Xᴴ)` are interchangeable — for every conjugate transposition that is an
    involution, every earlier history and every later sequence of calls the outputs coincide. -/
theorem filter_setter_forms_agree (O : Ops μ ρ) (K : Nat) (hinv : ∀ X, O.herm (O.herm X) = X)
    (pre post : List (Op μ ρ)) (X : μ) :
    (run Cfg.fixed O K (reach Cfg.fixed O K (pre ++ [.setFilters none (some X)])) post).2
      = (run Cfg.fixed O K (reach Cfg.fixed O K (pre ++ [.setFilters (some (O.herm X)) none])) post).2 := by
  have hc := reach_coherent O K pre
  have e1 : reach Cfg.fixed O K (pre ++ [.setFilters none (some X)])
      = { clearRx (reach Cfg.fixed O K pre) with w := some X, wH := none } := by
    simp only [reach, run_append, run, step, doSetFilters]
  have e2 : reach Cfg.fixed O K (pre ++ [.setFilters (some (O.herm X)) none])
      = { clearRx (reach Cfg.fixed O K pre) with w := none, wH := some (O.herm X) } := by
    simp only [reach, run_append, run, step, doSetFilters]
  rw [e1, e2]
  set st := reach Cfg.fixed O K pre with hst
  have ho : ObsEq O K ({ clearRx st with w := some X, wH := none } : State μ ρ)
      ({ clearRx st with w := none, wH := some (O.herm X) } : State μ ρ) := by
    refine ⟨rfl, rfl, rfl, ?_, ?_, getFullF_congr O K _ _ rfl rfl rfl, ?_, ?_⟩
    · simp [getW, readW, hinv]
    · simp [getWH, readWH]
    · exact coherent_of_empty O K _ rfl rfl (by simp)
    · exact coherent_of_empty O K _ rfl rfl (by simp)
  exact (run_obs O K post _ _ ho).2

/-- Before the second repair two more rejected calls modified the object: `set_receive_filters`
    with both / neither argument cleared the stored filters, `randomizeF` with a rejected power
    cleared the stored precoders (`Cfg.round1`, evaluated on the exact `1 × 1` interpretation). -/
theorem rejected_calls_modified_object_round1 :
    let pre : List (Op (List Rat) Rat) := [.randomizeF [3, -2] (.int 1) .none, .setFilters none (some [1, 1])]
    (run Cfg.round1 (toyOps [2, 4]) 2 (State.init _ _) (pre ++ [.setFilters none none, .readW])).2.drop 2
        = [.err .RuntimeError, .arr none]
    ∧ (run Cfg.fixed (toyOps [2, 4]) 2 (State.init _ _) (pre ++ [.setFilters none none, .readW])).2.drop 2
        = [.err .RuntimeError, .arr (some [1, 1])]
    ∧ (run Cfg.round1 (toyOps [2, 4]) 2 (State.init _ _) (pre ++ [.randomizeF [1, 1] (.int 1) (.scalar 0), .readF])).2.drop 2
        = [.err .ValueError, .arr none]
    ∧ (run Cfg.fixed (toyOps [2, 4]) 2 (State.init _ _) (pre ++ [.randomizeF [1, 1] (.int 1) (.scalar 0), .readF])).2.drop 2
        = [.err .ValueError, .arr (some [1, -1])] := by
  refine ⟨by decide +kernel, by decide +kernel, by decide +kernel, by decide +kernel⟩

/-! ### rejected arguments -/

/-- A non-positive scalar power, a vector of the wrong length or with a non-positive entry, or an
    array that is not 0- or 1-dimensional is rejected with `ValueError` and nothing changes. -/
theorem bad_power_rejected (O : Ops μ ρ) (K : Nat) (st : State μ ρ) (v : PArg ρ)
    (hv : PArg.valid O K v = false) :
    step Cfg.fixed O K st (.setP v) = (st, .err .ValueError) := by
  cases v with
  | none => simp [PArg.valid] at hv
  | malformed => rfl
  | scalar x =>
    have : O.pos x = false := hv
    simp [step, setP, this, outOf]
  | vec xs =>
    simp only [PArg.valid, Bool.and_eq_false_iff, beq_eq_false_iff_ne, ne_eq] at hv
    by_cases h1 : xs.length = K
    · have h2 : xs.all O.pos = false := by
        rcases hv with h | h
        · exact absurd h1 h
        · exact h
      simp [step, setP, h1, h2, outOf]
    · simp [step, setP, h1, outOf]

/-- `set_precoders()` without `F` and without `full_F`, `set_receive_filters` with both or neither of
    `W_H`, `W`, and an unknown `initialize_with` raise `RuntimeError`; the closed-form solver refuses
    `K ≠ 3` with `AssertionError`; in every case nothing changes. -/
theorem bad_setter_arguments_rejected (O : Ops μ ρ) (K : Nat) (st : State μ ρ) (p : Option (List ρ))
    (X Y : μ) (ns : NsArg) (q : PArg ρ) (sol : Solution μ) (hK : K ≠ 3) :
    step Cfg.fixed O K st (.setPrecoders none none p) = (st, .err .RuntimeError)
    ∧ step Cfg.fixed O K st (.setFilters none none) = (st, .err .RuntimeError)
    ∧ step Cfg.fixed O K st (.setFilters (some X) (some Y)) = (st, .err .RuntimeError)
    ∧ step Cfg.fixed O K st (.setInit false) = (st, .err .RuntimeError)
    ∧ step Cfg.fixed O K st (.solve true ns q sol) = (st, .err .AssertionError) := by
  refine ⟨rfl, rfl, rfl, rfl, ?_⟩
  simp [step, doSolve, hK]

/-! ### robustness class R15 — distinct values that are merely close

The machine is a function of the EXACT values it is given: there is no "unchanged, skip" test, no
tolerance, no rounded key.  A power of `4e-13` after `4e-12`, `2.4e9 + 2e4` after `2.4e9`, or the
next double after `0.3` is a NEW power. -/

/-- Clause "keep holding after any later change of the power", for EVERY accepted new value,
    however close to the value in force: after `P = v` from any state the `P` getter returns exactly
    the new value and the `full_F` getter `_F * sqrt(new value)` — the previous power and a previously
    cached `_full_F` do not enter the result. -/
theorem setter_takes_effect_for_every_new_value (O : Ops μ ρ) (K : Nat) (st : State μ ρ) (v : PArg ρ)
    (hv : PArg.valid O K v = true) :
    let st' := (step Cfg.fixed O K st (.setP v)).1
    (step Cfg.fixed O K st (.setP v)).2 = .unit
    ∧ (step Cfg.fixed O K st' .readP).2 = .pow (PArg.values O K v)
    ∧ (step Cfg.fixed O K st' .readFullF).2
        = outArr (match st.f with
                  | none => .error .TypeError
                  | some F => O.scale F (PArg.values O K v)) :=
  setP_takes_effect O K st v hv

/-- Two different accepted powers are never identified: with at least one user, the `P` getter
    tells `P = x` from `P = y` whenever `x ≠ y` (whatever the state each setter was called in). -/
theorem power_lookup_exact (O : Ops μ ρ) (K : Nat) (hK : 0 < K) (s t : State μ ρ) (x y : ρ)
    (hx : O.pos x = true) (hy : O.pos y = true) (hxy : x ≠ y) :
    (step Cfg.fixed O K (step Cfg.fixed O K s (.setP (.scalar x))).1 .readP).2
      ≠ (step Cfg.fixed O K (step Cfg.fixed O K t (.setP (.scalar y))).1 .readP).2 := by
  rw [(setP_takes_effect O K s (.scalar x) hx).2.1, (setP_takes_effect O K t (.scalar y) hy).2.1]
  intro h
  exact hxy (replicate_injective hK (Out.pow.inj h))

/-- The same for the matrix setters: after `set_precoders(F=X, …)` the `F` getter returns exactly
    `X` and `Ns` its column counts, after `set_receive_filters(W=X)` / `(W_H=X)` the getter of that
    form returns exactly `X` — from any state, so also when `X` differs from what was stored in the
    last bit only. -/
theorem matrix_setters_take_effect_for_every_new_value (O : Ops μ ρ) (K : Nat) (st : State μ ρ)
    (X : μ) (fF : Option μ) (p : Option (List ρ)) :
    (step Cfg.fixed O K (step Cfg.fixed O K st (.setPrecoders (some X) fF p)).1 .readF).2 = .arr (some X)
    ∧ (step Cfg.fixed O K (step Cfg.fixed O K st (.setPrecoders (some X) fF p)).1 .readNs).2
        = .ns (some (O.ncols X))
    ∧ (step Cfg.fixed O K (step Cfg.fixed O K st (.setFilters none (some X))).1 .readW).2 = .arr (some X)
    ∧ (step Cfg.fixed O K (step Cfg.fixed O K st (.setFilters (some X) none)).1 .readWH).2 = .arr (some X) :=
  ⟨(setPrecoders_takes_effect O K st X fF p).1, (setPrecoders_takes_effect O K st X fF p).2.1,
   (setFilters_takes_effect O K st X).1, (setFilters_takes_effect O K st X).2⟩

/-- non-vacuity on the exact toy interpretation: `P = 4` then the close-by `P = 4 + 1/10^12`
    (both accepted) read back as different powers -/
example :
    (toyOps [2, 4]).pos 4 = true ∧ (toyOps [2, 4]).pos (4 + 1 / 1000000000000) = true
    ∧ (run Cfg.fixed (toyOps [2, 4]) 2 (State.init _ _)
        [.setP (.scalar 4), .readP, .setP (.scalar (4 + 1 / 1000000000000)), .readP]).2
      = [.unit, .pow [4, 4], .unit, .pow [4 + 1 / 1000000000000, 4 + 1 / 1000000000000]] := by
  decide +kernel

/-! ### robustness class R16 — argument identity and buffer reuse

Operations carry VALUES: the machine has no notion of the identity of an argument.  What that
means for a caller that reuses one array object is stated on `runCaller` (`Proofs/C10Robust.lean`):
the caller either overwrites its one buffer in place or calls the solver with an operation built
from the buffer as it is at that moment — `mk` may put the buffer into several roles of one call,
e.g. `fun b => .setPrecoders (some b) (some b) none`. -/

/-- Results depend only on the contents at call time: a history driven through ONE reused buffer
    gives — output by output, and in the final state — exactly what the same calls give when each
    is handed a private copy of the contents made at the moment of the call (`snapshots`), i.e.
    what a fresh object fed fresh arrays gives. -/
theorem buffer_reuse_equals_fresh_copies (O : Ops μ ρ) (K : Nat) {β : Type} (b : β)
    (cs : List (Caller β μ ρ)) :
    runCaller Cfg.fixed O K b (State.init μ ρ) cs
      = run Cfg.fixed O K (State.init μ ρ) (snapshots b cs) :=
  runCaller_eq_run Cfg.fixed O K cs b _

/-- Earlier results are not changed by later refills or calls: the outputs of a caller history are
    a prefix of the outputs of every continuation of it. -/
theorem later_refills_do_not_change_earlier_outputs (O : Ops μ ρ) (K : Nat) {β : Type} (b : β)
    (cs more : List (Caller β μ ρ)) :
    ∃ tail, (runCaller Cfg.fixed O K b (State.init μ ρ) (cs ++ more)).2
      = (runCaller Cfg.fixed O K b (State.init μ ρ) cs).2 ++ tail := by
  refine ⟨(run Cfg.fixed O K (run Cfg.fixed O K (State.init μ ρ) (snapshots b cs)).1
            (snapshots (finalBuffer b cs) more)).2, ?_⟩
  rw [runCaller_eq_run, runCaller_eq_run, snapshots_append, run_append_outputs]

/-- non-vacuity: one buffer used as `F` and as `full_F` of the same call, refilled, used again -/
example :
    (runCaller Cfg.fixed (toyOps [2, 4]) 2 ([1, 1] : List Rat) (State.init _ _)
      [.call (fun b => .setPrecoders (some b) (some b) none), .call (fun _ => .readFullF),
       .refill [-1, 1], .call (fun _ => .readFullF),
       .call (fun b => .setPrecoders (some b) none none), .call (fun _ => .readFullF)]).2
      = [.unit, .arr (some [1, 1]), .arr (some [1, 1]), .unit, .arr (some [-1, 1])] := by
  decide +kernel

/-! ### the design-round code violated the property (negative witnesses on `Cfg.orig`)

Evaluated by the kernel on the exact `1 × 1` rational interpretation `toyOps`
(`Model/C10Toy.lean`: two users, direct channels `2` and `4`). -/

/-- finding (16a): `randomizeF(1, P=4)`, read `full_F`, `P = 1`, read `full_F` -/
def witnessPowerSetter : List (Op (List Rat) Rat) :=
  [.randomizeF [3, -2] (.int 1) (.scalar 4), .readFullF, .setP (.scalar 1), .readFullF, .readP]

/-- On the design-round code the second read still returns the precoders scaled for `P = 4`
    (power 4 with a budget of 1); the repaired code returns `F·√1`. -/
theorem P_setter_stale_fullF_orig :
    (run Cfg.orig (toyOps [2, 4]) 2 (State.init _ _) witnessPowerSetter).2.drop 3
        = [.arr (some [2, -2]), .pow [1, 1]]
    ∧ (run Cfg.fixed (toyOps [2, 4]) 2 (State.init _ _) witnessPowerSetter).2.drop 3
        = [.arr (some [1, -1]), .pow [1, 1]] := by
  constructor <;> decide +kernel

/-- finding (16b): filters set, `full_W_H` read, then new precoders through `set_precoders` -/
def witnessSetPrecoders : List (Op (List Rat) Rat) :=
  [.randomizeF [1, 1] (.int 1) .none, .setFilters none (some [1, 1]), .readFullWH,
   .setPrecoders (some [-1, -1]) none none, .readFullWH, .readFullF]

/-- On the design-round code `full_W_H` still compensates the OLD precoders:
    `full_W_H · H_kk · full_F = (1/2)·2·(−1) = −1 ≠ 1`; the repaired code returns `−1/2, −1/4`. -/
theorem set_precoders_stale_fullWH_orig :
    (run Cfg.orig (toyOps [2, 4]) 2 (State.init _ _) witnessSetPrecoders).2.drop 4
        = [.arr (some [1/2, 1/4]), .arr (some [-1, -1])]
    ∧ (run Cfg.fixed (toyOps [2, 4]) 2 (State.init _ _) witnessSetPrecoders).2.drop 4
        = [.arr (some [-1/2, -1/4]), .arr (some [-1, -1])] := by
  constructor <;> decide +kernel

/-- finding (16c): a getter that raises leaves a half-built array behind -/
def witnessHalfBuilt : List (Op (List Rat) Rat) :=
  [.setFilters none (some [1, 1]), .readFullWH, .readFullWH, .readFullW]

/-- On the design-round code the `full_W_H` getter raises `TypeError` once (no precoder yet) and
    from then on returns the never-filled array; the repaired code keeps raising. -/
theorem getter_error_poisons_cache_orig :
    (run Cfg.orig (toyOps [2, 4]) 2 (State.init _ _) witnessHalfBuilt).2
        = [.unit, .err .TypeError, .arr (some []), .arr (some [])]
    ∧ (run Cfg.fixed (toyOps [2, 4]) 2 (State.init _ _) witnessHalfBuilt).2
        = [.unit, .err .TypeError, .err .TypeError, .err .TypeError] := by
  constructor <;> decide +kernel

end histories

/-! ## Part A′ : second tie to the source — the cache-invalidation structure, by regeneration

`Generated/C10Effects.lean` is re-emitted from `pyphysim/ia/iabase.py` and `algorithms.py` on
every check run (`harness/gen/c10.py`): for `IASolverBaseClass` and every concrete solver class,
for each entry point — overrides resolved per class, `_clear_*` and every other private helper
inlined — the attributes it resets on every normal path, assigns, writes only on some paths, may
fill lazily and reads; the attributes a fresh object has; what every lazy fill reads.  The
theorems below compare those tables with the cache machine and prove the invalidation discipline
on them, so that a dropped / conditional reset, a getter that stops recomputing, or a new cached
attribute breaks a proof obligation (independently of the seeded correspondence). -/
section effects
open PyPhysim.CacheEffects PyPhysim.Generated
variable {μ ρ : Type}

/-- The effect table `effect` IS what the cache machine does: for every interpretation `O`, every
    `K`, every state, every operation and all arguments, `step` (i) changes no field outside the
    table, (ii) leaves a field listed under `fills` as it was or takes it from `None` to a value,
    and (iii) leaves `None` in every field listed under `clears` whenever the call is accepted. -/
theorem model_step_has_table_effect (O : Ops μ ρ) (K : Nat) (st : State μ ρ) (op : Op μ ρ) :
    let e := effect op.kind
    let st' := (step Cfg.fixed O K st op).1
    (∀ x, x ∉ e.touched → x.agree st st')
    ∧ (∀ x ∈ e.fills, x.agree st st' ∨ (x.isNone st ∧ ¬ x.isNone st'))
    ∧ ((∀ err, (step Cfg.fixed O K st op).2 ≠ .err err) → ∀ x ∈ e.clears, x.isNone st') :=
  ⟨step_sameOutside O K st op, fun x hx => step_fillOnly O K st op x hx,
   fun hok x hx => step_clears O K st op x hx hok⟩

/-- … and the table is not an over-approximation: on concrete two-user solvers of the exact
    `1 × 1` rational interpretation (kernel-evaluated) every field the table lists for an
    operation is really changed by that operation. -/
theorem model_effect_table_is_tight : tight = true :=
  tight_true

/-- The dependency table `specDeps` IS what the invariants encode: `Coherent` is the conjunction
    of the clauses of `_W`/`_W_H`, `_full_W_H`, `_full_W` (the clause of `_full_F` is
    `FullFDerived`), and the clause of a derived field reads that field and the fields `specDeps`
    lists for it, nothing else. -/
theorem coherence_reads_only_spec_dependencies (O : Ops μ ρ) (K : Nat) (a b : State μ ρ) :
    (Coherent O K a ↔ ∀ x ∈ [Fld.w, .wH, .fullWH, .fullW], clause O K x a)
    ∧ (clause O K .fullF a ↔ FullFDerived O K a)
    ∧ ∀ x, x.agree a b → (∀ g ∈ specDeps x, g.agree a b) → (clause O K x a ↔ clause O K x b) :=
  ⟨coherent_iff_clauses O K a, Iff.rfl, fun x hx hd => clause_congr O K x a b hx hd⟩

/-- Bridge (i): every generated row — base class and the five solver classes, overrides resolved
    per class — restricted to the eight attributes equals the effect of the model operation behind
    it (same resets, assignments, conditional writes, lazy fills); `solve` resets what `Op.solve`
    resets and writes nothing else; the remaining entry points write none of the eight; writes
    outside the eight go to known bookkeeping attributes only; every expected row exists. -/
theorem generated_effects_match_model :
    (C10Effects.rows.all (rowMatches C10Effects.stepMethods) && entryPointsPresent C10Effects.rows) = true := by
  decide +kernel

/-- The attributes of a fresh object of each class are the eight modelled ones — all `None`, as
    in `State.init` — plus the known others; no entry point touches an attribute `__init__` does
    not create.  A new private attribute breaks this. -/
theorem generated_attributes_known :
    (initMatches C10Effects.initAttrs && mentionsOnlyInit C10Effects.initAttrs C10Effects.rows) = true
    ∧ ∀ x : Fld, x.isNone (State.init μ ρ) :=
  ⟨by decide +kernel, init_isNone⟩

/-- In every class the lazily filled attributes found in the source are the model's caches, and
    the dependency closure of what each fill reads is the closure of `specDeps`. -/
theorem generated_fill_reads_match_model : fillsMatch C10Effects.fillReads = true := by
  decide +kernel

/-- Bridge (ii), the sufficiency condition, on the GENERATED tables: every entry point of every
    class (including `_updateF` / `_updateW` of each solver and `solve`) that writes an attribute
    resets or rewrites — on every normal path — every lazily cached attribute whose dependency
    closure, taken from the generated fill read-sets, contains it.  (Only exemption: `_full_F`
    inside `solve` of the iterative solvers, see `solveExempt`.) -/
theorem generated_effects_sufficient :
    sufficientBut solveExempt (depsOf C10Effects.fillReads) C10Effects.rows = true := by
  decide +kernel

/-- What bridge (ii) means, for ANY object with the generated structure (no reference to the hand
    model): let every cached attribute have a coherence relation that reads only that attribute
    and its dependency closure (`Local`), in any value type.  If a call of an entry point — of any
    of the six classes — changes only what its generated row lists as written, and what it stores
    in a cached attribute is `None` or coherent (`Obeys`), then it takes coherent objects to
    coherent objects (for `solve` of the iterative solvers: all caches but `_full_F`). -/
theorem generated_tables_preserve_coherence {V : Type} (none : V)
    (rel : String → String → Obj V → Prop)
    (hloc : ∀ cls, Local (depsOf C10Effects.fillReads cls) (rel cls))
    (r : Row) (hr : r ∈ C10Effects.rows) (σ τ : Obj V)
    (hob : Obeys none (depsOf C10Effects.fillReads r.cls) (rel r.cls) r σ τ)
    (hcoh : Coh none (depsOf C10Effects.fillReads r.cls) (solveExempt r) (rel r.cls) σ) :
    Coh none (depsOf C10Effects.fillReads r.cls) (solveExempt r) (rel r.cls) τ :=
  sufficientBut_preserves_coherence none (depsOf C10Effects.fillReads) solveExempt C10Effects.rows
    generated_effects_sufficient rel hloc r hr σ τ hob hcoh

/-- the hypotheses of `generated_tables_preserve_coherence` are satisfiable in a non-trivial way:
    values are numbers (`0` = `None`), on the base class `_full_F` is coherent when it is
    `_F + _P`; the `P` setter (its generated row) stores a new `_P` and resets the three
    power-dependent caches -/
example :
    let rel : String → String → Obj Nat → Prop :=
      fun cls c σ => cls = baseCls → c = "_full_F" → σ "_full_F" = σ "_F" + σ "_P"
    let σ : Obj Nat := fun a => if a = "_F" then 1 else if a = "_P" then 2 else if a = "_full_F" then 3 else 0
    let τ : Obj Nat := fun a => if a = "_F" then 1 else if a = "_P" then 9 else 0
    let r : Row := { cls := baseCls, name := "P.setter", clears := ["_full_F", "_full_W", "_full_W_H"],
                     assigns := ["_P"], mayWrite := [], fills := [], reads := ["_multiUserChannel"] }
    (∀ cls, Local (depsOf C10Effects.fillReads cls) (rel cls)) ∧ r ∈ C10Effects.rows
    ∧ Obeys 0 (depsOf C10Effects.fillReads r.cls) (rel r.cls) r σ τ
    ∧ Coh 0 (depsOf C10Effects.fillReads r.cls) (solveExempt r) (rel r.cls) σ := by
  intro rel σ τ r
  refine ⟨?_, by decide, ⟨?_, ?_, ?_⟩, ?_⟩
  · intro cls c a b hab
    by_cases hcls : cls = baseCls
    · subst hcls
      by_cases hc : c = "_full_F"
      · subst hc
        have h1 := hab "_full_F" (.inl rfl)
        have h2 : a "_F" = b "_F" := hab "_F" (.inr (by decide))
        have h3 : a "_P" = b "_P" := hab "_P" (.inr (by decide))
        simp only [rel, h1, h2, h3]
      · simp only [rel, hc, false_implies, implies_true]
    · simp only [rel, hcls, false_implies]
  · intro a ha
    simp only [Row.written, r, List.append_nil, List.cons_append, List.nil_append, List.mem_cons,
      List.not_mem_nil, or_false, not_or] at ha
    simp [σ, τ, ha.1, ha.2.2.2]
  · intro c _ hm
    simp only [Row.mustWritten, r, List.cons_append, List.nil_append, List.mem_cons, List.not_mem_nil,
      or_false] at hm
    rcases hm with rfl | rfl | rfl | rfl
    · left; decide
    · left; decide
    · left; decide
    · right; intro _ h; exact absurd h (by decide)
  · intro c _ hm
    simp only [Row.written, r, List.append_nil, List.cons_append, List.nil_append, List.mem_cons,
      List.not_mem_nil, or_false] at hm
    rcases hm with rfl | rfl | rfl | rfl
    · right; left; decide
    · right; left; decide
    · right; left; decide
    · right; right; intro _ h; exact absurd h (by decide)
  · intro c _ _
    by_cases hc : c = "_full_F"
    · subst hc
      right
      intro _ _
      decide
    · right
      intro _ h
      exact absurd h hc

/-- the condition is not vacuous: the design-round `P` setter (no resets) violates it, and so does
    a cache `_sqrt_P` of the power that `set_precoders` / `clear` do not know -/
example :
    sufficient (depsOf C10Effects.fillReads)
      [{ cls := baseCls, name := "P.setter", clears := [], assigns := ["_P"], mayWrite := [], fills := [],
         reads := [] }] = false
    ∧ sufficient (depsOf ((baseCls, "_sqrt_P", ["_P"]) :: C10Effects.fillReads))
      [{ cls := baseCls, name := "clear", clears := ["_F", "_Ns", "_P", "_W", "_W_H", "_full_F", "_full_W", "_full_W_H"],
         assigns := [], mayWrite := [], fills := [], reads := [] }] = false := by
  decide

end effects

/-! ## Part B : the relations, over `ℂ` -/
section relations
open scoped ComplexOrder
variable {K : Nat} {d : Dims K}

/-- Clause "unit-norm precoders": every precoder the code builds as `X / np.linalg.norm(X, 'fro')`
    (`randomizeF`, closed form, alternating minimisation, max-SINR, MMSE, repaired minimum
    leakage, `set_precoders(full_F=…)`) has squared Frobenius norm exactly one, for every `X ≠ 0`. -/
theorem normalized_has_unit_norm {m n : Nat} (X : Mat ℂ m n) (hX : frobSq X ≠ 0) :
    frobSq (normalize X) = 1 :=
  frobSq_normalize X hX

/-- Clause "power-scaled versions … meet it exactly": `full_F_l = F_l·√P_l` of a unit-norm
    precoder carries exactly the power `P_l`, for every user of every system. -/
theorem scaled_precoder_power_exact (F : Prec ℂ d) (P : Fin K → ℝ) (l : Fin K) (hP : 0 ≤ P l)
    (hF : frobSq (F l) = 1) :
    frobSq (fullF F (fun k => (P k : ℂ)) l) = (P l : ℂ) :=
  frobSq_scaled_unit (F l) (P l) hP hF

/-- Clause "full receive filters that turn each user's own effective channel into the identity":
    for EVERY matrix `X` the `np.linalg.solve` kernel may return for `Hieq · X = W_H[k]`, where
    `Hieq = W_H[k]·H_kk·full_F[k]` is invertible: `X · H_kk · full_F[k] = I`. -/
theorem full_filter_identity {s r t : Nat} (WH : Mat ℂ s r) (Hkk : Mat ℂ r t) (fF : Mat ℂ t s)
    (X : Mat ℂ s r) (hsolve : matMul (eqChan WH Hkk fF) X = WH)
    (hinv : IsUnit (toM (eqChan WH Hkk fF))) :
    matMul X (matMul Hkk fF) = eye :=
  filter_identity WH Hkk fF X hsolve hinv

/-- The zero-forcing filter of alternating minimisation (`_updateW`): the first `Ns` rows of any
    left inverse of `[H_kk F_k | C_k]` map `H_kk F_k` to the identity and annihilate `C_k`. -/
theorem altmin_filter_zero_forcing {nn a b : Nat} (G : Mat ℂ (a + b) nn) (HF : Mat ℂ nn a)
    (C : Mat ℂ nn b) (hinv : matMul G (hstack HF C) = eye) :
    matMul (altMinWH G) HF = eye ∧ matMul (altMinWH G) C = mzero :=
  altMinWH_zero_forcing G HF C hinv

/-- Clause "chain of aligned precoders": under the contracts of the three `solve` and two `pinv`
    calls, for every `F0` spanning an invariant subspace of `E` (`E F0 = F0 Λ`: a set of
    eigenvectors), the interference is aligned at all three receivers. -/
theorem closed_form_aligned {N s : Nat} {H12 H13 H21 H23 H31 H32 A B Cc G32 G23 : Mat ℂ N N}
    (Kn : ClosedKernels H12 H13 H21 H23 H31 H32 A B Cc G32 G23)
    (F0 : Mat ℂ N s) (L : Mat ℂ s s) (hE : matMul (cfE A B Cc) F0 = matMul F0 L) :
    matMul H32 (cfChain G32 H31 F0) = matMul H31 F0
    ∧ matMul H23 (cfChain G23 H21 F0) = matMul H21 F0
    ∧ matMul H13 (cfChain G23 H21 F0) = matMul (matMul H12 (cfChain G32 H31 F0)) L :=
  closed_chain_aligned Kn F0 L hE

/-- Clause "the closed-form solver perfectly nulls all cross-user interference": with the
    normalised precoders and receive filters whose columns lie in the null space of the Gram matrix
    of ONE interfering link (the `leig` contract on a rank-deficient matrix), ALL six cross links
    `W_kᴴ H_kl F_l`, `k ≠ l`, are zero. -/
theorem closed_form_nulls_cross_interference {N s : Nat}
    {H12 H13 H21 H23 H31 H32 A B Cc G32 G23 : Mat ℂ N N}
    (Kn : ClosedKernels H12 H13 H21 H23 H31 H32 A B Cc G32 G23)
    (F0 : Mat ℂ N s) (L : Mat ℂ s s) (hE : matMul (cfE A B Cc) F0 = matMul F0 L)
    (c1 c2 c3 : ℂ) (h1 : c1 ≠ 0) (h2 : c2 ≠ 0) (h3 : c3 ≠ 0) (W1 W2 W3 : Mat ℂ N s)
    (hW1 : matMul (cfWMat H12 (mdiv (cfChain G32 H31 F0) c2)) W1 = mzero)
    (hW2 : matMul (cfWMat H21 (mdiv F0 c1)) W2 = mzero)
    (hW3 : matMul (cfWMat H31 (mdiv F0 c1)) W3 = mzero) :
    let F1 := mdiv F0 c1
    let F2 := mdiv (cfChain G32 H31 F0) c2
    let F3 := mdiv (cfChain G23 H21 F0) c3
    matMul (cT W1) (matMul H12 F2) = mzero ∧ matMul (cT W1) (matMul H13 F3) = mzero
    ∧ matMul (cT W2) (matMul H21 F1) = mzero ∧ matMul (cT W2) (matMul H23 F3) = mzero
    ∧ matMul (cT W3) (matMul H31 F1) = mzero ∧ matMul (cT W3) (matMul H32 F2) = mzero :=
  closed_form_nulls Kn F0 L hE c1 c2 c3 h1 h2 h3 W1 W2 W3 hW1 hW2 hW3

/-- What `MinLeakageIASolver.get_cost()` is (no noise): the total leaked interference power
    `Σ_{k≠l} P_l ‖W_kᴴ H_kl F_l‖²_F` (the entrywise `np.abs` is the identity on the diagonal of a
    positive semidefinite matrix). -/
theorem minleak_cost_is_leaked_power (H : Chan ℂ d) (F : Prec ℂ d) (W : Filt ℂ d) (P : Fin K → ℝ)
    (hP : ∀ l, 0 ≤ P l) :
    minLeakCost H (fullF F (fun l => (P l : ℂ))) none W
      = ∑ k, ∑ l, if l = k then 0 else (P l : ℂ) * link H F W k l := by
  rw [minLeakCost_eq, leakDirect_eq]
  refine Finset.sum_congr rfl (fun k _ => Finset.sum_congr rfl (fun l _ => ?_))
  rw [sqrt_mul_star (P l) (hP l)]

/-- Clause "leakage reciprocity": for equal powers the leakage of the direct network equals the
    leakage of the reverse network, in which precoders and filters swap roles. -/
theorem leakage_reciprocity (H : Chan ℂ d) (F : Prec ℂ d) (W : Filt ℂ d) (p : ℝ) (hp : 0 ≤ p) :
    leakDirect H (fullF F (fun _ => (p : ℂ))) W = leakReverse H W (fun _ => (p : ℂ)) F :=
  leak_reciprocity H F W p hp

/-- Ky Fan's principle from the certificate contract of `leig`: eigenpairs with orthonormal vectors
    whose eigenvalues lie below the rest of the spectrum minimise `tr(Uᴴ Q U)` over ALL families `U`
    with orthonormal columns (also after the common scaling by `1/√Ns` the solvers apply). -/
theorem least_eigenvectors_minimise {n s : Nat} (Q : Matrix (Fin n) (Fin n) ℂ)
    (V : Matrix (Fin n) (Fin s) ℂ) (h : IsLeast Q V) (U : Matrix (Fin n) (Fin s) ℂ) (hU : Uᴴ * U = 1)
    (c : ℝ) :
    (Matrix.trace (((c : ℂ) • V)ᴴ * Q * ((c : ℂ) • V))).re
      ≤ (Matrix.trace (((c : ℂ) • U)ᴴ * Q * ((c : ℂ) • U))).re :=
  h.le U hU c

/-- Clause "for equal powers without noise, an iteration of the … minimum-leakage solver never
    increases the total leaked interference power": `get_cost()` after `_step()` is at most
    `get_cost()` before, whenever the current iterate consists of scaled orthonormal families (what
    every iteration produces) and the two `leig` calls return least eigenvectors. -/
theorem minleak_iteration_nonincreasing (H : Chan ℂ d) (F F' : Prec ℂ d) (W W' : Filt ℂ d) (p : ℝ)
    (hp : 0 ≤ p) (c c' : Fin K → ℝ)
    (Uf Vf : (k : Fin K) → Mat ℂ (d.nt k) (d.ns k)) (Uw Vw : (k : Fin K) → Mat ℂ (d.nr k) (d.ns k))
    (hF : ∀ k, toM (F k) = (c k : ℂ) • toM (Uf k)) (hUf : ∀ k, (toM (Uf k))ᴴ * toM (Uf k) = 1)
    (hW : ∀ k, toM (W k) = (c' k : ℂ) • toM (Uw k)) (hUw : ∀ k, (toM (Uw k))ᴴ * toM (Uw k) = 1)
    (hF' : ∀ k, toM (F' k) = (c k : ℂ) • toM (Vf k))
    (hVf : ∀ k, IsLeast (toM (calcQrev H W (fun _ => (p : ℂ)) k)) (toM (Vf k)))
    (hW' : ∀ k, toM (W' k) = (c' k : ℂ) • toM (Vw k))
    (hVw : ∀ k, IsLeast (toM (calcQ H (fullF F' (fun _ => (p : ℂ))) k)) (toM (Vw k))) :
    (minLeakCost H (fullF F' (fun _ => (p : ℂ))) none W').re
      ≤ (minLeakCost H (fullF F (fun _ => (p : ℂ))) none W).re :=
  minleak_iteration_le H F F' W W' p hp c c' Uf Vf Uw Vw hF hUf hW hUw hF' hVf hW' hVw

/-- The same clause for alternating minimisation (`_updateF` = `leig` of `Σ_k H_klᴴ(I−C_kC_kᴴ)H_kl`,
    then `_updateC` = `peig` of the interference covariance): `get_cost()` does not increase — here
    for every vector of non-negative powers. -/
theorem altmin_iteration_nonincreasing (H : Chan ℂ d) (F F' : Prec ℂ d) (C C' : Basis ℂ d)
    (P : Fin K → ℝ) (hP : ∀ l, 0 ≤ P l) (c : Fin K → ℝ)
    (Uf Vf : (k : Fin K) → Mat ℂ (d.nt k) (d.ns k))
    (hF : ∀ k, toM (F k) = (c k : ℂ) • toM (Uf k)) (hUf : ∀ k, (toM (Uf k))ᴴ * toM (Uf k) = 1)
    (hC : ∀ k, (toM (C k))ᴴ * toM (C k) = 1)
    (hF' : ∀ k, toM (F' k) = (c k : ℂ) • toM (Vf k))
    (hVf : ∀ k, IsLeast (toM (altMinFMat H C k)) (toM (Vf k)))
    (hC' : ∀ k, IsDominant (toM (calcQ H (fullF F' (fun l => (P l : ℂ))) k)) (toM (C' k))) :
    (altMinCost H (fullF F' (fun l => (P l : ℂ))) C').re
      ≤ (altMinCost H (fullF F (fun l => (P l : ℂ))) C).re :=
  altmin_iteration_le H F F' C C' P hP c Uf Vf hF hUf hC hF' hVf hC'

/-- Clause "never exceed each user's power" for the MMSE solver, whose `full_F` is the precoder
    `_calc_Vi` returns: `‖V_i‖²_F ≤ P_i` for every `solve` kernel and every Newton result that
    satisfies the contract `func(mu) ≤ 0` (no contract is needed when `func(0) ≤ 0`). -/
theorem mmse_power_bounded {n s : Nat} (solve : Mat ℂ n n → Mat ℂ n s → Mat ℂ n s)
    (newton : Mat ℂ n n → Mat ℂ n s → ℂ → ℂ) (S : Mat ℂ n n) (HU : Mat ℂ n s) (P : ℝ)
    (hnewton : ¬ nonposRe (mmseCost (solve (mmseLhs (mdiv S (frobNorm HU)) 0) (mdiv HU (frobNorm HU))) (P : ℂ)) →
      nonposRe (mmseCost (solve (mmseLhs (mdiv S (frobNorm HU))
          (newton (mdiv S (frobNorm HU)) (mdiv HU (frobNorm HU)) (P : ℂ))) (mdiv HU (frobNorm HU))) (P : ℂ))) :
    (frobSq (mmseVi nonposRe solve newton S HU (P : ℂ))).re ≤ P :=
  mmse_power_le solve newton S HU P hnewton

/-- finding (17), for EVERY matrix with `Ns ≥ 2` orthonormal columns (what `leig` returns): stored
    as it is (design-round code) its Frobenius norm is `√Ns`, it is not a unit-norm precoder and the
    assertion `norm(W_l) − 1 < 1e-6` of `calc_Q_rev` fails — `solve` raises `AssertionError`. -/
theorem minleak_orig_violates_unit_norm {n s : Nat} (V : Mat ℂ n s) (hV : (toM V)ᴴ * toM V = 1)
    (hs : 2 ≤ s) :
    frobSq (minLeakStore false V) = (s : ℂ) ∧ ¬ normAssert ltRe (minLeakStore false V) :=
  ⟨by simpa [minLeakStore] using frobSq_orthonormal V hV, assert_fails_unnormalized V hV hs⟩

/-- The repaired code stores `V / ‖V‖_F`: unit norm, and the assertion holds. -/
theorem minleak_fixed_unit_norm {n s : Nat} (V : Mat ℂ n s) (hV : frobSq V ≠ 0) :
    frobSq (minLeakStore true V) = 1 ∧ normAssert ltRe (minLeakStore true V) :=
  ⟨by simpa [minLeakStore] using frobSq_normalize V hV, assert_holds_normalized V hV⟩

/-- Clause "stream counts consistent with the filter shapes" for `initialize_with = 'svd'`: the
    repaired initialisation keeps exactly `Ns` right singular vectors of the `Nr × Nt` direct
    channel for every antenna configuration, while the design-round code (which discarded `Nr − Ns`
    of the `Nt` vectors) produced precoders with a different number of columns whenever `Nt ≠ Nr`. -/
theorem svd_init_stream_count (nr nt ns : Nat) (h1 : 1 ≤ ns) (h2 : ns ≤ nr) (h3 : ns ≤ nt) :
    svdInitKept true nr nt ns = ns ∧ (nr ≠ nt → svdInitKept false nr nt ns ≠ ns) :=
  ⟨svdInitKept_repaired nr nt ns h3, svdInitKept_orig nr nt ns h1 h2 h3⟩

end relations

/-! ## non-vacuity -/

/-- the hypotheses of `full_filter_identity` are satisfiable (a `1 × 1` system) -/
example : ∃ (WH Hkk fF X : Mat ℂ 1 1),
    matMul (eqChan WH Hkk fF) X = WH ∧ IsUnit (toM (eqChan WH Hkk fF)) := ex_filter_identity

/-- the hypotheses of `closed_form_nulls_cross_interference` are satisfiable (`N = 2`, one stream) -/
example : ∃ (Hm A _F0 _W : Mat ℂ 2 2) (F0 : Mat ℂ 2 1) (L : Mat ℂ 1 1) (W : Mat ℂ 2 1),
    ClosedKernels Hm Hm Hm Hm Hm Hm A A A A A ∧ matMul (cfE A A A) F0 = matMul F0 L
    ∧ matMul (cfWMat Hm (mdiv (cfChain A Hm F0) 1)) W = mzero
    ∧ matMul (cfWMat Hm (mdiv F0 1)) W = mzero := ex_closed_form

/-- the certificate contract is satisfiable by a non-trivial matrix (`diag(1, 2)`, least eigenvector `e₁`) -/
example : ∃ (Q : Matrix (Fin 2) (Fin 2) ℂ) (V : Matrix (Fin 2) (Fin 1) ℂ), IsLeast Q V ∧ Q ≠ 0 := ex_isLeast

end PyPhysim.C10
