import PyPhysim.Model.C03
import PyPhysim.Model.C03Disc

namespace PyPhysim.C03

/-- placeholder while the harness is brought up -/
theorem pyRangeLen_example : pyRangeLen 0 10 3 = 4 := by decide

end PyPhysim.C03
