import PyPhysim.Proofs.C03Mu
import PyPhysim.Proofs.C03MuMimo
import PyPhysim.Proofs.C03Hist
import PyPhysim.Proofs.C03Disc
import PyPhysim.Proofs.C03Aux
import PyPhysim.Proofs.C03Robust

/-!
# C03 — TDL channel output is the convolution with the impulse response it reports

Property theorems only.  The model (`PyPhysim.Model.C03*`) mirrors
`TdlChannel`, `TdlImpulseResponse`, `SuChannel`, `MuChannel`/`MuMimoChannel`
and `TdlChannelProfile._calc_discretized_tap_powers_and_delays`; it is tied to
the code by the exact correspondence of `harness/props/c03.py`, and its
block-size / fading-schedule expressions (`PyPhysim.Generated.blockSize*`,
`samplesPerBlock`, `skipPerBlock`) are regenerated from the current source.
The right-hand sides (`convSpec*`, `freqSpec*`, `collidingPower`) are the
first-principles specifications of `PyPhysim.Model.C03Spec`.

Quantifiers.  `α` is any commutative semiring (ℤ[i], ℚ(i), ℂ …); `proc` any
fading process; `fftK` any FFT kernel; the channel state `c` is arbitrary, so
every statement holds after **any history** of earlier operations (made
explicit in `history_*`).  Inputs are tables `tab n xf`: every rectangular
numpy array is one (`rect_is_table`).
-/
namespace PyPhysim.C03
open PyPhysim.Proto

variable {α : Type} [CommSemiring α]

/-! ## inputs -/

/-- every rectangular `rows × n` list of lists is the table of its entries: the theorems
    below, stated for tables, cover every array a caller can pass -/
theorem rect_is_table (x : List (List α)) (n : Nat) (h : ∀ row ∈ x, row.length = n) :
    ∃ xf : Nat → Nat → α, x = tab x.length (fun a => tab n (xf a)) := by
  refine ⟨fun a k => ((x[a]?.getD [])[k]?).getD 0, ?_⟩
  apply List.ext_getElem?
  intro a
  rw [getElem?_tab]
  by_cases ha : a < x.length
  · simp only [ha, if_true, List.getElem?_eq_getElem ha, Option.getD_some, Option.some.injEq]
    apply List.ext_getElem?
    intro k
    rw [getElem?_tab]
    have hl := h x[a] (List.getElem_mem ha)
    by_cases hk : k < n
    · have : k < x[a].length := by omega
      simp [hk, List.getElem?_eq_getElem this]
    · have : x[a].length ≤ k := by omega
      simp [hk, List.getElem?_eq_none this]
  · simp [ha, List.getElem?_eq_none (Nat.le_of_not_lt ha)]

/-! ## time domain, single link (`TdlChannel.corrupt_data`) -/

/-- CLAUSE "returned signal = time-varying convolution with the response reported
    afterwards", SISO.  For every channel state, input length and input. -/
theorem corrupt_siso_spec (proc : Proc α) (c : Tdl α) (hant : c.ant = none) (mem : Nat)
    (hmem : c.mem = .ok mem) (n : Nat) (xf : Nat → α) :
    ∃ c' ir, c.corrupt proc [tab n xf] = .ok (c', [convSpecSiso ir n mem xf]) ∧
      c'.lastIR = .ok ir ∧ ir.n = n ∧ ir.delays = c.delays :=
  ⟨c.afterTx proc n, genIR proc c c.pos n, tdl_corrupt_siso proc c hant mem hmem n xf, rfl, rfl, rfl⟩

/-- same clause, MIMO in the original direction: `y[r][m] = Σ_i Σ_t h_i[r,t][m−d_i]·x[t][m−d_i]`,
    `nr` output rows from `nt` input rows. -/
theorem corrupt_mimo_spec (proc : Proc α) (c : Tdl α) (nr nt : Nat) (hant : c.ant = some (nr, nt))
    (hsw : c.switched = false) (hnt : 0 < nt) (mem : Nat) (hmem : c.mem = .ok mem) (n : Nat) (xf : Nat → Nat → α) :
    ∃ c' ir, c.corrupt proc (tab nt (fun a => tab n (xf a))) = .ok (c', convSpec ir false nr nt n mem xf) ∧
      c'.lastIR = .ok ir ∧ ir.n = n ∧ ir.delays = c.delays := by
  have h := tdl_corrupt_mimo proc c nr nt hant mem hmem n xf (by simp [Tdl.dims, hsw, hnt])
  simp only [Tdl.dims, hsw, Bool.false_eq_true, if_false] at h
  exact ⟨_, _, h, rfl, rfl, rfl⟩

/-- same clause, switched direction (roles of the antennas exchanged):
    `y[t][m] = Σ_i Σ_r h_i[r,t][m−d_i]·x[r][m−d_i]`, `nt` output rows from `nr` input rows. -/
theorem corrupt_switched_spec (proc : Proc α) (c : Tdl α) (nr nt : Nat) (hant : c.ant = some (nr, nt))
    (hsw : c.switched = true) (hnr : 0 < nr) (mem : Nat) (hmem : c.mem = .ok mem) (n : Nat) (xf : Nat → Nat → α) :
    ∃ c' ir, c.corrupt proc (tab nr (fun a => tab n (xf a))) = .ok (c', convSpec ir true nt nr n mem xf) ∧
      c'.lastIR = .ok ir ∧ ir.n = n ∧ ir.delays = c.delays := by
  have h := tdl_corrupt_mimo proc c nr nt hant mem hmem n xf (by simp [Tdl.dims, hsw, hnr])
  simp only [Tdl.dims, hsw, if_true] at h
  exact ⟨_, _, h, rfl, rfl, rfl⟩

/-- the switched coefficient really is the transposed tap: `orient true h t r = h r t` -/
theorem orient_switched (h : Nat → Nat → Nat → α) (r t k : Nat) :
    orient true h t r k = h r t k ∧ orient false h r t k = h r t k := ⟨rfl, rfl⟩

/-- CLAUSE "has length input + channel memory": every output row of the specification
    (hence, by the three theorems above, of `corrupt_data`) has `n + mem` entries, and
    `mem` is the last (largest) delay of the profile. -/
theorem corrupt_length (ir : IR α) (sw : Bool) (nOut nIn n mem : Nat) (xf : Nat → α) (xg : Nat → Nat → α) :
    (convSpecSiso ir n mem xf).length = n + mem ∧
    (convSpec ir sw nOut nIn n mem xg).length = nOut ∧
    ∀ row ∈ convSpec ir sw nOut nIn n mem xg, row.length = n + mem := by
  refine ⟨tab_length _ _, tab_length _ _, ?_⟩
  intro row hrow
  simp only [convSpec, tab, List.mem_map, List.mem_range] at hrow
  obtain ⟨j, _, rfl⟩ := hrow
  simp

/-- `mem` is the delay of the last tap (`num_taps_with_padding − 1`) and, for the sorted
    delays every discretised profile has, the largest one -/
theorem mem_is_last_delay (c : Tdl α) (mem : Nat) (hmem : c.mem = .ok mem)
    (hsorted : c.delays.Pairwise (· < ·)) : mem ∈ c.delays ∧ ∀ d ∈ c.delays, d ≤ mem :=
  mem_last_delay c mem hmem hsorted

/-- CLAUSE "is linear in the input", SISO: for one channel state (one fading realisation)
    the output of `a·x + b·x'` is `a·y + b·y'`; state and reported response do not depend on
    the input values. -/
theorem corrupt_linear_siso (proc : Proc α) (c : Tdl α) (hant : c.ant = none) (mem : Nat)
    (hmem : c.mem = .ok mem) (n : Nat) (a b : α) (xf xg : Nat → α) :
    ∃ (c' : Tdl α) (Y Y' : Nat → α),
      c.corrupt proc [tab n xf] = .ok (c', [tab (n + mem) Y]) ∧
      c.corrupt proc [tab n xg] = .ok (c', [tab (n + mem) Y']) ∧
      c.corrupt proc [tab n (fun k => a * xf k + b * xg k)]
        = .ok (c', [tab (n + mem) (fun m => a * Y m + b * Y' m)]) := by
  refine ⟨c.afterTx proc n, convAtSiso (genIR proc c c.pos n) n xf, convAtSiso (genIR proc c c.pos n) n xg,
    tdl_corrupt_siso proc c hant mem hmem n xf, tdl_corrupt_siso proc c hant mem hmem n xg, ?_⟩
  rw [tdl_corrupt_siso proc c hant mem hmem n]
  unfold convSpecSiso
  congr 4
  funext m
  exact convAtSiso_linear _ n a b xf xg m

/-- CLAUSE "is linear in the input", MIMO, either direction. -/
theorem corrupt_linear_mimo (proc : Proc α) (c : Tdl α) (nr nt : Nat) (hant : c.ant = some (nr, nt)) (mem : Nat)
    (hmem : c.mem = .ok mem) (hIn : 0 < (c.dims nr nt).2) (n : Nat) (a b : α) (xf xg : Nat → Nat → α) :
    ∃ (c' : Tdl α) (Y Y' : Nat → Nat → α),
      c.corrupt proc (tab (c.dims nr nt).2 (fun i => tab n (xf i)))
        = .ok (c', tab (c.dims nr nt).1 (fun j => tab (n + mem) (Y j))) ∧
      c.corrupt proc (tab (c.dims nr nt).2 (fun i => tab n (xg i)))
        = .ok (c', tab (c.dims nr nt).1 (fun j => tab (n + mem) (Y' j))) ∧
      c.corrupt proc (tab (c.dims nr nt).2 (fun i => tab n (fun k => a * xf i k + b * xg i k)))
        = .ok (c', tab (c.dims nr nt).1 (fun j => tab (n + mem) (fun m => a * Y j m + b * Y' j m))) := by
  refine ⟨c.afterTx proc n, convAt (genIR proc c c.pos n) c.switched (c.dims nr nt).2 n xf,
    convAt (genIR proc c c.pos n) c.switched (c.dims nr nt).2 n xg,
    tdl_corrupt_mimo proc c nr nt hant mem hmem n xf hIn, tdl_corrupt_mimo proc c nr nt hant mem hmem n xg hIn, ?_⟩
  rw [tdl_corrupt_mimo proc c nr nt hant mem hmem n _ hIn]
  unfold convSpec
  congr 3
  funext j
  congr 1
  funext m
  exact convAt_linear _ _ _ n a b xf xg j m

/-- the reported taps are the fading samples at the absolute positions `pos … pos+n−1` of the
    generator, times the tap amplitude; the transmission consumes `n` positions -/
theorem corrupt_uses_samples (proc : Proc α) (c c' : Tdl α) (x y : List (List α))
    (h : c.corrupt proc x = .ok (c', y)) :
    c'.pos = c.pos + numSymbols x ∧
    c'.last = some { n := numSymbols x, delays := c.delays,
                     vals := c.taps.zipIdx.map (fun ta => fun r t k => proc c.link (c.pos + k) ta.2 r t * ta.1.2) } := by
  rw [tdl_corrupt_state proc c c' x y h]
  exact ⟨rfl, rfl⟩

/-! ## path loss (`SuChannel`) -/

/-- CLAUSE "with or without path loss": the output of `SuChannel.corrupt_data` is the
    convolution with the response `SuChannel.get_last_impulse_response` reports afterwards
    (both carry the same factor `√pathloss`), SISO. -/
theorem pathloss_consistent_siso (proc : Proc α) (c : Su α) (hant : c.tdl.ant = none) (mem : Nat)
    (hmem : c.tdl.mem = .ok mem) (n : Nat) (xf : Nat → α) :
    ∃ c' ir, c.corrupt proc [tab n xf] = .ok (c', [convSpecSiso ir n mem xf]) ∧
      c'.lastIR = .ok ir ∧ ir.n = n ∧ ir.delays = c.tdl.delays ∧ c'.pl = c.pl := by
  refine ⟨_, _, su_corrupt_siso proc c hant mem hmem n xf, su_lastIR c _ _ rfl, ?_, ?_, rfl⟩
  · rw [Su.report_n]; rfl
  · rw [Su.report_delays]; rfl

/-- same, MIMO in either direction (`c.tdl.dims` gives the (output, input) antenna counts) -/
theorem pathloss_consistent_mimo (proc : Proc α) (c : Su α) (nr nt : Nat) (hant : c.tdl.ant = some (nr, nt))
    (mem : Nat) (hmem : c.tdl.mem = .ok mem) (hIn : 0 < (c.tdl.dims nr nt).2) (n : Nat) (xf : Nat → Nat → α) :
    ∃ c' ir, c.corrupt proc (tab (c.tdl.dims nr nt).2 (fun a => tab n (xf a)))
        = .ok (c', convSpec ir c.tdl.switched (c.tdl.dims nr nt).1 (c.tdl.dims nr nt).2 n mem xf) ∧
      c'.lastIR = .ok ir ∧ ir.n = n ∧ ir.delays = c.tdl.delays ∧ c'.pl = c.pl := by
  refine ⟨_, _, su_corrupt_mimo proc c nr nt hant mem hmem n xf hIn, su_lastIR c _ _ rfl, ?_, ?_, rfl⟩
  · rw [Su.report_n]; rfl
  · rw [Su.report_delays]; rfl

/-- what "the same factor" means: the reported taps are the TDL taps times `s = √pathloss`,
    and the output is the TDL output times `s` -/
theorem pathloss_scales (s : α) (ir : IR α) (n : Nat) (xf : Nat → α) (m : Nat) :
    convAtSiso (ir.scale s) n xf m = convAtSiso ir n xf m * s ∧
    (ir.scale s).vals = ir.vals.map (fun h r t k => s * h r t k) :=
  ⟨convAtSiso_scale s ir n xf m, rfl⟩

/-! ## frequency domain (`corrupt_data_in_freq_domain`) -/

/-- Python `range` semantics: `len(range(a, b, s))` counts exactly the `k ≥ 0` whose element
    `a + k·s` lies before `b` in the direction of the step -/
theorem range_len_spec (a b s : Int) (k : Nat) :
    (k : Int) < pyRangeLen a b s ↔ (0 < s ∧ a + k * s < b) ∨ (s < 0 ∧ b < a + k * s) :=
  pyRangeLen_spec a b s k

/-- CLAUSE "slice index arithmetic": for every slice (any start / stop / step incl. `None`,
    negative values, steps that do not divide the span) on an axis of any length, numpy
    selects the elements of `range(*slice.indices(N))`, all inside the axis; a zero step is
    the only error -/
theorem sliceIndices_spec (sl : PySlice) (N : Nat) :
    (sl.step = some 0 → sliceIndices sl N = .error .ValueError) ∧
    (sl.step ≠ some 0 → ∃ a b c, sliceIndices sl N = .ok (a, b, c) ∧
        selPos (.slice sl) N = .ok ((pyRange a b c).map Int.toNat) ∧
        (pyRange a b c).length = (pyRangeLen a b c).toNat ∧
        ∀ e ∈ pyRange a b c, 0 ≤ e ∧ e < N) := by
  constructor
  · intro h
    simp [sliceIndices, sliceStep, h]
  · intro h
    obtain ⟨a, b, c, habc⟩ := sliceIndices_ok_of_step sl N h
    exact ⟨a, b, c, habc, selPos_slice habc, pyRange_length a b c, fun e he => slice_index_in_range habc he⟩

/-- CLAUSE "for every way of selecting subcarriers (all, index array or slice)": the
    `block_size` computed by the current source (regenerated expressions) is the number of
    selected carriers.  (This is the statement the unrepaired source violated for slices whose
    step does not divide the span.) -/
theorem blockSize_is_selected_count (sel : Sel) (fft : Nat) (B : Int) (ps : List Nat)
    (hB : blockSize sel fft = .ok B) (hps : selPos sel fft = .ok ps) : (ps.length : Int) = B :=
  blockSize_eq_selected sel fft B ps hB hps

/-- the design-round witnesses, now accepted: `slice(0, 10, 3)` and `slice(1, 16, 4)` on 16
    carriers select 4 carriers and the block size is 4 -/
theorem blockSize_witnesses :
    blockSize (.slice ⟨some 0, some 10, some 3⟩) 16 = .ok 4 ∧
    selPos (.slice ⟨some 0, some 10, some 3⟩) 16 = .ok [0, 3, 6, 9] ∧
    blockSize (.slice ⟨some 1, some 16, some 4⟩) 16 = .ok 4 ∧
    selPos (.slice ⟨some 1, some 16, some 4⟩) 16 = .ok [1, 5, 9, 13] := by
  decide

/-- NEGATIVE WITNESS for the formula the source used before the repair
    (`(stop − start) // step`, finding `C03:corrupt_data_in_freq_domain:slice-step-not-dividing-span`):
    it gives 3 where `slice(0, 10, 3)` selects 4 carriers, and 0 where `slice(0, 1, 2)` selects 1 -/
theorem old_blockSize_formula_wrong :
    pyFloorDiv (10 - 0) 3 = 3 ∧ (pyRange 0 10 3).length = 4 ∧
    pyFloorDiv (1 - 0) 2 = 0 ∧ (pyRange 0 1 2).length = 1 := by
  decide

/-- non-vacuity: the hypotheses of the frequency-domain theorems are met by the design-round
    witness (8 symbols = 2 blocks over `slice(0, 10, 3)` of 16 carriers) -/
example : freqPlan (.slice ⟨some 0, some 10, some 3⟩) 16 8 = .ok ([0, 3, 6, 9], 4, 2) := by decide

/-- non-vacuity: the memory hypothesis `c.mem = .ok mem` holds for every non-empty profile, e.g. -/
example : (Tdl.init [(0, 1), (2, 3), (5, 1)] (some (2, 3)) true 0 : Tdl Int).mem = .ok 5 := rfl

/-- which carriers the three kinds select: everything; the listed indexes (negative ones
    counted from the end, anything outside `[-N, N)` is an IndexError); the slice's range -/
theorem selPos_all_idx (N : Nat) (l : List Int) :
    selPos .all N = .ok (List.range N) ∧
    ((∀ i ∈ l, -(N : Int) ≤ i ∧ i < N) →
      selPos (.idx l) N = .ok (l.map (fun i => (if i < 0 then i + (N : Int) else i).toNat))) := by
  refine ⟨rfl, ?_⟩
  intro h
  unfold selPos
  apply mapM_ok_of_forall
  intro i hi
  have := h i hi
  by_cases hneg : i < 0
  · simp only [hneg, if_true]
    rw [if_pos (by omega)]
  · simp only [hneg, if_false]
    rw [if_pos (by omega)]

/-- a transmission of `nb ≥ 1` full blocks over any non-empty valid selection is accepted
    (non-vacuity of the two theorems below, and acceptance of every slice geometry) -/
theorem freq_accepts (sel : Sel) (fft nb : Nat) (ps : List Nat) (hfft : 0 < fft) (hnb : 0 < nb)
    (hps : selPos sel fft = .ok ps) (hne : ps ≠ []) :
    freqPlan sel fft (nb * ps.length) = .ok (ps, ps.length, nb) :=
  freqPlan_complete sel fft nb ps hfft hnb hps hne

/-- … and whenever a transmission is accepted, the signal length is `nb` blocks of exactly
    as many symbols as carriers are selected -/
theorem freq_accepted_geometry {sel : Sel} {fft n : Nat} {ps : List Nat} {B nb : Nat}
    (h : freqPlan sel fft n = .ok (ps, B, nb)) :
    0 < fft ∧ 0 < B ∧ 0 < nb ∧ n = nb * B ∧ ps.length = B ∧ selPos sel fft = .ok ps :=
  let ⟨h1, h2, h3, h4, h5, h6, _⟩ := freqPlan_ok h
  ⟨h1, h2, h3, h4, h5, h6⟩

/-- CLAUSE "frequency-domain transmission = per-block multiplication by the DFT of the same
    reported response", SISO, any selection: `y[b·B + q] = FFT(dense taps of sample b)[ps[q]]·x[b·B + q]`,
    where the response is the one reported afterwards (one sample per block). -/
theorem freq_siso_spec (proc : Proc α) (fftK : Fft α) (c : Tdl α) (hant : c.ant = none)
    (sel : Sel) (fft n : Nat) (ps : List Nat) (B nb : Nat) (hplan : freqPlan sel fft n = .ok (ps, B, nb))
    (xf : Nat → α) :
    ∃ c' ir, c.corruptFreq proc fftK [tab n xf] fft sel = .ok (c', [freqSpecSiso fftK ir fft ps B nb xf]) ∧
      c'.lastIR = .ok ir ∧ ir.n = nb ∧ ir.delays = c.delays := by
  obtain ⟨last, h1, h2⟩ := tdl_corruptFreq_siso proc fftK c hant sel fft n ps B nb hplan xf
  exact ⟨_, last, h1, rfl, h2.1, h2.2.1⟩

/-- same clause, MIMO in either direction:
    `y[j][b·B + q] = Σ_a FFT(dense taps (j,a) of sample b)[ps[q]]·x[a][b·B + q]` -/
theorem freq_mimo_spec (proc : Proc α) (fftK : Fft α) (c : Tdl α) (nr nt : Nat)
    (hant : c.ant = some (nr, nt)) (hIn : 0 < (c.dims nr nt).2)
    (sel : Sel) (fft n : Nat) (ps : List Nat) (B nb : Nat) (hplan : freqPlan sel fft n = .ok (ps, B, nb))
    (xf : Nat → Nat → α) :
    ∃ c' ir, c.corruptFreq proc fftK (tab (c.dims nr nt).2 (fun a => tab n (xf a))) fft sel
        = .ok (c', freqSpec fftK ir c.switched fft ps B nb (c.dims nr nt).1 (c.dims nr nt).2 xf) ∧
      c'.lastIR = .ok ir ∧ ir.n = nb ∧ ir.delays = c.delays := by
  obtain ⟨last, h1, h2⟩ := tdl_corruptFreq_mimo proc fftK c nr nt hant hIn sel fft n ps B nb hplan xf
  exact ⟨_, last, h1, rfl, h2.1, h2.2.1⟩

/-- the frequency-domain output has exactly as many entries as the input (`nb·B`) -/
theorem freq_length (fftK : Fft α) (ir : IR α) (fft : Nat) (ps : List Nat) (nb : Nat) (xf : Nat → α) :
    (freqSpecSiso fftK ir fft ps ps.length nb xf).length = nb * ps.length := by
  unfold freqSpecSiso
  induction nb with
  | zero => simp
  | succ k ih =>
    rw [List.range_succ, List.flatMap_append, List.length_append, ih]
    simp [Nat.succ_mul]

/-- HISTORY / "fading skip" clause: block `b` of a frequency-domain transmission uses the
    fading sample at absolute generator position `pos + b·stride` (`stride = fft_size` for a
    Jakes generator: one sample generated and `fft_size − 1` skipped, both regenerated from
    the source; `1` for Rayleigh), the reported response has one sample per block in block
    order, and the transmission consumes `nb·stride` positions. -/
theorem freq_uses_sample (proc : Proc α) (fftK : Fft α) (c c' : Tdl α) (x y : List (List α)) (fft : Nat) (sel : Sel)
    (h : c.corruptFreq proc fftK x fft sel = .ok (c', y)) :
    ∃ ps B nb ir, freqPlan sel fft (numSymbols x) = .ok (ps, B, nb) ∧ c'.last = some ir ∧
      c'.pos = c.pos + nb * (if c.jakes then fft else 1) ∧ ir.n = nb ∧
      ∀ r t b, b < nb → ir.vals.map (fun h => h r t b)
        = c.taps.zipIdx.map (fun ta => proc c.link (c.pos + b * (if c.jakes then fft else 1)) ta.2 r t * ta.1.2) := by
  obtain ⟨ps, B, nb, last, hp, hst⟩ := tdl_corruptFreq_state proc fftK c c' x y fft sel h
  obtain ⟨hfft, -, hnb, -, -, -, -⟩ := freqPlan_ok hp
  have hlast := tdl_corruptFreq_last proc fftK c c' x y fft sel ps B nb h hp
  obtain ⟨l, hl1, hl2⟩ := hlast
  obtain ⟨l', hl1', hbc⟩ := concat_blockIRs proc c fft nb hfft hnb
  rw [hl1] at hl1'
  cases hl1'
  refine ⟨ps, B, nb, l, hp, hl2, ?_, hbc.1, ?_⟩
  · rw [hst]; rfl
  · intro r t b hb
    rw [hbc.2.2.2 r t b hb]
    simp only [blockIR, genIR, stride, List.map_map]
    apply List.map_congr_left
    intro ta _
    simp

/-- the dense taps (`TdlImpulseResponse.tap_values`) whose FFT is taken: zero padding to
    `last delay + 1`, tap `i` at position `d_i` (delays sorted, as discretisation guarantees) -/
theorem dense_spec (delays : List Nat) (v : List α) (hlen : v.length = delays.length)
    (hsorted : delays.Pairwise (· < ·)) (l : Nat) :
    (dense delays v)[l]? =
      match delays.getLast? with
      | none => none
      | some last => if l ≤ last then
          some (match (delays.zip v).find? (fun dv => dv.1 == l) with | some dv => dv.2 | none => 0)
        else none :=
  dense_getElem? delays v hlen hsorted l

/-- CLAUSE "with or without path loss", frequency domain, SISO: conditional on the FFT kernel
    being homogeneous (`FFT(s·v) = s·FFT(v)`, a contract of `np.fft.fft` the harness checks
    numerically) when a path loss is set. -/
theorem pathloss_consistent_freq_siso (proc : Proc α) (fftK : Fft α) (c : Su α) (hant : c.tdl.ant = none)
    (hK : c.pl = none ∨ Fft.Homogeneous fftK)
    (sel : Sel) (fft n : Nat) (ps : List Nat) (B nb : Nat) (hplan : freqPlan sel fft n = .ok (ps, B, nb))
    (xf : Nat → α) :
    ∃ c' ir, c.corruptFreq proc fftK [tab n xf] fft sel = .ok (c', [freqSpecSiso fftK ir fft ps B nb xf]) ∧
      c'.lastIR = .ok ir ∧ ir.n = nb := by
  obtain ⟨last, h1, h2⟩ := su_corruptFreq_siso proc fftK c hant hK sel fft n ps B nb hplan xf
  refine ⟨_, _, h1, su_lastIR c _ _ rfl, ?_⟩
  rw [Su.report_n]; exact h2.1

/-- same, MIMO in either direction -/
theorem pathloss_consistent_freq_mimo (proc : Proc α) (fftK : Fft α) (c : Su α) (nr nt : Nat)
    (hant : c.tdl.ant = some (nr, nt)) (hIn : 0 < (c.tdl.dims nr nt).2)
    (hK : c.pl = none ∨ Fft.Homogeneous fftK)
    (sel : Sel) (fft n : Nat) (ps : List Nat) (B nb : Nat) (hplan : freqPlan sel fft n = .ok (ps, B, nb))
    (xf : Nat → Nat → α) :
    ∃ c' ir, c.corruptFreq proc fftK (tab (c.tdl.dims nr nt).2 (fun a => tab n (xf a))) fft sel
        = .ok (c', freqSpec fftK ir c.tdl.switched fft ps B nb (c.tdl.dims nr nt).1 (c.tdl.dims nr nt).2 xf) ∧
      c'.lastIR = .ok ir ∧ ir.n = nb := by
  obtain ⟨last, h1, h2⟩ := su_corruptFreq_mimo proc fftK c nr nt hant hIn hK sel fft n ps B nb hplan xf
  refine ⟨_, _, h1, su_lastIR c _ _ rfl, ?_⟩
  rw [Su.report_n]; exact h2.1

/-- the contract is satisfiable: every kernel that is a linear combination of its input
    (the true DFT `Σ_d v[d]·ω^{kd}` and the scripted kernel of the correspondence alike) is homogeneous -/
theorem linear_kernel_homogeneous (w : Nat → Nat → Nat → α) :
    Fft.Homogeneous (fun v N k => ((v.take N).zipIdx.map (fun vd => vd.1 * w N k vd.2)).sum) := by
  intro s v N k
  simp only
  rw [← List.sum_map_mul_left, ← List.map_take, List.zipIdx_map, List.map_map]
  congr 1
  apply List.map_congr_left
  intro vd _
  simp only [Function.comp, Prod.map, id]
  ring

/-! ## multiuser superposition (`MuChannel`, `MuMimoChannel`) -/

/-- CLAUSE "multiuser": if every link `(rx, tx)`, fed with the signal of its source, returns
    the table `F link` (which, by the single-link theorems, is the convolution resp. the
    per-block multiplication with the response that link reports afterwards), then destination
    `j` receives `Σ_sources F (link j source)` entrywise; sources are the transmitters and
    destinations the receivers, exchanged in the switched direction; every link's state is
    updated exactly once. -/
theorem mu_superposition (nRx nTx : Nat) (hR : 0 < nRx) (hT : 0 < nTx) (Lk L' : Nat → Su α) (sw : Bool)
    (hsw : (Lk 0).tdl.switched = sw)
    (x : List (List (List α))) (hx : x.length = (if sw then nRx else nTx))
    (send : Su α → List (List α) → Except PyErr (Su α × List (List α)))
    (R len : Nat) (F : Nat → Nat → Nat → α)
    (hsend : ∀ idx, idx < nRx * nTx → ∃ s, x[if sw then idx / nTx else idx % nTx]? = some s ∧
        send (Lk idx) s = .ok (L' idx, tab R (fun r => tab len (F idx r)))) :
    Mu.transmit { nRx := nRx, nTx := nTx, links := tab (nRx * nTx) Lk } x send
      = .ok ({ nRx := nRx, nTx := nTx, links := tab (nRx * nTx) L' },
             tab (if sw then nTx else nRx) (fun j => tab R (fun r => tab len (fun m =>
               ((List.range (if sw then nRx else nTx)).map (fun a => F (muLink sw nTx j a) r m)).sum)))) :=
  mu_transmit_tables nRx nTx hR hT Lk L' sw hsw x hx send R len F hsend

/-- the multiuser time-domain transmission of SISO links, fully instantiated: receiver `j`
    gets `Σ_t conv(x_t, response reported by link (j,t))`, including each link's path loss. -/
theorem mu_corrupt_siso (proc : Proc α) (nRx nTx : Nat) (hR : 0 < nRx) (hT : 0 < nTx) (Lk : Nat → Su α)
    (hant : ∀ l, (Lk l).tdl.ant = none) (hsw : ∀ l, (Lk l).tdl.switched = false) (mem : Nat)
    (hmem : ∀ l, (Lk l).tdl.mem = .ok mem) (n : Nat) (xf : Nat → Nat → α) :
    ∃ (L' : Nat → Su α) (ir : Nat → IR α),
      Mu.corrupt proc { nRx := nRx, nTx := nTx, links := tab (nRx * nTx) Lk } (tab nTx (fun t => [tab n (xf t)]))
        = .ok ({ nRx := nRx, nTx := nTx, links := tab (nRx * nTx) L' },
               tab nRx (fun j => [tab (n + mem) (fun m =>
                 ((List.range nTx).map (fun t => convAtSiso (ir (j * nTx + t)) n (xf t) m)).sum)])) ∧
      ∀ l, (L' l).lastIR = .ok (ir l) ∧ (ir l).n = n := by
  refine ⟨fun l => { Lk l with tdl := (Lk l).tdl.afterTx proc n },
          fun l => (Lk l).report (genIR proc (Lk l).tdl (Lk l).tdl.pos n), ?_, ?_⟩
  · have := mu_transmit_tables nRx nTx hR hT Lk (fun l => { Lk l with tdl := (Lk l).tdl.afterTx proc n }) false
      (hsw 0) (tab nTx (fun t => [tab n (xf t)])) (by simp [tab_length]) (fun su s => su.corrupt proc s) 1 (n + mem)
      (fun idx _ m => convAtSiso ((Lk idx).report (genIR proc (Lk idx).tdl (Lk idx).tdl.pos n)) n (xf (idx % nTx)) m)
      (by
        intro idx _
        refine ⟨[tab n (xf (idx % nTx))], ?_, ?_⟩
        · simp only [Bool.false_eq_true, if_false]
          rw [getElem?_tab, if_pos (Nat.mod_lt _ hT)]
        · rw [su_corrupt_siso proc (Lk idx) (hant idx) mem (hmem idx) n (xf (idx % nTx))]
          simp [convSpecSiso, tab])
    simp only [Bool.false_eq_true, if_false, muLink] at this
    unfold Mu.corrupt
    rw [this]
    congr 2
    unfold tab
    apply List.map_congr_left
    intro j _
    simp only [List.range_one, List.map_cons, List.map_nil, List.cons.injEq, and_true]
    apply List.map_congr_left
    intro m _
    congr 1
    apply List.map_congr_left
    intro a ha
    rw [List.mem_range] at ha
    rw [Nat.mul_comm j nTx, Nat.mul_add_mod, Nat.mod_eq_of_lt ha]
  · intro l
    exact ⟨su_lastIR (Lk l) _ _ rfl, by rw [Su.report_n]; rfl⟩

/-- the multiuser time-domain transmission of MIMO links in either direction (`sw`), fully
    instantiated: destination `j` gets, on each of its antennas,
    `Σ_sources conv(x_source, response reported by the link between them)`. -/
theorem mu_corrupt_mimo (proc : Proc α) (nRx nTx : Nat) (hR : 0 < nRx) (hT : 0 < nTx) (Lk : Nat → Su α)
    (nr nt : Nat) (sw : Bool) (hant : ∀ l, (Lk l).tdl.ant = some (nr, nt)) (hsw : ∀ l, (Lk l).tdl.switched = sw)
    (mem : Nat) (hmem : ∀ l, (Lk l).tdl.mem = .ok mem) (hIn : 0 < (if sw then nr else nt))
    (n : Nat) (xf : Nat → Nat → Nat → α) :
    ∃ (L' : Nat → Su α) (ir : Nat → IR α),
      Mu.corrupt proc { nRx := nRx, nTx := nTx, links := tab (nRx * nTx) Lk }
          (tab (if sw then nRx else nTx) (fun a => tab (if sw then nr else nt) (fun i => tab n (xf a i))))
        = .ok ({ nRx := nRx, nTx := nTx, links := tab (nRx * nTx) L' },
               tab (if sw then nTx else nRx) (fun j => tab (if sw then nt else nr) (fun r => tab (n + mem) (fun m =>
                 ((List.range (if sw then nRx else nTx)).map (fun a =>
                   convAt (ir (muLink sw nTx j a)) sw (if sw then nr else nt) n (xf a) r m)).sum)))) ∧
      ∀ l, (L' l).lastIR = .ok (ir l) ∧ (ir l).n = n := by
  have hdims : ∀ l, (Lk l).tdl.dims nr nt = (if sw then nt else nr, if sw then nr else nt) := by
    intro l; unfold Tdl.dims; rw [hsw l]; cases sw <;> rfl
  refine ⟨fun l => { Lk l with tdl := (Lk l).tdl.afterTx proc n },
          fun l => (Lk l).report (genIR proc (Lk l).tdl (Lk l).tdl.pos n), ?_, ?_⟩
  · have := mu_transmit_tables nRx nTx hR hT Lk (fun l => { Lk l with tdl := (Lk l).tdl.afterTx proc n }) sw
      (hsw 0) (tab (if sw then nRx else nTx) (fun a => tab (if sw then nr else nt) (fun i => tab n (xf a i))))
      (by simp [tab_length]) (fun su s => su.corrupt proc s) (if sw then nt else nr) (n + mem)
      (fun idx r m => convAt ((Lk idx).report (genIR proc (Lk idx).tdl (Lk idx).tdl.pos n)) sw
        (if sw then nr else nt) n (xf (if sw then idx / nTx else idx % nTx)) r m)
      (by
        intro idx hidx
        refine ⟨tab (if sw then nr else nt) (fun i => tab n (xf (if sw then idx / nTx else idx % nTx) i)), ?_, ?_⟩
        · rw [getElem?_tab]
          have hb : (if sw then idx / nTx else idx % nTx) < (if sw then nRx else nTx) := by
            cases sw
            · simp only [Bool.false_eq_true, if_false]; exact Nat.mod_lt _ hT
            · simp only [if_true]; exact Nat.div_lt_of_lt_mul (by rw [Nat.mul_comm]; exact hidx)
          rw [if_pos hb]
        · have h := su_corrupt_mimo proc (Lk idx) nr nt (hant idx) mem (hmem idx) n
            (xf (if sw then idx / nTx else idx % nTx)) (by rw [hdims idx]; exact hIn)
          rw [hdims idx] at h
          simp only at h
          rw [h, hsw idx]
          rfl)
    unfold Mu.corrupt
    rw [this]
    congr 2
    unfold tab
    apply List.map_congr_left
    intro j hj
    rw [List.mem_range] at hj
    apply List.map_congr_left
    intro r _
    apply List.map_congr_left
    intro m _
    congr 1
    apply List.map_congr_left
    intro a ha
    rw [List.mem_range] at ha
    have hsrc : (if sw then muLink sw nTx j a / nTx else muLink sw nTx j a % nTx) = a := by
      cases sw
      · simp only [Bool.false_eq_true, if_false, muLink] at ha ⊢
        rw [Nat.mul_comm j nTx, Nat.mul_add_mod, Nat.mod_eq_of_lt ha]
      · simp only [if_true, muLink] at hj ⊢
        rw [Nat.mul_comm a nTx, Nat.mul_add_div hT, Nat.div_eq_of_lt hj, Nat.add_zero]
    rw [hsrc]
  · intro l
    exact ⟨su_lastIR (Lk l) _ _ rfl, by rw [Su.report_n]; rfl⟩

/-- the multiuser frequency-domain transmission of SISO links, either direction, any selection,
    with per-link path losses (kernel homogeneity needed only when some path loss is set):
    destination `j` gets at flat position `m = b·B + q`
    `Σ_sources FFT(dense taps of sample b reported by the link)[ps[q]] · x_source[m]`. -/
theorem mu_freq_siso (proc : Proc α) (fftK : Fft α) (nRx nTx : Nat) (hR : 0 < nRx) (hT : 0 < nTx) (Lk : Nat → Su α)
    (sw : Bool) (hant : ∀ l, (Lk l).tdl.ant = none) (hsw : ∀ l, (Lk l).tdl.switched = sw)
    (hK : (∀ l, (Lk l).pl = none) ∨ Fft.Homogeneous fftK)
    (sel : Sel) (fft n : Nat) (ps : List Nat) (B nb : Nat) (hplan : freqPlan sel fft n = .ok (ps, B, nb))
    (xf : Nat → Nat → α) :
    ∃ (L' : Nat → Su α) (ir : Nat → IR α),
      Mu.corruptFreq proc fftK { nRx := nRx, nTx := nTx, links := tab (nRx * nTx) Lk }
          (tab (if sw then nRx else nTx) (fun a => [tab n (xf a)])) fft sel
        = .ok ({ nRx := nRx, nTx := nTx, links := tab (nRx * nTx) L' },
               tab (if sw then nTx else nRx) (fun j => [tab n (fun m =>
                 ((List.range (if sw then nRx else nTx)).map (fun a =>
                   freqAtSisoFlat fftK (ir (muLink sw nTx j a)) fft ps (xf a) m)).sum)])) ∧
      ∀ l, (L' l).lastIR = .ok (ir l) ∧ (ir l).n = nb := by
  obtain ⟨hfft, hB, hnb, hn, hlen, -, -⟩ := freqPlan_ok hplan
  have hpos : 0 < ps.length := by omega
  -- per-link results
  have hlink : ∀ l src, ∃ last, (Lk l).corruptFreq proc fftK [tab n (xf src)] fft sel
        = .ok ({ Lk l with tdl := (Lk l).tdl.afterFx fft nb last },
               [freqSpecSiso fftK ((Lk l).report last) fft ps B nb (xf src)])
      ∧ IsBlockConcat proc (Lk l).tdl fft nb last := by
    intro l src
    exact su_corruptFreq_siso proc fftK (Lk l) (hant l)
      (hK.elim (fun h => Or.inl (h l)) Or.inr) sel fft n ps B nb hplan (xf src)
  let srcOf : Nat → Nat := fun idx => if sw then idx / nTx else idx % nTx
  let lastOf : Nat → IR α := fun l => Classical.choose (hlink l (srcOf l))
  have hlast : ∀ l, (Lk l).corruptFreq proc fftK [tab n (xf (srcOf l))] fft sel
        = .ok ({ Lk l with tdl := (Lk l).tdl.afterFx fft nb (lastOf l) },
               [freqSpecSiso fftK ((Lk l).report (lastOf l)) fft ps B nb (xf (srcOf l))])
      ∧ IsBlockConcat proc (Lk l).tdl fft nb (lastOf l) := fun l => Classical.choose_spec (hlink l (srcOf l))
  refine ⟨fun l => { Lk l with tdl := (Lk l).tdl.afterFx fft nb (lastOf l) },
          fun l => (Lk l).report (lastOf l), ?_, ?_⟩
  · have := mu_transmit_tables nRx nTx hR hT Lk (fun l => { Lk l with tdl := (Lk l).tdl.afterFx fft nb (lastOf l) }) sw
      (hsw 0) (tab (if sw then nRx else nTx) (fun a => [tab n (xf a)])) (by simp [tab_length])
      (fun su s => su.corruptFreq proc fftK s fft sel) 1 n
      (fun idx _ m => freqAtSisoFlat fftK ((Lk idx).report (lastOf idx)) fft ps (xf (srcOf idx)) m)
      (by
        intro idx hidx
        refine ⟨[tab n (xf (srcOf idx))], ?_, ?_⟩
        · rw [getElem?_tab]
          have hb : (if sw then idx / nTx else idx % nTx) < (if sw then nRx else nTx) := by
            cases sw
            · simp only [Bool.false_eq_true, if_false]; exact Nat.mod_lt _ hT
            · simp only [if_true]; exact Nat.div_lt_of_lt_mul (by rw [Nat.mul_comm]; exact hidx)
          rw [if_pos hb]
        · rw [(hlast idx).1, ← hlen, freqSpecSiso_eq_tab fftK _ fft ps hpos nb, hn, hlen]
          simp [tab])
    unfold Mu.corruptFreq
    rw [this]
    congr 2
    unfold tab
    apply List.map_congr_left
    intro j hj
    rw [List.mem_range] at hj
    simp only [List.range_one, List.map_cons, List.map_nil, List.cons.injEq, and_true]
    apply List.map_congr_left
    intro m _
    congr 1
    apply List.map_congr_left
    intro a ha
    rw [List.mem_range] at ha
    have hsrc : srcOf (muLink sw nTx j a) = a := by
      show (if sw then muLink sw nTx j a / nTx else muLink sw nTx j a % nTx) = a
      cases sw
      · simp only [Bool.false_eq_true, if_false, muLink] at ha ⊢
        rw [Nat.mul_comm j nTx, Nat.mul_add_mod, Nat.mod_eq_of_lt ha]
      · simp only [if_true, muLink] at hj ⊢
        rw [Nat.mul_comm a nTx, Nat.mul_add_div hT, Nat.div_eq_of_lt hj, Nat.add_zero]
    rw [hsrc]
  · intro l
    exact ⟨su_lastIR (Lk l) _ _ rfl, by rw [Su.report_n]; exact (hlast l).2.1⟩

/-- CLAUSE "multiuser, frequency domain, MIMO links" (`MuMimoChannel.corrupt_data_in_freq_domain`,
    inherited from `MuChannel`).  `nRx × nTx` links in row-major order; link `(r, t)` is a MIMO TDL
    channel with `Nr r × Nt t` antennas (`MuMimoChannel` builds them with one pair of counts; the
    theorem allows any); direction `sw` (`false`: transmitters → receivers, `true`: switched);
    any per-link path losses (kernel homogeneity is needed only when some path loss is set); any
    selection (`None` / index array / slice) accepted by `freqPlan`, i.e. `n = nb` blocks of
    `B = ps.length` symbols; every link in an arbitrary state, hence after any history.

    Source `a` sends `nIn a` rows of `n` symbols (`nIn = Nt`, switched: `Nr`).  Destination `j`
    receives `nOut j` rows (`nOut = Nr`, switched: `Nt`) of `n` entries; row `r`, flat position `m`
    holds `Σ_sources freqAtFlat (response reported by the link between them) …`, which by
    `mu_freq_mimo_entry` is, at `m = b·B + q`,
    `Σ_a Σ_i FFT(dense taps (r, i) of sample b reported by link (j, a))[ps[q]] · x_a[i][b·B + q]`.

    For every link: the response it reports afterwards is `ir link` with one sample per block, the
    configuration is unchanged, the fading position advanced by `nb·stride`, and sample `b` of the
    reported taps is the fading process at absolute position `pos + b·stride` times the tap amplitude
    (times `√pathloss` if set) — the schedule clause `freq_uses_sample` for each link. -/
theorem mu_freq_mimo_spec (proc : Proc α) (fftK : Fft α) (nRx nTx : Nat) (hR : 0 < nRx) (hT : 0 < nTx)
    (Lk : Nat → Su α) (Nr Nt : Nat → Nat) (sw : Bool)
    (hant : ∀ l, l < nRx * nTx → (Lk l).tdl.ant = some (Nr (l / nTx), Nt (l % nTx)))
    (hsw : ∀ l, l < nRx * nTx → (Lk l).tdl.switched = sw)
    (hIn : ∀ a, a < (if sw then nRx else nTx) → 0 < (if sw then Nr a else Nt a))
    (hK : (∀ l, l < nRx * nTx → (Lk l).pl = none) ∨ Fft.Homogeneous fftK)
    (sel : Sel) (fft n : Nat) (ps : List Nat) (B nb : Nat) (hplan : freqPlan sel fft n = .ok (ps, B, nb))
    (xf : Nat → Nat → Nat → α) :
    ∃ (L' : Nat → Su α) (ir : Nat → IR α),
      Mu.corruptFreq proc fftK { nRx := nRx, nTx := nTx, links := tab (nRx * nTx) Lk }
          (tab (if sw then nRx else nTx) (fun a => tab (if sw then Nr a else Nt a) (fun i => tab n (xf a i)))) fft sel
        = .ok ({ nRx := nRx, nTx := nTx, links := tab (nRx * nTx) L' },
               tab (if sw then nTx else nRx) (fun j => tab (if sw then Nt j else Nr j) (fun r => tab n (fun m =>
                 ((List.range (if sw then nRx else nTx)).map (fun a =>
                   freqAtFlat fftK (ir (muLink sw nTx j a)) sw fft ps (if sw then Nr a else Nt a) (xf a) r m)).sum)))) ∧
      ∀ l, l < nRx * nTx →
        (L' l).lastIR = .ok (ir l) ∧ (ir l).n = nb ∧ (ir l).delays = (Lk l).tdl.delays ∧
        (L' l).pl = (Lk l).pl ∧ (L' l).tdl.taps = (Lk l).tdl.taps ∧ (L' l).tdl.ant = (Lk l).tdl.ant ∧
        (L' l).tdl.switched = (Lk l).tdl.switched ∧ (L' l).tdl.jakes = (Lk l).tdl.jakes ∧
        (L' l).tdl.link = (Lk l).tdl.link ∧
        (L' l).tdl.pos = (Lk l).tdl.pos + nb * (if (Lk l).tdl.jakes then fft else 1) ∧
        ∀ r t b, b < nb → (ir l).vals.map (fun h => h r t b)
          = (Lk l).tdl.taps.zipIdx.map (fun ta => plMul (Lk l).pl
              (proc (Lk l).tdl.link ((Lk l).tdl.pos + b * (if (Lk l).tdl.jakes then fft else 1)) ta.2 r t * ta.1.2)) :=
  mu_corruptFreq_mimo proc fftK nRx nTx hR hT Lk Nr Nt sw hant hsw hIn hK sel fft n ps B nb hplan xf

/-- the link between destination `j` and source `a` is link `(receiver, transmitter)` in row-major
    order: `(j, a)` in the original direction, `(a, j)` when switched -/
theorem muLink_spec (nTx j a : Nat) :
    muLink false nTx j a = j * nTx + a ∧ muLink true nTx j a = a * nTx + j := ⟨rfl, rfl⟩

/-- reading of `freqAtFlat` in `mu_freq_mimo_spec`: at position `q` of block `b` (flat position
    `b·B + q`, `B = ps.length`), on the `q`-th selected carrier `p = ps[q]`, the contribution of one
    link to output antenna `r` is `Σ_i FFT(dense taps of antenna pair (r, i), sample b)[p] · x[i][b·B + q]`
    (antenna pair `(i, r)` of the stored `Nr × Nt` response in the switched direction) -/
theorem mu_freq_mimo_entry (fftK : Fft α) (ir : IR α) (sw : Bool) (fft : Nat) (ps : List Nat) (nIn : Nat)
    (xf : Nat → Nat → α) (r b q p : Nat) (hp : ps[q]? = some p) :
    freqAtFlat fftK ir sw fft ps nIn xf r (b * ps.length + q)
      = ((List.range nIn).map (fun i =>
          fftK (if sw then ir.denseAt i r b else ir.denseAt r i b) fft p * xf i (b * ps.length + q))).sum := by
  have hq : q < ps.length := by
    by_contra h
    rw [List.getElem?_eq_none (Nat.le_of_not_lt h)] at hp
    cases hp
  rw [freqAtFlat_block fftK ir sw fft ps nIn xf r b q hq, hp]
  rfl

/-- "with path loss", as an explicit factor per link: a link with `√pathloss = s` reports the TDL
    response `h` scaled by `s`, and (homogeneous kernel) its contribution to every received entry
    is `s` times the contribution computed from the unscaled `h`; so receiver `j` gets
    `Σ_t s(j,t) · Σ_i H^{(j,t)}_b[r, i][ps[q]] · x_t[i][b·B + q]`.  Without a path loss the link
    reports `h` itself. -/
theorem mu_freq_mimo_pathloss_factor (fftK : Fft α) (hK : Fft.Homogeneous fftK) (c : Su α) (h : IR α)
    (hlast : c.tdl.lastIR = .ok h) (sw : Bool) (fft : Nat) (ps : List Nat) (nIn : Nat)
    (xf : Nat → Nat → α) (r m : Nat) :
    (c.pl = none → c.lastIR = .ok h) ∧
    (∀ s, c.pl = some s → c.lastIR = .ok (h.scale s) ∧
      freqAtFlat fftK (h.scale s) sw fft ps nIn xf r m = s * freqAtFlat fftK h sw fft ps nIn xf r m) := by
  constructor
  · intro hpl
    simp [Su.lastIR, hlast, hpl, bind, Except.bind, pure, Except.pure]
  · intro s hpl
    refine ⟨?_, freqAtFlat_scale fftK hK s h sw fft ps nIn xf r m⟩
    simp [Su.lastIR, hlast, hpl, bind, Except.bind, pure, Except.pure]

/-- non-vacuity of `mu_freq_mimo_spec` (K = 2 users, every receiver 2 antennas, every transmitter 1,
    i.e. 2×1 links; switched, the same links act as 1×2 links): the hypotheses hold for the
    channel `MuMimoChannel(2, 2, 1, …)` builds, with a path loss on every link, 2 blocks over
    `slice(0, 10, 3)` of 16 carriers. -/
example :
    let mk : Bool → Nat → Su Int := fun sw l =>
      { tdl := { Tdl.init [(0, 1), (2, 3)] (some (2, 1)) true l with switched := sw }, pl := some 2 }
    ∀ sw : Bool,
      (∀ l, l < 2 * 2 → (mk sw l).tdl.ant = some ((fun _ => 2) (l / 2), (fun _ => 1) (l % 2))) ∧
      (∀ l, l < 2 * 2 → (mk sw l).tdl.switched = sw) ∧
      (∀ a, a < (if sw then 2 else 2) → 0 < (if sw then (fun _ => 2) a else (fun _ => 1) a)) ∧
      freqPlan (.slice ⟨some 0, some 10, some 3⟩) 16 8 = .ok ([0, 3, 6, 9], 4, 2) := by
  intro mk sw
  refine ⟨fun _ _ => rfl, fun _ _ => rfl, ?_, by decide⟩
  intro a _
  cases sw <;> simp

/-- … and the model run end to end on that set-up (α = ℤ, toy process and kernel): both directions
    succeed, the receivers get 2 rows of 8 entries each, the transmitters (switched) 1 row -/
example :
    let m : Mu Int := Mu.init 2 2 [(0, 1), (2, 3)] (some (2, 1)) true
    let proc : Proc Int := fun l pos i r t => (l : Int) + pos + 2 * i + 3 * r + 5 * t
    let fftK : Fft Int := fun v _ k => v.sum * (k + 1)
    ((m.corruptFreq proc fftK [[[1, 2, 3, 4, 5, 6, 7, 8]], [[8, 7, 6, 5, 4, 3, 2, 1]]] 16
        (.slice ⟨some 0, some 10, some 3⟩)).map (fun r => r.2.map (fun y => y.map List.length)))
      = .ok [[8, 8], [8, 8]] ∧
    (((m.setSwitched true).corruptFreq proc fftK
        [[[1, 2, 3, 4], [0, 1, 0, 1]], [[4, 3, 2, 1], [1, 0, 1, 0]]] 16
        (.slice ⟨some 0, some 10, some 3⟩)).map (fun r => r.2.map (fun y => y.map List.length)))
      = .ok [[4], [4]] := by
  decide +kernel

/-! ## discretisation of a tap profile -/

/-- `np.round` on an exact quotient: nearest integer, ties to even -/
theorem round_half_even_spec (x : ℚ) :
    |x - (roundHalfEven x : ℚ)| ≤ 1 / 2 ∧ (|x - (roundHalfEven x : ℚ)| = 1 / 2 → roundHalfEven x % 2 = 0) :=
  roundHalfEven_spec x

/-- CLAUSE "unique sorted integer delays": strictly increasing integers, exactly the rounded
    delays of the input taps; non-negative when the input delays are. -/
theorem discretize_sorted_unique (delays powers : List ℚ) (Ts : ℚ) :
    (discretize delays powers Ts).1.Pairwise (· < ·) ∧
    (∀ d : Int, d ∈ (discretize delays powers Ts).1 ↔ ∃ t ∈ delays, roundHalfEven (t / Ts) = d) ∧
    ((∀ t ∈ delays, 0 ≤ t) → 0 < Ts → ∀ d ∈ (discretize delays powers Ts).1, 0 ≤ d) := by
  have hmem : ∀ d : Int, d ∈ (discretize delays powers Ts).1 ↔ ∃ t ∈ delays, roundHalfEven (t / Ts) = d := by
    intro d
    simp only [discretize, mem_uniqueSorted, delayIdx, List.mem_map]
  refine ⟨uniqueSorted_sorted _, hmem, ?_⟩
  intro hpos hTs d hd
  obtain ⟨t, ht, rfl⟩ := (hmem d).mp hd
  have hq : (0 : ℚ) ≤ t / Ts := div_nonneg (hpos t ht) (le_of_lt hTs)
  have h := (roundHalfEven_spec (t / Ts)).1
  rw [abs_le] at h
  by_contra hneg
  rw [not_le] at hneg
  have : (roundHalfEven (t / Ts) : ℚ) ≤ -1 := by exact_mod_cast (show roundHalfEven (t / Ts) ≤ -1 by omega)
  linarith [h.2]

/-- CLAUSE "powers merge colliding taps": the power at output delay `d` is the sum of the
    powers of all input taps that round to `d`, divided by the total input power. -/
theorem discretize_merges (delays powers : List ℚ) (Ts : ℚ) (hlen : delays.length = powers.length) :
    (discretize delays powers Ts).2
      = (discretize delays powers Ts).1.map (fun d => collidingPower (delayIdx delays Ts) powers d / powers.sum) := by
  have hlen' : (delayIdx delays Ts).length = powers.length := by simp [delayIdx, hlen]
  simp only [discretize]
  rw [accumulate_sum _ _ hlen']
  apply List.ext_getElem?
  intro j
  simp only [List.getElem?_map]
  by_cases hj : j < (uniqueSorted (delayIdx delays Ts)).length
  · rw [accumulate_getElem? _ _ j hj, List.getElem?_eq_getElem hj]
    rfl
  · have h1 : (accumulate (uniqueSorted (delayIdx delays Ts)).length
        (inverseIdx (uniqueSorted (delayIdx delays Ts)) (delayIdx delays Ts)) powers)[j]? = none :=
      List.getElem?_eq_none (by rw [accumulate_length]; omega)
    rw [h1, List.getElem?_eq_none (by omega)]
    rfl

/-- CLAUSE "and sum to one" (positive linear powers, as `10^(dB/10)` always is). -/
theorem discretize_power_sum_one (delays powers : List ℚ) (Ts : ℚ) (hlen : delays.length = powers.length)
    (hne : powers ≠ []) (hpos : ∀ p ∈ powers, 0 < p) :
    (discretize delays powers Ts).2.sum = 1 ∧ (discretize delays powers Ts).2.length = (discretize delays powers Ts).1.length := by
  have hlen' : (delayIdx delays Ts).length = powers.length := by simp [delayIdx, hlen]
  have htot := accumulate_sum (delayIdx delays Ts) powers hlen'
  have hp : 0 < powers.sum := sum_pos_of_pos powers hne hpos
  constructor
  · simp only [discretize]
    rw [htot]
    have : (fun x : ℚ => x / powers.sum) = (fun x => x * powers.sum⁻¹) := by funext x; rw [div_eq_mul_inv]
    rw [this, List.sum_map_mul_right, List.map_id', htot]
    field_simp
  · simp [discretize, accumulate_length]

/-- R12 (order of the taps): the taps of a profile are a collection, not a sequence — listing the
    same (delay, power) pairs in any other order gives the same discretised profile. -/
theorem discretize_order_independent (Ts : ℚ) (taps taps' : List (ℚ × ℚ)) (h : taps.Perm taps') :
    discretize (taps.map (·.1)) (taps.map (·.2)) Ts = discretize (taps'.map (·.1)) (taps'.map (·.2)) Ts := by
  have h1 : (discretize (taps.map (·.1)) (taps.map (·.2)) Ts).1
      = (discretize (taps'.map (·.1)) (taps'.map (·.2)) Ts).1 := by
    simp only [discretize]
    exact uniqueSorted_perm ((h.map _).map _)
  refine Prod.ext h1 ?_
  rw [discretize_merges _ _ Ts (by simp), discretize_merges _ _ Ts (by simp), h1, ((h.map (·.2)).sum_eq)]
  apply List.map_congr_left
  intro d _
  rw [collidingPower_perm Ts h d]

/-- non-vacuity of the discretisation clauses: two taps colliding at delay 2 (1.5 and 2.5 both
    round to 2: ties to even) merge, the result is sorted, unique and sums to one -/
example : discretize [0, 3/2, 5/2, 4] [1, 1/2, 1/4, 1/4] 1 = ([0, 2, 4], [1/2, 3/8, 1/8]) := by
  decide +kernel

/-! ## histories -/

/-- HISTORY clause: a successful run of **any** list of operations on one object is a chain
    of successful steps, each taken from the state its prefix leads to — so each transmission
    in it is an instance of the single-transmission theorems above (which hold for every
    state), with the response read right after it. -/
theorem history_steps (proc : Proc α) (fftK : Fft α) (ops : List (SuOp α)) (c0 cf : Su α) (outs : List (SuOut α))
    (h : Su.run proc fftK c0 ops = .ok (cf, outs)) :
    outs.length = ops.length ∧
    ∀ k op, ops[k]? = some op → ∃ ck ck' o,
      Su.run proc fftK c0 (ops.take k) = .ok (ck, outs.take k) ∧
      ck.step proc fftK op = .ok (ck', o) ∧ outs[k]? = some o :=
  su_run_steps proc fftK ops c0 cf outs h

/-- HISTORY clause: over any number of consecutive operations (incl. `set_num_antennas` and
    user calls of `generate_impulse_response`) the profile and
    generator are unchanged and the fading position is the start position plus what every
    earlier transmission consumed (`n` per time-domain transmission, `nb·stride` per
    frequency-domain one): the samples of the `j`-th transmission are the ones at the absolute
    positions this counter gives (`corrupt_uses_samples`, `freq_uses_sample`). -/
theorem history_position (proc : Proc α) (fftK : Fft α) (ops : List (SuOp α)) (c0 cf : Su α) (outs : List (SuOut α))
    (h : Su.run proc fftK c0 ops = .ok (cf, outs)) :
    cf.tdl.taps = c0.tdl.taps ∧ cf.tdl.jakes = c0.tdl.jakes ∧ cf.tdl.link = c0.tdl.link ∧
    cf.tdl.pos = c0.tdl.pos + (ops.map (SuOp.advance c0.tdl.jakes)).sum :=
  su_run_state proc fftK ops c0 cf outs h

/-! ## robustness: rejected calls, degenerate path loss, long-lived objects -/

/-- R4 (rejected calls): in the model a call that raises returns the object exactly as it was —
    this is what the correspondence compares the real objects with: after every rejected call
    the history goes on and all later outputs / reported responses must still agree. -/
theorem rejected_call_leaves_state (proc : Proc α) (fftK : Fft α) (c : Su α) (op : SuOp α) (e : PyErr)
    (h : c.step proc fftK op = .error e) : c.stepR proc fftK op = (c, .error e) :=
  su_stepR_rejected proc fftK c op e h

/-- R4: a history containing rejected calls ends in the same state as the history from which
    the rejected calls are removed (a fresh object that never saw them) -/
theorem history_rejected_calls_removable (proc : Proc α) (fftK : Fft α) (ops : List (SuOp α)) (c : Su α) :
    (Su.runR proc fftK c ops).1
      = (Su.runR proc fftK c (ops.zip (Su.runR proc fftK c ops).2 |>.filterMap
          (fun p => match p.2 with | .ok _ => some p.1 | .error _ => none))).1 :=
  su_runR_filter proc fftK ops c

/-- R4: which transmissions are rejected, and that the guards come first: a signal whose number
    of rows is not the number of transmitting antennas is a `ValueError` in both domains, and an
    unacceptable frequency-domain geometry (zero slice step, index outside the axis, empty
    selection, length not a multiple of the block size, no block) is reported with the error of
    `freqPlan` — in every case nothing has been generated (`rejected_call_leaves_state`). -/
theorem rejected_transmissions (proc : Proc α) (fftK : Fft α) (c : Tdl α) (x : List (List α)) (fft : Nat) (sel : Sel) :
    (c.signalOk x = false →
      c.corrupt proc x = .error .ValueError ∧ c.corruptFreq proc fftK x fft sel = .error .ValueError) ∧
    (∀ e, c.signalOk x = true → freqPlan sel fft (numSymbols x) = .error e →
      c.corruptFreq proc fftK x fft sel = .error e) := by
  constructor
  · intro h
    constructor
    · simp [Tdl.corrupt, h, bind, Except.bind, throw, throwThe, MonadExceptOf.throw]
    · simp [Tdl.corruptFreq, h, bind, Except.bind, throw, throwThe, MonadExceptOf.throw]
  · intro e h hp
    simp [Tdl.corruptFreq, h, hp, bind, Except.bind]

/-- R5 (degenerate path loss): a path loss of exactly 0 (`√0 = 0`) is a path loss like any other —
    the output is scaled to zero and so is the reported response; it is *not* "no path loss". -/
theorem pathloss_zero (c : Su α) (hpl : c.pl = some 0) (y : List (List α)) (ir : IR α) :
    c.applyPl y = y.map (fun row => row.map (fun _ => 0)) ∧
    (c.report ir).vals = ir.vals.map (fun _ _ _ _ => 0) ∧ (c.report ir).n = ir.n := by
  refine ⟨?_, ?_, Su.report_n c ir⟩
  · simp [Su.applyPl, hpl, scaleRows]
  · simp [Su.report, hpl, IR.scale]

/-- R7 (long-lived objects): what a transmission does depends only on the current configuration
    (profile, antennas, direction, generator and its position) — not on the response left behind by
    earlier calls; so after any history the object acts like a freshly built one in that configuration. -/
theorem transmission_ignores_old_response (proc : Proc α) (fftK : Fft α) (c : Tdl α) (l : Option (IR α))
    (x : List (List α)) (fft : Nat) (sel : Sel) :
    ({ c with last := l } : Tdl α).corrupt proc x = c.corrupt proc x ∧
    ({ c with last := l } : Tdl α).corruptFreq proc fftK x fft sel = c.corruptFreq proc fftK x fft sel :=
  ⟨rfl, corruptFreq_ignores_last proc fftK c l x fft sel⟩

/-- R11 (non-mutating API): a query — any property read, `__repr__`, anything done with a response
    that was handed out — is the identity on the object; in a history it can be dropped. -/
theorem query_leaves_state (proc : Proc α) (fftK : Fft α) (c : Su α) (m : Mu α) :
    c.step proc fftK .query = .ok (c, .unit) ∧ m.step proc fftK .query = .ok (m, .unit) := ⟨rfl, rfl⟩

/-- R8 (constructor path = setter path): an object given its antennas at construction is the object
    built SISO and configured with `set_num_antennas`; "no path loss" at construction is
    `set_pathloss(None)`; the direction starts un-switched, i.e. `switched_direction = False`. -/
theorem constructor_equals_setters (proc : Proc α) (fftK : Fft α) (taps : List (Nat × α)) (a : Option (Nat × Nat))
    (jakes : Bool) (link : Nat) :
    let built : Su α := { tdl := Tdl.init taps a jakes link, pl := none }
    let siso : Su α := { tdl := Tdl.init taps none jakes link, pl := none }
    siso.step proc fftK (.setAnt a) = .ok (built, .unit) ∧
    built.step proc fftK (.setPathloss none) = .ok (built, .unit) ∧
    built.step proc fftK (.setSwitched false) = .ok (built, .unit) := ⟨rfl, rfl, rfl⟩

/-- R8: `MuChannel.set_pathloss(None)` is "no path loss on any link" -/
theorem mu_clear_pathloss (proc : Proc α) (fftK : Fft α) (m : Mu α) :
    ∃ m', m.step proc fftK .clearPathloss = .ok (m', .unit) ∧ m'.links.length = m.links.length ∧
      ∀ l ∈ m'.links, l.pl = none := by
  refine ⟨_, rfl, by simp, ?_⟩
  intro l hl
  simp only [List.mem_map] at hl
  obtain ⟨l0, _, rfl⟩ := hl
  rfl

/-! ## robustness: distinct values that are merely close (R15) -/

/-- R15 (`set_pathloss`, "unchanged → skip" shortcuts): the setter takes effect for EVERY new value,
    whatever the value stored before (there is no comparison with the old value, exact or tolerant):
    from any state with any old path loss, `set_pathloss(s)` leads to the state with path loss `s`
    and nothing else changed. -/
theorem pathloss_setter_takes_effect_for_every_new_value (proc : Proc α) (fftK : Fft α) (c : Su α)
    (old s : Option α) :
    ({ c with pl := old } : Su α).step proc fftK (.setPathloss s) = .ok ({ c with pl := s }, .unit) := rfl

/-- R15: the factor on the output AND on the reported response is exactly (the square root of) the
    value that was set — no threshold, no "close to 0 / close to 1" fast path: a function of the exact value. -/
theorem pathloss_is_the_exact_value (c : Su α) (s : α) (y : List (List α)) (ir : IR α) :
    ({ c with pl := some s } : Su α).applyPl y = y.map (fun row => row.map (· * s)) ∧
    (({ c with pl := some s } : Su α).report ir).vals = ir.vals.map (fun h r t k => s * h r t k) := ⟨rfl, rfl⟩

/-- R15: over a field (ℚ(i), ℂ) two different factors — however close — are told apart by every
    non-zero entry of the unscaled output / response -/
theorem pathloss_close_values_distinguished {β : Type} [Field β] (s s' v : β) (hv : v ≠ 0) (h : s ≠ s') :
    v * s ≠ v * s' := fun e => h (mul_left_cancel₀ hv e)

omit [CommSemiring α] in
/-- R15 (`MuChannel.set_pathloss`): after an accepted call every link `(rx, tx)` carries exactly ITS
    entry of the matrix just given (whatever it carried before, whatever the other entries are) and is
    otherwise unchanged; the number of links and the geometry are unchanged. -/
theorem mu_pathloss_entry_exact (c c' : Mu α) (s : List (List α)) (h : c.setPathloss s = .ok c') :
    c'.nRx = c.nRx ∧ c'.nTx = c.nTx ∧ c'.links.length = c.links.length ∧
    ∀ idx l, c.links[idx]? = some l →
      ∃ row v, s[idx / c.nTx]? = some row ∧ row[idx % c.nTx]? = some v ∧
        c'.links[idx]? = some { l with pl := some v } :=
  mu_setPathloss_links c c' s h

/-- R15 (sampling intervals at construction, `TdlChannel.__init__`): the channel is built iff ALL the
    sampling intervals it is given — the Jakes generator's, the one of an already discretised profile,
    the `Ts` argument — are the same value `T` (exact comparison: 1e-9 and 2e-9, or 3.25e-8 and
    3.25e-8·(1+1e-6), do not agree), and then `T` is the interval it works with (1.0 when a Rayleigh
    generator comes with nothing else); every refusal is a `RuntimeError`. -/
theorem constructor_sampling_intervals_agree_exactly {τ : Type} [DecidableEq τ] (one : τ) (g p a : Option τ) :
    (∀ T, ctorTs one g p a = .ok T ↔
      (∀ x, g = some x → x = T) ∧ (∀ x, p = some x → x = T) ∧ (∀ x, a = some x → x = T) ∧
      (g = none → p = none → a = none → T = one)) ∧
    (∀ e, ctorTs one g p a = .error e → e = .RuntimeError) :=
  ⟨ctorTs_ok_iff one g p a, ctorTs_error one g p a⟩

/-- non-vacuity / the two directions on concrete values (τ = ℚ): equal intervals are accepted, intervals
    that differ by a relative 1e-6 or that are both "tiny" are refused -/
example : ctorTs (1 : Rat) (some (13/400000000)) none (some (13/400000000)) = .ok (13/400000000) ∧
    ctorTs (1 : Rat) (some (13/400000000)) none (some (13000013/400000000000000)) = .error .RuntimeError ∧
    ctorTs (1 : Rat) (some (1/1000000000)) (some (2/1000000000)) none = .error .RuntimeError ∧
    ctorTs (1 : Rat) none none none = .ok 1 := by decide +kernel

/-- R15 (discretisation, thresholds on small powers / de-duplication of close delays): every input tap
    — however weak, however close its delay is to another tap's — is represented in the discretised
    profile: its rounded delay is one of the output delays, and the power there is at least its own
    share `p / total` (in particular not zero). Taps are merged only when their ROUNDED delays are
    equal (`discretize_sorted_unique`, `discretize_merges`). -/
theorem discretize_keeps_every_tap (delays powers : List ℚ) (Ts : ℚ) (hlen : delays.length = powers.length)
    (hpos : ∀ p ∈ powers, 0 < p) (i : Nat) (t p : ℚ) (ht : delays[i]? = some t) (hp : powers[i]? = some p) :
    ∃ (j : Nat) (q : ℚ), (discretize delays powers Ts).1[j]? = some (roundHalfEven (t / Ts)) ∧
      (discretize delays powers Ts).2[j]? = some q ∧ p / powers.sum ≤ q ∧ 0 < q := by
  have hd : roundHalfEven (t / Ts) ∈ (discretize delays powers Ts).1 :=
    ((discretize_sorted_unique delays powers Ts).2.1 _).mpr ⟨t, List.mem_of_getElem? ht, rfl⟩
  obtain ⟨j, hj⟩ := List.mem_iff_getElem?.mp hd
  have hidx : (delayIdx delays Ts)[i]? = some (roundHalfEven (t / Ts)) := by simp [delayIdx, ht]
  have hge := collidingPower_ge (delayIdx delays Ts) powers (fun x hx => le_of_lt (hpos x hx)) i _ p hidx hp
  have hsum : 0 < powers.sum := sum_pos_of_pos powers (by intro h; simp [h] at hp) hpos
  refine ⟨j, collidingPower (delayIdx delays Ts) powers (roundHalfEven (t / Ts)) / powers.sum, hj, ?_, ?_, ?_⟩
  · rw [discretize_merges delays powers Ts hlen, List.getElem?_map, hj]; rfl
  · exact div_le_div_of_nonneg_right hge (le_of_lt hsum)
  · exact div_pos (lt_of_lt_of_le (hpos p (List.mem_of_getElem? hp)) hge) hsum

/-- non-vacuity: a tap 150 dB below the main tap keeps its own delay and its own (tiny) power; the tap a
    quarter of a sample after it is merged into it only because both ROUND to the same delay -/
example : discretize [0, 3, 17/4] [1, 1/1000000000000000, 1/2] 1
      = ([0, 3, 4], [1000000000000000/1500000000000001, 1/1500000000000001, 500000000000000/1500000000000001]) ∧
    discretize [0, 3, 13/4] [1, 1/1000000000000000, 1/2] 1
      = ([0, 3], [1000000000000000/1500000000000001, 500000000000001/1500000000000001]) := by decide +kernel

/-! ## robustness: argument identity and buffer reuse (R16) -/

/-- R16 (earlier results are not changed by later calls / later refills of an argument buffer): the
    replies of a history are a prefix of the replies of every longer history, and the longer history
    goes on from the state the shorter one ends in. -/
theorem earlier_results_independent_of_later_calls (proc : Proc α) (fftK : Fft α) (ops more : List (SuOp α))
    (c : Su α) :
    (Su.runR proc fftK c (ops ++ more)).2
      = (Su.runR proc fftK c ops).2 ++ (Su.runR proc fftK (Su.runR proc fftK c ops).1 more).2 ∧
    (Su.runR proc fftK c (ops ++ more)).1 = (Su.runR proc fftK (Su.runR proc fftK c ops).1 more).1 := by
  rw [su_runR_append]
  exact ⟨rfl, rfl⟩

/-- R16 (ONE preallocated array refilled in place before every call on the same object): the history
    run with the caller's buffer cell threaded through (`Su.runBuf`) is the history in which every call
    gets a fresh value equal to the contents at call time — whatever the buffer held before
    (`buf`), and whatever it will hold later.  The real code is tied to this by correspondence
    histories that really pass one refilled ndarray / list object. -/
theorem refilled_buffer_history_eq_fresh_values (proc : Proc α) (fftK : Fft α) (ks : List (BufCall α)) (c : Su α)
    (buf : List (List α)) :
    Su.runBuf proc fftK c buf ks = Su.runR proc fftK c (ks.map (fun k => k.call k.fill)) :=
  su_runBuf_eq proc fftK ks c buf

/-- a two-transmission history, end to end on concrete Gaussian-free data (α = ℤ): both
    transmissions succeed and the second one starts where the first one stopped -/
example :
    (Su.run (fun _ pos i _ _ => (pos : Int) + i) (fun v _ k => v.sum * k)
      { tdl := Tdl.init [(0, 1), (2, 3)] none true 0, pl := some 2 }
      [.tx [[1, 2, 3]], .fx [[1, 1, 1, 1]] 4 (.slice ⟨some 0, none, some 3⟩), .getIR]).map (fun r => r.1.tdl.pos)
      = .ok (1 + 3 + 2 * 4) := by
  decide +kernel

end PyPhysim.C03
