import PyPhysim.Proofs.C14Robust
import PyPhysim.Proofs.C14Gen

/-!
# C14 — Jakes fading samples do not depend on how generation was chunked

Property theorems only.  `State`/`Op`/`step`/`trace` (bookkeeping over `Nat`)
and `jakes`/`sampleTime`/`Block.value` (polymorphic numeric part, here at `ℝ`)
are the hand model of `JakesSampleGenerator` after the repair of finding
`C14:float-stepped-arange` (index based time vector); the model is tied to the
code by the correspondence of `harness/props/c14.py` (exact counts, shapes,
sample numbers and phase epochs of every request of seeded histories; time
vectors and values against the same definitions run at `Float`) AND by the
section "the model is the current source": `Generated/C14Jakes.lean` is
re-emitted on every run from the AST of `generate_more_samples`,
`skip_samples_for_next_generation`, `_generate_time_samples` and
`generate_jakes_samples` (symbolic execution with canonical linear integer
forms; real-expression fragment), and the bridge theorems
`generated_bookkeeping_matches_model`, `generated_jakes_formula_matches_model`,
`generated_request_evaluates_model_samples` equate it with the hand model for
ALL counters, request sizes and parameters.

The last three theorems are about the model of the stepping the code used
BEFORE the repair (`np.arange(ct, n*Ts+ct, Ts*1.0000000001)`): negative
witnesses that document the fixed finding.
-/
namespace PyPhysim.C14
open PyPhysim.Proto

/-- Clause "every request returns exactly the requested number of samples with
    the configured shape": whatever the state (however long the generator has
    been running), `generate_more_samples(n)` produces an array of shape
    `shape + (n,)` (`(n,)` for shape `None`; `n = 1` for the default argument)
    holding the samples number `k … k+n-1`, stores it as `get_samples()`, and
    advances the counter by exactly `n`. -/
theorem request_returns_requested (s : State) (n : Option Nat) :
    produced s (.gen n) = some (genBlock s n) ∧
    (step s (.gen n)).last = some (genBlock s n) ∧
    (genBlock s n).count = reqCount n ∧
    (genBlock s n).dims = outDims s.shape (reqCount n) ∧
    (genBlock s n).first = s.k ∧
    (step s (.gen n)).k = s.k + reqCount n ∧
    (step s (.gen n)).shape = s.shape ∧ (step s (.gen n)).epoch = s.epoch :=
  ⟨rfl, rfl, rfl, rfl, rfl, rfl, rfl, rfl⟩

/-- The shape of a produced array always has the requested count as its last
    axis and the configured shape in front (`None`, `int`, tuple arguments). -/
theorem produced_dims (a : ShapeArg) (n : Nat) :
    outDims a.norm n = match a with
      | .none => [n]
      | .int m => [m, n]
      | .tuple d => d ++ [n] := by
  cases a <;> rfl

/-- The constructor leaves one sample (number 0) in `get_samples()` and the
    counter at 1. -/
theorem construct_state (a : ShapeArg) :
    construct a = { k := 1, shape := a.norm, epoch := 0,
                    last := some { dims := outDims a.norm 1, first := 0, count := 1, epoch := 0 } } := rfl

/-- After any history the counter is the start value plus the total number of
    samples generated or skipped; the phases were redrawn once per shape
    assignment; nothing else moves the counter. -/
theorem history_counter (s : State) (ops : List Op) :
    (run s ops).k = s.k + total ops ∧ (run s ops).epoch = s.epoch + redraws ops ∧
    (run s ops).shape = shapeAfter s.shape ops :=
  ⟨run_k s ops, run_epoch s ops, run_shape s ops⟩

/-- MAIN CLAUSE (chunking invariance).  For every start state `s`, every
    history `pre` of generate / skip / shape requests, every following request
    `generate_more_samples(n)` and whatever comes after: the array it produces
    has `n` samples of the configured shape, and its entry `(idx, j)` is the
    Jakes sum of the rays of entry `idx` (phase draw `epoch s + redraws pre`)
    evaluated at the time `(k₀ + total pre + j) · Ts`, where `total pre` is the
    number of samples requested before — however that number was split into
    requests and skips. -/
theorem chunking_invariant (Fd Ts : ℝ) (phases : Nat → List Nat → List (ℝ × ℝ))
    (s : State) (pre post : List Op) (n : Option Nat) :
    ∃ b : Block, (trace s (pre ++ .gen n :: post))[pre.length]? = some (some b) ∧
      b.count = reqCount n ∧
      b.dims = outDims (shapeAfter s.shape pre) (reqCount n) ∧
      b.first = s.k + total pre ∧
      b.epoch = s.epoch + redraws pre ∧
      ∀ (idx : List Nat) (j : Nat),
        b.value Fd Ts phases idx j =
          jakes Fd (phases (s.epoch + redraws pre) idx) (((s.k + total pre + j : Nat) : ℝ) * Ts) := by
  refine ⟨genBlock (run s pre) n, ?_, ?_⟩
  · rw [trace_at]; rfl
  · rw [genBlock_run]
    exact ⟨rfl, rfl, rfl, rfl, fun _ _ => rfl⟩

/-- non-vacuity / concrete instance of `chunking_invariant`: shape `(2,3)`,
    history `generate(5); skip(7); shape = 4; generate()` after the constructor —
    the last request returns sample number 13 with the second phase draw. -/
example : trace (construct (.tuple [2, 3])) [.gen (some 5), .skip 7, .setShape (.int 4), .gen none] =
    [some { dims := [2, 3, 5], first := 1, count := 5, epoch := 0 }, none, none,
     some { dims := [4, 1], first := 13, count := 1, epoch := 1 }] := by decide

/-- The same for a generator as the constructor leaves it (the constructor has
    already produced sample number 0): the request issued after the history
    `pre` returns the process samples number `1 + total pre + j`, `j < n`. -/
theorem constructed_generator_samples (Fd Ts : ℝ) (phases : Nat → List Nat → List (ℝ × ℝ))
    (a : ShapeArg) (pre post : List Op) (n : Option Nat) :
    ∃ b : Block, (trace (construct a) (pre ++ .gen n :: post))[pre.length]? = some (some b) ∧
      b.count = reqCount n ∧
      b.dims = outDims (shapeAfter a.norm pre) (reqCount n) ∧
      ∀ (idx : List Nat) (j : Nat),
        b.value Fd Ts phases idx j =
          jakes Fd (phases (redraws pre) idx) (((1 + total pre + j : Nat) : ℝ) * Ts) := by
  obtain ⟨b, h1, h2, h3, _, _, h6⟩ := chunking_invariant Fd Ts phases (construct a) pre post n
  refine ⟨b, h1, h2, h3, fun idx j => ?_⟩
  have := h6 idx j
  simpa [construct, step, reqCount] using this

/-- "In one request or in any sequence of smaller requests": the samples
    returned by consecutive requests of sizes `ns`, concatenated along the time
    axis, are the samples one request of size `ns.sum` returns — for any
    per-sample value `f` (in particular `fun k => jakes Fd rays (k·Ts)`). -/
theorem chunks_concat_eq_single {β : Type} (f : Nat → β) (s : State) (ns : List Nat) :
    (blocks s (ns.map fun n => Op.gen (some n))).flatMap (Block.samples f) =
      Block.samples f (genBlock s (some ns.sum)) :=
  gens_concat f s ns

/-- The same statement for the model run in binary64 (what the driver executes
    and the correspondence compares with the code): since sample times are
    computed from the integer sample number, chunking cannot change a single bit
    of the model's output, rounding included. -/
theorem chunks_concat_eq_single_binary64 (Fd Ts : Float) (rays : List (Float × Float))
    (s : State) (ns : List Nat) :
    (blocks s (ns.map fun n => Op.gen (some n))).flatMap (Block.samples (processSample Fd Ts rays)) =
      Block.samples (processSample Fd Ts rays) (genBlock s (some ns.sum)) :=
  gens_concat _ s ns

/-- "With skipped stretches in between": skipping `n` samples is generating `n`
    samples and discarding them — same counter, same shape and phases, and every
    later request produces the same block; `get_samples()` keeps the old array. -/
theorem skip_is_discarded_generation (s : State) (n : Nat) (ops : List Op) :
    (step s (.skip n)).k = (step s (.gen (some n))).k ∧
    (step s (.skip n)).last = s.last ∧
    trace (step s (.skip n)) ops = trace (step s (.gen (some n))) ops :=
  ⟨rfl, rfl, trace_congr (step s (.skip n)) (step s (.gen (some n))) rfl rfl rfl ops⟩

/-- Changing the shape redraws the phases (new epoch) but neither moves the
    counter nor touches `get_samples()`. -/
theorem set_shape_keeps_counter (s : State) (a : ShapeArg) :
    (step s (.setShape a)).k = s.k ∧ (step s (.setShape a)).epoch = s.epoch + 1 ∧
    (step s (.setShape a)).shape = a.norm ∧ (step s (.setShape a)).last = s.last :=
  ⟨rfl, rfl, rfl, rfl⟩

/-! ### robustness classes (R1, R3, R4, R7) on the model -/

/-- R4 (rejected calls): a call that raises — negative or non-integer request
    size, missing skip argument, invalid shape — leaves the whole state (counter,
    shape, phase epoch, `get_samples()`) exactly as it was. -/
theorem rejected_request_keeps_state (s : State) (r : RawOp) (e : PyErr)
    (h : (stepR s r).2 = some e) : (stepR s r).1 = s := by
  unfold stepR at h ⊢
  cases hc : r.check with
  | ok op => rw [hc] at h; simp at h
  | error e' => rfl

/-- non-vacuity of `rejected_request_keeps_state`: requests that are rejected exist
    (negative size → `ValueError`, non-integer size → `TypeError`, shape with a
    negative dimension → `ValueError`), and an integer-valued size is accepted. -/
example : (stepR (construct .none) (.gen (.int (-3)))).2 = some .ValueError ∧
    (stepR (construct .none) (.skip .notInt)).2 = some .TypeError ∧
    (stepR (construct .none) (.setShape (.seq [2, -1]))).2 = some .ValueError ∧
    (stepR (construct .none) (.gen (.int 40000))).1.k = 40001 := by decide

/-- R4, continued: a history with rejected calls in it ends in the same state as
    the history of its accepted calls alone (an object that never saw the
    rejected calls), so every later request returns the same block. -/
theorem rejected_requests_invisible (s : State) (rs : List RawOp) (ops : List Op) :
    runR s rs = run s (accepted rs) ∧
    trace (runR s rs) ops = trace (run s (accepted rs)) ops := by
  rw [runR_eq_run_accepted]; exact ⟨rfl, rfl⟩

/-- R1 (element types): an accepted call acts through the integer VALUE of its
    argument only (`operator.index`): whatever integer type carried the size
    `n ≥ 0`, the step is the step of the Python-int request `n`; sizes `0` and
    `1` and the default argument are ordinary cases. -/
theorem request_value_only (s : State) (n : Nat) :
    stepR s (.gen (.int n)) = (step s (.gen (some n)), none) ∧
    stepR s (.skip (.int n)) = (step s (.skip n), none) ∧
    stepR s (.gen .default) = (step s (.gen (some 1)), none) := by
  refine ⟨rfl, rfl, ?_⟩
  simp [stepR, RawOp.check, step, genBlock, reqCount]

/-- R1, continued: the sample counter is an unbounded integer — it never wraps
    or decreases, whatever the sizes and however long the history. -/
theorem counter_monotone (s : State) (ops : List Op) : s.k ≤ (run s ops).k := by
  rw [run_k]; exact Nat.le_add_right _ _

/-- R3 (outputs are fresh values): the block a request produced is not changed
    by anything that is requested afterwards. -/
theorem produced_independent_of_future (s : State) (pre post : List Op) (op : Op) :
    (trace s (pre ++ op :: post))[pre.length]? = (trace s (pre ++ [op]))[pre.length]? := by
  rw [trace_at, trace_at]

/-- R7 (long-lived objects): after any history a generator behaves like a fresh
    one with the current shape and phase draw that skipped to the same sample
    number — every later history of requests produces the same blocks. -/
theorem history_equiv_fresh (s : State) (pre ops : List Op) (l : Option Block) :
    trace (run s pre) ops =
      trace (step { k := 0, shape := shapeAfter s.shape pre, epoch := s.epoch + redraws pre, last := l }
              (.skip (s.k + total pre))) ops := by
  apply trace_congr
  · rw [run_k]; simp [step]
  · rw [run_shape]; rfl
  · rw [run_epoch]; rfl

/-! ### robustness classes R8, R11, R13 on the model -/

/-- R11 (non-mutating API): a query — `get_samples()`, the `shape`/`L`/`Ts`/`Fd`
    properties, `repr`, `==`, `copy`, `deepcopy`, pickling,
    `get_similar_fading_generator()` — changes nothing and produces nothing, and
    a history with any number of queries in it ends in the same state and
    produces the same blocks as the history without them. -/
theorem queries_invisible (s : State) (ops : List Op) :
    step s .query = s ∧ produced s .query = none ∧
    run s (dropQueries ops) = run s ops ∧ blocks s (dropQueries ops) = blocks s ops :=
  ⟨rfl, rfl, run_dropQueries s ops, blocks_dropQueries s ops⟩

/-- R13 (derived objects): a copy taken after the history `pre` (copy, deepcopy,
    pickle round trip: the same state value) answers every later history `child`
    exactly as the original would have answered it at that point — whatever the
    parent is asked afterwards does not appear — and using the copy does not
    change what the parent produces (`parent`). -/
theorem derived_copy_replays_history (s : State) (pre child parent : List Op) :
    trace (run s pre) child = (trace s (pre ++ child)).drop pre.length ∧
    trace (run s pre) parent = (trace s (pre ++ parent)).drop pre.length :=
  ⟨(trace_drop s pre child).symm, (trace_drop s pre parent).symm⟩

/-- R8 (constructor path vs setter path): a generator built with another shape
    and then given the shape `a` through the setter has the same counter and
    configured shape as one built with `a`, so every later request returns a
    block of the same shape holding the same sample numbers (the two differ in
    the phase-draw number only: the setter draws once more). -/
theorem constructor_vs_setter (a a₀ : ShapeArg) (ops : List Op) :
    (step (construct a₀) (.setShape a)).k = (construct a).k ∧
    (step (construct a₀) (.setShape a)).shape = (construct a).shape ∧
    (trace (step (construct a₀) (.setShape a)) ops).map (Option.map Block.geometry) =
      (trace (construct a) ops).map (Option.map Block.geometry) :=
  ⟨rfl, rfl, trace_geometry_congr (step (construct a₀) (.setShape a)) (construct a) rfl rfl ops⟩

/-- R8 (argument forms): the default request, an explicit `None` and an explicit
    `1` are the same request; `int n` and the 1-tuple `(n,)` are the same shape. -/
theorem default_forms_agree (s : State) (n : Nat) :
    step s (.gen none) = step s (.gen (some 1)) ∧
    step s (.setShape (.int n)) = step s (.setShape (.tuple [n])) ∧
    construct (.int n) = construct (.tuple [n]) :=
  ⟨rfl, rfl, rfl⟩

/-- Sample number `k` is taken at `k · Ts`: the process starts at time 0 and
    consecutive samples — inside a request or across a request boundary — are
    exactly `Ts` apart. -/
theorem sample_time_grid (Ts : ℝ) (k : Nat) :
    sampleTime Ts 0 = 0 ∧ sampleTime Ts k = (k : ℝ) * Ts ∧
    sampleTime Ts (k + 1) - sampleTime Ts k = Ts := by
  refine ⟨by simp [sampleTime], rfl, ?_⟩
  simp only [sampleTime, Nat.cast_add, Nat.cast_one]
  ring

/-- Clause "a zero Doppler frequency gives a time-invariant channel": with
    `Fd = 0` every sample of the process has the same value, for every ray set,
    sampling interval and pair of sample numbers. -/
theorem zero_doppler_constant (Ts : ℝ) (rays : List (ℝ × ℝ)) (k k' : Nat) :
    processSample 0 Ts rays k = processSample 0 Ts rays k' := by
  simp only [processSample, jakes, rayPhase_zero]

/-- Clause "sample magnitudes never exceed sqrt(L)": for `L ≥ 1` rays, every
    Doppler frequency, phases and time the Jakes sum is defined and
    `|h| ≤ √L`. -/
theorem magnitude_le_sqrtL (Fd t : ℝ) (rays : List (ℝ × ℝ)) (h : rays ≠ []) :
    ∃ v : ℝ × ℝ, jakes Fd rays t = .ok v ∧
      Real.sqrt (v.1 ^ 2 + v.2 ^ 2) ≤ Real.sqrt (rays.length : ℝ) := by
  refine ⟨_, jakes_ok Fd t rays h, ?_⟩
  exact Real.sqrt_le_sqrt (jakes_sq_le Fd t rays h _ (jakes_ok Fd t rays h))

/-- `L = 0` is rejected (`1.0 / self.L` raises `ZeroDivisionError`). -/
theorem no_rays_error (Fd t : ℝ) : jakes Fd ([] : List (ℝ × ℝ)) t = .error .ZeroDivisionError := rfl

/-- non-vacuity of `magnitude_le_sqrtL`: the bound is attained (all rays in
    phase at `t = 0`), so it cannot be improved. -/
example : jakes (5 : ℝ) [(0, 0), (1, 0)] 0 = .ok (Real.sqrt (1 / 2) * 2, 0) := by
  rw [jakes_ok _ _ _ (by simp)]
  simp [rayPhase]
  norm_num

/-! ### robustness classes R15 (close but distinct values) and R16 (argument buffers) -/

/-- R16 (argument identity and buffer reuse): a caller that keeps ONE size
    buffer and ONE shape buffer, refills them in place and passes the same
    objects to every call — the size buffer to `generate_more_samples` and to
    `skip_samples_for_next_generation` alike — leaves the generator in the state
    of the calls with FRESH arguments holding the buffer contents at call time
    (rejected contents included: they raise and change nothing), and every
    later request produces the same blocks.  The state has no component in which
    an argument object could be remembered. -/
theorem buffer_contents_at_call_time (c : Caller) (s : State) (prog : List CallerOp) (ops : List Op) :
    (runC c s prog).2 = runR s (callsSeen c prog) ∧
    (runC c s prog).2 = run s (accepted (callsSeen c prog)) ∧
    trace (runC c s prog).2 ops = trace (run s (accepted (callsSeen c prog))) ops := by
  rw [runC_state, runR_eq_run_accepted]; exact ⟨rfl, rfl, rfl⟩

/-- non-vacuity / concrete instance: `nbuf[...] = 5; generate(nbuf); nbuf[...] = 7;
    skip(nbuf); nbuf[...] = 99; sbuf[:] = (2, 3); shape = sbuf; sbuf[:] = (9,)`
    is `generate(5); skip(7); shape = (2, 3)`. -/
example : (runC { size := .default, shape := .none } (construct .none)
      [.fillSize (.int 5), .genBuf, .fillSize (.int 7), .skipBuf, .fillSize (.int 99),
       .fillShape (.seq [2, 3]), .setShapeBuf, .fillShape (.seq [9])]).2 =
    run (construct .none) [.gen (some 5), .skip 7, .setShape (.tuple [2, 3])] := by decide

/-- R16, continued: what the caller writes into its buffers AFTER a call (the
    buffer is overwritten right after the call, or refilled for a call that is
    never made) does not reach the generator, and a call passing the buffer is
    the call passing an equal-content fresh object. -/
theorem later_refills_invisible (c : Caller) (s : State) (prog : List CallerOp) (a : SizeArg) (b : RawShape) :
    (runC c s (prog ++ [.fillSize a, .fillShape b])).2 = (runC c s prog).2 ∧
    (stepC c s .genBuf).2 = (stepC c s (.call (.gen c.size))).2 ∧
    (stepC c s .skipBuf).2 = (stepC c s (.call (.skip c.size))).2 ∧
    (stepC c s .setShapeBuf).2 = (stepC c s (.call (.setShape c.shape))).2 := by
  refine ⟨?_, rfl, rfl, rfl⟩
  rw [runC_state, runC_state, callsSeen_append c s]
  have : callsSeen (runC c s prog).1 [.fillSize a, .fillShape b] = [] := rfl
  rw [this, List.append_nil]

/-- R15 (distinct values that are merely close), general form: for a ray with
    `cos(phi) ≠ 0` two (Doppler, time) pairs give DIFFERENT samples as soon as the
    products `Fd·t` differ at all and by less than one cycle of that ray — so
    there is no tolerance below which two Doppler frequencies, two sampling
    intervals or two sample times are "the same": the model is a function of the
    exact values. -/
theorem close_values_distinct_samples (Fd Fd' Ts Ts' : ℝ) (k k' : Nat) (phi psi : ℝ)
    (h0 : (Fd * ((k : ℝ) * Ts) - Fd' * ((k' : ℝ) * Ts')) * Real.cos phi ≠ 0)
    (h1 : |(Fd * ((k : ℝ) * Ts) - Fd' * ((k' : ℝ) * Ts')) * Real.cos phi| < 1) :
    processSample Fd Ts [(phi, psi)] k ≠ processSample Fd' Ts' [(phi, psi)] k' :=
  single_ray_ne Fd Fd' _ _ phi psi h0 h1

/-- non-vacuity: `Fd = 2.4e9 + 2e4` against `2.4e9` (relative difference 8e-6,
    "equal" for `np.isclose`) at `Ts = 1e-9`, sample 10000: 0.2 cycles apart. -/
example : processSample (2400020000 : ℝ) (1 / 1000000000) [(0, 0)] 10000 ≠
    processSample (2400000000 : ℝ) (1 / 1000000000) [(0, 0)] 10000 := by
  apply close_values_distinct_samples <;> norm_num [abs_lt]

/-- R15, the zero test of the Doppler clause: only `Fd = 0` is time invariant.
    However small `Fd ≠ 0` is (1e-9, 1e-15 — "zero" for an absolute threshold),
    sample `k` differs from sample `0` once `Fd·cos(phi)·k·Ts` is a non-zero
    fraction of a cycle. -/
theorem tiny_doppler_not_time_invariant (Fd Ts : ℝ) (k : Nat) (phi psi : ℝ)
    (h0 : Fd * ((k : ℝ) * Ts) * Real.cos phi ≠ 0) (h1 : |Fd * ((k : ℝ) * Ts) * Real.cos phi| < 1) :
    processSample Fd Ts [(phi, psi)] k ≠ processSample Fd Ts [(phi, psi)] 0 := by
  have h := single_ray_ne Fd Fd ((k : ℝ) * Ts) (((0 : Nat) : ℝ) * Ts) phi psi
    (by simpa [sub_mul, mul_sub] using h0) (by simpa [sub_mul, mul_sub] using h1)
  exact h

/-- non-vacuity: `Fd = 1e-12` Hz, `Ts = 1` s, ten thousand million samples on:
    a hundredth of a cycle. -/
example : processSample (1 / 1000000000000 : ℝ) 1 [(0, 0)] 10000000000 ≠
    processSample (1 / 1000000000000 : ℝ) 1 [(0, 0)] 0 := by
  apply tiny_doppler_not_time_invariant <;> norm_num [abs_lt]

/-- R15 for the phases: two starting phases `psi ≠ psi'` less than one turn
    apart (1e-9 apart, adjacent doubles, …) give different samples at every
    time. -/
theorem close_phase_distinct_samples (Fd t phi psi psi' : ℝ) (h0 : psi ≠ psi')
    (h1 : |psi - psi'| < 2 * Real.pi) :
    jakes Fd [(phi, psi)] t ≠ jakes Fd [(phi, psi')] t := by
  apply single_ray_ne_of_phase
  · intro h; apply h0; simpa [rayPhase] using h
  · simpa [rayPhase] using h1

/-! ### the model is the current source (regenerated module `Generated/C14Jakes.lean`) -/

/-- BRIDGE (bookkeeping).  For every state and every request size as passed
    (no argument, an integer-valued object of any sign, a non-integer), the
    bookkeeping symbolically executed from the CURRENT source is the model's
    step:
    * `generate_more_samples`: the counter after the call — ALSO when the call
      raises, so a refused size leaves the counter (validation before the state
      changes) —, the exception raised, and for an accepted request the integer
      index vector `first + step·j, j < count` multiplied into the time vector:
      first = the counter, count = the requested number, step 1, i.e. exactly
      the sample numbers of the model's block;
    * `skip_samples_for_next_generation`: counter after the call and exception;
    * `__init__` starts the counter at 0. -/
theorem generated_bookkeeping_matches_model (s : State) (a : SizeArg) :
    Generated.C14.genStep (s.k : Int) a = modelGenStep s a ∧
    Generated.C14.skipStep (s.k : Int) a = modelSkipStep s a ∧
    (∀ e, (RawOp.gen a).check = .error e →
        (Generated.C14.genStep (s.k : Int) a).1 = s.k ∧ genIndexes (s.k : Int) a = []) ∧
    (∀ e, (RawOp.skip a).check = .error e → (Generated.C14.skipStep (s.k : Int) a).1 = s.k) ∧
    (∀ op, (RawOp.gen a).check = .ok op → ∃ n, op = .gen n ∧
        (Generated.C14.genStep (s.k : Int) a).1 = ((s.k + reqCount n : Nat) : Int) ∧
        genIndexes (s.k : Int) a = ((genBlock s n).samples id).map Int.ofNat) ∧
    Generated.C14.initCounter = 0 := by
  refine ⟨genStep_eq_model s a, skipStep_eq_model s a, ?_, ?_, ?_, initCounter_eq⟩
  · intro e h
    refine ⟨?_, genIndexes_refused s a e h⟩
    rw [genStep_eq_model]; simp [modelGenStep, stepR, h]
  · intro e h
    rw [skipStep_eq_model]; simp [modelSkipStep, stepR, h]
  · intro op h
    obtain ⟨n, rfl, hi⟩ := genIndexes_eq_block s a _ h
    refine ⟨n, rfl, ?_, hi⟩
    rw [genStep_eq_model]; simp [modelGenStep, stepR, h, step]

/-- non-vacuity / concrete instance: at counter 13 a request of 4 samples
    evaluates the sample numbers 13..16 and moves the counter to 17; a request
    of -4 raises `ValueError` and a float raises `TypeError` with the counter
    still 13; a skip of 4 moves it to 17. -/
example : genIndexes 13 (.int 4) = [13, 14, 15, 16] ∧
    Generated.C14.genStep 13 (.int 4) = (17, .ok (13, 4, 1)) ∧
    Generated.C14.genStep 13 (.int (-4)) = (13, .error .ValueError) ∧
    Generated.C14.genStep 13 .notInt = (13, .error .TypeError) ∧
    Generated.C14.genStep 13 .default = (14, .ok (13, 1, 1)) ∧
    Generated.C14.skipStep 13 (.int 4) = (17, none) ∧
    Generated.C14.skipStep 13 (.int (-4)) = (13, some .ValueError) := by decide

/-- BRIDGE (times and formula, over ℝ).  Regenerated from the current source:
    the time of sample index `i` is the product `i · Ts` (the translator accepts
    a time vector only as (integer index vector) · scalar); the phase of a ray
    is `2π·Fd·cos(φ_l)·t + ψ_l`; the amplitude is `sqrt(1/L)`; the sum over the
    rays with `L = 0` raising `ZeroDivisionError` is the model's `jakes`; so the
    regenerated value of sample index `k` is the model's `processSample`.  The
    formula of the free function `generate_jakes_samples` is the same. -/
theorem generated_jakes_formula_matches_model (Fd Ts t : ℝ) (rays : List (ℝ × ℝ)) (ray : ℝ × ℝ)
    (k : Nat) :
    Generated.C14.timeOfIndex Ts k = (k : ℝ) * Ts ∧
    Generated.C14.rayPhase Fd t ray = 2 * Real.pi * Fd * Real.cos ray.1 * t + ray.2 ∧
    Generated.C14.amplitude rays.length = Real.sqrt (1 / (rays.length : ℝ)) ∧
    Generated.C14.jakes Fd rays.length rays t = jakes Fd rays t ∧
    Generated.C14.jakes Fd rays.length rays (Generated.C14.timeOfIndex Ts k) =
      processSample Fd Ts rays k ∧
    Generated.C14.freeJakes Fd rays.length rays t = jakes Fd rays t := by
  refine ⟨timeOfIndex_eq Ts k, ?_, ?_, jakesGen_eq Fd rays t, ?_, freeJakes_eq Fd rays t⟩
  · rw [rayPhaseGen_eq]; simp [rayPhase]
  · rw [amplitudeGen_eq]; simp
  · rw [jakesGen_eq, timeOfIndex_eq]; rfl

/-- BRIDGE (end to end).  Whatever the state, an accepted regenerated request
    evaluates the regenerated formula at the regenerated times of its index
    vector, and that is, entry by entry, the value the model gives to the block
    the request produces: entry `(idx, j)` is the Jakes sum of sample number
    `k + j` — independent of how the samples before were chunked. -/
theorem generated_request_evaluates_model_samples (Fd Ts : ℝ)
    (phases : Nat → List Nat → List (ℝ × ℝ)) (s : State) (a : SizeArg) (n : Option Nat)
    (h : (RawOp.gen a).check = .ok (.gen n)) (idx : List Nat) :
    (genIndexes (s.k : Int) a).map (fun i =>
        Generated.C14.jakes Fd (phases s.epoch idx).length (phases s.epoch idx)
          (Generated.C14.timeOfIndex Ts i.toNat)) =
      (List.range (reqCount n)).map fun j => (genBlock s n).value Fd Ts phases idx j := by
  obtain ⟨n', hn, hi⟩ := genIndexes_eq_block s a _ h
  cases hn
  rw [hi]
  simp only [Block.samples, List.map_map, genBlock]
  apply List.map_congr_left
  intro j _
  simp only [Function.comp, id, Int.toNat_natCast, Int.ofNat_eq_natCast, jakesGen_eq, timeOfIndex_eq,
    Block.value, processSample]

/-! ### the stepping used before the repair (fixed finding `C14:float-stepped-arange`) -/

/-- NEGATIVE WITNESS (pre-fix code, binary64, kernel evaluated): at
    `ct = 2048.003`, `Ts = 1e-3` the old `np.arange(ct, 1*Ts+ct, Ts*1.0000000001)`
    has `(stop-start)/step > 1`, i.e. TWO elements for a request of ONE sample
    (the reshape then raised `ValueError`). -/
theorem old_arange_len_exceeds :
    oldArangeRatio wInfl wTs wCt 1 > 1.0 ∧ oldArangeLen wInfl wTs wCt 1 = 2 := by
  decide +kernel

/-- NEGATIVE WITNESS (pre-fix code, exact arithmetic): even without rounding the
    old stepping was chunk dependent — sample number 1 generated by one request
    of two samples sits at `Ts·infl`, generated by two requests of one sample at
    `Ts`. -/
theorem old_stepping_chunk_dependent (Ts infl : ℝ) (hTs : Ts ≠ 0) (hi : infl ≠ 1) :
    oldTime infl Ts 0 1 ≠ oldTime infl Ts (oldNextTime infl Ts 0 1) 0 := by
  simp only [oldTime, oldNextTime, Nat.sub_self, Nat.cast_zero, Nat.cast_one, zero_mul, add_zero,
    zero_add, one_mul]
  intro h
  apply hi
  have : Ts * (infl - 1) = 0 := by linarith
  rcases mul_eq_zero.mp this with h0 | h0
  · exact absurd h0 hTs
  · linarith

/-- size of that displacement: inside one old request sample `j` was taken
    `j·Ts·(infl-1)` late (`infl - 1 = 1e-10`: the 10th-digit difference between
    chunked and unchunked runs). -/
theorem old_drift (Ts infl ct : ℝ) (j : Nat) :
    oldTime infl Ts ct j - (ct + (j : ℝ) * Ts) = (j : ℝ) * Ts * (infl - 1) := by
  simp only [oldTime]
  ring

end PyPhysim.C14
