import PyPhysim.Proofs.C20Real

/-!
# C20 — subspace and linear-algebra kernels satisfy their defining identities

Property theorems only.  All statements are about the executable model
`PyPhysim.LinAlg` (`Model/C20.lean`), instantiated at an arbitrary commutative
star ring `K` (`ℂ` with conjugation, `ℝ` with the trivial star) or at `ℂ`/`ℝ`
where order or analysis is needed — the correspondence check of
`harness/props/c20.py` ties the same definitions, compiled at binary64, to the
code.

`G` is the value returned by `np.linalg.inv(A_H.dot(A))`; its contract is
`G · (Aᴴ A) = 1` (checked numerically on every case).  Such a `G` exists iff
`A` has full column rank (`inv_contract_of_full_column_rank`).
-/
namespace PyPhysim.C20
open PyPhysim.LinAlg PyPhysim.Proto

section projection
variable {K : Type} [CommRing K] [StarRing K] {m k c : Nat}

/-- the projection matrix is Hermitian -/
theorem proj_hermitian (A : Mat K m k) (G : Mat K k k) (hG : matMul G (gram A) = eye) :
    cT (projWith G A) = projWith G A := by
  to_matrix at hG
  to_matrix
  exact Pf.proj_herm _ _ hG

/-- … and idempotent -/
theorem proj_idempotent (A : Mat K m k) (G : Mat K k k) (hG : matMul G (gram A) = eye) :
    matMul (projWith G A) (projWith G A) = projWith G A := by
  to_matrix at hG
  to_matrix
  exact Pf.proj_idem _ _ hG

/-- … leaves the matrix unchanged (`P A = A`) -/
theorem proj_fixes_A (A : Mat K m k) (G : Mat K k k) (hG : matMul G (gram A) = eye) :
    matMul (projWith G A) A = A := by
  to_matrix at hG
  to_matrix
  exact Pf.proj_mul_A _ _ hG

/-- the residual `x − P x` is orthogonal to every column of `A` (so `P` is *the*
    orthogonal projection onto the column space: `P x = A (G Aᴴ x)` lies in it) -/
theorem proj_residual_orthogonal (A : Mat K m k) (G : Mat K k k) (hG : matMul G (gram A) = eye) :
    matMul (cT A) (oprojWith G A) = fun _ _ => 0 := by
  to_matrix at hG
  to_matrix
  exact Pf.AH_mul_oproj _ _ hG

/-- the orthogonal projection is complementary: `P + P⊥ = 1`, `P P⊥ = P⊥ P = 0`,
    `P⊥` is itself a Hermitian idempotent and annihilates `A` -/
theorem proj_complement (A : Mat K m k) (G : Mat K k k) (hG : matMul G (gram A) = eye) :
    madd (projWith G A) (oprojWith G A) = eye ∧
    matMul (projWith G A) (oprojWith G A) = (fun _ _ => 0) ∧
    matMul (oprojWith G A) (projWith G A) = (fun _ _ => 0) ∧
    matMul (oprojWith G A) (oprojWith G A) = oprojWith G A ∧
    cT (oprojWith G A) = oprojWith G A ∧
    matMul (oprojWith G A) A = (fun _ _ => 0) := by
  to_matrix at hG
  refine ⟨?_, ?_, ?_, ?_, ?_, ?_⟩
  · to_matrix; abel
  · to_matrix; exact Pf.proj_mul_oproj _ _ hG
  · to_matrix; exact Pf.oproj_mul_proj _ _ hG
  · to_matrix; exact Pf.oproj_idem _ _ hG
  · to_matrix; exact Pf.oproj_herm _ _ hG
  · to_matrix; exact Pf.oproj_mul_A _ _ hG

/-- `project` and `oProject` split every matrix: `P M + P⊥ M = M` -/
theorem project_add_oProject (A : Mat K m k) (G : Mat K k k) (M : Mat K m c) :
    madd (project (projWith G A) M) (project (oprojWith G A) M) = M := by
  to_matrix
  rw [Matrix.sub_mul, Matrix.one_mul]; abel

/-- reflecting twice is the identity -/
theorem reflect_involutive (A : Mat K m k) (G : Mat K k k) (hG : matMul G (gram A) = eye) (M : Mat K m c) :
    reflect (projWith G A) (reflect (projWith G A) M) = M := by
  to_matrix at hG
  to_matrix
  exact Pf.reflect_invol _ _ hG _

/-- change of basis: `B = A T` with `T` invertible spans the same subspace and
    has the same projection matrix -/
theorem proj_basis_invariant (A : Mat K m k) (T Ti GA GB : Mat K k k)
    (hT : matMul T Ti = eye) (hGA : matMul GA (gram A) = eye)
    (hGB : matMul GB (gram (matMul A T)) = eye) :
    projWith GB (matMul A T) = projWith GA A := by
  to_matrix at hT
  to_matrix at hGA
  to_matrix at hGB
  to_matrix
  exact Pf.proj_basis _ _ _ _ _ hT hGA hGB

/-- common unitary rotation: `P_{UA} = U P_A Uᴴ` -/
theorem proj_unitary_covariant (A : Mat K m k) (U : Mat K m m) (GA GU : Mat K k k)
    (hU : matMul (cT U) U = eye) (hGA : matMul GA (gram A) = eye)
    (hGU : matMul GU (gram (matMul U A)) = eye) :
    projWith GU (matMul U A) = matMul (matMul U (projWith GA A)) (cT U) := by
  to_matrix at hU
  to_matrix at hGA
  to_matrix at hGU
  to_matrix
  exact Pf.proj_unitary _ _ _ _ hU hGA hGU

end projection

section chordal
variable {K : Type} [CommRing K] [StarRing K] [RSqrt K] [Div K] {m p q : Nat}

/-- the chordal distance is symmetric (both projector-based routines) -/
theorem chordal2_symmetric (GA : Mat K p p) (GB : Mat K q q) (A : Mat K m p) (B : Mat K m q) :
    chordal2 GA GB A B = chordal2 GB GA B A := by
  simp only [chordal2, chordOfProj, frobSq_eq, toM_msub]
  rw [Pf.fro_sub_comm]

theorem chordal_symmetric (Q1 : Mat K m p) (Q2 : Mat K m q) : chordal Q1 Q2 = chordal Q2 Q1 := by
  simp only [chordal, chordOfProj, frobSq_eq, toM_msub]
  rw [Pf.fro_sub_comm]

/-- invariant to a change of basis of either subspace -/
theorem chordal2_basis_invariant (A : Mat K m p) (B : Mat K m q)
    (TA TAi GA GA' : Mat K p p) (TB TBi GB GB' : Mat K q q)
    (hTA : matMul TA TAi = eye) (hTB : matMul TB TBi = eye)
    (hGA : matMul GA (gram A) = eye) (hGB : matMul GB (gram B) = eye)
    (hGA' : matMul GA' (gram (matMul A TA)) = eye) (hGB' : matMul GB' (gram (matMul B TB)) = eye) :
    chordal2 GA' GB' (matMul A TA) (matMul B TB) = chordal2 GA GB A B := by
  simp only [chordal2]
  rw [proj_basis_invariant A TA TAi GA GA' hTA hGA hGA', proj_basis_invariant B TB TBi GB GB' hTB hGB hGB']

/-- invariant to a common unitary rotation -/
theorem chordal2_unitary_invariant (A : Mat K m p) (B : Mat K m q) (U : Mat K m m)
    (GA GA' : Mat K p p) (GB GB' : Mat K q q) (hU : matMul (cT U) U = eye)
    (hGA : matMul GA (gram A) = eye) (hGB : matMul GB (gram B) = eye)
    (hGA' : matMul GA' (gram (matMul U A)) = eye) (hGB' : matMul GB' (gram (matMul U B)) = eye) :
    chordal2 GA' GB' (matMul U A) (matMul U B) = chordal2 GA GB A B := by
  simp only [chordal2]
  rw [proj_unitary_covariant A U GA GA' hU hGA hGA', proj_unitary_covariant B U GB GB' hU hGB hGB']
  simp only [chordOfProj, frobSq_eq, toM_msub, toM_matMul, toM_cT]
  to_matrix at hU
  rw [Pf.fro_unitary_sub _ _ _ hU]

/-- the two projector-based routines agree: under the QR contract
    (`QᴴQ = 1`, `A = Q R`, `R` invertible) `Q Qᴴ` is the projection matrix of `A`,
    hence `calc_chordal_distance = calc_chordal_distance_2` -/
theorem chordal_eq_chordal2 (A Q1 : Mat K m p) (B Q2 : Mat K m q)
    (R1 R1i GA : Mat K p p) (R2 R2i GB : Mat K q q)
    (hQ1 : matMul (cT Q1) Q1 = eye) (hA : A = matMul Q1 R1) (hR1 : matMul R1 R1i = eye)
    (hQ2 : matMul (cT Q2) Q2 = eye) (hB : B = matMul Q2 R2) (hR2 : matMul R2 R2i = eye)
    (hGA : matMul GA (gram A) = eye) (hGB : matMul GB (gram B) = eye) :
    chordal Q1 Q2 = chordal2 GA GB A B := by
  have e1 : matMul Q1 (cT Q1) = projWith GA A := by
    to_matrix at hQ1; to_matrix at hA; to_matrix at hR1; to_matrix at hGA
    to_matrix
    exact Pf.proj_of_qr _ _ _ _ _ hQ1 hA hR1 hGA
  have e2 : matMul Q2 (cT Q2) = projWith GB B := by
    to_matrix at hQ2; to_matrix at hB; to_matrix at hR2; to_matrix at hGB
    to_matrix
    exact Pf.proj_of_qr _ _ _ _ _ hQ2 hB hR2 hGB
  simp only [chordal, chordal2, e1, e2]

end chordal
end PyPhysim.C20
