import PyPhysim.Proofs.C20Complex
import PyPhysim.Proofs.C20SM
import PyPhysim.Proofs.C20Select
import PyPhysim.Proofs.C20Gpcm
import PyPhysim.Proofs.C20EigQR
import PyPhysim.Proofs.C20GmdStep
import PyPhysim.Proofs.C20GmdInvTop
import PyPhysim.Generated.C20Conversion
import PyPhysim.Proofs.C20Robust

/-!
# C20 — subspace and linear-algebra kernels satisfy their defining identities

Property theorems only.  All statements are about the executable model
`PyPhysim.LinAlg` (`Model/C20.lean`), instantiated at an arbitrary commutative
star ring `K` (`ℂ` with conjugation, `ℝ` with the trivial star) or at `ℂ`/`ℝ`
where order or analysis is needed — the correspondence check of
`harness/props/c20.py` ties the same definitions, compiled at binary64, to the
code.

`G` is the value returned by `np.linalg.inv(A_H.dot(A))`; its contract is
`G · (Aᴴ A) = 1` (checked numerically on every case).  Such a `G` exists iff
`A` has full column rank (`inv_contract_of_full_column_rank`).
-/
namespace PyPhysim.C20
open PyPhysim.LinAlg PyPhysim.Proto

section projection
variable {K : Type} [CommRing K] [StarRing K] {m k c : Nat}

/-- the projection matrix is Hermitian -/
theorem proj_hermitian (A : Mat K m k) (G : Mat K k k) (hG : matMul G (gram A) = eye) :
    cT (projWith G A) = projWith G A := by
  to_matrix at hG
  to_matrix
  exact Pf.proj_herm _ _ hG

/-- … and idempotent -/
theorem proj_idempotent (A : Mat K m k) (G : Mat K k k) (hG : matMul G (gram A) = eye) :
    matMul (projWith G A) (projWith G A) = projWith G A := by
  to_matrix at hG
  to_matrix
  exact Pf.proj_idem _ _ hG

/-- … leaves the matrix unchanged (`P A = A`) -/
theorem proj_fixes_A (A : Mat K m k) (G : Mat K k k) (hG : matMul G (gram A) = eye) :
    matMul (projWith G A) A = A := by
  to_matrix at hG
  to_matrix
  exact Pf.proj_mul_A _ _ hG

/-- the residual `x − P x` is orthogonal to every column of `A` (so `P` is *the*
    orthogonal projection onto the column space: `P x = A (G Aᴴ x)` lies in it) -/
theorem proj_residual_orthogonal (A : Mat K m k) (G : Mat K k k) (hG : matMul G (gram A) = eye) :
    matMul (cT A) (oprojWith G A) = fun _ _ => 0 := by
  to_matrix at hG
  to_matrix
  exact Pf.AH_mul_oproj _ _ hG

/-- the orthogonal projection is complementary: `P + P⊥ = 1`, `P P⊥ = P⊥ P = 0`,
    `P⊥` is itself a Hermitian idempotent and annihilates `A` -/
theorem proj_complement (A : Mat K m k) (G : Mat K k k) (hG : matMul G (gram A) = eye) :
    madd (projWith G A) (oprojWith G A) = eye ∧
    matMul (projWith G A) (oprojWith G A) = (fun _ _ => 0) ∧
    matMul (oprojWith G A) (projWith G A) = (fun _ _ => 0) ∧
    matMul (oprojWith G A) (oprojWith G A) = oprojWith G A ∧
    cT (oprojWith G A) = oprojWith G A ∧
    matMul (oprojWith G A) A = (fun _ _ => 0) := by
  to_matrix at hG
  refine ⟨?_, ?_, ?_, ?_, ?_, ?_⟩
  · to_matrix; abel
  · to_matrix; exact Pf.proj_mul_oproj _ _ hG
  · to_matrix; exact Pf.oproj_mul_proj _ _ hG
  · to_matrix; exact Pf.oproj_idem _ _ hG
  · to_matrix; exact Pf.oproj_herm _ _ hG
  · to_matrix; exact Pf.oproj_mul_A _ _ hG

/-- `project` and `oProject` split every matrix: `P M + P⊥ M = M` -/
theorem project_add_oProject (A : Mat K m k) (G : Mat K k k) (M : Mat K m c) :
    madd (project (projWith G A) M) (project (oprojWith G A) M) = M := by
  to_matrix
  rw [Matrix.sub_mul, Matrix.one_mul]; abel

/-- reflecting twice is the identity -/
theorem reflect_involutive (A : Mat K m k) (G : Mat K k k) (hG : matMul G (gram A) = eye) (M : Mat K m c) :
    reflect (projWith G A) (reflect (projWith G A) M) = M := by
  to_matrix at hG
  to_matrix
  exact Pf.reflect_invol _ _ hG _

/-- change of basis: `B = A T` with `T` invertible spans the same subspace and
    has the same projection matrix -/
theorem proj_basis_invariant (A : Mat K m k) (T Ti GA GB : Mat K k k)
    (hT : matMul T Ti = eye) (hGA : matMul GA (gram A) = eye)
    (hGB : matMul GB (gram (matMul A T)) = eye) :
    projWith GB (matMul A T) = projWith GA A := by
  to_matrix at hT
  to_matrix at hGA
  to_matrix at hGB
  to_matrix
  exact Pf.proj_basis _ _ _ _ _ hT hGA hGB

/-- common unitary rotation: `P_{UA} = U P_A Uᴴ` -/
theorem proj_unitary_covariant (A : Mat K m k) (U : Mat K m m) (GA GU : Mat K k k)
    (hU : matMul (cT U) U = eye) (hGA : matMul GA (gram A) = eye)
    (hGU : matMul GU (gram (matMul U A)) = eye) :
    projWith GU (matMul U A) = matMul (matMul U (projWith GA A)) (cT U) := by
  to_matrix at hU
  to_matrix at hGA
  to_matrix at hGU
  to_matrix
  exact Pf.proj_unitary _ _ _ _ hU hGA hGU

/-- R6 (scale): the projection matrix does not depend on the scale of the basis — for every
    invertible scalar `s` (every non-zero real / complex factor, `1e-15` as well as `1e15`)
    `P_{sA} = P_A` -/
theorem proj_scale_invariant (A : Mat K m k) (G G' : Mat K k k) (s si : K) (hs : s * si = 1)
    (hG : matMul G (gram A) = eye) (hG' : matMul G' (gram (smul s A)) = eye) :
    projWith G' (smul s A) = projWith G A := by
  have e : smul s A = matMul A (smul s eye) := by
    to_matrix
    rw [Matrix.mul_smul, Matrix.mul_one]
  have hT : matMul (smul s (eye : Mat K k k)) (smul si eye) = eye := by
    to_matrix
    rw [Matrix.smul_mul, Matrix.mul_smul, Matrix.one_mul, smul_smul, mul_comm, mul_comm si s, hs, one_smul]
  rw [e] at hG' ⊢
  exact proj_basis_invariant A (smul s eye) (smul si eye) G G' hT hG hG'

/-- R5 (boundary): a square invertible basis spans the whole space: `P = 1`, `P⊥ = 0` -/
theorem proj_of_square_invertible (A Ai G : Mat K m m) (hA : matMul A Ai = eye)
    (hG : matMul G (gram A) = eye) :
    projWith G A = eye ∧ oprojWith G A = (fun _ _ => 0) := by
  have h1 := proj_fixes_A A G hG
  have hP : projWith G A = eye := by
    have h2 := congrArg toM h1
    to_matrix at hA
    apply toM_inj
    simp only [toM_matMul, toM_eye] at h2 ⊢
    calc toM (projWith G A) = toM (projWith G A) * (toM A * toM Ai) := by rw [hA, Matrix.mul_one]
      _ = (toM (projWith G A) * toM A) * toM Ai := by rw [Matrix.mul_assoc]
      _ = 1 := by rw [h2, hA]
  refine ⟨hP, ?_⟩
  unfold oprojWith
  rw [hP]
  funext i j
  simp [msub]

/-- R5 (boundary): the empty basis (`k = 0` columns) projects onto `{0}`: `P = 0`, `P⊥ = 1` -/
theorem proj_of_empty_basis (A : Mat K m 0) (G : Mat K 0 0) :
    projWith G A = (fun _ _ => 0) ∧ oprojWith G A = eye := by
  have hP : projWith G A = (fun _ _ => 0) := by
    funext i j
    simp [projWith, matMul, sumFin]
  refine ⟨hP, ?_⟩
  unfold oprojWith
  rw [hP]
  funext i j
  simp [msub]

/-- R12 (order of listing): the subspace does not depend on the order in which the basis
    vectors are listed — permuting the columns of `A` by any permutation `σ` leaves the
    projection matrix unchanged -/
theorem proj_column_order_invariant (A : Mat K m k) (G G' : Mat K k k) (σ : Equiv.Perm (Fin k))
    (hG : matMul G (gram A) = eye) (hG' : matMul G' (gram (fun i j => A i (σ j))) = eye) :
    projWith G' (fun i j => A i (σ j)) = projWith G A := by
  have e : (fun i j => A i (σ j)) = matMul A (fun l j => if l = σ j then (1 : K) else 0) := by
    funext i j
    simp only [matMul, sumFin_eq, mul_ite, mul_one, mul_zero, Finset.sum_ite_eq', Finset.mem_univ, if_true]
  have hT : matMul (fun l j => if l = σ j then (1 : K) else 0) (fun l j => if j = σ l then (1 : K) else 0)
      = (eye : Mat K k k) := by
    funext i j
    simp only [matMul, sumFin_eq, eye]
    rw [Finset.sum_eq_single (σ.symm i)]
    · simp only [Equiv.apply_symm_apply, if_true, one_mul]
      by_cases h : i = j
      · simp [h]
      · have : ¬ j = i := fun e => h e.symm
        simp [h, this]
    · intro l _ hl
      have : ¬ i = σ l := fun e => hl (by rw [e, Equiv.symm_apply_apply])
      simp [this]
    · intro h; exact absurd (Finset.mem_univ _) h
  rw [e] at hG' ⊢
  exact proj_basis_invariant A _ _ G G' hT hG hG'

/-- R8 (equivalent entry points): `Projection.project` / `oProject` / `reflect` are the static
    projection matrices applied to `M`: `reflect M = M − 2 P M = P⊥ M − P M` -/
theorem projection_methods_are_static_results (A : Mat K m k) (G : Mat K k k) (M : Mat K m c) :
    project (projWith G A) M = matMul (projWith G A) M ∧
    project (oprojWith G A) M = msub M (matMul (projWith G A) M) ∧
    reflect (projWith G A) M = msub (project (oprojWith G A) M) (project (projWith G A) M) := by
  refine ⟨rfl, ?_, ?_⟩
  · to_matrix
    rw [Matrix.sub_mul, Matrix.one_mul]
  · to_matrix
    rw [Matrix.sub_mul, Matrix.sub_mul, Matrix.one_mul, Matrix.smul_mul, two_smul]
    abel

end projection

section chordal
variable {K : Type} [CommRing K] [StarRing K] [RSqrt K] [Div K] {m p q : Nat}

/-- the chordal distance is symmetric (both projector-based routines) -/
theorem chordal2_symmetric (GA : Mat K p p) (GB : Mat K q q) (A : Mat K m p) (B : Mat K m q) :
    chordal2 GA GB A B = chordal2 GB GA B A := by
  simp only [chordal2, chordOfProj, frobSq_eq, toM_msub]
  rw [Pf.fro_sub_comm]

theorem chordal_symmetric (Q1 : Mat K m p) (Q2 : Mat K m q) : chordal Q1 Q2 = chordal Q2 Q1 := by
  simp only [chordal, chordOfProj, frobSq_eq, toM_msub]
  rw [Pf.fro_sub_comm]

/-- invariant to a change of basis of either subspace -/
theorem chordal2_basis_invariant (A : Mat K m p) (B : Mat K m q)
    (TA TAi GA GA' : Mat K p p) (TB TBi GB GB' : Mat K q q)
    (hTA : matMul TA TAi = eye) (hTB : matMul TB TBi = eye)
    (hGA : matMul GA (gram A) = eye) (hGB : matMul GB (gram B) = eye)
    (hGA' : matMul GA' (gram (matMul A TA)) = eye) (hGB' : matMul GB' (gram (matMul B TB)) = eye) :
    chordal2 GA' GB' (matMul A TA) (matMul B TB) = chordal2 GA GB A B := by
  simp only [chordal2]
  rw [proj_basis_invariant A TA TAi GA GA' hTA hGA hGA', proj_basis_invariant B TB TBi GB GB' hTB hGB hGB']

/-- invariant to a common unitary rotation -/
theorem chordal2_unitary_invariant (A : Mat K m p) (B : Mat K m q) (U : Mat K m m)
    (GA GA' : Mat K p p) (GB GB' : Mat K q q) (hU : matMul (cT U) U = eye)
    (hGA : matMul GA (gram A) = eye) (hGB : matMul GB (gram B) = eye)
    (hGA' : matMul GA' (gram (matMul U A)) = eye) (hGB' : matMul GB' (gram (matMul U B)) = eye) :
    chordal2 GA' GB' (matMul U A) (matMul U B) = chordal2 GA GB A B := by
  simp only [chordal2]
  rw [proj_unitary_covariant A U GA GA' hU hGA hGA', proj_unitary_covariant B U GB GB' hU hGB hGB']
  simp only [chordOfProj, frobSq_eq, toM_msub, toM_matMul, toM_cT]
  to_matrix at hU
  rw [Pf.fro_unitary_sub _ _ _ hU]

/-- the two projector-based routines agree: under the QR contract
    (`QᴴQ = 1`, `A = Q R`, `R` invertible) `Q Qᴴ` is the projection matrix of `A`,
    hence `calc_chordal_distance = calc_chordal_distance_2` -/
theorem chordal_eq_chordal2 (A Q1 : Mat K m p) (B Q2 : Mat K m q)
    (R1 R1i GA : Mat K p p) (R2 R2i GB : Mat K q q)
    (hQ1 : matMul (cT Q1) Q1 = eye) (hA : A = matMul Q1 R1) (hR1 : matMul R1 R1i = eye)
    (hQ2 : matMul (cT Q2) Q2 = eye) (hB : B = matMul Q2 R2) (hR2 : matMul R2 R2i = eye)
    (hGA : matMul GA (gram A) = eye) (hGB : matMul GB (gram B) = eye) :
    chordal Q1 Q2 = chordal2 GA GB A B := by
  have e1 : matMul Q1 (cT Q1) = projWith GA A := by
    to_matrix at hQ1; to_matrix at hA; to_matrix at hR1; to_matrix at hGA
    to_matrix
    exact Pf.proj_of_qr _ _ _ _ _ hQ1 hA hR1 hGA
  have e2 : matMul Q2 (cT Q2) = projWith GB B := by
    to_matrix at hQ2; to_matrix at hB; to_matrix at hR2; to_matrix at hGB
    to_matrix
    exact Pf.proj_of_qr _ _ _ _ _ hQ2 hB hR2 hGB
  simp only [chordal, chordal2, e1, e2]

/-- R6 (scale): the chordal distance does not depend on the scales of the two bases
    (each may be multiplied by its own invertible factor) -/
theorem chordal2_scale_invariant (A : Mat K m p) (B : Mat K m q) (GA GA' : Mat K p p) (GB GB' : Mat K q q)
    (s si t ti : K) (hs : s * si = 1) (ht : t * ti = 1)
    (hGA : matMul GA (gram A) = eye) (hGB : matMul GB (gram B) = eye)
    (hGA' : matMul GA' (gram (smul s A)) = eye) (hGB' : matMul GB' (gram (smul t B)) = eye) :
    chordal2 GA' GB' (smul s A) (smul t B) = chordal2 GA GB A B := by
  simp only [chordal2]
  rw [proj_scale_invariant A GA GA' s si hs hGA hGA', proj_scale_invariant B GB GB' t ti ht hGB hGB']

end chordal
section complex
open Matrix
variable {m p q r k n : Nat}

/-- "full column rank" is exactly the `inv` contract: a left inverse `G` of `Aᴴ A`
    exists iff `x ↦ A x` is injective (complex matrices) -/
theorem inv_contract_iff_full_column_rank (A : Mat ℂ m k) :
    (∃ G : Mat ℂ k k, matMul G (gram A) = eye) ↔ Function.Injective (toM A).mulVec := by
  constructor
  · rintro ⟨G, hG⟩
    to_matrix at hG
    exact Pf.injective_of_gram_inv _ _ hG
  · intro h
    obtain ⟨G, hG⟩ := Pf.gram_inv_of_injective (toM A) h
    refine ⟨fun i j => G i j, ?_⟩
    apply toM_inj
    rw [toM_matMul, toM_gram, toM_eye]
    exact hG

/-- a projector-based chordal distance is zero exactly when the two projection
    matrices coincide -/
theorem chordOfProj_eq_zero_iff (P1 P2 : Mat ℂ m m) : chordOfProj P1 P2 = 0 ↔ P1 = P2 := by
  unfold chordOfProj
  rw [frobSq_eq]
  show (((Real.sqrt _ : ℝ) : ℂ) / ((Real.sqrt _ : ℝ) : ℂ) = 0) ↔ _
  rw [Pf.csqrt_div_eq_zero_iff, toM_msub]
  constructor
  · intro h
    have h0 := le_antisymm h (Pf.re_fro_nonneg (toM P1 - toM P2))
    have := (Pf.re_fro_eq_zero_iff _).mp h0
    exact toM_inj (sub_eq_zero.mp this)
  · intro h
    subst h
    simp

/-- the distance vanishes exactly for equal subspaces, (⇐): `B = A T` with `T`
    invertible gives distance `0` … -/
theorem chordal2_zero_of_same_span (A : Mat ℂ m p) (T Ti GA GB : Mat ℂ p p)
    (hT : matMul T Ti = eye) (hGA : matMul GA (gram A) = eye)
    (hGB : matMul GB (gram (matMul A T)) = eye) :
    chordal2 GA GB A (matMul A T) = 0 := by
  unfold chordal2
  rw [chordOfProj_eq_zero_iff, proj_basis_invariant A T Ti GA GB hT hGA hGB]

/-- … (⇒): distance `0` forces the same projection matrix, and then each basis is
    the other one times a coefficient matrix (equal column spaces) -/
theorem same_span_of_chordal2_zero (A : Mat ℂ m p) (B : Mat ℂ m q) (GA : Mat ℂ p p) (GB : Mat ℂ q q)
    (hGA : matMul GA (gram A) = eye) (hGB : matMul GB (gram B) = eye)
    (h0 : chordal2 GA GB A B = 0) :
    projWith GA A = projWith GB B ∧
    B = matMul A (matMul (matMul GA (cT A)) B) ∧
    A = matMul B (matMul (matMul GB (cT B)) A) := by
  have hP : projWith GA A = projWith GB B := (chordOfProj_eq_zero_iff _ _).mp h0
  refine ⟨hP, ?_, ?_⟩
  · have h1 := proj_fixes_A B GB hGB
    rw [← hP] at h1
    have h2 := congrArg toM h1
    apply toM_inj
    simp only [toM_matMul, toM_projWith, toM_cT] at h2 ⊢
    rw [← Matrix.mul_assoc, ← Matrix.mul_assoc]; exact h2.symm
  · have h1 := proj_fixes_A A GA hGA
    rw [hP] at h1
    have h2 := congrArg toM h1
    apply toM_inj
    simp only [toM_matMul, toM_projWith, toM_cT] at h2 ⊢
    rw [← Matrix.mul_assoc, ← Matrix.mul_assoc]; exact h2.symm

/-- value of `calc_chordal_distance` from the singular values `s` of `Q1ᴴ Q2`
    (thin SVD contract `Q1ᴴQ2 = U diag(s) Vᴴ`, `UᴴU = 1`, `VᴴV = 1`), any dimensions:
    `d² = (p+q)/2 − Σ sᵢ²` -/
theorem chordal_from_singular_values (Q1 : Mat ℂ m p) (Q2 : Mat ℂ m q) (U : Mat ℂ p r) (V : Mat ℂ q r)
    (s : Fin r → ℝ) (hQ1 : matMul (cT Q1) Q1 = eye) (hQ2 : matMul (cT Q2) Q2 = eye)
    (hU : matMul (cT U) U = eye) (hV : matMul (cT V) V = eye)
    (hsvd : pangleArg Q1 Q2 = matMul (matMul U (diagM (fun i => ((s i : ℝ) : ℂ)))) (cT V)) :
    chordal Q1 Q2 = ((Real.sqrt (((p : ℝ) + (q : ℝ)) / 2 - ∑ i, s i * s i) : ℝ) : ℂ) := by
  to_matrix at hQ1; to_matrix at hQ2; to_matrix at hU; to_matrix at hV; to_matrix at hsvd
  unfold chordal chordOfProj
  rw [frobSq_eq]
  simp only [toM_msub, toM_matMul, toM_cT]
  rw [Pf.fro_proj_svd _ _ _ _ s hQ1 hQ2 hU hV hsvd]
  show (((Real.sqrt _ : ℝ) : ℂ) / ((Real.sqrt _ : ℝ) : ℂ)) = _
  rw [Pf.csqrt_div]
  congr 2
  ring

/-- value of the principal-angle form from the same singular values
    (`0 ≤ sᵢ ≤ 1`): `d² = r − Σ sᵢ²` -/
theorem chordal_from_angles_value (s : Fin r → ℝ) (h0 : ∀ i, 0 ≤ s i) (h1 : ∀ i, s i ≤ 1) :
    chordalFromAngles (principalAngles (List.ofFn s)) = Real.sqrt ((r : ℝ) - ∑ i, s i * s i) := by
  unfold chordalFromAngles
  rw [Pf.sumSinSq_angles r s h0 h1]
  rfl

/-- the singular values handed back by the SVD kernel for `Q1ᴴ Q2` are cosines: under
    the contract they are automatically `≤ 1` (so the clipping `S[S > 1] = 1` only
    absorbs rounding) -/
theorem principal_cosines_le_one (Q1 : Mat ℂ m p) (Q2 : Mat ℂ m q) (U : Mat ℂ p r) (V : Mat ℂ q r)
    (s : Fin r → ℝ) (hQ1 : matMul (cT Q1) Q1 = eye) (hQ2 : matMul (cT Q2) Q2 = eye)
    (hU : matMul (cT U) U = eye) (hV : matMul (cT V) V = eye)
    (hsvd : pangleArg Q1 Q2 = matMul (matMul U (diagM (fun i => ((s i : ℝ) : ℂ)))) (cT V))
    (h0 : ∀ i, 0 ≤ s i) : ∀ i, s i ≤ 1 := by
  to_matrix at hQ1; to_matrix at hQ2; to_matrix at hU; to_matrix at hV; to_matrix at hsvd
  exact Pf.sv_le_one _ _ _ _ s hQ1 hQ2 hU hV hsvd h0

/-- the three chordal-distance routines agree for subspaces of equal dimension:
    principal-angle form = `calc_chordal_distance` (and `= calc_chordal_distance_2`
    by `chordal_eq_chordal2`), for every SVD kernel result satisfying the contract
    `Q1ᴴQ2 = U diag(s) Vᴴ`, `U`, `V` unitary, `s ≥ 0` -/
theorem chordal_eq_angles (Q1 Q2 : Mat ℂ m p) (U V : Mat ℂ p p)
    (s : Fin p → ℝ) (hQ1 : matMul (cT Q1) Q1 = eye) (hQ2 : matMul (cT Q2) Q2 = eye)
    (hU : matMul (cT U) U = eye) (hV : matMul (cT V) V = eye)
    (hsvd : pangleArg Q1 Q2 = matMul (matMul U (diagM (fun i => ((s i : ℝ) : ℂ)))) (cT V))
    (h0 : ∀ i, 0 ≤ s i) :
    chordal Q1 Q2 = ((chordalFromAngles (principalAngles (List.ofFn s)) : ℝ) : ℂ) := by
  have h1 := principal_cosines_le_one Q1 Q2 U V s hQ1 hQ2 hU hV hsvd h0
  rw [chordal_from_singular_values Q1 Q2 U V s hQ1 hQ2 hU hV hsvd, chordal_from_angles_value s h0 h1]
  congr 2
  ring

/-- the whitening matrix turns the covariance into the identity: `Wᴴ C W = 1`
    whenever the orthonormalised eigenvector matrix `Q` and the eigenvalues `L`
    satisfy `QᴴQ = 1`, `C Q = Q diag(L)`, `L` real and positive -/
theorem whitening_identity (C Q : Mat ℂ n n) (L : Fin n → ℂ)
    (hQ : matMul (cT Q) Q = eye) (hC : matMul C Q = matMul Q (diagM L))
    (hL : ∀ i, (L i).im = 0 ∧ 0 < (L i).re) :
    matMul (matMul (cT (whiten L Q)) C) (whiten L Q) = eye := by
  to_matrix at hQ; to_matrix at hC
  unfold whiten
  to_matrix
  exact Pf.whiten_identity _ _ L hQ hC hL

/-- the contract used by `whitening_identity` follows from the contracts of the two
    kernel calls of the repaired code for EVERY Hermitian covariance, repeated
    eigenvalues included: `eig` gives `C V = V diag(L)`, `qr` gives `V = Q R` with `Q`
    unitary and `R` upper triangular and invertible; then `C Q = Q diag(L)` -/
theorem eig_then_qr_contract (C V Q R Ri : Mat ℂ n n) (L : Fin n → ℂ)
    (hCh : cT C = C) (hCV : matMul C V = matMul V (diagM L)) (hV : V = matMul Q R)
    (hQ : matMul (cT Q) Q = eye) (hR : ∀ i j : Fin n, j < i → R i j = 0) (hRi : matMul R Ri = eye) :
    matMul C Q = matMul Q (diagM L) := by
  to_matrix at hCh; to_matrix at hCV; to_matrix at hV; to_matrix at hQ; to_matrix at hRi
  to_matrix
  exact Pf.eig_qr_contract _ _ _ _ _ L hCh hCV hV hQ (fun i j hij => hR i j hij) hRi

/-- hence: for every Hermitian `C` whose `eig`/`qr` results satisfy their contracts with
    real positive eigenvalues, `calc_whitening_matrix` whitens: `Wᴴ C W = 1` -/
theorem whitening_identity_of_kernels (C V Q R Ri : Mat ℂ n n) (L : Fin n → ℂ)
    (hCh : cT C = C) (hCV : matMul C V = matMul V (diagM L)) (hV : V = matMul Q R)
    (hQ : matMul (cT Q) Q = eye) (hR : ∀ i j : Fin n, j < i → R i j = 0) (hRi : matMul R Ri = eye)
    (hL : ∀ i, (L i).im = 0 ∧ 0 < (L i).re) :
    matMul (matMul (cT (whiten L Q)) C) (whiten L Q) = eye :=
  whitening_identity C Q L hQ (eig_then_qr_contract C V Q R Ri L hCh hCV hV hQ hR hRi) hL

end complex

section sherman_morrison
variable {K : Type} [Field K] {n : Nat}

/-- one Sherman–Morrison step: a left inverse of `A` is turned into a left inverse
    of `A + d·eᵢeᵢᵀ` whenever the pivot `1 + d·invᵢᵢ` is non-zero -/
theorem sherman_morrison_step (A inv : Mat K n n) (i : Fin n) (d : K)
    (h : matMul inv A = eye) (hp : 1 + d * inv i i ≠ 0) :
    matMul (smStep inv i d) (madd A (diagM (fun j => if j = i then d else 0))) = eye := by
  to_matrix at h
  to_matrix
  have : (fun j => if j = i then d else 0) = (Pi.single i d : Fin n → K) := by
    funext j; simp [Pi.single_apply]
  rw [this]
  exact Pf.sm_step _ _ i d h hp

/-- the diagonal-update inverse equals the true inverse: for every `A`, every
    left inverse `invA`, every diagonal of length `≤ n` (shorter ones leave the
    remaining entries untouched) whose pivots are non-zero, `update_inv_sum_diag`
    returns without error the two-sided inverse of `A + D` -/
theorem update_inv_sum_diag_correct (A invA : Mat K n n) (diagonal : List K)
    (h : matMul invA A = eye) (hlen : diagonal.length ≤ n)
    (hp : ∀ x ∈ uisdPivots 0 diagonal invA, x ≠ 0) :
    ∃ B, updateInvSumDiag invA diagonal = .ok B ∧ matMul B (madd A (diagFrom 0 diagonal)) = eye ∧
      matMul (madd A (diagFrom 0 diagonal)) B = eye := by
  to_matrix at h
  obtain ⟨B, hB, hinv⟩ := Pf.uisdGo_correct diagonal 0 invA A h (by omega) hp
  refine ⟨B, hB, ?_, ?_⟩
  · to_matrix
    exact hinv
  · to_matrix
    exact _root_.mul_eq_one_comm.mp hinv

/-- the pivot hypothesis is implied by the natural one: if every partial sum
    `A + diag(d₀ … d_k, 0 …)` has a left inverse, the result is the inverse of `A + D` -/
theorem update_inv_sum_diag_of_invertible_partial_sums (A invA : Mat K n n) (diagonal : List K)
    (h : matMul invA A = eye) (hlen : diagonal.length ≤ n)
    (hpart : ∀ k, k < diagonal.length →
      ∃ B : Mat K n n, matMul B (madd A (diagFrom 0 (diagonal.take (k + 1)))) = eye) :
    ∃ B, updateInvSumDiag invA diagonal = .ok B ∧ matMul B (madd A (diagFrom 0 diagonal)) = eye ∧
      matMul (madd A (diagFrom 0 diagonal)) B = eye := by
  refine update_inv_sum_diag_correct A invA diagonal h hlen ?_
  have h' := h
  to_matrix at h'
  refine Pf.uisd_pivots_of_partial diagonal 0 invA A h' (by omega) (fun k hk => ?_)
  obtain ⟨B, hB⟩ := hpart k hk
  to_matrix at hB
  exact ⟨toM B, hB⟩

/-- a diagonal longer than the matrix is rejected with numpy's `IndexError` -/
theorem update_inv_sum_diag_index_error (invA : Mat K n n) (diagonal : List K) (hlen : n < diagonal.length) :
    updateInvSumDiag invA diagonal = .error .IndexError :=
  Pf.uisdGo_error diagonal 0 invA (Nat.zero_le n) (by omega)

end sherman_morrison

section selectors
variable {β : Type} [Preorder β]

/-- `peig`/`leig` reject `n > ncols` with `ValueError` -/
theorem eig_selectors_reject {α : Type} {r c : Nat} (D : Fin c → α) (V : Mat α r c) (perm : List Nat) (n : Nat)
    (h : c < n) :
    peig D V perm n = .error .ValueError ∧ leig D V perm n = .error .ValueError := by
  simp [peig, leig, peigIdx, leigIdx, h, bind, Except.bind]

/-- `peig` keeps the indexes of the `n` largest values, largest first: for every
    `argsort` result satisfying its contract the kept index list has length `n`, no
    repetition, non-increasing values, and every index left out has a value `≤`
    every kept one -/
theorem peig_selects_largest (val : Nat → β) {c n : Nat} {perm : List Nat}
    (h : ArgsortContract val c perm) (hn : n ≤ c) :
    ∃ idx, peigIdx c n perm = .ok idx ∧ idx.length = n ∧ idx.Nodup ∧ (∀ i ∈ idx, i < c) ∧
      idx.Pairwise (fun a b => val b ≤ val a) ∧
      (∀ i ∈ idx, ∀ j, j < c → j ∉ idx → val j ≤ val i) :=
  Pf.peigIdx_spec val h hn

/-- `leig` keeps the indexes of the `n` smallest values, smallest first -/
theorem leig_selects_smallest (val : Nat → β) {c n : Nat} {perm : List Nat}
    (h : ArgsortContract val c perm) (hn : n ≤ c) :
    ∃ idx, leigIdx c n perm = .ok idx ∧ idx.length = n ∧ idx.Nodup ∧ (∀ i ∈ idx, i < c) ∧
      idx.Pairwise (fun a b => val a ≤ val b) ∧
      (∀ i ∈ idx, ∀ j, j < c → j ∉ idx → val i ≤ val j) :=
  Pf.leigIdx_spec val h hn

/-- what `peig` returns: position by position the column `V[:, idx[t]]` with the
    eigenvalue `D[idx[t]]` for the kept indexes, and every returned pair is an
    eigenpair of `A` when the kernel result satisfies `A V = V diag(D)` -/
theorem peig_returns_eigenpairs {K : Type} [CommRing K] {c n : Nat} (A V : Mat K c c) (D : Fin c → K)
    (val : Nat → β) {perm : List Nat} (hperm : ArgsortContract val c perm) (hn : n ≤ c)
    (hAV : matMul A V = matMul V (diagM D)) :
    ∃ idx pairs, peigIdx c n perm = .ok idx ∧ peig D V perm n = .ok pairs ∧
      List.Forall₂ (fun pr j => ∃ hj : j < c, pr = ((fun i => V i ⟨j, hj⟩), D ⟨j, hj⟩)) pairs idx ∧
      ∀ pr ∈ pairs, mulVec A pr.1 = fun i => pr.2 * pr.1 i := by
  obtain ⟨idx, hidx, _, _, hlt, _, _⟩ := Pf.peigIdx_spec val hperm hn
  obtain ⟨pairs, hpairs⟩ := Pf.selectPairs_ok V D idx hlt
  refine ⟨idx, pairs, hidx, by simp [peig, hidx, hpairs, bind, Except.bind],
    Pf.selectPairs_forall2 V D idx pairs hpairs, ?_⟩
  intro pr hpr
  obtain ⟨_, hm⟩ := Pf.selectPairs_mem V D idx pairs hpairs
  obtain ⟨j, hj, _, rfl⟩ := hm pr hpr
  have hAV' := congrArg toM hAV
  simp only [toM_matMul, toM_diagM] at hAV'
  funext i
  simp only [mulVec, sumFin_eq]
  exact Pf.eigen_column _ _ D hAV' ⟨j, hj⟩ i

/-- the same for `leig` -/
theorem leig_returns_eigenpairs {K : Type} [CommRing K] {c n : Nat} (A V : Mat K c c) (D : Fin c → K)
    (val : Nat → β) {perm : List Nat} (hperm : ArgsortContract val c perm) (hn : n ≤ c)
    (hAV : matMul A V = matMul V (diagM D)) :
    ∃ idx pairs, leigIdx c n perm = .ok idx ∧ leig D V perm n = .ok pairs ∧
      List.Forall₂ (fun pr j => ∃ hj : j < c, pr = ((fun i => V i ⟨j, hj⟩), D ⟨j, hj⟩)) pairs idx ∧
      ∀ pr ∈ pairs, mulVec A pr.1 = fun i => pr.2 * pr.1 i := by
  obtain ⟨idx, hidx, _, _, hlt, _, _⟩ := Pf.leigIdx_spec val hperm hn
  obtain ⟨pairs, hpairs⟩ := Pf.selectPairs_ok V D idx hlt
  refine ⟨idx, pairs, hidx, by simp [leig, hidx, hpairs, bind, Except.bind],
    Pf.selectPairs_forall2 V D idx pairs hpairs, ?_⟩
  intro pr hpr
  obtain ⟨_, hm⟩ := Pf.selectPairs_mem V D idx pairs hpairs
  obtain ⟨j, hj, _, rfl⟩ := hm pr hpr
  have hAV' := congrArg toM hAV
  simp only [toM_matMul, toM_diagM] at hAV'
  funext i
  simp only [mulVec, sumFin_eq]
  exact Pf.eigen_column _ _ D hAV' ⟨j, hj⟩ i

/-- `least_right_singular_vectors`: `V0` and `V1` together are all right singular
    vectors exactly once (in reversed order), `V0` has `min n c` columns, and with
    non-increasing singular values (one per column, zero beyond the rank) every
    column of `V0` has a singular value `≤` every column of `V1` -/
theorem least_rsv_split (sig : Nat → β) (c n : Nat) :
    (lrsvIdx c n).1 ++ (lrsvIdx c n).2 = (List.range c).reverse ∧
    (lrsvIdx c n).1.length = min n c ∧
    ((∀ a b, a ≤ b → b < c → sig b ≤ sig a) →
      ∀ a ∈ (lrsvIdx c n).1, ∀ b ∈ (lrsvIdx c n).2, sig a ≤ sig b) :=
  ⟨Pf.lrsvIdx_append c n, Pf.lrsvIdx_length c n, Pf.lrsvIdx_least sig c n⟩

/-- the third result: never an error (the singular values are padded to one per
    column), and entry `t` is the singular value of column `idx1[t]` of `V1`
    (zero for a column beyond the `min(m, c)` singular values) -/
theorem least_rsv_values {α : Type} [Zero α] (S : List α) (c n : Nat) (hS : S.length ≤ c) :
    ∃ out, lrsvS S c n = .ok out ∧
      out.map some = (lrsvIdx c n).2.map (fun j => some (if h : j < S.length then S[j] else 0)) := by
  have hlt : ∀ j ∈ (lrsvIdx c n).2, j < (padS S c).length := by
    intro j hj
    rw [Pf.padS_length S c hS]
    have : j ∈ (List.range c).reverse := by
      rw [← Pf.lrsvIdx_append c n]; exact List.mem_append_right _ hj
    simpa using this
  obtain ⟨out, hout, hmap⟩ := Pf.pick_ok (padS S c) _ hlt
  refine ⟨out, hout, ?_⟩
  rw [hmap]
  apply List.map_congr_left
  intro j hj
  have hjc : j < c := by have := hlt j hj; rwa [Pf.padS_length S c hS] at this
  exact Pf.padS_getElem? S c j hjc

/-- what the columns are: for a full SVD `A = U Σ Vᴴ` with `Vᴴ` unitary, `A V = U Σ`;
    in particular a right singular vector beyond the `min(m, c)` singular values
    (the extra columns of a wide matrix, always in `V0`) lies in the null space -/
theorem right_singular_vectors {K : Type} [CommRing K] [StarRing K] {m c : Nat} (A : Mat K m c) (U : Mat K m m)
    (S : Fin (min m c) → K) (VH : Mat K c c)
    (hA : A = matMul (matMul U (sigmaMat S)) VH) (hV : matMul VH (cT VH) = eye) :
    matMul A (cT VH) = matMul U (sigmaMat S) ∧
    ∀ j : Fin c, min m c ≤ j.val → ∀ i, matMul A (cT VH) i j = 0 := by
  to_matrix at hA; to_matrix at hV
  have h1 : matMul A (cT VH) = matMul U (sigmaMat S) := by
    to_matrix
    exact Pf.svd_right _ _ _ _ hA hV
  refine ⟨h1, fun j hj i => ?_⟩
  rw [h1]
  simp only [matMul, sumFin_eq]
  refine Finset.sum_eq_zero (fun a _ => ?_)
  have : a.val ≠ j.val := by
    intro e
    have : j.val < min m c := Nat.lt_min.mpr ⟨e ▸ a.isLt, j.isLt⟩
    omega
  simp [sigmaMat, this]

/-- `get_principal_component_matrix(A, k)` is the first `k` columns of the
    truncated SVD `U Σ_k Vᴴ` (`Σ_k` keeps the `k` largest singular values) -/
theorem gpcm_is_truncated_svd {K : Type} [CommRing K] {m c : Nat} (U : Mat K m m) (S : Fin (min m c) → K)
    (VH : Mat K c c) (k : Nat) (hk : k ≤ c) (i : Fin m) (j : Fin k) :
    gpcm U S VH k hk i j
      = matMul U (matMul (sigmaMat (m := m) (fun b => if b.val < k then S b else 0)) VH) i
          ⟨j.val, Nat.lt_of_lt_of_le j.isLt hk⟩ :=
  Pf.gpcm_eq_trunc U S VH k hk i j

/-- keeping every component gives the matrix back (SVD contract `A = U Σ Vᴴ`) -/
theorem gpcm_all_components {K : Type} [CommRing K] {m c : Nat} (A : Mat K m c) (U : Mat K m m)
    (S : Fin (min m c) → K) (VH : Mat K c c) (hA : A = matMul U (matMul (sigmaMat S) VH)) :
    gpcm U S VH c (Nat.le_refl c) = A := by
  funext i j
  rw [Pf.gpcm_all, hA]

/-- the dead dimensions are removed: the result has no component along the left
    singular vectors `u_r`, `r ≥ k` -/
theorem gpcm_dead_dimensions {K : Type} [CommRing K] [StarRing K] {m c : Nat} (U : Mat K m m)
    (S : Fin (min m c) → K) (VH : Mat K c c) (k : Nat) (hk : k ≤ c) (hU : matMul (cT U) U = eye)
    (r : Fin m) (j : Fin k) (hr : k ≤ r.val) :
    matMul (cT U) (gpcm U S VH k hk) r j = 0 :=
  Pf.gpcm_dead U S VH k hk hU r j hr

/-- R8 (equivalent entry points): `peig(A, n)` is `leig(A, ncols)` reversed and cut to `n`
    (same kernel results), for every `argsort` result of the right length -/
theorem peig_is_leig_reversed (c n : Nat) (perm : List Nat) (hlen : perm.length = c) (hn : n ≤ c) :
    leigIdx c c perm = .ok perm ∧ peigIdx c n perm = .ok (perm.reverse.take n) := by
  refine ⟨?_, ?_⟩
  · simp [leigIdx, ← hlen]
  · simp [peigIdx, Nat.not_lt.mpr hn]

end selectors

section conversions

/-- TIE TO SOURCE: the definitions re-emitted from the current
    `pyphysim/util/conversion.py` (`Generated/C20Conversion.lean`) are, for every scalar
    type, the model functions the conversion theorems below are about -/
theorem generated_conversions_normal_form {ρ : Type} [Add ρ] [Sub ρ] [Mul ρ] [Div ρ] [OfNat ρ 10]
    [OfNat ρ 1000] [Transc ρ] :
    (∀ x : ρ, Generated.C20.dB2Linear x = dB2Linear x) ∧
    (∀ x : ρ, Generated.C20.linear2dB x = linear2dB x) ∧
    (∀ x : ρ, Generated.C20.dBm2Linear x = dBm2Linear x) ∧
    (∀ x : ρ, Generated.C20.linear2dBm x = linear2dBm x) ∧
    (∀ x b : ρ, Generated.C20.SNR_dB_to_EbN0_dB x b = snrToEbN0 x b) ∧
    (∀ x b : ρ, Generated.C20.EbN0_dB_to_SNR_dB x b = ebN0ToSnr x b) :=
  ⟨fun _ => rfl, fun _ => rfl, fun _ => rfl, fun _ => rfl, fun _ _ => rfl, fun _ _ => rfl⟩

/-- dB → linear → dB is the identity on every real; linear → dB → linear on
    every positive real -/
theorem db_linear_inverse :
    (∀ y : ℝ, linear2dB (dB2Linear y) = y) ∧ (∀ x : ℝ, 0 < x → dB2Linear (linear2dB x) = x) := by
  constructor
  · intro y
    show 10 * Real.logb 10 ((10 : ℝ) ^ (y / 10)) = y
    rw [Pf.log10_pow10]; ring
  · intro x hx
    show (10 : ℝ) ^ (10 * Real.logb 10 x / 10) = x
    rw [mul_div_cancel_left₀ _ (by norm_num : (10 : ℝ) ≠ 0), Pf.pow10_log10 x hx]

/-- the same for dBm -/
theorem dbm_linear_inverse :
    (∀ y : ℝ, linear2dBm (dBm2Linear y) = y) ∧ (∀ x : ℝ, 0 < x → dBm2Linear (linear2dBm x) = x) := by
  constructor
  · intro y
    show 10 * Real.logb 10 ((10 : ℝ) ^ (y / 10) / 1000 * 1000) = y
    rw [div_mul_cancel₀ _ (by norm_num : (1000 : ℝ) ≠ 0), Pf.log10_pow10]; ring
  · intro x hx
    show (10 : ℝ) ^ (10 * Real.logb 10 (x * 1000) / 10) / 1000 = x
    rw [mul_div_cancel_left₀ _ (by norm_num : (10 : ℝ) ≠ 0), Pf.pow10_log10 _ (by positivity)]
    field_simp

/-- dBm is dB shifted by 30 (a factor 1000) -/
theorem dbm_is_db_plus_30 (x : ℝ) (hx : 0 < x) : linear2dBm x = linear2dB x + 30 := by
  show 10 * Real.logb 10 (x * 1000) = 10 * Real.logb 10 x + 30
  rw [Real.logb_mul hx.ne' (by norm_num)]
  have : Real.logb 10 1000 = 3 := by
    rw [show (1000 : ℝ) = (10 : ℝ) ^ (3 : ℝ) by norm_num]
    exact Pf.log10_pow10 3
  rw [this]; ring

/-- SNR ↔ Eb/N0 conversions are mutually inverse (every real, every `bits`), and
    Eb/N0 is the SNR per bit: `EbN0 = SNR / bits` in linear scale -/
theorem ebn0_snr_inverse (v b : ℝ) :
    ebN0ToSnr (snrToEbN0 v b) b = v ∧ snrToEbN0 (ebN0ToSnr v b) b = v := by
  constructor
  · show v - 10 * Real.logb 10 b + 10 * Real.logb 10 b = v; ring
  · show v + 10 * Real.logb 10 b - 10 * Real.logb 10 b = v; ring

theorem ebn0_is_snr_per_bit (snr b : ℝ) (hs : 0 < snr) (hb : 0 < b) :
    snrToEbN0 (linear2dB snr) b = linear2dB (snr / b) := by
  show 10 * Real.logb 10 snr - 10 * Real.logb 10 b = 10 * Real.logb 10 (snr / b)
  rw [Real.logb_div hs.ne' hb.ne']; ring

/-- R8 (equivalent entry points): the dBm functions are the dB functions with a factor 1000,
    and the Eb/N0 conversions are the SNR shifted by `linear2dB(bits)` — by definition -/
theorem conversion_entry_points_agree (x y b : ℝ) :
    linear2dBm x = linear2dB (x * 1000) ∧ dBm2Linear y = dB2Linear y / 1000 ∧
    snrToEbN0 y b = y - linear2dB b ∧ ebN0ToSnr y b = y + linear2dB b :=
  ⟨rfl, rfl, rfl, rfl⟩

end conversions

section gmd

/-- FULL STATEMENT of the geometric-mean-decomposition clause (real case), about the
    executable model `gmd` of `Model/C20Gmd.lean` (arrays, `Except PyErr`, statement by statement
    the code of `util.misc.gmd`): for every full SVD with positive non-increasing singular values
    and `σ̄` their geometric mean, the sweep raises nothing (every array access is in range) and
    returns `Q, R, P` with `Q R Pᵀ = U Σ Vᵀ`, orthonormal `Q`, `P`, upper-triangular `R` with
    constant diagonal `σ̄`.  PROVED: `gmd_correct`. -/
def GmdStatement : Prop :=
  ∀ (m n : Nat) (U : Mat ℝ m m) (V : Mat ℝ n n) (S : Fin (min m n) → ℝ) (sb : ℝ),
    0 < min m n → matMul (cT U) U = eye → matMul (cT V) V = eye →
    (∀ i, 0 < S i) → (∀ i j, i ≤ j → S j ≤ S i) → 0 < sb → sb ^ (min m n) = ∏ i, S i →
    ∃ Q R P mg, gmd m n (min m n) sb (colsOf U) (Array.ofFn S) (colsOf V) = .ok (Q, R, P, mg) ∧
      (let Qm : Mat ℝ m m := fun i j => entryCols Q i.val j.val
       let Rm : Mat ℝ m n := fun i j => entryRows R i.val j.val
       let Pm : Mat ℝ n n := fun i j => entryCols P i.val j.val
       matMul (matMul Qm Rm) (cT Pm) = matMul (matMul U (sigmaMat S)) (cT V) ∧
       matMul (cT Qm) Qm = eye ∧ matMul (cT Pm) Pm = eye ∧
       (∀ i j, j.val < i.val → Rm i j = 0) ∧
       (∀ i j, i.val = j.val → i.val < min m n → Rm i j = sb))

/-- THE GEOMETRIC MEAN DECOMPOSITION IS CORRECT (real case; all sizes `m × n`, any number of
    singular values).  Proof (`Proofs/C20GmdInv*.lean`): loop invariant after `k` iterations —
    `Q`, `P` have orthonormal columns and `A·P = Q·R_k`, where `R_k` is the stored `R` in its
    first `k` columns, `(z[0:k], d[k])` in column `k`, `d[b]` on the diagonal for `k < b < p`
    (`MInv`); the unused singular values are the ranks `large … small`, `perm`/`invperm` are
    mutually inverse between these ranks and the positions `k < q < p` of `d`, and
    `d[k] · ∏ S[large..small] = σ̄^(p−k)` (`BInv`).  The product invariant forces a partner on the
    other side of `σ̄` (`pick_small_cs`, `pick_large_cs`; the `flag` branch is taken only when
    `d[k] = σ̄`, never when `d[k] < σ̄`), so the rotation parameters satisfy `c² + s² = 1`,
    `c² δ1² + s² δ2² = σ̄²`, from which the step algebra follows (`MInv.rot`, `BInv.step`).  The
    invariant holds initially by the SVD contract (`init_inv`), is preserved (`Inv.step`), implies
    that every index read is in range (`Inv.bounds`), and at `k = p − 1` gives the five
    conclusions (`Inv.final`).  The array / `Except` model refines the abstract step
    (`gmdStep_refines`, `sweep_ok`, `finish_ok`).  The whole proof is carried out once for a field
    of scalars containing the reals (`GmdInv.RealLike`); this is the instance `K = ℝ`.
    Complex matrices: `gmd_correct_complex`; any tolerance: `gmd_correct_truncated`. -/
theorem gmd_correct : GmdStatement :=
  fun m n U V S sb hp hU hV hS hmono hsb hprod =>
    GmdInv.gmd_sound GmdInv.realLike_real m n U V S sb hp hU hV hS hmono hsb hprod

/-- FULL STATEMENT of the geometric-mean-decomposition clause for COMPLEX matrices: the same
    executable model `gmd`, instantiated at `ℂ` exactly as the compiled driver instantiates it at
    its binary64 complex type (`RSqrt ℂ` = real square root of the real part, `≤` = comparison of
    the real parts, `GmdInv.leRe`; the singular values and `σ̄` enter as real numbers embedded in
    `ℂ`, as in the code, whose `d`, `z`, `R` are real arrays).  For every full SVD `A = U Σ Vᴴ` with
    unitary `U`, `V`, positive non-increasing singular values and `σ̄` their geometric mean the
    sweep raises nothing and returns `Q, R, P` with `Q R Pᴴ = U Σ Vᴴ`, `Qᴴ Q = 1`, `Pᴴ P = 1`,
    upper-triangular `R` with constant diagonal `σ̄`.  PROVED: `gmd_correct_complex`. -/
def GmdStatementComplex : Prop :=
  ∀ (m n : Nat) (U : Mat ℂ m m) (V : Mat ℂ n n) (S : Fin (min m n) → ℝ) (sb : ℝ),
    0 < min m n → matMul (cT U) U = eye → matMul (cT V) V = eye →
    (∀ i, 0 < S i) → (∀ i j, i ≤ j → S j ≤ S i) → 0 < sb → sb ^ (min m n) = ∏ i, S i →
    ∃ Q R P mg, @gmd ℂ _ _ _ _ _ _ _ _ GmdInv.leRe GmdInv.decLeRe m n (min m n) (sb : ℂ) (colsOf U)
        (Array.ofFn (fun i => ((S i : ℝ) : ℂ))) (colsOf V) = .ok (Q, R, P, mg) ∧
      (let Qm : Mat ℂ m m := fun i j => entryCols Q i.val j.val
       let Rm : Mat ℂ m n := fun i j => entryRows R i.val j.val
       let Pm : Mat ℂ n n := fun i j => entryCols P i.val j.val
       matMul (matMul Qm Rm) (cT Pm) = matMul (matMul U (sigmaMat (fun i => ((S i : ℝ) : ℂ)))) (cT V) ∧
       matMul (cT Qm) Qm = eye ∧ matMul (cT Pm) Pm = eye ∧
       (∀ i j, j.val < i.val → Rm i j = 0) ∧
       (∀ i j, i.val = j.val → i.val < min m n → Rm i j = (sb : ℂ)))

/-- THE GEOMETRIC MEAN DECOMPOSITION IS CORRECT FOR COMPLEX MATRICES.  The proof of
    `gmd_correct` is carried out once, for every field `K` with conjugation that contains the
    reals such that conjugation, `sqrt` and `≤` restricted to the reals are the real ones
    (`GmdInv.RealLike`); `ℝ` and `ℂ` are the two instances (`realLike_real`, `realLike_complex`).
    Orthonormality is with respect to the Hermitian inner product; the rotations `G1`, `G2` are
    real, so they commute with conjugation (`Orth.rot`). -/
theorem gmd_correct_complex : GmdStatementComplex :=
  fun m n U V S sb hp hU hV hS hmono hsb hprod =>
    @GmdInv.gmd_sound ℂ _ _ _ GmdInv.leRe GmdInv.decLeRe Complex.ofRealHom GmdInv.realLike_complex
      m n U V S sb hp hU hV hS hmono hsb hprod

/-- EVERY TOLERANCE (`tol > 0` drops the singular values below it: `p = #{S ≥ tol} ≤ min m n` are
    in use).  If the first `p` singular values are positive and non-increasing and `σ̄^p` is their
    product, the sweep on `p` values raises nothing and returns `Q, R, P` with
    `Q R Pᵀ = U Σ_p Vᵀ` — the rank-`p` truncation of `A`: the singular values beyond the first `p`
    replaced by zero (whatever they are: they are never read) —, orthonormal `Q`, `P`,
    upper-triangular `R` with `σ̄` on the first `p` diagonal entries.  `gmd_correct` is the case
    `p = min m n`. -/
theorem gmd_correct_truncated (m n : Nat) (U : Mat ℝ m m) (V : Mat ℝ n n) (S : Fin (min m n) → ℝ)
    (sb : ℝ) (p : Nat) (hp : 0 < p) (hpmn : p ≤ min m n)
    (hU : matMul (cT U) U = eye) (hV : matMul (cT V) V = eye)
    (hS : ∀ i : Fin (min m n), i.val < p → 0 < S i)
    (hmono : ∀ i j : Fin (min m n), i ≤ j → j.val < p → S j ≤ S i) (hsb : 0 < sb)
    (hprod : sb ^ p = ∏ i : Fin (min m n), if i.val < p then S i else 1) :
    ∃ Q R P mg, gmd m n p sb (colsOf U) (Array.ofFn S) (colsOf V) = .ok (Q, R, P, mg) ∧
      (let Qm : Mat ℝ m m := fun i j => entryCols Q i.val j.val
       let Rm : Mat ℝ m n := fun i j => entryRows R i.val j.val
       let Pm : Mat ℝ n n := fun i j => entryCols P i.val j.val
       matMul (matMul Qm Rm) (cT Pm)
         = matMul (matMul U (sigmaMat (fun i => if i.val < p then S i else 0))) (cT V) ∧
       matMul (cT Qm) Qm = eye ∧ matMul (cT Pm) Pm = eye ∧
       (∀ i j, j.val < i.val → Rm i j = 0) ∧
       (∀ i j, i.val = j.val → i.val < p → Rm i j = sb)) :=
  GmdInv.gmd_sound_p GmdInv.realLike_real m n U V S sb p hp hpmn hU hV hS hmono hsb
    (hprod.trans (GmdInv.prod_trunc S p hpmn))

/-- the same for complex matrices -/
theorem gmd_correct_truncated_complex (m n : Nat) (U : Mat ℂ m m) (V : Mat ℂ n n)
    (S : Fin (min m n) → ℝ) (sb : ℝ) (p : Nat) (hp : 0 < p) (hpmn : p ≤ min m n)
    (hU : matMul (cT U) U = eye) (hV : matMul (cT V) V = eye)
    (hS : ∀ i : Fin (min m n), i.val < p → 0 < S i)
    (hmono : ∀ i j : Fin (min m n), i ≤ j → j.val < p → S j ≤ S i) (hsb : 0 < sb)
    (hprod : sb ^ p = ∏ i : Fin (min m n), if i.val < p then S i else 1) :
    ∃ Q R P mg, @gmd ℂ _ _ _ _ _ _ _ _ GmdInv.leRe GmdInv.decLeRe m n p (sb : ℂ) (colsOf U)
        (Array.ofFn (fun i => ((S i : ℝ) : ℂ))) (colsOf V) = .ok (Q, R, P, mg) ∧
      (let Qm : Mat ℂ m m := fun i j => entryCols Q i.val j.val
       let Rm : Mat ℂ m n := fun i j => entryRows R i.val j.val
       let Pm : Mat ℂ n n := fun i j => entryCols P i.val j.val
       matMul (matMul Qm Rm) (cT Pm)
         = matMul (matMul U (sigmaMat (fun i => (((if i.val < p then S i else 0 : ℝ)) : ℂ)))) (cT V) ∧
       matMul (cT Qm) Qm = eye ∧ matMul (cT Pm) Pm = eye ∧
       (∀ i j, j.val < i.val → Rm i j = 0) ∧
       (∀ i j, i.val = j.val → i.val < p → Rm i j = (sb : ℂ))) :=
  @GmdInv.gmd_sound_p ℂ _ _ _ GmdInv.leRe GmdInv.decLeRe Complex.ofRealHom GmdInv.realLike_complex
    m n U V S sb p hp hpmn hU hV hS hmono hsb (hprod.trans (GmdInv.prod_trunc S p hpmn))

/-- the value the code passes as `sigma_bar`, `math.exp(np.mean(np.log(S[0:p])))`, read over the
    reals, is positive and its `p`-th power is the product of the singular values in use — the
    hypothesis on `σ̄` of `gmd_correct` / `gmd_correct_truncated` -/
theorem gmd_sigma_bar_is_geometric_mean (p : Nat) (S : Fin p → ℝ) (hp : 0 < p) (hS : ∀ i, 0 < S i) :
    0 < Real.exp ((∑ i, Real.log (S i)) / p) ∧
    Real.exp ((∑ i, Real.log (S i)) / p) ^ p = ∏ i, S i :=
  ⟨Real.exp_pos _, GmdInv.exp_mean_log_pow p S hp hS⟩

/-- the existence of a straddling partner, stated on its own: if the pivot `d[k] ≥ σ̄` and
    `d[k] · ∏ S[lo..hi) = σ̄^(hi−lo+1)` with positive `S`, the smallest remaining value `S sm` is
    either `< σ̄` (a rotation with well-defined parameters) or the pivot already equals `σ̄`
    (`flag`: `c = 1, s = 0` is then exact); in both cases `c² + s² = 1`, `c² d[k]² + s² (S sm)² = σ̄²` -/
theorem gmd_partner_small (S : Nat → ℝ) (sb dk : ℝ) (lo hi sm : Nat) (hsb : 0 < sb)
    (Spos : ∀ r ∈ Finset.Ico lo hi, 0 < S r) (hmin : ∀ r ∈ Finset.Ico lo hi, S sm ≤ S r)
    (hsm : sm ∈ Finset.Ico lo hi)
    (hprod : dk * ∏ r ∈ Finset.Ico lo hi, S r = sb ^ (hi - lo + 1)) (hge : sb ≤ dk) :
    (gmdCS (decide (sb ≤ S sm)) sb dk (S sm)).1 ^ 2 + (gmdCS (decide (sb ≤ S sm)) sb dk (S sm)).2 ^ 2 = 1 ∧
    (gmdCS (decide (sb ≤ S sm)) sb dk (S sm)).1 ^ 2 * dk ^ 2 +
      (gmdCS (decide (sb ≤ S sm)) sb dk (S sm)).2 ^ 2 * S sm ^ 2 = sb ^ 2 :=
  GmdInv.pick_small_cs S sb dk lo hi sm hsb Spos hmin hsm hprod hge

/-- … and if the pivot `d[k] < σ̄` the largest remaining value is `> σ̄`: the code's `flag` test
    `d[i] <= sigma_bar` never fires in exact arithmetic, the rotation is always performed -/
theorem gmd_partner_large (S : Nat → ℝ) (sb dk : ℝ) (lo hi lg : Nat) (hsb : 0 < sb) (hdk : 0 < dk)
    (Spos : ∀ r ∈ Finset.Ico lo hi, 0 < S r) (hmax : ∀ r ∈ Finset.Ico lo hi, S r ≤ S lg)
    (hlg : lg ∈ Finset.Ico lo hi)
    (hprod : dk * ∏ r ∈ Finset.Ico lo hi, S r = sb ^ (hi - lo + 1)) (hlt : dk < sb) :
    ¬ S lg ≤ sb ∧
    (gmdCS (decide (S lg ≤ sb)) sb dk (S lg)).1 ^ 2 + (gmdCS (decide (S lg ≤ sb)) sb dk (S lg)).2 ^ 2 = 1 ∧
    (gmdCS (decide (S lg ≤ sb)) sb dk (S lg)).1 ^ 2 * dk ^ 2 +
      (gmdCS (decide (S lg ≤ sb)) sb dk (S lg)).2 ^ 2 * S lg ^ 2 = sb ^ 2 :=
  ⟨GmdInv.pick_large_flag_never S sb dk lo hi lg hsb Spos hmax hprod hlt,
   GmdInv.pick_large_cs S sb dk lo hi lg hsb hdk Spos hmax hlg hprod hlt⟩

/-- the 2×2 algebra of one rotating step in the form `G2ᵀ · diag · G1` (the invariant proof uses
    the equivalent form `diag · G1 = G2 · [[σ̄, x], [0, y]]`, `GmdInv.gmd_step_AP`): the pivot pair
    `δ1, δ2` straddles the geometric mean `σ̄` — the parameters `c, s` the code computes make
    `G1` and `G2` orthogonal and `G2ᵀ · diag(δ1, δ2) · G1 = [[σ̄, x], [0, y]]` with exactly the
    `x` stored in `z[k]` and the `y` stored back in `d[k+1]`. -/
theorem gmd_rotation_step (sb d1 d2 : ℝ) (hsb : 0 < sb)
    (h : (0 ≤ d2 ∧ d2 < sb ∧ sb ≤ d1) ∨ (0 ≤ d1 ∧ d1 < sb ∧ sb ≤ d2)) :
    let cs := gmdCS false sb d1 d2
    let g := gmdG1 cs.1 cs.2
    let h := gmdG2 sb d1 d2 cs.1 cs.2
    (g.1 * g.1 + g.2.2.1 * g.2.2.1 = 1 ∧ g.2.1 * g.2.1 + g.2.2.2 * g.2.2.2 = 1 ∧
      g.1 * g.2.1 + g.2.2.1 * g.2.2.2 = 0) ∧
    (h.1 * h.1 + h.2.2.1 * h.2.2.1 = 1 ∧ h.2.1 * h.2.1 + h.2.2.2 * h.2.2.2 = 1 ∧
      h.1 * h.2.1 + h.2.2.1 * h.2.2.2 = 0) ∧
    (h.1 * d1 * g.1 + h.2.2.1 * d2 * g.2.2.1 = sb ∧
      h.1 * d1 * g.2.1 + h.2.2.1 * d2 * g.2.2.2 = gmdX sb d1 d2 cs.1 cs.2 ∧
      h.2.1 * d1 * g.1 + h.2.2.2 * d2 * g.2.2.1 = 0 ∧
      h.2.1 * d1 * g.2.1 + h.2.2.2 * d2 * g.2.2.2 = gmdY sb d1 d2) := by
  obtain ⟨h1, h2⟩ := Pf.gmdCS_spec sb d1 d2 hsb h
  exact Pf.gmd_step_identities sb d1 d2 _ _ hsb.ne' h1 h2

/-- a step that skips the rotation (`flag`): `c = 1`, `s = 0`; it is taken only when the
    pivot equals the geometric mean, and then `G1 = G2 = 1`, `x = 0`, `y = δ2` -/
theorem gmd_flag_step (sb d2 : ℝ) (hsb : sb ≠ 0) :
    gmdCS true sb sb d2 = (1, 0) ∧ gmdG1 (1 : ℝ) 0 = (1, -0, 0, 1) ∧
    gmdG2 sb sb d2 1 0 = (1, 0, 0, 1) ∧ gmdX sb sb d2 1 0 = 0 ∧ gmdY sb sb d2 = d2 := by
  refine ⟨rfl, rfl, ?_, by simp [gmdX], by simp [gmdY, hsb]⟩
  simp [gmdG2, hsb]

/-- non-vacuity: `σ̄ = 2`, `δ1 = 4`, `δ2 = 1` straddle -/
example : (0 : ℝ) ≤ 1 ∧ (1 : ℝ) < 2 ∧ (2 : ℝ) ≤ 4 := by norm_num

/-- non-vacuity of `GmdStatement`: `m = n = 2`, `U = V = 1`, `S = (4, 1)`, `σ̄ = 2` satisfy every
    hypothesis (the sweep then performs one genuine rotation) -/
example : ∃ (U V : Mat ℝ 2 2) (S : Fin (min 2 2) → ℝ) (sb : ℝ),
    0 < min 2 2 ∧ matMul (cT U) U = eye ∧ matMul (cT V) V = eye ∧ (∀ i, 0 < S i) ∧
    (∀ i j, i ≤ j → S j ≤ S i) ∧ 0 < sb ∧ sb ^ (min 2 2) = ∏ i, S i :=
  ⟨eye, eye, GmdInv.exS, 2, GmdInv.ex_hyps⟩

/-- non-vacuity of `GmdStatementComplex`: `U = V = i·1` (unitary, not real), `S = (4, 1)`, `σ̄ = 2` -/
example : ∃ (U V : Mat ℂ 2 2) (S : Fin (min 2 2) → ℝ) (sb : ℝ),
    0 < min 2 2 ∧ matMul (cT U) U = eye ∧ matMul (cT V) V = eye ∧ (∀ i, 0 < S i) ∧
    (∀ i j, i ≤ j → S j ≤ S i) ∧ 0 < sb ∧ sb ^ (min 2 2) = ∏ i, S i :=
  ⟨GmdInv.exU, GmdInv.exU, GmdInv.exS, 2, GmdInv.ex_hyps.1, GmdInv.exU_unitary, GmdInv.exU_unitary,
    GmdInv.ex_hyps.2.2.2⟩

end gmd

section known_finding

/-- the full three-way agreement, for subspaces of any two dimensions -/
def ChordalAgreementAllDimsStatement : Prop :=
  ∀ (m p q r : Nat) (Q1 : Mat ℂ m p) (Q2 : Mat ℂ m q) (U : Mat ℂ p r) (V : Mat ℂ q r) (s : Fin r → ℝ),
    matMul (cT Q1) Q1 = eye → matMul (cT Q2) Q2 = eye → matMul (cT U) U = eye → matMul (cT V) V = eye →
    pangleArg Q1 Q2 = matMul (matMul U (diagM (fun i => ((s i : ℝ) : ℂ)))) (cT V) →
    (∀ i, 0 ≤ s i) → (∀ i, s i ≤ 1) →
    chordal Q1 Q2 = ((chordalFromAngles (principalAngles (List.ofFn s)) : ℝ) : ℂ)

/-- NEGATIVE WITNESS (known finding `C20:chordal-from-principal-angles:dims-differ`):
    the agreement holds for `p = q` (`chordal_eq_angles`) but fails when the
    dimensions differ — for the line `span e₁` and the plane `ℂ²` all kernel
    contracts hold, the projector form gives `√(1/2)` and the principal-angle
    form gives `0` (the line lies in the plane). -/
theorem chordal_angles_disagree_when_dims_differ : ¬ ChordalAgreementAllDimsStatement := by
  intro h
  have h1 := h 2 1 2 1 Wit.Q1 Wit.Q2 Wit.U Wit.Q1 Wit.s Wit.hQ1 Wit.hQ2 Wit.hU Wit.hQ1 Wit.hsvd
    (fun _ => by simp [Wit.s]) (fun _ => by simp [Wit.s])
  rw [chordal_from_singular_values Wit.Q1 Wit.Q2 Wit.U Wit.Q1 Wit.s Wit.hQ1 Wit.hQ2 Wit.hU Wit.hQ1 Wit.hsvd] at h1
  have h2 : (List.ofFn Wit.s) = [1] := by simp [Wit.s]
  rw [h2, Wit.angles_zero] at h1
  have h3 : Real.sqrt ((((1 : ℕ) : ℝ) + ((2 : ℕ) : ℝ)) / 2 - ∑ i, Wit.s i * Wit.s i) = 0 := by
    exact_mod_cast h1
  have h4 : (((1 : ℕ) : ℝ) + ((2 : ℕ) : ℝ)) / 2 - ∑ i, Wit.s i * Wit.s i = 1 / 2 := by
    simp [Wit.s]; norm_num
  rw [h4, Real.sqrt_eq_zero'] at h3
  norm_num at h3

end known_finding

/-! ## R15 — distinct values that are merely close

The model never rounds, thresholds or compares a value "up to a tolerance": every model function is a
function of the exact value.  These statements make that explicit for the places where C20's code
compares, thresholds or converts a value. -/
section r15
variable {m p q r n : Nat}

/-- two projection matrices that differ — by however little — are a non-zero chordal distance apart
    (the distance identifies subspaces only when they are *equal*, never when they are merely close) -/
theorem distinct_projectors_positive_distance (P1 P2 : Mat ℂ m m) (h : P1 ≠ P2) :
    chordOfProj P1 P2 ≠ 0 := fun h0 => h ((chordOfProj_eq_zero_iff P1 P2).mp h0)

/-- `S[S > 1] = 1` clamps nothing below or at one: cosines `≤ 1`, however close to one, reach
    `arccos` unchanged -/
theorem principal_angles_clamp_only_above_one (S : List ℝ) (h : ∀ s ∈ S, s ≤ 1) :
    principalAngles S = S.map Real.arccos := by
  unfold principalAngles
  refine List.map_congr_left (fun s hs => ?_)
  have : ¬ (1 < s) := not_lt.mpr (h s hs)
  simp only [this, if_false]
  rfl

/-- the principal-angle distance is zero only when EVERY cosine is exactly one: a cosine of
    `1 - 1e-9` (an angle of 4.5e-5) or of the double just below one contributes -/
theorem angle_distance_zero_only_for_unit_cosines (s : Fin r → ℝ) (h0 : ∀ i, 0 ≤ s i) (h1 : ∀ i, s i ≤ 1) :
    chordalFromAngles (principalAngles (List.ofFn s)) = 0 ↔ ∀ i, s i = 1 := by
  rw [chordal_from_angles_value s h0 h1, Real.sqrt_eq_zero']
  exact Pf.sum_one_sub_sq_eq_zero_iff r s h0 h1

/-- non-vacuity: the cosines `1` and `1 - 2⁻⁵³` (adjacent doubles) are in range and not all one -/
example : ∃ s : Fin 2 → ℝ, (∀ i, 0 ≤ s i) ∧ (∀ i, s i ≤ 1) ∧ ¬ ∀ i, s i = 1 :=
  ⟨fun i => if i = 0 then 1 else 1 - 1 / 9007199254740992, fun i => by fin_cases i <;> norm_num,
    fun i => by fin_cases i <;> norm_num, fun h => by have := h 1; norm_num at this⟩

/-- `peig` / `leig` resolve every strict difference, however small: if index `b` carries a strictly
    larger value than a kept index `a` then `b` is kept by `peig` too (and dually for `leig`) -/
theorem selectors_resolve_every_strict_difference {β : Type} [Preorder β] (val : Nat → β) {c k : Nat}
    {perm : List Nat} (h : ArgsortContract val c perm) (hk : k ≤ c) (a b : Nat) (hb : b < c)
    (hlt : val a < val b) :
    (∀ idx, peigIdx c k perm = .ok idx → a ∈ idx → b ∈ idx) ∧
    (∀ idx, leigIdx c k perm = .ok idx → b ∈ idx → a ∈ idx ∨ ¬ a < c) := by
  constructor
  · intro idx hidx ha
    obtain ⟨idx', h1, _, _, _, _, h6⟩ := peig_selects_largest val h hk
    rw [hidx] at h1
    cases h1
    by_contra hnb
    exact lt_irrefl _ (lt_of_lt_of_le hlt (h6 a ha b hb hnb))
  · intro idx hidx hbm
    obtain ⟨idx', h1, _, _, _, _, h6⟩ := leig_selects_smallest val h hk
    rw [hidx] at h1
    cases h1
    by_cases hac : a < c
    · left
      by_contra hna
      exact lt_irrefl _ (lt_of_lt_of_le hlt (h6 b hbm a hac hna))
    · right; exact hac

/-- `update_inv_sum_diag`: a diagonal entry takes effect for EVERY non-zero value, however small
    (there is no "numerically zero, skip" in the model), … -/
theorem diagonal_update_takes_effect_for_every_nonzero_value {K : Type} [Field K] (inv : Mat K n n)
    (i : Fin n) (d : K) (hd : d ≠ 0) (hi : inv i i ≠ 0) (hp : 1 + d * inv i i ≠ 0) :
    smStep inv i d ≠ inv := Pf.smStep_ne_self inv i d hd hi hp

/-- … and two different values, however close, give different inverses -/
theorem diagonal_update_distinct_for_distinct_values {K : Type} [Field K] (inv : Mat K n n)
    (i : Fin n) (d d' : K) (hne : d ≠ d') (hi : inv i i ≠ 0) (hp : 1 + d * inv i i ≠ 0)
    (hp' : 1 + d' * inv i i ≠ 0) : smStep inv i d ≠ smStep inv i d' :=
  fun h => hne (Pf.smStep_injective_in_d inv i d d' hi hp hp' h)

/-- non-vacuity: `inv = [1]`, values `1e-12` and `2e-12` -/
example : ((eye : Mat ℚ 1 1) 0 0 ≠ 0) ∧ (1 + (1 / 10 ^ 12 : ℚ) * (eye : Mat ℚ 1 1) 0 0 ≠ 0) ∧
    (1 + (2 / 10 ^ 12 : ℚ) * (eye : Mat ℚ 1 1) 0 0 ≠ 0) ∧ ((1 / 10 ^ 12 : ℚ) ≠ 2 / 10 ^ 12) := by
  simp [eye]; norm_num

/-- the conversions are injective: two different linear values (positive), two different dB values,
    however close (1 and 1 + 1e-12, 2.4e9 and 2.4e9 + 2e4, adjacent doubles), never convert to the same
    result — a fast path / lookup must key on the exact value -/
theorem conversion_distinct_values_distinct_results :
    (∀ x y : ℝ, 0 < x → 0 < y → x ≠ y → linear2dB x ≠ linear2dB y ∧ linear2dBm x ≠ linear2dBm y) ∧
    (∀ a b : ℝ, a ≠ b → dB2Linear a ≠ dB2Linear b ∧ dBm2Linear a ≠ dBm2Linear b) ∧
    (∀ v w b : ℝ, v ≠ w → snrToEbN0 v b ≠ snrToEbN0 w b ∧ ebN0ToSnr v b ≠ ebN0ToSnr w b) := by
  refine ⟨fun x y hx hy hne => ⟨fun h => hne ?_, fun h => hne ?_⟩,
    fun a b hne => ⟨fun h => hne ?_, fun h => hne ?_⟩,
    fun v w b hne => ⟨fun h => hne ?_, fun h => hne ?_⟩⟩
  · rw [← db_linear_inverse.2 x hx, ← db_linear_inverse.2 y hy, h]
  · rw [← dbm_linear_inverse.2 x hx, ← dbm_linear_inverse.2 y hy, h]
  · rw [← db_linear_inverse.1 a, ← db_linear_inverse.1 b, h]
  · rw [← dbm_linear_inverse.1 a, ← dbm_linear_inverse.1 b, h]
  · rw [← (ebn0_snr_inverse v b).1, ← (ebn0_snr_inverse w b).1, h]
  · rw [← (ebn0_snr_inverse v b).2, ← (ebn0_snr_inverse w b).2, h]

end r15

/-! ## R16 — argument identity and buffer reuse

`Heap` / `Op` / `run` (Model/C20Robust.lean): the caller owns numbered arrays, refills them in place and
calls the routines on them; the routine called is ANY pure function of the contents (the model
functions of this file with the kernel results as parameters — the driver op `hist` instantiates it). -/
section r16
open PyPhysim.C20R
variable {β γ : Type}

/-- the `k`-th operation of a history returns what a fresh call returns on the contents the caller's own
    refills have produced by then — nothing of earlier calls is remembered -/
theorem call_reads_contents_at_call_time (h : Heap β) (pre post : List (Op β γ)) (op : Op β γ) :
    (run h (pre ++ op :: post)).2[pre.length]? = some (result (run h (refillsOnly pre)).1 op) := by
  rw [run_append, ← run_heap_refills]
  simp only [run]
  rw [List.getElem?_append_right (by rw [run_length])]
  simp [run_length]

/-- results handed out earlier are not changed by later refills and calls -/
theorem earlier_results_unchanged_by_later_calls (h : Heap β) (a b : List (Op β γ)) :
    (run h (a ++ b)).2.take a.length = (run h a).2 := by
  rw [run_append]
  simp [run_length]

/-- calls never write to the caller's arrays: after any history they hold what the refills put there -/
theorem calls_leave_buffers_unchanged (h : Heap β) (ops : List (Op β γ)) :
    (run h ops).1 = (run h (refillsOnly ops)).1 := run_heap_refills h ops

/-- a result depends on the *contents* of the argument arrays only, not on which array (object) carries
    them: an equal-content copy gives the same result -/
theorem result_depends_on_contents_only (h h' : Heap β) (i i' j j' k k' : Nat) (hi : h i = h' i')
    (hj : h j = h' j') (hk : h k = h' k') (f1 : β → γ) (f2 : β → β → γ) (f3 : β → β → β → γ) :
    result h (.call1 f1 i) = result h' (.call1 f1 i') ∧
    result h (.call2 f2 i j) = result h' (.call2 f2 i' j') ∧
    result h (.call3 f3 i j k) = result h' (.call3 f3 i' j' k') := by
  simp only [result, hi, hj, hk, and_self]

/-- non-vacuity / worked history: refill, call, refill the SAME array, call again, the same array in
    both roles -/
example : (run (fun _ => (0 : Nat))
    [.refill 0 5, .call1 (· + 1) 0, .refill 0 7, .call1 (· + 1) 0, .refill 1 2, .call2 (· * ·) 0 1,
     .call2 (· * ·) 0 0]).2 = [none, some 6, none, some 8, none, some 14, some 49] := by
  decide

variable {m k c : Nat}

/-- the same array object in both roles: the distance of a subspace from itself is exactly zero
    (`calc_chordal_distance_2(A, A)`, `calc_chordal_distance(A, A)`), whatever the kernels return -/
theorem same_object_in_both_roles (A : Mat ℂ m k) (G : Mat ℂ k k) (Q : Mat ℂ m k) :
    chordal2 G G A A = 0 ∧ chordal Q Q = 0 :=
  ⟨(chordOfProj_eq_zero_iff _ _).mpr rfl, (chordOfProj_eq_zero_iff _ _).mpr rfl⟩

/-- the very array a `Projection` was built from, handed to its own methods: `project` returns it,
    `oProject` annihilates it, `reflect` negates it -/
theorem projection_of_own_basis {K : Type} [CommRing K] [StarRing K] (A : Mat K m k) (G : Mat K k k)
    (hG : matMul G (gram A) = eye) :
    project (projWith G A) A = A ∧ project (oprojWith G A) A = (fun _ _ => 0) ∧
    reflect (projWith G A) A = (fun i j => - A i j) := by
  have hfix := proj_fixes_A A G hG
  have hfix' : toM (projWith G A) * toM A = toM A := by
    have := congrArg toM hfix
    rwa [toM_matMul] at this
  refine ⟨hfix, ?_, ?_⟩
  · apply toM_inj
    rw [toM_project]
    have : toM (oprojWith G A) = 1 - toM (projWith G A) := by
      simp only [oprojWith, toM_msub, toM_eye]
    rw [this, Matrix.sub_mul, Matrix.one_mul, hfix', sub_self]
    rfl
  · apply toM_inj
    rw [toM_reflect, Matrix.sub_mul, Matrix.one_mul, Matrix.smul_mul, hfix']
    ext i j
    simp only [toM, Matrix.sub_apply, Matrix.smul_apply, Matrix.of_apply, smul_eq_mul]
    ring

end r16

section nonvacuity
open Matrix

/-- non-vacuity of the `inv` contract: `A = [1; 1]`, `G = [1/2]` -/
example : matMul (fun _ _ => (1 / 2 : ℂ) : Mat ℂ 1 1) (gram (fun _ _ => (1 : ℂ) : Mat ℂ 2 1)) = eye := by
  funext i j; fin_cases i; fin_cases j
  simp [matMul, gram, cT, sumFin, eye, Conj.conj]
  norm_num

/-- non-vacuity of the `argsort` contract: values `3, 1, 2` are sorted by `[1, 2, 0]` -/
example : ArgsortContract (fun i => ([3, 1, 2] : List Nat).getD i 0) 3 [1, 2, 0] := by
  refine ⟨by decide, by decide⟩

/-- non-vacuity of the whitening contract: `C = [4]`, `Q = [1]`, `L = [4]` -/
example : matMul (cT (eye : Mat ℂ 1 1)) eye = eye ∧
    matMul (fun _ _ => (4 : ℂ) : Mat ℂ 1 1) eye = matMul eye (diagM (fun _ => (4 : ℂ))) ∧
    (∀ _ : Fin 1, (4 : ℂ).im = 0 ∧ 0 < (4 : ℂ).re) := by
  refine ⟨?_, ?_, fun _ => by norm_num⟩
  · funext i j; fin_cases i; fin_cases j; simp [matMul, cT, sumFin, eye, Conj.conj]
  · funext i j; fin_cases i; fin_cases j; simp [matMul, sumFin, eye, diagM]

/-- non-vacuity of the pivot hypothesis: `invA = [1]`, `diagonal = [1]` has pivot `2` -/
example : ∀ x ∈ uisdPivots 0 [(1 : ℚ)] (eye : Mat ℚ 1 1), x ≠ 0 := by
  intro x hx
  simp [uisdPivots, eye] at hx
  subst hx; norm_num

/-- the generic theorems apply to real matrices (`ℝ` with the trivial conjugation) … -/
example (A : Mat ℝ 4 2) (G : Mat ℝ 2 2) (hG : matMul G (gram A) = eye) :
    matMul (projWith G A) (projWith G A) = projWith G A := proj_idempotent A G hG
/-- … and to complex ones -/
example (A : Mat ℂ 4 2) (G : Mat ℂ 2 2) (hG : matMul G (gram A) = eye) (M : Mat ℂ 4 3) :
    reflect (projWith G A) (reflect (projWith G A) M) = M := reflect_involutive A G hG M

end nonvacuity

end PyPhysim.C20
