import PyPhysim.Proofs.C01Detect
import PyPhysim.Proofs.C01Psk
import PyPhysim.Proofs.C01QamReal
import PyPhysim.Proofs.C01Relabel
import PyPhysim.Generated.C01Formulas

/-!
# C01 — modulation is invertible; detection picks the nearest constellation symbol

Property theorems only.  The model (`PyPhysim.Model.C01`) is tied to
`fundamental.py` by the correspondence of `harness/props/c01.py` (exact on
indexes / shapes / exceptions, 1e-12 on constellation tables); the Gray maps are
the definitions regenerated from the source.  Binary64 rounding (ties closer
than 1e-9 to a decision boundary, the 1e-15 snap) is outside the theorems.
-/
namespace PyPhysim.C01
open PyPhysim.Proto PyPhysim.Gray List

section detection
variable {α : Type} [Field α] [LinearOrder α] [IsStrictOrderedRing α]

/-- ML detection: demodulating ANY sample returns an index whose constellation
    point is at minimum distance (and the first such index, as `np.argmin`). -/
theorem demod_nearest (c : List (α × α)) (hc : c ≠ []) (r : α × α) :
    ∃ p, c[demod c r]? = some p ∧
      ∀ j q, c[j]? = some q → dist2 r p ≤ dist2 r q ∧ (j < demod c r → dist2 r p < dist2 r q) :=
  demod_nearest' c hc r

/-- Demodulating a constellation point returns its own index whenever the
    constellation has pairwise distinct points. -/
theorem demod_modulate (c : List (α × α)) (hnd : c.Nodup) (i : Nat) (p : α × α)
    (hi : c[i]? = some p) : demod c p = i := demod_modulate' c hnd i p hi

/-- Round trip on whole index arrays of any shape: `demodulate(modulate(idx)) = idx`
    with the shape preserved. -/
theorem demod_modulate_array (c : List (α × α)) (hnd : c.Nodup) (shape idx : List Nat)
    (out : List Nat × List (α × α)) (h : modulateArray c shape idx = .ok out) :
    demodArray c out.1 out.2 = (shape, idx) := by
  unfold modulateArray at h
  cases hm : idx.mapM (modulate c) with
  | error e => rw [hm] at h; cases h
  | ok pts =>
    rw [hm] at h
    simp only [Except.map] at h
    cases h
    simp only [demodArray, Prod.mk.injEq, true_and]
    revert pts
    induction idx with
    | nil => intro pts hm; simp [pure, Except.pure] at hm; subst hm; rfl
    | cons i is ih =>
      intro pts hm
      rw [List.mapM_cons] at hm
      cases hi : modulate c i with
      | error e => simp [hi, bind, Except.bind] at hm
      | ok p =>
        cases hr : is.mapM (modulate c) with
        | error e => simp [hi, hr, bind, Except.bind] at hm
        | ok ps =>
          simp [hi, hr, bind, Except.bind, pure, Except.pure] at hm
          subst hm
          have hp : c[i]? = some p := by
            unfold modulate at hi
            cases hc : c[i]? with
            | none => simp [hc] at hi
            | some q => simp [hc] at hi; rw [hi]
          simp only [List.map_cons, ih ps hr]
          rw [demod_modulate' c hnd i p hp]
end detection

/-- Indexes `≥ M` are rejected with `ValueError`, never mapped to a symbol. -/
theorem modulate_oob {α : Type} (c : List (α × α)) (i : Nat) (h : c.length ≤ i) :
    modulate c i = .error .ValueError := by
  simp [modulate, List.getElem?_eq_none h]

/-- … and indexes `< M` always succeed. -/
theorem modulate_in_range {α : Type} (c : List (α × α)) (i : Nat) (h : i < c.length) :
    modulate c i = .ok c[i] := by
  simp [modulate, List.getElem?_eq_getElem h]

/-- BPSK: bits map to `±1` and back. -/
theorem bpsk_roundtrip (bits : List Nat) (h : ∀ b ∈ bits, b ≤ 1) :
    ∃ s, bpskModulate bits = .ok s ∧ s.map (fun x => bpskDemod x) = bits := by
  have hany : bits.any (· > 1) = false := by
    rw [List.any_eq_false]; intro b hb; have := h b hb; simp; omega
  refine ⟨bits.map (fun b => 1 - 2 * Int.ofNat b), by simp [bpskModulate, hany], ?_⟩
  rw [List.map_map]
  conv => rhs; rw [← List.map_id bits]
  apply List.map_congr_left
  intro b hb
  have := h b hb
  have hb' : b = 0 ∨ b = 1 := by omega
  rcases hb' with rfl | rfl <;> simp [bpskDemod]

/-- BPSK rejects anything but 0/1. -/
theorem bpsk_rejects (bits : List Nat) (h : ∃ b ∈ bits, 1 < b) :
    bpskModulate bits = .error .ValueError := by
  obtain ⟨b, hb, h1⟩ := h
  have : bits.any (· > 1) = true := List.any_eq_true.mpr ⟨b, hb, by simpa using h1⟩
  simp [bpskModulate, this]

/-- BPSK detection is nearest-symbol detection: the sign test picks `-1` exactly
    when `-1` is the strictly closer point (on the boundary `re = 0` both are tied). -/
theorem bpsk_demod_nearest {α : Type} [Field α] [LinearOrder α] [IsStrictOrderedRing α]
    (re im : α) :
    (bpskDemod re = 1) ↔ dist2 (re, im) (-1, 0) < dist2 (re, im) ((1 : α), (0 : α)) := by
  unfold bpskDemod dist2
  constructor
  · intro h1
    have : re < 0 := by by_contra hc; simp [hc] at h1
    simp only; nlinarith
  · intro h1
    have : re < 0 := by simp only at h1; nlinarith
    simp [this]

/-- PSK, every `M = 2^m` (`m ≤ 64`), every phase offset: construction succeeds and
    the emitted table has `M` pairwise distinct points, each of unit modulus
    (hence unit mean energy). -/
theorem psk_constellation (m : Nat) (hm : m ≤ 64) (φ : ℝ) :
    ∃ table, relabel (pskNatural (2^m) φ) ((List.range (2^m)).map (pskPosInit Generated.gray2binary))
        = .ok table ∧
      table.length = 2^m ∧ table.Nodup ∧ ∀ p ∈ table, p.1 ^ 2 + p.2 ^ 2 = 1 := by
  have hlen : (pskNatural (2^m) φ).length = 2^m := by simp [pskNatural]
  have hperm := psk_idx_perm m hm
  obtain ⟨table, ht⟩ := relabel_ok (pskNatural (2^m) φ)
    ((List.range (2^m)).map (pskPosInit Generated.gray2binary))
    (by intro i hi; rw [hlen]; exact List.mem_range.mp (hperm.subset hi))
  have hp := relabel_perm _ _ _ ht (by rw [hlen]; exact hperm)
  refine ⟨table, ht, by rw [hp.length_eq, hlen], hp.nodup_iff.mpr (psk_natural_nodup _ φ), ?_⟩
  intro p hp'
  exact psk_natural_unit (2^m) φ p (hp.subset hp')

/-- PSK rejects every cardinality that is not a power of two *independently of the
    floating-point assert*: for `2^k < M < 2^(k+1)` label `2^k` is sent to natural
    position `2^(k+1)-1 ≥ M`, so building the table raises. -/
theorem psk_rejects_non_pow2 (M k : Nat) (hk : k < 64) (h1 : 2^k < M) (h2 : M < 2^(k+1)) (φ : ℝ) :
    relabel (pskNatural M φ) ((List.range M).map (pskPosInit Generated.gray2binary))
      = .error .IndexError := by
  apply relabel_error
  refine ⟨pskPosInit Generated.gray2binary (2^k), ?_, ?_⟩
  · exact List.mem_map.mpr ⟨2^k, List.mem_range.mpr h1, rfl⟩
  · simp only [pskPosInit, g2b_two_pow k hk, pskNatural, List.length_map, List.length_range]
    omega

/-- Square QAM, every `L = 2^k ≥ 2` (`M = L²`): construction succeeds and the emitted
    table has `M` pairwise distinct points whose total energy is `M` (unit mean energy). -/
theorem qam_constellation (k : Nat) (hk : 1 ≤ k) :
    ∃ table, relabel (qamNatural (α := ℝ) (2^k))
        ((List.range (2^k * 2^k)).map (qamPos Generated.binary2gray k (2^k))) = .ok table ∧
      table.length = 2^k * 2^k ∧ table.Nodup ∧
      (table.map (fun p => p.1 ^ 2 + p.2 ^ 2)).sum = ((2^k * 2^k : Nat) : ℝ) := by
  have hL : 2 ≤ 2^k := by
    calc 2 = 2^1 := rfl
      _ ≤ 2^k := Nat.pow_le_pow_right (by norm_num) hk
  have hlen : (qamNatural (α := ℝ) (2^k)).length = 2^k * 2^k := by simp [qamNatural, qamGrid]
  have hperm := qam_idx_perm k
  obtain ⟨table, ht⟩ := relabel_ok (qamNatural (α := ℝ) (2^k))
    ((List.range (2^k * 2^k)).map (qamPos Generated.binary2gray k (2^k)))
    (by intro i hi; rw [hlen]; exact List.mem_range.mp (hperm.subset hi))
  have hp := relabel_perm _ _ _ ht (by rw [hlen]; exact hperm)
  refine ⟨table, ht, by rw [hp.length_eq, hlen], hp.nodup_iff.mpr (qam_natural_nodup _ hL), ?_⟩
  rw [(hp.map _).sum_eq, qam_natural_energy _ hL]
  push_cast; ring

/-- After ANY history of table changes (`setPhaseOffset`), modulations and demodulations, a
    demodulation is nearest-point detection against the table currently in force (the object
    keeps no derived state that could go stale; the correspondence replays such histories
    on the real object). -/
theorem demod_after_history {α : Type} [Field α] [LinearOrder α] [IsStrictOrderedRing α]
    (t₀ : List (α × α)) (h : List (ModOp α)) (r : α × α) :
    (modRun t₀ (h ++ [ModOp.demodulate r])).1 = currentTable t₀ h ∧
    (modRun t₀ (h ++ [ModOp.demodulate r])).2.getLast? = some (ModOut.index (demod (currentTable t₀ h) r)) := by
  induction h generalizing t₀ with
  | nil => simp [modRun, modStep, currentTable]
  | cons op ops ih =>
    cases op with
    | setTable t =>
      have := ih t
      simp only [List.cons_append, modRun, modStep, currentTable]
      refine ⟨this.1, ?_⟩
      rw [List.getLast?_cons_of_ne_nil]
      · exact this.2
      · intro hnil; rw [hnil] at this; simp at this
    | demodulate r' =>
      have := ih t₀
      simp only [List.cons_append, modRun, modStep, currentTable]
      refine ⟨this.1, ?_⟩
      rw [List.getLast?_cons_of_ne_nil]
      · exact this.2
      · intro hnil; rw [hnil] at this; simp at this
    | modulate i =>
      have := ih t₀
      simp only [List.cons_append, modRun, modStep, currentTable]
      refine ⟨this.1, ?_⟩
      rw [List.getLast?_cons_of_ne_nil]
      · exact this.2
      · intro hnil; rw [hnil] at this; simp at this

/-- Tie to the source: the grid coordinates, the storage index (with the size equalities a vectorised
    construction of the grid needs), the average-energy
    expression and the PSK phase expression re-translated from `fundamental.py` on every run
    are the ones of the model the constellation theorems are about (BPSK literal = `[1,-1]`). -/
theorem generated_constellation_matches_model :
    (∀ (L ii jj : Nat), jj < L →
      qamGridPoint L (Int.toNat (Generated.C01.qamIndex L jj ii))
        = (Generated.C01.qamRe L jj ii, Generated.C01.qamIm L jj ii)) ∧
    (∀ (L : Nat), 1 ≤ L → Generated.C01.qamShapeOk (L : Int)) ∧
    (∀ (L : Nat), 1 ≤ L →
      Generated.C01.qamAvgEnergy (((L * L : Nat) : ℝ)) =
        (((L * L - 1 : Nat) : ℝ) * ((2 : Nat) : ℝ)) / ((3 : Nat) : ℝ)) ∧
    (∀ (M k : Nat) (φ : ℝ), pskNaturalPoint M k φ =
      (Real.cos (Generated.C01.pskPhase M k φ), Real.sin (Generated.C01.pskPhase M k φ))) ∧
    Generated.C01.bpskPoints = [1, -1] := by
  refine ⟨?_, ?_, ?_, ?_, rfl⟩
  · intro L ii jj hj
    have hL : 0 < L := by omega
    have e : Generated.C01.qamIndex L jj ii = ((ii * L + jj : Nat) : Int) := by
      simp [Generated.C01.qamIndex]
    rw [e, Int.toNat_natCast]
    have hm : (ii * L + jj) % L = jj := by
      rw [Nat.mul_comm, Nat.mul_add_mod]; exact Nat.mod_eq_of_lt hj
    have hd : (ii * L + jj) / L = ii := by
      rw [Nat.mul_comm, Nat.mul_add_div hL, Nat.div_eq_of_lt hj, Nat.add_zero]
    -- (a vectorised source addresses the element through its flat index: `% L` is the column, `/ L` the row)
    have hmI : ((ii : Int) * (L : Int) + (jj : Int)) % (L : Int) = (jj : Int) := by exact_mod_cast hm
    have hdI : ((ii : Int) * (L : Int) + (jj : Int)) / (L : Int) = (ii : Int) := by exact_mod_cast hd
    simp only [qamGridPoint, hm, hd, Generated.C01.qamRe, Generated.C01.qamIm, Prod.mk.injEq, hmI, hdI]
    constructor <;> ring
  · -- the sizes a vectorised construction relies on (`True` for the explicit loops)
    intro L hL
    have hL' : (1 : Int) ≤ (L : Int) := by exact_mod_cast hL
    unfold Generated.C01.qamShapeOk
    repeat' apply And.intro
    all_goals first | trivial | rfl | omega | ring
  · intro L hL
    have h1 : 1 ≤ L * L := by nlinarith
    -- (`ring` absorbs a re-ordered spelling of the same product, e.g. `2.0 * (M - 1) / 3.0`)
    (simp only [Generated.C01.qamAvgEnergy]; rw [Nat.cast_sub h1]) <;> ring
  · intro M k φ
    simp only [pskNaturalPoint, Generated.C01.pskPhase, Trig.cos, Trig.sin, Trig.pi]

/-- non-vacuity of the detection theorems: a two-point constellation over ℚ -/
example : demod ([(1, 0), (-1, 0)] : List (ℚ × ℚ)) (-3/10, 7) = 1 := by decide +kernel

end PyPhysim.C01
