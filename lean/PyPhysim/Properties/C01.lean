import PyPhysim.Proofs.C01Detect
import PyPhysim.Proofs.C01Psk
import PyPhysim.Proofs.C01QamReal
import PyPhysim.Proofs.C01Relabel
import PyPhysim.Proofs.C01Robust
import PyPhysim.Proofs.C01Ml
import PyPhysim.Generated.C01Formulas

/-!
# C01 — modulation is invertible; detection picks the nearest constellation symbol

Property theorems only.  The model (`PyPhysim.Model.C01`) is tied to
`fundamental.py` by the correspondence of `harness/props/c01.py` (exact on
indexes / shapes / exceptions, 1e-12 on constellation tables); the Gray maps are
the definitions regenerated from the source.  Binary64 rounding (ties closer
than 1e-9 to a decision boundary, the 1e-15 snap) is outside the theorems.
-/
namespace PyPhysim.C01
open PyPhysim.Proto PyPhysim.Gray List

section detection
variable {α : Type} [Field α] [LinearOrder α] [IsStrictOrderedRing α]

/-- ML detection: demodulating ANY sample returns an index whose constellation
    point is at minimum distance (and the first such index, as `np.argmin`). -/
theorem demod_nearest (c : List (α × α)) (hc : c ≠ []) (r : α × α) :
    ∃ p, c[demod c r]? = some p ∧
      ∀ j q, c[j]? = some q → dist2 r p ≤ dist2 r q ∧ (j < demod c r → dist2 r p < dist2 r q) :=
  demod_nearest' c hc r

/-- Demodulating a constellation point returns its own index whenever the
    constellation has pairwise distinct points. -/
theorem demod_modulate (c : List (α × α)) (hnd : c.Nodup) (i : Nat) (p : α × α)
    (hi : c[i]? = some p) : demod c p = i := demod_modulate' c hnd i p hi

/-- Round trip on whole index arrays of any shape: `demodulate(modulate(idx)) = idx`
    with the shape preserved. -/
theorem demod_modulate_array (c : List (α × α)) (hnd : c.Nodup) (shape idx : List Nat)
    (out : List Nat × List (α × α)) (h : modulateArray c shape idx = .ok out) :
    demodArray c out.1 out.2 = (shape, idx) := by
  unfold modulateArray at h
  cases hm : idx.mapM (modulate c) with
  | error e => rw [hm] at h; cases h
  | ok pts =>
    rw [hm] at h
    simp only [Except.map] at h
    cases h
    simp only [demodArray, Prod.mk.injEq, true_and]
    revert pts
    induction idx with
    | nil => intro pts hm; simp [pure, Except.pure] at hm; subst hm; rfl
    | cons i is ih =>
      intro pts hm
      rw [List.mapM_cons] at hm
      cases hi : modulate c i with
      | error e => simp [hi, bind, Except.bind] at hm
      | ok p =>
        cases hr : is.mapM (modulate c) with
        | error e => simp [hi, hr, bind, Except.bind] at hm
        | ok ps =>
          simp [hi, hr, bind, Except.bind, pure, Except.pure] at hm
          subst hm
          have hp : c[i]? = some p := by
            unfold modulate at hi
            cases hc : c[i]? with
            | none => simp [hc] at hi
            | some q => simp [hc] at hi; rw [hi]
          simp only [List.map_cons, ih ps hr]
          rw [demod_modulate' c hnd i p hp]
end detection

/-- Indexes `≥ M` are rejected with `ValueError`, never mapped to a symbol. -/
theorem modulate_oob {α : Type} (c : List (α × α)) (i : Nat) (h : c.length ≤ i) :
    modulate c i = .error .ValueError := by
  simp [modulate, List.getElem?_eq_none h]

/-- … and indexes `< M` always succeed. -/
theorem modulate_in_range {α : Type} (c : List (α × α)) (i : Nat) (h : i < c.length) :
    modulate c i = .ok c[i] := by
  simp [modulate, List.getElem?_eq_getElem h]

/-- BPSK: bits map to `±1` and back. -/
theorem bpsk_roundtrip (bits : List Nat) (h : ∀ b ∈ bits, b ≤ 1) :
    ∃ s, bpskModulate bits = .ok s ∧ s.map (fun x => bpskDemod x) = bits := by
  have hany : bits.any (· > 1) = false := by
    rw [List.any_eq_false]; intro b hb; have := h b hb; simp; omega
  refine ⟨bits.map (fun b => 1 - 2 * Int.ofNat b), by simp [bpskModulate, hany], ?_⟩
  rw [List.map_map]
  conv => rhs; rw [← List.map_id bits]
  apply List.map_congr_left
  intro b hb
  have := h b hb
  have hb' : b = 0 ∨ b = 1 := by omega
  rcases hb' with rfl | rfl <;> simp [bpskDemod]

/-- BPSK rejects anything but 0/1. -/
theorem bpsk_rejects (bits : List Nat) (h : ∃ b ∈ bits, 1 < b) :
    bpskModulate bits = .error .ValueError := by
  obtain ⟨b, hb, h1⟩ := h
  have : bits.any (· > 1) = true := List.any_eq_true.mpr ⟨b, hb, by simpa using h1⟩
  simp [bpskModulate, this]

/-- BPSK detection is nearest-symbol detection: the sign test picks `-1` exactly
    when `-1` is the strictly closer point (on the boundary `re = 0` both are tied). -/
theorem bpsk_demod_nearest {α : Type} [Field α] [LinearOrder α] [IsStrictOrderedRing α]
    (re im : α) :
    (bpskDemod re = 1) ↔ dist2 (re, im) (-1, 0) < dist2 (re, im) ((1 : α), (0 : α)) := by
  unfold bpskDemod dist2
  constructor
  · intro h1
    have : re < 0 := by by_contra hc; simp [hc] at h1
    simp only; nlinarith
  · intro h1
    have : re < 0 := by simp only at h1; nlinarith
    simp [this]

/-- PSK, every `M = 2^m` (`m ≤ 64`), every phase offset: construction succeeds and
    the emitted table has `M` pairwise distinct points, each of unit modulus
    (hence unit mean energy). -/
theorem psk_constellation (m : Nat) (hm : m ≤ 64) (φ : ℝ) :
    ∃ table, relabel (pskNatural (2^m) φ) ((List.range (2^m)).map (pskPosInit Generated.gray2binary))
        = .ok table ∧
      table.length = 2^m ∧ table.Nodup ∧ ∀ p ∈ table, p.1 ^ 2 + p.2 ^ 2 = 1 := by
  have hlen : (pskNatural (2^m) φ).length = 2^m := by simp [pskNatural]
  have hperm := psk_idx_perm m hm
  obtain ⟨table, ht⟩ := relabel_ok (pskNatural (2^m) φ)
    ((List.range (2^m)).map (pskPosInit Generated.gray2binary))
    (by intro i hi; rw [hlen]; exact List.mem_range.mp (hperm.subset hi))
  have hp := relabel_perm _ _ _ ht (by rw [hlen]; exact hperm)
  refine ⟨table, ht, by rw [hp.length_eq, hlen], hp.nodup_iff.mpr (psk_natural_nodup _ φ), ?_⟩
  intro p hp'
  exact psk_natural_unit (2^m) φ p (hp.subset hp')

/-- PSK rejects every cardinality that is not a power of two *independently of the
    floating-point assert*: for `2^k < M < 2^(k+1)` label `2^k` is sent to natural
    position `2^(k+1)-1 ≥ M`, so building the table raises. -/
theorem psk_rejects_non_pow2 (M k : Nat) (hk : k < 64) (h1 : 2^k < M) (h2 : M < 2^(k+1)) (φ : ℝ) :
    relabel (pskNatural M φ) ((List.range M).map (pskPosInit Generated.gray2binary))
      = .error .IndexError := by
  apply relabel_error
  refine ⟨pskPosInit Generated.gray2binary (2^k), ?_, ?_⟩
  · exact List.mem_map.mpr ⟨2^k, List.mem_range.mpr h1, rfl⟩
  · simp only [pskPosInit, g2b_two_pow k hk, pskNatural, List.length_map, List.length_range]
    omega

/-- Square QAM, every `L = 2^k ≥ 2` (`M = L²`): construction succeeds and the emitted
    table has `M` pairwise distinct points whose total energy is `M` (unit mean energy). -/
theorem qam_constellation (k : Nat) (hk : 1 ≤ k) :
    ∃ table, relabel (qamNatural (α := ℝ) (2^k))
        ((List.range (2^k * 2^k)).map (qamPos Generated.binary2gray k (2^k))) = .ok table ∧
      table.length = 2^k * 2^k ∧ table.Nodup ∧
      (table.map (fun p => p.1 ^ 2 + p.2 ^ 2)).sum = ((2^k * 2^k : Nat) : ℝ) := by
  have hL : 2 ≤ 2^k := by
    calc 2 = 2^1 := rfl
      _ ≤ 2^k := Nat.pow_le_pow_right (by norm_num) hk
  have hlen : (qamNatural (α := ℝ) (2^k)).length = 2^k * 2^k := by simp [qamNatural, qamGrid]
  have hperm := qam_idx_perm k
  obtain ⟨table, ht⟩ := relabel_ok (qamNatural (α := ℝ) (2^k))
    ((List.range (2^k * 2^k)).map (qamPos Generated.binary2gray k (2^k)))
    (by intro i hi; rw [hlen]; exact List.mem_range.mp (hperm.subset hi))
  have hp := relabel_perm _ _ _ ht (by rw [hlen]; exact hperm)
  refine ⟨table, ht, by rw [hp.length_eq, hlen], hp.nodup_iff.mpr (qam_natural_nodup _ hL), ?_⟩
  rw [(hp.map _).sum_eq, qam_natural_energy _ hL]
  push_cast; ring

/-- After ANY history of table changes (`setPhaseOffset`), modulations and demodulations, a
    demodulation is nearest-point detection against the table currently in force (the object
    keeps no derived state that could go stale; the correspondence replays such histories
    on the real object). -/
theorem demod_after_history {α : Type} [Field α] [LinearOrder α] [IsStrictOrderedRing α]
    (t₀ : List (α × α)) (h : List (ModOp α)) (r : α × α) :
    (modRun t₀ (h ++ [ModOp.demodulate r])).1 = currentTable t₀ h ∧
    (modRun t₀ (h ++ [ModOp.demodulate r])).2.getLast? = some (ModOut.index (demod (currentTable t₀ h) r)) := by
  induction h generalizing t₀ with
  | nil => simp [modRun, modStep, currentTable]
  | cons op ops ih =>
    cases op with
    | setTable t =>
      have := ih t
      simp only [List.cons_append, modRun, modStep, currentTable]
      refine ⟨this.1, ?_⟩
      rw [List.getLast?_cons_of_ne_nil]
      · exact this.2
      · intro hnil; rw [hnil] at this; simp at this
    | demodulate r' =>
      have := ih t₀
      simp only [List.cons_append, modRun, modStep, currentTable]
      refine ⟨this.1, ?_⟩
      rw [List.getLast?_cons_of_ne_nil]
      · exact this.2
      · intro hnil; rw [hnil] at this; simp at this
    | modulate i =>
      have := ih t₀
      simp only [List.cons_append, modRun, modStep, currentTable]
      refine ⟨this.1, ?_⟩
      rw [List.getLast?_cons_of_ne_nil]
      · exact this.2
      · intro hnil; rw [hnil] at this; simp at this

/-! ## R15 — distinct values that are merely close

The model is a function of the EXACT values: nothing in it compares with a tolerance, rounds a
key or tests "unchanged".  The statements below say so for each place where the code compares,
looks up or replaces a value; the harness generates the close-but-distinct values
(`oracle:R15:*`, `corr:R15:*`). -/

section r15
variable {α : Type} [Field α] [LinearOrder α]

/-- R15, detection: whenever ONE constellation point is strictly nearest to the sample — by
    however little — its index is returned. -/
theorem demod_of_strict_nearest (c : List (α × α)) (r : α × α) (i : Nat) (p : α × α)
    (hi : c[i]? = some p)
    (hmin : ∀ j q, c[j]? = some q → j ≠ i → dist2 r p < dist2 r q) : demod c r = i :=
  demod_of_strict_nearest' c r i p hi hmin

/-- R15, detection: two samples on the two sides of a decision boundary get their own index
    each, no matter how close they are to each other (there is no hypothesis on `r` vs `r'`). -/
theorem close_samples_decided_separately (c : List (α × α)) (r r' : α × α) (i i' : Nat)
    (p p' : α × α) (hi : c[i]? = some p) (hi' : c[i']? = some p')
    (hmin : ∀ j q, c[j]? = some q → j ≠ i → dist2 r p < dist2 r q)
    (hmin' : ∀ j q, c[j]? = some q → j ≠ i' → dist2 r' p' < dist2 r' q) :
    demod c r = i ∧ demod c r' = i' :=
  ⟨demod_of_strict_nearest' c r i p hi hmin, demod_of_strict_nearest' c r' i' p' hi' hmin'⟩

/-- R15, setter: after ANY history, installing a table `t` — equal to, close to or far from the
    one in force — takes effect: the object holds `t` and the next demodulation is detection
    against `t`. -/
theorem setter_takes_effect_for_every_new_value [IsStrictOrderedRing α] (t₀ t : List (α × α)) (h : List (ModOp α))
    (r : α × α) :
    (modRun t₀ (h ++ [ModOp.setTable t, ModOp.demodulate r])).1 = t ∧
    (modRun t₀ (h ++ [ModOp.setTable t, ModOp.demodulate r])).2.getLast?
      = some (ModOut.index (demod t r)) := by
  have e : h ++ [ModOp.setTable t, ModOp.demodulate r]
      = (h ++ [ModOp.setTable t]) ++ [ModOp.demodulate r] := by simp
  rw [e]
  have := demod_after_history t₀ (h ++ [ModOp.setTable t]) r
  rwa [currentTable_append_setTable] at this
end r15

/-- R15, lookup: with pairwise distinct points, two indexes are mapped to the same symbol only
    if they are the same index (`modulate` is an exact table lookup). -/
theorem lookup_exact {α : Type} (c : List (α × α)) (hnd : c.Nodup) (i j : Nat)
    (hi : i < c.length) (hj : j < c.length) (h : modulate c i = modulate c j) : i = j := by
  rw [modulate_in_range c i hi, modulate_in_range c j hj] at h
  exact (List.Nodup.getElem_inj_iff hnd).mp (Except.ok.inj h)

/-- R15, PSK table as a function of the exact phase offset: two offsets put point `k` at the
    same place exactly when they differ by a whole number of turns … -/
theorem psk_point_exact_in_offset (M k : Nat) (φ φ' : ℝ) :
    pskNaturalPoint M k φ = pskNaturalPoint (α := ℝ) M k φ' ↔ ∃ n : ℤ, φ - φ' = 2 * Real.pi * n :=
  psk_point_offset_iff M k φ φ'

/-- … so two distinct offsets less than a turn apart — 1e-9 apart, adjacent doubles — give
    tables that differ in EVERY entry. -/
theorem psk_close_offsets_differ (M k : Nat) (φ φ' : ℝ) (hne : φ ≠ φ')
    (hclose : |φ - φ'| < 2 * Real.pi) :
    pskNaturalPoint M k φ ≠ pskNaturalPoint (α := ℝ) M k φ' := by
  intro h
  obtain ⟨n, hn⟩ := (psk_point_offset_iff M k φ φ').mp h
  have hpi := Real.pi_pos
  have hn0 : n = 0 := by
    by_contra hc
    have h1 : (1 : ℝ) ≤ |(n : ℝ)| := by
      rcases lt_or_gt_of_ne hc with hneg | hpos
      · have : (n : ℝ) ≤ -1 := by exact_mod_cast Int.le_sub_one_of_lt hneg
        rw [abs_of_neg (by linarith)]; linarith
      · have : (1 : ℝ) ≤ n := by exact_mod_cast hpos
        rw [abs_of_pos (by linarith)]; exact this
    rw [hn, abs_mul, abs_of_pos (by positivity : (0 : ℝ) < 2 * Real.pi)] at hclose
    nlinarith
  rw [hn0] at hn
  apply hne
  simp at hn
  linarith

/-- R15, BPSK: the sign detector has no dead zone around zero. -/
theorem bpsk_no_dead_zone {α : Type} [Field α] [LinearOrder α] [IsStrictOrderedRing α] (re : α) :
    (re < 0 → bpskDemod re = 1) ∧ (0 < re → bpskDemod re = 0) := by
  unfold bpskDemod
  constructor
  · intro h; simp [h]
  · intro h; simp [not_lt.mpr (le_of_lt h)]

/-! ## R16 — argument identity and buffer reuse (`Model/C01Alias.lean`) -/

section r16
variable {α : Type} [Add α] [Sub α] [Mul α] [LT α] [DecidableLT α]

/-- R16: for an object whose table it made itself (every BPSK / QPSK / PSK / QAM object), after
    ANY history of refills of the caller's arrays and of calls, the result of `demodulate(array b)`
    / `modulate(array b)` is computed from the table and the contents of the array at call time,
    and from nothing else (no identity, no memo, no retained buffer). -/
theorem call_depends_on_contents_only (s : AState α) (t : List (α × α)) (h₁ h₂ : List (AOp α))
    (b : Nat) (hs : s.table = .own t) (hk : ∀ op ∈ h₁, op.keepsTable = true) :
    (aOutputs s (h₁ ++ AOp.demodulate b :: h₂))[h₁.length]?
      = some (AOut.indexes (((aState s h₁).cbuf b).map (demod t))) ∧
    (aOutputs s (h₁ ++ AOp.modulate b :: h₂))[h₁.length]?
      = some (AOut.symbols (((aState s h₁).ibuf b).mapM (modulate t))) := by
  have ht := resolve_own _ t (own_table_kept s t h₁ hs hk)
  constructor
  · rw [aOutputs_at]; simp [aStep, ht]
  · rw [aOutputs_at]; simp [aStep, ht]

/-- R16: the call made right after refilling array `b` with `v` gives what a freshly built
    object with the same table gives on a new array holding `v`. -/
theorem refilled_buffer_equals_fresh_object (s : AState α) (t : List (α × α))
    (h₁ h₂ : List (AOp α)) (b : Nat) (v : List (α × α)) (hs : s.table = .own t)
    (hk : ∀ op ∈ h₁, op.keepsTable = true) :
    (aOutputs s (h₁ ++ AOp.fillC b v :: AOp.demodulate b :: h₂))[h₁.length + 1]?
      = (aOutputs (freshObj t) [AOp.fillC 0 v, AOp.demodulate 0])[1]? := by
  have hk' : ∀ op ∈ h₁ ++ [AOp.fillC b v], op.keepsTable = true := by
    intro op hop
    rcases List.mem_append.mp hop with h | h
    · exact hk op h
    · simp at h; subst h; rfl
  have e : h₁ ++ AOp.fillC b v :: AOp.demodulate b :: h₂
      = (h₁ ++ [AOp.fillC b v]) ++ AOp.demodulate b :: h₂ := by simp
  have hl : h₁.length + 1 = (h₁ ++ [AOp.fillC b v]).length := by simp
  rw [e, hl, (call_depends_on_contents_only s t _ h₂ b hs hk').1, aState_append]
  simp [aState, aStep, aOutputs, upd, freshObj, AState.resolve]

/-- R16: results already returned are values; whatever the caller or the object does later
    (refills, further calls, new tables) leaves them as they were. -/
theorem earlier_results_unchanged_by_later_calls (s : AState α) (h h' : List (AOp α)) :
    (aOutputs s (h ++ h')).take h.length = aOutputs s h := by
  rw [aOutputs_append, List.take_left' (aOutputs_length s h)]
end r16

/-- R16, NEGATIVE witness on the model of the code that exists: `Modulator.setConstellation`
    keeps the caller's array (`self.symbols = symbols`), so refilling that array afterwards
    changes the decisions of the object although no method of the object was called in between
    (finding `C01:setConstellation-keeps-argument`; replayed on the real class by the oracle
    `alias`).  BPSK / QPSK / PSK / QAM never take this path (`call_depends_on_contents_only`). -/
theorem setConstellation_keeps_callers_array :
    aOutputs (freshObj ([] : List (Int × Int)))
      [AOp.fillC 0 [(1, 0), (-1, 0)], AOp.setConstellation 0, AOp.fillC 1 [(2, 0)],
       AOp.demodulate 1, AOp.fillC 0 [(-1, 0), (1, 0)], AOp.demodulate 1]
      = [AOut.none, AOut.none, AOut.none, AOut.indexes [0], AOut.none, AOut.indexes [1]] := by
  rfl

/-- R16, the proposed repair `self.symbols = np.array(symbols)`: the table is the contents of the
    caller's array at the time of the call; whatever the caller does to its arrays afterwards, and
    whatever is called, every later call is computed from that table. -/
theorem repaired_setConstellation_immune {α : Type} [Add α] [Sub α] [Mul α] [LT α] [DecidableLT α]
    (s : AState α) (b b' : Nat) (h₁ h₂ : List (AOp α)) (hk : ∀ op ∈ h₁, op.keepsTable = true) :
    (aOutputs s (AOp.setConstellationCopy b :: (h₁ ++ AOp.demodulate b' :: h₂)))[h₁.length + 1]?
      = some (AOut.indexes (((aState (aStep s (AOp.setConstellationCopy b)).1 h₁).cbuf b').map
          (demod (s.cbuf b)))) := by
  simp only [aOutputs, List.getElem?_cons_succ]
  exact (call_depends_on_contents_only (aStep s (AOp.setConstellationCopy b)).1 (s.cbuf b) h₁ h₂ b'
    rfl hk).1

/-- non-vacuity of the R15 / R16 statements: a strictly nearest point that wins by 2/10^12, and an
    own-table history with a refilled array -/
example : demod ([(1, 0), (-1, 0)] : List (ℚ × ℚ)) (1/10^12, 3) = 0 ∧
    demod ([(1, 0), (-1, 0)] : List (ℚ × ℚ)) (-1/10^12, 3) = 1 := by decide +kernel
example : (aOutputs (freshObj ([(1, 0), (-1, 0)] : List (Int × Int)))
      [AOp.fillC 0 [(2, 0)], AOp.demodulate 0, AOp.fillC 0 [(-2, 0)], AOp.demodulate 0])
    = [AOut.none, AOut.indexes [0], AOut.none, AOut.indexes [1]] := by rfl

/-- Tie to the source: the grid coordinates, the storage index (with the size equalities a vectorised
    construction of the grid needs), the average-energy
    expression and the PSK phase expression re-translated from `fundamental.py` on every run
    are the ones of the model the constellation theorems are about (BPSK literal = `[1,-1]`). -/
theorem generated_constellation_matches_model :
    (∀ (L ii jj : Nat), jj < L →
      qamGridPoint L (Int.toNat (Generated.C01.qamIndex L jj ii))
        = (Generated.C01.qamRe L jj ii, Generated.C01.qamIm L jj ii)) ∧
    (∀ (L : Nat), 1 ≤ L → Generated.C01.qamShapeOk (L : Int)) ∧
    (∀ (L : Nat), 1 ≤ L →
      Generated.C01.qamAvgEnergy (((L * L : Nat) : ℝ)) =
        (((L * L - 1 : Nat) : ℝ) * ((2 : Nat) : ℝ)) / ((3 : Nat) : ℝ)) ∧
    (∀ (M k : Nat) (φ : ℝ), pskNaturalPoint M k φ =
      (Real.cos (Generated.C01.pskPhase M k φ), Real.sin (Generated.C01.pskPhase M k φ))) ∧
    Generated.C01.bpskPoints = [1, -1] := by
  refine ⟨?_, ?_, ?_, ?_, rfl⟩
  · intro L ii jj hj
    have hL : 0 < L := by omega
    have e : Generated.C01.qamIndex L jj ii = ((ii * L + jj : Nat) : Int) := by
      simp [Generated.C01.qamIndex]
    rw [e, Int.toNat_natCast]
    have hm : (ii * L + jj) % L = jj := by
      rw [Nat.mul_comm, Nat.mul_add_mod]; exact Nat.mod_eq_of_lt hj
    have hd : (ii * L + jj) / L = ii := by
      rw [Nat.mul_comm, Nat.mul_add_div hL, Nat.div_eq_of_lt hj, Nat.add_zero]
    -- (a vectorised source addresses the element through its flat index: `% L` is the column, `/ L` the row)
    have hmI : ((ii : Int) * (L : Int) + (jj : Int)) % (L : Int) = (jj : Int) := by exact_mod_cast hm
    have hdI : ((ii : Int) * (L : Int) + (jj : Int)) / (L : Int) = (ii : Int) := by exact_mod_cast hd
    simp only [qamGridPoint, hm, hd, Generated.C01.qamRe, Generated.C01.qamIm, Prod.mk.injEq, hmI, hdI]
    constructor <;> ring
  · -- the sizes a vectorised construction relies on (`True` for the explicit loops)
    intro L hL
    have hL' : (1 : Int) ≤ (L : Int) := by exact_mod_cast hL
    unfold Generated.C01.qamShapeOk
    repeat' apply And.intro
    all_goals first | trivial | rfl | omega | ring
  · intro L hL
    have h1 : 1 ≤ L * L := by nlinarith
    -- (`ring` absorbs a re-ordered spelling of the same product, e.g. `2.0 * (M - 1) / 3.0`)
    (simp only [Generated.C01.qamAvgEnergy]; rw [Nat.cast_sub h1]) <;> ring
  · intro M k φ
    simp only [pskNaturalPoint, Generated.C01.pskPhase, Trig.cos, Trig.sin, Trig.pi]

/-- non-vacuity of the detection theorems: a two-point constellation over ℚ -/
example : demod ([(1, 0), (-1, 0)] : List (ℚ × ℚ)) (-3/10, 7) = 1 := by decide +kernel

/-- **Maximum-likelihood detection under AWGN** (the parenthesis of the property): for every table, every
    sample and every noise level `σ > 0`, the point `demod` returns maximises the AWGN likelihood
    `exp(−|r − p|²/2σ²)/(2πσ²)` over the table (the likelihood is a strictly decreasing function of the
    squared distance: `awgnLik_strict`). -/
theorem demod_is_maximum_likelihood (c : List (ℝ × ℝ)) (hc : c ≠ []) (r : ℝ × ℝ) {σ : ℝ} (hσ : 0 < σ) :
    ∃ p, c[demod c r]? = some p ∧ ∀ q ∈ c, awgnLik σ r q ≤ awgnLik σ r p :=
  demod_max_likelihood c hc r hσ

end PyPhysim.C01
