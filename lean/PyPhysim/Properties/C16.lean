import PyPhysim.Proofs.C16
import PyPhysim.Proofs.C16Dmin
import PyPhysim.Proofs.C16ExactPsk
import PyPhysim.Generated.C16Formulas

/-!
# C16 — theoretical error-rate curves

Property theorems only. `Q` is any function with the order/limit properties of
the Gaussian tail (`IsQ`: antitone, `Q 0 = 1/2`, non-negative, `→ 0`); the code's
`qfunc = 0.5·erfc(x/√2)` is checked against `math.erfc` by the harness.  The
formulas are the model `PyPhysim.Model.C16`, tied to `fundamental.py` by the
correspondence of `harness/props/c16.py` (coefficient and `Q`-argument of every
formula, every modulator/order, SNR −30…60 dB).
-/
namespace PyPhysim.C16
open PyPhysim.C01 Filter Topology

variable {Q : ℝ → ℝ}

/-! ### tie to the source: the formulas re-translated from `fundamental.py` on every run
(`PyPhysim.Generated.C16`) are the model's formulas, as functions on ℝ.  A changed
coefficient, argument or exponent in the source breaks this theorem. -/

/-- PSK / BPSK / QAM SER and BER, PER and spectral efficiency as written in the current
    source equal the model formulas all other theorems are about. -/
theorem generated_formulas_match_model (Q : ℝ → ℝ) (M k L : Nat) (s ber K : ℝ) :
    Generated.C16.pskSER Q M s = pskSER Q M s ∧
    Generated.C16.pskBER Q M k s = pskBER Q M k s ∧
    Generated.C16.bpskSER Q s = bpskSER Q s ∧
    Generated.C16.bpskBER Q s = bpskSER Q s ∧
    Generated.C16.qamSER Q M s = qamSER Q M s ∧
    Generated.C16.qamBER Q M k s = qamBER Q M k s ∧
    Generated.C16.per ber L = per ber L ∧
    Generated.C16.spectralEff K ber = spectralEff K ber := by
  refine ⟨?_, ?_, ?_, ?_, ?_, ?_, ?_, ?_⟩ <;>
    simp only [Generated.C16.pskSER, Generated.C16.pskBER, Generated.C16.bpskSER, Generated.C16.bpskBER,
      Generated.C16.qamPsc, Generated.C16.qamSER, Generated.C16.qamBER, Generated.C16.per,
      Generated.C16.spectralEff, Generated.C16.dB2Linear, pskSER, pskBER, pskArg, bpskSER, bpskArg,
      qamSER, qamBER, qamPsc, qamCoef, qamArg, per, spectralEff, db2lin, Trig.sqrt,
      Real.sqrt_mul (Nat.cast_nonneg 2 : (0 : ℝ) ≤ ((2 : Nat) : ℝ))] <;>
    try ring_nf

/-! ### PSK -/

/-- PSK SER is a probability, for every `M ≥ 1` and every SNR. -/
theorem psk_ser_unit (hQ : IsQ Q) (M : Nat) (hM : 1 ≤ M) (s : ℝ) :
    0 ≤ pskSER Q M s ∧ pskSER Q M s ≤ 1 := by
  have hb := Q_bounds hQ (pskArg M s) (by rw [pskArg_eq]; exact argShape_nonneg _ _ (sin_pi_div_nonneg M hM) s)
  simp only [pskSER]
  have : ((2:Nat):ℝ) = 2 := by norm_num
  rw [this]; constructor <;> linarith [hb.1, hb.2]

/-- PSK SER never increases with SNR. -/
theorem psk_ser_antitone (hQ : IsQ Q) (M : Nat) (hM : 1 ≤ M) : Antitone (pskSER Q M) := by
  intro s t h
  simp only [pskSER]
  have : ((2:Nat):ℝ) = 2 := by norm_num
  rw [this]
  have := hQ.anti (by rw [pskArg_eq, pskArg_eq]; exact argShape_mono 2 _ (by norm_num) (sin_pi_div_nonneg M hM) h :
    pskArg M s ≤ pskArg M t)
  linarith

/-- PSK SER tends to 0 as SNR grows (`M ≥ 2`). -/
theorem psk_ser_tendsto (hQ : IsQ Q) (M : Nat) (hM : 2 ≤ M) : Tendsto (pskSER Q M) atTop (𝓝 0) := by
  have harg : Tendsto (pskArg (α := ℝ) M) atTop atTop := by
    have : pskArg (α := ℝ) M = argShape 2 (Real.sin (Real.pi / (M:ℝ))) := funext (pskArg_eq M)
    rw [this]; exact argShape_tendsto 2 _ (by norm_num) (sin_pi_div_pos M hM)
  have := (hQ.lim.comp harg).const_mul ((2:Nat):ℝ)
  have e : pskSER Q M = fun x => ((2:Nat):ℝ) * (Q ∘ pskArg M) x := by funext x; simp [pskSER]
  rw [e]; simpa using this

/-- PSK: `BER ≤ SER = k·BER` for `k = log2 M ≥ 1` bits per symbol. -/
theorem psk_ber_ser (hQ : IsQ Q) (M k : Nat) (hM : 1 ≤ M) (hk : 1 ≤ k) (s : ℝ) :
    pskBER Q M k s ≤ pskSER Q M s ∧ pskSER Q M s = k * pskBER Q M k s := by
  have hk' : (1:ℝ) ≤ k := by exact_mod_cast hk
  have hpos : (0:ℝ) < k := by linarith
  have h0 := (psk_ser_unit hQ M hM s).1
  simp only [pskBER]
  have h1 : ((1:Nat):ℝ) = 1 := by norm_num
  rw [h1]
  constructor
  · rw [div_mul_eq_mul_div, one_mul, div_le_iff₀ hpos]; nlinarith
  · field_simp

/-! ### BPSK -/

/-- BPSK SER (= BER) is a probability, antitone in SNR, and tends to 0. -/
theorem bpsk_ser (hQ : IsQ Q) :
    (∀ s, 0 ≤ bpskSER Q s ∧ bpskSER Q s ≤ 1) ∧ Antitone (bpskSER Q) ∧
      Tendsto (bpskSER Q) atTop (𝓝 0) := by
  refine ⟨fun s => ?_, ?_, ?_⟩
  · have hb := Q_bounds hQ (bpskArg s) (by rw [bpskArg_eq]; exact argShape_nonneg _ _ zero_le_one s)
    simp only [bpskSER]; constructor <;> linarith [hb.1, hb.2]
  · intro s t h
    simp only [bpskSER]
    exact hQ.anti (by rw [bpskArg_eq, bpskArg_eq]; exact argShape_mono 2 1 (by norm_num) zero_le_one h)
  · have harg : Tendsto (bpskArg (α := ℝ)) atTop atTop := by
      have : bpskArg (α := ℝ) = argShape 2 1 := funext bpskArg_eq
      rw [this]; exact argShape_tendsto 2 1 (by norm_num) one_pos
    have e : bpskSER Q = Q ∘ bpskArg := by funext x; simp [bpskSER]
    rw [e]; exact hQ.lim.comp harg

/-! ### square QAM -/

/-- per-carrier error rate `Psc ∈ [0, 1 − 1/√M] ⊂ [0,1)` -/
theorem qam_psc_bounds (hQ : IsQ Q) (M : Nat) (hM : 2 ≤ M) (s : ℝ) :
    0 ≤ qamPsc Q M s ∧ qamPsc Q M s < 1 := by
  have hM1 : (0:ℝ) ≤ 3 / ((M:ℝ) - 1) := by
    have : (2:ℝ) ≤ M := by exact_mod_cast hM
    apply div_nonneg (by norm_num); linarith
  have hb := Q_bounds hQ (qamArg M s) (by rw [qamArg_eq]; exact argShape_nonneg _ _ zero_le_one s)
  have hc := qamCoef_bounds M (by omega)
  simp only [qamPsc]
  constructor
  · exact mul_nonneg hc.1 hb.1
  · nlinarith [hc.1, hc.2, hb.1, hb.2]

/-- QAM SER and BER are probabilities (`k ≥ 2` bits per symbol). -/
theorem qam_unit (hQ : IsQ Q) (M k : Nat) (hM : 2 ≤ M) (hk : 2 ≤ k) (s : ℝ) :
    (0 ≤ qamSER Q M s ∧ qamSER Q M s ≤ 1) ∧ (0 ≤ qamBER Q M k s ∧ qamBER Q M k s ≤ 1) := by
  obtain ⟨h0, h1⟩ := qam_psc_bounds hQ M hM s
  have hk' : (2:ℝ) ≤ k := by exact_mod_cast hk
  have hkpos : (0:ℝ) < k := by linarith
  have e1 : ((1:Nat):ℝ) = 1 := by norm_num
  have e2 : ((2:Nat):ℝ) = 2 := by norm_num
  simp only [qamSER, qamBER, e1, e2]
  refine ⟨⟨by nlinarith, by nlinarith [mul_self_nonneg (1 - qamPsc Q M s)]⟩, ?_, ?_⟩
  · positivity
  · rw [div_le_one hkpos]; nlinarith

/-- QAM: `BER ≤ SER ≤ k·BER`. -/
theorem qam_ber_ser (hQ : IsQ Q) (M k : Nat) (hM : 2 ≤ M) (hk : 2 ≤ k) (s : ℝ) :
    qamBER Q M k s ≤ qamSER Q M s ∧ qamSER Q M s ≤ k * qamBER Q M k s := by
  obtain ⟨h0, h1⟩ := qam_psc_bounds hQ M hM s
  have hk' : (2:ℝ) ≤ k := by exact_mod_cast hk
  have hkpos : (0:ℝ) < k := by linarith
  have e1 : ((1:Nat):ℝ) = 1 := by norm_num
  have e2 : ((2:Nat):ℝ) = 2 := by norm_num
  simp only [qamSER, qamBER, e1, e2]
  constructor
  · rw [div_le_iff₀ hkpos]
    nlinarith [mul_nonneg h0 (sub_nonneg.mpr (le_of_lt h1)),
      mul_nonneg (mul_nonneg h0 (by linarith : (0:ℝ) ≤ 2 - qamPsc Q M s)) (sub_nonneg.mpr hk')]
  · rw [mul_div_cancel₀ _ (ne_of_gt hkpos)]; nlinarith [mul_self_nonneg (qamPsc Q M s)]

/-- QAM SER and BER never increase with SNR. -/
theorem qam_antitone (hQ : IsQ Q) (M k : Nat) (hM : 2 ≤ M) :
    Antitone (qamSER Q M) ∧ Antitone (qamBER Q M k) := by
  have hM1 : (0:ℝ) ≤ 3 / ((M:ℝ) - 1) := by
    have : (2:ℝ) ≤ M := by exact_mod_cast hM
    apply div_nonneg (by norm_num); linarith
  have hp : Antitone (qamPsc Q M) := by
    intro s t h
    simp only [qamPsc]
    apply mul_le_mul_of_nonneg_left _ (qamCoef_bounds M (by omega)).1
    exact hQ.anti (by rw [qamArg_eq, qamArg_eq]; exact argShape_mono _ 1 hM1 zero_le_one h)
  have e1 : ((1:Nat):ℝ) = 1 := by norm_num
  have e2 : ((2:Nat):ℝ) = 2 := by norm_num
  constructor
  · intro s t h
    have := hp h
    obtain ⟨a0, a1⟩ := qam_psc_bounds hQ M hM s
    obtain ⟨b0, b1⟩ := qam_psc_bounds hQ M hM t
    simp only [qamSER, e1]
    nlinarith
  · intro s t h
    have := hp h
    simp only [qamBER, e2]
    apply div_le_div_of_nonneg_right _ (Nat.cast_nonneg k)
    linarith

/-- QAM SER and BER tend to 0 as SNR grows. -/
theorem qam_tendsto (hQ : IsQ Q) (M k : Nat) (hM : 2 ≤ M) :
    Tendsto (qamSER Q M) atTop (𝓝 0) ∧ Tendsto (qamBER Q M k) atTop (𝓝 0) := by
  have hM1 : (0:ℝ) < 3 / ((M:ℝ) - 1) := by
    have : (2:ℝ) ≤ M := by exact_mod_cast hM
    apply div_pos (by norm_num); linarith
  have harg : Tendsto (qamArg (α := ℝ) M) atTop atTop := by
    have : qamArg (α := ℝ) M = argShape (3 / ((M:ℝ) - 1)) 1 := funext (qamArg_eq M)
    rw [this]; exact argShape_tendsto _ 1 hM1 one_pos
  have hp : Tendsto (qamPsc Q M) atTop (𝓝 0) := by
    have := (hQ.lim.comp harg).const_mul (qamCoef (α := ℝ) M)
    have e : qamPsc Q M = fun x => qamCoef (α := ℝ) M * (Q ∘ qamArg M) x := by funext x; simp [qamPsc]
    rw [e]; simpa using this
  have e1 : ((1:Nat):ℝ) = 1 := by norm_num
  have e2 : ((2:Nat):ℝ) = 2 := by norm_num
  constructor
  · have h1 : Tendsto (fun s => (1:ℝ) - (1 - qamPsc Q M s) * (1 - qamPsc Q M s)) atTop (𝓝 (1 - (1 - 0) * (1 - 0))) :=
      tendsto_const_nhds.sub ((tendsto_const_nhds.sub hp).mul (tendsto_const_nhds.sub hp))
    have e : qamSER Q M = fun s => (1:ℝ) - (1 - qamPsc Q M s) * (1 - qamPsc Q M s) := by
      funext x; simp [qamSER]
    rw [e]; simpa using h1
  · have h2 : Tendsto (fun s => (2:ℝ) * qamPsc Q M s / (k:ℝ)) atTop (𝓝 (2 * 0 / (k:ℝ))) :=
      (hp.const_mul 2).div_const _
    have e : qamBER Q M k = fun s => (2:ℝ) * qamPsc Q M s / (k:ℝ) := by
      funext x; simp [qamBER]
    rw [e]; simpa using h2

/-! ### packet error rate and spectral efficiency -/

/-- `PER = 1 − (1 − BER)^L` is a probability whenever BER is, and is monotone in BER
    (so it is antitone in SNR and tends to 0 with BER). -/
theorem per_unit_mono (L : Nat) :
    (∀ b : ℝ, 0 ≤ b → b ≤ 1 → 0 ≤ per b L ∧ per b L ≤ 1) ∧
    (∀ a b : ℝ, 0 ≤ a → a ≤ b → b ≤ 1 → per a L ≤ per b L) ∧ per (0:ℝ) L = 0 := by
  have e1 : ((1:Nat):ℝ) = 1 := by norm_num
  refine ⟨fun b h0 h1 => ?_, fun a b h0 hab h1 => ?_, ?_⟩
  · simp only [per, powNat_eq, e1]
    have hx0 : (0:ℝ) ≤ 1 - b := by linarith
    have hx1 : 1 - b ≤ 1 := by linarith
    exact ⟨by linarith [pow_le_one₀ hx0 hx1 (n := L)], by linarith [pow_nonneg hx0 L]⟩
  · simp only [per, powNat_eq, e1]
    have : (1 - b) ^ L ≤ (1 - a) ^ L := pow_le_pow_left₀ (by linarith) (by linarith) L
    linarith
  · simp [per, powNat_eq]

/-- `PER` is exactly `1 − (1 − BER)^L`, spectral efficiency exactly `K·(1 − PER)`. -/
theorem per_se_def (ber K : ℝ) (L : Nat) :
    per ber L = 1 - (1 - ber) ^ L ∧ spectralEff K (per ber L) = K * (1 - (1 - (1 - ber) ^ L)) := by
  simp [per, spectralEff, powNat_eq]

/-! ### the formulas are the ones implied by the emitted constellation

`σ² = 1/(2γ)` is the noise variance per real dimension at unit mean symbol
energy (`sigma`).  The constellations are those of the C01 model (tied to the
code there): a change of scaling or of a formula breaks one of these identities. -/

/-- BPSK: points `±1`, `d_min = 2`, argument of `Q` is `d_min/(2σ)`. -/
theorem bpsk_arg_is_dmin (s : ℝ) : bpskArg s = 2 / (2 * sigma s) := by
  rw [arg_general, bpskArg_eq]; simp [argShape]

/-- PSK: neighbouring points are `2·sin(π/M)` apart, no pair is closer, and the
    argument of `Q` is that `d_min/(2σ)` (two nearest neighbours ⇒ coefficient 2). -/
theorem psk_arg_is_dmin (M : Nat) (hM : 2 ≤ M) (φ s : ℝ) :
    (∀ k, dist2 (pskNaturalPoint M (k+1) φ) (pskNaturalPoint (α := ℝ) M k φ) = (2 * Real.sin (Real.pi / M)) ^ 2) ∧
    (∀ k₁ k₂, k₁ < M → k₂ < M → k₁ ≠ k₂ →
      (2 * Real.sin (Real.pi / M)) ^ 2 ≤ dist2 (pskNaturalPoint M k₁ φ) (pskNaturalPoint (α := ℝ) M k₂ φ)) ∧
    pskArg M s = (2 * Real.sin (Real.pi / M)) / (2 * sigma s) := by
  refine ⟨fun k => psk_adjacent_dist2 M k (by omega) φ,
    fun k₁ k₂ h₁ h₂ hne => psk_min_dist2 M k₁ k₂ h₁ h₂ hne φ, ?_⟩
  rw [arg_general, pskArg_eq]; unfold argShape; ring

/-- QAM (`M = L²`): distinct grid cells are at least one step (2 units) apart, horizontal
    neighbours exactly one step; after the code's scaling by `e = sqrt((M−1)·2/3)` that is
    `d_min = 2/e`, and the argument of `Q` is `d_min/(2σ)`. -/
theorem qam_arg_is_dmin (L : Nat) (hL : 2 ≤ L) (s : ℝ) :
    (∀ a b, a ≠ b → 4 ≤ dist2 (qamGridPoint L a) (qamGridPoint L b)) ∧
    (∀ a, a % L + 1 < L → dist2 (qamGridPoint L (a + 1)) (qamGridPoint L a) = 4) ∧
    qamArg (L * L) s =
      (2 / Real.sqrt ((((L * L - 1 : Nat) : ℝ) * ((2 : Nat) : ℝ)) / ((3 : Nat) : ℝ))) / (2 * sigma s) :=
  ⟨fun a b h => qam_grid_min_dist2 L (by omega) a b h,
   fun a h => qam_grid_adjacent_dist2 L a (by omega) h, qam_arg_general L hL s⟩

/-- QAM coefficient `2(1 − 1/√M)` is the mean number of nearest neighbours per axis of an
    `L`-level row: `(2·(L−2) + 1·2)/L`. -/
theorem qam_coef_is_neighbour_count (L : Nat) (hL : 2 ≤ L) :
    qamCoef (α := ℝ) (L * L) = (2 * ((L:ℝ) - 2) + 1 * 2) / L := by
  rw [qamCoef_eq]
  have hLr : (2:ℝ) ≤ L := by exact_mod_cast hL
  have : Real.sqrt ((L * L : Nat) : ℝ) = L := by
    push_cast; exact Real.sqrt_mul_self (by linarith)
  rw [this]
  have : (L:ℝ) ≠ 0 := by linarith
  field_simp; ring

/-- non-vacuity: `IsQ` is satisfiable (e.g. `x ↦ 1/(2(1+max x 0))`), so the theorems are not empty -/
example : ∃ Q : ℝ → ℝ, IsQ Q := by
  refine ⟨fun x => 1 / (2 * (1 + max x 0)), ?_, ?_, ?_, ?_⟩
  · intro a b h
    have ha : (0:ℝ) ≤ max a 0 := le_max_right _ _
    have hm : max a 0 ≤ max b 0 := max_le_max h (le_refl _)
    apply one_div_le_one_div_of_le (by positivity); linarith
  · simp
  · intro x; have : (0:ℝ) ≤ max x 0 := le_max_right _ _; positivity
  · have h1 : Tendsto (fun x : ℝ => 2 * (1 + max x 0)) atTop atTop := by
      apply Tendsto.const_mul_atTop (by norm_num)
      apply tendsto_atTop_add_const_left
      exact tendsto_atTop_mono (fun x => le_max_left x 0) tendsto_id
    have := tendsto_inv_atTop_zero.comp h1
    refine this.congr (fun x => ?_)
    simp [Function.comp]

/-! ### the formulas ARE the AWGN error rates of the modelled detector (Gaussian integrals, not assumed)

`Qg x = P(N > x)`, `N ~ 𝒩(0,1)` (Mathlib's `gaussianReal`); the noise is independent `𝒩(0, σ²)` on
the two real dimensions with `σ² = 1/(2γ)` (`sigma`), the detector is `Model/C01`'s `bpskDemod` /
`demod`, the constellation is the emitted one (`pskNatural`, `qamNatural`).  Relabelling (the Gray
permutation of C15) permutes the symbols and leaves these per-symbol / averaged rates unchanged. -/

/-- The abstract hypotheses `IsQ` hold for the actual Gaussian tail: every theorem above applies to the
    real `Q` function. -/
theorem gaussian_tail_is_Q : IsQ Qg := isQ_gaussian

/-- **BPSK: the formula is exact.**  Whichever bit is sent (`0 ↦ +1`, `1 ↦ −1`), the sign detector errs
    with probability `Q(√(2γ)) = calcTheoreticalSER`. -/
theorem bpsk_ser_is_exact (s : ℝ) :
    (noise (sigma s)).real {n : ℝ | bpskDemod ((1:ℝ) + n) ≠ 0} = bpskSER Qg s ∧
    (noise (sigma s)).real {n : ℝ | bpskDemod ((-1:ℝ) + n) ≠ 1} = bpskSER Qg s :=
  ⟨bpsk_error_prob_bit0 s, bpsk_error_prob_bit1 s⟩

/-- **Square QAM: the formula is exact**, for every `L ≥ 2` (`M = L²`) and every SNR: one minus the
    average probability of a correct nearest-point decision over the `M` emitted points equals
    `1 − (1 − 2(1 − 1/√M)·Q(√(3γ/(M−1))))²`.  (`qam_points_are_grid` says the points summed over are exactly
    the emitted table.) -/
theorem qam_ser_exact (L : Nat) (hL : 2 ≤ L) (s : ℝ) :
    1 - (∑ i ∈ Finset.range L, ∑ j ∈ Finset.range L,
          (noise2 (sigma s)).real
            (correctNoise (qamNatural (α := ℝ) L) (gpt (1 / qamE L) L j i) (i * L + j))) / ((L:ℝ) * L)
      = qamSER Qg (L * L) s :=
  qam_ser_is_exact L hL s

/-- the point used for index `i·L + j` in `qam_ser_exact` is the table entry at that index -/
theorem qam_points_are_grid (L : Nat) {j i : Nat} (hj : j < L) (hi : i < L) :
    (qamNatural (α := ℝ) L)[i * L + j]? = some (gpt (1 / qamE L) L j i) :=
  qamNatural_getElem? L hj hi

/-- per-point version: the point in column `j`, row `i` is detected correctly with probability
    `(1 − c_j Q)(1 − c_i Q)`, `c = 1` on an edge, `2` inside — the neighbour structure of the grid -/
theorem qam_point_correct_prob (L : Nat) (hL : 2 ≤ L) (s : ℝ) {j i : Nat} (hj : j < L) (hi : i < L) :
    (noise2 (sigma s)).real (correctNoise (qamNatural (α := ℝ) L) (gpt (1 / qamE L) L j i) (i * L + j)) =
      (1 - (cnt L j : ℝ) * Qg (1 / qamE L / sigma s)) * (1 - (cnt L i : ℝ) * Qg (1 / qamE L / sigma s)) := by
  have he : 0 < qamE L := qam_scale_pos L hL
  rw [qamNatural_eq_grid]
  exact prob_correct (sigma_pos s) (by positivity) hj hi

/-- **PSK: the two-nearest-neighbour formula lies between the exact error rate and twice it**, for every
    `M ≥ 2`, every phase offset, every symbol `k`, every SNR and EVERY labelling `c` of the points (any table
    with the same points in any order — the natural order, the Gray order of the constructor, the order
    `setPhaseOffset` leaves behind): with `Pe = 1 − P(correct | k)` the exact symbol error probability of the
    nearest-point detector, `Pe ≤ calcTheoreticalSER ≤ 2·Pe`. -/
theorem psk_ser_between_exact_and_twice (M : Nat) (hM : 2 ≤ M) (k : Nat) (hk : k < M) (φ s : ℝ)
    (c : List (ℝ × ℝ)) (hmem : ∀ q, q ∈ c ↔ q ∈ pskNatural (α := ℝ) M φ) (hnd : c.Nodup) (l : Nat)
    (hl : c[l]? = some (pskNaturalPoint M k φ)) :
    let Pe := 1 - (noise2 (sigma s)).real (correctNoise c (pskNaturalPoint M k φ) l)
    Pe ≤ pskSER Qg M s ∧ pskSER Qg M s ≤ 2 * Pe := by
  intro Pe
  have hle := psk_correct_le M hM k hk φ s c hmem l hl
  have hge : 1 - 2 * Qg (pskArg M s) ≤ (noise2 (sigma s)).real
      (correctNoise c (pskNaturalPoint M k φ) l) := by
    rcases Nat.lt_or_ge M 3 with h | h
    · have : M = 2 := by omega
      subst this
      exact psk_correct_ge_two k hk φ s c hmem hnd l hl
    · exact psk_correct_ge M h k hk φ s c hmem hnd l hl
  have h2 : ((2:Nat):ℝ) = 2 := by norm_num
  simp only [pskSER, h2, Pe]
  constructor <;> linarith

/-- non-vacuity / the natural table is such a labelling -/
theorem psk_natural_is_a_labelling (M k : Nat) (hk : k < M) (φ : ℝ) :
    (∀ q, q ∈ pskNatural (α := ℝ) M φ ↔ q ∈ pskNatural (α := ℝ) M φ) ∧ (pskNatural (α := ℝ) M φ).Nodup ∧
    (pskNatural (α := ℝ) M φ)[k]? = some (pskNaturalPoint M k φ) :=
  ⟨fun _ => Iff.rfl, psk_natural_nodup M φ, pskNatural_getElem? M k hk φ⟩

/-- QAM, any labelling: a table with the grid's points in any order (e.g. the Gray relabelling) detects the
    point of column `j`, row `i`, carried at label `l`, correctly with probability `(1 − c_j Q)(1 − c_i Q)`;
    hence the average over all labels — the SER — is the same for every labelling. -/
theorem qam_point_correct_prob_any_labelling (L : Nat) (hL : 2 ≤ L) (s : ℝ) {j i : Nat} (hj : j < L) (hi : i < L)
    (c : List (ℝ × ℝ)) (hmem : ∀ q, q ∈ c ↔ q ∈ qamNatural (α := ℝ) L) (hnd : c.Nodup) (l : Nat)
    (hl : c[l]? = some (gpt (1 / qamE L) L j i)) :
    (noise2 (sigma s)).real (correctNoise c (gpt (1 / qamE L) L j i) l) =
      (1 - (cnt L j : ℝ) * Qg (1 / qamE L / sigma s)) * (1 - (cnt L i : ℝ) * Qg (1 / qamE L / sigma s)) := by
  have he : 0 < qamE L := qam_scale_pos L hL
  rw [qamNatural_eq_grid] at hmem
  exact prob_correct_any_labelling (sigma_pos s) (by positivity) hj hi c hmem hnd l hl

/-- pairwise error probability behind all three: under isotropic Gaussian noise the sample is (strictly
    or weakly) closer to another point `q` than to the transmitted `p` with probability `Q(|q − p|/2σ)` -/
theorem pairwise_error_probability {σ : ℝ} (hσ : 0 < σ) (p q : ℝ × ℝ) (hne : 0 < dist2 q p) :
    (noise2 σ).real {n | dist2 (p.1 + n.1, p.2 + n.2) q < dist2 (p.1 + n.1, p.2 + n.2) p} =
        Qg (Real.sqrt (dist2 q p) / (2 * σ)) ∧
    (noise2 σ).real {n | dist2 (p.1 + n.1, p.2 + n.2) q ≤ dist2 (p.1 + n.1, p.2 + n.2) p} =
        Qg (Real.sqrt (dist2 q p) / (2 * σ)) :=
  halfplane_prob hσ p q hne

end PyPhysim.C16
