import Mathlib.Tactic.Ring
import Mathlib.Tactic.Linarith
import PyPhysim.Proofs.GrayGenerated
import PyPhysim.Proofs.C15Geom
import PyPhysim.Proofs.C15QamRepaired
import PyPhysim.Proofs.C15Robust

/-!
# C15 — Gray conversion is a bijection; constellations are Gray labelled

Property theorems only.  `binary2gray`, `gray2binary`, `xor`, `count_bits`,
`int2bits`, `level2bits` are the definitions **regenerated from the current
source** (`PyPhysim.Generated`).  The label maps `pskPosInit`, `qamPos`,
`pskPosAfterSetOffset` are hand models of `fundamental.py`, tied to the code by
the exact table correspondence of `harness/props/c15.py`.
-/
namespace PyPhysim.C15
open PyPhysim.Gray PyPhysim.Proto
open PyPhysim.Generated (binary2gray gray2binary count_bits int2bits level2bits)

/-- Binary→Gray and Gray→binary are mutually inverse on every integer of the
    64-bit range (the property asks for `[0, 2^62)`). -/
theorem gray_roundtrip (n : Nat) (h : n < 2^64) :
    gray2binary (binary2gray n) = n ∧ binary2gray (gray2binary n) = n := by
  rw [gen_b2g, gen_g2b]
  exact ⟨g2b_b2g 6 n (by simpa using h), b2g_g2b 6 n (by simpa using h)⟩

/-- Both conversions stay inside any power-of-two range (in particular inside
    the integer type used, and inside `[0,M)` for constellation indexes). -/
theorem gray_range (n k : Nat) (h : n < 2^k) :
    binary2gray n < 2^k ∧ gray2binary n < 2^k := by
  rw [gen_b2g, gen_g2b]
  exact ⟨b2g_lt n k h, g2b_lt 6 n k h⟩

/-- hence both are bijections of `[0, 2^k)` for every `k ≤ 64` -/
theorem gray_injective (a b : Nat) (ha : a < 2^64) (hb : b < 2^64)
    (h : binary2gray a = binary2gray b) : a = b := by
  have := (gray_roundtrip a ha).1
  rw [h, (gray_roundtrip b hb).1] at this
  exact this.symm

/-- Consecutive integers map to Gray codes exactly one bit apart (every `n`). -/
theorem gray_consecutive_one_bit (n : Nat) :
    count_bits (Generated.xor (binary2gray n) (binary2gray (n+1))) = .ok 1 := by
  rw [gen_count_bits, gen_b2g]
  obtain ⟨k, hk⟩ := b2g_succ_one_bit n
  show Except.ok (popcount (b2g n ^^^ b2g (n+1))) = _
  rw [hk, popcount_two_pow]

/-- … and so do the last and the first code of every `2^(k+1)`-element cycle. -/
theorem gray_wrap_one_bit (k : Nat) :
    count_bits (Generated.xor (binary2gray (2^(k+1) - 1)) (binary2gray 0)) = .ok 1 := by
  rw [gen_count_bits, gen_b2g]
  show Except.ok (popcount (b2g (2^(k+1) - 1) ^^^ b2g 0)) = _
  rw [b2g_ones]
  have : b2g 0 = 0 := by decide
  rw [this, Nat.xor_zero, popcount_two_pow]

/-- `count_bits` terminates (never runs out of fuel) and returns the number of
    set bits. -/
theorem count_bits_popcount (k n : Nat) (h : n < 2^k) :
    count_bits n = .ok ((List.range k).filter (fun i => n.testBit i)).length := by
  rw [gen_count_bits, popcount_eq_count k n h]

/-- Bit errors between two index arrays = sum of the per-element Hamming
    distances (number of differing bit positions). Model of
    `count_bit_errors = np.sum(count_bits(xor(first, second)))`. -/
theorem bit_errors_hamming (k : Nat) (as bs : List Nat)
    (ha : ∀ a ∈ as, a < 2^k) (hb : ∀ b ∈ bs, b < 2^k) :
    (List.zipWith (fun a b => count_bits (Generated.xor a b)) as bs)
      = (List.zipWith (fun a b => Except.ok
          ((List.range k).filter (fun i => a.testBit i != b.testBit i)).length) as bs) := by
  induction as generalizing bs with
  | nil => simp
  | cons a as ih =>
    cases bs with
    | nil => simp
    | cons b bs =>
      simp only [List.zipWith_cons_cons]
      have hx : a ^^^ b < 2^k :=
        Nat.xor_lt_two_pow (ha a (by simp)) (hb b (by simp))
      congr 1
      · show count_bits (a ^^^ b) = _
        rw [count_bits_popcount k _ hx]
        simp [Nat.testBit_xor, bne]
      · exact ih bs (fun x hx => ha x (by simp [hx])) (fun x hx => hb x (by simp [hx]))

/-- `int2bits` / `level2bits` terminate and return the binary length. -/
theorem int2bits_spec (n : Nat) : int2bits n = .ok (if n = 0 then 1 else bitlen n) :=
  gen_int2bits n

theorem level2bits_spec (n : Nat) :
    level2bits n = if n < 1 then .error .ValueError
      else .ok (if n = 1 then 1 else bitlen (n - 1)) := gen_level2bits n

/-- PSK at construction, every `M = 2^m` (`1 ≤ m ≤ 64`): two labels whose
    points are neighbours on the circle differ in exactly one bit. -/
theorem psk_gray (m : Nat) (hm : 1 ≤ m) (hm64 : m ≤ 64) (l₁ l₂ : Nat)
    (h₁ : l₁ < 2^m) (h₂ : l₂ < 2^m)
    (hadj : ringAdjacent (2^m) (pskPosInit gray2binary l₁) (pskPosInit gray2binary l₂) = true) :
    hamming l₁ l₂ = 1 := by
  have hM : (2:Nat)^m ≤ 2^64 := Nat.pow_le_pow_right (by norm_num) hm64
  have e₁ := (gray_roundtrip l₁ (by omega)).2
  have e₂ := (gray_roundtrip l₂ (by omega)).2
  have r₁ := (gray_range l₁ m h₁).2
  have r₂ := (gray_range l₂ m h₂).2
  simp only [pskPosInit] at hadj
  generalize gray2binary l₁ = p₁ at *
  generalize gray2binary l₂ = p₂ at *
  rw [gen_b2g] at e₁ e₂
  subst e₁ e₂
  -- one-bit facts for a step and for the wrap-around
  have stepfact : ∀ p, hamming (b2g p) (b2g (p+1)) = 1 := by
    intro p; obtain ⟨k, hk⟩ := b2g_succ_one_bit p
    simp [hamming, hk, popcount_two_pow]
  have wrapfact : hamming (b2g (2^m - 1)) (b2g 0) = 1 := by
    obtain ⟨j, rfl⟩ : ∃ j, m = j + 1 := ⟨m - 1, by omega⟩
    have : b2g 0 = 0 := by decide
    simp [hamming, b2g_ones, this, popcount_two_pow]
  have hsymm : ∀ a b, hamming a b = hamming b a := by
    intro a b; simp [hamming, Nat.xor_comm]
  simp only [ringAdjacent, Bool.or_eq_true, beq_iff_eq] at hadj
  rcases hadj with h | h
  · by_cases hc : p₁ + 1 < 2^m
    · rw [Nat.mod_eq_of_lt hc] at h; subst h; exact stepfact p₁
    · have hp : p₁ = 2^m - 1 := by omega
      have : p₁ + 1 = 2^m := by omega
      rw [this, Nat.mod_self] at h
      subst h; rw [hp]; exact wrapfact
  · by_cases hc : p₂ + 1 < 2^m
    · rw [Nat.mod_eq_of_lt hc] at h; subst h; rw [hsymm]; exact stepfact p₂
    · have hp : p₂ = 2^m - 1 := by omega
      have : p₂ + 1 = 2^m := by omega
      rw [this, Nat.mod_self] at h
      subst h; rw [hsymm, hp]; exact wrapfact

/-- PSK at construction, full geometric statement over ℝ: for every `M = 2^m`
    (`1 ≤ m ≤ 64`) and every phase offset, any two distinct labels whose emitted points
    are at (at most) the minimum distance `2·sin(π/M)` differ in exactly one bit.
    (`psk_arg_is_dmin` in C16 shows `2·sin(π/M)` *is* the minimum over all pairs.) -/
theorem psk_min_distance_one_bit (m : Nat) (hm : 1 ≤ m) (hm64 : m ≤ 64) (φ : ℝ) (l₁ l₂ : Nat)
    (h₁ : l₁ < 2^m) (h₂ : l₂ < 2^m) (hne : l₁ ≠ l₂)
    (hd : PyPhysim.C01.dist2
        (PyPhysim.C01.pskNaturalPoint (2^m) (pskPosInit gray2binary l₁) φ)
        (PyPhysim.C01.pskNaturalPoint (α := ℝ) (2^m) (pskPosInit gray2binary l₂) φ)
      ≤ (2 * Real.sin (Real.pi / ((2^m : Nat) : ℝ))) ^ 2) :
    hamming l₁ l₂ = 1 := by
  have hM : (2:Nat)^m ≤ 2^64 := Nat.pow_le_pow_right (by norm_num) hm64
  apply psk_gray m hm hm64 l₁ l₂ h₁ h₂
  apply psk_min_pairs_adjacent (2^m) _ _ (gray_range l₁ m h₁).2 (gray_range l₂ m h₂).2 _ φ hd
  intro heq
  apply hne
  have e₁ := (gray_roundtrip l₁ (by omega)).2
  have e₂ := (gray_roundtrip l₂ (by omega)).2
  have heq' : gray2binary l₁ = gray2binary l₂ := heq
  rw [heq'] at e₁
  exact e₁.symm.trans e₂

/-- Square QAM, orders 4 and 16, geometric form on the integer grid of the C01 model: two
    distinct labels whose grid cells are one step apart (squared distance 4 = minimum) differ
    in one bit (whole table, kernel evaluation). -/
theorem qam_min_distance_one_bit_small :
    (∀ l₁ < 4, ∀ l₂ < 4, l₁ ≠ l₂ →
      PyPhysim.C01.dist2 (PyPhysim.C01.qamGridPoint 2 (qamPos binary2gray 1 2 l₁))
        (PyPhysim.C01.qamGridPoint 2 (qamPos binary2gray 1 2 l₂)) = 4 → hamming l₁ l₂ = 1) ∧
    (∀ l₁ < 16, ∀ l₂ < 16, l₁ ≠ l₂ →
      PyPhysim.C01.dist2 (PyPhysim.C01.qamGridPoint 4 (qamPos binary2gray 2 4 l₁))
        (PyPhysim.C01.qamGridPoint 4 (qamPos binary2gray 2 4 l₂)) = 4 → hamming l₁ l₂ = 1) := by
  constructor <;> decide +kernel

/-- Square QAM as the code builds it, orders 4 and 16 (whole table, by kernel
    evaluation): grid neighbours differ in one bit. -/
theorem qam_gray_small :
    (∀ l₁ < 4, ∀ l₂ < 4, gridAdjacent 2 (qamPos binary2gray 1 2 l₁) (qamPos binary2gray 1 2 l₂) = true →
        hamming l₁ l₂ = 1) ∧
    (∀ l₁ < 16, ∀ l₂ < 16, gridAdjacent 4 (qamPos binary2gray 2 4 l₁) (qamPos binary2gray 2 4 l₂) = true →
        hamming l₁ l₂ = 1) := by
  constructor <;> decide +kernel

/-- What is missing for QAM of every order: had `_calculateGrayMappingIndexQAM` used
    `gray2binary` (the inverse map) instead of `binary2gray`, grid neighbours would differ in
    exactly one bit for EVERY `L = 2^k` (`k ≤ 64`).  The code uses `binary2gray`, which agrees
    with this only for `L ≤ 4` (`qam_gray_small`); see `qam64_not_gray`. -/
theorem qam_gray_if_inverse_map (k : Nat) (hk : k ≤ 64) (l₁ l₂ : Nat)
    (h₁ : l₁ < 2^k * 2^k) (h₂ : l₂ < 2^k * 2^k)
    (hadj : gridAdjacent (2^k) (qamPos gray2binary k (2^k) l₁) (qamPos gray2binary k (2^k) l₂) = true) :
    hamming l₁ l₂ = 1 := by
  rw [gen_g2b] at hadj
  exact qam_gray_inverse_map k hk l₁ l₂ h₁ h₂ hadj

/-- NEGATIVE WITNESS (known finding `C15:QAM:labels-not-gray`): for 64-QAM the
    code's map (binary→Gray applied to the *index*, so grid cell `c` carries
    label `gray2binary c`) puts labels 2 and 7 on neighbouring columns although
    they differ in two bits. -/
theorem qam64_not_gray :
    gridAdjacent 8 (qamPos binary2gray 3 8 2) (qamPos binary2gray 3 8 7) = true ∧
    PyPhysim.C01.dist2 (PyPhysim.C01.qamGridPoint 8 (qamPos binary2gray 3 8 2))
        (PyPhysim.C01.qamGridPoint 8 (qamPos binary2gray 3 8 7)) = 4 ∧ hamming 2 7 = 2 := by
  decide +kernel

/-- NEGATIVE WITNESS (known finding `C15:PSK.setPhaseOffset:natural-order`):
    after `setPhaseOffset` labels 1 and 2 of a 4-PSK are neighbours and differ
    in two bits. -/
theorem setPhaseOffset_not_gray :
    ringAdjacent 4 (pskPosAfterSetOffset 1) (pskPosAfterSetOffset 2) = true ∧ hamming 1 2 = 2 := by
  decide +kernel

/-- non-vacuity: the hypotheses of `psk_gray` are met by 8-PSK labels 2 and 6 -/
example : ringAdjacent (2^3) (pskPosInit gray2binary 2) (pskPosInit gray2binary 6) = true := by
  decide +kernel

/-! ## R15 — distinct values that are merely close

The model never rounds, thresholds or compares a value "up to a tolerance": it is a function of the
exact value.  These statements make that explicit for every place where C15's code takes a value:
index arrays (bit errors, conversions) and the phase offset of a PSK object. -/
open PyPhysim.C15R in
/-- `count_bit_errors` reports zero errors only for *equal* index arrays — never for arrays that are
    merely close (2400000000 vs 2400020000, `n` vs `n+1` above 2^53, …). -/
theorem bit_errors_zero_only_if_equal (h : Heap) (i j : Nat) (hl : (h i).length = (h j).length) :
    result h (.biterr i j) = .num 0 ↔ h i = h j := by
  rw [result_biterr, Out.num.injEq, hamming_sum_eq_zero_iff _ _ hl]

/-- two distinct integers of the 64-bit range, however close, have distinct Gray codes and distinct
    decoded values (a conversion by lookup / cache must key on the exact integer). -/
theorem close_integers_distinct_codes (a b : Nat) (ha : a < 2^64) (hb : b < 2^64) (hne : a ≠ b) :
    binary2gray a ≠ binary2gray b ∧ gray2binary a ≠ gray2binary b := by
  refine ⟨fun h => hne (gray_injective a b ha hb h), fun h => hne ?_⟩
  have e := (gray_roundtrip a ha).2
  rw [h, (gray_roundtrip b hb).2] at e
  exact e.symm

/-- non-vacuity of `close_integers_distinct_codes`: two carrier-like values a relative 1e-5 apart -/
example : (2400000000 : Nat) < 2^64 ∧ (2400020000 : Nat) < 2^64 ∧ (2400000000 : Nat) ≠ 2400020000 := by decide

open PyPhysim.C15R PyPhysim.C01 in
/-- `setPhaseOffset φ` takes effect for EVERY value: the table afterwards is the natural
    constellation at `φ` itself, whatever the offset was before … -/
theorem setter_takes_effect_for_every_new_value {α : Type} [Trig α] [Add α] [Mul α] [Div α] [NatCast α]
    (s : Psk α) (φ : α) :
    (s.setOffset φ).offset = φ ∧
    (s.setOffset φ).table = (List.range s.M).map (fun l => pskNaturalPoint s.M l φ) := ⟨rfl, rfl⟩

open PyPhysim.C15R PyPhysim.C01 in
/-- … and over ℝ a new value that differs from the old one (by less than a full turn, in
    particular by 1e-15 or by one unit in the last place) gives a table different from the old
    one at label 0 — so "unchanged → skip" is never right for a close-but-different value. -/
theorem close_offsets_distinct_tables (s : Psk ℝ) (φ : ℝ) (hM : 1 ≤ s.M)
    (hne : φ ≠ s.offset) (hlt : |φ - s.offset| < 2 * Real.pi) :
    (s.setOffset φ).table[0]? ≠ s.table[0]? := by
  have hM' : 0 < s.M := hM
  have hp : s.pos 0 = 0 := by
    unfold Psk.pos; split
    · exact gray2binary_zero
    · rfl
  simp only [Psk.table, Psk.setOffset, List.getElem?_map, List.getElem?_range hM', Option.map_some, hp]
  intro h
  exact psk_offset_point_ne s.M 0 φ s.offset hne hlt (Option.some.inj h)

open PyPhysim.C15R PyPhysim.C01 in
/-- the two tables are exactly `2·|sin(δ/2)|` apart at every position (`δ` the offset difference):
    the margin by which the harness separates close offsets is computed from this. -/
theorem close_offsets_separation (M k : Nat) (φ₁ φ₂ : ℝ) :
    dist2 (pskNaturalPoint M k φ₁) (pskNaturalPoint (α := ℝ) M k φ₂)
      = (2 * Real.sin ((φ₁ - φ₂) / 2)) ^ 2 := psk_offset_dist2 M k φ₁ φ₂

open PyPhysim.C15R PyPhysim.C01 in
/-- after any history of `setPhaseOffset` calls the object is the one the LAST value describes
    (no value of the history is skipped, merged with a neighbour or kept from before). -/
theorem offset_history_last_wins {α : Type} [Trig α] [Add α] [Mul α] [Div α] [NatCast α]
    (s : Psk α) (φs : List α) (φ : α) :
    (s.run (φs ++ [φ])).table = (List.range s.M).map (fun l => pskNaturalPoint s.M l φ) := by
  rw [Psk.run_snoc]; rfl

/-- non-vacuity of `close_offsets_distinct_tables`: 0.3 and its successor in binary64 -/
example : ∃ (s : PyPhysim.C15R.Psk ℝ) (φ : ℝ), 1 ≤ s.M ∧ φ ≠ s.offset ∧ |φ - s.offset| < 2 * Real.pi :=
  ⟨⟨8, 5404319552844595 / 18014398509481984, false⟩, 5404319552844596 / 18014398509481984,
    by decide, by norm_num, by
      have := Real.two_le_pi
      show |(5404319552844596 / 18014398509481984 : ℝ) - 5404319552844595 / 18014398509481984| < 2 * Real.pi
      rw [abs_lt]; constructor <;> norm_num <;> linarith⟩

/-! ## R16 — argument identity and buffer reuse

`Heap`/`Op`/`run` (Model/C15Robust.lean): the caller owns numbered index buffers, refills them in
place and calls the conversions / counters on them. -/
open PyPhysim.C15R in
/-- the `k`-th operation of a history returns what a fresh call returns on the contents the
    caller's own refills have produced by then — nothing of earlier calls is remembered. -/
theorem call_reads_contents_at_call_time (h : Heap) (pre post : List Op) (op : Op) :
    (run h (pre ++ op :: post)).2[pre.length]? = some (result (run h (refillsOnly pre)).1 op) := by
  rw [run_append, ← run_heap_refills]
  simp only [run]
  rw [List.getElem?_append_right (by rw [run_length])]
  simp [run_length]

open PyPhysim.C15R in
/-- results handed out earlier are not changed by later refills and calls -/
theorem earlier_results_unchanged_by_later_calls (h : Heap) (a b : List Op) :
    (run h (a ++ b)).2.take a.length = (run h a).2 := by
  rw [run_append]
  simp [run_length]

open PyPhysim.C15R in
/-- calls never write to the caller's buffers: after any history they hold what the refills put there -/
theorem calls_leave_buffers_unchanged (h : Heap) (ops : List Op) :
    (run h ops).1 = (run h (refillsOnly ops)).1 := run_heap_refills h ops

open PyPhysim.C15R in
/-- a result depends on the *contents* of the argument buffers only, not on which buffer (object)
    carries them: an equal-content copy gives the same result. -/
theorem result_depends_on_contents_only (h h' : Heap) (i i' j j' : Nat) (hi : h i = h' i') (hj : h j = h' j') :
    result h (.b2g i) = result h' (.b2g i') ∧ result h (.g2b i) = result h' (.g2b i') ∧
    result h (.cbits i) = result h' (.cbits i') ∧ result h (.xor i j) = result h' (.xor i' j') ∧
    result h (.biterr i j) = result h' (.biterr i' j') := by
  simp only [result, hi, hj, and_self]

open PyPhysim.C15R in
/-- the same buffer in both roles: no bit errors against itself, xor with itself is all zero -/
theorem same_buffer_in_both_roles (h : Heap) (i : Nat) :
    result h (.biterr i i) = .num 0 ∧ result h (.xor i i) = .arr (List.replicate (h i).length 0) := by
  constructor
  · simp only [result, mapE_count_bits_self, sum_replicate_zero]
  · simp only [result, zipWith_xor_self]

/-- non-vacuity / worked history: refill, convert, refill the SAME buffer, convert again, compare the
    buffer with itself and with a second one -/
example : (PyPhysim.C15R.run PyPhysim.C15R.emptyHeap
    [.refill 0 [5, 6], .b2g 0, .refill 0 [2400000000, 7], .b2g 0, .refill 1 [2400020000, 7],
     .biterr 0 0, .biterr 0 1]).2
    = [.none, .arr [7, 5], .none, .arr [3364590592, 4], .none, .num 0, .num 7] := by
  decide +kernel

end PyPhysim.C15
