import PyPhysim.Proofs.C09Example
import PyPhysim.Proofs.C09Noise
import PyPhysim.Proofs.C09Scale
import PyPhysim.Proofs.C09Metric
import PyPhysim.Proofs.C09Rank

/-!
# C09 — block diagonalisation nulls inter-user interference within the power budget

Property theorems only.  All statements are about the executable model
`PyPhysim.BD` (`Model/C09.lean`) instantiated at `ρ = ℝ`, `α = ℂ` (or at an
arbitrary commutative ring where no order / conjugation is involved); the
correspondence check of `harness/props/c09.py` ties the same definitions,
compiled at binary64, to the code.

`K` users, `N` receive and `N` transmit antennas per user (`K·N` in total on each
side).  External kernels are parameters with the contract stated in the
hypotheses (checked numerically by the harness on every case it runs):

* `VH1 k`, `(S2 k, VH2 k)` — `np.linalg.svd` results inside
  `_calc_BD_matrix_no_power_scaling`; contract `Pf.BDContract`: both `V_H` unitary
  and `H̃_k · Ṽ0_k = 0` (the latter follows from the factorisation `H̃ = U Σ V_H`
  alone, theorem `svd_null_space`);
* `p` — powers returned by `waterfilling.doWF`; contract `p ≥ 0`, some `p_j > 0`
  (both implied by C12's `Σp = K·iPu`, `p ≥ 0`);
* `W` — `np.linalg.pinv`; contract: the Penrose conditions `A W A = A`,
  `(W A)ᴴ = W A` (resp. `W A = 1` where the argument has full column rank);
* `Ww k` — `calc_whitening_matrix(R_k)`; contract: invertible (nothing else is used);
* `G` — `np.linalg.inv(Pᴴ P)`, `vals` — the metric function: no contract needed;
* the reduction matrix `P` of `_calc_stream_reduction_matrix`: contract
  `Re_k · P = σ² · P` ("enough streams are sacrificed": `P` lies in the noise
  eigenspace, equivalently `E_kᴴ P = 0`, theorem `noise_eigenspace_iff`).  For the
  matrix the code computes (the `n` least right singular vectors of `Re_k`) this
  contract is a THEOREM (`least_singular_vectors_in_noise_space`) as soon as
  `n ≤ N − rank E_k` and `np.linalg.svd` keeps its promise (`Re_k = U·diag(S)·V_H`,
  `U`, `V_H` unitary, `S ≥ 0` in decreasing order); `ext_noise_eigenspace` and
  `enough_streams_sacrificed` give the rank-counting argument itself.

`Hinv` with `Hinv · H = 1` expresses that the channel has full rank.
-/
namespace PyPhysim.C09
open PyPhysim.BD PyPhysim.Proto

/-! ## no user receives another user's streams -/
section nulling
variable {R : Type} [CommRing R] {K N T n s : Nat}

/-- bookkeeping of `_get_tilde_channel`: the null-space contract `H̃_k · V = 0` on the
    stacked channel of the other users holds iff every other user's channel
    annihilates `V` -/
theorem tilde_null_iff (H : Mat R (K * N) T) (k : Fin K) (V : Mat R T n) :
    matMul (tildeChannel H k) V = (fun _ _ => 0) ↔
      ∀ j, j ≠ k → matMul (rowBlock H j) V = fun _ _ => 0 :=
  ⟨fun h j hj => Pf.rowBlock_null_of_tilde H k V h j hj, Pf.tilde_null_of_rowBlocks H k V⟩

/-- clause "no user receives another user's streams", per user and for ANY
    post-factor `X` (power loading, stream reduction, normalisation): a precoder
    `V0 · X` built on a null-space basis of the other users' channel is invisible to
    every other user -/
theorem bd_block_diagonal (H : Mat R (K * N) T) (k : Fin K) (V0 : Mat R T n) (X : Mat R n s)
    (hnull : matMul (tildeChannel H k) V0 = fun _ _ => 0) (j : Fin K) (hjk : j ≠ k) :
    matMul (rowBlock H j) (matMul V0 X) = fun _ _ => 0 :=
  Pf.null_mul _ _ _ (Pf.rowBlock_null_of_tilde H k V0 hnull j hjk)

end nulling

section plain
variable {K N : Nat} (hK : 0 < K) (H : Mat ℂ (K * N) (K * N)) (VH1 : Fin K → Mat ℂ (K * N) (K * N))
  (VH2 : Fin K → Mat ℂ N N) (S2 : Fin K → Fin N → ℝ)

/-- the null-space part of the contract is a consequence of the SVD factorisation:
    if `H̃_k = U Σ V_H` with `V_H` unitary then the `N` last right singular vectors
    (`tilde_V0`) are annihilated by `H̃_k` — for every `U`, every singular values -/
theorem svd_null_space (k : Fin K) (U : Mat ℂ (tildeIdx (N := N) k).length (tildeIdx (N := N) k).length)
    (S : Fin (tildeIdx (N := N) k).length → ℝ)
    (hsvd : tildeChannel H k = matMul (matMul U (Pf.sigmaRect S)) (VH1 k))
    (hU : matMul (VH1 k) (cT (VH1 k)) = eye) :
    matMul (tildeChannel H k) (calcBD hK H VH1 VH2 S2 k).V0 = fun _ _ => 0 :=
  Pf.svd_null _ U S (VH1 k) _ (Pf.tildeIdx_room k) hsvd hU

/-- the whole contract from what `np.linalg.svd` promises: factorisation of every
    tilde channel and unitary `V_H` factors -/
theorem bd_contract_of_svd
    (hsvd : ∀ k, ∃ (U : Mat ℂ (tildeIdx (N := N) k).length (tildeIdx (N := N) k).length)
      (S : Fin (tildeIdx (N := N) k).length → ℝ),
      tildeChannel H k = matMul (matMul U (Pf.sigmaRect S)) (VH1 k))
    (hU1 : ∀ k, matMul (VH1 k) (cT (VH1 k)) = eye) (hU2 : ∀ k, matMul (VH2 k) (cT (VH2 k)) = eye) :
    Pf.BDContract hK H VH1 VH2 S2 :=
  ⟨hU1, hU2, fun k => by
    obtain ⟨U, S, h⟩ := hsvd k
    exact Pf.svd_null _ U S (VH1 k) _ (Pf.tildeIdx_room k) h (hU1 k)⟩

/-- what the stream-reduction paths of `EnhancedBD` take from
    `_calc_BD_matrix_no_power_scaling`: the block `Ms_bad_k` of user `k` is invisible to
    every other user and has orthonormal columns (the hypotheses `hnull`, `hM` of
    `enhanced_reduced_nulls` / `enhanced_power_exact`) -/
theorem calc_bd_precoder_facts (c : Pf.BDContract hK H VH1 VH2 S2) (k : Fin K) :
    colBlock (msBad (calcBD hK H VH1 VH2 S2)) k = (calcBD hK H VH1 VH2 S2 k).Ms ∧
    (∀ j, j ≠ k → matMul (rowBlock H j) (calcBD hK H VH1 VH2 S2 k).Ms = fun _ _ => 0) ∧
    matMul (cT (calcBD hK H VH1 VH2 S2 k).Ms) (calcBD hK H VH1 VH2 S2 k).Ms = eye :=
  ⟨Pf.colBlock_msBad hK H VH1 VH2 S2 k, fun j hjk => Pf.calcBD_null hK H VH1 VH2 S2 c j k hjk,
    Pf.calcBD_orthonormal hK H VH1 VH2 S2 c k⟩

/-- `block_diagonalize` (water-filling + normalisation): the effective channel
    `newH = H · Ms_good` is block diagonal, for every power vector `p` -/
theorem block_diagonalize_nulls (c : Pf.BDContract hK H VH1 VH2 S2) (iPu : ℝ) (p : Fin (K * N) → ℝ) :
    (blockDiagonalize hK iPu H VH1 VH2 S2 p).1 = matMul H (blockDiagonalize hK iPu H VH1 VH2 S2 p).2 ∧
    IsBlockDiagonal (blockDiagonalize hK iPu H VH1 VH2 S2 p).1 :=
  ⟨rfl, Pf.blockDiagonalize_blockDiagonal hK H VH1 VH2 S2 c iPu p⟩

/-- `block_diagonalize_no_waterfilling`: the effective channel is block diagonal -/
theorem block_diagonalize_no_wf_nulls (c : Pf.BDContract hK H VH1 VH2 S2) (iPu : ℝ) :
    (blockDiagonalizeNoWF hK iPu H VH1 VH2 S2).1 = matMul H (blockDiagonalizeNoWF hK iPu H VH1 VH2 S2).2 ∧
    IsBlockDiagonal (blockDiagonalizeNoWF hK iPu H VH1 VH2 S2).1 :=
  ⟨rfl, Pf.blockDiagonalizeNoWF_blockDiagonal hK H VH1 VH2 S2 c iPu⟩

/-! ## power budget -/

/-- clause "the power of every transmitter's precoder block never exceeds the per-user
    power and reaches it for at least one transmitter" (`block_diagonalize`) -/
theorem wf_power_bounded (c : Pf.BDContract hK H VH1 VH2 S2) (iPu : ℝ) (hP : 0 ≤ iPu)
    (p : Fin (K * N) → ℝ) (hp : ∀ j, 0 ≤ p j) (hp1 : ∃ j, 0 < p j) :
    (∀ k, frobSq (colBlock (blockDiagonalize hK iPu H VH1 VH2 S2 p).2 k) ≤ iPu) ∧
      ∃ k, frobSq (colBlock (blockDiagonalize hK iPu H VH1 VH2 S2 p).2 k) = iPu :=
  Pf.normalizedWF_power iPu hP _ p hp hp1 (Pf.msBad_unit_cols hK H VH1 VH2 S2 c)

/-- clause "… all of them without water-filling": every transmitter's block has
    power exactly `iPu` -/
theorem no_wf_power_exact (c : Pf.BDContract hK H VH1 VH2 S2) (iPu : ℝ) (hP : 0 ≤ iPu) (hN : 0 < N) (k : Fin K) :
    frobSq (colBlock (blockDiagonalizeNoWF hK iPu H VH1 VH2 S2).2 k) = iPu :=
  Pf.noWF_power iPu hP _ k (Pf.msBad_block_pos hK H VH1 VH2 S2 c hN k)

/-! ## receive filter -/

/-- clause "the receive filter inverts the effective channel on every stream that was
    given power": with `W = pinv(newH)`, `W · newH` is the 0/1 diagonal matrix of the
    streams with non-zero water-filling power -/
theorem rx_inverts_powered_streams (c : Pf.BDContract hK H VH1 VH2 S2) (Hinv : Mat ℂ (K * N) (K * N))
    (hH : matMul Hinv H = eye) (iPu : ℝ) (hP : 0 < iPu) (p : Fin (K * N) → ℝ) (hp : ∀ j, 0 ≤ p j)
    (hp1 : ∃ j, 0 < p j) (W : Mat ℂ (K * N) (K * N))
    (h1 : matMul (matMul (blockDiagonalize hK iPu H VH1 VH2 S2 p).1 W) (blockDiagonalize hK iPu H VH1 VH2 S2 p).1
      = (blockDiagonalize hK iPu H VH1 VH2 S2 p).1)
    (h3 : cT (matMul W (blockDiagonalize hK iPu H VH1 VH2 S2 p).1) = matMul W (blockDiagonalize hK iPu H VH1 VH2 S2 p).1) :
    matMul W (blockDiagonalize hK iPu H VH1 VH2 S2 p).1 = diagM (fun j => if p j = 0 then 0 else 1) :=
  Pf.wf_rx_mask hK H VH1 VH2 S2 c Hinv hH iPu hP p hp hp1 W h1 h3

/-- without water-filling every stream has power: `W · newH = 1` -/
theorem no_wf_rx_inverts (c : Pf.BDContract hK H VH1 VH2 S2) (Hinv : Mat ℂ (K * N) (K * N))
    (hH : matMul Hinv H = eye) (iPu : ℝ) (hP : 0 < iPu) (hN : 0 < N) (W : Mat ℂ (K * N) (K * N))
    (h1 : matMul (matMul (blockDiagonalizeNoWF hK iPu H VH1 VH2 S2).1 W) (blockDiagonalizeNoWF hK iPu H VH1 VH2 S2).1
      = (blockDiagonalizeNoWF hK iPu H VH1 VH2 S2).1)
    (h3 : cT (matMul W (blockDiagonalizeNoWF hK iPu H VH1 VH2 S2).1) = matMul W (blockDiagonalizeNoWF hK iPu H VH1 VH2 S2).1) :
    matMul W (blockDiagonalizeNoWF hK iPu H VH1 VH2 S2).1 = eye :=
  Pf.nowf_rx_inverse hK H VH1 VH2 S2 c Hinv hH iPu hP hN W h1 h3

/-- the hypothesis `G · (H · Ms_bad) = 1` needed above is not an extra assumption: a
    channel of full rank gives an effective channel of full rank -/
theorem effective_channel_full_rank (c : Pf.BDContract hK H VH1 VH2 S2) (Hinv : Mat ℂ (K * N) (K * N))
    (hH : matMul Hinv H = eye) :
    ∃ G : Mat ℂ (K * N) (K * N), matMul G (matMul H (msBad (calcBD hK H VH1 VH2 S2))) = eye :=
  Pf.effective_left_inverse H Hinv _ hH (Pf.calcBD_orthonormal hK H VH1 VH2 S2 c)
    (fun j k hjk => Pf.calcBD_null hK H VH1 VH2 S2 c j k hjk)

/-- scale covariance: a common gain / path loss `c ≠ 0` on the whole channel (`H ↦ c·H`).
    The SVD factors `V_H` of `H` satisfy the kernel contract for `c·H` as well (whatever the
    singular values `S2'` reported for the scaled channel), and with them — and the same
    water-filling powers `p` — both methods return exactly the same precoder, while the
    effective channel is `c` times the old one.  So every clause proved above (nulling,
    power, receive filter) is independent of the channel's overall scale; an absolute
    threshold anywhere in the rank / null-space computation would break this. -/
theorem scale_covariance (S2' : Fin K → Fin N → ℝ) (c : ℂ) (hc : c ≠ 0) (iPu : ℝ) (p : Fin (K * N) → ℝ) :
    (Pf.BDContract hK (scaleMat c H) VH1 VH2 S2' ↔ Pf.BDContract hK H VH1 VH2 S2) ∧
    (blockDiagonalizeNoWF hK iPu (scaleMat c H) VH1 VH2 S2').2 = (blockDiagonalizeNoWF hK iPu H VH1 VH2 S2).2 ∧
    (blockDiagonalizeNoWF hK iPu (scaleMat c H) VH1 VH2 S2').1 = scaleMat c (blockDiagonalizeNoWF hK iPu H VH1 VH2 S2).1 ∧
    (blockDiagonalize hK iPu (scaleMat c H) VH1 VH2 S2' p).2 = (blockDiagonalize hK iPu H VH1 VH2 S2 p).2 ∧
    (blockDiagonalize hK iPu (scaleMat c H) VH1 VH2 S2' p).1 = scaleMat c (blockDiagonalize hK iPu H VH1 VH2 S2 p).1 :=
  ⟨Pf.contract_scale hK H VH1 VH2 S2 S2' c hc, rfl, Pf.scaleMat_matMul c H _, rfl, Pf.scaleMat_matMul c H _⟩

/-- non-vacuity: the kernel contract and the full-rank hypothesis are satisfied by a
    concrete complex 2-user channel (`H = [[3, 4i], [4i, 3]]`, its exact SVD factors),
    together with a water-filling result that switches one stream off -/
example : ∃ (H : Mat ℂ (2 * 1) (2 * 1)) (VH1 : Fin 2 → Mat ℂ (2 * 1) (2 * 1)) (VH2 : Fin 2 → Mat ℂ 1 1)
    (S2 : Fin 2 → Fin 1 → ℝ) (p : Fin (2 * 1) → ℝ),
    Pf.BDContract (by norm_num) H VH1 VH2 S2 ∧ (∃ Hinv, matMul Hinv H = eye) ∧
      (∀ j, 0 ≤ p j) ∧ (∃ j, 0 < p j) ∧ ∃ j, p j = 0 :=
  ⟨Pf.Ex.H, Pf.Ex.VH1, Pf.Ex.VH2, Pf.Ex.S2, fun j => if j.val = 0 then 2 else 0, Pf.Ex.contract, Pf.Ex.fullRank,
    fun j => by show (0 : ℝ) ≤ if j.val = 0 then 2 else 0; split <;> norm_num, ⟨⟨0, by norm_num⟩, by norm_num⟩, ⟨⟨1, by norm_num⟩, by norm_num⟩⟩

end plain

/-! ## `WhiteningBD` -/
section whitening
variable {K N : Nat} (hK : 0 < K) (H : Mat ℂ (K * N) (K * N)) (Ww Wi : Fin K → Mat ℂ N N)
  (VH1 : Fin K → Mat ℂ (K * N) (K * N)) (VH2 : Fin K → Mat ℂ N N) (S2 : Fin K → Fin N → ℝ)

/-- `whitened_still_null`: the precoders computed on the whitened channel keep the
    inter-user interference null on the ACTUAL channel -/
theorem whitening_nulls (c : Pf.BDContract hK (whiteningChannel Ww H) VH1 VH2 S2)
    (hW : ∀ k, matMul (Ww k) (Wi k) = eye) (iPu : ℝ) (W : Mat ℂ (K * N) (K * N)) (j k : Fin K) (hjk : j ≠ k) :
    matMul (rowBlock H j) (whiteningBD hK iPu H Ww VH1 VH2 S2 W k).Ms = fun _ _ => 0 :=
  Pf.whitening_null_blocks hK H Ww Wi VH1 VH2 S2 c hW iPu j k hjk

/-- every user gets exactly its power -/
theorem whitening_power_exact (c : Pf.BDContract hK (whiteningChannel Ww H) VH1 VH2 S2) (iPu : ℝ) (hP : 0 ≤ iPu)
    (hN : 0 < N) (W : Mat ℂ (K * N) (K * N)) (k : Fin K) :
    frobSq (whiteningBD hK iPu H Ww VH1 VH2 S2 W k).Ms = iPu :=
  Pf.noWF_power iPu hP _ k (Pf.msBad_block_pos hK (whiteningChannel Ww H) VH1 VH2 S2 c hN k)

/-- the receive filter of user `k` (pseudo-inverse of the whitened effective channel
    times the whitening filter) inverts `H_k · Ms_k` -/
theorem whitening_rx_inverts (c : Pf.BDContract hK (whiteningChannel Ww H) VH1 VH2 S2)
    (hW : ∀ k, matMul (Ww k) (Wi k) = eye) (iPu : ℝ) (W : Mat ℂ (K * N) (K * N))
    (hpinv : matMul W (blockDiagonalizeNoWF hK iPu (whiteningChannel Ww H) VH1 VH2 S2).1 = eye) (k : Fin K) :
    matMul (whiteningBD hK iPu H Ww VH1 VH2 S2 W k).W
      (matMul (rowBlock H k) (whiteningBD hK iPu H Ww VH1 VH2 S2 W k).Ms) = eye :=
  Pf.whiteningRx_inverts (whiteningFilters Ww) H _ W hpinv
    (Pf.whitening_blockDiagonal hK H Ww Wi VH1 VH2 S2 c hW iPu) k

/-- reported stream count = width of the precoder = height of the filter = `N` -/
theorem whitening_stream_counts (iPu : ℝ) (W : Mat ℂ (K * N) (K * N)) (k : Fin K) :
    (whiteningBD hK iPu H Ww VH1 VH2 S2 W k).ns = (whiteningBD hK iPu H Ww VH1 VH2 S2 W k).cols ∧
      (whiteningBD hK iPu H Ww VH1 VH2 S2 W k).ns = N := ⟨rfl, rfl⟩

end whitening

/-! ## `EnhancedBD` -/
section enhanced
variable {K N : Nat} (hK : 0 < K) (H : Mat ℂ (K * N) (K * N))
  (VH1 : Fin K → Mat ℂ (K * N) (K * N)) (VH2 : Fin K → Mat ℂ N N) (S2 : Fin K → Fin N → ℝ)

/-- metric `None`: interference null, exact power, `W_k = pinv(newH_kk)` inverts
    `H_k · Ms_k`, all `N` streams reported -/
theorem enhanced_none (c : Pf.BDContract hK H VH1 VH2 S2) (iPu : ℝ) (hP : 0 ≤ iPu) (hN : 0 < N) (k : Fin K)
    (Wp : Mat ℂ N N) (hpinv : matMul Wp (diagBlock (blockDiagonalizeNoWF hK iPu H VH1 VH2 S2).1 k) = eye) :
    (∀ j, j ≠ k → matMul (rowBlock H j) (enhancedNone hK iPu H VH1 VH2 S2 Wp k).Ms = fun _ _ => 0) ∧
    frobSq (enhancedNone hK iPu H VH1 VH2 S2 Wp k).Ms = iPu ∧
    matMul (enhancedNone hK iPu H VH1 VH2 S2 Wp k).W
      (matMul (rowBlock H k) (enhancedNone hK iPu H VH1 VH2 S2 Wp k).Ms) = eye ∧
    (enhancedNone hK iPu H VH1 VH2 S2 Wp k).ns = (enhancedNone hK iPu H VH1 VH2 S2 Wp k).cols :=
  ⟨fun j hjk => Pf.nowf_null_blocks hK H VH1 VH2 S2 c iPu j k hjk,
   Pf.noWF_power iPu hP _ k (Pf.msBad_block_pos hK H VH1 VH2 S2 c hN k),
   Pf.nowf_rx_block hK H VH1 VH2 S2 iPu k Wp hpinv, rfl⟩

variable {T n r : Nat}

/-- stream reduction keeps the inter-user interference null — for ANY reduction matrix
    (naive, fixed, metric driven), any `inv` / `pinv` results -/
theorem enhanced_reduced_nulls (iPu : ℝ) (Hk Hj : Mat ℂ N T) (Msk : Mat ℂ T N) (Pk : Mat ℂ N n) (G : Mat ℂ n n)
    (Wp : Mat ℂ n N) (hnull : matMul Hj Msk = fun _ _ => 0) :
    matMul Hj (enhancedReduced iPu Hk Msk n Pk G Wp).Ms = fun _ _ => 0 :=
  Pf.reduced_nulls iPu Hk Hj Msk Pk G hnull

/-- `enhanced_power_exact`: after the stream reduction the user transmits exactly `iPu` -/
theorem enhanced_power_exact (iPu : ℝ) (hP : 0 < iPu) (Hk : Mat ℂ N T) (Msk : Mat ℂ T N) (Pk : Mat ℂ N n)
    (G : Mat ℂ n n) (Wp : Mat ℂ n N) (hn : 0 < n) (hM : matMul (cT Msk) Msk = eye) (hPk : matMul (cT Pk) Pk = eye) :
    frobSq (enhancedReduced iPu Hk Msk n Pk G Wp).Ms = iPu :=
  Pf.reduce_power iPu hP Hk Msk Pk G (by rw [Pf.frobSq_MsP Msk Pk hM hPk]; exact_mod_cast hn)

/-- the reduction matrices the code uses have orthonormal columns: `np.eye(N)[:, :n]`
    and the `n` least right singular vectors of `Re_k` (`V_H` unitary) -/
theorem reduction_matrices_orthonormal (VHre : Mat ℂ N N) (hU : matMul VHre (cT VHre) = eye) (hn : n ≤ N) :
    matMul (cT (eyeCols : Mat ℂ N n)) eyeCols = eye ∧
      matMul (cT (reductionMatrix VHre n hn)) (reductionMatrix VHre n hn) = eye :=
  ⟨Pf.eyeCols_orthonormal hn, Pf.leastCols_orthonormal VHre hn hU⟩

/-- the receive filter `pinv(P̄ · Heq_red) · P̄` inverts the reduced effective channel
    `H_k · MsPk` -/
theorem enhanced_rx_inverts (iPu : ℝ) (Hk : Mat ℂ N T) (Msk : Mat ℂ T N) (Pk : Mat ℂ N n) (G : Mat ℂ n n)
    (Wp : Mat ℂ n N) (hpinv : matMul Wp (reduce iPu Hk Msk Pk G).pinvArg = eye) :
    matMul (enhancedReduced iPu Hk Msk n Pk G Wp).W (matMul Hk (enhancedReduced iPu Hk Msk n Pk G Wp).Ms) = eye :=
  Pf.reduced_rx iPu Hk Msk Pk G Wp hpinv

/-- "enough streams are sacrificed" — `Re_k P = σ² P` — says exactly that the reduction
    matrix is orthogonal to the external interference -/
theorem noise_eigenspace_iff (pe nv : ℝ) (hpe : pe ≠ 0) (E : Mat ℂ N r) (P : Mat ℂ N n) :
    matMul (covExtInt pe nv E) P = (fun i j => Cx.ofReal nv * P i j) ↔ matMul (cT E) P = fun _ _ => 0 :=
  Pf.noise_eigenspace_iff pe nv hpe E P

/-- the noise-eigenspace contract from what `np.linalg.svd` promises for
    `Re_k = pe·E Eᴴ + σ²·1` (`pe ≥ 0`, `σ² > 0`): if `Re_k = U·diag(S)·V_H` with `U`, `V_H` unitary
    and the `n` smallest singular values equal the noise variance (which is the case when
    `n ≤ N − rank E`: checked numerically), then the matrix of the `n` least right singular
    vectors returned by `_calc_stream_reduction_matrix` satisfies `Re_k P = σ² P` -/
theorem reduction_in_noise_eigenspace (pe nv : ℝ) (hpe : 0 ≤ pe) (hnv : 0 < nv) (E : Mat ℂ N r)
    (U VHre : Mat ℂ N N) (S : Fin N → ℝ) (hn : n ≤ N)
    (hsvd : covExtInt pe nv E = matMul (matMul U (diagM (fun i => Cx.ofReal (S i)))) VHre)
    (hU : matMul (cT U) U = eye) (hV : matMul VHre (cT VHre) = eye)
    (hS : ∀ j : Fin n, S (revIdx hn j) = nv) :
    matMul (covExtInt pe nv E) (reductionMatrix VHre n hn) =
      fun i j => Cx.ofReal nv * reductionMatrix VHre n hn i j :=
  Pf.leastCols_noise_eigenspace pe nv hpe hnv E U VHre S hn hsvd hU hV hS

/-- non-vacuity of "enough streams are sacrificed": with `N = 2` antennas and a rank-one
    interference `E = (2i, 0)ᵀ`, the reduction matrix `P = (0, 1)ᵀ` lies in the noise
    eigenspace for every interference power and noise variance -/
example (pe nv : ℝ) (hpe : pe ≠ 0) :
    matMul (covExtInt pe nv Pf.Ex.E) Pf.Ex.P = fun i j => Cx.ofReal nv * Pf.Ex.P i j :=
  (Pf.noise_eigenspace_iff pe nv hpe _ _).mpr Pf.Ex.P_orthogonal_to_E

/-- `ext_int_removed`: when the reduction matrix lies in the noise eigenspace of
    `Re_k = pe·E Eᴴ + σ²·1`, the receive filter annihilates the interference channel and
    the covariance at its output is the noise alone: `W Re_k Wᴴ = σ² W Wᴴ` -/
theorem ext_int_removed (iPu pe nv : ℝ) (hpe : pe ≠ 0) (E : Mat ℂ N r) (Hk : Mat ℂ N T) (Msk : Mat ℂ T N)
    (Pk : Mat ℂ N n) (G : Mat ℂ n n) (Wp : Mat ℂ n N)
    (hP : matMul (covExtInt pe nv E) Pk = fun i j => Cx.ofReal nv * Pk i j) :
    matMul (enhancedReduced iPu Hk Msk n Pk G Wp).W E = (fun _ _ => 0) ∧
    matMul (enhancedReduced iPu Hk Msk n Pk G Wp).W
        (matMul (covExtInt pe nv E) (cT (enhancedReduced iPu Hk Msk n Pk G Wp).W)) =
      fun i j => Cx.ofReal nv * matMul (enhancedReduced iPu Hk Msk n Pk G Wp).W
        (cT (enhancedReduced iPu Hk Msk n Pk G Wp).W) i j := by
  have h0 : matMul (enhancedReduced iPu Hk Msk n Pk G Wp).W E = fun _ _ => 0 :=
    Pf.rxFilterRed_kills_ext Wp G Pk E ((Pf.noise_eigenspace_iff pe nv hpe E Pk).mp hP)
  exact ⟨h0, Pf.rx_cov_noise_only pe nv E _ h0⟩

/-- `stream_counts_match` (naive / fixed): reported count = precoder width = filter height -/
theorem stream_counts_match_fixed (iPu : ℝ) (Hk : Mat ℂ N T) (Msk : Mat ℂ T N) (Pk : Mat ℂ N n) (G : Mat ℂ n n)
    (Wp : Mat ℂ n N) :
    (enhancedReduced iPu Hk Msk n Pk G Wp).ns = (enhancedReduced iPu Hk Msk n Pk G Wp).cols ∧
      (enhancedReduced iPu Hk Msk n Pk G Wp).ns = n := ⟨rfl, rfl⟩

/-- metric-driven search (capacity, effective throughput, any metric function): the
    method returns — without error — exactly the stream-reduction result of the FIRST
    index with maximal metric value; the reported stream count is its precoder width
    and lies in `1 … N`.  Hence `enhanced_reduced_nulls`, `enhanced_power_exact`,
    `enhanced_rx_inverts`, `ext_int_removed` apply to what it returns. -/
theorem stream_counts_match_decide (hN : 0 < N) (iPu : ℝ) (Hk : Mat ℂ N T) (Msk : Mat ℂ T N) (VHre : Mat ℂ N N)
    (G : (i : Fin N) → Mat ℂ (i.val + 1) (i.val + 1)) (Wp : (i : Fin N) → Mat ℂ (i.val + 1) N) (vals : Fin N → ℝ) :
    ∃ (i : Fin N) (o : ExtOut ℂ T N),
      enhancedDecide iPu Hk Msk VHre G Wp vals = .ok o ∧
      (∀ j, vals j ≤ vals i) ∧ (∀ j : Fin N, j.val < i.val → vals j < vals i) ∧
      o.ns = o.cols ∧ 1 ≤ o.ns ∧ o.ns ≤ N ∧
      o.cols = (enhancedReduced iPu Hk Msk (i.val + 1) (decidePk VHre i) (G i) (Wp i)).cols ∧
      HEq o.Ms (enhancedReduced iPu Hk Msk (i.val + 1) (decidePk VHre i) (G i) (Wp i)).Ms ∧
      HEq o.W (enhancedReduced iPu Hk Msk (i.val + 1) (decidePk VHre i) (G i) (Wp i)).W := by
  obtain ⟨i, hi, hmax, hfirst, hok⟩ := Pf.enhancedDecide_ok hN iPu Hk Msk VHre G Wp vals
  refine ⟨i, _, hok, hmax, hfirst, ?_, ?_, ?_, rfl, HEq.rfl, HEq.rfl⟩
  · show streamsOfIndex _ = i.val + 1
    rw [← hi]; rfl
  · show 1 ≤ streamsOfIndex _
    simp [streamsOfIndex]
  · show streamsOfIndex _ ≤ N
    rw [← hi]; exact i.isLt

end enhanced

/-! ## the rank-counting argument behind "enough streams are sacrificed" -/
section rank
open Matrix
variable {N n r s T : Nat}

/-- `ext_noise_eigenspace`: for `Re = pe·E Eᴴ + σ²·1` (`N` antennas, `E` the `N × r` channel of
    the external interference)
    * every vector orthogonal to the interference (`Eᴴ v = 0`) is an eigenvector for `σ²` — for
      every `pe`, in particular for `pe ≥ 0`;
    * these vectors form a space of dimension exactly `N − rank E` (rank–nullity);
    * for `pe ≠ 0` (in particular `pe > 0`) there are no other eigenvectors for `σ²`
      (`vᴴ E Eᴴ v = ‖Eᴴ v‖² = 0`). -/
theorem ext_noise_eigenspace (pe nv : ℝ) (E : Mat ℂ N r) :
    (∀ v : Fin N → ℂ, (toM E)ᴴ *ᵥ v = 0 → toM (covExtInt pe nv E) *ᵥ v = (nv : ℂ) • v) ∧
    Module.finrank ℂ (LinearMap.ker (toM E)ᴴ.mulVecLin) + (toM E).rank = N ∧
    N - (toM E).rank ≤ Module.finrank ℂ (LinearMap.ker (toM E)ᴴ.mulVecLin) ∧
    (pe ≠ 0 → ∀ v : Fin N → ℂ, toM (covExtInt pe nv E) *ᵥ v = (nv : ℂ) • v → (toM E)ᴴ *ᵥ v = 0) := by
  have hfin := Pf.finrank_ker_conjTranspose (toM E)
  refine ⟨fun v hv => ?_, hfin, by omega, fun hpe v hv => ?_⟩
  · rw [Pf.toM_covExtInt]; exact Pf.extCov_mulVec_of_ker _ _ _ v hv
  · rw [Pf.toM_covExtInt] at hv
    exact Pf.ker_of_extCov_mulVec _ _ (by exact_mod_cast hpe) _ v hv

/-- `enough_streams_sacrificed`: if `n ≤ N − rank E` there is an `N × n` matrix `P` with orthonormal
    columns inside the noise eigenspace (`Pᴴ P = 1`, `Eᴴ P = 0`, `Re P = σ² P`) — the choice "the `n`
    least right singular vectors of `Re`" CAN be made inside that space —, and for ANY `P` with
    `Re P = σ² P` and any `M` the filter `W = M Pᴴ` has only noise at its output,
    `W Re Wᴴ = σ² W Wᴴ`, and (for `pe ≠ 0`) annihilates the interference channel, `W E = 0`
    (the receive filter of `enhancedReduced` is of this form: `ext_int_removed`). -/
theorem enough_streams_sacrificed (pe nv : ℝ) (E : Mat ℂ N r) (hn : n ≤ N - (toM E).rank) :
    (∃ P : Mat ℂ N n, matMul (cT P) P = eye ∧ matMul (cT E) P = (fun _ _ => 0) ∧
      matMul (covExtInt pe nv E) P = fun i j => Cx.ofReal nv * P i j) ∧
    ∀ (P : Mat ℂ N n) (M : Mat ℂ s n), matMul (covExtInt pe nv E) P = (fun i j => Cx.ofReal nv * P i j) →
      (matMul (matMul M (cT P)) (matMul (covExtInt pe nv E) (cT (matMul M (cT P)))) =
        fun i j => Cx.ofReal nv * matMul (matMul M (cT P)) (cT (matMul M (cT P))) i j) ∧
      (pe ≠ 0 → matMul (matMul M (cT P)) E = fun _ _ => 0) :=
  ⟨Pf.exists_reduction_in_noise_space pe nv E hn, fun P M hP =>
    ⟨Pf.filter_cov_noise_only pe nv E P M hP, fun hpe =>
      Pf.filter_kills_ext E P M ((Pf.noise_eigenspace_iff pe nv hpe E P).mp hP)⟩⟩

/-- "enough" is exact: for `pe ≠ 0` a matrix with `n` orthonormal columns inside the noise eigenspace
    exists IF AND ONLY IF `n ≤ N − rank E` — keeping more streams than that necessarily leaves
    external interference at the filter output -/
theorem enough_streams_iff (pe nv : ℝ) (hpe : pe ≠ 0) (E : Mat ℂ N r) :
    (∃ P : Mat ℂ N n, matMul (cT P) P = eye ∧
      matMul (covExtInt pe nv E) P = fun i j => Cx.ofReal nv * P i j) ↔ n ≤ N - (toM E).rank :=
  ⟨fun ⟨P, h1, h2⟩ => Pf.room_of_reduction_in_noise_space pe nv hpe E P h1 h2,
    fun h => let ⟨P, h1, _, h3⟩ := Pf.exists_reduction_in_noise_space pe nv E h; ⟨P, h1, h3⟩⟩

/-- `least_singular_vectors_in_noise_space`: the contract hypothesis "the `n` smallest singular
    values of `Re_k` equal the noise variance" (`hS` of `reduction_in_noise_eigenspace`) and with it
    the noise-eigenspace contract `Re_k P = σ² P` of the matrix `P` computed by
    `_calc_stream_reduction_matrix` are CONSEQUENCES of `n ≤ N − rank E` and of what
    `np.linalg.svd` promises: `Re_k = U·diag(S)·V_H`, `U` and `V_H` unitary, the singular values
    non-negative and in decreasing order.  (`Re_k ⪰ σ²·1`, so no singular value is below `σ²`;
    `Re_k² − σ⁴·1 = E·(…)` has rank `≤ rank E`, so at most `rank E` singular values differ from `σ²`;
    sorted, the last `N − rank E` equal `σ²`.) -/
theorem least_singular_vectors_in_noise_space (pe nv : ℝ) (hpe : 0 ≤ pe) (hnv : 0 < nv) (E : Mat ℂ N r)
    (U VHre : Mat ℂ N N) (S : Fin N → ℝ) (hn : n ≤ N)
    (hsvd : covExtInt pe nv E = matMul (matMul U (diagM (fun i => Cx.ofReal (S i)))) VHre)
    (hU : matMul (cT U) U = eye) (hV : matMul VHre (cT VHre) = eye)
    (hS0 : ∀ i, 0 ≤ S i) (hsort : ∀ i j : Fin N, i ≤ j → S j ≤ S i)
    (hrank : n ≤ N - (toM E).rank) :
    (∀ j : Fin n, S (revIdx hn j) = nv) ∧
    matMul (cT (reductionMatrix VHre n hn)) (reductionMatrix VHre n hn) = eye ∧
    matMul (covExtInt pe nv E) (reductionMatrix VHre n hn) =
      (fun i j => Cx.ofReal nv * reductionMatrix VHre n hn i j) ∧
    (pe ≠ 0 → matMul (cT E) (reductionMatrix VHre n hn) = fun _ _ => 0) := by
  have hS := Pf.least_singular_eq_noise_model pe nv hpe hnv.le E U VHre S hn hsvd hU hV hS0 hsort hrank
  have hP := Pf.leastCols_noise_eigenspace pe nv hpe hnv E U VHre S hn hsvd hU hV hS
  exact ⟨hS, Pf.leastCols_orthonormal VHre hn hV, hP, fun h0 => (Pf.noise_eigenspace_iff pe nv h0 E _).mp hP⟩

/-- end to end for the `fixed` metric of `EnhancedBD`: with `n ≤ N − rank E_k` kept streams and a
    correct SVD of `Re_k`, the receive filter computed from the `n` least right singular vectors
    annihilates the interference channel and leaves the noise alone — no per-case hypothesis on the
    singular values is left -/
theorem enough_streams_ext_int_removed (iPu pe nv : ℝ) (hpe : 0 < pe) (hnv : 0 < nv) (E : Mat ℂ N r)
    (U VHre : Mat ℂ N N) (S : Fin N → ℝ) (hn : n ≤ N)
    (hsvd : covExtInt pe nv E = matMul (matMul U (diagM (fun i => Cx.ofReal (S i)))) VHre)
    (hU : matMul (cT U) U = eye) (hV : matMul VHre (cT VHre) = eye)
    (hS0 : ∀ i, 0 ≤ S i) (hsort : ∀ i j : Fin N, i ≤ j → S j ≤ S i)
    (hrank : n ≤ N - (toM E).rank)
    (Hk : Mat ℂ N T) (Msk : Mat ℂ T N) (G : Mat ℂ n n) (Wp : Mat ℂ n N) :
    matMul (enhancedReduced iPu Hk Msk n (reductionMatrix VHre n hn) G Wp).W E = (fun _ _ => 0) ∧
    matMul (enhancedReduced iPu Hk Msk n (reductionMatrix VHre n hn) G Wp).W
        (matMul (covExtInt pe nv E) (cT (enhancedReduced iPu Hk Msk n (reductionMatrix VHre n hn) G Wp).W)) =
      fun i j => Cx.ofReal nv * matMul (enhancedReduced iPu Hk Msk n (reductionMatrix VHre n hn) G Wp).W
        (cT (enhancedReduced iPu Hk Msk n (reductionMatrix VHre n hn) G Wp).W) i j :=
  ext_int_removed iPu pe nv hpe.ne' E Hk Msk _ G Wp
    (least_singular_vectors_in_noise_space pe nv hpe.le hnv E U VHre S hn hsvd hU hV hS0 hsort hrank).2.2.1

/-- the SVD contract of `least_singular_vectors_in_noise_space` is satisfiable for EVERY interference
    channel, interference power `pe ≥ 0` and noise variance `σ² ≥ 0` (spectral decomposition of the
    positive semidefinite `Re_k`, eigenvalues sorted): the theorem is nowhere vacuous, and a correct
    `np.linalg.svd` can always deliver what the contract asks -/
theorem svd_contract_satisfiable (pe nv : ℝ) (hpe : 0 ≤ pe) (hnv : 0 ≤ nv) (E : Mat ℂ N r) :
    ∃ (U VHre : Mat ℂ N N) (S : Fin N → ℝ),
      covExtInt pe nv E = matMul (matMul U (diagM (fun i => Cx.ofReal (S i)))) VHre ∧
      matMul (cT U) U = eye ∧ matMul VHre (cT VHre) = eye ∧ (∀ i, 0 ≤ S i) ∧
      ∀ i j : Fin N, i ≤ j → S j ≤ S i :=
  Pf.exists_sorted_svd_model pe nv hpe hnv E

/-- the ordering clause of the SVD contract is NEEDED (the code takes the LAST `n` rows of `V_H`
    "since the SVD gives the values in descending order"): with the interferer on the last antenna,
    `Re = 1·diag(σ², σ², 4pe + σ²)·1` is a factorisation with unitary factors and non-negative
    values, `n = 2 ≤ 3 − rank E`, and yet the last singular value is not the noise variance -/
theorem sorted_order_needed (pe nv : ℝ) (hpe : 0 < pe) (hnv : 0 < nv) :
    ∃ (E : Mat ℂ 3 1) (U VHre : Mat ℂ 3 3) (S : Fin 3 → ℝ),
      covExtInt pe nv E = matMul (matMul U (diagM (fun i => Cx.ofReal (S i)))) VHre ∧
      matMul (cT U) U = eye ∧ matMul VHre (cT VHre) = eye ∧ (∀ i, 0 ≤ S i) ∧ 2 ≤ 3 - (toM E).rank ∧
      ¬ ∀ j : Fin 2, S (revIdx (by norm_num : 2 ≤ 3) j) = nv :=
  ⟨Pf.Ex3.E', eye, eye, Pf.Ex3.S' pe nv, Pf.Ex3.svd' pe nv, Pf.Ex3.unitary.1, Pf.Ex3.unitary.2,
    Pf.Ex3.S'_nonneg pe nv hpe.le hnv.le, Pf.Ex3.two_streams', fun h => Pf.Ex3.S'_last pe nv hpe (h 0)⟩

/-- non-vacuity (`N = 3` antennas, one interferer `E = (2i, 0, 0)ᵀ`, `n = 2` streams kept): every
    hypothesis of `least_singular_vectors_in_noise_space` / `enough_streams_ext_int_removed` is
    satisfied, for every `pe ≥ 0` and `σ² > 0`, by `Re = 1·diag(4pe + σ², σ², σ²)·1` -/
example (pe nv : ℝ) (hpe : 0 ≤ pe) (hnv : 0 < nv) :
    ∃ (E : Mat ℂ 3 1) (U VHre : Mat ℂ 3 3) (S : Fin 3 → ℝ),
      covExtInt pe nv E = matMul (matMul U (diagM (fun i => Cx.ofReal (S i)))) VHre ∧
      matMul (cT U) U = eye ∧ matMul VHre (cT VHre) = eye ∧ (∀ i, 0 ≤ S i) ∧
      (∀ i j : Fin 3, i ≤ j → S j ≤ S i) ∧ 2 ≤ 3 - (toM E).rank :=
  ⟨Pf.Ex3.E, eye, eye, Pf.Ex3.S pe nv, Pf.Ex3.svd pe nv, Pf.Ex3.unitary.1, Pf.Ex3.unitary.2,
    Pf.Ex3.S_nonneg pe nv hpe hnv.le, Pf.Ex3.S_sorted pe nv hpe, Pf.Ex3.two_streams⟩

/-- … and of `enough_streams_sacrificed`: one interferer on three antennas leaves room for `n ≤ 2` streams -/
example : (1 ≤ 3 - (toM Pf.Ex3.E).rank) ∧ (2 ≤ 3 - (toM Pf.Ex3.E).rank) :=
  ⟨le_trans (by norm_num) Pf.Ex3.two_streams, Pf.Ex3.two_streams⟩

end rank

/-! ## robustness: value semantics, rejected calls, long-lived objects -/
section robustness

/-- R1 / R2 / R3 (model side): the methods are functions of the logical VALUES of their
    arguments only — two channels / kernel results with the same entries give the same precoder
    and effective channel (no dependence on element type, memory layout or object identity), and
    the result is a fresh value that shares nothing with the arguments -/
theorem value_semantics {K N : Nat} (hK : 0 < K) (iPu iPu' : ℝ) (H H' : Mat ℂ (K * N) (K * N))
    (VH1 VH1' : Fin K → Mat ℂ (K * N) (K * N)) (VH2 VH2' : Fin K → Mat ℂ N N) (S2 S2' : Fin K → Fin N → ℝ)
    (p p' : Fin (K * N) → ℝ)
    (hH : ∀ i j, H i j = H' i j) (h1 : ∀ k i j, VH1 k i j = VH1' k i j) (h2 : ∀ k i j, VH2 k i j = VH2' k i j)
    (hS : ∀ k i, S2 k i = S2' k i) (hp : ∀ j, p j = p' j) (hP : iPu = iPu') :
    blockDiagonalize hK iPu H VH1 VH2 S2 p = blockDiagonalize hK iPu' H' VH1' VH2' S2' p' ∧
    blockDiagonalizeNoWF hK iPu H VH1 VH2 S2 = blockDiagonalizeNoWF hK iPu' H' VH1' VH2' S2' := by
  have e1 : H = H' := funext fun i => funext fun j => hH i j
  have e2 : VH1 = VH1' := funext fun k => funext fun i => funext fun j => h1 k i j
  have e3 : VH2 = VH2' := funext fun k => funext fun i => funext fun j => h2 k i j
  have e4 : S2 = S2' := funext fun k => funext fun i => hS k i
  have e5 : p = p' := funext hp
  subst e1 e2 e3 e4 e5 hP
  exact ⟨rfl, rfl⟩

/-- R4: a rejected `set_ext_int_handling_metric` call (missing `num_streams`, missing
    modulator / packet length, unknown metric name) leaves the object exactly as it was -/
theorem set_metric_rejected_unchanged (s : MetricState) (r : MetricReq) (a : ExtraArgs)
    (h : (setMetric s r a).2 ≠ none) : (setMetric s r a).1 = s :=
  Pf.setMetric_rejected s r a h

/-- R7: whether a request is accepted does not depend on the history of the object, and an
    accepted request determines the new configuration completely — the object then behaves like
    a freshly built one given the same request -/
theorem set_metric_like_fresh (s s' : MetricState) (r : MetricReq) (a : ExtraArgs) :
    (setMetric s r a).2 = (setMetric s' r a).2 ∧
      ((setMetric s r a).2 = none → (setMetric s r a).1 = (setMetric s' r a).1) :=
  ⟨Pf.setMetric_error_indep s s' r a, Pf.setMetric_accepted_indep s s' r a⟩

/-- R4 / R7: the rejected calls can be deleted from any history of setter calls, and the
    configuration after a history is the one a fresh object gets from the last accepted request -/
theorem metric_history (s : MetricState) (ops tail : List (MetricReq × ExtraArgs)) (r : MetricReq) (a : ExtraArgs)
    (hacc : Pf.accepted (r, a) = true) (htail : ∀ x ∈ tail, Pf.accepted x = false) :
    runMetricHistory s (ops ++ (r, a) :: tail) = runMetricHistory s ((ops ++ (r, a) :: tail).filter Pf.accepted) ∧
    runMetricHistory s (ops ++ (r, a) :: tail) = (setMetric default r a).1 :=
  ⟨Pf.runMetricHistory_filter s _, Pf.runMetricHistory_last s ops r a tail hacc htail⟩

/-- R3: only the keys the metric needs are copied out of the caller's dictionary -/
theorem set_metric_copies_needed_keys (s : MetricState) (a : ExtraArgs) (n : Nat) (ha : a.numStreams = some n) :
    (setMetric s .naive a).1.args = { numStreams := some n } ∧
      (setMetric s .fixed a).1.args = { numStreams := some n } := by
  simp [setMetric, ha]

/-- R9 / R14: the row bookkeeping of `_get_sub_channel` / `_get_tilde_channel` for ANY number of
    users and antennas (in particular beyond 256 users): a row of the channel is selected iff its
    user is among the requested ones — users are identified by the VALUE of their index —, the
    tilde channel of user `k` consists of exactly the rows of the other users, `(K-1)·N` of them -/
theorem rows_selected_by_user_value {K N : Nat} (users : List (Fin K)) (k : Fin K) (x : Fin (K * N)) :
    (x ∈ subIdx users ↔ userOf x ∈ users) ∧ (x ∈ tildeIdx (N := N) k ↔ userOf x ≠ k) ∧
    tildeIdx (N := N) k = subIdx (otherUsers k) ∧ (subIdx (N := N) users).length = users.length * N ∧
    (tildeIdx (N := N) k).length = (K - 1) * N :=
  ⟨Pf.mem_subIdx users x, Pf.mem_tildeIdx k x, rfl, Pf.length_subIdx users, Pf.length_tildeIdx k⟩

end robustness

end PyPhysim.C09
