import PyPhysim.Proofs.C08
import PyPhysim.Proofs.C08Matrix
import PyPhysim.Proofs.C08Links
import PyPhysim.Proofs.C08Gen
import PyPhysim.Proofs.C08Buf

/-!
# C08 — multi-user channel matrix views stay coherent across any sequence of updates

Property theorems only.  `step`/`run` (`Model/C08.lean`) is the hand model of
`MultiUserChannelMatrix` / `MultiUserChannelMatrixExtInt`; `Cfg.fixed` is the
repaired source (what the exact correspondence of `harness/props/c08.py`
compares the working tree with), `Cfg.orig` the source of the design round,
kept for the negative witnesses.

All theorems hold for **every scalar type** `α` (only `+`, `*`, `0`), every
`sqrt`/`conj`/sign function `F`, every history (no bound on its length), every
number of users and every antenna layout.  `reach F isExt ops` is the state a
fresh object reaches by the history `ops`.

* `spec…` are the views *as the property defines them*: computed from the raw
  matrix, the CURRENT layout, the CURRENT path loss and the CURRENT filters —
  never from a cache.
* `Valid` = every operation's arguments have the documented shapes at the
  moment it is applied (`OpOK`: path loss `K × K` (+ `K × extK`), layout lists of
  length `K`, at least one interference source for the ExtInt class).  Shape
  hypotheses are needed only where blocks are *indexed* (`views agree`); cache
  coherence and the transmission clause hold for every history whatsoever.
-/
namespace PyPhysim.C08
open PyPhysim.Proto

variable {α : Type} [Add α] [Mul α] [Zero α]

/-- integers with `sqrt := id`, `conj := id`: the scalar structure of the concrete examples and of
    the negative witnesses (staleness does not depend on what `sqrt` is) -/
def fInt : Fns Int := ⟨id, id, fun x => decide (0 ≤ x)⟩

/-! ## caches are never stale -/

/-- Clause "after any sequence of … every view agrees" (cache part): after every
    finite history, on both classes, each lazily computed attribute
    (`_big_H_with_pathloss`, `_H_with_pathloss`, `_pathloss_big_matrix`, `_big_W`)
    is empty or equals its recomputation from the current raw matrix, layout,
    path loss and filters. -/
theorem coherent_history (F : Fns α) (isExt : Bool) (ops : List (Op α)) :
    Coherent F (reach F isExt ops) :=
  reach_coherent F isExt ops

/-- One more operation — any operation with any arguments — keeps it so. -/
theorem coherent_step (F : Fns α) (st : State α) (op : Op α) (h : Coherent F st) :
    Coherent F (step Cfg.fixed F st op).1 :=
  step_coherent F st op h

/-! ## what "current" means: the mutators store their arguments -/

/-- An accepted `set_pathloss(p[, pe])` makes `p` (with the interference columns
    `pe` appended on the ExtInt class) the current path loss, `set_pathloss(None)`
    removes it; the channel, the layout and the filters are untouched. -/
theorem set_pathloss_sets_current (F : Fns α) (st : State α) (p pe : Mat α)
    (hok : setPLCheck Cfg.fixed st (some p) pe = none) :
    let st' := (step Cfg.fixed F st (.setPL (some p) pe)).1
    st'.pl = some (if st.isExt then List.zipWith (· ++ ·) p pe else p)
    ∧ (step Cfg.fixed F st (.setPL none pe)).1.pl = none
    ∧ st'.raw = st.raw ∧ st'.nr = st.nr ∧ st'.nt = st.nt ∧ st'.k = st.k ∧ st'.w = st.w := by
  have hnone : setPLCheck Cfg.fixed st none pe = none := by simp [setPLCheck]
  simp only [step, hok, hnone]
  simp only [doSetPL, Cfg.fixed, if_true]
  by_cases he : st.isExt = true
  · simp [he]
  · simp [he]

/-- An accepted `randomize` / `init_from_channel_matrix` makes the drawn / given
    matrix the current raw channel and the given layout (completed by the
    interference "users" on the ExtInt class) the current layout; filters and
    noise variance are kept; the stored per-link path loss is kept iff it still
    has one entry per link (`K × _K`), otherwise dropped. -/
theorem reinit_sets_current (F : Fns α) (st : State α) (M : Mat α) (nr nt : List Nat) (K : Nat)
    (ntE : List Nat) (hok : randCheck Cfg.fixed st.isExt nr nt K ntE = none) :
    let L := fullLayout st.isExt nr nt K ntE
    let st' := (step Cfg.fixed F st (.randomize M nr nt K ntE)).1
    (initCheck M L.1 L.2.1 L.2.2.1 = true →
      step Cfg.fixed F st (.init M nr nt K ntE) = step Cfg.fixed F st (.randomize M nr nt K ntE))
    ∧ st'.raw = M ∧ st'.nr = L.1 ∧ st'.nt = L.2.1 ∧ st'.k = L.2.2.1 ∧ st'.extK = L.2.2.2
    ∧ st'.w = st.w ∧ st'.noiseVar = st.noiseVar
    ∧ st'.pl = (match st.pl with
        | none => none
        | some p => if plFits p (if st.isExt then L.2.2.1 - L.2.2.2 else L.2.2.1) L.2.2.1 then some p
                    else none) := by
  intro L st'
  refine ⟨fun h => init_eq_randomize F st M nr nt K ntE h, ?_⟩
  have : st' = install Cfg.fixed { st with extK := L.2.2.2 } M L.1 L.2.1 L.2.2.1 := by
    simp only [st', step, hok, doRandomize, L]
  rw [this]
  exact install_fields { st with extK := L.2.2.2 } M L.1 L.2.1 L.2.2.1

/-- `set_post_filter(w)` and `noise_var = v` store their argument and touch nothing else. -/
theorem filter_and_noise_set_current (F : Fns α) (st : State α) (w : Option (List (Mat α)))
    (v : α) (hv : F.nonneg v = true) :
    (step Cfg.fixed F st (.setW w)).1.w = w
    ∧ specBigW (step Cfg.fixed F st (.setW w)).1 = w.map blockDiag
    ∧ specBigH F (step Cfg.fixed F st (.setW w)).1 = specBigH F st
    ∧ (step Cfg.fixed F st (.setNoise (some v))).1.noiseVar = some v
    ∧ (step Cfg.fixed F st (.setNoise none)).1.noiseVar = none
    ∧ specBigH F (step Cfg.fixed F st (.setNoise (some v))).1 = specBigH F st := by
  simp [step, doSetNoise, hv, specBigW, specBigH]

/-! ## what the reads return -/

/-- Clause "equals the raw channel scaled by the square root of the CURRENT
    path loss" for `big_H`, `H`, `get_Hkl`, `get_Hk`: after every history, every
    read returns the view recomputed from the current raw matrix and the current
    path loss (never a value cached before a later update). -/
theorem reads_return_current_views (F : Fns α) (isExt : Bool) (ops : List (Op α)) (k l : Nat) :
    let st := reach F isExt ops
    (step Cfg.fixed F st .readBigH).2 = .mat (specBigH F st)
    ∧ (step Cfg.fixed F st .readH).2 = .mom (specH F st)
    ∧ (step Cfg.fixed F st (.readHkl k l)).2 = getD2 (specH F st) k l
    ∧ (step Cfg.fixed F st (.readHk k)).2 = getD1 (rowSplit (specBigH F st) st.nrU) k := by
  intro st
  have h := reach_coherent F isExt ops
  exact ⟨out_readBigH F st h, out_readH F st h, out_readHkl F st k l h, out_readHk F st k h⟩

/-- Same clause for the views that exist only on the external-interference
    class: `big_H_no_ext_int`, `get_Hk_without_ext_int`, `H_no_ext_int` are the
    user columns of the current `big_H` / `H`. -/
theorem extint_reads_return_current_views (F : Fns α) (ops : List (Op α)) (k : Nat) :
    let st := reach F true ops
    (step Cfg.fixed F st .readBigHNoExt).2 = .mat (takeCols (specBigH F st) st.ntU.sum)
    ∧ (step Cfg.fixed F st (.readHkNoExt k)).2
        = getD1 (rowSplit (takeCols (specBigH F st) st.ntU.sum) st.nrU) k
    ∧ (step Cfg.fixed F st .readHNoExt).2 = .mom ((specH F st).map fun r => r.take st.userK) := by
  intro st
  have h := reach_coherent F true ops
  have he : st.isExt = true := reach_isExt F true ops
  exact ⟨out_readBigHNoExt F st h he, out_readHkNoExt F st k h he, out_readHNoExt F st h he⟩

/-- R11 — the non-mutating API does not mutate.  Reading any view or observer, any other public method
    that is not a setter (`Op.query`: `calc_Q`, `calc_SINR`, …, copying or pickling the object), or sending
    data through the channel, changes no view:
    afterwards `big_H`, `H` and the block-diagonal filter are what they were. -/
theorem reads_do_not_change_views (F : Fns α) (st : State α) (op : Op α) (hr : op.isRead = true) :
    specBigH F (step Cfg.fixed F st op).1 = specBigH F st
    ∧ specH F (step Cfg.fixed F st op).1 = specH F st
    ∧ specBigW (step Cfg.fixed F st op).1 = specBigW st :=
  sameInputs_spec F (read_sameInputs F st op hr)

/-- The remaining public observers (R7): `K` / `Nr` / `Nt` / `extIntNt`, `pathloss`,
    `big_W`, `noise_var`, `last_noise` return the current configuration (never a
    cached copy of an older one), and `corrupt_concatenated_data(X)` returns
    `W^H (big_H X + noise)` with the current `big_H` and filters. -/
theorem observers_return_current (F : Fns α) (isExt : Bool) (ops : List (Op α)) (X : Mat α)
    (noise : Option (Mat α)) :
    let st := reach F isExt ops
    (step Cfg.fixed F st .readLayout).2
        = .layout st.userK st.nrU st.ntU (if st.isExt then st.nt.drop (st.nt.length - st.extK) else [])
    ∧ (step Cfg.fixed F st .readPL).2 = .optMat st.pl
    ∧ (step Cfg.fixed F st .readBigWView).2 = .optMat (specBigW st)
    ∧ (step Cfg.fixed F st .readNoiseVar).2 = .optScalar st.noiseVar
    ∧ (step Cfg.fixed F st .readLastNoise).2 = .optMat st.lastNoise
    ∧ ((st.noiseVar.isSome → noise.isSome) →
        (step Cfg.fixed F st (.corruptCat X noise)).2
            = .rx [specReceivedCat F st X noise] (specLastNoise st noise)
        ∧ (step Cfg.fixed F st (.corruptCat X noise)).1.lastNoise = specLastNoise st noise) := by
  intro st
  have h := reach_coherent F isExt ops
  refine ⟨rfl, rfl, ?_, rfl, rfl, ?_⟩
  · show Out.optMat (readBigW st).2 = _
    rw [(readBigW_spec F st h).1]
  · intro hn
    exact ⟨(doCorruptCat_spec F st X noise h hn).1, (doCorruptCat_spec F st X noise h hn).2.1⟩

/-! ## all views agree, block by block -/

/-- Clause "the block for each (receiver, transmitter) pair equals the
    corresponding sub-block of the global matrix": after every history with
    well-shaped arguments, `get_Hkl(k,l)` (= `H[k,l]`) is exactly the sub-block
    `[cumNr[k]:cumNr[k+1], cumNt[l]:cumNt[l+1]]` of what `big_H` returns — for
    every receiver `k` and every transmitter `l`, external interference sources
    included. -/
theorem hkl_is_block_of_bigH (F : Fns α) (isExt : Bool) (ops : List (Op α)) (hv : Valid F isExt ops)
    {k l : Nat} :
    let st := reach F isExt ops
    k < st.userK → l < st.k →
    ∃ M, (step Cfg.fixed F st .readBigH).2 = .mat M
       ∧ (step Cfg.fixed F st (.readHkl k l)).2 = .mat (block M st.nr st.nt k l) := by
  intro st hk hl
  have h := reach_coherent F isExt ops
  refine ⟨specBigH F st, out_readBigH F st h, ?_⟩
  rw [out_readHkl F st k l h]
  exact views_agree F st (reach_wellShaped F isExt ops hv) hk hl

/-- Clause "… and equals the raw channel scaled by the square root of the
    CURRENT path loss": `get_Hkl(k,l)` is the raw (k,l) block when no path loss
    is set, and the raw block times `sqrt(p[k][l])` of the path loss `p` that is
    stored NOW otherwise. -/
theorem hkl_is_scaled_raw_block (F : Fns α) (isExt : Bool) (ops : List (Op α)) (hv : Valid F isExt ops)
    {k l : Nat} :
    let st := reach F isExt ops
    k < st.userK → l < st.k →
    (st.pl = none →
      (step Cfg.fixed F st (.readHkl k l)).2 = .mat (block st.raw st.nr st.nt k l))
    ∧ (∀ p, st.pl = some p → ∃ prow q, p[k]? = some prow ∧ prow[l]? = some q ∧
      (step Cfg.fixed F st (.readHkl k l)).2
        = .mat (scaleBy F.sqrt (block st.raw st.nr st.nt k l) q)) := by
  intro st hk hl
  have h := reach_coherent F isExt ops
  have hw := reach_wellShaped F isExt ops hv
  rw [out_readHkl F st k l h]
  exact ⟨fun hp => specH_get_none F st hw hk hl hp, fun p hp => specH_get_some F st hw hk hl hp⟩

/-- `get_Hk(k)` is the k-th block of rows of `big_H` (so `get_Hkl(k,l)` is its
    l-th block of columns). -/
theorem hk_is_rowblock_of_bigH (F : Fns α) (isExt : Bool) (ops : List (Op α)) (hv : Valid F isExt ops)
    {k : Nat} :
    let st := reach F isExt ops
    k < st.userK →
    ∃ M, (step Cfg.fixed F st .readBigH).2 = .mat M
       ∧ (step Cfg.fixed F st (.readHk k)).2 = .mat (rowBlock M st.nr k)
       ∧ ∀ l, l < st.k →
           (step Cfg.fixed F st (.readHkl k l)).2 = .mat (colBlock (rowBlock M st.nr k) st.nt l) := by
  intro st hk
  have h := reach_coherent F isExt ops
  have hw := reach_wellShaped F isExt ops hv
  refine ⟨specBigH F st, out_readBigH F st h, ?_, ?_⟩
  · rw [out_readHk F st k h]; exact hk_rowBlock F st hw hk
  · intro l hl
    rw [out_readHkl F st k l h]
    exact views_agree F st hw hk hl

/-- The user blocks of the ExtInt-only views agree with the others: block (k,l)
    of `H_no_ext_int` is `get_Hkl(k,l)`, and the (k,l) sub-block of
    `big_H_no_ext_int` is the (k,l) sub-block of `big_H` (hence, by
    `hkl_is_block_of_bigH`, again `get_Hkl(k,l)`), for all users `k, l`. -/
theorem extint_user_views_agree (F : Fns α) (ops : List (Op α)) (hv : Valid F true ops) {k l : Nat} :
    let st := reach F true ops
    k < st.userK → l < st.userK →
    ∃ M N H, (step Cfg.fixed F st .readBigH).2 = .mat M
      ∧ (step Cfg.fixed F st .readBigHNoExt).2 = .mat N
      ∧ (step Cfg.fixed F st .readHNoExt).2 = .mom H
      ∧ block N st.nr st.nt k l = block M st.nr st.nt k l
      ∧ getD2 H k l = (step Cfg.fixed F st (.readHkl k l)).2
      ∧ getD2 H k l = .mat (block M st.nr st.nt k l) := by
  intro st hk hl
  have h := reach_coherent F true ops
  have hw := reach_wellShaped F true ops hv
  have he : st.isExt = true := reach_isExt F true ops
  have hl' : l < st.k := Nat.lt_of_lt_of_le hl (userK_le st)
  refine ⟨specBigH F st, _, _, out_readBigH F st h, out_readBigHNoExt F st h he, out_readHNoExt F st h he,
    block_takeCols _ st hw hl, ?_, ?_⟩
  · rw [getD2_map_take _ hl, out_readHkl F st k l h]
  · rw [getD2_map_take _ hl]; exact views_agree F st hw hk hl'

/-- The documented argument shapes are themselves an invariant of well-shaped
    histories (so the hypotheses of the three theorems above never become
    unsatisfiable along a history): layout lists have `_K` entries and the
    stored path loss is `K × _K`.  In particular re-initialising with another
    number of users drops a path loss that no longer fits instead of keeping
    it. -/
theorem shapes_invariant (F : Fns α) (isExt : Bool) (ops : List (Op α)) (hv : Valid F isExt ops) :
    WellShaped (reach F isExt ops) :=
  reach_wellShaped F isExt ops hv

/-! ## sending data through the channel -/

/-- Clause "data sent through the channel is received as that current global
    matrix times the stacked transmit data, plus exactly the noise reported as
    last noise, filtered by the current post-filters, and split per receiver by
    its antenna count": after every history, `corrupt_data(x[, xe])` returns
    `specReceived` — `W^H (big_H · vstack(x ++ xe) + noise)` with the CURRENT
    `big_H` and the block-diagonal matrix of the CURRENT filters, cut at the
    cumulative receive antenna counts — and `last_noise` is afterwards exactly
    the noise that was added (`None` iff no noise variance is set).  `noise` is
    the array drawn by the random generator (a parameter of the model; the only
    contract is that one is drawn when a noise variance is set). -/
theorem corrupt_spec (F : Fns α) (isExt : Bool) (ops : List (Op α))
    (x xe : List (Mat α)) (noise : Option (Mat α)) :
    let st := reach F isExt ops
    (st.noiseVar.isSome → noise.isSome) →
    (step Cfg.fixed F st (.corrupt x xe noise)).2
        = .rx (specReceived F st x xe noise) (specLastNoise st noise)
    ∧ (step Cfg.fixed F st (.corrupt x xe noise)).1.lastNoise = specLastNoise st noise := by
  intro st hn
  exact out_corrupt F st x xe noise (reach_coherent F isExt ops) hn

/-- First-principles form of "received as the current global matrix times the
    stacked transmit data" (scalars with the additive monoid laws): after every
    well-shaped history whose last channel matrix is rectangular, receiver `k`'s
    rows of `big_H · vstack(xs)` (what `corrupt_data` returns for `k` before
    noise and filter, `xs` = user data followed by the interference data) are,
    row by row, the SUM OVER THE TRANSMITTERS `l` of (that row of the block
    `get_Hkl(k,l)` = `seg Nt ρ l` of the row `ρ` of `get_Hk(k)`) times `xs[l]` —
    every link contributes through its own block, scaled by its own current
    path loss (`hkl_is_scaled_raw_block`). -/
theorem received_is_sum_over_links {R : Type} [AddMonoid R] [Mul R] (F : Fns R) (isExt : Bool)
    (ops : List (Op R)) (hv : Valid F isExt ops) (xs : List (Mat R)) {c : Nat} (k : Nat) :
    let st := reach F isExt ops
    (∀ r ∈ st.raw, r.length = st.nt.sum) →
    xs.length = st.nt.length → xs ≠ [] →
    (∀ (l : Nat) (x : Mat R), xs[l]? = some x → st.nt[l]? = some x.length ∧ x ≠ [] ∧ IsMat x c) →
    seg st.nr (matMul (specBigH F st) xs.flatten) k
      = (rowBlock (specBigH F st) st.nr k).map fun ρ =>
          vsum (List.zipWith rowMul ((List.range st.nt.length).map fun l => seg st.nt ρ l) xs) := by
  intro st hraw hlen hne hx
  exact received_rows_sum_over_links F st (reach_wellShaped F isExt ops hv) hraw xs hlen hne hx k

/-- the two sides of `received_is_sum_over_links` on a concrete 2-user channel with path loss -/
example :
    let st := reach fInt false [.init [[1, 2, 3], [4, 5, 6], [7, 8, 9]] [1, 2] [2, 1] 2 [],
                                 .setPL (some [[1, 2], [3, 1]]) []]
    let xs : List (Mat Int) := [[[1, 0], [0, 1]], [[2, 2]]]
    seg st.nr (matMul (specBigH fInt st) xs.flatten) 1 = [[24, 27], [39, 42]]
    ∧ ((rowBlock (specBigH fInt st) st.nr 1).map fun ρ =>
        vsum (List.zipWith rowMul ((List.range st.nt.length).map fun l => seg st.nt ρ l) xs))
      = [[24, 27], [39, 42]] := by
  decide

/-! ## the stacked transmit data (R1 per argument element) -/

/-- What `corrupt_data(x[, xe])` hands to `corrupt_concatenated_data` is the stack of ALL blocks, each
    kept whole: cut at the blocks' own row counts, the l-th piece of the stack is exactly the l-th
    block (of the user data followed by the interference data on the ExtInt class) — every entry of
    every block, whatever the other blocks contain.  (On the code: whatever their element types.) -/
theorem stacked_data_keeps_every_block (F : Fns α) (st : State α) (x xe : List (Mat α)) {l : Nat}
    {b : Mat α} (hb : (if st.isExt then x ++ xe else x)[l]? = some b) :
    ∃ X, (step Cfg.fixed F st (.stackData x xe)) = (st, .mat X)
      ∧ seg ((if st.isExt then x ++ xe else x).map List.length) X l = b :=
  ⟨_, rfl, seg_flatten_blocks _ hb⟩

/-- The two entry points agree: after every history, `corrupt_data(x[, xe])` returns the split by the
    receive antenna counts of what `corrupt_concatenated_data` returns for the stacked data (same noise
    drawn), and leaves the same `last_noise`. -/
theorem corrupt_is_split_of_corruptCat (F : Fns α) (isExt : Bool) (ops : List (Op α))
    (x xe : List (Mat α)) (noise : Option (Mat α)) :
    let st := reach F isExt ops
    (st.noiseVar.isSome → noise.isSome) →
    ∃ X Y ln, (step Cfg.fixed F st (.stackData x xe)).2 = .mat X
      ∧ (step Cfg.fixed F st (.corruptCat X noise)).2 = .rx [Y] ln
      ∧ (step Cfg.fixed F st (.corrupt x xe noise)).2
          = .rx ((List.range st.userK).map fun k => seg st.nr Y k) ln := by
  intro st hn
  have h := reach_coherent F isExt ops
  refine ⟨_, _, _, rfl, (doCorruptCat_spec F st _ noise h hn).1, ?_⟩
  rw [(out_corrupt F st x xe noise h hn).1]
  rfl

/-! ## the matrix operations of the model are the mathematical ones -/

/-- `matMul` (the model of `np.dot`, used for `big_H · data`) is the matrix
    product: on the row lists of Mathlib matrices over any semiring it returns
    the row lists of `A * B`. -/
theorem matMul_is_matrix_product {R : Type} [Semiring R] {m n p : Nat}
    (A : Matrix (Fin m) (Fin (n + 1)) R) (B : Matrix (Fin (n + 1)) (Fin p) R) :
    matMul (toLists A) (toLists B) = toLists (A * B) :=
  matMul_toLists A B

/-- `conjTMul` (the model of `np.dot(big_W.conjugate().T, ·)`) is the product with
    the conjugate transpose, and `matAdd` (the model of `output += noise`) is the
    matrix sum. -/
theorem conjTMul_is_conjTranspose_product {R : Type} [Semiring R] (conj : R → R) {n q p : Nat}
    (W : Matrix (Fin (n + 1)) (Fin q) R) (Y Z : Matrix (Fin (n + 1)) (Fin p) R) :
    conjTMul conj (toLists W) (toLists Y) = toLists ((W.map conj).transpose * Y)
    ∧ matAdd (toLists Y) (toLists Z) = toLists (Y + Z) :=
  ⟨conjTMul_toLists conj W Y, matAdd_toLists Y Z⟩

omit [Add α] [Mul α] in
/-- `blockDiag` (the model of `scipy.linalg.block_diag`, the cached `big_W`) is
    block diagonal: cut at the filters' own row and column counts, its (k,l)
    block is the k-th filter when `k = l` and zero otherwise. -/
theorem blockDiag_is_block_diagonal (ws : List (Mat α)) (hrect : ∀ w ∈ ws, ∀ r ∈ w, r.length = cols w)
    {k l : Nat} {w : Mat α} {cl : Nat} (hk : ws[k]? = some w) (hl : (ws.map cols)[l]? = some cl) :
    block (blockDiag ws) (ws.map List.length) (ws.map cols) k l
      = if k = l then w else List.replicate w.length (List.replicate cl 0) :=
  block_blockDiag ws hrect hk hl

/-! ## rejected arguments -/

/-- A negative noise variance is rejected (`AssertionError`) and nothing changes. -/
theorem negative_noise_var_rejected (F : Fns α) (st : State α) (v : α) (h : F.nonneg v = false) :
    step Cfg.fixed F st (.setNoise (some v)) = (st, .err .AssertionError) := by
  simp [step, doSetNoise, h]

/-- R4 — a call that raises leaves the object as it was.  Whatever the operation and
    its arguments: if it returns an error (`ValueError` of `init_from_channel_matrix` /
    `randomize` / `set_pathloss`, `IndexError` of a too small path loss or of an index
    out of range, `AssertionError` of a negative noise variance, `AttributeError` of an
    ExtInt-only view on the plain class) then the raw channel, the layout, `K`,
    `extIntK`, the path loss, the filters, the noise variance and `last_noise` are
    unchanged — hence every view is — and the caches stay coherent. -/
theorem rejected_call_changes_nothing (F : Fns α) (st : State α) (op : Op α) (e : PyErr)
    (h : (step Cfg.fixed F st op).2 = .err e) :
    SameInputs (step Cfg.fixed F st op).1 st
    ∧ (step Cfg.fixed F st op).1.lastNoise = st.lastNoise
    ∧ specBigH F (step Cfg.fixed F st op).1 = specBigH F st
    ∧ specH F (step Cfg.fixed F st op).1 = specH F st
    ∧ specBigW (step Cfg.fixed F st op).1 = specBigW st := by
  obtain ⟨h1, h2⟩ := step_err_unchanged F st op e h
  exact ⟨h1, h2, sameInputs_spec F h1⟩

/-- `init_from_channel_matrix` with a matrix whose shape is not `(sum Nr, sum Nt)` or
    with layout lists whose length is not `K` raises `ValueError` and (both classes)
    changes nothing at all — in particular not the stored antenna counts or `extIntK`;
    likewise `randomize` with layout lists whose length is not `K`. -/
theorem bad_init_rejected (F : Fns α) (st : State α) (M : Mat α) (nr nt : List Nat) (K : Nat)
    (ntE : List Nat) :
    let L := fullLayout st.isExt nr nt K ntE
    (initCheck M L.1 L.2.1 L.2.2.1 = false →
      step Cfg.fixed F st (.init M nr nt K ntE) = (st, .err .ValueError))
    ∧ ((L.1.length ≠ L.2.2.1 ∨ L.2.1.length ≠ L.2.2.1) →
      step Cfg.fixed F st (.randomize M nr nt K ntE) = (st, .err .ValueError)) := by
  intro L
  constructor
  · intro hbad
    simp [step, doInit, hbad, L, Cfg.fixed]
  · intro hbad
    have : randCheck Cfg.fixed st.isExt nr nt K ntE = some .ValueError := by
      simp only [randCheck, Cfg.fixed, Bool.true_and]
      rw [if_pos]
      simp only [Bool.or_eq_true, bne_iff_ne, ne_eq]
      exact hbad
    simp [step, this]

/-- `set_pathloss` with a matrix smaller than `K × _K` raises `IndexError`, with an
    interference path loss whose number of rows differs raises `ValueError`; nothing
    changes. -/
theorem bad_pathloss_rejected (F : Fns α) (st : State α) (p pe : Mat α) (e : PyErr)
    (hbad : setPLCheck Cfg.fixed st (some p) pe = some e) :
    step Cfg.fixed F st (.setPL (some p) pe) = (st, .err e) := by
  simp [step, hbad]

/-- Reading a block outside the layout raises `IndexError`. -/
theorem hkl_out_of_range (F : Fns α) (isExt : Bool) (ops : List (Op α)) (hv : Valid F isExt ops)
    (k l : Nat) :
    let st := reach F isExt ops
    st.userK ≤ k → (step Cfg.fixed F st (.readHkl k l)).2 = .err .IndexError := by
  intro st hk
  rw [out_readHkl F st k l (reach_coherent F isExt ops)]
  exact getD2_out_of_range F st (reach_wellShaped F isExt ops hv) hk

/-! ## the design-round code violated the property (negative witnesses on `Cfg.orig`) -/

/-- finding (4): `MultiUserChannelMatrixExtInt.set_pathloss` did not reset
    `_big_H_with_pathloss` -/
def witnessExtSetPL : List (Op Int) :=
  [.init [[1, 1]] [1] [1] 1 [1], .setPL (some [[2]]) [[3]], .readBigH, .setPL (some [[5]]) [[7]], .readBigH]

/-- On the design-round code the second `big_H` read of `witnessExtSetPL`
    returns the matrix scaled by the FIRST path loss, not the current one. -/
theorem extint_stale_bigH_orig :
    (run Cfg.orig fInt (State.init Int true) witnessExtSetPL).2.getLast? = some (.mat [[2, 3]])
    ∧ specBigH fInt (run Cfg.orig fInt (State.init Int true) witnessExtSetPL).1 = [[5, 7]] := by
  decide

/-- finding (5): `randomize` / `init_from_channel_matrix` kept the path loss
    expanded for the PREVIOUS antenna layout -/
def witnessRelayout : List (Op Int) :=
  [.init [[1, 1, 1], [1, 1, 1], [1, 1, 1]] [2, 1] [2, 1] 2 [], .setPL (some [[2, 3], [5, 7]]) [],
   .init [[1, 1, 1], [1, 1, 1], [1, 1, 1]] [1, 2] [1, 2] 2 [], .readBigH, .readHkl 0 1]

/-- On the design-round code, after `witnessRelayout`, `big_H` is scaled with
    the old block structure while `get_Hkl(0,1)` uses the new one: the two views
    disagree (and `big_H` is not the current spec). -/
theorem layout_change_stale_orig :
    (run Cfg.orig fInt (State.init Int false) witnessRelayout).2.drop 3
        = [.mat [[2, 2, 3], [2, 2, 3], [5, 5, 7]], .mat [[3, 3]]]
    ∧ specBigH fInt (run Cfg.orig fInt (State.init Int false) witnessRelayout).1
        = [[2, 3, 3], [5, 7, 7], [5, 7, 7]]
    ∧ block [[2, 2, 3], [2, 2, 3], [5, 5, 7]] [1, 2] [1, 2] 0 1 ≠ ([[3, 3]] : Mat Int) := by
  decide

/-- finding (6): `H_no_ext_int` went through the base-class getter, whose
    product of a `(K+e)×(K+e)` object array with the `K×(K+e)` path loss does
    not broadcast for `K ≥ 2` -/
def witnessHNoExt : List (Op Int) :=
  [.init [[1, 1, 1], [1, 1, 1]] [1, 1] [1, 1] 2 [1], .setPL (some [[1, 4], [4, 1]]) [[9], [9]], .readHNoExt]

/-- On the design-round code `H_no_ext_int` raises as soon as a path loss is set. -/
theorem hnoext_raises_orig :
    (run Cfg.orig fInt (State.init Int true) witnessHNoExt).2.getLast? = some (.err .ValueError) := by
  decide

/-! ## non-vacuity: the same histories on the repaired code, and they are `Valid` -/

example : Valid fInt true witnessExtSetPL ∧
    (run Cfg.fixed fInt (State.init Int true) witnessExtSetPL).2.getLast? = some (.mat [[5, 7]]) :=
  ⟨valid_of_validb _ _ _ (by decide), by decide⟩

example : Valid fInt false witnessRelayout ∧
    (run Cfg.fixed fInt (State.init Int false) witnessRelayout).2.drop 3
      = [.mat [[2, 3, 3], [5, 7, 7], [5, 7, 7]], .mat [[3, 3]]] :=
  ⟨valid_of_validb _ _ _ (by decide), by decide⟩

example : Valid fInt true witnessHNoExt ∧
    (run Cfg.fixed fInt (State.init Int true) witnessHNoExt).2.getLast?
      = some (.mom [[[[1]], [[4]]], [[[4]], [[1]]]]) :=
  ⟨valid_of_validb _ _ _ (by decide), by decide⟩

/-- a transmission with noise and a post filter on the repaired model
    (hypothesis of `corrupt_spec` satisfiable, result non-trivial) -/
example :
    (run Cfg.fixed fInt (State.init Int false)
      [.init [[1, 2], [3, 4]] [1, 1] [1, 1] 2 [], .setPL (some [[1, 2], [3, 1]]) [], .setNoise (some 1),
       .setW (some [[[2]], [[1]]]), .corrupt [[[1]], [[1]]] [] (some [[10], [20]])]).2.getLast?
      = some (.rx [[[30]], [[33]]] (some [[10], [20]])) := by
  decide

/-! ## second tie to the source: the cache-invalidation structure, by regeneration

`Generated/C08Effects.lean` is re-emitted from `pyphysim/channels/multiuser.py` on every check
run (`harness/gen/c08.py`): for each of the two classes and each public method / property
getter / property setter — overrides resolved per class, private helpers and base-class calls
inlined — the attributes it resets on every normal path, assigns, writes only on some paths, may
fill lazily and reads; the attributes a fresh object has; what every lazy fill reads.  The
theorems below compare those tables with the model and prove the invalidation discipline on
them, so that a dropped / conditional reset, a getter that stops recomputing, or a new cached
attribute breaks a proof obligation (independently of the seeded correspondence). -/
section effects
open PyPhysim.CacheEffects PyPhysim.Generated

/-- The effect table `effect` IS what the model does: for every state, every operation and all
    arguments, `step` (i) changes no field outside the table (nor the class flag), (ii) leaves a
    field listed under `fills` as it was or takes it from `None` to a value, and (iii) leaves
    `None` in every field listed under `clears` whenever the call is accepted. -/
theorem model_step_has_table_effect (F : Fns α) (st : State α) (op : Op α) :
    let e := effect st.isExt op.kind
    let st' := (step Cfg.fixed F st op).1
    st'.isExt = st.isExt
    ∧ (∀ f, f ∉ e.touched → f.agree st st')
    ∧ (∀ f ∈ e.fills, f.agree st st' ∨ (f.isNone st ∧ ¬ f.isNone st'))
    ∧ ((∀ err, (step Cfg.fixed F st op).2 ≠ .err err) → ∀ f ∈ e.clears, f.isNone st') :=
  ⟨(step_sameOutside F st op).1.symm, (step_sameOutside F st op).2,
   fun f hf => step_fillOnly F st op f hf, fun hok f hf => step_clears F st op f hf hok⟩

/-- … and the table is not an over-approximation: on concrete two-user objects of either class
    (kernel-evaluated, integers) every field the table lists for an operation is really changed
    by that operation. -/
theorem model_effect_table_is_tight : tight false = true ∧ tight true = true := by
  decide

/-- The dependency table `specDeps` IS what the coherence invariant encodes: `Coherent` is the
    conjunction of one clause per derived field, and the clause of a derived field reads that
    field and the fields `specDeps` lists for it, nothing else. -/
theorem coherence_reads_only_spec_dependencies (F : Fns α) (a b : State α) :
    (Coherent F a ↔ ∀ f ∈ derivedFlds, clause F f a)
    ∧ ∀ f, f.agree a b → (∀ g ∈ specDeps f, g.agree a b) → (clause F f a ↔ clause F f b) :=
  ⟨coherent_iff_clauses F a, fun f hf hd => clause_congr F f a b hf hd⟩

/-- Bridge (i): every generated row of both classes equals (as sets of attributes) the effect of
    the model operation behind that entry point — same resets, same assignments, same
    conditional writes, same lazy fills; entry points without a model operation (`calc_Q`,
    `calc_SINR`, seeding, …) write nothing; every modelled entry point has a row. -/
theorem generated_effects_match_model :
    (C08Effects.rows.all rowMatches && entryPointsPresent C08Effects.rows) = true := by
  decide +kernel

omit [Add α] [Mul α] [Zero α] in
/-- The attributes of a fresh object are exactly the ones the model has a field for (plus the two
    random generators), `None` exactly where `State.init` has `none`; no entry point touches an
    attribute that `__init__` does not create.  A new private attribute breaks this. -/
theorem generated_attributes_known :
    (initMatches C08Effects.initAttrs && mentionsOnlyInit C08Effects.initAttrs C08Effects.rows) = true
    ∧ ∀ (e : Bool) (f : Fld), f.isNone (State.init α e) ↔ f ∈ initNone :=
  ⟨by decide +kernel, init_isNone_iff⟩

/-- The lazily filled attributes found in the source are the model's caches, and the attributes
    each fill (transitively, through the eagerly derived ones) reads are exactly the fields
    `specDeps` says the cached value is computed from. -/
theorem generated_fill_reads_match_model : fillsMatch C08Effects.fillReads = true := by
  decide +kernel

/-- Bridge (ii), the sufficiency condition, on the GENERATED tables: every entry point of either
    class that writes an attribute resets or rewrites — on every normal path — every derived
    attribute (lazy cache or eagerly recomputed) whose dependency closure, taken from the generated
    fill read-sets, contains it. -/
theorem generated_effects_sufficient :
    sufficient (depsOf C08Effects.fillReads) C08Effects.rows = true := by
  decide +kernel

/-- What bridge (ii) means, for ANY object with the generated structure (no reference to the hand
    model): let every derived attribute have a coherence relation that reads only that attribute
    and its dependency closure (`Local`), in any value type.  If a call of an entry point changes
    only what its generated row lists as written, and what it stores in a derived attribute is
    `None` or coherent (`Obeys`), then it takes coherent objects to coherent objects. -/
theorem generated_tables_preserve_coherence {V : Type} (none : V)
    (rel : String → String → Obj V → Prop)
    (hloc : ∀ cls, Local (depsOf C08Effects.fillReads cls) (rel cls))
    (r : Row) (hr : r ∈ C08Effects.rows) (σ τ : Obj V)
    (hob : Obeys none (depsOf C08Effects.fillReads r.cls) (rel r.cls) r σ τ)
    (hcoh : Coh none (depsOf C08Effects.fillReads r.cls) (fun _ => false) (rel r.cls) σ) :
    Coh none (depsOf C08Effects.fillReads r.cls) (fun _ => false) (rel r.cls) τ :=
  sufficientBut_preserves_coherence none (depsOf C08Effects.fillReads) (fun _ _ => false) C08Effects.rows
    (by rw [← sufficient_eq_sufficientBut]; exact generated_effects_sufficient) rel hloc r hr σ τ hob hcoh

/-- the hypotheses of `generated_tables_preserve_coherence` are satisfiable in a non-trivial way:
    values are numbers (`0` = `None`), on the plain class `_big_W` is coherent when it is `_W + 1`;
    `set_post_filter` (its generated row) stores a new `_W` and resets `_big_W` -/
example :
    let rel : String → String → Obj Nat → Prop :=
      fun cls c σ => cls = plainCls → c = "_big_W" → σ "_big_W" = σ "_W" + 1
    let σ : Obj Nat := fun a => if a = "_W" then 1 else if a = "_big_W" then 2 else 7
    let τ : Obj Nat := fun a => if a = "_W" then 5 else if a = "_big_W" then 0 else 7
    let r : Row := { cls := plainCls, name := "set_post_filter", clears := ["_big_W"], assigns := ["_W"],
                     mayWrite := [], fills := [], reads := ["_W"] }
    (∀ cls, Local (depsOf C08Effects.fillReads cls) (rel cls)) ∧ r ∈ C08Effects.rows
    ∧ Obeys 0 (depsOf C08Effects.fillReads r.cls) (rel r.cls) r σ τ
    ∧ Coh 0 (depsOf C08Effects.fillReads r.cls) (fun _ => false) (rel r.cls) σ := by
  intro rel σ τ r
  refine ⟨?_, by decide, ⟨?_, ?_, ?_⟩, ?_⟩
  · intro cls c a b hab
    by_cases hcls : cls = plainCls
    · subst hcls
      by_cases hc : c = "_big_W"
      · subst hc
        have h1 := hab "_big_W" (.inl rfl)
        have h2 : a "_W" = b "_W" := hab "_W" (.inr (by decide))
        simp only [rel, h1, h2]
      · simp only [rel, hc, false_implies, implies_true]
    · simp only [rel, hcls, false_implies]
  · intro a ha
    simp only [Row.written, r, List.append_nil, List.cons_append, List.nil_append, List.mem_cons,
      List.not_mem_nil, or_false, not_or] at ha
    simp [σ, τ, ha.1, ha.2]
  · intro c _ hm
    simp only [Row.mustWritten, r, List.cons_append, List.nil_append, List.mem_cons, List.not_mem_nil,
      or_false] at hm
    rcases hm with rfl | rfl
    · left; decide
    · right; intro _ h; exact absurd h (by decide)
  · intro c _ hm
    simp only [Row.written, r, List.append_nil, List.cons_append, List.nil_append, List.mem_cons,
      List.not_mem_nil, or_false] at hm
    rcases hm with rfl | rfl
    · right; left; decide
    · right; right; intro _ h; exact absurd h (by decide)
  · intro c _ _
    right
    intro _ hc
    subst hc
    decide

/-- the condition is not vacuous: `set_pathloss` without the reset of `_big_H_with_pathloss`
    (the design-round defect of the ExtInt class) violates it, and so does a cache `_foo` of
    `big_H` that `set_pathloss` does not know -/
example :
    sufficient (depsOf C08Effects.fillReads)
      [{ cls := extCls, name := "set_pathloss", clears := ["_H_with_pathloss"],
         assigns := ["_pathloss_big_matrix", "_pathloss_matrix"], mayWrite := [], fills := [], reads := [] }] = false
    ∧ sufficient (depsOf (("MultiUserChannelMatrix", "_foo", ["_big_H_with_pathloss", "_pathloss_matrix"])
        :: C08Effects.fillReads))
      [{ cls := plainCls, name := "set_pathloss", clears := ["_H_with_pathloss", "_big_H_with_pathloss"],
         assigns := ["_pathloss_big_matrix", "_pathloss_matrix"], mayWrite := [], fills := [], reads := [] }] = false := by
  decide

end effects

/-! ## R15 — distinct values that are merely close

No comparison of the model has a tolerance, no setter has an "unchanged → skip" path, no view is
looked up by a rounded key: the model is a function of the *exact* values.  The theorems say what
an `np.isclose` shortcut, an absolute threshold or a rounded cache key in the source would break
(the correspondence and the oracles run the real classes on pairs of values that differ by one
part in 2^26, by 2^-65 in absolute terms, or that are all below 1e-8). -/

/-- **A setter takes effect for every new value.**  Whatever was set before — however close to the
    new value — the second of two accepted calls of `set_pathloss`, `noise_var =`, `set_post_filter`
    or `init_from_channel_matrix` (same antenna layout) decides alone: the object is exactly the one
    the second call alone would have produced from the original state.  There is no "the value did
    not change (much), keep what we have". -/
theorem setter_takes_effect_for_every_new_value (F : Fns α) (st : State α) :
    (∀ (p q : Option (Mat α)) (pe qe : Mat α), setPLCheck Cfg.fixed st p pe = none →
        setPLCheck Cfg.fixed st q qe = none →
        step Cfg.fixed F (step Cfg.fixed F st (.setPL p pe)).1 (.setPL q qe) = step Cfg.fixed F st (.setPL q qe))
    ∧ (∀ (v w : Option α), (∀ x, w = some x → F.nonneg x = true) →
        (step Cfg.fixed F (step Cfg.fixed F st (.setNoise v)).1 (.setNoise w)).1
          = (step Cfg.fixed F st (.setNoise w)).1)
    ∧ (∀ (v w : Option (List (Mat α))),
        step Cfg.fixed F (step Cfg.fixed F st (.setW v)).1 (.setW w) = step Cfg.fixed F st (.setW w))
    ∧ (∀ (M M' : Mat α) (nr nt : List Nat) (K : Nat) (ntE : List Nat),
        initCheck M (fullLayout st.isExt nr nt K ntE).1 (fullLayout st.isExt nr nt K ntE).2.1
          (fullLayout st.isExt nr nt K ntE).2.2.1 = true →
        initCheck M' (fullLayout st.isExt nr nt K ntE).1 (fullLayout st.isExt nr nt K ntE).2.1
          (fullLayout st.isExt nr nt K ntE).2.2.1 = true →
        step Cfg.fixed F (step Cfg.fixed F st (.init M nr nt K ntE)).1 (.init M' nr nt K ntE)
          = step Cfg.fixed F st (.init M' nr nt K ntE)) :=
  ⟨fun p q pe qe h1 h2 => step_setPL_setPL F st p pe q qe h1 h2,
   fun v w hw => step_setNoise_setNoise F st v w hw,
   fun v w => step_setW_setW F st v w,
   fun M M' nr nt K ntE h h' => step_init_init F st M M' nr nt K ntE h h'⟩

/-- **What is read back is the exact value** (`lookup_exact`): after an accepted `set_pathloss(p[, pe])`
    the `pathloss` property returns exactly `p` (`hstack([p, pe])` on the ExtInt class), after
    `noise_var = v` the `noise_var` property returns exactly `v`, after `init_from_channel_matrix(M, …)`
    without a path loss `big_H` returns exactly `M` — so two *different* arguments, however close,
    give different observable results. -/
theorem lookup_exact (F : Fns α) (st : State α) :
    (∀ (p pe : Mat α), setPLCheck Cfg.fixed st (some p) pe = none →
        (step Cfg.fixed F (step Cfg.fixed F st (.setPL (some p) pe)).1 .readPL).2
          = .optMat (some (if st.isExt then List.zipWith (· ++ ·) p pe else p)))
    ∧ (∀ v : α, F.nonneg v = true →
        (step Cfg.fixed F (step Cfg.fixed F st (.setNoise (some v))).1 .readNoiseVar).2 = .optScalar (some v))
    ∧ (∀ (M : Mat α) (nr nt : List Nat) (K : Nat) (ntE : List Nat), st.pl = none →
        initCheck M (fullLayout st.isExt nr nt K ntE).1 (fullLayout st.isExt nr nt K ntE).2.1
          (fullLayout st.isExt nr nt K ntE).2.2.1 = true →
        (step Cfg.fixed F (step Cfg.fixed F st (.init M nr nt K ntE)).1 .readBigH).2 = .mat M)
    ∧ (∀ a b : Mat α, a ≠ b → (Out.optMat (some a) : Out α) ≠ .optMat (some b))
    ∧ (∀ a b : α, a ≠ b → (Out.optScalar (some a) : Out α) ≠ .optScalar (some b))
    ∧ (∀ a b : Mat α, a ≠ b → (Out.mat a : Out α) ≠ .mat b) := by
  refine ⟨?_, ?_, ?_, ?_, ?_, ?_⟩
  · intro p pe hok
    have := (set_pathloss_sets_current F st p pe hok).1
    simp only [step] at this ⊢
    rw [this]
  · intro v hv
    simp [step, doSetNoise, hv]
  · intro M nr nt K ntE hpl hok
    simp only [step, doInit, hok, if_true, install, Cfg.fixed, hpl, readBigH]
  · intro a b hab h; exact hab (by injection h with h; injection h)
  · intro a b hab h; exact hab (by injection h with h; injection h)
  · intro a b hab h; exact hab (by injection h)

/-- **No magnitude threshold on the noise variance.**  Once `noise_var = v` was accepted — for every
    `v ≥ 0`, `0.0`, `1e-15`, … — a transmission adds the noise that was drawn and reports exactly it as
    `last_noise`; only `noise_var = None` switches the noise off. -/
theorem every_accepted_noise_variance_adds_noise (F : Fns α) (isExt : Bool) (ops : List (Op α)) (v : α)
    (hv : F.nonneg v = true) (X n : Mat α) :
    let st := (step Cfg.fixed F (reach F isExt ops) (.setNoise (some v))).1
    (step Cfg.fixed F st (.corruptCat X (some n))).2 = .rx [specReceivedCat F st X (some n)] (some n)
    ∧ (step Cfg.fixed F st (.corruptCat X (some n))).1.lastNoise = some n := by
  intro st
  have hc : Coherent F st := step_coherent F _ _ (reach_coherent F isExt ops)
  have hnv : st.noiseVar = some v := by simp [st, step, doSetNoise, hv]
  have h := doCorruptCat_spec F st X (some n) hc (fun _ => rfl)
  simp only [specLastNoise, hnv] at h
  exact ⟨h.1, h.2.1⟩

/-! ## R16 — argument identity and buffer reuse

`Model/C08Buf.lean`: a caller that owns its arrays (`Heap`), refills them in place between calls
(`BOp.refill`) and hands them — one array possibly for several parameters — to the channel object
(`BOp.call mk`, the arguments being read from the arrays at call time). -/

/-- **Results depend only on the contents at call time.**  A caller program with refilled / shared
    arrays gives exactly the outputs (and leaves exactly the object) of the value history in which every
    call receives the contents its arrays had when it was made; in particular two programs whose arrays
    hold equal contents at every call — the same array object refilled, or a different array object each
    time — are indistinguishable. -/
theorem results_depend_on_contents_at_call_time (cfg : Cfg) (F : Fns α) (prog prog' : List (Buf.BOp α))
    (h h' : Buf.Heap α) (st : State α) :
    Buf.bufRun cfg F (h, st) prog
      = ((Buf.heapAfter h prog, (run cfg F st (Buf.resolve h prog)).1), (run cfg F st (Buf.resolve h prog)).2)
    ∧ (Buf.resolve h prog = Buf.resolve h' prog' →
        (Buf.bufRun cfg F (h, st) prog).2 = (Buf.bufRun cfg F (h', st) prog').2
        ∧ (Buf.bufRun cfg F (h, st) prog).1.2 = (Buf.bufRun cfg F (h', st) prog').1.2) := by
  refine ⟨Buf.bufRun_eq_run_resolve cfg F prog h st, fun he => ?_⟩
  rw [Buf.bufRun_eq_run_resolve, Buf.bufRun_eq_run_resolve, he]
  exact ⟨rfl, rfl⟩

/-- **Earlier results are not changed by later refills, and a refill alone does nothing to the object.**
    Whatever the caller does afterwards (`more`: refills, further calls with the same arrays), the outputs
    of the calls already made are the first outputs of the longer program; overwriting an array without a
    call leaves the channel object as it was. -/
theorem later_refills_do_not_change_earlier_results (cfg : Cfg) (F : Fns α) (prog more : List (Buf.BOp α))
    (hs : Buf.Heap α × State α) (s : Nat) (M : Mat α) :
    (∃ later, (Buf.bufRun cfg F hs (prog ++ more)).2 = (Buf.bufRun cfg F hs prog).2 ++ later)
    ∧ (Buf.bufStep cfg F hs (.refill s M)).1.2 = hs.2
    ∧ (Buf.bufStep cfg F hs (.refill s M)).2 = none := by
  refine ⟨⟨_, by rw [Buf.bufRun_append]⟩, rfl, rfl⟩

/-- non-vacuity / what an identity-keyed memo would get wrong: ONE array, handed to `set_pathloss`, refilled
    in place with close-but-different contents and handed over again — `pathloss` reports the new contents;
    and the same array for two parameters (`set_pathloss(P, P)` on the ExtInt class) is `hstack([P, P])` -/
example :
    (Buf.bufRun Cfg.fixed fInt ((fun _ => []), State.init Int false)
      [.call fun _ => .init [[1, 2], [3, 4]] [1, 1] [1, 1] 2 [],
       .refill 0 [[4, 9], [16, 25]], .call fun h => .setPL (some (h 0)) [], .call fun _ => .readPL,
       .refill 0 [[4, 9], [16, 26]], .call fun h => .setPL (some (h 0)) [], .call fun _ => .readPL,
       .refill 0 [[0, 0], [0, 0]], .call fun _ => .readPL]).2
      = [.unit, .unit, .optMat (some [[4, 9], [16, 25]]), .unit, .optMat (some [[4, 9], [16, 26]]),
         .optMat (some [[4, 9], [16, 26]])]
    ∧ (Buf.bufRun Cfg.fixed fInt ((fun _ => []), State.init Int true)
      [.call fun _ => .init [[1, 2, 5, 7], [3, 4, 6, 8]] [1, 1] [1, 1] 2 [1, 1],
       .refill 0 [[4, 1], [1, 9]], .call fun h => .setPL (some (h 0)) (h 0), .call fun _ => .readPL]).2
      = [.unit, .unit, .optMat (some [[4, 1, 4, 1], [1, 9, 1, 9]])] := by
  decide +kernel

end PyPhysim.C08
