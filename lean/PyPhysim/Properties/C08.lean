import PyPhysim.Proofs.C08

/-!
# C08 — multi-user channel matrix views stay coherent across any sequence of updates

Property theorems only.  `step`/`run` (`Model/C08.lean`) is the hand model of
`MultiUserChannelMatrix` / `MultiUserChannelMatrixExtInt`; `Cfg.fixed` is the
repaired source (what the exact correspondence of `harness/props/c08.py`
compares the working tree with), `Cfg.orig` the source of the design round,
kept for the negative witnesses.

All theorems hold for **every scalar type** `α` (only `+`, `*`, `0`), every
`sqrt`/`conj`/sign function `F`, every history (no bound on its length), every
number of users and every antenna layout.  `reach F isExt ops` is the state a
fresh object reaches by the history `ops`.

* `spec…` are the views *as the property defines them*: computed from the raw
  matrix, the CURRENT layout, the CURRENT path loss and the CURRENT filters —
  never from a cache.
* `Valid` = every operation's arguments have the documented shapes at the
  moment it is applied (`OpOK`: path loss `K × K` (+ `K × extK`), layout lists of
  length `K`, at least one interference source for the ExtInt class).  Shape
  hypotheses are needed only where blocks are *indexed* (`views agree`); cache
  coherence and the transmission clause hold for every history whatsoever.
-/
namespace PyPhysim.C08
open PyPhysim.Proto

variable {α : Type} [Add α] [Mul α] [Zero α]

/-! ## caches are never stale -/

/-- Clause "after any sequence of … every view agrees" (cache part): after every
    finite history, on both classes, each lazily computed attribute
    (`_big_H_with_pathloss`, `_H_with_pathloss`, `_pathloss_big_matrix`, `_big_W`)
    is empty or equals its recomputation from the current raw matrix, layout,
    path loss and filters. -/
theorem coherent_history (F : Fns α) (isExt : Bool) (ops : List (Op α)) :
    Coherent F (reach F isExt ops) :=
  reach_coherent F isExt ops

/-- One more operation — any operation with any arguments — keeps it so. -/
theorem coherent_step (F : Fns α) (st : State α) (op : Op α) (h : Coherent F st) :
    Coherent F (step Cfg.fixed F st op).1 :=
  step_coherent F st op h

/-! ## what the reads return -/

/-- Clause "equals the raw channel scaled by the square root of the CURRENT
    path loss" for `big_H`, `H`, `get_Hkl`, `get_Hk`: after every history, every
    read returns the view recomputed from the current raw matrix and the current
    path loss (never a value cached before a later update). -/
theorem reads_return_current_views (F : Fns α) (isExt : Bool) (ops : List (Op α)) (k l : Nat) :
    let st := reach F isExt ops
    (step Cfg.fixed F st .readBigH).2 = .mat (specBigH F st)
    ∧ (step Cfg.fixed F st .readH).2 = .mom (specH F st)
    ∧ (step Cfg.fixed F st (.readHkl k l)).2 = getD2 (specH F st) k l
    ∧ (step Cfg.fixed F st (.readHk k)).2 = getD1 (rowSplit (specBigH F st) st.nrU) k := by
  intro st
  have h := reach_coherent F isExt ops
  exact ⟨out_readBigH F st h, out_readH F st h, out_readHkl F st k l h, out_readHk F st k h⟩

/-- Same clause for the views that exist only on the external-interference
    class: `big_H_no_ext_int`, `get_Hk_without_ext_int`, `H_no_ext_int` are the
    user columns of the current `big_H` / `H`. -/
theorem extint_reads_return_current_views (F : Fns α) (ops : List (Op α)) (k : Nat) :
    let st := reach F true ops
    (step Cfg.fixed F st .readBigHNoExt).2 = .mat (takeCols (specBigH F st) st.ntU.sum)
    ∧ (step Cfg.fixed F st (.readHkNoExt k)).2
        = getD1 (rowSplit (takeCols (specBigH F st) st.ntU.sum) st.nrU) k
    ∧ (step Cfg.fixed F st .readHNoExt).2 = .mom ((specH F st).map fun r => r.take st.userK) := by
  intro st
  have h := reach_coherent F true ops
  have he : st.isExt = true := reach_isExt F true ops
  exact ⟨out_readBigHNoExt F st h he, out_readHkNoExt F st k h he, out_readHNoExt F st h he⟩

/-- Reading any view, or sending data through the channel, changes no view:
    afterwards `big_H`, `H` and the block-diagonal filter are what they were. -/
theorem reads_do_not_change_views (F : Fns α) (st : State α) (op : Op α) (hr : op.isRead = true) :
    specBigH F (step Cfg.fixed F st op).1 = specBigH F st
    ∧ specH F (step Cfg.fixed F st op).1 = specH F st
    ∧ specBigW (step Cfg.fixed F st op).1 = specBigW st :=
  sameInputs_spec F (read_sameInputs F st op hr)

/-! ## all views agree, block by block -/

/-- Clause "the block for each (receiver, transmitter) pair equals the
    corresponding sub-block of the global matrix": after every history with
    well-shaped arguments, `get_Hkl(k,l)` (= `H[k,l]`) is exactly the sub-block
    `[cumNr[k]:cumNr[k+1], cumNt[l]:cumNt[l+1]]` of what `big_H` returns — for
    every receiver `k` and every transmitter `l`, external interference sources
    included. -/
theorem hkl_is_block_of_bigH (F : Fns α) (isExt : Bool) (ops : List (Op α)) (hv : Valid F isExt ops)
    {k l : Nat} :
    let st := reach F isExt ops
    k < st.userK → l < st.k →
    ∃ M, (step Cfg.fixed F st .readBigH).2 = .mat M
       ∧ (step Cfg.fixed F st (.readHkl k l)).2 = .mat (block M st.nr st.nt k l) := by
  intro st hk hl
  have h := reach_coherent F isExt ops
  refine ⟨specBigH F st, out_readBigH F st h, ?_⟩
  rw [out_readHkl F st k l h]
  exact views_agree F st (reach_wellShaped F isExt ops hv) hk hl

/-- Clause "… and equals the raw channel scaled by the square root of the
    CURRENT path loss": `get_Hkl(k,l)` is the raw (k,l) block when no path loss
    is set, and the raw block times `sqrt(p[k][l])` of the path loss `p` that is
    stored NOW otherwise. -/
theorem hkl_is_scaled_raw_block (F : Fns α) (isExt : Bool) (ops : List (Op α)) (hv : Valid F isExt ops)
    {k l : Nat} :
    let st := reach F isExt ops
    k < st.userK → l < st.k →
    (st.pl = none →
      (step Cfg.fixed F st (.readHkl k l)).2 = .mat (block st.raw st.nr st.nt k l))
    ∧ (∀ p, st.pl = some p → ∃ prow q, p[k]? = some prow ∧ prow[l]? = some q ∧
      (step Cfg.fixed F st (.readHkl k l)).2
        = .mat (scaleBy F.sqrt (block st.raw st.nr st.nt k l) q)) := by
  intro st hk hl
  have h := reach_coherent F isExt ops
  have hw := reach_wellShaped F isExt ops hv
  rw [out_readHkl F st k l h]
  exact ⟨fun hp => specH_get_none F st hw hk hl hp, fun p hp => specH_get_some F st hw hk hl hp⟩

/-- `get_Hk(k)` is the k-th block of rows of `big_H` (so `get_Hkl(k,l)` is its
    l-th block of columns). -/
theorem hk_is_rowblock_of_bigH (F : Fns α) (isExt : Bool) (ops : List (Op α)) (hv : Valid F isExt ops)
    {k : Nat} :
    let st := reach F isExt ops
    k < st.userK →
    ∃ M, (step Cfg.fixed F st .readBigH).2 = .mat M
       ∧ (step Cfg.fixed F st (.readHk k)).2 = .mat (rowBlock M st.nr k)
       ∧ ∀ l, l < st.k →
           (step Cfg.fixed F st (.readHkl k l)).2 = .mat (colBlock (rowBlock M st.nr k) st.nt l) := by
  intro st hk
  have h := reach_coherent F isExt ops
  have hw := reach_wellShaped F isExt ops hv
  refine ⟨specBigH F st, out_readBigH F st h, ?_, ?_⟩
  · rw [out_readHk F st k h]; exact hk_rowBlock F st hw hk
  · intro l hl
    rw [out_readHkl F st k l h]
    exact views_agree F st hw hk hl

/-- The documented argument shapes are themselves an invariant of well-shaped
    histories (so the hypotheses of the three theorems above never become
    unsatisfiable along a history): layout lists have `_K` entries and the
    stored path loss is `K × _K`.  In particular re-initialising with another
    number of users drops a path loss that no longer fits instead of keeping
    it. -/
theorem shapes_invariant (F : Fns α) (isExt : Bool) (ops : List (Op α)) (hv : Valid F isExt ops) :
    WellShaped (reach F isExt ops) :=
  reach_wellShaped F isExt ops hv

/-! ## sending data through the channel -/

/-- Clause "data sent through the channel is received as that current global
    matrix times the stacked transmit data, plus exactly the noise reported as
    last noise, filtered by the current post-filters, and split per receiver by
    its antenna count": after every history, `corrupt_data(x[, xe])` returns
    `specReceived` — `W^H (big_H · vstack(x ++ xe) + noise)` with the CURRENT
    `big_H` and the block-diagonal matrix of the CURRENT filters, cut at the
    cumulative receive antenna counts — and `last_noise` is afterwards exactly
    the noise that was added (`None` iff no noise variance is set).  `noise` is
    the array drawn by the random generator (a parameter of the model; the only
    contract is that one is drawn when a noise variance is set). -/
theorem corrupt_spec (F : Fns α) (isExt : Bool) (ops : List (Op α))
    (x xe : List (Mat α)) (noise : Option (Mat α)) :
    let st := reach F isExt ops
    (st.noiseVar.isSome → noise.isSome) →
    (step Cfg.fixed F st (.corrupt x xe noise)).2
        = .rx (specReceived F st x xe noise) (specLastNoise st noise)
    ∧ (step Cfg.fixed F st (.corrupt x xe noise)).1.lastNoise = specLastNoise st noise := by
  intro st hn
  exact out_corrupt F st x xe noise (reach_coherent F isExt ops) hn

/-! ## rejected arguments -/

/-- A negative noise variance is rejected (`AssertionError`) and nothing changes. -/
theorem negative_noise_var_rejected (F : Fns α) (st : State α) (v : α) (h : F.nonneg v = false) :
    step Cfg.fixed F st (.setNoise (some v)) = (st, .err .AssertionError) := by
  simp [step, doSetNoise, h]

/-- `init_from_channel_matrix` with a matrix whose shape is not
    `(sum Nr, sum Nt)` or with layout lists whose length is not `K` raises
    `ValueError`; on the plain class every view is unchanged. -/
theorem bad_init_rejected (F : Fns α) (st : State α) (M : Mat α) (nr nt : List Nat) (K : Nat)
    (hp : st.isExt = false) (hbad : initCheck M nr nt K = false) :
    (step Cfg.fixed F st (.init M nr nt K [])).2 = .err .ValueError
    ∧ specBigH F (step Cfg.fixed F st (.init M nr nt K [])).1 = specBigH F st
    ∧ specH F (step Cfg.fixed F st (.init M nr nt K [])).1 = specH F st := by
  simp [step, doInit, fullLayout, hp, hbad, specBigH, specH, specHFull, State.hNoPL]

/-- Reading a block outside the layout raises `IndexError`. -/
theorem hkl_out_of_range (F : Fns α) (isExt : Bool) (ops : List (Op α)) (hv : Valid F isExt ops)
    (k l : Nat) :
    let st := reach F isExt ops
    st.userK ≤ k → (step Cfg.fixed F st (.readHkl k l)).2 = .err .IndexError := by
  intro st hk
  rw [out_readHkl F st k l (reach_coherent F isExt ops)]
  exact getD2_out_of_range F st (reach_wellShaped F isExt ops hv) hk

/-! ## the design-round code violated the property (negative witnesses on `Cfg.orig`) -/

/-- integers, `sqrt := id`: enough to exhibit staleness -/
def fInt : Fns Int := ⟨id, id, fun x => decide (0 ≤ x)⟩

/-- finding (4): `MultiUserChannelMatrixExtInt.set_pathloss` did not reset
    `_big_H_with_pathloss` -/
def witnessExtSetPL : List (Op Int) :=
  [.init [[1, 1]] [1] [1] 1 [1], .setPL (some [[2]]) [[3]], .readBigH, .setPL (some [[5]]) [[7]], .readBigH]

/-- On the design-round code the second `big_H` read of `witnessExtSetPL`
    returns the matrix scaled by the FIRST path loss, not the current one. -/
theorem extint_stale_bigH_orig :
    (run Cfg.orig fInt (State.init Int true) witnessExtSetPL).2.getLast? = some (.mat [[2, 3]])
    ∧ specBigH fInt (run Cfg.orig fInt (State.init Int true) witnessExtSetPL).1 = [[5, 7]] := by
  decide

/-- finding (5): `randomize` / `init_from_channel_matrix` kept the path loss
    expanded for the PREVIOUS antenna layout -/
def witnessRelayout : List (Op Int) :=
  [.init [[1, 1, 1], [1, 1, 1], [1, 1, 1]] [2, 1] [2, 1] 2 [], .setPL (some [[2, 3], [5, 7]]) [],
   .init [[1, 1, 1], [1, 1, 1], [1, 1, 1]] [1, 2] [1, 2] 2 [], .readBigH, .readHkl 0 1]

/-- On the design-round code, after `witnessRelayout`, `big_H` is scaled with
    the old block structure while `get_Hkl(0,1)` uses the new one: the two views
    disagree (and `big_H` is not the current spec). -/
theorem layout_change_stale_orig :
    (run Cfg.orig fInt (State.init Int false) witnessRelayout).2.drop 3
        = [.mat [[2, 2, 3], [2, 2, 3], [5, 5, 7]], .mat [[3, 3]]]
    ∧ specBigH fInt (run Cfg.orig fInt (State.init Int false) witnessRelayout).1
        = [[2, 3, 3], [5, 7, 7], [5, 7, 7]]
    ∧ block [[2, 2, 3], [2, 2, 3], [5, 5, 7]] [1, 2] [1, 2] 0 1 ≠ ([[3, 3]] : Mat Int) := by
  decide

/-- finding (6): `H_no_ext_int` went through the base-class getter, whose
    product of a `(K+e)×(K+e)` object array with the `K×(K+e)` path loss does
    not broadcast for `K ≥ 2` -/
def witnessHNoExt : List (Op Int) :=
  [.init [[1, 1, 1], [1, 1, 1]] [1, 1] [1, 1] 2 [1], .setPL (some [[1, 4], [4, 1]]) [[9], [9]], .readHNoExt]

/-- On the design-round code `H_no_ext_int` raises as soon as a path loss is set. -/
theorem hnoext_raises_orig :
    (run Cfg.orig fInt (State.init Int true) witnessHNoExt).2.getLast? = some (.err .ValueError) := by
  decide

/-! ## non-vacuity: the same histories on the repaired code, and they are `Valid` -/

example : Valid fInt true witnessExtSetPL ∧
    (run Cfg.fixed fInt (State.init Int true) witnessExtSetPL).2.getLast? = some (.mat [[5, 7]]) :=
  ⟨valid_of_validb _ _ _ (by decide), by decide⟩

example : Valid fInt false witnessRelayout ∧
    (run Cfg.fixed fInt (State.init Int false) witnessRelayout).2.drop 3
      = [.mat [[2, 3, 3], [5, 7, 7], [5, 7, 7]], .mat [[3, 3]]] :=
  ⟨valid_of_validb _ _ _ (by decide), by decide⟩

example : Valid fInt true witnessHNoExt ∧
    (run Cfg.fixed fInt (State.init Int true) witnessHNoExt).2.getLast?
      = some (.mom [[[[1]], [[4]]], [[[4]], [[1]]]]) :=
  ⟨valid_of_validb _ _ _ (by decide), by decide⟩

/-- a transmission with noise and a post filter on the repaired model
    (hypothesis of `corrupt_spec` satisfiable, result non-trivial) -/
example :
    (run Cfg.fixed fInt (State.init Int false)
      [.init [[1, 2], [3, 4]] [1, 1] [1, 1] 2 [], .setPL (some [[1, 2], [3, 1]]) [], .setNoise (some 1),
       .setW (some [[[2]], [[1]]]), .corrupt [[[1]], [[1]]] [] (some [[10], [20]])]).2.getLast?
      = some (.rx [[[30]], [[33]]] (some [[10], [20]])) := by
  decide

end PyPhysim.C08
