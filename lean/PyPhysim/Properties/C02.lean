import PyPhysim.Proofs.C02Gen
import PyPhysim.Proofs.C02Complex
import PyPhysim.Proofs.C02Pair
import PyPhysim.Proofs.C02Exact

/-!
# C02 — OFDM round trip, cyclic prefix, guard bands, one-tap equalisation

Property theorems only.  The model is `PyPhysim.Model.C02`; the index functions
`set_parameters`, `_calc_zeropad`, `get_used_subcarrier_indexes` are additionally
*regenerated from the source* (`Generated/OfdmIndex.lean`) and proved equal to the
model's normal forms (`gen_*` theorems below); `_calculate_power_scale` is regenerated
too and proved positive (the property does not depend on its value: the model takes
the scale as a parameter `s ≠ 0`).  Everything else is tied to `ofdm.py` /
`fading.py` by the correspondence of `harness/props/c02.py`.  `np.fft` is an external kernel:
theorems are stated for any kernel pair satisfying `KernelPair` and for the
textbook transforms `dft` / `idft`.  Binary64 rounding is outside the theorems.
-/
set_option linter.unusedSectionVars false
namespace PyPhysim.C02
open PyPhysim.Proto

/-! ## configurations -/

/-- `set_parameters` accepts exactly the triples with `0 ≤ cp ≤ fft`, `used` even and
    `2 ≤ used ≤ fft` (`used = None` meaning `fft`), stores them unchanged, and raises
    `ValueError` for everything else. -/
theorem params_guard_iff (fft cp : Int) (used : Option Int) :
    (ValidInt fft cp (used.getD fft) ∧
      setParameters fft cp used = .ok ⟨fft.toNat, cp.toNat, (used.getD fft).toNat⟩) ∨
    (¬ ValidInt fft cp (used.getD fft) ∧ setParameters fft cp used = .error .ValueError) := by
  by_cases h : ValidInt fft cp (used.getD fft)
  · exact .inl ⟨h, setParameters_ok _ _ _ h⟩
  · exact .inr ⟨h, setParameters_error _ _ _ h⟩

/-- every valid configuration can be set. -/
theorem params_valid_accepted (p : Params) (h : p.Valid) :
    setParameters p.fft p.cp (some p.used) = .ok p := setParameters_of_valid p h

/-- For every history of `set_parameters` calls on an object the stored configuration
    stays valid; a rejected call changes nothing. -/
theorem params_history_valid (s : Params) (hs : s.Valid) (ops : List (Int × Int × Option Int)) :
    (run s ops).Valid := run_valid s hs ops

/-- … and each single call either stores exactly its (valid) arguments or raises `ValueError`
    leaving the object as it was. -/
theorem params_step_spec (s : Params) (op : Int × Int × Option Int) :
    (ValidInt op.1 op.2.1 (op.2.2.getD op.1) ∧
      step s op = (⟨op.1.toNat, op.2.1.toNat, (op.2.2.getD op.1).toNat⟩, none)) ∨
    (¬ ValidInt op.1 op.2.1 (op.2.2.getD op.1) ∧ step s op = (s, some .ValueError)) :=
  step_spec s op

/-! ## tie (a): the source functions are the model's normal forms -/

/-- `OFDM.set_parameters` as written in `ofdm.py` is the model's guard ladder. -/
theorem gen_set_parameters (fft cp : Int) (u : Option Int) :
    (Generated.C02.set_parameters fft cp u).map
        (fun t => (⟨t.1.toNat, t.2.1.toNat, t.2.2.toNat⟩ : Params)) = setParameters fft cp u :=
  gen_set_parameters' fft cp u

/-- `OFDM.get_used_subcarrier_indexes` as written in `ofdm.py` (arange / fftshift / r_ / hstack /
    slices) computes the normal form `usedIdx` for every valid configuration. -/
theorem gen_usedIdx (p : Params) (hp : p.Valid) :
    Generated.C02.get_used_subcarrier_indexes (p.fft : Int) (p.used : Int)
      = (usedIdx p.fft p.used).map Int.ofNat := gen_usedIdx' p hp

/-- `OFDM._calc_zeropad` as written in `ofdm.py` (float ceiling read as exact) is the model's
    `(zeropad, numSymbols)`. -/
theorem gen_calc_zeropad (p : Params) (hp : p.Valid) (n : Nat) :
    Generated.C02.calc_zeropad (p.used : Int) (n : Int)
      = (((zeropad p n : Nat) : Int), ((numSymbols p n : Nat) : Int)) := gen_calc_zeropad' p hp n

/-- `OFDM._calculate_power_scale` as written in `ofdm.py` is a positive real number for every valid
    configuration (so `math.sqrt` of it is defined and non-zero; nothing else about the scale matters
    for the property, the two factors cancel). -/
theorem scale_positive (p : Params) (hp : p.Valid) :
    0 < Generated.C02.calculate_power_scale (α := ℝ) p.fft p.cp p.used := codeScale_pos p hp

/-! ## index layer -/

/-- The used-subcarrier index list has `used` pairwise distinct entries, all valid positions of
    an FFT row. -/
theorem usedIdx_spec (p : Params) (hp : p.Valid) :
    (usedIdx p.fft p.used).length = p.used ∧ (usedIdx p.fft p.used).Nodup ∧
      ∀ i ∈ usedIdx p.fft p.used, i < p.fft :=
  ⟨usedIdx_length _ _ hp.2.2.1, usedIdx_nodup p hp, usedIdx_lt p hp⟩

/-- With fewer used subcarriers than the FFT size, bin `j` is used iff its signed subcarrier number
    lies in `{1,…,h} ∪ {-h,…,-1}`, `h = used/2`: DC (bin 0) and the outer band
    `h < j < fft - h` are exactly the unused bins. -/
theorem usedIdx_complement (p : Params) (hp : p.Valid) (hlt : p.used < p.fft) (j : Nat) (hj : j < p.fft) :
    j ∉ usedIdx p.fft p.used ↔ j = 0 ∨ (p.used / 2 < j ∧ j < p.fft - p.used / 2) := by
  rw [mem_usedIdx_of_lt p hp hlt]
  omega

/-- With every subcarrier used the index list is a permutation of all bins. -/
theorem usedIdx_all (p : Params) (hp : p.Valid) (heq : p.used = p.fft) (j : Nat) :
    j ∈ usedIdx p.fft p.used ↔ j < p.fft := mem_usedIdx_of_eq p hp heq j

/-- Zero padding: the padded length is `used · ⌈n/used⌉`, the least multiple of `used` that is
    `≥ n` (fewer than `used` zeros are added). -/
theorem zeropad_minimal (p : Params) (hp : p.Valid) (n : Nat) :
    n + zeropad p n = p.used * numSymbols p n ∧ zeropad p n < p.used := zeropad_spec p hp n

/-! ## emitted signal -/

section emitted
variable {α : Type} [Zero α] [Add α] [Mul α] [Div α]

/-- **Length**: the emitted signal has `(fft + cp)` samples per OFDM symbol and `⌈n/used⌉` symbols
    (any kernel returning `fft` values). -/
theorem modulate_length (ifftK : Nat → List α → List α) (s : α) (p : Params) (hp : p.Valid)
    (hk : ∀ v, (ifftK p.fft v).length = p.fft) (x : List α) :
    (modulate ifftK s p x).length = numSymbols p x.length * (p.fft + p.cp) :=
  modulate_length' ifftK s p hp hk x

/-- **Cyclic prefix**: in every emitted OFDM symbol `r`, prefix sample `i < cp` exists and is an
    exact copy of sample `fft + i` of the same symbol (the symbol tail). -/
theorem cp_is_tail_copy (ifftK : Nat → List α → List α) (s : α) (p : Params) (hp : p.Valid)
    (hk : ∀ v, (ifftK p.fft v).length = p.fft) (x : List α) (r i : Nat)
    (hr : r < numSymbols p x.length) (hi : i < p.cp) :
    (modulate ifftK s p x)[r * (p.fft + p.cp) + i]?
      = (modulate ifftK s p x)[r * (p.fft + p.cp) + (p.fft + i)]? ∧
    (modulate ifftK s p x)[r * (p.fft + p.cp) + i]? ≠ none :=
  cp_is_tail_copy' ifftK s p hp hk x r i hr hi

/-- **Guard carriers (IFFT input)**: every IFFT input row is `0` at DC and on the outer band
    whenever fewer subcarriers than the FFT size are used. -/
theorem guard_carriers_zero (p : Params) (hp : p.Valid) (hlt : p.used < p.fft) (x X : List α)
    (hX : X ∈ prepare p x) (j : Nat) (hj : j < p.fft)
    (hg : j = 0 ∨ (p.used / 2 < j ∧ j < p.fft - p.used / 2)) : X[j]? = some 0 :=
  prepare_zero_off_used p x X hX j hj ((usedIdx_complement p hp hlt j hj).mpr hg)

end emitted

/-! ## the transform kernels -/

/-- The textbook transforms over any field with a primitive `N`-th root of unity `ω`
    (`fft(a)[k] = Σ a[m]·ω^{mk}`, `ifft(a)[m] = (1/N)·Σ a[k]·ω^{-mk}`) satisfy the kernel contract:
    `N` values out, `fft(ifft v) = v` (DFT inversion from orthogonality of the characters) and
    homogeneity. `np.fft` is checked against these definitions numerically by the harness. -/
theorem dft_contract {K : Type} [Field K] (ω : K) (N : ℕ) (hω : IsPrimitiveRoot ω N) (hN : (N : K) ≠ 0) :
    KernelPair N (fun n a => dft (fun m => ω ^ m) n a) (fun n a => idft (fun m => ω⁻¹ ^ m) n a) :=
  dft_kernelPair ω N hω hN

/-- numpy's twiddle factor `exp(-2πi/N)` is a primitive `N`-th root of unity in ℂ, so the contract
    holds for the complex DFT of every size. -/
theorem dft_contract_complex (N : ℕ) (hN : N ≠ 0) :
    KernelPair N (fun n a => dft (fun m => npOmega N ^ m) n a)
      (fun n a => idft (fun m => (npOmega N)⁻¹ ^ m) n a) :=
  dft_kernelPair (npOmega N) N (npOmega_primitive N hN) (Nat.cast_ne_zero.mpr hN)

/-- The symmetric scale `√(_calculate_power_scale())` applied by `modulate` and removed by
    `demodulate` is a non-zero number for every valid configuration. -/
theorem scale_ne_zero (p : Params) (hp : p.Valid) :
    ((Real.sqrt (codeScale p) : ℝ) : ℂ) ≠ 0 := sqrt_scale_ne_zero p hp

/-- **Guard carriers (emitted signal)**: whenever fewer subcarriers than the FFT size are used, the
    transform of the body (the `fft` samples after the prefix) of every emitted OFDM symbol is `0` at
    DC and on the outer band — those subcarriers carry no energy. Any kernel pair with the contract. -/
theorem guard_bins_silent {K : Type} [Field K] (p : Params) (hp : p.Valid) (hlt : p.used < p.fft)
    (F Finv : ℕ → List K → List K) (hK : KernelPair p.fft F Finv) (s : K) (x b : List K)
    (hb : b ∈ rows (p.fft + p.cp) (numSymbols p x.length) (modulate Finv s p x))
    (j : ℕ) (hj : j < p.fft) (hg : j = 0 ∨ (p.used / 2 < j ∧ j < p.fft - p.used / 2)) :
    (F p.fft (b.drop p.cp))[j]? = some 0 := by
  have hmem : F p.fft (b.drop p.cp) ∈ (rows (p.fft + p.cp) (numSymbols p x.length)
      (modulate Finv s p x)).map (fun b => F p.fft (b.drop p.cp)) := List.mem_map.mpr ⟨b, hb, rfl⟩
  rw [emitted_spectrum p hp F Finv hK s x] at hmem
  obtain ⟨X, hX, hXe⟩ := List.mem_map.mp hmem
  rw [← hXe, List.getElem?_map,
    prepare_zero_off_used p x X hX j hj ((usedIdx_complement p hp hlt j hj).mpr hg)]
  simp

/-! ## round trip -/

/-- **Round trip**: for every valid configuration, every input length, every kernel pair
    satisfying the contract (`fft(ifft v) = v`, homogeneity, `fft` values out) and every
    non-zero scale, demodulating the modulated signal returns the input followed only by
    the `zeropad` zeros. -/
theorem ofdm_roundtrip {K : Type} [Field K] (p : Params) (hp : p.Valid)
    (F Finv : Nat → List K → List K) (hK : KernelPair p.fft F Finv) (s : K) (hs : s ≠ 0)
    (x : List K) :
    demodulate F s p (modulate Finv s p x) = .ok (x ++ List.replicate (zeropad p x.length) 0) :=
  ofdm_roundtrip' p hp F Finv hK s hs x

/-- a received block whose length is not a multiple of `fft + cp` is rejected -/
theorem demodulate_rejects_bad_length {α : Type} [Zero α] [Add α] [Mul α] [Div α]
    (fftK : Nat → List α → List α) (s : α) (p : Params) (hp : p.Valid) (y : List α)
    (h : y.length % (p.fft + p.cp) ≠ 0) : demodulate fftK s p y = .error .ValueError := by
  have hw : p.fft + p.cp ≠ 0 := by have := hp.2.2.2; have := hp.2.1; omega
  unfold demodulate removeCP
  simp only
  rw [if_neg hw, if_pos]
  intro e
  apply h
  rw [← e]
  exact Nat.mul_mod_left _ _

/-- **Round trip with numpy's DFT and the code's scale**: the instance of `ofdm_roundtrip` at ℂ with
    twiddle `exp(-2πi/fft)` and scale `√(fft²/(used+cp))`. -/
theorem ofdm_roundtrip_complex (p : Params) (hp : p.Valid) (x : List ℂ) :
    demodulate (fun n a => dft (fun m => npOmega p.fft ^ m) n a)
        ((Real.sqrt (codeScale p) : ℝ) : ℂ) p
        (modulate (fun n a => idft (fun m => (npOmega p.fft)⁻¹ ^ m) n a)
          ((Real.sqrt (codeScale p) : ℝ) : ℂ) p x)
      = .ok (x ++ List.replicate (zeropad p x.length) 0) :=
  ofdm_roundtrip' p hp _ _
    (dft_contract_complex p.fft (by have := hp.2.2.2; have := hp.2.1; omega)) _
    (sqrt_scale_ne_zero p hp) x

/-! ## time-invariant channel and one-tap equalisation -/

section channel
variable {K : Type} [Field K]

/-- **The cyclic prefix makes the convolution circular**: send symbol bodies `t_0,…` (each `N`
    samples, prefixed with `C ≤ N` samples) through a time-invariant TDL channel with taps
    `(d_i, g_i)` whose memory `M = max d_i` does not exceed `C`. Then sample `n` of the FFT window of
    symbol `r` in the channel output is `Σ_i g_i · t_r[(n - d_i) mod N]`: a circular convolution
    of symbol `r` alone, free of inter-symbol interference. -/
theorem cp_makes_circular (N C : ℕ) (hC : C ≤ N) (ts : List (List K))
    (hts : ∀ t ∈ ts, t.length = N) (delays : List ℕ) (gains : List K) (M : ℕ)
    (hM : delays.getLast? = some M) (hd : ∀ d ∈ delays, d ≤ M) (hMC : M ≤ C) (z : List K)
    (hz : corrupt (staticIR delays gains ((ts.map (addCP C)).flatten).length)
        ((ts.map (addCP C)).flatten) = .ok z)
    (r n : ℕ) (hr : r < ts.length) (hn : n < N) :
    z.getD (r * (N + C) + C + n) 0
      = ((delays.zip gains).map (fun dg => dg.2 * (ts.getD r []).getD ((n + N - dg.1) % N) 0)).sum :=
  cp_makes_circular' N C hC ts hts delays gains M hM hd hMC z hz r n hr hn

/-- **Convolution theorem** for that circular convolution: its DFT at bin `k` is
    `H[k] · DFT(t)[k]` with `H[k] = Σ_i g_i ω^{d_i k}` (any `ω` with `ω^N = 1`, delays `≤ N`). -/
theorem dft_circular_convolution (ω : K) (N : ℕ) (hω : ω ^ N = 1) (f : ℕ → K) (delays : List ℕ)
    (gains : List K) (hd : ∀ d ∈ delays, d ≤ N) (k : ℕ) :
    ∑ n ∈ Finset.range N,
        ((delays.zip gains).map (fun dg => dg.2 * f ((n + N - dg.1) % N))).sum * ω ^ (n * k)
      = Hs ω delays gains k * ∑ m ∈ Finset.range N, f m * ω ^ (m * k) :=
  dft_circ ω N hω f (delays.zip gains) (fun dv hdv => hd dv.1 (List.of_mem_zip hdv).1) k

/-- **The reported frequency response** `get_freq_response(fft)` of a time-invariant impulse response
    is `H` at every sample, provided all taps fit into the transform (`memory < fft`): the `fft`-point
    transform of the dense, zero-padded tap vector. -/
theorem freq_response_static (ω : K) (N : ℕ) (delays : List ℕ) (gains : List K) (ns M : ℕ)
    (hM : delays.getLast? = some M) (hd : ∀ d ∈ delays, d ≤ M) (hnd : delays.Nodup) (hMN : M < N)
    (j : ℕ) (hj : j < ns) :
    freqResponse (fun n a => dft (fun m => ω ^ m) n a) N (staticIR delays gains ns) j
      = .ok ((List.range N).map (Hs ω delays gains)) :=
  freqResponse_static ω N delays gains ns M hM hd hnd hMN j hj

/-- The full one-tap clause of the property over a field `K`: for every valid configuration, every
    primitive `fft`-th root of unity, every non-zero scale, every time-invariant tap profile
    (distinct delays, last delay = memory) with memory `≤ cp` whose frequency response does not
    vanish on a used carrier, and every input, modulate → channel → keep `len(tx)` samples →
    demodulate → one-tap equalise with the reported impulse response returns the input followed
    only by the zero padding. -/
def OneTapStatement (K : Type) [Field K] : Prop :=
  ∀ (p : Params), p.Valid → ∀ (ω : K), IsPrimitiveRoot ω p.fft → ∀ (s : K), s ≠ 0 →
  ∀ (delays : List ℕ) (gains : List K) (M : ℕ), delays.getLast? = some M → (∀ d ∈ delays, d ≤ M) →
    delays.Nodup → M ≤ p.cp → (∀ k ∈ usedIdx p.fft p.used, Hs ω delays gains k ≠ 0) →
  ∀ (x : List K),
    oneTapReceive (fun n a => dft (fun m => ω ^ m) n a) s p
        (staticIR delays gains (modulate (fun n a => idft (fun m => ω⁻¹ ^ m) n a) s p x).length)
        (modulate (fun n a => idft (fun m => ω⁻¹ ^ m) n a) s p x)
      = .ok (x ++ List.replicate (zeropad p x.length) 0)

/-- **One-tap equalisation is exact** (`one_tap_exact_partial` of the design): the statement above
    under the one extra hypothesis the proof forced, `memory < fft` (only the corner
    `memory = cp = fft` is excluded, see `one_tap_fails_at_full_memory`). Characteristic-zero field
    (the mean over the samples of a symbol divides by their number). -/
theorem one_tap_exact [CharZero K] (p : Params) (hp : p.Valid) (ω : K) (hω : IsPrimitiveRoot ω p.fft)
    (s : K) (hs : s ≠ 0) (delays : List ℕ) (gains : List K) (M : ℕ)
    (hM : delays.getLast? = some M) (hd : ∀ d ∈ delays, d ≤ M) (hnd : delays.Nodup)
    (hMC : M ≤ p.cp) (hMN : M < p.fft)
    (hH : ∀ k ∈ usedIdx p.fft p.used, Hs ω delays gains k ≠ 0) (x : List K) :
    oneTapReceive (fun n a => dft (fun m => ω ^ m) n a) s p
        (staticIR delays gains (modulate (fun n a => idft (fun m => ω⁻¹ ^ m) n a) s p x).length)
        (modulate (fun n a => idft (fun m => ω⁻¹ ^ m) n a) s p x)
      = .ok (x ++ List.replicate (zeropad p x.length) 0) :=
  one_tap_exact' p hp ω hω s hs delays gains M hM hd hnd hMC hMN hH x

end channel

/-- `one_tap_exact` at ℂ with numpy's twiddle `exp(-2πi/fft)` and the code's scale. -/
theorem one_tap_exact_complex (p : Params) (hp : p.Valid) (delays : List ℕ) (gains : List ℂ) (M : ℕ)
    (hM : delays.getLast? = some M) (hd : ∀ d ∈ delays, d ≤ M) (hnd : delays.Nodup)
    (hMC : M ≤ p.cp) (hMN : M < p.fft)
    (hH : ∀ k ∈ usedIdx p.fft p.used, Hs (npOmega p.fft) delays gains k ≠ 0) (x : List ℂ) :
    oneTapReceive (fun n a => dft (fun m => npOmega p.fft ^ m) n a)
        ((Real.sqrt (codeScale p) : ℝ) : ℂ) p
        (staticIR delays gains (modulate (fun n a => idft (fun m => (npOmega p.fft)⁻¹ ^ m) n a)
          ((Real.sqrt (codeScale p) : ℝ) : ℂ) p x).length)
        (modulate (fun n a => idft (fun m => (npOmega p.fft)⁻¹ ^ m) n a)
          ((Real.sqrt (codeScale p) : ℝ) : ℂ) p x)
      = .ok (x ++ List.replicate (zeropad p x.length) 0) :=
  one_tap_exact' p hp (npOmega p.fft)
    (npOmega_primitive p.fft (by have := hp.2.2.2; have := hp.2.1; omega)) _
    (sqrt_scale_ne_zero p hp) delays gains M hM hd hnd hMC hMN hH x

/-! ## one OFDM object, one long-lived equaliser, any history -/

section pair
variable {α : Type} [Zero α] [Add α] [Mul α] [Div α] [NatCast α]

/-- **Configuration after a history**: whatever operations (`set_parameters` accepted or rejected,
    `modulate`, `demodulate`, `equalize_data`) were interleaved on the pair, the shared OFDM object holds
    the result of its `set_parameters` calls alone (the last accepted triple), and it is valid. -/
theorem pair_history_config (F Finv : ℕ → List α → List α) (sc : Params → α) (s : Pair)
    (hs : s.ofdm.Valid) (ops : List (PairOp α)) :
    (runPair F Finv sc s ops).1.ofdm = run s.ofdm (setOps ops) ∧
      (runPair F Finv sc s ops).1.ofdm.Valid :=
  ⟨runPair_ofdm F Finv sc s ops, runPair_valid F Finv sc s hs ops⟩

/-- **No stale derived state**: after ANY history, every operation on the long-lived pair — in
    particular `equalize_data` on the long-lived equaliser — returns exactly what the same operation
    returns on a freshly built `(OFDM, OfdmOneTapEqualizer)` pair with the current configuration: the
    equaliser holds a reference to the OFDM object and no copy of anything derived from it.
    (That the code has this shape is what the history correspondence of the harness checks.) -/
theorem pair_equals_fresh (F Finv : ℕ → List α → List α) (sc : Params → α) (s : Pair)
    (ops : List (PairOp α)) (op : PairOp α) :
    (stepPair F Finv sc (runPair F Finv sc s ops).1 op).2
      = (stepPair F Finv sc (freshPair (runPair F Finv sc s ops).1.ofdm) op).2 := rfl

/-- only an accepted `set_parameters` changes the pair. -/
theorem pair_step_state (F Finv : ℕ → List α → List α) (sc : Params → α) (s : Pair) (op : PairOp α) :
    (stepPair F Finv sc s op).1 = s ∨
      ∃ f c u p, op = .setParams f c u ∧ setParameters f c u = .ok p ∧
        (stepPair F Finv sc s op).1 = ⟨p⟩ := stepPair_state F Finv sc s op

end pair

/-- **Round trip after any history** of reconfigurations and uses of the one OFDM object. -/
theorem pair_roundtrip_after_history {K : Type} [Field K] (F Finv : ℕ → List K → List K)
    (sc : Params → K) (s : Pair) (hs : s.ofdm.Valid) (ops : List (PairOp K))
    (hK : KernelPair (runPair F Finv sc s ops).1.ofdm.fft F Finv)
    (hsc : sc (runPair F Finv sc s ops).1.ofdm ≠ 0) (x : List K) :
    ∃ tx, (stepPair F Finv sc (runPair F Finv sc s ops).1 (.modulate x)).2 = .ok tx ∧
      (stepPair F Finv sc (runPair F Finv sc s ops).1 (.demodulate tx)).2
        = .ok (x ++ List.replicate (zeropad (runPair F Finv sc s ops).1.ofdm x.length) 0) :=
  pair_roundtrip F Finv sc s hs ops hK hsc x

/-- **One-tap equalisation after any history**: reconfigure the OFDM object any number of times
    (growing / shrinking fft, changing cp and used, rejected calls in between, earlier transmissions),
    then modulate, pass a time-invariant channel with memory `≤ cp`, `< fft` of the CURRENT
    configuration `p`, demodulate and equalise with the equaliser built before the history: the input
    comes back followed only by the zero padding. `Ω n` is the twiddle used at transform size `n`. -/
theorem pair_one_tap_after_history {K : Type} [Field K] [CharZero K] (Ω : ℕ → K) (sc : Params → K)
    (s : Pair) (hs : s.ofdm.Valid) (ops : List (PairOp K)) (p : Params)
    (hp : p = (runPair (fun n a => dft (fun m => Ω n ^ m) n a)
      (fun n a => idft (fun m => (Ω n)⁻¹ ^ m) n a) sc s ops).1.ofdm)
    (hΩ : IsPrimitiveRoot (Ω p.fft) p.fft) (hsc : sc p ≠ 0)
    (delays : List ℕ) (gains : List K) (M : ℕ) (hM : delays.getLast? = some M)
    (hd : ∀ d ∈ delays, d ≤ M) (hnd : delays.Nodup) (hMC : M ≤ p.cp) (hMN : M < p.fft)
    (hH : ∀ k ∈ usedIdx p.fft p.used, Hs (Ω p.fft) delays gains k ≠ 0) (x : List K) :
    ∃ tx z d,
      (stepPair (fun n a => dft (fun m => Ω n ^ m) n a) (fun n a => idft (fun m => (Ω n)⁻¹ ^ m) n a) sc
          (runPair (fun n a => dft (fun m => Ω n ^ m) n a)
            (fun n a => idft (fun m => (Ω n)⁻¹ ^ m) n a) sc s ops).1 (.modulate x)).2 = .ok tx ∧
      corrupt (staticIR delays gains tx.length) tx = .ok z ∧
      (stepPair (fun n a => dft (fun m => Ω n ^ m) n a) (fun n a => idft (fun m => (Ω n)⁻¹ ^ m) n a) sc
          (runPair (fun n a => dft (fun m => Ω n ^ m) n a)
            (fun n a => idft (fun m => (Ω n)⁻¹ ^ m) n a) sc s ops).1
          (.demodulate (z.take tx.length))).2 = .ok d ∧
      (stepPair (fun n a => dft (fun m => Ω n ^ m) n a) (fun n a => idft (fun m => (Ω n)⁻¹ ^ m) n a) sc
          (runPair (fun n a => dft (fun m => Ω n ^ m) n a)
            (fun n a => idft (fun m => (Ω n)⁻¹ ^ m) n a) sc s ops).1
          (.equalize d (staticIR delays gains tx.length))).2
        = .ok (x ++ List.replicate (zeropad p x.length) 0) :=
  pair_one_tap Ω sc s hs ops p hp hΩ hsc delays gains M hM hd hnd hMC hMN hH x

/-- non-vacuity: a history over ℚ that grows the FFT size (`(2,1,2) → (4,·,·)` rejected, then `(2,2,2)`)
    and the resulting configuration -/
example : (runPair (α := ℚ) (fun _ a => a) (fun _ a => a) (fun _ => 1) (freshPair ⟨2, 1, 2⟩)
    [.modulate [1, 2], .setParams 4 5 none, .setParams 2 2 (some 2)]).1.ofdm = ⟨2, 2, 2⟩ := by
  decide +kernel

/-! ## robustness: rejected calls, scale, deep notches -/

/-- **A call that raises changes nothing** (R4): whichever operation of the pair reports an exception —
    a rejected `set_parameters`, a `demodulate` of a wrong-length stream, an `equalize_data` of badly
    shaped data — the pair is exactly as before; together with `pair_equals_fresh` the continued history
    is that of an object which never saw the rejected call. (That outputs are fresh values and depend on
    the logical values only — not on dtype or memory layout — is built into the model: its functions are
    pure functions on lists of scalars; the harness checks the code against that on typed,
    non-contiguous and snapshotted arguments.) -/
theorem pair_rejected_unchanged {α : Type} [Zero α] [Add α] [Mul α] [Div α] [NatCast α]
    (F Finv : ℕ → List α → List α) (sc : Params → α) (s : Pair) (op : PairOp α) (e : PyErr)
    (h : (stepPair F Finv sc s op).2 = .error e) : (stepPair F Finv sc s op).1 = s :=
  stepPair_error_unchanged F Finv sc s op e h

/-- **Scale** (R6): multiplying every tap by `c` multiplies the frequency response by `c`, so the
    hypothesis `H[k] ≠ 0` of `one_tap_exact` is invariant under any non-zero rescaling of the channel;
    the input `x` is universally quantified. Hence the recovery is exact at every scale of signal and
    channel, and for every depth of a spectral notch short of an exact null (R5): no absolute threshold
    appears anywhere. -/
theorem freq_response_scales {K : Type} [Field K] (ω c : K) (delays : List ℕ) (gains : List K) (k : ℕ) :
    Hs ω delays (gains.map (fun g => c * g)) k = c * Hs ω delays gains k := Hs_scale ω c delays gains k

/-- `one_tap_exact` for the channel rescaled by any `c ≠ 0` (say `1e-12` or `1e12`). -/
theorem one_tap_exact_scaled {K : Type} [Field K] [CharZero K] (p : Params) (hp : p.Valid) (ω : K)
    (hω : IsPrimitiveRoot ω p.fft) (s : K) (hs : s ≠ 0) (c : K) (hc : c ≠ 0) (delays : List ℕ)
    (gains : List K) (M : ℕ) (hM : delays.getLast? = some M) (hd : ∀ d ∈ delays, d ≤ M)
    (hnd : delays.Nodup) (hMC : M ≤ p.cp) (hMN : M < p.fft)
    (hH : ∀ k ∈ usedIdx p.fft p.used, Hs ω delays gains k ≠ 0) (x : List K) :
    oneTapReceive (fun n a => dft (fun m => ω ^ m) n a) s p
        (staticIR delays (gains.map (fun g => c * g))
          (modulate (fun n a => idft (fun m => ω⁻¹ ^ m) n a) s p x).length)
        (modulate (fun n a => idft (fun m => ω⁻¹ ^ m) n a) s p x)
      = .ok (x ++ List.replicate (zeropad p x.length) 0) :=
  one_tap_exact' p hp ω hω s hs delays _ M hM hd hnd hMC hMN
    (fun k hk => by rw [Hs_scale]; exact mul_ne_zero hc (hH k hk)) x

/-! ## argument forms and queries (R8, R11) -/

/-- **Default argument**: `num_used_subcarriers` left out, given as `None` or given explicitly as
    `fft_size` is the same call. -/
theorem params_default_used (fft cp : Int) :
    setParameters fft cp none = setParameters fft cp (some fft) := setParameters_default fft cp

/-- **Constructor path = setter path = later replacement**: an accepted `set_parameters(f, c, u)` on any
    existing pair, whatever its history, gives exactly the pair built by `OFDM(f, c, u)` and a new
    equaliser (the constructor is `set_parameters` on a blank object). -/
theorem params_constructor_eq_setter {α : Type} [Zero α] [Add α] [Mul α] [Div α] [NatCast α]
    (F Finv : ℕ → List α → List α) (sc : Params → α) (s : Pair) (ops : List (PairOp α)) (f c : Int)
    (u : Option Int) (p : Params) (h : setParameters f c u = .ok p) :
    (stepPair F Finv sc (runPair F Finv sc s ops).1 (.setParams f c u)).1 = freshPair p :=
  stepPair_set_eq_fresh F Finv sc _ f c u p h

/-- **Queries do not mutate** (R11): `get_used_subcarrier_indexes()`, `_calc_zeropad(n)` — like `modulate`,
    `demodulate` and `equalize_data` — leave the pair as it is; their answers are functions of the current
    configuration only. -/
theorem pair_queries_pure {α : Type} [Zero α] [Add α] [Mul α] [Div α] [NatCast α]
    (F Finv : ℕ → List α → List α) (sc : Params → α) (s : Pair) (n : Nat) :
    (stepPair F Finv sc s .usedIndexes).1 = s ∧ (stepPair F Finv sc s (.zeropadOf n)).1 = s ∧
    (stepPair F Finv sc s .usedIndexes).2 = .ok ((usedIdx s.ofdm.fft s.ofdm.used).map (fun (i : Nat) => (i : α))) ∧
    (stepPair F Finv sc s (.zeropadOf n)).2 = .ok [((zeropad s.ofdm n : Nat) : α), ((numSymbols s.ofdm n : Nat) : α)] :=
  ⟨rfl, rfl, rfl, rfl⟩

/-! ## distinct values that are merely close (R15) -/

/-- **Exact comparison of parameters**: `set_parameters` stores what it accepts unchanged, so two accepted
    calls leaving the same configuration were given the same values — `(262144, 0, 262142)` and
    `(262144, 0, 262144)` are different configurations, however small their relative distance. -/
theorem params_exact_comparison (f c f' c' : Int) (u u' : Option Int) (p : Params)
    (h : setParameters f c u = .ok p) (h' : setParameters f' c' u' = .ok p) :
    f = f' ∧ c = c' ∧ u.getD f = u'.getD f' := setParameters_injective f c f' c' u u' p h h'

/-- **A setter called with any new valid value takes effect**: after ANY history, `set_parameters` with a
    valid triple leaves exactly that triple in the object; if the triple differs from the configuration in
    force — by however little — the object changes (there is no "unchanged, skip" shortcut in the model). -/
theorem setter_takes_effect_for_every_new_value {α : Type} [Zero α] [Add α] [Mul α] [Div α] [NatCast α]
    (F Finv : ℕ → List α → List α) (sc : Params → α) (s : Pair) (ops : List (PairOp α)) (f c : Int)
    (u : Option Int) (h : ValidInt f c (u.getD f)) :
    (stepPair F Finv sc (runPair F Finv sc s ops).1 (.setParams f c u)).1
        = ⟨⟨f.toNat, c.toNat, (u.getD f).toNat⟩⟩ ∧
    ((runPair F Finv sc s ops).1.ofdm ≠ ⟨f.toNat, c.toNat, (u.getD f).toNat⟩ →
      (stepPair F Finv sc (runPair F Finv sc s ops).1 (.setParams f c u)).1 ≠ (runPair F Finv sc s ops).1) := by
  refine ⟨stepPair_set_valid F Finv sc _ f c u h, fun hne heq => hne ?_⟩
  rw [stepPair_set_valid F Finv sc _ f c u h] at heq
  rw [← heq]

/-- **The all-subcarriers branch is chosen at exact equality only**: DC (bin 0) carries data iff
    `used = fft`; `used = fft - 2` at `fft = 2^18` is NOT "all used". -/
theorem all_used_branch_exact (p : Params) (hp : p.Valid) : 0 ∈ usedIdx p.fft p.used ↔ p.used = p.fft :=
  zero_mem_usedIdx_iff p hp

/-- **Distinct numbers of used subcarriers give distinct index maps** (same FFT size). -/
theorem index_map_exact (p q : Params) (hp : p.Valid) (hq : q.Valid)
    (h : usedIdx p.fft p.used = usedIdx p.fft q.used) : p.used = q.used :=
  usedIdx_injective p.fft p.used q.used hp.2.2.1 hq.2.2.1 h

/-- **No perturbation of the taps is ignored**: changing the gains `g` to `g + δ` changes the response the
    equaliser divides by on bin `k` by exactly the response of `δ`; the two channels are indistinguishable
    on that bin only if the response of `δ` vanishes there exactly (no tolerance, at any magnitude). -/
theorem freq_response_exact {K : Type} [Field K] (ω : K) (delays : List ℕ) (gains deltas : List K)
    (hl : gains.length = deltas.length) (k : ℕ) :
    Hs ω delays (List.zipWith (· + ·) gains deltas) k = Hs ω delays gains k + Hs ω delays deltas k ∧
    (Hs ω delays (List.zipWith (· + ·) gains deltas) k = Hs ω delays gains k ↔ Hs ω delays deltas k = 0) := by
  have h := Hs_add ω delays gains deltas hl k
  refine ⟨h, ?_⟩
  rw [h]
  constructor
  · intro e; exact left_eq_add.mp e.symm
  · intro e; rw [e, add_zero]

/-! ## argument identity and buffer reuse (R16) -/

section reuse
variable {α : Type} [Zero α] [Add α] [Mul α] [Div α] [NatCast α]

/-- **A result depends on the contents handed to the call and on the configuration only**: two histories
    with the same `set_parameters` calls — whatever arrays `modulate`, `demodulate`, `equalize_data` were
    given in between, in whatever buffers — are followed by the same answer to every operation. (The model
    has values, not array objects: the identity of an argument cannot matter.) -/
theorem pair_result_depends_on_contents_only (F Finv : ℕ → List α → List α) (sc : Params → α) (s : Pair)
    (ops ops' : List (PairOp α)) (h : setOps ops = setOps ops') (op : PairOp α) :
    (stepPair F Finv sc (runPair F Finv sc s ops).1 op).2
      = (stepPair F Finv sc (runPair F Finv sc s ops').1 op).2 := by
  rw [runPair_state_of_setOps F Finv sc s ops ops' h]

/-- **Earlier results are not changed by later calls** (a buffer refilled and handed over again, a later
    re-configuration): the outputs of a history are a prefix of the outputs of every continuation. -/
theorem pair_earlier_results_unchanged (F Finv : ℕ → List α → List α) (sc : Params → α) (s : Pair)
    (ops more : List (PairOp α)) :
    (runPair F Finv sc s (ops ++ more)).2.take ops.length = (runPair F Finv sc s ops).2 := by
  rw [runPair_append]
  simp only
  rw [← runPair_length F Finv sc s ops, List.take_left]

end reuse

/-- non-vacuity of the R15 statements: two valid triples at relative distance `8e-6`, stored as different
    configurations; only the second one uses bin 0 -/
example : ValidInt 262144 0 ((some 262142 : Option Int).getD 262144) ∧ ValidInt 262144 0 ((none : Option Int).getD 262144) ∧
    setParameters 262144 0 (some 262142) ≠ setParameters 262144 0 none := by
  unfold ValidInt; decide
example : 0 ∉ usedIdx 18 16 ∧ 0 ∈ usedIdx 18 18 := by decide

/-- the witness configuration `OFDM(2, 2, 2)`, taps at delays `0` and `2` (memory = cp = fft) -/
def witnessParams : Params := ⟨2, 2, 2⟩

/-- on the model of the code the witness returns `[3/2, 3]` for the input `[1, 2]`: the equaliser
    divides by the cropped response `[1, 1]` instead of the true `[3/2, 3/2]` -/
theorem one_tap_witness_value :
    oneTapReceive (fun n a => dft (fun m => (-1 : ℚ) ^ m) n a) 1 witnessParams
        (staticIR [0, 2] [1, 1/2]
          (modulate (fun n a => idft (fun m => (-1 : ℚ)⁻¹ ^ m) n a) 1 witnessParams [1, 2]).length)
        (modulate (fun n a => idft (fun m => (-1 : ℚ)⁻¹ ^ m) n a) 1 witnessParams [1, 2])
      = .ok [3/2, 3] := by decide +kernel

/-- **Negative witness** (known finding): without `memory < fft` the one-tap clause is false on the
    model of the code — `get_freq_response` = `np.fft.fft(taps, fft)` crops the `fft+1` taps instead
    of aliasing tap `fft` onto tap `0`. Replayed on the implementation by the `onetap` oracle. -/
theorem one_tap_fails_at_full_memory : ¬ OneTapStatement ℚ := by
  intro h
  have := h witnessParams (by decide) (-1) neg_one_primitive 1 one_ne_zero [0, 2] [1, 1/2] 2 rfl
    (by decide) (by decide) (by decide) (by decide +kernel) [1, 2]
  rw [one_tap_witness_value] at this
  revert this
  decide +kernel

/-- non-vacuity of `one_tap_exact`: a concrete instance over ℚ (`OFDM(2,1,2)`, taps at delays 0, 1)
    satisfying every hypothesis, evaluated by the kernel -/
example :
    oneTapReceive (fun n a => dft (fun m => (-1 : ℚ) ^ m) n a) 1 ⟨2, 1, 2⟩
        (staticIR [0, 1] [1, 1/2]
          (modulate (fun n a => idft (fun m => (-1 : ℚ)⁻¹ ^ m) n a) 1 ⟨2, 1, 2⟩ [1, 2, 3]).length)
        (modulate (fun n a => idft (fun m => (-1 : ℚ)⁻¹ ^ m) n a) 1 ⟨2, 1, 2⟩ [1, 2, 3])
      = .ok [1, 2, 3, 0] := by decide +kernel

example : ∀ k ∈ usedIdx 2 2, Hs (-1 : ℚ) [0, 1] [1, 1/2] k ≠ 0 := by decide +kernel
example : (⟨64, 16, 52⟩ : Params).Valid := by decide
example : usedIdx 16 10 = [11, 12, 13, 14, 15, 1, 2, 3, 4, 5] := by decide

end PyPhysim.C02
