import PyPhysim.Proofs.C13Inverse
import PyPhysim.Proofs.C13Friis
import PyPhysim.Proofs.C13Close

/-!
# C13 — path-loss and antenna-gain models are monotone, invertible and unit-consistent

Property theorems only.  Every numeric formula, literal, setter guard and
decision ladder (`PyPhysim.C13.Gen.*`) is **regenerated from the current
source** by `harness/gen/c13.py`; the object / setter machines, the
negative-loss policy and the scalar / array dispatch are the hand model
`Model/C13.lean`, tied to the code by the correspondence of
`harness/props/c13.py`.  The scalar is `ℝ`, `log10 = Real.logb 10`,
`10 ** x = (10:ℝ) ^ x`.  Admissible distance = positive real.  Shadowing off.
-/
namespace PyPhysim.C13
open PyPhysim.Proto

/-! ## setter histories -/

/-- Tie: both PathLossFreeSpace setters in the current source store the value
    and recompute `_C` from (`_fc`, `n`) (pattern checked by the translator). -/
theorem fs_setters_recompute_C_in_source :
    Gen.fsSetter_n_recomputesC = true ∧ Gen.fsSetter_fc_recomputesC = true := ⟨rfl, rfl⟩

/-- "These relations keep holding after any sequence of changes": after ANY
    sequence of `n` / `fc` / flag setter calls on a `PathLossFreeSpace(n₀, fc₀)`
    the cached constant is `C = 10·n·(log10(fc·10⁶) − 4.3779…)` for the
    CURRENT `n`, `fc`. -/
theorem fs_C_invariant (n₀ fc₀ : ℝ) (ops : List (FsOp ℝ)) :
    let s := fsRun (fsInit n₀ fc₀) ops
    s.C = 10 * s.n * (Real.logb 10 (s.fc * 1000000) - 4.377911390697565) := by
  intro s
  have h : FsInv s := fsRun_inv (fsInit_inv n₀ fc₀) ops
  rw [← fsCalcC_real]; exact h

/-- history independence: after any setter history the free-space object
    answers every query exactly like a freshly constructed
    `PathLossFreeSpace(n, fc)` with the current parameters and flag. -/
theorem fs_history_independent (n₀ fc₀ : ℝ) (ops : List (FsOp ℝ)) :
    let s := fsRun (fsInit n₀ fc₀) ops
    s = { fsInit s.n s.fc with small := s.small, shadow := s.shadow } := by
  intro s
  have h : FsInv s := fsRun_inv (fsInit_inv n₀ fc₀) ops
  cases hs : s with
  | mk n C fc small shadow =>
    rw [hs] at h
    simp only [fsInit]
    congr

/-- a setter call is what determines the parameter in force afterwards -/
theorem fs_last_setter_wins (n₀ fc₀ v : ℝ) (ops : List (FsOp ℝ)) :
    (fsRun (fsInit n₀ fc₀) (ops ++ [.setN v])).n = v ∧
    (fsRun (fsInit n₀ fc₀) (ops ++ [.setFc v])).fc = v :=
  ⟨fsRun_append_setN _ _ _, fsRun_append_setFc _ _ _⟩

/-- Okumura–Hata: after ANY sequence of (accepted or rejected) setter calls on
    a fresh object the parameters are inside the ranges the setters enforce and
    the area type is one of the four valid ones. -/
theorem oh_ranges_after_history (ops : List (OhOp ℝ)) :
    let s := ohRun (ohInit : OhState ℝ) ops
    (150 ≤ s.fc ∧ s.fc ≤ 1500) ∧ (30 ≤ s.hbs ∧ s.hbs ≤ 200) ∧ (1 ≤ s.hms ∧ s.hms ≤ 10) ∧
      s.area ∈ ["open", "suburban", "medium city", "large city"] := by
  intro s
  have h : OhInv s := ohRun_inv ohInit_inv ops
  exact ⟨⟨h.fc_lo, h.fc_hi⟩, ⟨h.hbs_lo, h.hbs_hi⟩, ⟨h.hms_lo, h.hms_hi⟩, h.area⟩

/-- a value outside the range raises RuntimeError and leaves the object unchanged -/
theorem oh_rejected_setter_is_noop (s : OhState ℝ) (o : OhOp ℝ) (e : PyErr)
    (h : (ohStep s o).2 = some e) : e = .RuntimeError ∧ (ohStep s o).1 = s :=
  ohStep_rejected s o e h

/-- the guards are exactly the documented ranges -/
theorem oh_guard_ranges (v : ℝ) :
    (Gen.ohFcAccepted v = true ↔ 150 ≤ v ∧ v ≤ 1500) ∧
    (Gen.ohHbsAccepted v = true ↔ 30 ≤ v ∧ v ≤ 200) ∧
    (Gen.ohHmsAccepted v = true ↔ 1 ≤ v ∧ v ≤ 10) :=
  ⟨ohFcAccepted_iff v, ohHbsAccepted_iff v, ohHmsAccepted_iff v⟩

/-! ## monotone in distance -/

/-- General / 3GPP / free space, exponent `n ≥ 0`, any constant, either flag:
    scalar queries are non-decreasing in the distance and a sorted array of
    distances gives a sorted array of losses. -/
theorem general_monotone (s : GenState ℝ) (hn : 0 ≤ s.n) :
    (∀ d₁ d₂ x₁ x₂, s.dbScalar d₁ = .ok x₁ → s.dbScalar d₂ = .ok x₂ → d₁ ≤ d₂ → x₁ ≤ x₂) ∧
    (∀ ds xs, (∀ d ∈ ds, 0 < d) → ds.Pairwise (· ≤ ·) → s.dbArray ds = .ok xs →
      xs.Pairwise (· ≤ ·)) := by
  have hf : ∀ a b, 0 < a → a ≤ b → s.detDb a ≤ s.detDb b := fun a b ha hab => generalDb_mono hn ha hab
  exact ⟨fun _ _ _ _ h₁ h₂ h => scalarDb_mono hf h₁ h₂ h, fun _ _ hp hs h => arrayDb_mono hf hp hs h⟩

/-- … in particular after any setter history of a free-space object whose
    current exponent is non-negative -/
theorem fs_monotone_after_history (n₀ fc₀ : ℝ) (ops : List (FsOp ℝ))
    (hn : 0 ≤ (fsRun (fsInit n₀ fc₀) ops).n) (d₁ d₂ x₁ x₂ : ℝ)
    (h₁ : (fsRun (fsInit n₀ fc₀) ops).dbScalar d₁ = .ok x₁)
    (h₂ : (fsRun (fsInit n₀ fc₀) ops).dbScalar d₂ = .ok x₂) (h : d₁ ≤ d₂) : x₁ ≤ x₂ :=
  (general_monotone _ hn).1 d₁ d₂ x₁ x₂ h₁ h₂ h

/-- positive exponent: the deterministic loss is strictly increasing -/
theorem general_strictly_increasing (s : GenState ℝ) (hn : 0 < s.n) {d₁ d₂ : ℝ}
    (h₁ : 0 < d₁) (h : d₁ < d₂) : s.detDb d₁ < s.detDb d₂ :=
  generalDb_strictMono hn h₁ h

/-- the guard `n ≥ 0` is exactly what is needed: a negative exponent (the
    setter does not reject it) makes the loss strictly DEcreasing -/
theorem general_negative_exponent_not_monotone (s : GenState ℝ) (hn : s.n < 0) {d₁ d₂ : ℝ}
    (h₁ : 0 < d₁) (h : d₁ < d₂) : s.detDb d₂ < s.detDb d₁ :=
  generalDb_anti hn h₁ h

/-- 3GPP scenario 1 (`n = 3.76`, `C = 128.1` from the source) -/
theorem gpp1_monotone (small : Bool) (d₁ d₂ x₁ x₂ : ℝ)
    (h₁ : ({ (gpp1Init : GenState ℝ) with small := small }).dbScalar d₁ = .ok x₁)
    (h₂ : ({ (gpp1Init : GenState ℝ) with small := small }).dbScalar d₂ = .ok x₂)
    (h : d₁ ≤ d₂) : x₁ ≤ x₂ := by
  refine (general_monotone _ ?_).1 d₁ d₂ x₁ x₂ h₁ h₂ h
  simp [gpp1Init, generalInit, Gen.gpp1N]; norm_num

/-- METIS PS7, LOS and NLOS with any wall count, after any setter history,
    scalar and array queries -/
theorem ps7_monotone (fc₀ : ℝ) (ops : List (Ps7Op ℝ)) (nw : Nat) :
    let s := ps7Run (ps7Init fc₀) ops
    (∀ d₁ d₂ x₁ x₂, s.dbScalar nw d₁ = .ok x₁ → s.dbScalar nw d₂ = .ok x₂ → d₁ ≤ d₂ → x₁ ≤ x₂) ∧
    (∀ ds xs, (∀ d ∈ ds, 0 < d) → ds.Pairwise (· ≤ ·) → s.dbArray nw ds = .ok xs →
      xs.Pairwise (· ≤ ·)) := by
  intro s
  have hf : ∀ a b, 0 < a → a ≤ b → s.detDb nw a ≤ s.detDb nw b :=
    fun a b ha hab => ps7_detDb_mono s nw ha hab
  have e1 : ∀ d, s.dbScalar (nw : Int) d = scalarDb s.small (s.detDb nw) d := by
    intro d; simp [Ps7State.dbScalar]
  have e2 : ∀ ds, s.dbArray (nw : Int) ds = arrayDb s.small (s.detDb nw) ds := by
    intro ds; simp [Ps7State.dbArray]
  refine ⟨fun d₁ d₂ x₁ x₂ h₁ h₂ h => ?_, fun ds xs hp hs h => ?_⟩
  · rw [e1] at h₁ h₂; exact scalarDb_mono hf h₁ h₂ h
  · rw [e2] at h; exact arrayDb_mono hf hp hs h

/-- PS7: every additional wall adds loss; a negative wall count is rejected -/
theorem ps7_walls (s : Ps7State ℝ) :
    (∀ w₁ w₂ : Nat, 1 ≤ w₁ → w₁ ≤ w₂ → ∀ d, s.detDb w₁ d ≤ s.detDb w₂ d) ∧
    (∀ (w : Int) d, w < 0 → s.dbScalar w d = .error .ValueError) := by
  refine ⟨fun w₁ w₂ h₀ h d => ps7_walls_mono s h₀ h d, fun w d hw => ?_⟩
  simp [Ps7State.dbScalar, hw]

/-- Okumura–Hata, every area type, after ANY setter history (no side condition:
    the guards keep `44.9 − 6.55·log10(h_bs) > 0`), scalar and array queries;
    and the correction ladders never raise. -/
theorem oh_monotone_after_history (ops : List (OhOp ℝ)) :
    let s := ohRun (ohInit : OhState ℝ) ops
    (∀ d₁ d₂ x₁ x₂, s.dbScalar d₁ = .ok x₁ → s.dbScalar d₂ = .ok x₂ → d₁ ≤ d₂ → x₁ ≤ x₂) ∧
    (∀ ds xs, (∀ d ∈ ds, 0 < d) → ds.Pairwise (· ≤ ·) → s.dbArray ds = .ok xs →
      xs.Pairwise (· ≤ ·)) ∧
    (∀ d, s.dbScalar d ≠ .error .AssertionError ∧ (0 < d → s.small = true → ∃ x, s.dbScalar d = .ok x)) := by
  intro s
  have hs : OhInv s := ohRun_inv ohInit_inv ops
  obtain ⟨a, K, hq⟩ := oh_dbScalar_eq hs
  have hf : ∀ x y, 0 < x → x ≤ y → s.detDb a K x ≤ s.detDb a K y :=
    fun x y hx hxy => oh_detDb_mono hs a K hx hxy
  refine ⟨fun d₁ d₂ x₁ x₂ h₁ h₂ h => ?_, fun ds xs hp hsrt h => ?_, fun d => ⟨?_, fun hd hsm => ?_⟩⟩
  · rw [(hq d₁).1] at h₁; rw [(hq d₂).1] at h₂; exact scalarDb_mono hf h₁ h₂ h
  · rw [(hq 0).2 ds] at h; exact arrayDb_mono hf hp hsrt h
  · rw [(hq d).1, scalarDb_real, policyScalar_real]; split_ifs <;> simp
  · rw [(hq d).1, scalarDb_real, if_pos hd, policyScalar_real, hsm]
    by_cases hp : s.detDb a K d < 0 <;> simp [hp]

/-! ## linear value -/

/-- `calc_path_loss` = `10^(−dB/10)` of what `calc_path_loss_dB` reports, the
    reported dB value is `≥ 0` and the linear value lies in `(0, 1]`
    (General / 3GPP / free space; scalar and array). -/
theorem general_linear_value (s : GenState ℝ) :
    (∀ d y, s.linScalar d = .ok y →
      ∃ x, s.dbScalar d = .ok x ∧ 0 ≤ x ∧ y = (10 : ℝ) ^ (-x / 10) ∧ 0 < y ∧ y ≤ 1) ∧
    (∀ ds ys, s.linArray ds = .ok ys →
      ∃ xs, s.dbArray ds = .ok xs ∧ (∀ x ∈ xs, 0 ≤ x) ∧
        ys = xs.map (fun x => (10 : ℝ) ^ (-x / 10)) ∧ ∀ y ∈ ys, 0 < y ∧ y ≤ 1) :=
  ⟨fun _ _ h => lin_range h, fun _ _ h => lin_range_array h⟩

/-- same for METIS PS7 and Okumura–Hata -/
theorem ps7_oh_linear_value :
    (∀ (s : Ps7State ℝ) (nw : Nat) d y, s.linScalar nw d = .ok y →
      ∃ x, s.dbScalar nw d = .ok x ∧ 0 ≤ x ∧ y = (10 : ℝ) ^ (-x / 10) ∧ 0 < y ∧ y ≤ 1) ∧
    (∀ (ops : List (OhOp ℝ)) d y, (ohRun (ohInit : OhState ℝ) ops).linScalar d = .ok y →
      ∃ x, (ohRun (ohInit : OhState ℝ) ops).dbScalar d = .ok x ∧ 0 ≤ x ∧
        y = (10 : ℝ) ^ (-x / 10) ∧ 0 < y ∧ y ≤ 1) := by
  refine ⟨fun s nw d y h => ?_, fun ops d y h => ?_⟩
  · have e : s.dbScalar (nw : Int) d = scalarDb s.small (s.detDb nw) d := by simp [Ps7State.dbScalar]
    unfold Ps7State.linScalar at h
    rw [e] at h ⊢; exact lin_range h
  · obtain ⟨a, K, hq⟩ := oh_dbScalar_eq (ohRun_inv ohInit_inv ops)
    unfold OhState.linScalar at h
    rw [(hq d).1] at h ⊢; exact lin_range h

/-- unit consistency of the two conversions (regenerated from util/conversion.py):
    `dB2Linear x = 10^(x/10)`, `linear2dB y = 10·log10 y`, mutually inverse -/
theorem dB_linear_conversions (x : ℝ) :
    Gen.dB2Linear x = (10 : ℝ) ^ (x / 10) ∧ Gen.linear2dB x = 10 * Real.logb 10 x ∧
    Gen.linear2dB (Gen.dB2Linear x) = x ∧ (0 < x → Gen.dB2Linear (Gen.linear2dB x) = x) :=
  ⟨dB2Linear_real x, linear2dB_real x, linear2dB_dB2Linear x, fun h => dB2Linear_linear2dB h⟩

/-! ## distances too small for the model -/

/-- scalar distance, any deterministic loss function `f` (every model's scalar
    query is `scalarDb small (its deterministic loss)`): non-negative loss is
    returned unchanged; a negative one raises RuntimeError when the flag is off
    and is replaced by exactly `0` dB when it is on. -/
theorem small_distance_policy_scalar (small : Bool) (f : ℝ → ℝ) (d : ℝ) (hd : 0 < d) :
    (0 ≤ f d → scalarDb small f d = .ok (f d)) ∧
    (f d < 0 → small = false → scalarDb small f d = .error .RuntimeError) ∧
    (f d < 0 → small = true → scalarDb small f d = .ok 0) := by
  rw [scalarDb_real, if_pos hd]
  obtain ⟨h₁, h₂, h₃⟩ := policyScalar_spec small (f d)
  exact ⟨h₁, h₃, h₂⟩

/-- array of distances: if any entry's loss is negative the call raises (flag
    off) or returns the entry-wise clamp at `0` dB (flag on); otherwise the
    array is returned unchanged. -/
theorem small_distance_policy_array (f : ℝ → ℝ) (ds : List ℝ) :
    ((∃ d ∈ ds, f d < 0) → arrayDb false f ds = .error .RuntimeError) ∧
    (arrayDb true f ds = .ok (ds.map (fun d => if f d < 0 then 0 else f d))) ∧
    (∀ small, (∀ d ∈ ds, 0 ≤ f d) → arrayDb small f ds = .ok (ds.map f)) := by
  refine ⟨fun ⟨d, hd, hneg⟩ => policyArray_raises ⟨f d, List.mem_map.2 ⟨d, hd, rfl⟩, hneg⟩, ?_,
    fun small h => ?_⟩
  · unfold arrayDb
    rw [policyArray_clamps, List.map_map]; rfl
  · unfold arrayDb
    rw [policyArray_real, if_neg]
    rintro ⟨x, hx, hx0⟩
    obtain ⟨d, hd, rfl⟩ := List.mem_map.1 hx
    exact absurd hx0 (not_lt.2 (h d hd))

/-- the three object kinds route their queries through that policy -/
theorem queries_use_policy :
    (∀ (s : GenState ℝ) d, s.dbScalar d = scalarDb s.small s.detDb d) ∧
    (∀ (s : GenState ℝ) ds, s.dbArray ds = arrayDb s.small s.detDb ds) ∧
    (∀ (s : Ps7State ℝ) (nw : Nat) d, s.dbScalar nw d = scalarDb s.small (s.detDb nw) d) ∧
    (∀ (ops : List (OhOp ℝ)), ∃ a K, ∀ d,
      (ohRun (ohInit : OhState ℝ) ops).dbScalar d
        = scalarDb (ohRun (ohInit : OhState ℝ) ops).small ((ohRun (ohInit : OhState ℝ) ops).detDb a K) d) := by
  refine ⟨fun _ _ => rfl, fun _ _ => rfl, fun s nw d => by simp [Ps7State.dbScalar], fun ops => ?_⟩
  obtain ⟨a, K, hq⟩ := oh_dbScalar_eq (ohRun_inv ohInit_inv ops)
  exact ⟨a, K, fun d => (hq d).1⟩

/-! ## distance-for-a-loss is the exact inverse -/

/-- General / 3GPP / free space with exponent `n ≠ 0`:
    loss → distance → loss is the identity for EVERY dB value;
    distance → loss → distance is the identity for every positive distance whose
    loss is not clamped, in dB, in linear scale and entry-wise on arrays. -/
theorem which_distance_inverse (s : GenState ℝ) (hn : s.n ≠ 0) :
    (∀ p, ∃ d, s.whichDbScalar p = .ok d ∧ 0 < d ∧ s.detDb d = p) ∧
    (∀ d x, s.dbScalar d = .ok x → 0 ≤ s.detDb d → s.whichDbScalar x = .ok d) ∧
    (∀ d y, s.linScalar d = .ok y → 0 ≤ s.detDb d → s.whichLin y = d) ∧
    (∀ ds xs, (∀ d ∈ ds, 0 < d) → (∀ d ∈ ds, 0 ≤ s.detDb d) → s.dbArray ds = .ok xs →
      s.whichDbArray xs = ds) :=
  ⟨fun p => gen_which_then_db hn p, fun _ _ h hx => gen_db_then_which hn h hx,
   fun _ _ h hx => gen_lin_then_which hn h hx, fun _ _ hp hnn h => gen_dba_then_which hn hp hnn h⟩

/-- … after any setter history of a free-space object (current exponent ≠ 0) -/
theorem fs_inverse_after_history (n₀ fc₀ : ℝ) (ops : List (FsOp ℝ))
    (hn : (fsRun (fsInit n₀ fc₀) ops).n ≠ 0) (d x : ℝ)
    (h : (fsRun (fsInit n₀ fc₀) ops).dbScalar d = .ok x)
    (hx : 0 ≤ (fsRun (fsInit n₀ fc₀) ops).detDb d) :
    (fsRun (fsInit n₀ fc₀) ops).whichDbScalar x = .ok d :=
  (which_distance_inverse _ hn).2.1 d x h hx

/-- Tie: in the current source both PS7 entry points dispatch `num_walls == 0`
    → LOS helper, `> 0` → NLOS helper, otherwise ValueError (pattern checked by
    the translator; the helpers themselves are regenerated). -/
theorem ps7_dispatch_in_source :
    Gen.ps7Dispatch_calc_PS7_path_loss_dB_same_floor = true ∧ Gen.ps7Dispatch_which_distance_dB = true :=
  ⟨rfl, rfl⟩

/-- METIS PS7 (LOS and NLOS, any wall count, after any `fc` history — `s` is
    arbitrary): `which_distance_dB(·, num_walls)` is the two-sided inverse of
    `calc_path_loss_dB(·, num_walls)`: loss → distance → loss for EVERY dB
    value, distance → loss → distance (dB and linear) for every positive distance
    whose loss is not clamped; a negative wall count raises ValueError. -/
theorem ps7_which_distance_inverse (s : Ps7State ℝ) (nw : Nat) :
    (∀ p, ∃ d, s.whichDb nw p = .ok d ∧ 0 < d ∧ s.detDb nw d = p) ∧
    (∀ d x, s.dbScalar nw d = .ok x → 0 ≤ s.detDb nw d → s.whichDb nw x = .ok d) ∧
    (∀ d y, s.linScalar nw d = .ok y → 0 ≤ s.detDb nw d → s.whichLin nw y = .ok d) ∧
    (∀ (w : Int) p, w < 0 → s.whichDb w p = .error .ValueError) := by
  have e : ∀ d, s.dbScalar (nw : Int) d = scalarDb s.small (s.detDb nw) d := by
    intro d; simp [Ps7State.dbScalar]
  have ew : ∀ p, s.whichDb (nw : Int) p = .ok (s.detWhich nw p) := by
    intro p; simp [Ps7State.whichDb]
  refine ⟨fun p => ⟨_, ew p, ps7_detWhich_pos s nw p, ps7_db_of_which s nw p⟩, fun d x h hx => ?_,
    fun d y h hx => ?_, fun w p hw => by simp [Ps7State.whichDb, hw]⟩
  · rw [e] at h
    obtain ⟨hd, ex, _⟩ := scalarDb_ok h
    rw [ew, ex, clamp_of_nonneg hx, ps7_which_of_db s nw hd]
  · unfold Ps7State.linScalar at h
    rw [e] at h
    obtain ⟨x, hx', rfl⟩ := toLin_ok h
    obtain ⟨hd, ex, _⟩ := scalarDb_ok hx'
    unfold Ps7State.whichLin
    rw [← dB2Linear_real, linear2dB_dB2Linear, neg_neg, ew, ex, clamp_of_nonneg hx,
      ps7_which_of_db s nw hd]

/-- exponent 0 has no inverse: the scalar query raises ZeroDivisionError;
    Okumura–Hata does not offer the query (NotImplementedError ⊂ RuntimeError) -/
theorem which_distance_not_offered :
    (∀ (s : GenState ℝ) p, s.n = 0 → s.whichDbScalar p = .error .ZeroDivisionError) ∧
    (∀ (s : OhState ℝ) p, s.whichDb p = .error .RuntimeError) := by
  refine ⟨fun s p h => ?_, fun _ _ => rfl⟩
  rw [whichDbScalar_real, if_pos h]

/-! ## Friis -/

/-- Free space with exponent 2 — after ANY setter history that leaves `n = 2` —
    is within 0.01 dB of the Friis formula `20·log10(4π·d·f/c)`
    (`d` km → m, `fc` MHz → Hz, `c = 299 792 458 m/s`) for every positive
    distance and carrier frequency. -/
theorem friis_within_0_01dB (n₀ fc₀ : ℝ) (ops : List (FsOp ℝ)) (d : ℝ)
    (hn : (fsRun (fsInit n₀ fc₀) ops).n = 2) (hfc : 0 < (fsRun (fsInit n₀ fc₀) ops).fc) (hd : 0 < d) :
    |(fsRun (fsInit n₀ fc₀) ops).detDb d
      - 20 * Real.logb 10 (4 * Real.pi * (d * 1000) * ((fsRun (fsInit n₀ fc₀) ops).fc * 1000000) / 299792458)|
      ≤ 0.01 := by
  have h : FsInv (fsRun (fsInit n₀ fc₀) ops) := fsRun_inv (fsInit_inv n₀ fc₀) ops
  unfold GenState.detDb
  rw [h, hn]
  exact fs_friis_abs hd hfc

/-- the difference to Friis is the same constant for all `d`, `fc`, enclosed in
    `[−0.0073, −0.0026]` dB -/
theorem friis_offset_constant (d fc : ℝ) (hd : 0 < d) (hfc : 0 < fc) :
    Gen.generalDb 2 (Gen.fsCalcC fc 2) d - friisDb d fc
      = 20 * (Real.logb 10 friisK - 3 - 4.377911390697565) ∧
    (723 : ℝ) / 98 ≤ Real.logb 10 friisK ∧ Real.logb 10 friisK ≤ (332 : ℝ) / 45 :=
  ⟨fs_minus_friis hd hfc, log10_friisK_bounds⟩

/-! ## sector antenna gain -/

/-- `AntGainBS3GPP25996(k)`: accepted exactly for 3 and 6 sectors; for both the
    gain peaks at boresight (`gain 0 = ant_gain`), is symmetric, decreases with
    `|angle|`, never falls below `ant_gain·10^(−Am/10)` and equals that floor
    as soon as `12·(θ/θ₃dB)² ≥ Am`. -/
theorem ant_gain_peak_symmetric_floored (k : Nat) (a : Ant ℝ) (h : antNew k = .ok a) (x y : ℝ) :
    a.gain 0 = a.gain0 ∧ a.gain x ≤ a.gain 0 ∧ a.gain (-x) = a.gain x ∧
    (|x| ≤ |y| → a.gain y ≤ a.gain x) ∧
    a.gain0 * (10 : ℝ) ^ (-a.am / 10) ≤ a.gain x ∧
    (a.am ≤ 12 * (x / a.theta) ^ 2 → a.gain x = a.gain0 * (10 : ℝ) ^ (-a.am / 10)) := by
  obtain ⟨_, hg, ham, _⟩ := antNew_ok h
  exact ⟨antGain_zero ham.le, antGain_le_peak hg.le ham.le x, antGain_symm _ _ _ x,
    fun hxy => antGain_antitone hg.le hxy, antGain_floor hg.le x, fun hx => antGain_at_floor hx⟩

/-- the constructor: the two parameter sets of the source, ValueError otherwise -/
theorem ant_constructor :
    (∃ a : Ant ℝ, antNew 3 = .ok a ∧ a.theta = 70 ∧ a.am = 20 ∧ a.gain0 = (10 : ℝ) ^ ((14 : ℝ) / 10)) ∧
    (∃ a : Ant ℝ, antNew 6 = .ok a ∧ a.theta = 35 ∧ a.am = 23 ∧ a.gain0 = (10 : ℝ) ^ ((17 : ℝ) / 10)) ∧
    (∀ k, k ≠ 3 → k ≠ 6 → (antNew k : Except PyErr (Ant ℝ)) = .error .ValueError) := by
  refine ⟨⟨⟨70, 20, Gen.dB2Linear 14⟩, ?_, by norm_num, by norm_num, dB2Linear_real 14⟩,
    ⟨⟨35, 23, Gen.dB2Linear 17⟩, ?_, by norm_num, by norm_num, dB2Linear_real 17⟩, antNew_error⟩
  · simp [antNew, Gen.antParams]; norm_num
  · simp [antNew, Gen.antParams]; norm_num

/-! ## robustness classes (logical value only · rejected calls · long-lived objects) -/

/-- R1 / R2 (element type, shape, memory layout): an array query is a function
    of the LOGICAL values only and is positional — entry `i` of the result is
    the clamped deterministic loss of entry `i` of the argument, i.e. what the
    scalar query of that value returns; nothing depends on how the values are
    stored. (The harness hands the code the same logical values as int / float32
    / Fortran / strided / broadcast / N-d objects and compares positionally.) -/
theorem array_query_positional (small : Bool) (f : ℝ → ℝ) (ds xs : List ℝ)
    (h : arrayDb small f ds = .ok xs) :
    xs.length = ds.length ∧ ∀ i (hi : i < ds.length), xs[i]? = some (clamp (f ds[i])) := by
  obtain ⟨e, _⟩ := policyArray_ok (show policyArray small (ds.map f) = .ok xs from h)
  subst e
  refine ⟨by simp, fun i hi => ?_⟩
  simp [hi]

/-- R2 (N-d arrays): the clamp policy commutes with reshaping — clamping the
    flattened array of a list of rows is the row-wise clamp flattened (so a row
    that mixes a too-small and an admissible distance keeps the admissible
    entry); and with the flag off ONE negative entry anywhere raises. -/
theorem clamp_policy_commutes_with_reshape (f : ℝ → ℝ) (rows : List (List ℝ)) :
    arrayDb true f rows.flatten
      = .ok ((rows.map (fun r => r.map (fun d => clamp (f d)))).flatten) ∧
    ((∃ r ∈ rows, ∃ d ∈ r, f d < 0) → arrayDb false f rows.flatten = .error .RuntimeError) := by
  constructor
  · unfold arrayDb
    rw [policyArray_clamps, List.map_map, List.map_flatten]
    rfl
  · rintro ⟨r, hr, d, hd, hneg⟩
    exact policyArray_raises ⟨f d, List.mem_map.2 ⟨d, List.mem_flatten.2 ⟨r, hr, hd⟩, rfl⟩, hneg⟩

/-- R4 / R7 (rejected calls, long-lived objects): a rejected Okumura–Hata
    setter call can be deleted from any history without changing the final
    object — the object behaves as if the call had never been made. (Queries
    are functions of the state in the model: they cannot change it.) -/
theorem oh_rejected_call_can_be_dropped (s : OhState ℝ) (o : OhOp ℝ) (e : PyErr)
    (h : (ohStep s o).2 = some e) (rest : List (OhOp ℝ)) :
    ohRun s (o :: rest) = ohRun s rest := by
  have := (ohStep_rejected s o e h).2
  simp only [ohRun, List.foldl_cons, this]

/-! ## public calls that are not setters leave the configuration alone -/

/-- Tie: in the current source the plot helper writes every flag it touches
    back from a saved copy OF THAT SAME FLAG, inside a `finally` block (pattern
    extracted by the translator; swapping the two flags on restore, or restoring
    outside `finally`, makes this `rfl` fail). -/
theorem plot_helper_restores_flags_in_source :
    Gen.plotRestoresOwn = true ∧ Gen.plotRestoresInFinally = true := ⟨rfl, rfl⟩

/-- R7: drawing the curve — whatever flags are forced meanwhile, whether the
    path-loss computation raises (too-small distance, flag off) or the axes
    object raises — leaves every model object exactly as it was: exponent,
    constant, frequency, heights, area type AND both policy flags. -/
theorem plot_leaves_object_unchanged :
    (∀ (s : GenState ℝ) ds ax, (s.plot ds ax).1 = s) ∧
    (∀ (s : Ps7State ℝ) ds ax, (s.plot ds ax).1 = s) ∧
    (∀ (s : OhState ℝ) ds ax, (s.plot ds ax).1 = s) :=
  ⟨fun s _ _ => by cases s; rfl, fun s _ _ => by cases s; rfl, fun s _ _ => by cases s; rfl⟩

/-- … hence a history with any number of plot calls interleaved ends in the same
    object as the history without them (free space; the calls are identities). -/
theorem plot_calls_can_be_dropped (s : GenState ℝ) (ds : List ℝ) (ax : Bool) (ops : List (FsOp ℝ)) :
    fsRun (s.plot ds ax).1 ops = fsRun s ops := by
  rw [plot_leaves_object_unchanged.1]

/-- what the plot call reports with the flags of the current source (shadowing
    forced off, small-distance policy untouched): RuntimeError exactly when the
    policy flag is off and some distance is too small; otherwise the axes' own
    exception, if any. -/
theorem plot_outcome (s : GenState ℝ) (ds : List ℝ) (ax : Bool)
    (hsrc : Gen.plotForcedSmall = none) :
    ((∃ d ∈ ds, s.detDb d < 0) → s.small = false → (s.plot ds ax).2 = some .RuntimeError) ∧
    (s.small = true → (s.plot ds ax).2 = if ax then some .ValueError else none) := by
  have hfl : (plotFlags s.small s.shadow).1 = s.small := by simp [plotFlags, hsrc]
  have hp : (s.plot ds ax).2 = plotOutcome (arrayDb (plotFlags s.small s.shadow).1 s.detDb ds) ax := rfl
  rw [hp, hfl]
  constructor
  · rintro ⟨d, hd, hneg⟩ hs
    have : arrayDb false s.detDb ds = .error .RuntimeError :=
      policyArray_raises ⟨s.detDb d, List.mem_map.2 ⟨d, hd, rfl⟩, hneg⟩
    rw [hs, this]; rfl
  · intro hs
    rw [hs]
    unfold arrayDb
    rw [policyArray_clamps]; rfl

/-- R8 (equivalent entry points forward every argument): the linear-scale query
    is `dB2Linear(−·)` of the dB query WITH THE SAME wall count, the
    linear-scale inverse is the dB inverse of `−linear2dB(·)` WITH THE SAME wall
    count, the plot helper computes exactly the array query, and a free-space
    object is the general model with the computed constant. -/
theorem equivalent_entry_points :
    (∀ (s : Ps7State ℝ) (nw : Int) d, s.linScalar nw d = toLin (s.dbScalar nw d)) ∧
    (∀ (s : Ps7State ℝ) (nw : Int) p, s.whichLin nw p = s.whichDb nw (-(Gen.linear2dB p))) ∧
    (∀ (s : GenState ℝ) d, s.linScalar d = toLin (s.dbScalar d)) ∧
    (∀ (s : GenState ℝ) p, s.whichLin p = Gen.generalWhichDb s.n s.C (-(Gen.linear2dB p))) ∧
    (∀ (n fc : ℝ) d, (fsInit n fc).detDb d = (generalInit n (Gen.fsCalcC fc n)).detDb d) :=
  ⟨fun _ _ _ => rfl, fun _ _ _ => rfl, fun _ _ => rfl, fun _ _ => rfl, fun _ _ _ => rfl⟩

/-- R9 / R14 (counts, also above 256): for EVERY wall count `w ≥ 1` the NLOS
    loss is the one-wall loss plus `5·(w − 1)` dB — linear in the count, nothing
    wraps around; the count enters only through its value. -/
theorem ps7_wall_count_linear (s : Ps7State ℝ) (w : Nat) (hw : 1 ≤ w) (d : ℝ) :
    s.detDb w d = s.detDb 1 d + 5 * ((w : ℝ) - 1) := by
  unfold Ps7State.detDb
  rw [if_neg (by omega), if_neg (by omega), ps7NlosDb_real, ps7NlosDb_real]
  push_cast
  ring

/-! ## R15 — distinct values that are merely close: the model is a function of the EXACT value -/

/-- R15 (zero test of the negative-loss policy): there is no dead zone and nothing
    is snapped — for EVERY `ε > 0`, however small, a deterministic loss of `+ε` dB
    is returned as it is, a loss of `−ε` dB raises (flag off) or becomes exactly 0 dB
    (flag on); and a reported `0` dB always means the loss was `≤ 0`. -/
theorem policy_has_no_dead_zone (small : Bool) (f : ℝ → ℝ) (d ε : ℝ) (hd : 0 < d) (hε : 0 < ε) :
    (f d = ε → scalarDb small f d = .ok ε) ∧
    (f d = -ε → scalarDb small f d = if small then .ok 0 else .error .RuntimeError) ∧
    (scalarDb small f d = .ok 0 → f d ≤ 0) := by
  obtain ⟨h₁, h₂, h₃⟩ := small_distance_policy_scalar small f d hd
  refine ⟨fun h => ?_, fun h => ?_, scalarDb_zero_imp⟩
  · rw [← h]; exact h₁ (by linarith)
  · cases small
    · simpa using h₂ (by linarith) rfl
    · simpa using h₃ (by linarith) rfl

/-- R15: the policy identifies no two non-negative losses (equal answers ⇒ equal losses) -/
theorem policy_identifies_no_two_losses (small : Bool) (f : ℝ → ℝ) (d₁ d₂ : ℝ) (h₁ : 0 < d₁) (h₂ : 0 < d₂)
    (p₁ : 0 ≤ f d₁) (p₂ : 0 ≤ f d₂) (h : scalarDb small f d₁ = scalarDb small f d₂) : f d₁ = f d₂ :=
  scalarDb_inj h₁ h₂ p₁ p₂ h

/-- R15 (`lookup_exact`): two distinct admissible distances, however close, have
    distinct deterministic losses in every model (General / 3GPP / free space with
    exponent `≠ 0`; METIS PS7 with any wall count; Okumura–Hata after any setter
    history) — so no correct implementation can answer one from the other's result. -/
theorem close_distances_are_distinguished :
    (∀ (s : GenState ℝ), s.n ≠ 0 → ∀ d₁ d₂, 0 < d₁ → 0 < d₂ → d₁ ≠ d₂ → s.detDb d₁ ≠ s.detDb d₂) ∧
    (∀ (s : Ps7State ℝ) (nw : Nat) d₁ d₂, 0 < d₁ → 0 < d₂ → d₁ ≠ d₂ → s.detDb nw d₁ ≠ s.detDb nw d₂) ∧
    (∀ (ops : List (OhOp ℝ)) a K d₁ d₂, 0 < d₁ → 0 < d₂ → d₁ ≠ d₂ →
      (ohRun (ohInit : OhState ℝ) ops).detDb a K d₁ ≠ (ohRun (ohInit : OhState ℝ) ops).detDb a K d₂) := by
  refine ⟨fun s hn d₁ d₂ h₁ h₂ h => generalDb_inj hn h₁ h₂ h, fun s nw d₁ d₂ h₁ h₂ h => ?_,
    fun ops a K d₁ d₂ h₁ h₂ h => ?_⟩
  · rcases lt_or_gt_of_ne h with q | q
    · exact (ps7_detDb_strictMono s nw h₁ q).ne
    · exact (ps7_detDb_strictMono s nw h₂ q).ne'
  · have hs := ohRun_inv ohInit_inv ops
    rcases lt_or_gt_of_ne h with q | q
    · exact (oh_detDb_strictMono hs a K h₁ q).ne
    · exact (oh_detDb_strictMono hs a K h₂ q).ne'

/-- … and the REPORTED losses differ too whenever neither is clamped -/
theorem close_distances_distinct_answers (s : GenState ℝ) (hn : s.n ≠ 0) (d₁ d₂ : ℝ) (h₁ : 0 < d₁) (h₂ : 0 < d₂)
    (h : d₁ ≠ d₂) (p₁ : 0 ≤ s.detDb d₁) (p₂ : 0 ≤ s.detDb d₂) : s.dbScalar d₁ ≠ s.dbScalar d₂ :=
  fun e => close_distances_are_distinguished.1 s hn d₁ d₂ h₁ h₂ h (scalarDb_inj h₁ h₂ p₁ p₂ e)

/-- R15 (`setter_takes_effect_for_every_new_value`): a free-space setter called with
    ANY value leaves the object equal to a freshly constructed one with exactly that
    value (no "unchanged → skip"); two distinct positive carrier frequencies, however
    close, give distinct losses at every distance (free space with exponent `≠ 0`,
    PS7 with any wall count); the PS7 setter stores the value it is given. -/
theorem setter_takes_effect_for_every_new_value :
    (∀ (n₀ fc₀ : ℝ) (ops : List (FsOp ℝ)) (v : ℝ),
      let s := fsRun (fsInit n₀ fc₀) ops
      fsStep s (.setFc v) = { fsInit s.n v with small := s.small, shadow := s.shadow } ∧
      fsStep s (.setN v) = { fsInit v s.fc with small := s.small, shadow := s.shadow }) ∧
    (∀ (n fc₁ fc₂ d : ℝ), n ≠ 0 → 0 < fc₁ → 0 < fc₂ → fc₁ ≠ fc₂ →
      (fsInit n fc₁).detDb d ≠ (fsInit n fc₂).detDb d) ∧
    (∀ (s : Ps7State ℝ) (v : ℝ), (ps7Step s (.setFc v)).fc = v) ∧
    (∀ (s : Ps7State ℝ) (fc₁ fc₂ : ℝ) (nw : Nat) (d : ℝ), 0 < fc₁ → 0 < fc₂ → fc₁ ≠ fc₂ →
      ({ s with fc := fc₁ } : Ps7State ℝ).detDb nw d ≠ ({ s with fc := fc₂ } : Ps7State ℝ).detDb nw d) := by
  refine ⟨fun n₀ fc₀ ops v => ?_, fun n fc₁ fc₂ d hn h₁ h₂ h => fs_detDb_fc_ne hn h₁ h₂ h d,
    fun s v => rfl, fun s fc₁ fc₂ nw d h₁ h₂ h => ps7_detDb_fc_ne s h₁ h₂ h nw d⟩
  have hi : FsInv (fsRun (fsInit n₀ fc₀) ops) := fsRun_inv (fsInit_inv n₀ fc₀) ops
  exact ⟨fsStep_setFc_fresh hi v, fsStep_setN_fresh hi v⟩

/-- R15 (guards and switch compare exactly): an Okumura–Hata setter stores `v` iff
    `v` lies in the documented closed range — `150 − δ` is rejected and `150` accepted
    for every `δ > 0` — and otherwise keeps the old value; the large-city correction
    uses the `fc > 300` formula for every `fc` above 300, however close, and the
    other one at 300 itself. -/
theorem oh_guards_and_switch_compare_exactly (s : OhState ℝ) (v : ℝ) :
    (ohStep s (.setFc v)).1.fc = (if 150 ≤ v ∧ v ≤ 1500 then v else s.fc) ∧
    (ohStep s (.setHbs v)).1.hbs = (if 30 ≤ v ∧ v ≤ 200 then v else s.hbs) ∧
    (ohStep s (.setHms v)).1.hms = (if 1 ≤ v ∧ v ≤ 10 then v else s.hms) ∧
    (∀ fc hms : ℝ, Gen.ohA "large city" fc hms =
      .ok (if 300 < fc then 3.2 * (Real.logb 10 (11.75 * hms)) ^ 2 - 4.97
           else 8.29 * (Real.logb 10 (1.54 * hms)) ^ 2 - 1.1)) :=
  ⟨ohStep_setFc_fc s v, ohStep_setHbs_hbs s v, ohStep_setHms_hms s v, ohA_large_city⟩

/-! ## R16 — argument identity and buffer reuse -/

/-- R16: a caller keeps ONE array, refills it in place and calls the object again
    (setter calls may come in between).  Answers already returned never change:
    the answers after any continuation extend the answers before it. -/
theorem caller_earlier_answers_never_change (c : CallerState ℝ) (ops : List (CallerOp ℝ)) :
    ∃ t, (callerRun c ops).outs = c.outs ++ t :=
  callerRun_outs_prefix c ops

/-- R16: after ANY caller history (refills, queries, setter calls) on a free-space
    object, refilling the buffer with `vs` and calling gives exactly what a freshly
    constructed object with the current parameters returns for `vs` — the answer
    depends on the contents at call time only, not on what the same array held
    before, nor on earlier calls. -/
theorem caller_answer_is_fresh_object_on_current_contents (n₀ fc₀ : ℝ) (buf₀ : List ℝ)
    (ops : List (CallerOp ℝ)) (vs : List ℝ) :
    let c := callerRun ⟨fsInit n₀ fc₀, buf₀, []⟩ ops
    let fresh : GenState ℝ := { fsInit c.obj.n c.obj.fc with small := c.obj.small, shadow := c.obj.shadow }
    (callerRun c [.refill vs, .callDb]).outs = c.outs ++ [fresh.dbArray vs] ∧
    (callerRun c [.refill vs, .callLin]).outs = c.outs ++ [fresh.linArray vs] ∧
    (callerRun c [.refill vs, .callWhich]).outs = c.outs ++ [.ok (fresh.whichDbArray vs)] := by
  intro c fresh
  have ho : c.obj = fresh := by
    have e : c.obj = fsRun (fsInit n₀ fc₀) (ops.filterMap CallerOp.setter?) := callerRun_obj _ ops
    have := fs_history_independent n₀ fc₀ (ops.filterMap CallerOp.setter?)
    simp only at this
    rw [← e] at this
    exact this
  refine ⟨?_, ?_, ?_⟩ <;> simp [callerRun, callerStep, ho]

/-! ## non-vacuity -/

example : (fsInit (2 : ℝ) 2400).n ≠ 0 ∧ (0 : ℝ) < 2400 ∧ (0 : ℝ) < 2400.02 ∧ (2400 : ℝ) ≠ 2400.02 := by
  simp [fsInit]; norm_num

/-- a caller history with a stale-prone shape: fill, call, refill in place, setter, call -/
example : (callerRun ⟨fsInit (2 : ℝ) 900, [], []⟩
    [.refill [1, 2], .callDb, .refill [3, 4], .set (.setFc 1800), .callDb]).outs.length = 2 := by
  simp [callerRun, callerStep]


/-- the hypotheses of the theorems above are met by concrete non-trivial objects -/
example : (fsRun (fsInit (2 : ℝ) 900) [.setN 3, .setFc 1100, .setN 2]).n = 2 ∧
    0 < (fsRun (fsInit (2 : ℝ) 900) [.setN 3, .setFc 1100, .setN 2]).fc := by
  simp [fsRun, fsStep, fsInit]

example : ∃ x, ({ (gpp1Init : GenState ℝ) with small := true }).dbScalar 1 = .ok x ∧ x = 128.1 := by
  refine ⟨128.1, ?_, rfl⟩
  simp [GenState.dbScalar, scalarDb_real, policyScalar_real, GenState.detDb, gpp1Init, generalInit,
    generalDb_real, Gen.gpp1N, Gen.gpp1C]
  norm_num

/-- a loss that IS negative exists (the policy theorems are not vacuous):
    3GPP at 0.0001 km is 128.1 − 150.4 dB -/
example : (gpp1Init : GenState ℝ).detDb ((10 : ℝ) ^ (-4 : ℝ)) < 0 := by
  simp only [GenState.detDb, gpp1Init, generalInit, generalDb_real, Gen.gpp1N, Gen.gpp1C, log10_pow10]
  norm_num

example : (ohRun (ohInit : OhState ℝ) [.setFc 2000, .setHbs 45, .setArea "large city"]).hbs = 45 ∧
    (ohRun (ohInit : OhState ℝ) [.setFc 2000, .setHbs 45, .setArea "large city"]).fc = 900 := by
  simp [ohRun, ohStep, ohInit, Gen.ohFcAccepted, Gen.ohHbsAccepted, Gen.ohAreaAccepted, Gen.ohDefaultFc]
  norm_num

end PyPhysim.C13
