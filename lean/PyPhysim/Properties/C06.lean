import PyPhysim.Proofs.C06
import PyPhysim.Proofs.C06Stats
import PyPhysim.Proofs.C06Heap
import PyPhysim.Proofs.C06Pointwise
import PyPhysim.Proofs.C06Copy
import PyPhysim.Proofs.C06Append
import PyPhysim.Proofs.C06CombineView
import PyPhysim.Proofs.C06Order
import PyPhysim.Proofs.C06Gen
import PyPhysim.Proofs.C06GenSim
import PyPhysim.Proofs.C06Robust

/-!
# C06 — combining simulation results is independent of how repetitions were grouped

Property theorems only.  The definitions are the hand models of
`pyphysim/simulations/results.py` and `parameters.py`
(`PyPhysim.Model.C06`: `Result.update / merge / get_result / get_result_mean /
get_result_var / __eq__`; `PyPhysim.Model.C06Heap`: `SimulationResults` on an
explicit heap of shared objects, `merge_all_results`, `append_all_results`,
`combine_simulation_parameters`, `get_pack_indexes`, `combine_simulation_results`),
of the source **after** the `fix:` commits listed in `findings/C06.json`.  They are
tied to the code by the exact differential scripts of `harness/props/c06.py`, and — for the
arithmetic core of `Result` (`update`, `_assert_can_merge` + `merge`, `get_result`,
`get_result_mean`, `get_result_var`) — by regeneration: `PyPhysim.Generated.C06` is re-emitted from
the current AST of `results.py` on every run (`harness/gen/c06.py`) and the bridge theorems of the
last section prove it equal to the hand model; likewise the control structure of
`SimulationResults.add_result / append_result / add_new_result / merge_all_results`
(`PyPhysim.Generated.C06Sim`, `harness/gen/c06sim.py`).

`fresh nm ty acc k` is the object `Result(nm, ty, acc, choice_num=k)`;
`foldUpd f xs` the object after the script `for o in xs: r.update(*o)`;
`foldUpdM` / `evalTree` / `mergeM` are the same computations with Python's
exception propagation (`.ok` = nothing was raised).
-/
namespace PyPhysim.C06
open PyPhysim.C06M PyPhysim.Proto

/-! ## Result level: one sequence, any split, any merge order -/

/-- **Clause "accumulating into one object = splitting in two and merging"** (SUM, RATIO,
    CHOICE; accumulation on or off): for every two chunks of valid observations, neither the two
    partial scripts nor the merge raises, and the merged object has *every attribute* (value,
    total, result sums, update count, value/total lists) equal to the object that received the
    concatenated sequence. -/
theorem fold_update_append (nm : String) (ty : Ty) (acc : Bool) (k : Nat) (hm : ty ≠ .misc)
    (xs ys : List Obs) (hx : ∀ o ∈ xs, validObs (fresh nm ty acc k) o)
    (hy : ∀ o ∈ ys, validObs (fresh nm ty acc k) o) :
    foldUpdM (fresh nm ty acc k) xs = .ok (foldUpd (fresh nm ty acc k) xs)
      ∧ foldUpdM (fresh nm ty acc k) ys = .ok (foldUpd (fresh nm ty acc k) ys)
      ∧ mergeM (foldUpd (fresh nm ty acc k) xs) (foldUpd (fresh nm ty acc k) ys)
          = .ok (foldUpd (fresh nm ty acc k) (xs ++ ys))
      ∧ foldUpdM (fresh nm ty acc k) (xs ++ ys) = .ok (foldUpd (fresh nm ty acc k) (xs ++ ys)) := by
  refine ⟨foldUpdM_ok hx, foldUpdM_ok hy, ?_, foldUpdM_ok ?_⟩
  · rw [mergeM_ok ((compat_foldUpd _ (Compat.refl _)).symm.trans (compat_foldUpd _ (Compat.refl _))),
      foldUpd_append_fresh nm ty acc k hm]
  · intro o ho
    rcases List.mem_append.mp ho with h | h
    · exact hx o h
    · exact hy o h

/-- **Clause "merging in any grouping"**: `Result.merge` is associative on results created with
    the same constructor arguments, all four types, and raises in neither order. -/
theorem merge_assoc (a b c : Res) (hab : Compat a b) (hbc : Compat b c) :
    ∃ x, (mergeM a b >>= fun ab => mergeM ab c) = .ok x
       ∧ (mergeM b c >>= fun bc => mergeM a bc) = .ok x := by
  refine ⟨mergeCore (mergeCore a b) c, ?_, ?_⟩
  · rw [mergeM_ok hab]
    show mergeM (mergeCore a b) c = _
    rw [mergeM_ok ((compat_mergeCore hab).symm.trans (hab.trans hbc))]
  · rw [mergeM_ok hbc]
    show mergeM a (mergeCore b c) = _
    rw [mergeM_ok (hab.trans (compat_mergeCore hbc)), mergeCore_assoc hab hbc]

/-- **Main clause** — for *every* finite sequence of valid `update` calls, *every* partition
    into contiguous chunks (empty chunks included) and *every* association order of the merges
    (= every binary tree whose leaves concatenate to the sequence), for SUM, RATIO and CHOICE
    results with accumulation on or off: accumulating each chunk into its own new object and
    merging along the tree raises nothing and yields exactly the object obtained by
    accumulating the whole sequence into one object. -/
theorem any_partition_any_association (nm : String) (ty : Ty) (acc : Bool) (k : Nat)
    (hm : ty ≠ .misc) (t : MTree (List Obs))
    (hv : ∀ o ∈ t.flatten, validObs (fresh nm ty acc k) o) :
    evalTree (fresh nm ty acc k) t = .ok (foldUpd (fresh nm ty acc k) t.flatten)
      ∧ evalTree (fresh nm ty acc k) t = foldUpdM (fresh nm ty acc k) t.flatten := by
  have h := evalTree_eq_foldUpd nm ty acc k hm t hv
  exact ⟨h, by rw [h, foldUpdM_ok hv]⟩

/-- … hence two groupings of the same sequence give the same object, so the same value, total,
    update count, mean, variance and `==` (all are functions of the object). -/
theorem grouping_independent (nm : String) (ty : Ty) (acc : Bool) (k : Nat) (hm : ty ≠ .misc)
    (t₁ t₂ : MTree (List Obs)) (hflat : t₁.flatten = t₂.flatten)
    (hv : ∀ o ∈ t₁.flatten, validObs (fresh nm ty acc k) o) :
    ∃ r, evalTree (fresh nm ty acc k) t₁ = .ok r ∧ evalTree (fresh nm ty acc k) t₂ = .ok r
      ∧ getResult r = getResult (foldUpd (fresh nm ty acc k) t₁.flatten)
      ∧ getMean r = getMean (foldUpd (fresh nm ty acc k) t₁.flatten)
      ∧ getVar r = getVar (foldUpd (fresh nm ty acc k) t₁.flatten)
      ∧ eqPy r (foldUpd (fresh nm ty acc k) t₁.flatten) = .ok true := by
  refine ⟨_, evalTree_eq_foldUpd nm ty acc k hm t₁ hv, ?_, rfl, rfl, rfl, ?_⟩
  · rw [hflat]; exact evalTree_eq_foldUpd nm ty acc k hm t₂ (hflat ▸ hv)
  · have hc := compat_foldUpd t₁.flatten (Compat.refl (fresh nm ty acc k))
    have hty : (foldUpd (fresh nm ty acc k) t₁.flatten).ty = ty := by rw [← hc.ty]; rfl
    unfold eqPy
    cases ty <;> simp [hty]

/-- Merging *already computed* compatible results (any history, all four types incl. MISC) along
    two trees with the same leaves gives the same object: only the left-to-right order of the
    operands matters, never the grouping. -/
theorem merge_association_irrelevant (c : Res) (t₁ t₂ : MTree Res) (hl : t₁.leaves = t₂.leaves)
    (hc : ∀ x ∈ t₁.leaves, Compat c x) :
    ∃ r, evalRes t₁ = .ok r ∧ evalRes t₂ = .ok r := by
  refine ⟨mergeSeq t₁.first t₁.rest, evalRes_eq_mergeSeq c t₁ hc, ?_⟩
  rw [evalRes_eq_mergeSeq c t₂ (hl ▸ hc)]
  have h1 := MTree.leaves_eq t₁
  have h2 := MTree.leaves_eq t₂
  rw [hl, h2] at h1
  injection h1 with e1 e2
  rw [e1, e2]

/-! ## what the merged attributes are (first principles) -/

/-- SUM results: value, result sum = Σ v; squared sum = Σ v²; count = number of calls; total is
    never touched; the value list is the observation sequence; mean = Σ v / n. -/
theorem stats_sum (nm : String) (acc : Bool) (k : Nat) (xs : List Obs) :
    let r := foldUpd (fresh nm .sum acc k) xs
    r.value = (xs.map (·.v)).sum ∧ r.total = 0 ∧ r.n = xs.length
      ∧ r.rsum = (xs.map (·.v)).sum ∧ r.rsq = (xs.map (fun o => o.v * o.v)).sum
      ∧ r.vlist = (if acc then xs.map (·.v) else [])
      ∧ (xs ≠ [] → getResult r = .ok (.num (xs.map (·.v)).sum)
            ∧ getMean r = .ok ((xs.map (·.v)).sum / (xs.length : Rat))) := by
  intro r
  have h := foldUpd_sum (fresh nm .sum acc k) rfl xs
  have hr : r = _ := h
  refine ⟨by rw [hr]; simp [fresh], by rw [hr]; simp [fresh], by rw [hr]; simp [fresh],
    by rw [hr]; simp [fresh], by rw [hr]; simp [fresh], by rw [hr]; cases acc <;> simp [fresh], ?_⟩
  intro hne
  have hn : xs.length ≠ 0 := by simpa using hne
  rw [hr]
  simp [getResult, getMean, fresh, hn]

/-- … and `get_result_var` of a SUM result is the population variance of the observations,
    `(1/n) Σ (vᵢ − mean)²`. -/
theorem variance_is_population_variance (nm : String) (acc : Bool) (k : Nat) (xs : List Obs)
    (hne : xs ≠ []) :
    getVar (foldUpd (fresh nm .sum acc k) xs)
      = .ok (((xs.map (·.v)).map (fun x =>
            (x - (xs.map (·.v)).sum / (xs.length : Rat)) * (x - (xs.map (·.v)).sum / (xs.length : Rat)))).sum
          / (xs.length : Rat)) := by
  have hn : xs.length ≠ 0 := by simpa using hne
  have hv := var_identity (xs.map (·.v)) (by simpa using hne)
  have e : (xs.map (·.v)).map (fun x => x * x) = xs.map (fun o => o.v * o.v) := by
    simp [List.map_map, Function.comp_def]
  simp only [List.length_map, e] at hv
  rw [foldUpd_sum _ rfl]
  simp only [getVar, fresh, Nat.zero_add, hn, if_false, Rat.zero_add]
  exact congrArg Except.ok hv

/-- RATIO results: value = Σ v, total = Σ t, result sum = Σ v/t, squared sum = Σ (v/t)²,
    count = number of calls; `get_result` = Σ v / Σ t. -/
theorem stats_ratio (nm : String) (acc : Bool) (k : Nat) (xs : List Obs)
    (hv : ∀ o ∈ xs, validObs (fresh nm .ratio acc k) o) :
    let r := foldUpd (fresh nm .ratio acc k) xs
    r.value = (xs.map (·.v)).sum ∧ r.total = (xs.map totalOf).sum ∧ r.n = xs.length
      ∧ r.rsum = (xs.map ratioOf).sum ∧ r.rsq = (xs.map (fun o => ratioOf o * ratioOf o)).sum
      ∧ r.vlist = (if acc then xs.map (·.v) else []) ∧ r.tlist = (if acc then xs.map totalOf else [])
      ∧ (xs ≠ [] → (xs.map totalOf).sum ≠ 0 →
            getResult r = .ok (.num ((xs.map (·.v)).sum / (xs.map totalOf).sum))
            ∧ getMean r = .ok ((xs.map ratioOf).sum / (xs.length : Rat))) := by
  intro r
  have hv' : ∀ o ∈ xs, ∃ t, o.t = some t ∧ t ≠ 0 := fun o ho => by
    have := hv o ho; simpa [validObs, fresh] using this
  have hr : r = _ := foldUpd_ratio (fresh nm .ratio acc k) rfl xs hv'
  refine ⟨by rw [hr]; simp [fresh], by rw [hr]; simp [fresh], by rw [hr]; simp [fresh],
    by rw [hr]; simp [fresh], by rw [hr]; simp [fresh], by rw [hr]; cases acc <;> simp [fresh],
    by rw [hr]; cases acc <;> simp [fresh], ?_⟩
  intro hne ht
  have hn : xs.length ≠ 0 := by simpa using hne
  rw [hr]
  simp [getResult, getMean, fresh, hn, ht]

/-- CHOICE results: entry `i` of the array counts the observations that selected choice `i`
    (numpy index normalisation included), total = count = number of calls. -/
theorem stats_choice (nm : String) (acc : Bool) (k : Nat) (xs : List Obs)
    (hv : ∀ o ∈ xs, validObs (fresh nm .choice acc k) o) :
    let r := foldUpd (fresh nm .choice acc k) xs
    (∀ i, r.counts[i]? = if i < k then some (hits k xs i) else none)
      ∧ r.total = (xs.length : Rat) ∧ r.n = xs.length ∧ r.rsum = 0 ∧ r.rsq = 0
      ∧ r.vlist = (if acc then xs.map (·.v) else []) := by
  intro r
  have h1 := foldUpd_choice_counts (fresh nm .choice acc k) rfl xs hv
  obtain ⟨h2, h3, h4, _, h6, _⟩ := foldUpd_choice_rest (fresh nm .choice acc k) rfl xs hv
  refine ⟨fun i => ?_, by rw [h2]; simp [fresh], by rw [foldUpd_n hv]; simp [fresh], by rw [h3]; simp [fresh],
    by rw [h4]; simp [fresh], by rw [h6]; cases acc <;> simp [fresh]⟩
  rw [h1 i]
  by_cases hi : i < k <;> simp [fresh, hi]

/-! ## MISC results -/

/-- **Clause "for misc results the last observation wins"**: for every merge tree whose last
    chunk is not empty the merged value (and `get_result`) is the last observation of the whole
    sequence; with accumulation on, the value list is the whole sequence.  (The update count of
    a merged MISC result is that of the last chunk — MISC merge replaces.) -/
theorem misc_last_wins (nm : String) (acc : Bool) (k : Nat) (t : MTree (List Obs))
    (hlast : t.last ≠ []) (hflat : t.flatten ≠ []) (hsuffix : t.flatten.getLast hflat = t.last.getLast hlast) :
    ∃ r, evalTree (fresh nm .misc acc k) t = .ok r
      ∧ r.value = (t.flatten.getLast hflat).v
      ∧ getResult r = .ok (.num (t.flatten.getLast hflat).v)
      ∧ r.vlist = (if acc then t.flatten.map (·.v) else []) := by
  refine ⟨_, evalTree_misc nm acc k t, ?_, ?_, rfl⟩
  · simp only [lastV_eq_getLast 0 t.last hlast, hsuffix]
  · have hn : t.last.length ≠ 0 := by simpa using hlast
    simp [getResult, fresh, hn, lastV_eq_getLast 0 t.last hlast, hsuffix]

/-- the last observation of the flattened tree is the last observation of its last chunk
    (discharges `hsuffix` of `misc_last_wins`) -/
theorem misc_last_chunk_is_suffix (t : MTree (List Obs)) (hlast : t.last ≠ []) :
    ∃ h : t.flatten ≠ [], t.flatten.getLast h = t.last.getLast hlast := by
  induction t with
  | leaf xs => exact ⟨hlast, rfl⟩
  | node l r _ ihr =>
    obtain ⟨h, e⟩ := ihr hlast
    refine ⟨by simp [MTree.flatten, h], ?_⟩
    simp only [MTree.flatten, MTree.last]
    rw [List.getLast_append_of_ne_nil _ h]
    exact e

/-- **Negative witness (known finding)**: with an *empty* chunk after data the last observation
    does not win — merging a never-updated MISC result resets the value, and `get_result`
    answers "Nothing yet", while the single object holds 7. -/
theorem misc_empty_chunk_resets :
    evalTree (fresh "x" .misc false 0) (.node (.leaf [⟨7, none⟩]) (.leaf []))
        = .ok (fresh "x" .misc false 0)
      ∧ getResult (fresh "x" .misc false 0) = .ok .nothing
      ∧ getResult (foldUpd (fresh "x" .misc false 0) [⟨7, none⟩]) = .ok (.num 7) := by
  decide +kernel

/-! ## guards: exactly which calls raise -/

/-- `update` raises iff the observation is not valid for the object's type, and then with the
    exception kind of the code: RATIO without total → ValueError, total 0 → ZeroDivisionError,
    CHOICE non-integer → AssertionError, CHOICE index out of range → IndexError.  **A call that
    raises leaves the object exactly as it was** (R4); a successful call counts one update. -/
theorem update_raises_iff_invalid (r : Res) (o : Obs) :
    ((update r o).2 = none ↔ validObs r o)
      ∧ (r.ty = .ratio → o.t = none → (update r o).2 = some .ValueError)
      ∧ (r.ty = .ratio → o.t = some 0 → (update r o).2 = some .ZeroDivisionError)
      ∧ (r.ty = .choice → o.v.den ≠ 1 → (update r o).2 = some .AssertionError)
      ∧ (r.ty = .choice → o.v.den = 1 → pyIndex r.counts.length o.v.num = none →
            (update r o).2 = some .IndexError)
      ∧ ((update r o).2 ≠ none → (update r o).1 = r)
      ∧ (validObs r o → (update r o).1.n = r.n + 1) := by
  refine ⟨⟨fun h => ?_, update_ok⟩, ?_, ?_, ?_, ?_, update_err_unchanged r o, update_n_ok⟩
  · exact Classical.byContradiction (fun hv => update_err_of_invalid hv h)
  · intro ht ho; simp [update, ht, ho]
  · intro ht ho; simp [update, ht, ho]
  · intro ht hd; simp [update, ht, hd]
  · intro ht hd hi; simp [update, ht, hd, hi]

/-- a rejected update in the middle of a history is as if it had never been made: the history
    continues exactly like the one of an object that never saw the call (R4) -/
theorem rejected_update_is_invisible (r : Res) (o : Obs) (xs ys : List Obs) (h : ¬ validObs (foldUpd r xs) o) :
    foldUpd r (xs ++ o :: ys) = foldUpd r (xs ++ ys) := by
  rw [foldUpd_append, foldUpd_append, foldUpd_cons,
    update_err_unchanged _ _ (update_err_of_invalid h)]

/-- `merge` of results with different type or name, of a non-accumulating result into an
    accumulating one, or of CHOICE results with a different number of choices raises
    `AssertionError` and **leaves `self` untouched** (the argument is never written anyway) (R4). -/
theorem merge_rejects_incompatible (a b : Res)
    (h : a.ty ≠ b.ty ∨ a.name ≠ b.name ∨ (a.acc = true ∧ b.acc = false)
          ∨ (a.ty = .choice ∧ a.counts.length ≠ b.counts.length)) :
    merge a b = (a, some .AssertionError) := by
  have hg : mergeGuard a b = some .AssertionError := by
    unfold mergeGuard
    by_cases h1 : a.ty = b.ty
    · by_cases h2 : a.name = b.name
      · by_cases h3 : a.acc = true ∧ b.acc = false
        · simp [h1, h2, h3.1, h3.2]
        · rcases h with h | h | h | h
          · exact absurd h1 h
          · exact absurd h2 h
          · exact absurd h h3
          · rw [if_neg (not_not.mpr h1), if_neg (not_not.mpr h2), if_neg h3, if_pos h]
      · simp [h1, h2]
    · simp [h1]
  simp [merge, hg]

/-- whenever `merge` raises an assertion, `self` is unchanged (R4) -/
theorem merge_rejected_unchanged (a b : Res) (e : PyErr) (h : mergeGuard a b = some e) :
    merge a b = (a, some e) := by
  simp [merge, h]

/-! ## SimulationResults: merging whole result sets -/

/-- **Clause "merging whole result sets obeys the same law per name"**: if `self` is not empty,
    `other` holds every name of `self`, and the last results of `self` are distinct objects,
    none of them an object of `other`, with matching constructor arguments, then
    `merge_all_results` raises nothing and replaces, for every name, the last result of `self`
    by its `Result.merge` with the last result of `other` of that name; no other object, no list
    and no dictionary changes.  (`A nm` / `B nm` are the addresses of `self[nm][-1]` /
    `other[nm][-1]`.) -/
theorem merge_all_pointwise (m : Mach) (s o : Nat) (A B : String → Nat)
    (hs : s < m.sims.length) (ho : o < m.sims.length) (hne : dictOf m s ≠ [])
    (hnd : ((dictOf m s).map (·.1)).Nodup) (hnsr : nsr ∉ (dictOf m s).map (·.1))
    (hnsro : dictGet? (dictOf m o) nsr = none)
    (hA : ∀ nm ∈ (dictOf m s).map (·.1), lastOf m (dictOf m s) nm = .ok (A nm))
    (hB : ∀ nm ∈ (dictOf m s).map (·.1), lastOf m (dictOf m o) nm = .ok (B nm))
    (hinj : ∀ n1 ∈ (dictOf m s).map (·.1), ∀ n2 ∈ (dictOf m s).map (·.1), A n1 = A n2 → n1 = n2)
    (hsep : ∀ n1 ∈ (dictOf m s).map (·.1), ∀ n2 ∈ (dictOf m s).map (·.1), A n1 ≠ B n2)
    (hc : ∀ nm ∈ (dictOf m s).map (·.1),
        ∃ ra rb, m.res[A nm]? = some ra ∧ m.res[B nm]? = some rb ∧ Compat ra rb) :
    (mergeAll m s o).2 = none
      ∧ (∀ nm ∈ (dictOf m s).map (·.1), ∀ ra rb, m.res[A nm]? = some ra → m.res[B nm]? = some rb →
            (mergeAll m s o).1.res[A nm]? = some (mergeCore ra rb))
      ∧ (∀ a, (∀ nm ∈ (dictOf m s).map (·.1), a ≠ A nm) → (mergeAll m s o).1.res[a]? = m.res[a]?)
      ∧ (mergeAll m s o).1.lists = m.lists ∧ (mergeAll m s o).1.sims = m.sims := by
  obtain ⟨p1, p2, p3⟩ := mergeNames_pointwise (dictOf m s) (dictOf m o) A B _ m hnd hnsr hA hB hinj hsep hc
  have hl := mergeNames_lists (dictOf m s) (dictOf m o) m ((dictOf m s).map (·.1))
  have hsm := mergeNames_sims (dictOf m s) (dictOf m o) m ((dictOf m s).map (·.1))
  have hstep := mergeAll_eq_mergeNames m s o hs ho hne hnsro
    (checkNames_none (dictOf m s) (dictOf m o) A B m _ hA hB hc) p1
  rw [hstep]
  exact ⟨p1, p2, p3, hl, hsm⟩

/-- **… for a whole sequence of result sets** (the Monte-Carlo runner's loop
    `for rep: cur.merge_all_results(rep_results)`): per name, the last result of `self` ends up
    as the left-to-right `Result.merge` of the operands' last results, whatever the number of
    operands (`SeqOK` bundles the hypotheses of `merge_all_pointwise` for every operand, all
    stated on the initial heap). -/
theorem merge_all_sequence_law (m : Mach) (s : Nat) (os : List Nat) (A : String → Nat)
    (B : Nat → String → Nat) (h : SeqOK m s os A B) :
    ∀ nm ∈ (dictOf m s).map (·.1), ∀ ra, m.res[A nm]? = some ra →
      (runS s m (os.map SOp.mergeAll)).res[A nm]?
        = some (mergeSeq ra (os.filterMap (fun o => m.res[B o nm]?))) :=
  mergeAll_sequence s A B os m h

/-- **… hence grouping independence at the set level**: if, for a name, `self` holds the
    accumulation of `xs₀` and every operand holds the accumulation of its own chunk, then after
    merging all operands `self` holds the accumulation of the concatenated sequence — the same
    object as one result set that had seen every repetition (SUM, RATIO, CHOICE). -/
theorem merge_all_sequence_is_accumulation (m : Mach) (s : Nat) (os : List Nat) (A : String → Nat)
    (B : Nat → String → Nat) (h : SeqOK m s os A B) (nm : String) (hnm : nm ∈ (dictOf m s).map (·.1))
    (ty : Ty) (acc : Bool) (k : Nat) (hm : ty ≠ .misc) (xs₀ : List Obs) (chunk : Nat → List Obs)
    (h0 : m.res[A nm]? = some (foldUpd (fresh nm ty acc k) xs₀))
    (hch : ∀ o ∈ os, m.res[B o nm]? = some (foldUpd (fresh nm ty acc k) (chunk o))) :
    (runS s m (os.map SOp.mergeAll)).res[A nm]?
      = some (foldUpd (fresh nm ty acc k) (xs₀ ++ (os.map chunk).flatten)) := by
  rw [mergeAll_sequence s A B os m h nm hnm _ h0]
  have e : os.filterMap (fun o => m.res[B o nm]?) = (os.map chunk).map (foldUpd (fresh nm ty acc k)) := by
    clear h h0
    induction os with
    | nil => rfl
    | cons o rest ih =>
      simp only [List.filterMap_cons, hch o (by simp), List.map_cons]
      rw [ih (fun o' ho' => hch o' (by simp [ho']))]
  rw [e, mergeSeq_foldUpd nm ty acc k hm]

/-- **a rejected `merge_all_results` changes nothing** (R4): when the validation pass finds a
    missing name (`KeyError`), an empty list or an incompatible pair of results (`AssertionError`),
    for an ordinary name or for `'num_skipped_reps'`, the call raises and the whole heap — `self`,
    `other`, every Result — is exactly as before. -/
theorem merge_all_rejected_unchanged (m : Mach) (s o : Nat) (e : PyErr) (hne : dictOf m s ≠ [])
    (h : checkNames (dictOf m s) (dictOf m o) m ((dictOf m s).map (·.1)) = some e
          ∨ (checkNames (dictOf m s) (dictOf m o) m ((dictOf m s).map (·.1)) = none ∧ checkNsr m s o = some e)) :
    s < m.sims.length → o < m.sims.length → mergeAll m s o = (m, some e) := by
  intro hs ho
  unfold mergeAll
  rcases h with h | ⟨h1, h2⟩
  · simp [hs, ho, hne, h]
  · simp [hs, ho, hne, h1, h2]

/-- a type mismatch in the *second* name is found before the first name is merged: the
    pre-repair code left `self` half merged here -/
theorem merge_all_rejected_witness :
    let r := fun (nm : String) (ty : Ty) (v : Rat) => (update (fresh nm ty false 0) ⟨v, some 2⟩).1
    let m : Mach :=
      { res := [r "a" .sum 3, r "b" .sum 4, r "a" .sum 5, r "b" .ratio 6], lists := [[0], [1], [2], [3]],
        sims := [⟨[("a", 0), ("b", 1)], ⟨[], []⟩⟩, ⟨[("a", 2), ("b", 3)], ⟨[], []⟩⟩] }
    mergeAll m 0 1 = (m, some .AssertionError)
      ∧ (mergeAllOld m 0 1).2 = some .AssertionError ∧ (mergeAllOld m 0 1).1 ≠ m := by
  decide +kernel

/-- **a rejected `combine_simulation_results` changes nothing** (R4): whatever the reason
    (different parameters, different result names, ill-formed operands) the heap is unchanged. -/
theorem combine_rejected_unchanged (m : Mach) (s1 s2 : Nat) (e : PyErr)
    (h : (combine m s1 s2).2 = some e) : (combine m s1 s2).1 = m := by
  unfold combine at h ⊢
  cases hx1 : m.sims[s1]? with
  | none => simp
  | some x1 =>
    cases hx2 : m.sims[s2]? with
    | none => simp
    | some x2 =>
      simp only [hx1, hx2] at h ⊢
      cases hp : combineParams x1.params x2.params with
      | error e' => simp
      | ok p =>
        simp only [hp] at h ⊢
        split
        · rfl
        · rename_i hnames
          simp only [hnames, if_false] at h
          cases hr : combineRows m x1.dict x2.dict (x1.params.norm.unp.map (·.2)) (x2.params.norm.unp.map (·.2))
              (product (p.unp.map (·.2))) (x1.dict.map (·.1)) with
          | error e' => simp
          | ok rows =>
            simp only [hr] at h
            generalize allocRows m rows = q at h
            obtain ⟨m1, d⟩ := q
            simp at h

/-- merging into an **empty** object (repaired source): nothing is raised and `self` then
    denotes exactly the results of `other` (name by name, in order) … -/
theorem merge_all_into_empty_copies (m : Mach) (s o : Nat) (hs : s < m.sims.length)
    (ho : o < m.sims.length) (hempty : dictOf m s = []) (hvo : ∀ e ∈ dictOf m o, ValidEntry m e)
    (hnd : ((dictOf m o).map (·.1)).Nodup) :
    (mergeAll m s o).2 = none ∧ view (mergeAll m s o).1 s = view m o :=
  mergeAll_empty_view m s o hs ho hempty hvo hnd

/-- **Clause "merging never mutates the merged-in operand"**, one call, exceptions included:
    `merge_all_results` writes only to the last result of each list of `self`; every other
    Result object, *every* list object and every other SimulationResults object that existed
    before is unchanged; afterwards the objects `self` can write through are the old ones or
    objects created by this call (so nothing of `other` has been captured). -/
theorem merge_all_frame (m : Mach) (s o : Nat) (hwf : WfS m s) :
    Frame (· ∈ writeSet m s) s m (mergeAll m s o).1
      ∧ (∀ a ∈ writeSet (mergeAll m s o).1 s, a ∈ writeSet m s ∨ m.res.length ≤ a)
      ∧ WfS (mergeAll m s o).1 s :=
  mergeAll_frame m s o hwf

/-- … and **for every later history**: if no Result object of `w` is one of the objects `s`
    can write through (in particular when `w` shares no object with `s`), then after *any*
    sequence of `s.merge_all_results(·)` calls (with any operands, `w` included, raising or
    not) and of updates through `s[name][-1]`, `w` still denotes exactly the same results, and
    the separation still holds. -/
theorem merge_never_mutates_operand (m : Mach) (s w : Nat) (ops : List SOp) (h : Watch m s w) :
    view (runS s m ops) w = view m w ∧ Watch (runS s m ops) s w :=
  ⟨(watch_run s w ops m h).2, (watch_run s w ops m h).1⟩

/-- `Result.merge` on the heap writes the receiver only. -/
theorem result_merge_frame (m : Mach) (a b a' : Nat) (h : a' ≠ a) :
    (mergeR m a b).1.res[a']? = m.res[a']? ∧ (mergeR m a b).1.lists = m.lists
      ∧ (mergeR m a b).1.sims = m.sims :=
  ⟨mergeR_res_ne m a b h, mergeR_lists m a b, mergeR_sims m a b⟩

/-- three objects: `a` empty, `b = {x: [Result(3)]}`, `c = {x: [Result(5)]}` -/
def aliasWitness : Mach :=
  { res := [(update (fresh "x" .sum false 0) ⟨3, none⟩).1, (update (fresh "x" .sum false 0) ⟨5, none⟩).1],
    lists := [[0], [1]],
    sims := [⟨[], ⟨[], []⟩⟩, ⟨[("x", 0)], ⟨[], []⟩⟩, ⟨[("x", 1)], ⟨[], []⟩⟩] }

/-- **Negative witness for the source before the repair** (`self._results[name] = other[name]`):
    after `a.merge_all_results(b); a.merge_all_results(c)` with `a` initially empty, `b` has
    changed (it now holds 8 with 2 updates) — the history `[mergeAll b, mergeAll c]` violates the
    clause; this is the input replayed on the code by the oracle. -/
theorem merge_into_empty_aliased_before_fix :
    view (runSOld 0 aliasWitness [.mergeAll 1, .mergeAll 2]) 1 ≠ view aliasWitness 1
      ∧ view (runS 0 aliasWitness [.mergeAll 1, .mergeAll 2]) 1 = view aliasWitness 1
      ∧ view (runS 0 aliasWitness [.mergeAll 1, .mergeAll 2]) 0
          = [("x", [foldUpd (fresh "x" .sum false 0) [⟨3, none⟩, ⟨5, none⟩]])] := by
  decide +kernel

/-- **The `'num_skipped_reps'` special case** (modelled exactly, documented here): when only
    `other` carries that bookkeeping result, `merge_all_results` first creates it in `self` with
    `add_new_result(name, SUMTYPE, 0)` — i.e. already *updated once with 0*, the same convention
    `SimulationRunner` uses — and then merges: the value (number of skipped repetitions) adds up,
    the update count is one more than the operand's. -/
theorem num_skipped_reps_created_with_one_update :
    let m : Mach :=
      { res := [foldUpd (fresh "x" .sum false 0) [⟨3, none⟩], foldUpd (fresh "x" .sum false 0) [⟨5, none⟩],
                foldUpd (fresh nsr .sum false 0) [⟨0, some 0⟩, ⟨1, none⟩, ⟨1, none⟩]],
        lists := [[0], [1], [2]],
        sims := [⟨[("x", 0)], ⟨[], []⟩⟩, ⟨[("x", 1), (nsr, 2)], ⟨[], []⟩⟩] }
    (mergeAll m 0 1).2 = none
      ∧ view (mergeAll m 0 1).1 0
          = [("x", [foldUpd (fresh "x" .sum false 0) [⟨3, none⟩, ⟨5, none⟩]]),
             (nsr, [foldUpd (fresh nsr .sum false 0) [⟨0, some 0⟩, ⟨0, some 0⟩, ⟨1, none⟩, ⟨1, none⟩]])]
      ∧ view (mergeAll m 0 1).1 1 = view m 1 := by
  decide +kernel

/-! ## append -/

/-- `append_all_results` never changes a Result object (it shares them). -/
theorem append_all_never_touches_results (m : Mach) (s o : Nat) : (appendAll m s o).1.res = m.res :=
  appendAll_res m s o

/-- appending results of one name and type to the list `self` already has under that name
    extends *that list object*, in order, and raises nothing (the inner loop of
    `append_all_results`). -/
theorem append_extends_list (s : Nat) (m : Mach) (as : List Nat) (nm : String) (ls a0 : Nat)
    (tl : List Nat) (r0 : Res) (hd : dictGet? (dictOf m s) nm = some ls) (hl : listAt m ls = a0 :: tl)
    (hlt : ls < m.lists.length) (hr0 : m.res[a0]? = some r0)
    (has : ∀ a ∈ as, ∃ r, m.res[a]? = some r ∧ r.name = nm ∧ r.ty = r0.ty) :
    (appendElems s m as).2 = none ∧ (appendElems s m as).1.sims = m.sims
      ∧ (appendElems s m as).1.lists = m.lists.set ls (a0 :: tl ++ as) :=
  appendElems_concat s m as nm ls a0 tl r0 hd hl hlt hr0 has

/-- … and appending results of a name `self` does not have yet creates one new list object
    holding exactly these results, in order, under a new last key; no other object changes. -/
theorem append_new_name_creates_list (s : Nat) (m : Mach) (a : Nat) (rest : List Nat) (nm : String)
    (r : Res) (hs : s < m.sims.length) (hd : dictGet? (dictOf m s) nm = none) (hr : m.res[a]? = some r)
    (hn : r.name = nm) (has : ∀ a' ∈ rest, ∃ r', m.res[a']? = some r' ∧ r'.name = nm ∧ r'.ty = r.ty) :
    (appendElems s m (a :: rest)).2 = none
      ∧ (appendElems s m (a :: rest)).1.res = m.res
      ∧ (appendElems s m (a :: rest)).1.lists = m.lists ++ [a :: rest]
      ∧ dictOf (appendElems s m (a :: rest)).1 s = dictOf m s ++ [(nm, m.lists.length)]
      ∧ ∀ j, j ≠ s → (appendElems s m (a :: rest)).1.sims[j]? = m.sims[j]? :=
  appendElems_new_name s m a rest nm r hs hd hr hn has

/-- Full statement for `append_all_results` (per name the lists are concatenated, new names are
    appended in the operand's order).  **Partial**: proved are `append_all_never_touches_results`,
    `append_extends_list` and `append_new_name_creates_list` (what happens for one name of the
    operand, both cases); the composition over all names of the operand (the outer loop) is
    covered by the exact correspondence scripts and the `append_all_results` oracle only.
    `append_all_results` is not part of the property's statement (it is listed as a mechanism);
    by design it *shares* the Result objects. -/
def AppendAllConcatStatement : Prop :=
  ∀ (m : Mach) (s o : Nat), s ≠ o → s < m.sims.length → o < m.sims.length →
    (∀ e ∈ dictOf m s, ValidEntry m e) → (∀ e ∈ dictOf m o, ValidEntry m e) →
    ((dictOf m o).map (·.1)).Nodup → (∀ l ∈ reachLists m s, l ∉ reachLists m o) →
    (∀ e ∈ dictOf m o, ∀ a ∈ listAt m e.2, ∃ r, m.res[a]? = some r ∧ r.name = e.1) →
    (∀ e ∈ view m s, ∀ e' ∈ view m o, e.1 = e'.1 → ∀ r ∈ e.2, ∀ r' ∈ e'.2, r.ty = r'.ty) →
    (appendAll m s o).2 = none ∧
      view (appendAll m s o).1 s =
        (view m s).map (fun e => (e.1, e.2 ++ ((view m o).lookup e.1).getD []))
          ++ (view m o).filter (fun e => ((view m s).lookup e.1).isNone && !e.2.isEmpty)

/-! ## combining result sets over parameter grids -/

/-- `np.union1d` on the values of an unpacked parameter: exactly the values of either operand,
    strictly increasing (hence without duplicates). -/
theorem union_grid_spec (a b : List Rat) :
    (∀ x, x ∈ union1d a b ↔ x ∈ a ∨ x ∈ b) ∧ (union1d a b).Pairwise (· < ·) :=
  ⟨mem_union1d a b, sorted_union1d a b⟩

/-- values that are distinct but close (noise powers 1·10⁻⁹, 2·10⁻⁹, 4·10⁻⁹; carrier frequencies
    2.4·10⁹ and 2.40001·10⁹) stay distinct in the union grid, are found at their own index, and a
    close but absent value is *absent* (`ValueError`, swallowed by `combine` as "no result for this
    combination") — an instance of `union_grid_spec` / `pack_index_spec`; parameter values are
    exact rationals in the model, so no tolerance can enter. -/
theorem close_values_stay_distinct :
    union1d [1/1000000000, 2/1000000000] [2/1000000000, 4/1000000000]
        = [1/1000000000, 2/1000000000, 4/1000000000]
      ∧ packIndex [[1/1000000000, 2/1000000000, 4/1000000000]] [2/1000000000] = .ok 1
      ∧ packIndex [[1/1000000000, 4/1000000000]] [2/1000000000] = .error .ValueError
      ∧ union1d [2400000000] [2400010000] = [2400000000, 2400010000]
      ∧ packIndex [[2400000000]] [2400010000] = .error .ValueError
      ∧ union1d [2, 3] [2, 5/2] = [2, 5/2, 3] := by
  decide +kernel

/-- **The axis order of the grid is `sorted(names)`** — one order, used for the enumeration of the
    combinations (`product`), for the row-major index (`packIndex`) and for the union: `Params.norm`
    is a permutation of the parameter lists, sorted by name in the lexicographic order of the
    Unicode code points (Python's order on `str`), whatever the insertion order was. -/
theorem param_order_is_sorted (p : Params) :
    p.norm.unp.Perm p.unp ∧ p.norm.unp.Pairwise (fun a b => a.1 ≤ b.1)
      ∧ p.norm.fixed.Perm p.fixed ∧ p.norm.fixed.Pairwise (fun a b => a.1 ≤ b.1) :=
  ⟨perm_sortByName _, sorted_sortByName _, perm_sortByName _, sorted_sortByName _⟩

/-- the code-point order on the names that distinguish it from "natural" or case-insensitive
    orders: `user10 < user2`, `ant16 < ant4`, `x10 < x9`, `B < a`, `SNR < snr < snr2`,
    digits before `_` before letters -/
theorem param_order_witness :
    (sortByName [("user2", [(1 : Rat)]), ("user10", [2]), ("user1", [3])]).map (·.1) = ["user1", "user10", "user2"]
      ∧ (sortByName [("ant4", (0 : Nat)), ("ant16", 0)]).map (·.1) = ["ant16", "ant4"]
      ∧ (sortByName [("x9", (0 : Nat)), ("x10", 0)]).map (·.1) = ["x10", "x9"]
      ∧ (sortByName [("a", (0 : Nat)), ("B", 0)]).map (·.1) = ["B", "a"]
      ∧ (sortByName [("snr2", (0 : Nat)), ("snr", 0), ("SNR", 0)]).map (·.1) = ["SNR", "snr", "snr2"]
      ∧ (sortByName [("p", (0 : Nat)), ("_p", 0), ("1p", 0)]).map (·.1) = ["1p", "_p", "p"] := by
  decide +kernel

/-- `combine_simulation_parameters`: raises `RuntimeError` unless parameter names, unpacked names
    and fixed values agree; otherwise fixed parameters are kept and every unpacked parameter gets
    the union of the two value lists. -/
theorem combine_params_spec (p1 p2 : Params) :
    (p1.norm.fixed = p2.norm.fixed ∧ p1.norm.unp.map (·.1) = p2.norm.unp.map (·.1) →
        combineParams p1 p2 = .ok ⟨p1.norm.fixed,
          List.zipWith (fun a b => (a.1, union1d a.2 b.2)) p1.norm.unp p2.norm.unp⟩)
      ∧ (¬ (p1.norm.fixed = p2.norm.fixed ∧ p1.norm.unp.map (·.1) = p2.norm.unp.map (·.1)) →
        combineParams p1 p2 = .error .RuntimeError) := by
  unfold combineParams
  generalize p1.norm = q1
  generalize p2.norm = q2
  constructor
  · rintro ⟨h1, h2⟩
    simp [combineParamsSorted, h1, h2]
  · intro h
    unfold combineParamsSorted
    by_cases hn : q1.fixed.map (·.1) ≠ q2.fixed.map (·.1) ∨ q1.unp.map (·.1) ≠ q2.unp.map (·.1)
    · simp [hn]
    · have hn' : q1.fixed.map (·.1) = q2.fixed.map (·.1) ∧ q1.unp.map (·.1) = q2.unp.map (·.1) := by
        constructor
        · exact Classical.byContradiction (fun x => hn (Or.inl x))
        · exact Classical.byContradiction (fun x => hn (Or.inr x))
      have hf : q1.fixed ≠ q2.fixed := fun e => h ⟨e, hn'.2⟩
      simp [hn'.1, hn'.2, hf]

/-- `get_pack_indexes` of a full combination: the index it returns is the position of the
    combination in the enumeration order of `get_unpacked_params_list`; it raises (`ValueError`)
    exactly when the combination is not in the operand's grid. -/
theorem pack_index_spec (vals : List (List Rat)) (c : List Rat) (hlen : c.length = vals.length) :
    (∀ i, packIndex vals c = .ok i → (product vals)[i]? = some c)
      ∧ (∀ e, packIndex vals c = .error e → e = .ValueError ∧ c ∉ product vals) :=
  ⟨fun i h => packIndex_ok vals c i hlen h, fun e h => packIndex_error vals c e hlen h⟩

/-- **Clause "combining result sets … obeys the same law per parameter combination"**
    (structure): a successful `combine_simulation_results` returns a *new* object whose
    parameters are the combined parameters, with the result names of the first operand in
    order, and whose `k`-th result of every name is the cell of the `k`-th combination of the
    union grid: an empty object merged with the first operand's result of that combination if it
    has one, then with the second's (`cellOf`). -/
theorem combine_results_spec (m m' : Mach) (s1 s2 : Nat) (x1 x2 : Sim)
    (h1 : m.sims[s1]? = some x1) (h2 : m.sims[s2]? = some x2) (h : combine m s1 s2 = (m', none)) :
    ∃ p, combineParams x1.params x2.params = .ok p
      ∧ m'.sims.length = m.sims.length + 1
      ∧ (m'.sims[m.sims.length]?).map (·.params) = some p
      ∧ (view m' m.sims.length).map (·.1) = x1.dict.map (·.1)
      ∧ ∀ row ∈ view m' m.sims.length, ∃ l1 l2 a0 tl r0,
          dictGet? x1.dict row.1 = some l1 ∧ dictGet? x2.dict row.1 = some l2
          ∧ listAt m l1 = a0 :: tl ∧ m.res[a0]? = some r0
          ∧ row.2.length = (product (p.unp.map (·.2))).length
          ∧ ∀ (k : Nat) (c : List Rat), (product (p.unp.map (·.2)))[k]? = some c →
              ∃ r : Res, row.2[k]? = some r
                ∧ cellOf m (fresh row.1 r0.ty false r0.counts.length) (listAt m l1) (listAt m l2)
                    (x1.params.norm.unp.map (·.2)) (x2.params.norm.unp.map (·.2)) c = .ok r := by
  obtain ⟨p, rows, hp, hrows, hlen, hpar, hview⟩ := combine_view m m' s1 s2 x1 x2 h1 h2 h
  obtain ⟨hn, hrow⟩ := combineRows_spec m _ _ _ _ _ _ rows hrows
  refine ⟨p, hp, hlen, hpar, by rw [hview]; exact hn, ?_⟩
  intro row hr
  rw [hview] at hr
  obtain ⟨l1, l2, a0, tl, r0, g1, g2, g3, g4, g5⟩ := hrow row hr
  obtain ⟨c1, c2⟩ := combineName_spec m _ _ _ _ _ _ row.2 g5
  exact ⟨l1, l2, a0, tl, r0, g1, g2, g3, g4, c1, c2⟩

/-- **… (content of a cell)**: for a combination present in both operands, in one, or in none,
    the cell is the merge of the operands' results of that combination into an empty object
    (no exception when the results have the operand's name/type/array length). -/
theorem combine_cell_law (m : Mach) (f : Res) (l1 l2 : List Nat) (v1 v2 : List (List Rat))
    (c : List Rat) (hf : f.acc = false) :
    (∀ i1 a1 r1 i2 a2 r2, packIndex v1 c = .ok i1 → l1[i1]? = some a1 → m.res[a1]? = some r1 →
        packIndex v2 c = .ok i2 → l2[i2]? = some a2 → m.res[a2]? = some r2 →
        CompatL f r1 → CompatL f r2 →
        cellOf m f l1 l2 v1 v2 c = .ok (mergeCore (mergeCore f r1) r2))
      ∧ (∀ i1 a1 r1, packIndex v1 c = .ok i1 → l1[i1]? = some a1 → m.res[a1]? = some r1 →
          packIndex v2 c = .error .ValueError → CompatL f r1 →
          cellOf m f l1 l2 v1 v2 c = .ok (mergeCore f r1))
      ∧ (∀ i2 a2 r2, packIndex v1 c = .error .ValueError →
          packIndex v2 c = .ok i2 → l2[i2]? = some a2 → m.res[a2]? = some r2 → CompatL f r2 →
          cellOf m f l1 l2 v1 v2 c = .ok (mergeCore f r2))
      ∧ (packIndex v1 c = .error .ValueError → packIndex v2 c = .error .ValueError →
          cellOf m f l1 l2 v1 v2 c = .ok f) :=
  ⟨fun i1 a1 r1 i2 a2 r2 h1 hl1 hr1 h2 hl2 hr2 hc1 hc2 =>
      cell_both m f r1 r2 l1 l2 v1 v2 c i1 a1 i2 a2 hf h1 hl1 hr1 h2 hl2 hr2 hc1 hc2,
   fun i1 a1 r1 h1 hl1 hr1 h2 hc1 => cell_left m f r1 l1 l2 v1 v2 c i1 a1 h1 hl1 hr1 h2 hc1,
   fun i2 a2 r2 h1 h2 hl2 hr2 hc2 => cell_right m f r2 l1 l2 v1 v2 c i2 a2 h1 h2 hl2 hr2 hc2,
   fun h1 h2 => cell_none m f l1 l2 v1 v2 c h1 h2⟩

/-- **… (the law)**: when the operands' results of a combination are the accumulations of the
    observation sequences `xs₁`, `xs₂` (any accumulation flags), the cell equals the object that
    accumulates `xs₁ ++ xs₂` into one new result — SUM, RATIO, CHOICE; one-operand case alike. -/
theorem combine_cell_is_accumulation (nm : String) (ty : Ty) (acc₁ acc₂ : Bool) (k : Nat)
    (hm : ty ≠ .misc) (xs₁ xs₂ : List Obs) :
    mergeCore (mergeCore (fresh nm ty false k) (foldUpd (fresh nm ty acc₁ k) xs₁))
          (foldUpd (fresh nm ty acc₂ k) xs₂)
        = foldUpd (fresh nm ty false k) (xs₁ ++ xs₂)
      ∧ mergeCore (fresh nm ty false k) (foldUpd (fresh nm ty acc₁ k) xs₁)
        = foldUpd (fresh nm ty false k) xs₁ :=
  ⟨cell_fold_both nm ty acc₁ acc₂ k hm xs₁ xs₂, cell_fold_one nm ty acc₁ k hm xs₁⟩

/-- **Clause "never mutates the operands" for `combine_simulation_results`** (raising or not):
    every Result object, list object and SimulationResults object that existed before the call
    is unchanged — the call only allocates. -/
theorem combine_never_mutates_operands (m : Mach) (s1 s2 : Nat) :
    (∀ a, a < m.res.length → (combine m s1 s2).1.res[a]? = m.res[a]?)
      ∧ (∀ l, l < m.lists.length → (combine m s1 s2).1.lists[l]? = m.lists[l]?)
      ∧ (∀ j, j < m.sims.length → (combine m s1 s2).1.sims[j]? = m.sims[j]?) :=
  combine_frame m s1 s2

/-! ## equivalent entry points and derived objects (R8, R13) -/

/-- **`Result.create` = constructor, then `update`** (every type, accumulation on/off; for CHOICE the
    `total` argument is the number of choices): same object, same exception. -/
theorem create_is_constructor_then_update (nm : String) (ty : Ty) (v t : Rat) (acc : Bool) :
    (ty ≠ .choice → createRes nm ty v t acc = foldUpdM (fresh nm ty acc 0) [⟨v, some t⟩])
      ∧ (∀ k : Nat, t = (k : Rat) → k ≠ 0 →
          createRes nm .choice v t acc = foldUpdM (fresh nm .choice acc k) [⟨v, none⟩]) := by
  constructor
  · intro h
    cases ty
    · simp only [createRes, foldUpdM]
    · simp only [createRes, foldUpdM]
    · simp only [createRes, foldUpdM]
    · exact absurd rfl h
  · intro k hk hk0
    subst hk
    have h0 : ((k : Rat) = 0) = False := by
      simp only [eq_iff_iff, iff_false]; exact_mod_cast hk0
    simp only [createRes, h0, if_false, choiceNumOf, Rat.den_natCast, ne_eq, not_true_eq_false,
      Rat.num_natCast, Int.toNat_natCast, foldUpdM]
    have : ¬ ((k : Int) < 0) := by omega
    simp only [this, if_false]

/-- **`add_new_result` = `add_result(Result.create(...))`**, and the `'num_skipped_reps'` result
    `merge_all_results` creates is `add_new_result(name, SUMTYPE, 0)`. -/
theorem add_new_result_is_create_then_add (m : Mach) (s : Nat) (nm : String) (ty : Ty) (v t : Rat) :
    addNewResult m s nm ty v t
        = (match createRes nm ty v t false with
           | .error e => (m, some e)
           | .ok r => addResult (allocRes m r).1 s (allocRes m r).2)
      ∧ addNewSumZero m s nm = addNewResult m s nm .sum 0 0 := by
  constructor
  · rfl
  · simp [addNewSumZero, addNewResult, createRes, update, fresh]

/-- **a deep copy (or pickle round trip) of a Result is an independent object**: it has the same
    attributes, a new address, and updates of either leave the other unchanged. -/
theorem copy_is_independent (m m1 : Mach) (a a' : Nat) (h : copyRes m a = (m1, some a')) :
    m1.res[a']? = m.res[a]? ∧ a' = m.res.length ∧ a' ≠ a
      ∧ (∀ o, (updR m1 a' o).1.res[a]? = m.res[a]?)
      ∧ (∀ o, (updR m1 a o).1.res[a']? = m.res[a]?) := by
  unfold copyRes at h
  cases hr : m.res[a]? with
  | none => simp [hr] at h
  | some r =>
    simp only [hr, allocRes, Prod.mk.injEq, Option.some.injEq] at h
    obtain ⟨h1, h2⟩ := h
    subst h1 h2
    have halt : a < m.res.length := by
      rcases Nat.lt_or_ge a m.res.length with h | h
      · exact h
      · rw [List.getElem?_eq_none h] at hr; cases hr
    have hne : m.res.length ≠ a := by omega
    refine ⟨by simp, rfl, hne, fun o => ?_, fun o => ?_⟩
    · rw [updR_res_ne _ _ _ (Ne.symm hne)]; simp [List.getElem?_append_left halt, hr]
    · rw [updR_res_ne _ _ _ hne]; simp

/-- **a deep copy (or pickle round trip) of a result set** is a new object (the last one) that
    denotes the same results; every object that existed before is unchanged. -/
theorem copy_of_result_set (m : Mach) (s : Nat) (x : Sim) (hx : m.sims[s]? = some x)
    (hv : ∀ e ∈ x.dict, ValidEntry m e) :
    view (copySim m s) m.sims.length = view m s
      ∧ (∀ a, a < m.res.length → (copySim m s).res[a]? = m.res[a]?)
      ∧ (∀ l, l < m.lists.length → (copySim m s).lists[l]? = m.lists[l]?)
      ∧ (∀ j, j < m.sims.length → (copySim m s).sims[j]? = m.sims[j]?) := by
  have hxd : dictOf m s = x.dict := by simp [dictOf, hx]
  simp only [copySim, hx]
  refine ⟨?_, fun a ha => List.getElem?_append_left ha, fun l hl => List.getElem?_append_left hl,
    fun j hj => List.getElem?_append_left hj⟩
  set olds := dedupNat ((x.dict.flatMap (fun e => listAt m e.2)).filter (· < m.res.length)) with holds
  -- a copied element denotes the same result
  have hcell : ∀ e ∈ x.dict, ∀ a ∈ listAt m e.2,
      (m.res ++ olds.filterMap (fun a => m.res[a]?))[m.res.length + posOf a olds]? = m.res[a]? := by
    intro e he a ha
    have halt : a < m.res.length := (hv e he).2 a ha
    have hmem : a ∈ olds := by
      rw [holds, mem_dedupNat, List.mem_filter]
      exact ⟨List.mem_flatMap.mpr ⟨e, he, ha⟩, by simpa using halt⟩
    rw [List.getElem?_append_right (Nat.le_add_right _ _), Nat.add_sub_cancel_left,
      getElem?_filterMap_of_isSome _ _ (fun b hb => by
        have : b < m.res.length := by
          have := (mem_dedupNat _ b).mp hb
          simpa using (List.mem_filter.mp this).2
        simp [List.getElem?_eq_getElem this]),
      getElem?_posOf hmem]
    rfl
  apply List.ext_getElem?
  intro i
  simp only [view, dictOf, List.getElem?_append_right (Nat.le_refl _), Nat.sub_self, List.getElem?_cons_zero,
    List.getElem?_map, hx]
  cases hi : x.dict[i]? with
  | none =>
    have : x.dict.length ≤ i := by
      rcases Nat.lt_or_ge i x.dict.length with h | h
      · rw [List.getElem?_eq_getElem h] at hi; cases hi
      · exact h
    simp [List.getElem?_zipWith, List.getElem?_eq_none this]
  | some e =>
    have hilt : i < x.dict.length := by
      rcases Nat.lt_or_ge i x.dict.length with h | h
      · exact h
      · rw [List.getElem?_eq_none h] at hi; cases hi
    have he : e ∈ x.dict := List.mem_of_getElem? hi
    simp only [List.getElem?_zipWith, List.getElem?_range hilt, hi, Option.map_some, Option.some.injEq,
      Prod.mk.injEq, true_and]
    simp only [viewList, listAt, List.getElem?_append_right (Nat.le_add_right _ _), Nat.add_sub_cancel_left,
      List.getElem?_map, hi, Option.map_some, List.filterMap_map]
    apply filterMap_congr'
    intro a ha
    have ha' : a ∈ listAt m e.2 := by simpa [listAt] using ha
    exact hcell e he a ha'

/-! ## the insertion order of the result names is not part of the value of a result set -/

/-- a result set whose results were added in another order (`reorderDict`, all names listed)
    answers every lookup by name exactly as before -/
theorem reorder_keeps_lookups (d : Dict) (names : List String) (nm : String) (h : nm ∈ names) :
    dictGet? (reorderDict d names) nm = dictGet? d nm := by
  rw [dictGet?_reorderDict]; simp [h]

/-- **`combine_simulation_results` pairs the operands' results by NAME**: replacing either
    operand by one that answers the same lookups (e.g. the same results added in another order)
    yields exactly the same new results for every name and combination. -/
theorem combine_pairs_results_by_name (m : Mach) (d1 d1' d2 d2' : Dict) (v1 v2 combos : List (List Rat))
    (names : List String) (h1 : ∀ k, dictGet? d1' k = dictGet? d1 k) (h2 : ∀ k, dictGet? d2' k = dictGet? d2 k) :
    combineRows m d1' d2' v1 v2 combos names = combineRows m d1 d2 v1 v2 combos names :=
  combineRows_congr h1 h2 m v1 v2 combos names

/-- **`merge_all_results` finds the results of `other` by NAME**: the validation pass and the merge
    loop are the same for every `other` that answers the same lookups. -/
theorem merge_all_pairs_results_by_name (m : Mach) (ds od od' : Dict) (names : List String)
    (h : ∀ k, dictGet? od' k = dictGet? od k) :
    checkNames ds od' m names = checkNames ds od m names
      ∧ mergeNames ds od' m names = mergeNames ds od m names :=
  ⟨checkNames_congr h m names, mergeNames_congr h m names⟩

/-- two operands holding the same-typed results `a`, `b`, added in opposite orders: the
    combination merges `a` with `a` and `b` with `b` (a positional pairing would raise, or under
    `python -O` silently merge `a` with `b`), gives the same results as with operand 2 in the
    order of operand 1, and `merge_all_results` likewise -/
theorem result_order_witness :
    let r := fun (nm : String) (v : Rat) => foldUpd (fresh nm .sum false 0) [⟨v, none⟩]
    let m : Mach :=
      { res := [r "a" 1, r "b" 2, r "b" 30, r "a" 40], lists := [[0], [1], [2], [3]],
        sims := [⟨[("a", 0), ("b", 1)], ⟨[], []⟩⟩, ⟨[("b", 2), ("a", 3)], ⟨[], []⟩⟩] }
    (combine m 0 1).2 = none
      ∧ view (combine m 0 1).1 2
          = [("a", [foldUpd (fresh "a" .sum false 0) [⟨1, none⟩, ⟨40, none⟩]]),
             ("b", [foldUpd (fresh "b" .sum false 0) [⟨2, none⟩, ⟨30, none⟩]])]
      ∧ view (combine (reorderSim m 1 ["a", "b"]) 0 1).1 2 = view (combine m 0 1).1 2
      ∧ (mergeAll m 0 1).2 = none
      ∧ view (mergeAll m 0 1).1 0
          = [("a", [foldUpd (fresh "a" .sum false 0) [⟨1, none⟩, ⟨40, none⟩]]),
             ("b", [foldUpd (fresh "b" .sum false 0) [⟨2, none⟩, ⟨30, none⟩]])]
      ∧ view (mergeAll (reorderSim m 1 ["a", "b"]) 0 1).1 0 = view (mergeAll m 0 1).1 0 := by
  decide +kernel

/-! ## non-vacuity: the hypotheses above are satisfiable by non-trivial values -/

/-- a RATIO sequence with accumulation, split in three chunks (one empty), two groupings -/
example :
    let f := fresh "ber" .ratio true 0
    let xs : List Obs := [⟨3, some 4⟩, ⟨1, some 2⟩, ⟨-5, some 8⟩]
    (∀ o ∈ xs, validObs f o)
      ∧ evalTree f (.node (.leaf [⟨3, some 4⟩]) (.node (.leaf []) (.leaf [⟨1, some 2⟩, ⟨-5, some 8⟩])))
          = .ok (foldUpd f xs)
      ∧ (foldUpd f xs).value = -1 ∧ (foldUpd f xs).total = 14 ∧ (foldUpd f xs).n = 3 := by
  decide +kernel

/-- a CHOICE sequence (with a negative index) is valid -/
example : ∀ o ∈ ([⟨1, none⟩, ⟨-1, none⟩, ⟨3, none⟩] : List Obs), validObs (fresh "c" .choice false 4) o := by
  decide +kernel

/-- `Watch` holds on a concrete machine with two populated, unrelated objects; `Compat` too -/
example : Watch aliasWitness 1 2 ∧ Watch aliasWitness 0 1 :=
  ⟨⟨by decide, by unfold WfS; decide +kernel, by unfold WfS; decide +kernel, by decide +kernel⟩,
   ⟨by decide, by unfold WfS; decide +kernel, by unfold WfS; decide +kernel, by decide +kernel⟩⟩

/-- the hypotheses of `merge_all_pointwise` hold for `b.merge_all_results(c)` on that machine -/
example :
    let m := aliasWitness
    dictOf m 1 ≠ [] ∧ ((dictOf m 1).map (·.1)).Nodup ∧ nsr ∉ (dictOf m 1).map (·.1)
      ∧ lastOf m (dictOf m 1) "x" = .ok 0 ∧ lastOf m (dictOf m 2) "x" = .ok 1
      ∧ (mergeAll m 1 2).2 = none
      ∧ view (mergeAll m 1 2).1 1 = [("x", [foldUpd (fresh "x" .sum false 0) [⟨3, none⟩, ⟨5, none⟩]])] := by
  decide +kernel

/-- `combine_simulation_results` succeeds on two result sets over the grids `p ∈ {1,2}` and
    `p ∈ {2,3}` and yields, for `p = 1,2,3`, the accumulations of `[1]`, `[2,3]`, `[4]` -/
example :
    let r := fun (v : Rat) => foldUpd (fresh "x" .sum true 0) [⟨v, none⟩]
    let m : Mach :=
      { res := [r 1, r 2, r 3, r 4], lists := [[0, 1], [2, 3]],
        sims := [⟨[("x", 0)], ⟨[("f", 3)], [("p", [1, 2])]⟩⟩, ⟨[("x", 1)], ⟨[("f", 3)], [("p", [2, 3])]⟩⟩] }
    (combine m 0 1).2 = none
      ∧ view (combine m 0 1).1 2
          = [("x", [foldUpd (fresh "x" .sum false 0) [⟨1, none⟩],
                    foldUpd (fresh "x" .sum false 0) [⟨2, none⟩, ⟨3, none⟩],
                    foldUpd (fresh "x" .sum false 0) [⟨4, none⟩]])]
      ∧ (((combine m 0 1).1.sims[2]?).map (·.params) = some ⟨[("f", 3)], [("p", [1, 2, 3])]⟩)
      ∧ view (combine m 0 1).1 0 = view m 0 ∧ view (combine m 0 1).1 1 = view m 1 := by
  decide +kernel

/-- `SeqOK` is satisfiable: `b.merge_all_results(c)` on the three-object machine -/
example : SeqOK aliasWitness 1 [2] (fun _ => 0) (fun _ _ => 1) :=
  { hs := by decide, hne := by decide +kernel, hnd := by decide +kernel, hnsr := by decide +kernel,
    hA := by decide +kernel, hinj := fun _ _ _ _ _ => by simp_all [aliasWitness, dictOf],
    ho := by decide +kernel, hB := by decide +kernel, hsep := by decide +kernel,
    hc := fun nm _ => ⟨_, rfl, fun o ho => by
      simp at ho; subst ho
      exact ⟨_, rfl, ⟨rfl, rfl, rfl, rfl⟩⟩⟩ }

/-! ## Tie by regeneration: the functions re-emitted from `results.py` are the hand model

`PyPhysim.Generated.C06` (module `Generated/C06Result.lean`) is rewritten from the current source
on every run; the theorems below are therefore re-checked against what the code says now.  A
semantic edit of `Result.update / _assert_can_merge / merge / get_result / get_result_mean /
get_result_var` either leaves the translated fragment (tie broken) or makes one of them fail. -/

/-- **Tie (regeneration), `Result.update`**: for EVERY record and EVERY observation the function
    re-emitted from the source (`possible_updates` dispatch, the four per-type update functions,
    `num_updates += 1` last, nothing stored before a `raise`) returns the same object and the same
    exception as the hand model `update`, about which the property theorems are stated. -/
theorem generated_update_matches_model (r : Res) (o : Obs) :
    Generated.C06.update r o = update r o :=
  Gen.update_eq r o

/-- the same as an equation between functions: every theorem of this file about `update`,
    `foldUpd`, `foldUpdM`, `evalTree` is a theorem about the regenerated `Result.update` -/
theorem generated_update_is_model : Generated.C06.update = update :=
  funext fun r => funext fun o => Gen.update_eq r o

/-- **Tie (regeneration), `Result._assert_can_merge` + `Result.merge`**: for every two records that
    represent Python `Result` objects (`OneValue`: the attribute `_value` is either a number or, for
    CHOICE, an array — established by the constructor and kept by `update` / `merge`, see
    `one_value_invariant`) the re-emitted `merge` (all assertions first; list extension under
    `accumulate_values_bool`; MISC replaces, the other types add) returns the same object and the
    same exception as the hand model `merge`.  `other` is an object different from `self`. -/
theorem generated_merge_matches_model (a b : Res) (ha : OneValue a) (hb : OneValue b) :
    Generated.C06.merge a b = merge a b :=
  Gen.merge_eq a b ha hb

/-- the hypothesis of `generated_merge_matches_model` is an invariant of every reachable object:
    it holds for `Result(name, type, accumulate, choice_num)` and is kept by every `update` and
    `merge` call, raising or not -/
theorem one_value_invariant :
    (∀ nm ty acc k, OneValue (fresh nm ty acc k))
      ∧ (∀ nm ty acc cn r, mkRes nm ty acc cn = .ok r → OneValue r)
      ∧ (∀ r o, OneValue r → OneValue (update r o).1)
      ∧ (∀ a b, OneValue a → OneValue b → OneValue (merge a b).1) :=
  ⟨oneValue_fresh, fun _ _ _ _ _ h => oneValue_mkRes h, fun _ o h => oneValue_update o h,
   fun _ _ ha hb => oneValue_merge ha hb⟩

/-- `OneValue` is satisfiable by non-trivial objects of both kinds (a RATIO result after one
    update, a CHOICE result with three choices after one update), and the regenerated `merge`
    of two such objects succeeds -/
example :
    let r := (update (fresh "x" .ratio true 0) ⟨3, some 4⟩).1
    let c := (update (fresh "c" .choice false 3) ⟨2, none⟩).1
    OneValue r ∧ OneValue c ∧ r.value = 3 ∧ c.counts = [0, 0, 1]
      ∧ (Generated.C06.merge r r).2 = none ∧ (Generated.C06.merge r r).1.value = 6
      ∧ (Generated.C06.merge c c).1.counts = [0, 0, 2] := by
  decide +kernel

/-- **Tie (regeneration), observers**: `get_result` (incl. "Nothing yet", `value / total` for RATIO
    and CHOICE), `get_result_mean`, `get_result_var` as re-emitted from the source equal the hand
    model's `getResult`, `getMean`, `getVar` for EVERY record (`get_confidence_interval` calls
    scipy and is not translated). -/
theorem generated_getters_match_model (r : Res) :
    Generated.C06.getResult r = getResult r
      ∧ Generated.C06.getMean r = getMean r
      ∧ Generated.C06.getVar r = getVar r :=
  ⟨Gen.getResult_eq r, Gen.getMean_eq r, Gen.getVar_eq r⟩

/-- the integer type codes read from the class body (`Result.SUMTYPE … CHOICETYPE`) are the ones
    the line protocol of the correspondence check uses (`0 1 2 3`), and `update` converts `value` and
    `total` (numpy scalars / 0-d arrays) to Python numbers before they reach arithmetic, an attribute
    or a list -/
theorem generated_type_codes_and_conversion :
    Generated.C06.tyCode .sum = 0 ∧ Generated.C06.tyCode .ratio = 1 ∧ Generated.C06.tyCode .misc = 2
      ∧ Generated.C06.tyCode .choice = 3 ∧ Generated.C06.updateConvertsNumpy = true := by
  decide

/-- **Tie (regeneration), `SimulationResults.add_result / append_result / add_new_result`**: the
    functions re-emitted from the source (which list object is created or extended under which
    name, `ValueError` for a result of another type, `add_new_result` = `Result.create` +
    `add_result`) equal the hand model on EVERY machine, for every address and argument. -/
theorem generated_add_append_match_model (m : Mach) (s a : Nat) (name : String) (ty : Ty) (v t : Rat) :
    Generated.C06Sim.addResult m s a = addResult m s a
      ∧ Generated.C06Sim.appendResult m s a = appendResult m s a
      ∧ Generated.C06Sim.addNewResult m s name ty v t = addNewResult m s name ty v t :=
  ⟨GenSim.addResult_eq m s a, GenSim.appendResult_eq m s a, GenSim.addNewResult_eq m s name ty v t⟩

/-- **Tie (regeneration), `SimulationResults.merge_all_results`**: the control structure
    re-emitted from the source — an empty `self` adopts deep copies of every list of `other`
    (name by name, in `other`'s order); otherwise `_assert_can_merge` of the last results of every
    name of `self` except `'num_skipped_reps'`, then of `'num_skipped_reps'` (against a new SUM
    result when `self` has none) **before anything is changed**, then `merge` of the last results
    name by name, then the `'num_skipped_reps'` tail (created with `add_new_result(…, SUMTYPE, 0)`
    when absent) — computes the same machine and the same exception as the hand model `mergeAll`,
    for every machine in which `other`'s dictionary has no key twice (a Python `dict`).  So
    `merge_all_frame`, `merge_never_mutates_operand`, `merge_all_pointwise`,
    `merge_all_rejected_unchanged` … are theorems about the regenerated function. -/
theorem generated_merge_all_matches_model (m : Mach) (s o : Nat)
    (hnd : ((dictOf m o).map (·.1)).Nodup) :
    Generated.C06Sim.mergeAll m s o = mergeAll m s o :=
  GenSim.mergeAll_eq m s o hnd

/-- the hypothesis of `generated_merge_all_matches_model` holds on the three-object witness
    machine, and the regenerated function there does what the hand model does: it merges `c`
    into `b` without raising -/
example :
    ((dictOf aliasWitness 2).map (·.1)).Nodup
      ∧ (Generated.C06Sim.mergeAll aliasWitness 1 2).2 = none
      ∧ Generated.C06Sim.mergeAll aliasWitness 1 2 = mergeAll aliasWitness 1 2 := by
  decide +kernel


/-! ## R15 — distinct values that are merely close; R16 — argument identity and buffer reuse -/

/-- **R15, `setter_takes_effect_for_every_new_value`** (MISC, "the last observation wins"): whatever the
    object held before, after `update(v)` the value IS `v`, `get_result()` returns `v`, the call is counted
    and never raises — in particular a new value different from the old one replaces it however close the
    two are (values are exact rationals: there is no tolerance in the model). -/
theorem setter_takes_effect_for_every_new_value (r : Res) (o : Obs) (h : r.ty = .misc) :
    (update r o).2 = none ∧ (update r o).1.value = o.v ∧ (update r o).1.n = r.n + 1
      ∧ getResult (update r o).1 = .ok (.num o.v)
      ∧ (update r o).1.vlist = (if r.acc then r.vlist ++ [o.v] else r.vlist)
      ∧ (o.v ≠ r.value → (update r o).1.value ≠ r.value) := by
  simp [update, h, getResult]

/-- **R15, equality is exact**: `==` of two non-CHOICE results holds iff every compared attribute is
    *equal* (no closeness); hence two SUM or MISC objects with the same past that received two different
    observations `v ≠ w` never compare equal, whatever `|v - w|` is. -/
theorem eq_is_exact (a b : Res) (ha : a.ty ≠ .choice) (hb : b.ty ≠ .choice) :
    (eqPy a b = .ok true ↔
      (a.name = b.name ∧ a.ty = b.ty ∧ a.total = b.total ∧ a.acc = b.acc ∧ a.vlist = b.vlist
        ∧ a.tlist = b.tlist ∧ a.rsq = b.rsq ∧ a.rsum = b.rsum ∧ a.value = b.value))
      ∧ (eqPy a b = .ok true ∨ eqPy a b = .ok false) := by
  refine ⟨eqPy_true_iff a b ha hb, ?_⟩
  obtain ⟨x, hx⟩ := eqPy_total a b hb
  cases x <;> simp [hx]

theorem close_observations_compare_unequal (r : Res) (v w : Rat) (t t' : Option Rat)
    (h : r.ty = .sum ∨ r.ty = .misc) (hvw : v ≠ w) :
    eqPy (update r ⟨v, t⟩).1 (update r ⟨w, t'⟩).1 = .ok false := by
  have hty : ∀ o, (update r o).1.ty = r.ty := by
    intro o; rcases h with h | h <;> simp [update, h]
  have hc : ∀ o, (update r o).1.ty ≠ .choice := by
    intro o; rw [hty]; rcases h with h | h <;> simp [h]
  rcases (eq_is_exact _ _ (hc ⟨v, t⟩) (hc ⟨w, t'⟩)).2 with ht | hf
  · have := ((eqPy_true_iff _ _ (hc ⟨v, t⟩) (hc ⟨w, t'⟩)).mp ht).2.2.2.2.2.2.2.2
    rcases h with h | h <;> simp [update, h] at this <;> exact absurd this hvw
  · exact hf

/-- the neighbouring doubles 0.3 / 0.30000000000000004 and the noise powers 4·10⁻¹² / 4·10⁻¹³ as
    observations of a MISC and a SUM result: stored exactly, compared unequal -/
theorem close_observations_witness :
    (update (fresh "x" .misc false 0) ⟨5404319552844595/18014398509481984, none⟩).1.value
        ≠ (update (fresh "x" .misc false 0) ⟨5404319552844596/18014398509481984, none⟩).1.value
      ∧ eqPy (update (fresh "x" .sum false 0) ⟨4/1000000000000, none⟩).1
             (update (fresh "x" .sum false 0) ⟨4/10000000000000, none⟩).1 = .ok false
      ∧ (update (update (fresh "x" .misc true 0) ⟨4/1000000000000, none⟩).1 ⟨4/10000000000000, none⟩).1.value
          = 4/10000000000000 := by
  decide +kernel

/-- **R15, `lookup_exact`**: `list(values).index(x)` (the look-up inside `get_pack_indexes`) returns `i`
    iff `values[i]` IS `x` and no earlier element is; it fails (`ValueError`: "no result for this
    combination") iff `x` is not an element — the other elements of the grid, however close to `x`, play
    no role. -/
theorem lookup_exact (x : Rat) (vals : List Rat) :
    (∀ i, indexOf? x vals = some i ↔ vals[i]? = some x ∧ ∀ j, j < i → vals[j]? ≠ some x)
      ∧ (indexOf? x vals = none ↔ x ∉ vals) :=
  ⟨indexOf?_eq_some_iff x vals, indexOf?_eq_none_iff x vals⟩

/-- **R16, the result of a merge depends on the contents at call time, not on which object holds them**:
    merging an operand at address `b` or an equal-content object at another address `b'` gives the same
    machine; the receiver becomes `merge ra rb` of the two records read at the call. -/
theorem merge_depends_on_contents_only (m : Mach) (a b b' : Nat) (h : m.res[b]? = m.res[b']?) :
    mergeR m a b = mergeR m a b' := by
  unfold mergeR; rw [h]

/-- **R16, one operand object refilled between two merges**: `a.merge(b); b.update(o); a.merge(b)` with
    `a ≠ b` — the refill does not reach back into the receiver (the first merge kept no reference to the
    operand), and the second merge reads the operand's NEW contents. -/
theorem operand_refilled_between_merges (m : Mach) (a b : Nat) (ra rb : Res) (o : Obs) (hab : a ≠ b)
    (ha : m.res[a]? = some ra) (hb : m.res[b]? = some rb) :
    let m1 := (mergeR m a b).1
    let m2 := (updR m1 b o).1
    m2.res[a]? = some (merge ra rb).1
      ∧ m2.res[b]? = some (update rb o).1
      ∧ (mergeR m2 a b).1.res[a]? = some (merge (merge ra rb).1 (update rb o).1).1
      ∧ (mergeR m2 a b).1.res[b]? = some (update rb o).1 := by
  intro m1 m2
  have h1a : m1.res[a]? = some (merge ra rb).1 := (mergeR_spec ha hb).1
  have h1b : m1.res[b]? = some rb := by
    rw [show m1.res[b]? = m.res[b]? from mergeR_res_ne m a b (Ne.symm hab)]; exact hb
  have h2a : m2.res[a]? = some (merge ra rb).1 := by
    rw [show m2.res[a]? = m1.res[a]? from updR_res_ne m1 b o hab]; exact h1a
  have h2b : m2.res[b]? = some (update rb o).1 := updR_spec o h1b
  refine ⟨h2a, h2b, (mergeR_spec h2a h2b).1, ?_⟩
  rw [mergeR_res_ne m2 a b (Ne.symm hab)]; exact h2b

/-- **R16, the same object in both roles**: `a.merge(a)` never raises and doubles every sufficient
    statistic (SUM, RATIO, CHOICE; the value lists are appended to themselves when accumulating). -/
theorem self_merge_doubles (a : Res) (hm : a.ty ≠ .misc) :
    (merge a a).2 = none ∧ (merge a a).1.n = a.n + a.n ∧ (merge a a).1.value = a.value + a.value
      ∧ (merge a a).1.total = a.total + a.total ∧ (merge a a).1.rsum = a.rsum + a.rsum
      ∧ (merge a a).1.rsq = a.rsq + a.rsq
      ∧ (merge a a).1.counts = List.zipWith (· + ·) a.counts a.counts
      ∧ (merge a a).1.vlist = (if a.acc then a.vlist ++ a.vlist else a.vlist) := by
  rw [merge_ok (Compat.refl a)]
  cases hty : a.ty <;> cases hacc : a.acc <;> simp_all [mergeCore, extendLists]

/-- the hypotheses of `close_observations_compare_unequal` and `operand_refilled_between_merges` are
    satisfiable: a SUM object; a heap with a receiver at address 0 and an operand at address 1 -/
example :
    ((fresh "x" .sum false 0).ty = .sum ∨ (fresh "x" .sum false 0).ty = .misc)
      ∧ (0 : Nat) ≠ 1
      ∧ (⟨[fresh "x" .sum true 0, (update (fresh "x" .sum true 0) ⟨3, none⟩).1], [], []⟩ : Mach).res[0]?
          = some (fresh "x" .sum true 0)
      ∧ (⟨[fresh "x" .sum true 0, (update (fresh "x" .sum true 0) ⟨3, none⟩).1], [], []⟩ : Mach).res[1]?
          = some (update (fresh "x" .sum true 0) ⟨3, none⟩).1 := by
  decide +kernel

end PyPhysim.C06
