import PyPhysim.Model.C06
import PyPhysim.Model.C06Heap

namespace PyPhysim.C06
open PyPhysim.C06M PyPhysim.Proto

/-- placeholder while the harness is brought up -/
theorem stub_update_counts (r : Res) (o : Obs) : (update r o).1.n = r.n + 1 := by
  unfold update
  cases r.ty <;> simp <;> (try split) <;> (try split) <;> simp
  all_goals (try split) <;> simp

end PyPhysim.C06
