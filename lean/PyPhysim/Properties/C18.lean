import PyPhysim.Proofs.C18OccMulti
import PyPhysim.Proofs.C18Reshape
import PyPhysim.Proofs.C18Cell
import PyPhysim.Proofs.C18Ops
import PyPhysim.Proofs.C18Ls
import PyPhysim.Proofs.C18Prime
import PyPhysim.Proofs.C18Seq
import PyPhysim.Proofs.C18Close
import PyPhysim.Proofs.C18Buf
import PyPhysim.Proofs.C18Gen
import PyPhysim.Generated.PrimeTable
import PyPhysim.Generated.C18RootTables

/-!
# C18 — reference sequences are CAZAC; pilot-based channel estimation is exact

Property theorems only.  Models: `PyPhysim/Model/C18.lean` (hand model of
`zadoffchu.py`, `root_sequence.py`, `srs.py`, `dmrs.py`,
`reference_signals/channel_estimation.py`, `channel_estimation/estimators.py`,
tied by the correspondence of `harness/props/c18.py`);
`PyPhysim.Generated.smallPrimeList`, `rootTable1/2` are **regenerated from the
current source** on every run.

Scalars: all numeric theorems are stated over `ℂ` with `cis q = exp(2πi·q)` and
complex conjugation (`PyPhysim.C18P.instCisOpsComplex`); they are proved for
every field satisfying `CisLaws`.  `np.fft.fft/ifft` are their defining sums
(`fftPad`, `ifftN`); `np.linalg.norm` / `np.linalg.inv` enter as parameters
(`nu`, `inv`) with the stated contract.
-/
namespace PyPhysim.C18
open PyPhysim.Cazac PyPhysim.Proto PyPhysim.C18P
open PyPhysim.Generated (smallPrimeList rootTable1 rootTable2)

/-! ## Base length: the largest prime not exceeding the size -/

/-- The entries `≤ 1200` of the table in the *current source* are exactly the
    primes `≤ 1200`, in ascending order (whole-table kernel computation). -/
theorem prime_table_sieve :
    smallPrimeList.filter (fun p => decide (p ≤ 1200)) = primesUpTo 36 1200 := by
  decide +kernel

/-- Clause "its base length is the largest prime not exceeding the requested
    size": for **every** size `2 … 1200` (so 12, 24 and 25…1200) the lookup
    succeeds and returns a prime `p ≤ s` such that no prime lies in `(p, s]`. -/
theorem prime_lookup_correct (s : ℕ) (h2 : 2 ≤ s) (hs : s ≤ 1200) :
    ∃ p, primeLookup smallPrimeList s = .ok p ∧ Nat.Prime p ∧ p ≤ s ∧
      ∀ q, Nat.Prime q → q ≤ s → q ≤ p :=
  lookup_spec smallPrimeList 36 1200 (by decide) prime_table_sieve s h2 hs

/-- Sizes below 2 have no prime: the code raises `IndexError` (guard of the clause above). -/
theorem prime_lookup_rejects (s : ℕ) (hs : s < 2) :
    primeLookup smallPrimeList s = .error .IndexError := by
  have : s = 0 ∨ s = 1 := by omega
  rcases this with rfl | rfl <;> decide +kernel

/-- `RootSequence(u, size=s)` for every size `25 … 1200` and every root index:
    `Nzc` is the largest prime `p ≤ s`; for `u < p` the object has `Nzc = p`,
    `size = s` and its sequence is the Zadoff–Chu sequence of length `p`
    **repeated cyclically** (`seq[i] = zc[i mod p]`). -/
theorem root_sequence_zc (s u : ℕ) (h25 : 25 ≤ s) (hs : s ≤ 1200) :
    ∃ p, Nat.Prime p ∧ p ≤ s ∧ (∀ q, Nat.Prime q → q ≤ s → q ≤ p) ∧
      (u < p → ∃ r, rootSequence smallPrimeList rootTable1 rootTable2 u (some s) none = .ok r ∧
        r.nzc = p ∧ r.size = s ∧ (∀ i, i < s → r.seqArray[i]? = some (zcPhase p u (i % p))) ∧
        r.base = zcPhases p u) := by
  obtain ⟨p, hp, hprime, hps, hmax⟩ := prime_lookup_correct s (by omega) hs
  exact ⟨p, hprime, hps, hmax, fun hu =>
    rootSequence_zc smallPrimeList rootTable1 rootTable2 u s p (by omega) hp hps hu⟩

/-- …and a root index that is not below the base length is rejected
    (`assert u < Nzc` in `calcBaseZC`): the guard of the clause above. -/
theorem root_sequence_index_guard (s u : ℕ) (h25 : 25 ≤ s) (hs : s ≤ 1200) :
    ∃ p, primeLookup smallPrimeList s = .ok p ∧
      (¬ u < p → rootSequence smallPrimeList rootTable1 rootTable2 u (some s) none
        = .error .AssertionError) := by
  obtain ⟨p, hp, _, hps, _⟩ := prime_lookup_correct s (by omega) hs
  exact ⟨p, hp, fun hu =>
    rootSequence_index_guard smallPrimeList rootTable1 rootTable2 u s p (by omega) hp hps hu⟩

/-- Before the repair the table of the source stopped at 1009: on that
    truncated table the selection is wrong (1009 for size 1200, although 1193
    is prime) — why `prime_lookup_correct` is a theorem about the *current* table. -/
theorem truncated_table_wrong :
    primeLookup (smallPrimeList.filter (fun p => decide (p ≤ 1009))) 1200 = .ok 1009 ∧
      Nat.Prime 1193 ∧ 1009 < 1193 ∧ 1193 ≤ 1200 :=
  ⟨by decide +kernel, (isPrimeB_iff 36 1193 (by decide)).mp (by decide +kernel), by decide, by decide⟩

/-- Sizes 12 and 24 use the QPSK phase tables of the source (30 rows each);
    the object has exactly the requested size and no extension. -/
theorem root_sequence_tables (u : ℕ) (hu : u < 30) :
    (∃ row, rootTable1[u]? = some row ∧ row.length = 12 ∧
      rootSequence smallPrimeList rootTable1 rootTable2 u (some 12) none = .ok ⟨u, tablePhases row, none⟩) ∧
    (∃ row, rootTable2[u]? = some row ∧ row.length = 24 ∧
      rootSequence smallPrimeList rootTable1 rootTable2 u (some 24) none = .ok ⟨u, tablePhases row, none⟩) := by
  have h1 : rootTable1.length = 30 := by rfl
  have h2 : rootTable2.length = 30 := by rfl
  have hl1 : ∀ row ∈ rootTable1, row.length = 12 := by decide
  have hl2 : ∀ row ∈ rootTable2, row.length = 24 := by decide
  have hp1 : primeLookup smallPrimeList 12 = .ok 11 := by decide +kernel
  have hp2 : primeLookup smallPrimeList 24 = .ok 23 := by decide +kernel
  have hg1 : rootTable1[u]? = some (rootTable1[u]'(by omega)) := List.getElem?_eq_getElem (by omega)
  have hg2 : rootTable2[u]? = some (rootTable2[u]'(by omega)) := List.getElem?_eq_getElem (by omega)
  refine ⟨⟨_, hg1, hl1 _ (List.getElem_mem _), ?_⟩, ⟨_, hg2, hl2 _ (List.getElem_mem _), ?_⟩⟩
  · exact rootSequence_table smallPrimeList rootTable1 rootTable2 u 12 11 (Or.inl rfl) hp1 (by omega) _
      (by simp [hg1])
  · exact rootSequence_table smallPrimeList rootTable1 rootTable2 u 24 23 (Or.inr rfl) hp2 (by omega) _
      (by simp [hg2])

/-! ## Cyclic extension -/

/-- Clause "extension repeats it cyclically": `get_extended_ZF(root, size)`
    (both branches of the code) has length `size` and element `i` is
    `root[i mod len]`, for every non-empty root and every `size ≥ len`. -/
theorem extension_cyclic {β : Type} (root : List β) (size : ℕ) (hn : 0 < root.length)
    (hs : root.length ≤ size) :
    ∃ l, extendedZF root size = .ok l ∧ l.length = size ∧
      ∀ i, i < size → l[i]? = root[i % root.length]? :=
  extendedZF_spec root size hn hs

/-! ## CAZAC -/

/-- Clause "constant unit amplitude": every element of every sequence given by
    phases (Zadoff–Chu, its extension, the tables, any cyclic shift) has modulus 1. -/
theorem unit_amplitude (ph : List ℚ) : ∀ v ∈ (seqValues ph : List ℂ), ‖v‖ = 1 := fun v hv =>
  norm_one_of_mul_conj v (seqValues_unit cisLaws_complex ph v hv)

/-- The Zadoff–Chu sequence of odd length `N` is `N`-periodic in its index
    (what makes the cyclic lag well defined). -/
theorem zc_periodic (N u m : ℕ) (hodd : N % 2 = 1) :
    (CisOps.cis (zcPhase N u (m % N)) : ℂ) = CisOps.cis (zcPhase N u m) :=
  zc_mod cisLaws_complex N u hodd m

/-- Clause "zero cyclic autocorrelation at all non-zero lags": for odd `N`,
    `gcd(u, N) = 1` and every lag `τ` that is not a multiple of `N`,
    `Σ_n a[(n+τ) mod N]·conj(a[n]) = 0` for `a = calcBaseZC(N, u)`. -/
theorem zc_zero_autocorrelation (N u τ : ℕ) (hodd : N % 2 = 1) (hcop : Nat.Coprime u N)
    (hτ : ¬ N ∣ τ) :
    ∑ n ∈ Finset.range N, (seqValues (zcPhases N u) : List ℂ).getD ((n + τ) % N) 0
        * (starRingEnd ℂ) ((seqValues (zcPhases N u) : List ℂ).getD n 0) = 0 :=
  zc_autocorr_list cisLaws_complex N u τ hodd hcop hτ

/-- …in particular for every odd prime length and every root index `0 < u < N`
    (the sequences `RootSequence` builds for sizes `25…1200`), at every lag `0 < τ < N`. -/
theorem zc_zero_autocorrelation_prime (N u τ : ℕ) (hp : Nat.Prime N) (h2 : N ≠ 2)
    (hu0 : 0 < u) (hu : u < N) (hτ0 : 0 < τ) (hτ : τ < N) :
    ∑ n ∈ Finset.range N, (seqValues (zcPhases N u) : List ℂ).getD ((n + τ) % N) 0
        * (starRingEnd ℂ) ((seqValues (zcPhases N u) : List ℂ).getD n 0) = 0 := by
  apply zc_zero_autocorrelation N u τ
  · rcases hp.eq_two_or_odd with h | h
    · exact absurd h h2
    · exact h
  · exact (Nat.coprime_of_lt_prime (Nat.ne_of_gt hu0) hu hp).symm
  · intro hd
    have := Nat.le_of_dvd hτ0 hd
    omega

/-- The guard `gcd(u, N) = 1` is needed: root index 0 passes the code's
    `assert u < Nzc` but yields the all-ones sequence, whose autocorrelation is
    `N` at every lag (outside the property: LTE root indexes are `1 … N-1`). -/
theorem zc_root_zero_not_cazac (N τ : ℕ) (hN : 0 < N) :
    ∑ n ∈ Finset.range N, (seqValues (zcPhases N 0) : List ℂ).getD ((n + τ) % N) 0
        * (starRingEnd ℂ) ((seqValues (zcPhases N 0) : List ℂ).getD n 0) = (N : ℂ) :=
  zc_root0_autocorr cisLaws_complex N τ hN

/-- Clause "flat spectrum": every DFT coefficient of the Zadoff–Chu sequence
    has squared modulus `N`. -/
theorem zc_flat_spectrum (N u : ℕ) (hodd : N % 2 = 1) (hcop : Nat.Coprime u N) :
    ∀ v ∈ fftPad (seqValues (zcPhases N u) : List ℂ) N, ‖v‖ ^ 2 = (N : ℝ) := fun v hv =>
  norm_sq_of_mul_conj v N (by exact_mod_cast zc_flat_list cisLaws_complex N u hodd hcop v hv)

/-- All CAZAC clauses for the objects the code builds: for every size `25…1200`
    and every root index `0 < u < Nzc`, `RootSequence(u, size)` succeeds, its base
    sequence is the Zadoff–Chu sequence of prime length `Nzc`, every element of
    the (extended) sequence has unit modulus, the base sequence has zero cyclic
    autocorrelation at every lag `0 < τ < Nzc` and a flat spectrum. -/
theorem root_sequence_cazac (s u : ℕ) (h25 : 25 ≤ s) (hs : s ≤ 1200) (hu0 : 0 < u) :
    ∃ p, Nat.Prime p ∧ (u < p →
      ∃ r, rootSequence smallPrimeList rootTable1 rootTable2 u (some s) none = .ok r ∧ r.nzc = p ∧
        (∀ v ∈ (seqValues r.seqArray : List ℂ), ‖v‖ = 1) ∧
        (∀ τ, 0 < τ → τ < p →
          ∑ n ∈ Finset.range p, (seqValues r.base : List ℂ).getD ((n + τ) % p) 0
            * (starRingEnd ℂ) ((seqValues r.base : List ℂ).getD n 0) = 0) ∧
        (∀ v ∈ fftPad (seqValues r.base : List ℂ) p, ‖v‖ ^ 2 = (p : ℝ))) := by
  obtain ⟨p, hprime, hps, hmax, hroot⟩ := root_sequence_zc s u h25 hs
  have h23 : 23 ≤ p := hmax 23 ((isPrimeB_iff 36 23 (by decide)).mp (by decide)) (by omega)
  refine ⟨p, hprime, fun hu => ?_⟩
  obtain ⟨r, hr, hnzc, _, _, hbase⟩ := hroot hu
  have hodd : p % 2 = 1 := by
    rcases hprime.eq_two_or_odd with h | h
    · omega
    · exact h
  have hcop : Nat.Coprime u p := (Nat.coprime_of_lt_prime (Nat.ne_of_gt hu0) hu hprime).symm
  refine ⟨r, hr, hnzc, unit_amplitude _, ?_, ?_⟩
  · intro τ hτ0 hτ
    rw [hbase]
    exact zc_zero_autocorrelation_prime p u τ hprime (by omega) hu0 hu hτ0 hτ
  · rw [hbase]
    exact zc_flat_spectrum p u hodd hcop

/-- Clause "user sequences with different cyclic shifts are orthogonal whenever
    the length is a multiple of the number of shifts": any root sequence given
    by phases, `D ∣ length`, shifts `c₁ ≠ c₂` accepted by the code (`< D`). -/
theorem shifts_orthogonal (ph p1 p2 : List ℚ) (c1 c2 D t : ℕ) (hD : 0 < D) (hN : ph.length = D * t)
    (h1 : shiftedPhases ph c1 D = .ok p1) (h2 : shiftedPhases ph c2 D = .ok p2) (hne : c1 ≠ c2) :
    ∑ n ∈ Finset.range ph.length,
      (seqValues p1 : List ℂ).getD n 0 * (starRingEnd ℂ) ((seqValues p2 : List ℂ).getD n 0) = 0 :=
  shifts_orthogonal_list cisLaws_complex ph p1 p2 c1 c2 D t hD hN h1 h2 hne

/-- The shift is rejected (`AssertionError`) exactly when it is not below the
    number of shifts — the guard of the clauses about shifts. -/
theorem shift_guard (ph : List ℚ) (c D : ℕ) :
    (c < D → ∃ p, shiftedPhases ph c D = .ok p ∧ p.length = ph.length) ∧
    (¬ c < D → shiftedPhases ph c D = .error .AssertionError) := by
  constructor
  · intro h
    exact ⟨_, shiftedPhases_ok ph c D h, by simp⟩
  · intro h
    unfold shiftedPhases
    rw [if_neg h]

/-! ## CAZAC-based estimators -/

/-- Clause "the CAZAC-based estimators return the channel frequency response
    exactly" — plain (`m = 1`) and comb (`m ≥ 2`) variants, normalised or not.
    `ph`: phases of the user's sequence; `nu`: value of `np.linalg.norm`
    (contract: real and `nu² = N`, used only when `normalize`); `h`: channel
    taps with `len h ≤ K+1` (fits the kept taps) and `≤ N`; the observation is
    the true response `fftPad h (m·N)` sampled on every `m`-th subcarrier times
    the sequence.  Result: exactly `fftPad h (m·N)`. -/
theorem cazac_estimate_exact (ph : List ℚ) (nrm : Bool) (nu : ℂ) (h : List ℂ) (m K : ℕ)
    (hm : 0 < m) (hN : 0 < ph.length)
    (hnu : nrm = true → (starRingEnd ℂ) nu = nu ∧ nu * nu = (ph.length : ℂ))
    (hfit : h.length ≤ K + 1) (hlen : h.length ≤ ph.length) :
    ∃ row, ueSequence (seqValues ph : List ℂ) none nrm nu = .ok ⟨nrm, [row], none⟩ ∧
      estimate1 row nrm m (observe (fftPad h (m * ph.length)) m row) K
        = .ok (fftPad h (m * ph.length)) :=
  ⟨_, ueSequence_plain _ nrm nu, ue_estimate_exact cisLaws_complex ph nrm nu h m K hm hN hnu hfit hlen⟩

/-- Clause "unaffected by simultaneously transmitting users on other cyclic
    shifts whose responses fit their shift window" (one other user): root
    phases `ph` of length `N = D·t`, reference on shift `c0`, other user on
    shift `cu ≠ c0`, kept taps `K+1 ≤ t` and the other user's delay spread
    `≤ t`: its contribution to the estimate is identically zero. -/
theorem other_shift_rejected (ph p0 pu : List ℚ) (c0 cu D t : ℕ) (nrm : Bool) (nu : ℂ) (h : List ℂ)
    (m K : ℕ) (hm : 0 < m) (hD : 0 < D) (ht : 0 < t) (hN : ph.length = D * t)
    (h0 : shiftedPhases ph c0 D = .ok p0) (hu : shiftedPhases ph cu D = .ok pu) (hne : c0 ≠ cu)
    (hnu : nrm = true → (starRingEnd ℂ) nu = nu ∧ nu * nu = (ph.length : ℂ))
    (hK : K + 1 ≤ t) (hL : h.length ≤ t) :
    estimate1 (rowOf (seqValues p0 : List ℂ) nrm nu) nrm m
        (observe (fftPad h (m * ph.length)) m (rowOf (seqValues pu : List ℂ) nrm nu)) K
      = .ok (zerosL (m * ph.length)) :=
  ue_estimate_reject cisLaws_complex ph p0 pu c0 cu D t nrm nu h m K hm hD ht hN h0 hu hne hnu hK hL

/-- General form of the rejection (no LTE numerology): a user whose sequence
    differs from the reference by a scalar and a linear phase of `d` bins
    contributes nothing provided none of its non-zero taps `l` satisfies
    `l ≡ k + d (mod N)` for a kept tap `k ≤ K`. -/
theorem other_user_rejected_window (r r' h : List ℂ) (c : ℂ) (nrm : Bool) (m K : ℕ) (d : ℤ)
    (hm : 0 < m) (hN : 0 < r.length) (hlen : r'.length = r.length) (hL : h.length ≤ m * r.length)
    (hprod : ∀ n, n < r.length → (starRingEnd ℂ) (r.getD n 0) * r'.getD n 0
        = c * CisOps.cis ((n : ℚ) * ((d : ℚ) / (r.length : ℚ))))
    (hwin : ∀ k l, k ≤ K → k < r.length → l < h.length →
      (r.length : ℤ) ∣ ((k : ℤ) + d - (l : ℤ)) → h.getD l 0 = 0) :
    estimate1 r nrm m (observe (fftPad h (m * r.length)) m r') K = .ok (zerosL (m * r.length)) :=
  estimate_reject_core cisLaws_complex r r' h c nrm m K d hm hN hlen hL hprod hwin

/-- The estimator is additive in the observation (what lets the two previous
    theorems combine). -/
theorem estimate_additive (r Y1 Y2 E1 E2 : List ℂ) (nrm : Bool) (m K : ℕ)
    (hm : 0 < m) (hN : 0 < r.length) (hY1 : Y1.length = r.length) (hY2 : Y2.length = r.length)
    (h1 : estimate1 r nrm m Y1 K = .ok E1) (h2 : estimate1 r nrm m Y2 K = .ok E2) :
    estimate1 r nrm m (addL Y1 Y2) K = .ok (addL E1 E2) :=
  estimate1_add r Y1 Y2 E1 E2 nrm m K hm hN hY1 hY2 h1 h2

/-- **Multi-user exactness**: the user of interest on shift `c0` plus any
    number of users on other shifts `cu ≠ c0` (each with its own channel of
    delay spread `≤ t = N/D`), kept taps `len h0 ≤ K+1 ≤ t`: the estimate from
    the superposed observation is exactly the channel of the user of interest. -/
theorem cazac_estimate_exact_multiuser (ph p0 : List ℚ) (c0 D t : ℕ) (nrm : Bool) (nu : ℂ)
    (h0 : List ℂ) (m K : ℕ) (others : List (ℕ × List ℚ × List ℂ))
    (hm : 0 < m) (hD : 0 < D) (ht : 0 < t) (hN : ph.length = D * t)
    (hs0 : shiftedPhases ph c0 D = .ok p0)
    (hnu : nrm = true → (starRingEnd ℂ) nu = nu ∧ nu * nu = (ph.length : ℂ))
    (hfit : h0.length ≤ K + 1) (hK : K + 1 ≤ t)
    (hothers : ∀ o ∈ others, o.1 ≠ c0 ∧ shiftedPhases ph o.1 D = .ok o.2.1 ∧ o.2.2.length ≤ t) :
    estimate1 (rowOf (seqValues p0 : List ℂ) nrm nu) nrm m
        ((others.map (fun o => observe (fftPad o.2.2 (m * ph.length)) m
            (rowOf (seqValues o.2.1 : List ℂ) nrm nu))).foldl addL
          (observe (fftPad h0 (m * ph.length)) m (rowOf (seqValues p0 : List ℂ) nrm nu))) K
      = .ok (fftPad h0 (m * ph.length)) :=
  ue_estimate_exact_multiuser cisLaws_complex ph p0 c0 D t nrm nu h0 m K others hm hD ht hN hs0 hnu hfit hK hothers

/-- Clause "one or several antennas": with a 2-D observation (one row per
    receive antenna, each antenna its own channel `h_a` that fits the kept
    taps) every row of the result is that antenna's exact response. -/
theorem cazac_estimate_exact_antennas (ph : List ℚ) (nrm : Bool) (nu : ℂ) (hs : List (List ℂ)) (m K : ℕ)
    (hm : 0 < m) (hN : 0 < ph.length)
    (hnu : nrm = true → (starRingEnd ℂ) nu = nu ∧ nu * nu = (ph.length : ℂ))
    (hfit : ∀ h ∈ hs, h.length ≤ K + 1 ∧ h.length ≤ ph.length) :
    estimateRows (rowOf (seqValues ph : List ℂ) nrm nu) nrm m
        (hs.map (fun h => observe (fftPad h (m * ph.length)) m (rowOf (seqValues ph : List ℂ) nrm nu))) K
      = .ok (hs.map (fun h => fftPad h (m * ph.length))) :=
  estimateRows_ok _ nrm m K hs _ _ (fun h hh =>
    ue_estimate_exact cisLaws_complex ph nrm nu h m K hm hN hnu (hfit h hh).1 (hfit h hh).2)

/-- Clause "cover-code variants": a user with a cover code of `±1` entries
    (`c·c = 1`) sending in `Nc` slots over the same channel is estimated
    exactly by the OCC estimator (`extra_dimension=True`, one antenna). -/
theorem occ_estimate_exact (ph : List ℚ) (c0 : ℂ) (cs : List ℂ) (nrm : Bool) (nu : ℂ) (h : List ℂ) (K : ℕ)
    (hN : 0 < ph.length) (hcov : ∀ c ∈ c0 :: cs, c * c = 1)
    (hnu : nrm = true → (starRingEnd ℂ) nu = nu ∧ nu * nu = (ph.length : ℂ))
    (hfit : h.length ≤ K + 1) (hlen : h.length ≤ ph.length) :
    ∃ ue, ueSequence (seqValues ph : List ℂ) (some (c0 :: cs)) nrm nu = .ok ue ∧
      estimateOcc1 ue (ue.rows.map (fun row => observe (fftPad h ph.length) 1 row)) K
        = .ok (fftPad h ph.length) :=
  ⟨_, ueSequence_cover _ _ nrm nu (by simp),
    C18P.occ_estimate_exact cisLaws_complex ph c0 cs nrm nu h K hN hcov hnu hfit hlen⟩

/-- …and with several antennas (3-D observation). -/
theorem occ_estimate_exact_antennas (ph : List ℚ) (c0 : ℂ) (cs : List ℂ) (nrm : Bool) (nu : ℂ)
    (hs : List (List ℂ)) (K : ℕ)
    (hN : 0 < ph.length) (hcov : ∀ c ∈ c0 :: cs, c * c = 1)
    (hnu : nrm = true → (starRingEnd ℂ) nu = nu ∧ nu * nu = (ph.length : ℂ))
    (hfit : ∀ h ∈ hs, h.length ≤ K + 1 ∧ h.length ≤ ph.length) :
    estimateOccRows ⟨nrm, rowsOf (seqValues ph : List ℂ) (c0 :: cs) nrm nu, some (c0 :: cs)⟩
        (hs.map (fun h => (rowsOf (seqValues ph : List ℂ) (c0 :: cs) nrm nu).map
          (fun row => observe (fftPad h ph.length) 1 row))) K
      = .ok (hs.map (fun h => fftPad h ph.length)) :=
  estimateOccRows_ok _ K hs _ _ (fun h hh =>
    C18P.occ_estimate_exact cisLaws_complex ph c0 cs nrm nu h K hN hcov hnu (hfit h hh).1 (hfit h hh).2)

/-- Cover-code estimator, one other user: suppressed by its cyclic shift
    (delay spread within one shift window, any cover code) **or** by a cover
    code orthogonal to the reference user's (any shift, any channel). -/
theorem occ_other_user_rejected (ph p0 pu : List ℚ) (c0 cu D t : ℕ) (k0 : ℂ) (ks ccu : List ℂ)
    (nrm : Bool) (nu : ℂ) (h : List ℂ) (K : ℕ) (hD : 0 < D) (ht : 0 < t) (hN : ph.length = D * t)
    (h0 : shiftedPhases ph c0 D = .ok p0) (hu : shiftedPhases ph cu D = .ok pu)
    (hk0 : k0 * k0 = 1) (hlen : ccu.length = (k0 :: ks).length)
    (hnu : nrm = true → (starRingEnd ℂ) nu = nu ∧ nu * nu = (ph.length : ℂ))
    (hK : K + 1 ≤ t)
    (hrej : (c0 ≠ cu ∧ h.length ≤ t) ∨
      (∑ c ∈ Finset.range (k0 :: ks).length, ccu.getD c 0 * (k0 :: ks).getD c 0 = 0
        ∧ h.length ≤ ph.length)) :
    estimateOcc1 ⟨nrm, rowsOf (seqValues p0 : List ℂ) (k0 :: ks) nrm nu, some (k0 :: ks)⟩
        ((rowsOf (seqValues pu : List ℂ) ccu nrm nu).map (fun row => observe (fftPad h ph.length) 1 row)) K
      = .ok (zerosL ph.length) :=
  occ_estimate_reject cisLaws_complex ph p0 pu c0 cu D t k0 ks ccu nrm nu h K hD ht hN h0 hu hk0 hlen hnu hK hrej

/-- **Multi-user exactness of the cover-code estimator**: the user of interest
    (shift `c0`, `±1` cover code, taps `≤ K+1 ≤ t = N/D`) plus any number of
    other users, each on another shift with delay spread `≤ t` or with an
    orthogonal cover code: the estimate is exactly the channel of the user of interest. -/
theorem occ_estimate_exact_multiuser (ph p0 : List ℚ) (c0 D t : ℕ) (k0 : ℂ) (ks : List ℂ) (nrm : Bool)
    (nu : ℂ) (h0 : List ℂ) (K : ℕ) (others : List (ℕ × List ℚ × List ℂ × List ℂ))
    (hD : 0 < D) (ht : 0 < t) (hN : ph.length = D * t) (hs0 : shiftedPhases ph c0 D = .ok p0)
    (hcov : ∀ c ∈ k0 :: ks, c * c = 1)
    (hnu : nrm = true → (starRingEnd ℂ) nu = nu ∧ nu * nu = (ph.length : ℂ))
    (hfit : h0.length ≤ K + 1) (hK : K + 1 ≤ t)
    (hothers : ∀ o ∈ others, shiftedPhases ph o.1 D = .ok o.2.1 ∧ o.2.2.1.length = (k0 :: ks).length ∧
      ((c0 ≠ o.1 ∧ o.2.2.2.length ≤ t) ∨
        (∑ c ∈ Finset.range (k0 :: ks).length, o.2.2.1.getD c 0 * (k0 :: ks).getD c 0 = 0
          ∧ o.2.2.2.length ≤ ph.length))) :
    estimateOcc1 ⟨nrm, rowsOf (seqValues p0 : List ℂ) (k0 :: ks) nrm nu, some (k0 :: ks)⟩
        ((others.map (fun o => (rowsOf (seqValues o.2.1 : List ℂ) o.2.2.1 nrm nu).map
            (fun row => observe (fftPad o.2.2.2 ph.length) 1 row))).foldl addRows
          ((rowsOf (seqValues p0 : List ℂ) (k0 :: ks) nrm nu).map
            (fun row => observe (fftPad h0 ph.length) 1 row))) K
      = .ok (fftPad h0 ph.length) :=
  occ_estimate_exact_multiuser_core cisLaws_complex ph p0 c0 D t k0 ks nrm nu h0 K others hD ht hN hs0 hcov hnu hfit hK hothers

/-- `extra_dimension=False`: the code reshapes the flattened observation into
    the `Nc × Ne` block; reshaping the row-major flattening of a block gives the
    block back, so this layout reduces to the theorems above. -/
theorem occ_flat_layout {β : Type} (rows : List (List β)) (ne : ℕ) (hnc : 0 < rows.length)
    (h : ∀ r ∈ rows, r.length = ne) : reshapeRows rows.length rows.flatten = .ok rows :=
  reshapeRows_flatten rows ne hnc h

/-! ## Least-squares pilot estimator -/

/-- Clause "the least-squares pilot estimator returns the channel exactly":
    `Y = H·S`; `inv` stands for `np.linalg.inv` and is only required to return
    a right inverse of the Gram matrix `S·Sᴴ`. -/
theorem ls_exact {nr nt np : ℕ} (inv : Mat ℂ nt nt → Mat ℂ nt nt) (H : Mat ℂ nr nt) (S : Mat ℂ nt np)
    (hinv : Matrix.of (matMul S (conjT S)) * Matrix.of (inv (matMul S (conjT S))) = 1) :
    lsEstimate inv (matMul H S) S = H :=
  ls_exact_core inv H S hinv

/-- …for **every pilot matrix of full row rank** (linearly independent rows),
    when `inv` satisfies the contract of a matrix inverse on invertible input. -/
theorem ls_exact_full_rank {nr nt np : ℕ} (inv : Mat ℂ nt nt → Mat ℂ nt nt) (H : Mat ℂ nr nt)
    (S : Mat ℂ nt np)
    (hcontract : ∀ A : Mat ℂ nt nt, IsUnit (Matrix.of A) → Matrix.of A * Matrix.of (inv A) = 1)
    (hrank : LinearIndependent ℂ (Matrix.of S).row) :
    lsEstimate inv (matMul H S) S = H := by
  apply ls_exact_core inv H S
  apply hcontract
  rw [of_matMul, of_conjT]
  exact gram_isUnit_of_full_row_rank (Matrix.of S) hrank

/-! ## Shared objects, rejected calls, scale (robustness classes R3 / R4 / R6 / R7) -/

/-- R3/R7: after **any** history of user constructions on one shared root
    object the root object is what it was before the first construction. -/
theorem cell_root_unchanged (norm : List ℂ → ℂ) (c : Cell ℂ) (sps : List (UeSpec ℂ)) :
    (Cell.run norm c sps).1.root = c.root :=
  run_root norm c sps

/-- R3/R7: …the users built earlier are unchanged (they form a prefix) and
    every user equals the one a construction on the untouched root yields,
    whatever was built before it (shift 0, normalisation on/off mixed, …). -/
theorem cell_users_fresh (norm : List ℂ → ℂ) (c : Cell ℂ) (sps : List (UeSpec ℂ)) :
    (Cell.run norm c sps).1.users = c.users ++ sps.filterMap (freshUser norm c.root) :=
  run_users norm c sps

/-- R4: a rejected construction (`AssertionError` for a shift `≥ D`) leaves the
    cell exactly as it was; the statuses of a history are those of the single
    constructions on the untouched root. -/
theorem cell_rejected_noop (norm : List ℂ → ℂ) (c : Cell ℂ) (sp : UeSpec ℂ) (e : PyErr)
    (h : buildUe norm c.root sp = .error e) : c.addUser norm sp = (c, some e) := by
  unfold Cell.addUser
  rw [h]

/-- R4 (histories) -/
theorem cell_statuses (norm : List ℂ → ℂ) (c : Cell ℂ) (sps : List (UeSpec ℂ)) :
    (Cell.run norm c sps).2 = sps.map (rejection norm c.root) :=
  run_status norm c sps

/-- R6: the estimator is homogeneous — scaling the whole observation by any
    complex factor (1e-12 … 1e12) scales the estimate by the same factor; no
    absolute threshold is involved. -/
theorem estimate_homogeneous (r Y E : List ℂ) (g : ℂ) (nrm : Bool) (m K : ℕ) (hm : 0 < m)
    (hN : 0 < r.length) (hY : Y.length = r.length) (h : estimate1 r nrm m Y K = .ok E) :
    estimate1 r nrm m (Y.map (fun v => g * v)) K = .ok (E.map (fun v => g * v)) :=
  estimate1_smul r Y E g nrm m K hm hN hY h

/-! ## Argument forms, read-only calls, order, copies (robustness classes R8 / R11 / R12 / R13) -/

/-- R8: `RootSequence(u, Nzc=z)` is `RootSequence(u, size=z, Nzc=z)`. -/
theorem root_sequence_nzc_only (u z : ℕ) :
    rootSequence smallPrimeList rootTable1 rootTable2 u none (some z)
      = rootSequence smallPrimeList rootTable1 rootTable2 u (some z) (some z) :=
  rootSequence_nzc_only _ _ _ u z

/-- R8: leaving `Nzc` at its default is giving the prime the table selects explicitly
    (every size `2 … 1200`). -/
theorem root_sequence_default_nzc (u s : ℕ) (h2 : 2 ≤ s) (hs : s ≤ 1200) :
    ∃ p, primeLookup smallPrimeList s = .ok p ∧
      rootSequence smallPrimeList rootTable1 rootTable2 u (some s) none
        = rootSequence smallPrimeList rootTable1 rootTable2 u (some s) (some p) := by
  obtain ⟨p, hp, _⟩ := prime_lookup_correct s h2 hs
  exact ⟨p, hp, rootSequence_default_nzc _ _ _ u s p hp⟩

/-- R8: an estimator whose reference is flagged normalised returns `N ·` what the
    estimator built from the same raw array (never flagged) returns — errors included. -/
theorem estimator_normalised_flag (r Y : List ℂ) (m K : ℕ) :
    estimate1 r true m Y K
      = (estimate1 r false m Y K).map (fun H => H.map (fun v => v * ((r.length : ℕ) : ℂ))) :=
  estimate1_flag r Y m K

/-- R11: read-only calls (`Nzc`, `size`, `index`, `seq_array()`, indexing, `conj()`,
    `+`, `*`, `repr`, `normalized`, `shape`, `cover_code`, …) anywhere in a history are
    transparent: the cell is the one obtained without them. -/
theorem cell_queries_transparent (norm : List ℂ → ℂ) (c : Cell ℂ) (ops : List (CellOp ℂ)) :
    (Cell.runOps norm c ops).1 = (Cell.runOps norm c (ops.filter notQuery)).1 :=
  runOps_queries_transparent norm c ops

/-- R11/R13: through constructions, read-only calls and copies the shared root never
    changes and the users built earlier stay (as a prefix). -/
theorem cell_ops_stable (norm : List ℂ → ℂ) (c : Cell ℂ) (ops : List (CellOp ℂ)) :
    (Cell.runOps norm c ops).1.root = c.root ∧
      ∃ l, (Cell.runOps norm c ops).1.users = c.users ++ l :=
  ⟨runOps_root norm c ops, runOps_users_prefix norm c ops⟩

/-- R13: a copy (`copy.copy`, `copy.deepcopy`, pickle round trip) of a user is that
    user; copying a user that does not exist changes nothing. -/
theorem cell_copy (norm : List ℂ → ℂ) (c : Cell ℂ) (j : ℕ) :
    (c.step norm (.copy j)).1.users = c.users ++ (c.users[j]?).toList :=
  step_copy norm c j

/-- R12: the set of users of a cell does not depend on the order in which they
    were built. -/
theorem cell_users_order_independent (norm : List ℂ → ℂ) (c : Cell ℂ) (sps sps' : List (UeSpec ℂ))
    (h : sps.Perm sps') :
    (Cell.run norm c sps).1.users.Perm (Cell.run norm c sps').1.users :=
  run_users_perm norm c sps sps' h

/-! ## Distinct values that are merely close (robustness class R15)

The model is a function of the **exact** values: no comparison with a tolerance,
no rounded key, no absolute threshold.  Stated where the model compares / looks up
(prime table) and, for the numeric part, as separation: inputs that differ — by
however little — give different results. -/

/-- R15, prime selection: two sizes get the same base length **iff** no prime lies
    between them — adjacent sizes `p - 1`, `p` around a prime are never identified,
    sizes between two consecutive primes always are. -/
theorem prime_lookup_exact (s s' : ℕ) (h2 : 2 ≤ s) (hss : s ≤ s') (hs : s' ≤ 1200) :
    primeLookup smallPrimeList s = primeLookup smallPrimeList s' ↔
      ∀ q, Nat.Prime q → s < q → ¬ q ≤ s' := by
  obtain ⟨p, hp, hpp, hps, hpmax⟩ := prime_lookup_correct s h2 (by omega)
  obtain ⟨p', hp', hpp', hps', hpmax'⟩ := prime_lookup_correct s' (by omega) hs
  rw [hp, hp']
  constructor
  · intro h q hq hsq hqs'
    have hpe : p = p' := by injection h
    have := hpmax' q hq hqs'
    omega
  · intro h
    have h1 : p' ≤ s := by
      by_contra hc
      exact h p' hpp' (by omega) hps'
    have h3 := hpmax p' hpp' h1
    have h4 := hpmax' p hpp (by omega)
    have : p = p' := by omega
    rw [this]

/-- R15, prime selection at a prime: the size `p` itself selects `p`, the size just
    below selects a smaller prime. -/
theorem prime_lookup_at_prime (p : ℕ) (hp : Nat.Prime p) (hs : p ≤ 1200) :
    primeLookup smallPrimeList p = .ok p ∧
      (3 ≤ p → ∃ q, primeLookup smallPrimeList (p - 1) = .ok q ∧ q < p) := by
  obtain ⟨q, hq, _, hqp, hmax⟩ := prime_lookup_correct p hp.two_le hs
  have h1 := hmax p hp (Nat.le_refl p)
  have hqe : q = p := by omega
  refine ⟨by rw [hq, hqe], fun h3 => ?_⟩
  obtain ⟨q', hq', _, hq's, _⟩ := prime_lookup_correct (p - 1) (by omega) (by omega)
  exact ⟨q', hq', by omega⟩

/-- R15, estimators: two channels that fit the kept taps and differ in **one tap by any
    amount** (1e-6 relative, one unit in the last place, 1e-15 absolute …) are given
    different estimates by the same estimator object — nothing is identified, cached by
    rounded value or thresholded to zero. -/
theorem cazac_estimate_separates (ph : List ℚ) (nrm : Bool) (nu : ℂ) (h1 h2 : List ℂ) (m K : ℕ)
    (hm : 0 < m) (hN : 0 < ph.length)
    (hnu : nrm = true → (starRingEnd ℂ) nu = nu ∧ nu * nu = (ph.length : ℂ))
    (hfit1 : h1.length ≤ K + 1) (hlen1 : h1.length ≤ ph.length)
    (hfit2 : h2.length ≤ K + 1) (hlen2 : h2.length ≤ ph.length)
    (k : ℕ) (hne : h1.getD k 0 ≠ h2.getD k 0) :
    estimate1 (rowOf (seqValues ph : List ℂ) nrm nu) nrm m
        (observe (fftPad h1 (m * ph.length)) m (rowOf (seqValues ph : List ℂ) nrm nu)) K
      ≠ estimate1 (rowOf (seqValues ph : List ℂ) nrm nu) nrm m
        (observe (fftPad h2 (m * ph.length)) m (rowOf (seqValues ph : List ℂ) nrm nu)) K :=
  ue_estimate_separates cisLaws_complex ph nrm nu h1 h2 m K hm hN hnu hfit1 hlen1 hfit2 hlen2 k hne

/-- R15, least squares: channel matrices that differ in any entry by any amount get
    different estimates (pilot matrix of full row rank: nearly parallel pilot rows and
    a Gram matrix that is *nearly* a multiple of the identity included). -/
theorem ls_separates {nr nt np : ℕ} (inv : Mat ℂ nt nt → Mat ℂ nt nt) (H1 H2 : Mat ℂ nr nt)
    (S : Mat ℂ nt np)
    (hcontract : ∀ A : Mat ℂ nt nt, IsUnit (Matrix.of A) → Matrix.of A * Matrix.of (inv A) = 1)
    (hrank : LinearIndependent ℂ (Matrix.of S).row) (hne : H1 ≠ H2) :
    lsEstimate inv (matMul H1 S) S ≠ lsEstimate inv (matMul H2 S) S := by
  apply ls_separates_core inv H1 H2 S _ hne
  apply hcontract
  rw [of_matMul, of_conjT]
  exact gram_isUnit_of_full_row_rank (Matrix.of S) hrank

/-! ## One argument array refilled in place; one array in two roles (robustness class R16) -/

/-- R16: a caller keeps ONE array, refills it in place and calls the same object /
    function again (any history of refills and calls, any callee `f` of the model:
    `estimate1 r nrm m`, `estimateRows`, `estimateOcc1 ue`, `lsEstimate`, `extendedZF`,
    `shiftedPhases` …).  The results are, call by call, those of fresh calls on copies of
    the contents at call time. -/
theorem buffer_history_eq_fresh_calls {β κ ρ : Type} (f : β → κ → ρ) (b : β) (ops : List (BufOp β κ)) :
    (BufState.run f ⟨b, []⟩ ops).outs = (callSnapshots b ops).map (fun p => f p.1 p.2) := by
  rw [run_outs f ops b []]
  rfl

/-- R16: results that were returned are not changed by later refills and calls. -/
theorem buffer_earlier_results_kept {β κ ρ : Type} (f : β → κ → ρ) (s : BufState β ρ)
    (ops more : List (BufOp β κ)) :
    ∃ l, (BufState.run f s (ops ++ more)).outs = (BufState.run f s ops).outs ++ l := by
  rw [run_append]
  exact run_outs_prefix f _ more

/-- R16: handing over an equal-content array (a refill with the contents the buffer
    already has) changes nothing. -/
theorem buffer_equal_content_refill {β κ ρ : Type} (f : β → κ → ρ) (s : BufState β ρ)
    (ops : List (BufOp β κ)) :
    BufState.run f s (.refill s.buf :: ops) = BufState.run f s ops :=
  run_refill_same f s ops

/-- R16, one array object in two roles: an estimator built from a raw reference array of
    unit modulus that is handed **the same array** as observation returns the flat
    response of the one-tap channel `[1]` (all ones), whatever `K` and the comb factor. -/
theorem estimate_same_array_two_roles (r : List ℂ) (m K : ℕ) (hm : 0 < m) (hN : 0 < r.length)
    (hr : ∀ n, n < r.length → r.getD n 0 * (starRingEnd ℂ) (r.getD n 0) = 1) :
    estimate1 r false m r K = .ok (fftPad [(1 : ℂ)] (m * r.length)) ∧
      ∀ f, f < m * r.length → (fftPad [(1 : ℂ)] (m * r.length)).getD f 0 = 1 :=
  ⟨estimate_self_observation cisLaws_complex r m K hm hN hr,
    fun f hf => fftPad_one_getD cisLaws_complex _ f hf⟩

/-- R16, one array object in two roles: `compute_ls_estimation(A, A)` is the identity for
    every `A` of full row rank. -/
theorem ls_same_array {n k : ℕ} (inv : Mat ℂ n n → Mat ℂ n n) (S : Mat ℂ n k)
    (hcontract : ∀ A : Mat ℂ n n, IsUnit (Matrix.of A) → Matrix.of A * Matrix.of (inv A) = 1)
    (hrank : LinearIndependent ℂ (Matrix.of S).row) :
    lsEstimate inv S S = idMat ℂ n := by
  apply ls_same_array_core inv S
  apply hcontract
  rw [of_matMul, of_conjT]
  exact gram_isUnit_of_full_row_rank (Matrix.of S) hrank

/-! ## The formulas regenerated from the current source equal the model's

`PyPhysim.Generated.C18` (`Generated/C18Formulas.lean`) is re-emitted from the
AST of `zadoffchu.py`, `srs.py`, `dmrs.py`, `root_sequence.py`,
`reference_signals/channel_estimation.py` on every run, as written (operand
order and association kept).  The theorems below say that, over `ℝ` / `ℤ`, what
the source says now is what the hand model says, for all arguments: a changed
coefficient, sign, denominator, index or size expression in the source breaks
one of these proof obligations (or leaves the translated fragment). -/

/-- `calcBaseZC`: the phase (radians) of element `n` in the source,
    `-π·u·n·(n+1+2q)/Nzc` at `q = 0` in whatever spelling, is `2π` times the
    model's phase (turns) for all `Nzc, u, n`; hence `exp(i·phase)` is the model's
    element, and the number of elements is the model's. -/
theorem generated_zc_phase (N u n : ℕ) :
    Generated.C18.zcPhase Real.pi (N : ℝ) (u : ℝ) 0 (n : ℝ) = 2 * Real.pi * ((zcPhase N u n : ℚ) : ℝ) ∧
    Complex.exp (Complex.I * ((Generated.C18.zcPhase Real.pi (N : ℝ) (u : ℝ) 0 (n : ℝ) : ℝ) : ℂ))
      = (CisOps.cis (zcPhase N u n) : ℂ) ∧
    Generated.C18.zcLength (N : ℝ) = ((zcPhases N u).length : ℝ) :=
  ⟨Gen.zcPhase_eq N u n, Gen.expi_eq_cis _ _ (Gen.zcPhase_eq N u n), Gen.zcLength_eq N u⟩

/-- `get_shifted_root_seq`: the phase ramp of the source, `2π·n_cs·n/denominator`,
    is `2π` times the phase the model adds to element `n` (`shiftedPhases`), for
    all `n_cs, denominator, n`; `get_srs_seq` / `get_dmrs_seq` pass the
    denominators 8 / 12. -/
theorem generated_shift_phase (ncs D n : ℕ) :
    Generated.C18.shiftPhase Real.pi (ncs : ℝ) (D : ℝ) (n : ℝ)
      = 2 * Real.pi * ((((ncs * n : ℕ) : ℚ) / ((D : ℕ) : ℚ) : ℚ) : ℝ) ∧
    Generated.C18.srsDenominator = 8 ∧ Generated.C18.dmrsDenominator = 12 :=
  ⟨Gen.shiftPhase_eq ncs D n, rfl, rfl⟩

/-- `get_extended_ZF` as written in the source (both branches of the size
    test, Python slice and `//` semantics, `ZeroDivisionError` for an empty root)
    is the model's `extendedZF` for every root array and size; hence for
    `0 < Nzc ≤ size` the result has `size` elements and element `i` is
    `root[i mod Nzc]`. -/
theorem generated_extension {β : Type} (root : List β) (size : ℕ) :
    Generated.C18.extendedZF root (size : ℤ) = extendedZF root size ∧
    (0 < root.length → root.length ≤ size →
      ∃ l, Generated.C18.extendedZF root (size : ℤ) = .ok l ∧ l.length = size ∧
        ∀ i, i < size → l[i]? = root[i % root.length]?) :=
  ⟨Gen.extendedZF_eq root size, Gen.extendedZF_index root size⟩

/-- `RootSequence.__init__` once `size` and `Nzc` are ints: the decision of the
    source (`size < Nzc` rejected; `size > 2·n_sc_PRB` Zadoff–Chu, extended iff
    `size > Nzc`; `n_sc_PRB` / `2·n_sc_PRB` the two tables; anything else
    rejected) is the decision of the model, and the table phase `π/4·t` of the
    source is `2π` times the model's `t/8`. -/
theorem generated_size_rule (t1 t2 : List (List Int)) (u size nzc : ℕ) (φ : ℤ) :
    rootSequenceCore t1 t2 u size nzc =
      (match Generated.C18.sizeRule (size : ℤ) (nzc : ℤ) with
      | .error e => .error e
      | .ok (.zc ext) =>
        if u < nzc then
          if ext then
            match extendedZF (zcPhases nzc u) size with
            | .ok e => .ok ⟨u, zcPhases nzc u, some e⟩
            | .error e => .error e
          else .ok ⟨u, zcPhases nzc u, none⟩
        else .error .AssertionError
      | .ok .table1 =>
        match t1[u]? with
        | some row => .ok ⟨u, tablePhases row, none⟩
        | none => .error .KeyError
      | .ok .table2 =>
        match t2[u]? with
        | some row => .ok ⟨u, tablePhases row, none⟩
        | none => .error .KeyError) ∧
    Generated.C18.tablePhase Real.pi (φ : ℝ) = 2 * Real.pi * ((((φ : ℤ) : ℚ) / ((8 : ℕ) : ℚ) : ℚ) : ℝ) :=
  ⟨Gen.rootSequenceCore_sizeRule t1 t2 u size nzc, Gen.tablePhase_eq φ⟩

/-- `CazacBasedChannelEstimator.estimate_channel_freq_domain`: with the IFFT
    size, the number of kept taps (`num_taps_to_keep + 1`), the FFT size
    (`size_multiplier · Nsc`) and the normalisation (each element times `Nsc`
    iff the reference was normalised) **of the source**, the pipeline is the
    model's `estimate1`, for every scalar type and all arguments. -/
theorem generated_estimator_sizes (r : List ℂ) (b : Bool) (m : ℕ) (Y : List ℂ) (K : ℕ) :
    estimate1 r b m Y K =
      if Y.length ≠ r.length then .error .ValueError
      else if m * r.length = 0 then .error .ValueError
      else .ok ((fftPad ((ifftN (List.zipWith (fun a c => CisOps.conj a * c) r Y)
          (Generated.C18.ifftSize (m : ℤ) (r.length : ℤ) (K : ℤ)).toNat).take
            (Generated.C18.keptTaps (m : ℤ) (r.length : ℤ) (K : ℤ)).toNat)
          (Generated.C18.fftSize (m : ℤ) (r.length : ℤ) (K : ℤ)).toNat).map
            (Generated.C18.normScale b ((r.length : ℕ) : ℂ))) :=
  Gen.estimate1_generated r b m Y K

/-- All of the above in one statement (the name the manifest refers to). -/
theorem generated_formulas_match_model :
    (∀ N u n : ℕ, Generated.C18.zcPhase Real.pi (N : ℝ) (u : ℝ) 0 (n : ℝ)
        = 2 * Real.pi * ((zcPhase N u n : ℚ) : ℝ)) ∧
    (∀ ncs D n : ℕ, Generated.C18.shiftPhase Real.pi (ncs : ℝ) (D : ℝ) (n : ℝ)
        = 2 * Real.pi * ((((ncs * n : ℕ) : ℚ) / ((D : ℕ) : ℚ) : ℚ) : ℝ)) ∧
    (Generated.C18.srsDenominator = 8 ∧ Generated.C18.dmrsDenominator = 12) ∧
    (∀ (root : List ℂ) (size : ℕ), Generated.C18.extendedZF root (size : ℤ) = extendedZF root size) ∧
    (∀ size nzc : ℕ, Generated.C18.sizeRule (size : ℤ) (nzc : ℤ) =
      if size < nzc then .error .AttributeError
      else if size > 24 then .ok (.zc (decide (size > nzc)))
      else if size = 12 then .ok .table1 else if size = 24 then .ok .table2 else .error .AttributeError) ∧
    (∀ m N K : ℕ, (Generated.C18.ifftSize (m : ℤ) (N : ℤ) (K : ℤ)).toNat = N ∧
      (Generated.C18.keptTaps (m : ℤ) (N : ℤ) (K : ℤ)).toNat = K + 1 ∧
      (Generated.C18.fftSize (m : ℤ) (N : ℤ) (K : ℤ)).toNat = m * N) ∧
    (∀ (b : Bool) (N H : ℂ), Generated.C18.normScale b N H = if b then H * N else H) :=
  ⟨Gen.zcPhase_eq, Gen.shiftPhase_eq, ⟨rfl, rfl⟩, Gen.extendedZF_eq, Gen.sizeRule_eq, Gen.sizes_eq,
    Gen.normScale_eq⟩

/-- the generated definitions are not degenerate: the second Zadoff–Chu phase of
    `Nzc = 5, u = 2` is `-4π/5`, the cyclic extension of `[a, b, c]` to 8 elements is
    `a b c a b c a b`, size 36 with `Nzc = 31` takes the extended Zadoff–Chu branch -/
example : Generated.C18.zcPhase Real.pi (5 : ℝ) 2 0 1 = -(4 * Real.pi / 5) ∧
    Generated.C18.extendedZF [1, 2, 3] 8 = .ok [1, 2, 3, 1, 2, 3, 1, 2] ∧
    Generated.C18.sizeRule 36 31 = .ok (.zc true) := by
  refine ⟨?_, by decide, by decide⟩
  unfold Generated.C18.zcPhase
  push_cast
  ring

/-! ## Non-vacuity -/

/-- hypotheses of the CAZAC clauses are satisfiable (N = 5, u = 2, τ = 3) -/
example : (5 % 2 = 1) ∧ Nat.Coprime 2 5 ∧ ¬ 5 ∣ 3 := by decide

/-- the estimator hypotheses are satisfiable, including the normalised case
    (`N = 4`, `nu = 2`: real, `nu² = 4`) -/
example : ∃ (ph : List ℚ) (nu : ℂ) (h : List ℂ) (K : ℕ), 0 < ph.length ∧
    ((starRingEnd ℂ) nu = nu ∧ nu * nu = (ph.length : ℂ)) ∧ h.length ≤ K + 1 ∧ h.length ≤ ph.length ∧ h ≠ [] :=
  ⟨[0, 1/4, 1/2, 3/4], 2, [1, Complex.I], 1, by simp, ⟨by simp [map_ofNat], by norm_num⟩, by simp, by simp, by simp⟩

/-- shift hypotheses are satisfiable (`D = 8 ∣ 24`, two different accepted shifts) -/
example : ∃ p1 p2, shiftedPhases (zcPhases 24 1) 1 8 = .ok p1 ∧ shiftedPhases (zcPhases 24 1) 4 8 = .ok p2 ∧
    (zcPhases 24 1).length = 8 * 3 :=
  ⟨_, _, shiftedPhases_ok _ 1 8 (by omega), shiftedPhases_ok _ 4 8 (by omega), by rw [zcPhases_length]⟩

/-- a full-row-rank pilot matrix exists (the 2×2 identity) -/
example : LinearIndependent ℂ (1 : Matrix (Fin 2) (Fin 2) ℂ).row :=
  Matrix.linearIndependent_rows_iff_isUnit.mpr isUnit_one

/-- R15: two channels that are close but distinct exist (taps `1` and `1 + 10⁻⁶`) -/
example : ([(1 : ℂ)] : List ℂ).getD 0 0 ≠ ([(1 : ℂ) + 1 / 1000000] : List ℂ).getD 0 0 := by
  simp

/-- R15: 1193 and 1200 select the same prime (no prime in between), 1192 and 1193 do not -/
example : primeLookup smallPrimeList 1193 = primeLookup smallPrimeList 1200 ∧
    primeLookup smallPrimeList 1192 ≠ primeLookup smallPrimeList 1193 := by decide +kernel

/-- R16: a unit-modulus array that can be reference and observation at once (`[1, i]`) -/
example : ∀ n, n < ([1, Complex.I] : List ℂ).length →
    ([1, Complex.I] : List ℂ).getD n 0 * (starRingEnd ℂ) (([1, Complex.I] : List ℂ).getD n 0) = 1 := by
  intro n hn
  have : n = 0 ∨ n = 1 := by simp at hn; omega
  rcases this with rfl | rfl <;> simp

/-- R16: a history with two refills and three calls, and its snapshots -/
example : callSnapshots (β := ℕ) (κ := ℕ) 1 [.call 7, .refill 2, .call 7, .call 8]
    = [(1, 7), (2, 7), (2, 8)] := rfl

end PyPhysim.C18
