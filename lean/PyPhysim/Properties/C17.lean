import PyPhysim.Proofs.C17

/-!
# C17 — saving and loading parameters and results loses nothing

Property theorems only.  `enc`/`dec` model `json.dumps(cls=NumpyOrSetEncoder)` /
`json.loads(object_hook=json_numpy_or_set_obj_hook)` of the repaired code; the
model is tied to the code by the exact token-level correspondence of
`harness/props/c17.py`.
-/
namespace PyPhysim.C17
open PyPhysim.Proto

/-- JSON layer, every supported value (`wf`: sets hold distinct hashable
    scalars, arrays have a real dtype and a shape consistent with `tolist()`,
    dicts do not use the keys `_is_set` / `_is_numpy_array`): decoding the
    encoding gives the value back with numpy scalars replaced by the Python
    scalar of the same value — arrays keep dtype, shape (also zero-sized) and
    data, sets stay sets, nesting and order are kept. -/
theorem dec_enc (v : PyVal) (h : wf v = true) : dec (enc v) = .ok (norm v) := dec_enc_aux v h

/-- "saving and loading the loaded object again changes nothing" -/
theorem second_roundtrip_identity (v : PyVal) (h : wf v = true) :
    dec (enc (norm v)) = .ok (norm v) := by
  rw [dec_enc (norm v) (wf_norm_aux v h), norm_norm]

/-- `to_json()` of the loaded object is the JSON tree of the original -/
theorem enc_norm (v : PyVal) : enc (norm v) = enc v := enc_norm_aux v

end PyPhysim.C17
