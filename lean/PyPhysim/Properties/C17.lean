import PyPhysim.Proofs.C17Files
import PyPhysim.Proofs.C17Ops
import PyPhysim.Proofs.C17Robust
import PyPhysim.Proofs.C17Gen

/-!
# C17 — saving and loading parameters and results loses nothing

Property theorems only.  `enc` / `dec` model `json.dumps(cls=NumpyOrSetEncoder)`
and `json.loads(object_hook=json_numpy_or_set_obj_hook)`; `paramsToDict`,
`resultToDict`, `simToDict` and their `…FromDict` model the `_to_dict` /
`_from_dict` methods; `saveToFile` / `loadFromFile` the extension dispatch over an
explicit file store; `expand` / `getFilename` the file-name template.  All are
hand models of the code *after* the C17 `fix:` commits, tied to the code by the
exact token-level correspondence of `harness/props/c17.py` (JSON tree of
`to_json()` and full state of the loaded object, for seeded objects built through
the real constructors and `update()` histories).

`norm` replaces a numpy scalar by the Python scalar of the same value and changes
nothing else (`norm_keeps_values`), which is what JSON can carry and what the
classes' `==` cannot distinguish.

Outside the theorems (see CLAIM.note): binary64 arithmetic of `update()` (the
round-trip theorems hold for *every* field state), `repr(float)` (a parameter
`fr` of the file-name model), `os.path.splitext`, pickle (modelled as storing the
object itself), `np.longdouble`.
-/
namespace PyPhysim.C17
open PyPhysim.Proto

/-! ## values through the JSON layer -/

/-- Clause "any … object built from supported values … is equal to the object
    obtained by writing it to JSON … and reading it back", value layer, every
    supported value (`wf`: a set holds pairwise different hashable scalars, an
    array has a real numeric dtype and a shape consistent with `tolist()` — also
    zero-sized and 0-d —, a dict does not use the keys `_is_set` /
    `_is_numpy_array`, numpy floats are at most 64 bits wide): decoding the
    encoding succeeds and returns the value with numpy scalars replaced by Python
    scalars; arrays keep dtype, shape and data, sets stay sets, lists keep
    nesting and order. -/
theorem dec_enc (v : PyVal) (h : wf v = true) : dec (enc v) = .ok (norm v) := dec_enc_aux v h

/-- … and `norm` loses nothing: same tree, same strings, same numeric value at
    every scalar (only the scalar's numpy type is dropped), same dtype / shape /
    data for arrays.  First-principles reading of "equal". -/
theorem norm_keeps_values (v : PyVal) : sameValue v (norm v) = true := sameValue_norm_aux v

/-- Clause "saving and loading the loaded object again changes nothing". -/
theorem second_roundtrip_identity (v : PyVal) (h : wf v = true) :
    dec (enc (norm v)) = .ok (norm v) := by
  rw [dec_enc (norm v) (wf_norm_aux v h), norm_norm]

/-- `to_json()` of the loaded object is the JSON tree of the original
    (observation point "to_json() text"). -/
theorem enc_norm (v : PyVal) : enc (norm v) = enc v := enc_norm_aux v

/-- non-vacuity of `wf`: float32 scalar, a set with an int16 and a string, a
    zero-sized 2-d array, an empty and a nested list, all in one value -/
example : wf (.list [.npfloat 32 (.fin 5 2), .set [.npint true 16 3, .str "a"],
    .ndarray "float64" [0, 3] (.list []), .list [], .list [.list [.int 1]],
    .ndarray "int8" [2, 2] (.list [.list [.int 1, .int 2], .list [.int 3, .int 4]])]) = true := by
  decide

/-- NEGATIVE WITNESS (known finding `C17:json-hook:reserved-parameter-name`): the
    hypothesis on dict keys cannot be dropped.  A parameter dictionary with a
    parameter literally named `_is_set` does not decode (`ValueError`), and with
    the value `True` plus a parameter `data` it silently decodes to a *set*. -/
theorem reserved_key_breaks_roundtrip :
    dec (enc (.dict [("_is_set", .int 3), ("x", .int 1)])) = raise .ValueError ∧
    dec (enc (.dict [("_is_set", .bool true), ("data", .list [.int 1])])) = .ok (.set [.int 1]) := by
  constructor <;> rfl

/-! ## SimulationParameters -/

/-- Clause "simulation-parameters object … including unpacked-parameter marks,
    unpack indexes" and "unpacked children": for every chain `object →
    _original_sim_params → …` of any depth (given `fuel ≥ depth` for the
    recursion of `_from_dict`), with supported parameter values and any set of
    unpacked names, `from_json(to_json(p))` is the same chain — same parameter
    names in the same order, same unpacked marks, same unpack index, same
    original parameters at every level — with values normalised. -/
theorem params_roundtrip (c : Chain) (fuel : Nat) (hne : c ≠ []) (hf : c.length ≤ fuel)
    (h : wfChain c = true) : paramsFromJson fuel (paramsToJson c) = .ok (normChain c) :=
  params_json_roundtrip c fuel hne hf h

/-- saving and loading the loaded parameters again changes nothing, and their
    JSON text is the original text -/
theorem params_second_roundtrip (c : Chain) (fuel : Nat) (hne : c ≠ []) (hf : c.length ≤ fuel)
    (h : wfChain c = true) :
    paramsFromJson fuel (paramsToJson (normChain c)) = .ok (normChain c) ∧
    paramsToJson (normChain c) = paramsToJson c := by
  constructor
  · have := params_json_roundtrip (normChain c) fuel
      (by cases c with
          | nil => exact absurd rfl hne
          | cons n r => simp [normChain])
      (by rw [normChain_length]; exact hf) (wfChain_norm c h)
    rwa [normChain_idem] at this
  · unfold paramsToJson
    rw [← norm_paramsToDict, enc_norm_aux]

/-- the dict form alone (`_from_dict(_to_dict(p))`, no JSON) is the identity -/
theorem params_dict_roundtrip (c : Chain) (fuel : Nat) (hne : c ≠ []) (hf : c.length ≤ fuel) :
    paramsFromDict fuel (paramsToDict c) = .ok c := paramsFromDict_toDict c fuel hne hf

/-- Children that were changed after unpacking (round 4).  Whatever list of
    `add` / `p[name] = v` / `remove` / `set_unpack_parameter` calls is applied —
    each to the object itself (level 0) or to any of its originals (level 1, 2, …),
    with supported values under non-reserved names — the resulting chain is again
    read back exactly: every object of the chain with *its own* parameter values. -/
theorem params_roundtrip_after_mutation (c c' : Chain) (ops : List (Nat × POp)) (fuel : Nat)
    (hne : c ≠ []) (hw : wfChain c = true) (ho : ∀ p ∈ ops, opOk p.2)
    (h : applyOps c ops = .ok c') (hf : c.length ≤ fuel) :
    paramsFromJson fuel (paramsToJson c') = .ok (normChain c') := by
  obtain ⟨hw', hl⟩ := wfChain_applyOps ops c c' hw ho h
  refine params_json_roundtrip c' fuel ?_ (by rw [hl]; exact hf) hw'
  intro hc
  rw [hc] at hl
  cases c with
  | nil => exact hne rfl
  | cons n r => simp at hl

/-- … in particular a child whose fixed parameter `k` was set to `v` after
    unpacking is read back with `v` (normalised) for `k`, whatever its original
    holds for `k`, and the original is read back unchanged. -/
theorem child_keeps_own_value (n : Node) (rest : Chain) (k : String) (v : PyVal) (fuel : Nat)
    (hw : wfChain (n :: rest) = true) (hk : reserved k = false) (hv : wf v = true)
    (hf : rest.length + 1 ≤ fuel) :
    ∃ n', paramsFromJson fuel (paramsToJson ({ n with parameters := setKV k v n.parameters } :: rest))
        = .ok (n' :: normChain rest)
      ∧ lookup k n'.parameters = some (norm v)
      ∧ n'.unpackIndex = n.unpackIndex ∧ n'.unpacked = n.unpacked := by
  have hw' : wfChain ({ n with parameters := setKV k v n.parameters } :: rest) = true := by
    simp only [wfChain, List.all_cons, Bool.and_eq_true, wfNode] at hw ⊢
    exact ⟨⟨wfKVs_setKV k v hk hv _ hw.1.1, hw.1.2⟩, hw.2⟩
  refine ⟨_, params_json_roundtrip _ fuel (by simp) (by simpa using hf) hw', ?_, rfl, rfl⟩
  simp only [Node.norm, lookup_normKVs, lookup_setKV_self, Option.map]

/-- non-vacuity: `M` is 4 in the original and is set to 16 in the child -/
example : (applyOps
    [{ parameters := [("snr", .int 5), ("M", .int 4)], unpacked := [], unpackIndex := 0 },
     { parameters := [("snr", .list [.int 5, .int 10]), ("M", .int 4)], unpacked := ["snr"], unpackIndex := -1 }]
    [(0, .set "M" (.int 16)), (1, .set "taps" (.list [.int 1])), (0, .remove "snr")]).toOption.map
      (fun c => c.map (fun n => n.parameters.map (·.1))) = some [["M"], ["snr", "M", "taps"]] := by decide

/-- non-vacuity: an unpacked child (index 1) of a parameter set with an unpacked
    float32 array -/
example : wfChain
    [{ parameters := [("snr", .npfloat 32 (.fin 3 2)), ("M", .int 4)], unpacked := [], unpackIndex := 1 },
     { parameters := [("snr", .ndarray "float32" [2] (.list [.float (.fin 1 2), .float (.fin 3 2)])),
                      ("M", .int 4)], unpacked := ["snr"], unpackIndex := -1 }] = true := by
  decide

/-! ## Result -/

/-- Clause "all result types with arbitrary update histories … repetition counts
    and per-result statistics", SUMTYPE / RATIOTYPE / MISCTYPE: *whatever* state
    the updates left (any value, total, result sum, squared sum, number of
    updates, accumulated value and total lists made of supported values — in
    particular the never-updated state with total 0), `from_json(to_json(r))` is
    that state, normalised. -/
theorem result_roundtrip (r : Result) (ht : r.typeCode ≠ 3) (h : wfResult r = true) :
    resultFromJson (resultToJson r) = .ok r.norm := result_plain_roundtrip r ht h

/-- CHOICETYPE: every state reached from a fresh result by any list of
    successful updates satisfies `total = num_updates = Σ counts`, keeps the
    number of choices, and its accumulated values are supported values. -/
theorem choice_invariant (name : String) (acc : Bool) (n : Nat) (ops : List PyVal) (c : Choice)
    (h : runChoice (choiceInit name acc n) ops = .ok c) :
    c.counts.length = n ∧ c.total = natSum c.counts ∧ c.numUpdates = natSum c.counts
      ∧ wfList c.valueList = true :=
  (runChoice_inv n ops _ c (choiceInit_inv name acc n) h).1

/-- CHOICETYPE, arbitrary update history: the result that `_from_dict` rebuilds
    by replaying `update(i)` `counts[i]` times has the same counts, total, number
    of updates, statistics and — in the recorded order — the same accumulated
    values. -/
theorem choice_roundtrip (name : String) (acc : Bool) (n : Nat) (ops : List PyVal) (c : Choice)
    (h : runChoice (choiceInit name acc n) ops = .ok c) :
    resultFromJson (resultToJson c.toResult) = .ok c.toResult.norm := by
  obtain ⟨_, ht, hn, hw⟩ := choice_invariant name acc n ops c h
  exact result_choice_roundtrip c ht hn hw

/-- `update` converts numpy scalars on entry, so after any history the accumulated
    values of a CHOICE result are Python scalars: the loaded result is then
    *identical* to the original, not only equal up to `norm`. -/
theorem choice_roundtrip_exact (name : String) (acc : Bool) (n : Nat) (ops : List PyVal) (c : Choice)
    (h : runChoice (choiceInit name acc n) ops = .ok c) :
    resultFromJson (resultToJson c.toResult) = .ok c.toResult := by
  have hp := runChoice_plain ops _ c (by rfl) h
  have := choice_roundtrip name acc n ops c h
  rw [choice_toResult_norm, hp] at this
  exact this

/-- saving and loading a loaded result again changes nothing (every result the
    two theorems above cover: `goodResult`), and its JSON text is the original -/
theorem result_second_roundtrip (r : Result) (h : goodResult r) :
    resultFromJson (resultToJson r.norm) = .ok r.norm ∧ resultToJson r.norm = resultToJson r := by
  constructor
  · have := (result_good_roundtrip r.norm (goodResult_norm r h))
    unfold resultFromJson resultToJson
    rw [dec_enc_aux _ this.1, bind_ok, this.2, Result.norm_norm]
  · unfold resultToJson
    rw [← norm_resultToDict, enc_norm_aux]

/-- non-vacuity: the history 3, 1, int8(0), -1 on four choices is accepted
    (the negative index counts for the last choice) -/
example : (runChoice (choiceInit "c" true 4) [.int 3, .int 1, .npint true 8 0, .int (-1)]).toOption.map
    (fun c => (c.counts, c.total, c.valueList.length)) = some ([1, 1, 0, 2], 4, 4) := by decide

/-! ## SimulationResults -/

/-- Clause "simulation-results object": parameters (any chain), `runned_reps`,
    `current_rep`, `original_filename` and every result of every name (several
    per name) come back from `from_json(to_json(s))`.  `goodSim`: the parameters
    are supported, every result is in a state covered by `result_roundtrip` /
    `choice_roundtrip`, and no result is *named* `_is_set`/`_is_numpy_array`
    (result names are JSON object keys). -/
theorem simresults_roundtrip (s : SimResults) (fuel : Nat) (h : goodSim s)
    (hf : s.params.length ≤ fuel) : simFromJson fuel (simToJson s) = .ok s.norm :=
  sim_json_roundtrip s fuel h hf

/-- saving and loading the loaded `SimulationResults` again changes nothing, and
    its JSON text is the original text -/
theorem simresults_second_roundtrip (s : SimResults) (fuel : Nat) (h : goodSim s)
    (hf : s.params.length ≤ fuel) :
    simFromJson fuel (simToJson s.norm) = .ok s.norm ∧ simToJson s.norm = simToJson s := by
  constructor
  · have := sim_json_roundtrip s.norm fuel (goodSim_norm s h)
      (by simp only [SimResults.norm, normChain_length]; exact hf)
    rwa [SimResults.norm_norm] at this
  · exact simToJson_norm s

/-- Clause "writing it to … a file whose name embeds parameter values", `.json`
    target: `save_to_file` stores the object with `original_filename` set to the
    template under the expanded name and `load_from_file` of the returned name
    gives that object back. -/
theorem save_load_json (fr : Nat → PyFloat → String) (st : Store) (s : SimResults) (txt : String)
    (tpl : List Seg) (ext stem : String) (n : Node) (rest : Chain) (fuel : Nat)
    (hp : s.params = n :: rest) (hn : getFilename fr n.parameters txt tpl = .ok stem)
    (hfmt : fmtOf (normExt ext) = some .json) (h : goodSim s) (hf : s.params.length ≤ fuel) :
    ∃ st' f, saveToFile fr st s txt tpl ext =
        .ok (st', { s with originalFilename := .str (txt ++ normExt ext) }, f)
      ∧ f = { stem := stem, ext := normExt ext }
      ∧ loadFromFile fuel st' f = .ok ({ s with originalFilename := .str (txt ++ normExt ext) } : SimResults).norm := by
  refine ⟨_, _, saveToFile_eq fr st s txt tpl ext stem n rest .json hp hn hfmt, rfl, ?_⟩
  rw [loadFromFile_json fuel st stem ext _ hfmt]
  exact sim_json_roundtrip _ fuel (goodSim_set_filename s _ h) hf

/-- `.pickle` target and the no-extension default (which appends `.pickle`):
    the loaded object is the saved object itself (pickle is trusted). -/
theorem save_load_pickle (fr : Nat → PyFloat → String) (st : Store) (s : SimResults) (txt : String)
    (tpl : List Seg) (ext stem : String) (n : Node) (rest : Chain) (fuel : Nat)
    (hp : s.params = n :: rest) (hn : getFilename fr n.parameters txt tpl = .ok stem)
    (hfmt : fmtOf (normExt ext) = some .pickle) :
    ∃ st' f, saveToFile fr st s txt tpl ext =
        .ok (st', { s with originalFilename := .str (txt ++ normExt ext) }, f)
      ∧ f = { stem := stem, ext := normExt ext }
      ∧ loadFromFile fuel st' f = .ok { s with originalFilename := .str (txt ++ normExt ext) } := by
  refine ⟨_, _, saveToFile_eq fr st s txt tpl ext stem n rest .pickle hp hn hfmt, rfl, ?_⟩
  exact loadFromFile_pickle fuel st stem ext _ hfmt

/-- the extension dispatch: `''` and `.pickle` select pickle, `.json` selects
    JSON, anything else is rejected with `KeyError` before a file is written -/
theorem extension_dispatch :
    fmtOf (normExt "") = some .pickle ∧ fmtOf (normExt ".pickle") = some .pickle ∧
    fmtOf (normExt ".json") = some .json ∧ fmtOf (normExt ".txt") = .none := by decide

theorem save_unknown_extension_rejected (fr : Nat → PyFloat → String) (st : Store) (s : SimResults)
    (txt : String) (tpl : List Seg) (ext stem : String) (n : Node) (rest : Chain)
    (hp : s.params = n :: rest) (hn : getFilename fr n.parameters txt tpl = .ok stem)
    (hfmt : fmtOf (normExt ext) = .none) : saveToFile fr st s txt tpl ext = raise .KeyError :=
  saveToFile_unknown_ext fr st s txt tpl ext stem n rest hp hn hfmt

/-- Robustness R4 (rejected calls): a `save_to_file` that raises leaves the object
    (every field, `original_filename` included) and the file store unchanged. -/
theorem save_rejected_leaves_state (fr : Nat → PyFloat → String) (st : Store) (s : SimResults)
    (txt : String) (tpl : List Seg) (ext : String) (e : Err)
    (h : (saveStep fr st s txt tpl ext).2 = .error e) : (saveStep fr st s txt tpl ext).1 = (st, s) := by
  unfold saveStep at h ⊢
  cases hs : saveToFile fr st s txt tpl ext with
  | error e' => rfl
  | ok r => rw [hs] at h; obtain ⟨st', s', f⟩ := r; cases h

/-- … and a successful one changes nothing of the object but `original_filename`
    (R3: saving does not modify what is saved). -/
theorem save_modifies_only_original_filename (fr : Nat → PyFloat → String) (st st' : Store)
    (s s' : SimResults) (txt : String) (tpl : List Seg) (ext : String) (f : FName)
    (h : saveToFile fr st s txt tpl ext = .ok (st', s', f)) :
    s' = { s with originalFilename := .str (txt ++ normExt ext) } := by
  unfold saveToFile at h
  cases hp : s.params with
  | nil => simp only [hp] at h; cases h
  | cons n rest =>
    simp only [hp] at h
    cases hg : getFilename fr n.parameters txt tpl with
    | error e => rw [hg] at h; cases h
    | ok stem =>
      rw [hg] at h
      simp only [bind_ok] at h
      cases hf : fmtOf (normExt ext) with
      | none => rw [hf] at h; cases h
      | some fmt =>
        rw [hf] at h
        cases fmt <;> (injection h with h; injection h with _ h; injection h with h _; exact h.symm)

/-! ## file names -/

/-- Clause "distinct scalar values give distinct names": two parameter sets that
    differ in the parameter `n` only (all other fields render alike), whose
    renderings of `n` differ, give different names for every template that
    mentions `{n}` at least once — however often, wherever, and whatever the
    other fields and literal pieces are. -/
theorem filename_injective_field (fr : Nat → PyFloat → String) (n : String)
    (e1 e2 : List (String × PyVal)) (v1 v2 : PyVal) (t1 t2 : String) (segs : List Seg) (a b : String)
    (hv1 : lookup n e1 = some v1) (hv2 : lookup n e2 = some v2)
    (ht1 : render fr v1 = some t1) (ht2 : render fr v2 = some t2)
    (hag : agreeExcept fr n e1 e2) (hocc : 0 < countField n segs)
    (ha : expand fr e1 segs = .ok a) (hb : expand fr e2 segs = .ok b) (hne : t1 ≠ t2) : a ≠ b := by
  intro hab
  subst hab
  have hl := expand_length fr n e1 e2 v1 v2 t1 t2 hv1 hv2 ht1 ht2 hag segs a a ha hb
  have hlen : t1.length = t2.length := by
    have : countField n segs * t2.length = countField n segs * t1.length := by omega
    exact (Nat.eq_of_mul_eq_mul_left hocc this).symm
  exact hne (expand_eq_pieces fr n e1 e2 v1 v2 t1 t2 hv1 hv2 ht1 ht2 hag hlen segs a a ha hb rfl hocc)

/-- … and renderings of integer (Python or numpy, any width), string and bool
    values are injective, so for those kinds "different value" implies
    "different rendering".  For floats the rendering is `repr` (CPython, not
    modelled): injective iff `fr 64` is. -/
theorem render_injective (fr : Nat → PyFloat → String) :
    (∀ i j : Int, render fr (.int i) = render fr (.int j) → i = j) ∧
    (∀ (s1 s2 : Bool) (w1 w2 : Nat) (i j : Int), render fr (.npint s1 w1 i) = render fr (.npint s2 w2 j) → i = j) ∧
    (∀ s t : String, render fr (.str s) = render fr (.str t) → s = t) ∧
    (∀ b c : Bool, render fr (.bool b) = render fr (.bool c) → b = c) ∧
    ((∀ f g, fr 64 f = fr 64 g → f = g) →
      ∀ f g : PyFloat, render fr (.float f) = render fr (.float g) → f = g) := by
  refine ⟨?_, ?_, ?_, ?_, ?_⟩
  · intro i j h; simp only [render, Option.some.injEq] at h; exact Int.repr_inj.1 h
  · intro _ _ _ _ i j h; simp only [render, Option.some.injEq] at h; exact Int.repr_inj.1 h
  · intro s t h; simpa [render] using h
  · intro b c h
    cases b <;> cases c <;> first | rfl | (simp only [render] at h; revert h; decide)
  · intro hfr f g h; simp only [render, Option.some.injEq] at h; exact hfr f g h

/-- Clause "the file name … is a deterministic function of the parameter
    values": the name depends on the values only, not on their numpy types — the
    loaded (normalised) parameters give the same name as the original ones —
    provided numpy formats its narrow floats like the Python float of the same
    value (`fr w = fr 64`; true for the pinned numpy, checked by the harness on
    every generated float). -/
theorem filename_same_after_reload (fr : Nat → PyFloat → String) (hfr : ∀ w f, fr w f = fr 64 f)
    (env : List (String × PyVal)) (txt : String) (segs : List Seg) :
    getFilename fr (normKVs env) txt segs = getFilename fr env txt segs := by
  unfold getFilename
  rw [expand_norm fr hfr env segs]

/-- a template naming a parameter that does not exist is used unchanged -/
theorem filename_missing_key (fr : Nat → PyFloat → String) (env : List (String × PyVal)) (txt : String)
    (segs : List Seg) (h : expand fr env segs = raise .KeyError) : getFilename fr env txt segs = .ok txt := by
  unfold getFilename; rw [h]; rfl

/-- non-vacuity of `filename_injective_field`: `res_{snr}_{M}` with `snr = 5`
    and `snr = 15` -/
example : expand (fun _ _ => "?") [("snr", .int 5), ("M", .int 4)] [.lit "res_", .field "snr", .lit "_", .field "M"]
      = .ok "res_5_4" ∧
    expand (fun _ _ => "?") [("snr", .int 15), ("M", .int 4)] [.lit "res_", .field "snr", .lit "_", .field "M"]
      = .ok "res_15_4" := by constructor <;> rfl

/-! ## robustness R15 — distinct values that are merely close

The model has no tolerance anywhere: a float is an exact dyadic rational, a
parameter is found by its name, a file name is built from the exact rendering.
The theorems below say so in the form a "robustness" edit (`np.isclose`, a
rounded key, an absolute threshold) would violate. -/

/-- R15, value layer (`lookup_exact`): the JSON text determines the value. Two
    supported values with the same text are the same value up to the numpy type
    of their scalars — there is no pair of *different* values, however close,
    that is written alike. -/
theorem json_text_exact (v1 v2 : PyVal) (h1 : wf v1 = true) (h2 : wf v2 = true)
    (h : enc v1 = enc v2) : norm v1 = norm v2 := by
  have a := dec_enc v1 h1
  have b := dec_enc v2 h2
  rw [h, b] at a
  injection a with a
  exact a.symm

/-- … in particular two different floats (Python or numpy, any width) have
    different texts and are loaded as different floats -/
theorem float_text_exact (f g : PyFloat) (w1 w2 : Nat) (h1 : w1 ≤ 64) (h2 : w2 ≤ 64) (hne : f ≠ g) :
    enc (.float f) ≠ enc (.float g) ∧ enc (.npfloat w1 f) ≠ enc (.npfloat w2 g) ∧
    dec (enc (.npfloat w1 f)) ≠ dec (enc (.npfloat w2 g)) := by
  refine ⟨?_, ?_, ?_⟩
  · intro h; exact hne (by simpa [enc] using h)
  · intro h; exact hne (by simpa [enc] using h)
  · intro h
    rw [dec_enc _ (by simp [wf, h1]), dec_enc _ (by simp [wf, h2])] at h
    injection h with h
    exact hne (by simpa [norm] using h)

/-- non-vacuity: the adjacent doubles 0.3 and 0.30000000000000004, and the
    noise powers 4e-12 and 4e-13 (as the binary64 values nearest to them) -/
example : enc (.float (.fin 5404319552844595 18014398509481984))
      ≠ enc (.float (.fin 1351079888211149 4503599627370496)) ∧
    enc (.float (.fin 4951760157141521 1237940039285380274899124224))
      ≠ enc (.float (.fin 3961408125713217 9903520314283042199192993792)) := by
  constructor <;> (intro h; revert h; simp [enc])

/-- R15, setter (`setter_takes_effect_for_every_new_value`): after `p[k] = v2`
    (or `p.add(k, v2)`) on an object — a child of any chain included — that held
    any other value `v1` for `k`, the object is written differently than with
    `v1`, and what is read back holds `v2` for `k`; "different" is difference of
    the values (up to numpy scalar types), with no closeness threshold. -/
theorem setter_takes_effect_for_every_new_value (n : Node) (rest : Chain) (k : String) (v1 v2 : PyVal)
    (fuel : Nat) (hw : wfChain (n :: rest) = true) (hk : reserved k = false)
    (h1 : wf v1 = true) (h2 : wf v2 = true) (hne : norm v1 ≠ norm v2) (hf : rest.length + 1 ≤ fuel) :
    paramsToJson ({ n with parameters := setKV k v2 (setKV k v1 n.parameters) } :: rest)
        ≠ paramsToJson ({ n with parameters := setKV k v1 n.parameters } :: rest) ∧
    ∃ n', paramsFromJson fuel
          (paramsToJson ({ n with parameters := setKV k v2 (setKV k v1 n.parameters) } :: rest))
        = .ok (n' :: normChain rest) ∧ lookup k n'.parameters = some (norm v2) := by
  rw [setKV_setKV]
  obtain ⟨a, ha, hla, _, _⟩ := child_keeps_own_value n rest k v1 fuel hw hk h1 hf
  obtain ⟨b, hb, hlb, _, _⟩ := child_keeps_own_value n rest k v2 fuel hw hk h2 hf
  refine ⟨?_, b, hb, hlb⟩
  intro h
  rw [h, ha] at hb
  injection hb with hb
  injection hb with hb _
  rw [hb, hlb] at hla
  injection hla with hla
  exact hne hla.symm

/-- R15, file names: after `p[k] = v2` the name derived from any template that
    mentions `{k}` differs from the name derived while `k` was `v1`, whenever the
    two values are rendered differently (for int / str / bool values: whenever
    they differ, `render_injective`; for floats: `repr` is injective). -/
theorem filename_follows_setter (fr : Nat → PyFloat → String) (k : String)
    (env : List (String × PyVal)) (v1 v2 : PyVal) (t1 t2 : String) (segs : List Seg) (a b : String)
    (ht1 : render fr v1 = some t1) (ht2 : render fr v2 = some t2) (hocc : 0 < countField k segs)
    (ha : expand fr (setKV k v1 env) segs = .ok a)
    (hb : expand fr (setKV k v2 (setKV k v1 env)) segs = .ok b) (hne : t1 ≠ t2) : a ≠ b := by
  rw [setKV_setKV] at hb
  exact filename_injective_field fr k _ _ v1 v2 t1 t2 segs a b (lookup_setKV_self k v1 env)
    (lookup_setKV_self k v2 env) ht1 ht2 (agreeExcept_setKV fr k v1 v2 env) hocc ha hb hne

/-! ## robustness R16 — argument identity and buffer reuse

The model is functional: an object is its contents. A caller who keeps one
preallocated array, list or dict and refills it in place between two calls has,
for everything the serialisation code may observe, assigned the new contents
(`setKV`); the same object given for two parameters is the same value under two
names. -/

/-- R16 (`refill_eq_fresh`): whatever sequence of contents `vs` the buffer held
    before, once it holds `v` the long-lived object is written exactly like a
    fresh object that was given `v` — nothing of the earlier contents is left. -/
theorem refill_eq_fresh (n : Node) (rest : Chain) (k : String) (vs : List PyVal) (v : PyVal) :
    paramsToJson ({ n with parameters := (vs ++ [v]).foldl (fun acc x => setKV k x acc) n.parameters } :: rest)
      = paramsToJson ({ n with parameters := setKV k v n.parameters } :: rest) := by
  rw [foldl_setKV_last]

/-- R16: one value under two names (the same array object given for two
    parameters) is read back under both names, and a later refill seen through
    one name only (`k1`) leaves the other entry as it was written. -/
theorem same_value_in_two_roles (k1 k2 : String) (v v' : PyVal) (env : List (String × PyVal))
    (hne : (k1 == k2) = false) :
    lookup k1 (setKV k1 v (setKV k2 v env)) = some v ∧ lookup k2 (setKV k1 v (setKV k2 v env)) = some v ∧
    lookup k2 (setKV k1 v' (setKV k1 v (setKV k2 v env))) = some v := by
  refine ⟨lookup_setKV_self _ _ _, ?_, ?_⟩
  · rw [lookup_setKV_other k1 k2 v hne, lookup_setKV_self]
  · rw [lookup_setKV_other k1 k2 v' hne, lookup_setKV_other k1 k2 v hne, lookup_setKV_self]

/-- R16 (earlier results are not changed by later calls): a later
    `save_to_file` — of the same long-lived object after a refill, or of any
    other object — adds its own file and leaves every file with another name as
    it was; loading an earlier file afterwards gives what it gave before. -/
theorem later_save_keeps_earlier_files (fr : Nat → PyFloat → String) (st st' : Store)
    (s s' : SimResults) (txt : String) (tpl : List Seg) (ext : String) (f g : FName) (fuel : Nat)
    (h : saveToFile fr st s txt tpl ext = .ok (st', s', f))
    (hg : f ≠ { g with ext := normExt g.ext }) :
    loadFromFile fuel st' g = loadFromFile fuel st g := by
  obtain ⟨c, rfl⟩ := saveToFile_store fr st st' s s' txt tpl ext f h
  unfold loadFromFile
  simp only [storeRead_cons_ne st f _ c hg]

/-- … while a later save under the *same* name replaces the file: the load gives
    the object as it was at the later save (JSON target) -/
theorem later_save_same_name_wins (fr : Nat → PyFloat → String) (st0 st1 st2 : Store)
    (s1 s1' s2 s2' : SimResults) (txt : String) (tpl : List Seg) (ext : String) (f : FName) (fuel : Nat)
    (_h1 : saveToFile fr st0 s1 txt tpl ext = .ok (st1, s1', f))
    (h2 : saveToFile fr st1 s2 txt tpl ext = .ok (st2, s2', f))
    (hfmt : fmtOf (normExt ext) = some .json) (hgood : goodSim s2) (hf : s2.params.length ≤ fuel) :
    loadFromFile fuel st2 f = .ok s2'.norm := by
  cases hp : s2.params with
  | nil => unfold saveToFile at h2; simp only [hp] at h2; cases h2
  | cons n rest =>
    cases hn : getFilename fr n.parameters txt tpl with
    | error e => unfold saveToFile at h2; simp only [hp, hn] at h2; cases h2
    | ok stem =>
      obtain ⟨st', f', hs, hf', hl⟩ := save_load_json fr st1 s2 txt tpl ext stem n rest fuel hp hn hfmt hgood hf
      rw [hs] at h2
      injection h2 with h2
      injection h2 with ha h2
      injection h2 with hb hc
      subst ha; subst hb; subst hc
      exact hl

open PyPhysim.Generated

/-! ## the structure regenerated from the source (`Generated/C17Fields.lean`) -/

/-- R1 (tie): the dictionaries the model's `_to_dict` functions build are exactly the
    ones the (key, attribute) tables regenerated from the source describe — same keys,
    same order, each value the attribute the source takes it from. -/
theorem generated_field_tables_match_model :
    (∀ r : Result, (dictOf r.attr C17Fields.resultWrites).map PyVal.dict = some (resultToDict r)) ∧
    (∀ (n : Node) (rest : Chain),
      (dictOf (chainAttr n rest) C17Fields.paramsWrites).map PyVal.dict = some (paramsToDict (n :: rest))) ∧
    (∀ s : SimResults, (dictOf s.attr C17Fields.simWrites).map PyVal.dict = some (simToDict s)) ∧
    C17Fields.choiceTypeCode = 3 := by
  refine ⟨fun r => rfl, fun n rest => rfl, fun s => rfl, rfl⟩

/-- R1 (tie): writer and reader tables of the source are mutually consistent: every key
    written is read back into the attribute it came from and nothing else is read (a
    field dropped or renamed on one side, or read into another attribute, makes this
    false).  The replay path of `Result._from_dict` stores or replays written keys only
    and rebuilds the four attributes it does not store. -/
theorem generated_fields_round_trip :
    tablesAgree C17Fields.resultWrites C17Fields.resultReadsPlain = true ∧
    choiceAgree C17Fields.resultWrites C17Fields.resultReadsChoice
      ["_value", "_total", "_result_sum", "_result_squared_sum", "num_updates", "_total_list"] = true ∧
    tablesAgree C17Fields.simWrites C17Fields.simReads = true ∧
    tablesAgree C17Fields.paramsWrites C17Fields.paramsReads = true ∧
    C17Fields.resultDispatchKeys = ["update_type_code", "value"] := by
  refine ⟨by decide, by decide, by decide, by decide, by decide⟩

/-- R1 (tie): the model's `_from_dict` functions put each key where the reader tables of
    the source say: after reading a dictionary, the attribute named by the table holds
    the value found under the key. -/
theorem generated_reader_tables_match_model :
    (∀ r : Result, r.typeCode ≠ 3 →
      ∃ r', resultFromDict (resultToDict r) = .ok r' ∧
        ∀ p ∈ C17Fields.resultReadsPlain, r'.attr p.2 = lookupV p.1 (resultToDict r)) ∧
    (∀ (r : Result) (dt : String) (cs : List PyVal) (counts : List Int), r.typeCode = 3 →
      r.value = .ndarray dt [counts.length] (.list cs) → intList cs = some counts →
      ∃ r', resultFromDict (resultToDict r) = .ok r' ∧
        r' = choiceReplay r.name r.acc counts r.valueList ∧
        ∀ p ∈ C17Fields.resultReadsChoice,
          if isSpecial p.2 then p.1 = "value" else r'.attr p.2 = lookupV p.1 (resultToDict r)) ∧
    (∀ (n : Node) (rest : Chain) (fuel : Nat), (n :: rest).length ≤ fuel →
      paramsFromDict fuel (paramsToDict (n :: rest)) = .ok (n :: rest) ∧
        ∀ p ∈ C17Fields.paramsReads, chainAttr n rest p.2 = lookupV p.1 (paramsToDict (n :: rest))) ∧
    (∀ (s : SimResults) (fuel : Nat), goodSim s → s.params.length ≤ fuel →
      ∃ s', simFromDict fuel (norm (simToDict s)) = .ok s' ∧
        ∀ p ∈ C17Fields.simReads, s'.attr p.2 = lookupV p.1 (norm (simToDict s))) := by
  refine ⟨?_, ?_, ?_, ?_⟩
  · intro r ht
    refine ⟨r, ?_, ?_⟩
    · rw [result_keys]
      have : (r.typeCode == 3) = false := beq_false_of_ne ht
      simp [this]
    · intro p hp
      simp only [C17Fields.resultReadsPlain, List.mem_cons, List.mem_nil_iff, or_false] at hp
      rcases hp with rfl | rfl | rfl | rfl | rfl | rfl | rfl | rfl | rfl | rfl <;> rfl
  · intro r dt cs counts ht hv hc
    refine ⟨choiceReplay r.name r.acc counts r.valueList, ?_, rfl, ?_⟩
    · rw [result_keys]
      have : (r.typeCode == 3) = true := by simp [ht]
      simp [this, hv, hc, isIterable]
    · intro p hp
      simp only [C17Fields.resultReadsChoice, List.mem_cons, List.mem_nil_iff, or_false] at hp
      rcases hp with rfl | rfl | rfl | rfl | rfl | rfl
      · rfl
      · rfl
      · show (choiceReplay r.name r.acc counts r.valueList).attr "_update_type_code" = _
        simp [choiceReplay, Result.attr, lookupV, resultToDict, lookup, ht]
      · rfl
      · rfl
      · rfl
  · intro n rest fuel hf
    refine ⟨paramsFromDict_toDict _ _ (by simp) hf, ?_⟩
    intro p hp
    simp only [C17Fields.paramsReads, List.mem_cons, List.mem_nil_iff, or_false] at hp
    rcases hp with rfl | rfl | rfl | rfl <;> rfl
  · intro s fuel h hf
    refine ⟨s.norm, sim_dict_roundtrip s fuel h hf, ?_⟩
    intro p hp
    rw [← simToDict_norm]
    simp only [C17Fields.simReads, List.mem_cons, List.mem_nil_iff, or_false] at hp
    rcases hp with rfl | rfl | rfl | rfl | rfl <;> rfl

/-- R1 (tie): a key read with a default (`d.get(key, default)`) is `current_rep`, default
    `-1`, as in the model: a dictionary written before the key existed loads with it. -/
theorem generated_default_matches_model (n : Node) (rr ofn : PyVal) :
    C17Fields.simReadDefaults = [("current_rep", -1)] ∧
    (simFromDict 1 (.dict [("params", paramsToDict [n]), ("runned_reps", rr), ("original_filename", ofn),
        ("results", .dict [])])).map (·.currentRep) = .ok (.int (-1)) := by
  refine ⟨rfl, ?_⟩
  have h := paramsFromDict_toDict [n] 1 (by simp) (by simp)
  simp [simFromDict, lookup, resultsFromKVs, h, Except.map]

/-- R1 (tie): the decision ladder of `NumpyOrSetEncoder.default` regenerated from the
    source (test order, class accepted by each branch, JSON form returned) yields, for
    every value of the five classes it handles, exactly what the model's `enc` yields. -/
theorem generated_encoder_ladder_matches_model (v : PyVal) (h : (classOf v).isSome = true) :
    runLadder C17Fields.encLadder v = some (enc v) := by
  cases v <;> first | (simp [classOf] at h; done) | rfl | simp [runLadder, C17Fields.encLadder, classOf, applyForm, fieldsJson, fieldJson, enc]

/-- R1 (tie): the tests of `json_numpy_or_set_obj_hook` regenerated from the source are
    the model's `objHook`: a dictionary holding a mark set to `True` and the keys the
    source reads is rebuilt as the model rebuilds it, a mark that is not `True` is
    refused; and encoder and hook agree on marks and keys (a key renamed on one side
    makes this false). -/
theorem generated_hook_matches_model (val : String → PyVal) :
    (∀ e ∈ C17Fields.hookLadder,
      objHook ((e.1, .bool true) :: e.2.2.map (fun k => (k, val k))) = rebuild e.2.1 val ∧
      objHook [(e.1, .bool false)] = raise .ValueError) ∧
    encHookAgree C17Fields.encLadder C17Fields.hookLadder = true ∧
    C17Fields.hookLadder.map (·.1) = ["_is_numpy_array", "_is_set"] := by
  refine ⟨?_, by decide, rfl⟩
  intro e he
  simp only [C17Fields.hookLadder, List.mem_cons, List.mem_nil_iff, or_false] at he
  rcases he with rfl | rfl <;> exact ⟨rfl, rfl⟩

example : (classOf (.npfloat 32 (.fin 1 2))).isSome = true := rfl
example : ∃ r : Result, r.typeCode ≠ 3 := ⟨{ (default : Result) with typeCode := 0 }, by decide⟩

end PyPhysim.C17
