import PyPhysim.Proofs.RobustC16

/-!
# C16 — robustness classes R15 (values that are merely close) and R16 (argument identity)

Property theorems only (lemmas: `Proofs/RobustC16.lean`; call machine:
`Model/CallsC16.lean`).  They complement `Properties/C16.lean`:

* R15 — the curves of the model are functions of the *exact* SNR value and packet
  length: for a strictly decreasing `Q` (the Gaussian tail is one, `gaussian_tail_strict`)
  every curve is strictly decreasing in the SNR, hence injective — two SNR values
  that differ, by however little, never share an error rate; two packet lengths
  never share a packet error rate.  A tolerance-based lookup / cache / de-duplication
  (`np.isclose`, rounded keys) is therefore never value-preserving.
* R16 — a caller who keeps one argument array and refills it in place gets, from
  every call, the pure function of the contents at call time, whatever happened
  before; results already handed out never change.

Tie to the code: the R15 / R16 correspondence streams and oracles of
`harness/props/c16.py` (close-but-distinct SNR clusters told apart; histories of
2–4 calls on one refilled buffer).
-/
namespace PyPhysim.C16
open PyPhysim.C01 Set

variable {Q : ℝ → ℝ}

/-! ### R15 -/

/-- R15: PSK — SER and BER are strictly decreasing in the SNR (`M ≥ 2`, `k ≥ 1` bits). -/
theorem psk_strict_in_snr (hs : StrictAntiOn Q (Ici 0)) (M k : Nat) (hM : 2 ≤ M) (hk : 1 ≤ k) :
    StrictAnti (pskSER Q M) ∧ StrictAnti (pskBER Q M k) := by
  have e2 : ((2:Nat):ℝ) = 2 := by norm_num
  have e1 : ((1:Nat):ℝ) = 1 := by norm_num
  have h := coef_Q_arg_strictAnti hs 2 2 (Real.sin (Real.pi / (M:ℝ))) (by norm_num) (by norm_num)
    (sin_pi_div_pos M hM)
  have hser : StrictAnti (pskSER Q M) := by
    intro s t hst
    have := h hst
    simpa only [pskSER, pskArg_eq, e2] using this
  refine ⟨hser, ?_⟩
  intro s t hst
  have hkpos : (0:ℝ) < k := by exact_mod_cast hk
  simp only [pskBER, e1]
  exact mul_lt_mul_of_pos_left (hser hst) (by positivity)

/-- R15: BPSK — SER (= BER) is strictly decreasing in the SNR. -/
theorem bpsk_strict_in_snr (hs : StrictAntiOn Q (Ici 0)) : StrictAnti (bpskSER Q) := by
  have h := coef_Q_arg_strictAnti hs 1 2 1 one_pos (by norm_num) one_pos
  intro s t hst
  have := h hst
  simpa only [bpskSER, bpskArg_eq, one_mul] using this

/-- R15: square QAM — SER and BER are strictly decreasing in the SNR (`M ≥ 2`, `k ≥ 1`). -/
theorem qam_strict_in_snr (hQ : IsQ Q) (hs : StrictAntiOn Q (Ici 0)) (M k : Nat) (hM : 2 ≤ M) (hk : 1 ≤ k) :
    StrictAnti (qamSER Q M) ∧ StrictAnti (qamBER Q M k) := by
  have e2 : ((2:Nat):ℝ) = 2 := by norm_num
  have e1 : ((1:Nat):ℝ) = 1 := by norm_num
  have hM' : (2:ℝ) ≤ M := by exact_mod_cast hM
  have ha : (0:ℝ) < 3 / ((M:ℝ) - 1) := by apply div_pos (by norm_num); linarith
  have h := coef_Q_arg_strictAnti hs (qamCoef (α := ℝ) M) (3 / ((M:ℝ) - 1)) 1 (qamCoef_pos M hM) ha one_pos
  have hp : StrictAnti (qamPsc Q M) := by
    intro s t hst
    have := h hst
    simpa only [qamPsc, qamArg_eq] using this
  constructor
  · intro s t hst
    have h1 := hp hst
    obtain ⟨_, hs1⟩ := qam_psc_bounds_aux hQ M hM s
    obtain ⟨_, ht1⟩ := qam_psc_bounds_aux hQ M hM t
    simp only [qamSER, e1]
    nlinarith
  · intro s t hst
    have hkpos : (0:ℝ) < k := by exact_mod_cast hk
    simp only [qamBER, e2]
    exact div_lt_div_of_pos_right (mul_lt_mul_of_pos_left (hp hst) (by norm_num)) hkpos

/-- R15: distinct SNR values never share an error rate (injectivity), for every modulator. -/
theorem distinct_snr_distinct_rates (hQ : IsQ Q) (hs : StrictAntiOn Q (Ici 0)) (M k : Nat) (hM : 2 ≤ M)
    (hk : 1 ≤ k) (s t : ℝ) (hne : s ≠ t) :
    pskSER Q M s ≠ pskSER Q M t ∧ pskBER Q M k s ≠ pskBER Q M k t ∧ bpskSER Q s ≠ bpskSER Q t ∧
      qamSER Q M s ≠ qamSER Q M t ∧ qamBER Q M k s ≠ qamBER Q M k t := by
  obtain ⟨p1, p2⟩ := psk_strict_in_snr hs M k hM hk
  obtain ⟨q1, q2⟩ := qam_strict_in_snr hQ hs M k hM hk
  have b := bpsk_strict_in_snr hs
  exact ⟨p1.injective.ne hne, p2.injective.ne hne, b.injective.ne hne, q1.injective.ne hne, q2.injective.ne hne⟩

/-- R15: the packet error rate tells every two packet lengths apart (`0 < BER < 1`) and every two
    bit error rates apart (`L ≥ 1`). -/
theorem per_strict (b : ℝ) (h0 : 0 < b) (h1 : b < 1) :
    StrictMono (fun L : Nat => per b L) ∧
      ∀ L : Nat, 1 ≤ L → ∀ a c : ℝ, a < c → c ≤ 1 → per a L < per c L :=
  ⟨per_strict_length b h0 h1, fun L hL a c hac hc => per_strict_ber L hL a c hac hc⟩

/-- R15, non-vacuity: the Gaussian tail `Qg x = P(N > x)` satisfies `IsQ` and is strictly decreasing
    everywhere, so the strictness hypothesis above holds for the function the code evaluates. -/
theorem gaussian_tail_strict : IsQ Qg ∧ StrictAntiOn Qg (Ici 0) :=
  ⟨isQ_gaussian, Qg_strictAnti.strictAntiOn _⟩

example : ∃ Q : ℝ → ℝ, IsQ Q ∧ StrictAntiOn Q (Ici 0) := ⟨Qg, gaussian_tail_strict⟩

/-! ### R16 -/

section
variable {α : Type} [Sub α] [Mul α] [NatCast α]

/-- R16: after ANY history, refilling the buffer with `v` and calling `c` hands out exactly the pure
    function of `v` — the same value a fresh modulator returns for a fresh array with these contents
    (`run m ([], []) [refill v, call c]`), appended to results that are otherwise untouched. -/
theorem call_sees_contents_at_call_time (m : Curves α) (st : St α) (ops : List (Op α)) (v : List α) (c : Call) :
    (run m st (ops ++ [Op.refill v, Op.call c])).2 = (run m st ops).2 ++ [evalCall m c v] ∧
      (run m ([], []) [Op.refill v, Op.call c]).2 = [evalCall m c v] := by
  constructor
  · rw [run_append]; simp [run, step]
  · simp [run, step]

/-- R16: a call does not modify the caller's buffer, and a second call on the unchanged buffer returns
    the same value again. -/
theorem call_leaves_buffer (m : Curves α) (st : St α) (c c' : Call) :
    (run m st [Op.call c]).1 = st.1 ∧
      (run m st [Op.call c, Op.call c']).2 = st.2 ++ [evalCall m c st.1, evalCall m c' st.1] := by
  obtain ⟨buf, outs⟩ := st
  simp [run, step]

/-- R16: results already handed out never change, whatever the caller does afterwards (refills,
    further calls): the result list only grows at its end. -/
theorem earlier_results_unchanged (m : Curves α) (st : St α) (ops later : List (Op α)) :
    ∃ more, (run m st (ops ++ later)).2 = (run m st ops).2 ++ more := by
  rw [run_append]; exact run_results_extend m later _
end

end PyPhysim.C16
