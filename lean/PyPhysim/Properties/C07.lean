import PyPhysim.Model.C07
import PyPhysim.Generated.C07SaveRule

namespace PyPhysim.C07

/-- **Tie to the source (regenerated on every run).**  The file-system steps that
    `_save_to_pickle` / `_save_to_json` perform in the current source are those of
    the `atomic` discipline, and the save rule is the model's `Cfg.due` with the
    constants of the source. -/
theorem generated_save_matches_model {R T C : Type} (c : C) (cfg : Cfg R T)
    (hp : cfg.period = Generated.C07.savePeriodReps) (hs : cfg.secs = Generated.C07.savePeriodSecs) :
    Generated.C07.savePickleOps c = saveOps .atomic c ∧
    Generated.C07.saveJsonOps c = saveOps .atomic c ∧
    ∀ clk rep, cfg.due clk rep = Generated.C07.dueSave clk.since rep := by
  refine ⟨rfl, rfl, ?_⟩
  intro clk rep
  simp [Cfg.due, Generated.C07.dueSave, hp, hs]

end PyPhysim.C07
